(* C18: the validator model accepts exactly the declaratively valid shells / potentials; shape of the translated schemas. *)
From BSE Require Import Model.Val Model.Num Model.Basis Model.Manip Model.Memo Model.Schema Gen.GenSchema Model.Compose Model.Validator.
From BSE Require Import Proofs.ValidatorDefs Proofs.PruneFS Proofs.NumInstance Proofs.MemoSpec.

(* ---------- the result monad on unit ---------- *)
Lemma seq_ok : forall (a b : res unit), (a ;; b) = inr tt <-> a = inr tt /\ b = inr tt.
Proof.
  intros [e|[]] b; cbn [bind]; split.
  - discriminate.
  - intros [H _]; discriminate.
  - intros H; split; [reflexivity | exact H].
  - intros [_ H]; exact H.
Qed.

Lemma seq_err : forall (a b : res unit) e, (a ;; b) = inl e -> a = inl e \/ b = inl e.
Proof. intros [e'|[]] b e H; cbn [bind] in H; [left | right]; exact H. Qed.

Lemma chk_ok : forall (c : bool) e, (if c then @fail unit e else ok tt) = inr tt <-> c = false.
Proof. intros [|] e; split; intros H; try discriminate; reflexivity. Qed.

Lemma chk_ok' : forall (c : bool) e, (if c then ok tt else @fail unit e) = inr tt <-> c = true.
Proof. intros [|] e; split; intros H; try discriminate; reflexivity. Qed.

Lemma chk_err : forall (c : bool) e0 e, (if c then @fail unit e0 else ok tt) = inl e -> e = e0.
Proof. intros [|] e0 e H; [injection H; auto | discriminate]. Qed.

Lemma chk_err' : forall (c : bool) e0 e, (if c then ok tt else @fail unit e0) = inl e -> e = e0.
Proof. intros [|] e0 e H; [discriminate | injection H; auto]. Qed.

(* ---------- boolean list facts ---------- *)
Lemma existsb_false : forall A (f : A -> bool) l, existsb f l = false <-> forall x, In x l -> f x = false.
Proof.
  intros A f l; split.
  - intros H x Hx. destruct (f x) eqn:E; [|reflexivity].
    assert (existsb f l = true) by (apply existsb_exists; exists x; auto). congruence.
  - intros H. destruct (existsb f l) eqn:E; [|reflexivity].
    apply existsb_exists in E. destruct E as [x [Hx Hf]]. rewrite (H x Hx) in Hf. discriminate.
Qed.

Lemma forallb_false : forall A (f : A -> bool) l, forallb f l = false <-> exists x, In x l /\ f x = false.
Proof.
  intros A f; induction l as [|a l IH]; cbn [forallb].
  - split; [discriminate | intros [x [[] _]]].
  - rewrite andb_false_iff, IH. split.
    + intros [H | [x [Hx Hf]]]; [exists a; split; [left; reflexivity | exact H] | exists x; split; [right; exact Hx | exact Hf]].
    + intros [x [[Hx | Hx] Hf]]; [left; subst; exact Hf | right; exists x; auto].
Qed.

Lemma has_dup_false : forall A (eqb : A -> A -> bool), (forall a b, eqb a b = true -> eqb b a = true) -> forall l,
  has_dup eqb l = false <->
  (forall i j x y, nth_error l i = Some x -> nth_error l j = Some y -> i <> j -> eqb x y = false).
Proof.
  intros A eqb Hsym; induction l as [|a l IH]; cbn [has_dup].
  - split; [|reflexivity]. intros _ [|i] j x y H; discriminate H.
  - rewrite orb_false_iff, IH, existsb_false. split.
    + intros [Ha Hl] [|i] [|j] x y Hx Hy Hne; cbn [nth_error] in Hx, Hy.
      * congruence.
      * injection Hx as <-. apply Ha. eapply nth_error_In; exact Hy.
      * injection Hy as <-. destruct (eqb x a) eqn:E; [|reflexivity].
        apply Hsym in E. rewrite (Ha x) in E; [discriminate | eapply nth_error_In; exact Hx].
      * eapply Hl; eauto.
    + intros H; split.
      * intros y Hy. apply In_nth_error in Hy. destruct Hy as [j Hj].
        apply (H 0 (S j) a y); [reflexivity | exact Hj | discriminate].
      * intros i j x y Hx Hy Hne. apply (H (S i) (S j) x y); auto.
Qed.

Lemma list_eqb_sym : forall A (eqb : A -> A -> bool), (forall a b, eqb a b = true -> eqb b a = true) ->
  forall a b, list_eqb eqb a b = true -> list_eqb eqb b a = true.
Proof.
  intros A eqb Hs; induction a as [|x a IH]; intros [|y b] H; cbn [list_eqb] in *; try discriminate; [reflexivity|].
  apply andb_true_iff in H. destruct H as [H1 H2]. rewrite (Hs _ _ H1), (IH _ H2). reflexivity.
Qed.

Lemma row_same_sym : forall a b, row_same a b = true -> row_same b a = true.
Proof. intros a b. apply list_eqb_sym. exact same_s_sym. Qed.

(* ---------- numbers ---------- *)
Lemma all_parse_iff : forall l, all_parse l = true <-> Forall parses l.
Proof.
  intros l. unfold all_parse. rewrite forallb_forall, Forall_forall. split; intros H x Hx; specialize (H x Hx).
  - unfold parses. destruct (parse_num x) as [p|]; [exists p; reflexivity | discriminate].
  - destruct H as [p Hp]. rewrite Hp. reflexivity.
Qed.

Lemma positive_iff : forall s, positive s <-> parses s /\ nonpositive s = false.
Proof.
  intros s. unfold positive, parses, nonpositive. split.
  - intros [m [e [Hp Hm]]]. rewrite Hp. split; [eexists; reflexivity | apply Z.leb_gt; exact Hm].
  - intros [[[m e] Hp] Hn]. rewrite Hp in Hn. exists m, e. split; [exact Hp | apply Z.leb_gt; exact Hn].
Qed.

Lemma positive_all : forall l, Forall positive l <-> Forall parses l /\ existsb nonpositive l = false.
Proof.
  intros l. rewrite existsb_false, !Forall_forall. split.
  - intros H; split; intros x Hx; apply positive_iff; auto.
  - intros [H1 H2] x Hx. apply positive_iff. auto.
Qed.

Lemma nonzero_exists : forall g, forallb is0_s g = false <-> Exists nonzero g.
Proof. intros g. rewrite forallb_false, Exists_exists. reflexivity. Qed.

(* ---------- the transposed coefficient matrix ---------- *)
Lemma tr_used : forall n (M : list (list string)), Forall (fun g => List.length g = n) M ->
  (existsb (forallb is0_s) (tr_strings M) = false <->
   (M <> [] -> forall i, i < n -> exists g x, In g M /\ nth_error g i = Some x /\ nonzero x)).
Proof.
  intros n M HF. unfold tr_strings. destruct M as [|r M].
  - cbn. split; [intros _ H; congruence | reflexivity].
  - assert (Hne : r :: M <> []) by discriminate.
    destruct (@transpose_spec string "" n (r :: M) Hne HF) as [Tl Tn].
    rewrite existsb_false. split.
    + intros H _ i Hi.
      assert (Hc : forallb is0_s (nth i (transpose (r :: M)) []) = false).
      { apply H. apply nth_In. rewrite Tl. exact Hi. }
      rewrite (Tn i Hi) in Hc. apply forallb_false in Hc. destruct Hc as [x [Hx Hz]].
      apply in_map_iff in Hx. destruct Hx as [g [Hg Hin]].
      exists g, x. split; [exact Hin|]. split; [|exact Hz].
      subst x. apply nth_error_nth'. rewrite Forall_forall in HF. rewrite (HF g Hin). exact Hi.
    + intros H col Hcol. apply (In_nth _ _ []) in Hcol. destruct Hcol as [j [Hj Hc]].
      rewrite Tl in Hj. rewrite (Tn j Hj) in Hc. subst col.
      destruct (H Hne j Hj) as [g [x [Hg [Hx Hz]]]].
      apply forallb_false. exists x. split; [|exact Hz].
      apply in_map_iff. exists g. split; [|exact Hg]. apply nth_error_nth. exact Hx.
Qed.

(* ---------- validate_shell ---------- *)
Definition tag_chk (s : sshell) : res unit :=
  match am s with
  | [] => fail EValue
  | _ =>
    let spherical := orb (infix "spherical" (ftype s)) (infix "cartesian" (ftype s)) in
    if (zmax (am s) >? 1)%Z
    then (if orb (String.eqb (ftype s) "gto_spherical") (String.eqb (ftype s) "gto_cartesian") then ok tt else fail ERuntime)
    else (if spherical then fail ERuntime else ok tt)
  end.

Definition shell_cols (nprim : nat) : list (list string) -> res unit :=
  fix cols (cs : list (list string)) : res unit :=
     match cs with
     | [] => ok tt
     | g :: t => if negb (Nat.eqb (List.length g) nprim) then fail ERuntime else
                 if negb (all_parse g) then fail EValue else
                 if forallb is0_s g then fail ERuntime else cols t
     end.

Lemma validate_shell_unfold : forall s, validate_shell s =
  if Nat.eqb (List.length (exps s)) 0 then fail ERuntime else
  tag_chk s;;
  (if all_parse (exps s) then ok tt else fail EValue);;
  (if has_dup same_s (exps s) then fail ERuntime else ok tt);;
  (if existsb nonpositive (exps s) then fail ERuntime else ok tt);;
  shell_cols (List.length (exps s)) (coefs s);;
  (if andb (Nat.eqb (List.length (am s)) 1) (has_dup row_same (coefs s)) then fail ERuntime else ok tt);;
  (if existsb (forallb is0_s) (tr_strings (coefs s)) then fail ERuntime else ok tt);;
  (if andb (Nat.ltb 1 (List.length (am s))) (negb (Nat.eqb (List.length (coefs s)) (List.length (am s))))
   then fail ERuntime else ok tt).
Proof. reflexivity. Qed.

Lemma tag_ok : forall s, tag_chk s = inr tt <->
  am s <> [] /\
  ((zmax (am s) > 1)%Z -> ftype s = "gto_spherical" \/ ftype s = "gto_cartesian") /\
  ((zmax (am s) <= 1)%Z -> infix "spherical" (ftype s) = false /\ infix "cartesian" (ftype s) = false).
Proof.
  intros s. unfold tag_chk. destruct (am s) as [|a l] eqn:Ea.
  - split; [discriminate | intros [H _]; congruence].
  - set (z := zmax (a :: l)). cbv zeta. rewrite Z.gtb_ltb. destruct (Z.ltb_spec 1 z) as [Hz|Hz].
    + rewrite chk_ok', orb_true_iff, !String.eqb_eq. split.
      * intros H. split; [discriminate|]. split; [intros _; exact H | intros H1; lia].
      * intros [_ [H _]]. apply H. lia.
    + rewrite chk_ok, orb_false_iff. split.
      * intros H. split; [discriminate|]. split; [intros H1; lia | intros _; exact H].
      * intros [_ [_ H]]. apply H. exact Hz.
Qed.

Lemma tag_err : forall s e, tag_chk s = inl e -> e = ERuntime \/ e = EValue.
Proof.
  intros s e. unfold tag_chk. destruct (am s) as [|a l].
  - intros H; injection H; auto.
  - cbv zeta. destruct (zmax (a :: l) >? 1)%Z; intros H; [apply chk_err' in H | apply chk_err in H]; auto.
Qed.

Lemma cols_ok : forall n cs, shell_cols n cs = inr tt <->
  Forall (fun g => List.length g = n /\ Forall parses g /\ Exists nonzero g) cs.
Proof.
  intros n; induction cs as [|g t IH]; cbn [shell_cols].
  - split; [constructor | reflexivity].
  - destruct (Nat.eqb_spec (List.length g) n) as [El|El]; cbn [negb].
    + destruct (all_parse g) eqn:Ep; cbn [negb].
      * destruct (forallb is0_s g) eqn:Ez.
        -- split; [discriminate|]. intros H. inversion H as [|? ? [_ [_ Hz]] _]; subst.
           apply nonzero_exists in Hz. congruence.
        -- rewrite IH. split.
           ++ intros H. constructor; [|exact H]. split; [exact El|]. split; [apply all_parse_iff; exact Ep | apply nonzero_exists; exact Ez].
           ++ intros H. inversion H; assumption.
      * split; [discriminate|]. intros H. inversion H as [|? ? [_ [Hp _]] _]; subst.
        apply all_parse_iff in Hp. congruence.
    + split; [discriminate|]. intros H. inversion H as [|? ? [Hl _] _]; subst. congruence.
Qed.

Lemma cols_err : forall n cs e, shell_cols n cs = inl e -> e = ERuntime \/ e = EValue.
Proof.
  intros n; induction cs as [|g t IH]; intros e; cbn [shell_cols].
  - discriminate.
  - destruct (negb (Nat.eqb (List.length g) n)); [intros H; injection H; auto|].
    destruct (negb (all_parse g)); [intros H; injection H; auto|].
    destruct (forallb is0_s g); [intros H; injection H; auto|]. apply IH.
Qed.

Lemma cols_rect : forall n cs,
  Forall (fun g => List.length g = n /\ Forall parses g /\ Exists nonzero g) cs -> Forall (fun g : list string => List.length g = n) cs.
Proof. intros n cs H. eapply Forall_impl; [|exact H]. cbn. intros g [Hl _]; exact Hl. Qed.

Lemma single_dup_ok : forall (a : list Z) (M : list (list string)),
  andb (Nat.eqb (List.length a) 1) (has_dup row_same M) = false <->
  (List.length a = 1 -> forall i j g h, nth_error M i = Some g -> nth_error M j = Some h -> i <> j -> row_same g h = false).
Proof.
  intros a M. rewrite <- (has_dup_false _ row_same row_same_sym M).
  destruct (Nat.eqb_spec (List.length a) 1) as [E|E]; cbn [andb].
  - split; [intros H _; exact H | intros H; apply H; exact E].
  - split; [intros _ H; congruence | reflexivity].
Qed.

Lemma fused_ok : forall (a : list Z) (M : list (list string)),
  andb (Nat.ltb 1 (List.length a)) (negb (Nat.eqb (List.length M) (List.length a))) = false <->
  (1 < List.length a -> List.length M = List.length a).
Proof.
  intros a M. destruct (Nat.ltb_spec 1 (List.length a)) as [E|E]; cbn [andb].
  - destruct (Nat.eqb_spec (List.length M) (List.length a)) as [F|F]; cbn [negb].
    + split; auto.
    + split; [discriminate | intros H; specialize (H E); congruence].
  - split; [intros _ H; lia | reflexivity].
Qed.

Lemma validate_shell_iff : validate_shell_iff_stmt.
Proof.
  intros s. rewrite validate_shell_unfold.
  destruct (Nat.eqb_spec (List.length (exps s)) 0) as [E0|E0].
  - split; [discriminate|]. intros V. exfalso. apply (vs_prims _ V). destruct (exps s); [reflexivity | discriminate].
  - rewrite !seq_ok, tag_ok, chk_ok', !chk_ok, all_parse_iff, cols_ok, single_dup_ok, fused_ok,
      (has_dup_false _ same_s same_s_sym). split.
    + intros [[Ham [Hhi Hlo]] [Hp [Hd [Hpos [Hcols [Hdup [Htr Hfu]]]]]]].
      constructor; try assumption.
      * intros H; rewrite H in E0; apply E0; reflexivity.
      * apply positive_all. split; assumption.
      * apply (tr_used _ _ (cols_rect _ _ Hcols)). exact Htr.
    + intros V. destruct V as [V1 V2 V3 V4 V5 V6 V7 V8 V9 V10 V11].
      apply positive_all in V7. destruct V7 as [_ V7].
      refine (conj (conj V2 (conj V3 V4)) (conj V5 (conj V6 (conj V7 (conj V8 (conj V9 (conj _ V11))))))).
      apply (tr_used _ _ (cols_rect _ _ V8)). exact V10.
Qed.

Lemma validate_shell_errors : validate_shell_errors_stmt.
Proof.
  intros s e. rewrite validate_shell_unfold.
  destruct (Nat.eqb (List.length (exps s)) 0); [intros H; injection H; auto|].
  intros H.
  apply seq_err in H. destruct H as [H|H]; [eapply tag_err; exact H|].
  apply seq_err in H. destruct H as [H|H]; [apply chk_err' in H; auto|].
  apply seq_err in H. destruct H as [H|H]; [apply chk_err in H; auto|].
  apply seq_err in H. destruct H as [H|H]; [apply chk_err in H; auto|].
  apply seq_err in H. destruct H as [H|H]; [eapply cols_err; exact H|].
  apply seq_err in H. destruct H as [H|H]; [apply chk_err in H; auto|].
  apply seq_err in H. destruct H as [H|H]; [apply chk_err in H; auto|].
  apply chk_err in H; auto.
Qed.

(* ---------- validate_pots ---------- *)
Lemma zlist_eqb_eq : forall a b, zlist_eqb a b = true <-> a = b.
Proof.
  unfold zlist_eqb. induction a as [|x a IH]; intros [|y b]; cbn [list_eqb]; split; intros H; try discriminate; try reflexivity.
  - apply andb_true_iff in H. destruct H as [H1 H2]. apply Z.eqb_eq in H1. apply IH in H2. congruence.
  - injection H as -> ->. rewrite Z.eqb_refl. cbn [andb]. apply IH. reflexivity.
Qed.

Definition exempt_b (mx : list Z) (p : pot) : bool := andb (Nat.leb (List.length (p_rexp p)) 1) (zlist_eqb (p_am p) mx).

Lemma exempt_iff : forall mx p, exempt_b mx p = true <-> exempt mx p.
Proof.
  intros mx p. unfold exempt_b, exempt. rewrite andb_true_iff, Nat.leb_le, zlist_eqb_eq. reflexivity.
Qed.

Lemma not_exempt_iff : forall mx p, exempt_b mx p = false <-> ~ exempt mx p.
Proof.
  intros mx p. rewrite <- exempt_iff. destruct (exempt_b mx p); split; intros H; congruence.
Qed.

Definition pot_cols (nexp : nat) (ex : bool) : list (list string) -> res unit :=
  fix cols (cs : list (list string)) : res unit :=
    match cs with
    | [] => ok tt
    | g :: r => if negb (Nat.eqb (List.length g) nexp) then fail ERuntime else
                if negb ex then
                  (if negb (all_parse g) then fail EValue else if forallb is0_s g then fail ERuntime else cols r)
                else cols r
    end.

Definition pot_chk (mx : list Z) (p : pot) : res unit :=
  let nexp := List.length (p_rexp p) in
  let ex := exempt_b mx p in
  (if negb (Nat.eqb (List.length (p_gexp p)) nexp) then fail ERuntime else ok tt);;
  pot_cols nexp ex (p_coefs p);;
  (if negb (forallb all_parse (p_coefs p)) then fail EValue else ok tt);;
  (if has_dup row_same (p_coefs p) then fail ERuntime else ok tt);;
  (if andb (negb ex) (existsb (forallb is0_s) (tr_strings (p_coefs p))) then fail ERuntime else ok tt).

Definition pots_each (mx : list Z) : list pot -> res unit :=
  fix each (ps : list pot) : res unit :=
    match ps with
    | [] => ok tt
    | p :: t =>
      let nexp := List.length (p_rexp p) in
      let ex := exempt_b mx p in
      (if negb (Nat.eqb (List.length (p_gexp p)) nexp) then fail ERuntime else ok tt);;
      pot_cols nexp ex (p_coefs p);;
      (if negb (forallb all_parse (p_coefs p)) then fail EValue else ok tt);;
      (if has_dup row_same (p_coefs p) then fail ERuntime else ok tt);;
      (if andb (negb ex) (existsb (forallb is0_s) (tr_strings (p_coefs p))) then fail ERuntime else ok tt);;
      each t
    end.

Lemma validate_pots_unfold : forall ps, validate_pots ps =
  (if existsb (fun p => Nat.ltb 1 (List.length (p_am p))) ps then fail ERuntime else ok tt);;
  (if existsb (fun p => match p_am p with [] => true | _ => false end) ps then fail EIndex else ok tt);;
  (if has_dup Z.eqb (map (fun p => hd 0%Z (p_am p)) ps) then fail ERuntime else ok tt);;
  match ps with
  | [] => fail EValue
  | _ => pots_each (max_am_list ps) ps
  end.
Proof. reflexivity. Qed.

Lemma pots_each_ok : forall mx ps, pots_each mx ps = inr tt <-> Forall (fun p => pot_chk mx p = inr tt) ps.
Proof.
  intros mx; induction ps as [|p t IH]; cbn [pots_each].
  - split; [constructor | reflexivity].
  - cbv zeta. unfold pot_chk. cbv zeta. rewrite !seq_ok, IH. split.
    + intros [H1 [H2 [H3 [H4 [H5 H6]]]]]. constructor; [|exact H6]. rewrite !seq_ok. tauto.
    + intros H. inversion H as [|? ? Hp Ht]; subst. rewrite !seq_ok in Hp. tauto.
Qed.

Lemma pot_cols_ok : forall n ex cs, pot_cols n ex cs = inr tt <->
  Forall (fun g => List.length g = n /\ (ex = false -> Forall parses g /\ Exists nonzero g)) cs.
Proof.
  intros n ex; induction cs as [|g t IH]; cbn [pot_cols].
  - split; [constructor | reflexivity].
  - destruct (Nat.eqb_spec (List.length g) n) as [El|El]; cbn [negb].
    + destruct ex; cbn [negb].
      * rewrite IH. split.
        -- intros H. constructor; [|exact H]. split; [exact El | discriminate].
        -- intros H. inversion H; assumption.
      * destruct (all_parse g) eqn:Ep; cbn [negb].
        -- destruct (forallb is0_s g) eqn:Ez.
           ++ split; [discriminate|]. intros H. inversion H as [|? ? [_ Hx] _]; subst.
              destruct (Hx eq_refl) as [_ Hz]. apply nonzero_exists in Hz. congruence.
           ++ rewrite IH. split.
              ** intros H. constructor; [|exact H]. split; [exact El|]. intros _.
                 split; [apply all_parse_iff; exact Ep | apply nonzero_exists; exact Ez].
              ** intros H. inversion H; assumption.
        -- split; [discriminate|]. intros H. inversion H as [|? ? [_ Hx] _]; subst.
           destruct (Hx eq_refl) as [Hp _]. apply all_parse_iff in Hp. congruence.
    + split; [discriminate|]. intros H. inversion H as [|? ? [Hl _] _]; subst. congruence.
Qed.

Lemma all_parse_rows : forall M, negb (forallb all_parse M) = false <-> Forall (Forall parses) M.
Proof.
  intros M. rewrite negb_false_iff, forallb_forall, Forall_forall.
  split; intros H g Hg; apply all_parse_iff; auto.
Qed.

Definition pot_ok (mx : list Z) (p : pot) : Prop :=
  List.length (p_gexp p) = List.length (p_rexp p) /\ Forall (fun g => List.length g = List.length (p_rexp p)) (p_coefs p) /\ Forall (Forall parses) (p_coefs p) /\ (forall i j g h, nth_error (p_coefs p) i = Some g -> nth_error (p_coefs p) j = Some h -> i <> j -> row_same g h = false) /\ (~ exempt mx p ->
     Forall (Exists nonzero) (p_coefs p) /\    (p_coefs p <> [] -> forall i, i < List.length (p_rexp p) -> exists g x, In g (p_coefs p) /\ nth_error g i = Some x /\ nonzero x)).

Lemma pot_chk_ok : forall mx p, pot_chk mx p = inr tt <-> pot_ok mx p.
Proof.
  intros mx p. unfold pot_chk, pot_ok. cbv zeta.
  rewrite !seq_ok, !chk_ok, pot_cols_ok, all_parse_rows, (has_dup_false _ row_same row_same_sym).
  rewrite negb_false_iff, Nat.eqb_eq. rewrite <- not_exempt_iff.
  split.
  - intros [H1 [H2 [H3 [H4 H5]]]].
    assert (Hrect : Forall (fun g : list string => List.length g = List.length (p_rexp p)) (p_coefs p)).
    { eapply Forall_impl; [|exact H2]. cbn. intros g [Hl _]; exact Hl. }
    refine (conj H1 (conj Hrect (conj H3 (conj H4 _)))).
    intros Hex. rewrite Hex in H5. cbn [negb andb] in H5. split.
    + eapply Forall_impl; [|exact H2]. cbn. intros g [_ Hg]. apply (Hg Hex).
    + apply (tr_used _ _ Hrect). exact H5.
  - intros [H1 [H2 [H3 [H4 H5]]]].
    refine (conj H1 (conj _ (conj H3 (conj H4 _)))).
    + rewrite Forall_forall in H2, H3. apply Forall_forall. intros g Hg. split; [apply H2; exact Hg|].
      intros Hex. split; [apply H3; exact Hg|]. destruct (H5 Hex) as [H6 _]. rewrite Forall_forall in H6. apply H6; exact Hg.
    + destruct (exempt_b mx p) eqn:Hex; [reflexivity|]. cbn [negb andb].
      apply (tr_used _ _ H2). apply (H5 eq_refl).
Qed.

Lemma single_am_ok : forall ps,
  existsb (fun p => Nat.ltb 1 (List.length (p_am p))) ps = false /\ existsb (fun p => match p_am p with [] => true | _ => false end) ps = false <->
  Forall (fun p => List.length (p_am p) = 1) ps.
Proof.
  intros ps. rewrite !existsb_false, Forall_forall. split.
  - intros [H1 H2] p Hp. specialize (H1 p Hp). specialize (H2 p Hp). apply Nat.ltb_ge in H1.
    destruct (p_am p) as [|a [|b l]]; cbn in *; try discriminate; try lia.
  - intros H. split; intros p Hp; specialize (H p Hp).
    + apply Nat.ltb_ge. lia.
    + destruct (p_am p); [discriminate | reflexivity].
Qed.

Lemma am_distinct_ok : forall ps,
  has_dup Z.eqb (map (fun p => hd 0%Z (p_am p)) ps) = false <->
  (forall i j p q, nth_error ps i = Some p -> nth_error ps j = Some q -> i <> j -> hd 0%Z (p_am p) <> hd 0%Z (p_am q)).
Proof.
  intros ps. rewrite (has_dup_false _ Z.eqb).
  2:{ intros a b H. apply Z.eqb_eq in H. subst. apply Z.eqb_refl. }
  split.
  - intros H i j p q Hp Hq Hne. apply Z.eqb_neq. apply (H i j); [| |exact Hne].
    + rewrite nth_error_map, Hp. reflexivity.
    + rewrite nth_error_map, Hq. reflexivity.
  - intros H i j x y Hx Hy Hne. rewrite nth_error_map in Hx, Hy.
    destruct (nth_error ps i) as [p|] eqn:Ep; [|discriminate]. destruct (nth_error ps j) as [q|] eqn:Eq; [|discriminate].
    cbn in Hx, Hy. injection Hx as <-. injection Hy as <-. apply Z.eqb_neq. apply (H i j p q Ep Eq Hne).
Qed.

Lemma validate_pots_iff : validate_pots_iff_stmt.
Proof.
  intros ps. rewrite validate_pots_unfold, !seq_ok, !chk_ok, am_distinct_ok.
  split.
  - intros [H1 [H2 [H3 H4]]]. destruct ps as [|p0 t0]; [discriminate|].
    constructor.
    + discriminate.
    + apply single_am_ok. split; assumption.
    + exact H3.
    + apply pots_each_ok in H4. eapply Forall_impl; [|exact H4]. intros p Hp. apply pot_chk_ok in Hp. exact Hp.
  - intros [V1 V2 V3 V4]. apply single_am_ok in V2. destruct V2 as [V2a V2b].
    refine (conj V2a (conj V2b (conj V3 _))).
    destruct ps as [|p0 t0]; [congruence|].
    apply pots_each_ok. eapply Forall_impl; [|exact V4]. intros p Hp. apply pot_chk_ok. exact Hp.
Qed.

(* ---------- validate_element / validate_data 'complete' ---------- *)
Definition shells_each : list sshell -> res unit :=
  fix each (l : list sshell) : res unit := match l with [] => ok tt | s :: t => validate_shell s ;; each t end.

Lemma shells_each_ok : forall l, shells_each l = inr tt -> Forall valid_shell l.
Proof.
  induction l as [|s t IH]; cbn [shells_each]; intros H; [constructor|].
  apply seq_ok in H. destruct H as [H1 H2]. constructor; [apply validate_shell_iff; exact H1 | apply IH; exact H2].
Qed.

Lemma validate_element_sound : validate_element_sound_stmt.
Proof.
  intros el d H Hel. subst el. unfold validate_element in H. cbn [as_dict bind] in H.
  apply seq_ok in H. destruct H as [Hs Hp]. split.
  - intros x Hx. rewrite Hx in Hs. destruct x as [| | | |l|]; cbn [as_list bind ok] in Hs; try discriminate.
    destruct (mapM dec_shell l) as [e|shs] eqn:Em; cbn [bind] in Hs; [discriminate|].
    exists l, shs. split; [reflexivity|]. split; [exact Em|]. apply shells_each_ok. exact Hs.
  - intros x Hx. rewrite Hx in Hp. cbv beta iota in Hp. destruct (assoc "ecp_electrons" d) as [ne|] eqn:Ee; [|discriminate].
    split; [discriminate|].
    destruct x as [| | | |l|]; cbn [as_list bind ok] in Hp; try discriminate.
    destruct (mapM dec_pot l) as [e|ps] eqn:Em; cbn [bind] in Hp; [discriminate|].
    exists l, ps. split; [reflexivity|]. split; [exact Em|]. apply validate_pots_iff. exact Hp.
Qed.

Definition elements_each : list (string * val) -> res unit :=
  fix each (l : list (string * val)) : res unit :=
    match l with [] => ok tt | kv :: t => validate_element (snd kv) ;; each t end.

Lemma elements_each_ok : forall l, elements_each l = inr tt -> Forall (fun kv => validate_element (snd kv) = inr tt) l.
Proof.
  induction l as [|kv t IH]; cbn [elements_each]; intros H; [constructor|].
  apply seq_ok in H. destruct H as [H1 H2]. constructor; [exact H1 | apply IH; exact H2].
Qed.

Lemma validate_data_complete : forall v, validate_data "complete" v =
  if negb (check_schema schema_complete v) then fail EValidation else
  do els <- (do e <- vfield "elements" v; vdict e);
  (match els with [] => fail EAssert | _ => ok tt end);;
  do nm <- vfield "name" v;
  do names <- (do n <- vfield "names" v; vlist n);
  (if existsb (val_eqb nm) names then ok tt else fail ERuntime);;
  elements_each els.
Proof. reflexivity. Qed.

Lemma validate_complete_sound : validate_complete_sound_stmt.
Proof.
  intros v H. rewrite validate_data_complete in H.
  destruct (check_schema schema_complete v) eqn:Hs; cbn [negb] in H; [|discriminate].
  split; [reflexivity|].
  destruct (do e <- vfield "elements" v; vdict e) as [e|els] eqn:Ee; cbn [bind] in H; [discriminate|].
  exists els. split; [reflexivity|].
  destruct els as [|kv0 els0]; [discriminate|]. cbn [bind ok] in H.
  split; [discriminate|].
  destruct (vfield "name" v) as [e|nm]; cbn [bind] in H; [discriminate|].
  destruct (do n <- vfield "names" v; vlist n) as [e|names]; cbn [bind] in H; [discriminate|].
  apply seq_ok in H. destruct H as [_ H]. apply elements_each_ok. exact H.
Qed.

(* ---------- the translated schemas ---------- *)
Lemma shell_schema_present : shell_schema_present_stmt.
Proof.
  split; [|split].
  - eexists. vm_compute. reflexivity.
  - vm_compute. reflexivity.
  - vm_compute. reflexivity.
Qed.

Definition leaf_str : schema := SNode (Some TString) [] [] true [] None None None false None None None [].
Definition leaf_enum (l : list val) : schema := SNode (Some TString) [] [] true [] None None None false (Some l) None None [].
Definition leaf_int (m : Z) : schema := SNode (Some TInteger) [] [] true [] None None None false None (Some m) None [].
Definition arr_of (item : schema) (n : nat) (u : bool) : schema :=
  SNode (Some TArray) [] [] true [] None (Some item) (Some n) u None None None [].
Definition obj_of (req : list string) (props : list (string * schema)) : schema :=
  SNode (Some TObject) req props false [] None None None false None None None [].

Definition shell_sc : schema :=
  obj_of ["function_type"; "region"; "angular_momentum"; "exponents"; "coefficients"]
    [("function_type", leaf_enum [VStr "gto"; VStr "gto_spherical"; VStr "gto_cartesian"; VStr "sto"]);
     ("region", leaf_enum [VStr ""; VStr "valence"; VStr "polarization"; VStr "core"; VStr "tight"; VStr "diffuse"]);
     ("angular_momentum", arr_of (leaf_int 0) 1 true);
     ("exponents", arr_of leaf_str 1 false);
     ("coefficients", arr_of (arr_of leaf_str 1 false) 1 false)].

Lemma shell_schema_eq : shell_schema_of schema_complete = Some shell_sc.
Proof. vm_compute. reflexivity. Qed.

Lemma check_leaf_str : forall v, check_schema leaf_str v = true <-> exists s, v = VStr s.
Proof.
  intros v. unfold leaf_str. cbn [check_schema]. destruct v; cbn [has_type andb]; split; intros H; try discriminate;
    try (destruct H as [s H]; discriminate); eauto.
Qed.

Lemma check_leaf_int : forall m v, check_schema (leaf_int m) v = true <-> exists z, v = VInt z /\ (m <= z)%Z.
Proof.
  intros m v. unfold leaf_int. cbn [check_schema]. destruct v; cbn [has_type andb]; split; intros H; try discriminate;
    try (match type of H with ex _ => destruct H as [z0 [H1 H2]]; discriminate H1 end).
  - eexists; split; [reflexivity|]. apply Z.leb_le. exact H.
  - destruct H as [z' [H1 H2]]. injection H1 as ->. apply Z.leb_le. exact H2.
Qed.

Lemma check_leaf_enum : forall l v, Forall (fun y => exists s, y = VStr s) l ->
  (check_schema (leaf_enum l) v = true <-> In v l).
Proof.
  intros l v Hl. unfold leaf_enum. cbn [check_schema]. rewrite Forall_forall in Hl. split.
  - intros H. rewrite !andb_true_iff in H. destruct H as [[[_ H] _] _].
    apply existsb_exists in H. destruct H as [y [Hy He]]. apply val_eqb_eq in He. subst y. exact Hy.
  - intros H. destruct (Hl v H) as [s ->]. cbn [has_type andb].
    rewrite !andb_true_iff. split; [|reflexivity]. split; [|reflexivity].
    apply existsb_exists. exists (VStr s). split; [exact H|]. cbn [val_eqb]. apply String.eqb_refl.
Qed.

Lemma check_arr : forall item n u v,
  check_schema (arr_of item n u) v = true <->
  exists l, v = VList l /\ n <= List.length l /\ (u = true -> all_distinct l = true) /\ Forall (fun x => check_schema item x = true) l.
Proof.
  intros item n u v. unfold arr_of. cbn [check_schema].
  destruct v as [| | | |l|]; cbn [has_type andb];
    try (split; [discriminate | intros [l0 [H _]]; discriminate H]).
  assert (Hall : forall l : list val,
    (fix all (l : list val) : bool := match l with [] => true | x :: t => andb (check_schema item x) (all t) end) l = true <->
    Forall (fun x => check_schema item x = true) l).
  { induction l0 as [|x t IH]; [split; [constructor | reflexivity]|].
    rewrite andb_true_iff, IH. split; [intros [H1 H2]; constructor; assumption | intros H; inversion H; auto]. }
  rewrite !andb_true_iff, Hall, Nat.leb_le. split.
  - intros [[Hn Hu] Hf]. exists l. split; [reflexivity|]. split; [exact Hn|]. split; [|exact Hf].
    intros ->. exact Hu.
  - intros [l0 [Hv [Hn [Hu Hf]]]]. injection Hv as <-. split; [split|]; auto.
    destruct u; auto.
Qed.

Lemma all_str_map : forall l, Forall (fun x => check_schema leaf_str x = true) l <-> exists ss, l = map VStr ss.
Proof.
  induction l as [|x t IH].
  - split; [exists []; reflexivity | constructor].
  - split.
    + intros H. inversion H as [|? ? Hx Ht]; subst. apply check_leaf_str in Hx. destruct Hx as [s ->].
      apply IH in Ht. destruct Ht as [ss ->]. exists (s :: ss). reflexivity.
    + intros [[|s ss] H]; [discriminate|]. cbn [map] in H. injection H as -> ->. constructor.
      * apply check_leaf_str. eauto.
      * apply IH. eauto.
Qed.

Lemma all_int_map : forall m l, Forall (fun x => check_schema (leaf_int m) x = true) l <->
  exists zs, l = map VInt zs /\ Forall (fun z => (m <= z)%Z) zs.
Proof.
  intros m; induction l as [|x t IH].
  - split; [exists []; split; [reflexivity | constructor] | constructor].
  - split.
    + intros H. inversion H as [|? ? Hx Ht]; subst. apply check_leaf_int in Hx. destruct Hx as [z [-> Hz]].
      apply IH in Ht. destruct Ht as [zs [-> Hzs]]. exists (z :: zs). split; [reflexivity | constructor; assumption].
    + intros [[|z zs] [H Hz]]; [discriminate|]. cbn [map] in H. injection H as -> ->. inversion Hz; subst. constructor.
      * apply check_leaf_int. eauto.
      * apply IH. eauto.
Qed.

Lemma all_distinct_ints : forall zs, all_distinct (map VInt zs) = true <-> NoDup zs.
Proof.
  induction zs as [|z zs IH]; cbn [map all_distinct].
  - split; [constructor | reflexivity].
  - rewrite andb_true_iff, negb_true_iff, IH. split.
    + intros [H1 H2]. constructor; [|exact H2]. intros Hin.
      assert (existsb (val_eqb (VInt z)) (map VInt zs) = true); [|congruence].
      apply existsb_exists. exists (VInt z). split; [apply in_map; exact Hin | cbn; apply Z.eqb_refl].
    + intros H. inversion H as [|? ? Hn Hd]; subst. split; [|exact Hd].
      destruct (existsb (val_eqb (VInt z)) (map VInt zs)) eqn:E; [|reflexivity].
      apply existsb_exists in E. destruct E as [y [Hy He]]. apply val_eqb_eq in He. subst y.
      apply in_map_iff in Hy. destruct Hy as [z' [Hz' Hin]]. injection Hz' as ->. contradiction.
Qed.

Lemma check_strs : forall v, check_schema (arr_of leaf_str 1 false) v = true <-> is_nonempty_strs v.
Proof.
  intros v. rewrite check_arr. unfold is_nonempty_strs, VStrs. split.
  - intros [l [-> [Hn [_ Hf]]]]. apply all_str_map in Hf. destruct Hf as [ss ->].
    exists ss. split; [|reflexivity]. intros ->. cbn in Hn. lia.
  - intros [ss [Hne ->]]. exists (map VStr ss). split; [reflexivity|]. split; [|split].
    + rewrite map_length. destruct ss; [congruence | cbn; lia].
    + discriminate.
    + apply all_str_map. eauto.
Qed.

Lemma check_ints : forall v, check_schema (arr_of (leaf_int 0) 1 true) v = true <->
  exists l, l <> [] /\ v = VList (map VInt l) /\ NoDup l /\ Forall (fun z => (0 <= z)%Z) l.
Proof.
  intros v. rewrite check_arr. split.
  - intros [l [-> [Hn [Hu Hf]]]]. apply all_int_map in Hf. destruct Hf as [zs [-> Hz]].
    exists zs. split; [intros ->; cbn in Hn; lia|]. split; [reflexivity|]. split; [|exact Hz].
    apply all_distinct_ints. apply Hu. reflexivity.
  - intros [zs [Hne [-> [Hd Hz]]]]. exists (map VInt zs). split; [reflexivity|]. split; [|split].
    + rewrite map_length. destruct zs; [congruence | cbn; lia].
    + intros _. apply all_distinct_ints. exact Hd.
    + apply all_int_map. eauto.
Qed.

Lemma check_rows : forall v, check_schema (arr_of (arr_of leaf_str 1 false) 1 false) v = true <->
  exists rows, rows <> [] /\ v = VList rows /\ Forall is_nonempty_strs rows.
Proof.
  intros v. rewrite check_arr. split.
  - intros [l [-> [Hn [_ Hf]]]]. exists l. split; [intros ->; cbn in Hn; lia|]. split; [reflexivity|].
    eapply Forall_impl; [|exact Hf]. intros x Hx. apply check_strs. exact Hx.
  - intros [rows [Hne [-> Hf]]]. exists rows. split; [reflexivity|]. split; [|split].
    + destruct rows; [congruence | cbn; lia].
    + discriminate.
    + eapply Forall_impl; [|exact Hf]. intros x Hx. apply check_strs. exact Hx.
Qed.

Lemma look_assoc : forall (x : val) k (props : list (string * schema)),
  (fix look (ps : list (string * schema)) : option bool :=
     match ps with
     | [] => None
     | (pk, ps') :: r => if String.eqb pk k then Some (check_schema ps' x) else look r
     end) props = match assoc k props with Some ps => Some (check_schema ps x) | None => None end.
Proof.
  intros x k; induction props as [|[pk ps'] r IH]; [reflexivity|].
  cbn [assoc]. rewrite (String.eqb_sym k pk). destruct (String.eqb pk k); [reflexivity | exact IH].
Qed.

Lemma check_obj : forall req props v,
  check_schema (obj_of req props) v = true <->
  exists d, v = VDict d /\ (forall r, In r req -> assoc r d <> None) /\
            (forall k x, In (k, x) d -> exists ps, assoc k props = Some ps /\ check_schema ps x = true).
Proof.
  intros req props v. unfold obj_of. cbn [check_schema].
  destruct v as [| | | | |d]; cbn [has_type andb];
    try (split; [discriminate | intros [l0 [H _]]; discriminate H]).
  assert (Heach : forall d : list (string * val),
    (fix each (d0 : list (string * val)) : bool :=
     match d0 with
     | [] => true
     | (k, x) :: t =>
         match
           (fix look (ps : list (string * schema)) : option bool :=
              match ps with
              | [] => None
              | (pk, ps') :: r => if String.eqb pk k then Some (check_schema ps' x) else look r
              end) props
         with
         | Some b => b
         | None => true
         end && snd (false, true) &&
         match
           (fix look (ps : list (string * schema)) : option bool :=
              match ps with
              | [] => None
              | (pk, ps') :: r => if String.eqb pk k then Some (check_schema ps' x) else look r
              end) props
         with
         | Some _ => true
         | None => fst (false, true) || false
         end && each t
     end) d = true <->
    (forall k x, In (k, x) d -> exists ps, assoc k props = Some ps /\ check_schema ps x = true)).
  { induction d0 as [|[k x] t IH].
    - split; [intros _ k x [] | reflexivity].
    - rewrite look_assoc. cbn [fst snd orb]. rewrite !andb_true_iff, IH. split.
      + intros [[[H1 _] H2] H3] k' x' [He|Hin]; [|apply H3; exact Hin].
        injection He as <- <-. destruct (assoc k props) as [ps|]; [|discriminate]. exists ps. split; [reflexivity | exact H1].
      + intros H. destruct (H k x (or_introl eq_refl)) as [ps [Hps Hc]]. rewrite Hps.
        repeat split; auto. intros k' x' Hin. apply H. right; exact Hin. }
  rewrite !andb_true_iff, Heach, forallb_forall. split.
  - intros [[Hr _] He]. exists d. split; [reflexivity|]. split; [|exact He].
    intros r Hin. specialize (Hr r Hin). destruct (assoc r d); [discriminate | discriminate].
  - intros [d0 [Hd [Hr He]]]. injection Hd as <-. split; [split; [|reflexivity]|exact He].
    intros r Hin. specialize (Hr r Hin). destruct (assoc r d); [reflexivity | congruence].
Qed.

Lemma assoc_in_keys : forall (V : Type) k (d : list (string * V)) v, assoc k d = Some v -> In k (map fst d).
Proof.
  intros V k; induction d as [|[k' v'] t IH]; intros v H; cbn [assoc] in H; [discriminate|].
  destruct (String.eqb_spec k k') as [->|Hne]; cbn [map fst]; [left; reflexivity | right; eapply IH; exact H].
Qed.

Lemma shell_sc_iff : forall v, check_schema shell_sc v = true <-> shell_shape v.
Proof.
  intros v. unfold shell_sc. rewrite check_obj. split.
  - intros [d [-> [Hr He]]]. constructor. exists d. split; [reflexivity|].
    split; [|split; [exact Hr|]].
    + intros k Hk. apply in_map_iff in Hk. destruct Hk as [[k' x] [Hf Hin]]. cbn [fst] in Hf. subst k'.
      destruct (He k x Hin) as [ps [Hps _]]. apply assoc_in_keys in Hps. exact Hps.
    + repeat split; intros x Hin; destruct (He _ x Hin) as [ps [Hps Hc]]; cbn in Hps; injection Hps as <-.
      * apply check_leaf_enum in Hc; [exact Hc | repeat constructor; eauto].
      * apply check_leaf_enum in Hc; [exact Hc | repeat constructor; eauto].
      * apply check_ints in Hc. exact Hc.
      * apply check_strs in Hc. exact Hc.
      * apply check_rows in Hc. exact Hc.
  - intros [[d [-> [K1 [K2 [F1 [F2 [F3 [F4 F5]]]]]]]]]. exists d. split; [reflexivity|]. split; [exact K2|].
    intros k x Hin.
    assert (Hk : In k (map fst d)) by (apply in_map_iff; exists (k, x); split; [reflexivity | exact Hin]).
    apply K1 in Hk. cbn [In] in Hk.
    destruct Hk as [<-|[<-|[<-|[<-|[<-|[]]]]]]; eexists; (split; [reflexivity|]).
    + apply check_leaf_enum; [repeat constructor; eauto | apply F1; exact Hin].
    + apply check_leaf_enum; [repeat constructor; eauto | apply F2; exact Hin].
    + apply check_ints. apply F3; exact Hin.
    + apply check_strs. apply F4; exact Hin.
    + apply check_rows. apply F5; exact Hin.
Qed.

Lemma shell_schema_iff : shell_schema_iff_stmt.
Proof.
  intros sc v H. rewrite shell_schema_eq in H. injection H as <-. apply shell_sc_iff.
Qed.

(* ---------- the top of the 'complete' schema ---------- *)
Definition s_props (s : schema) : list (string * schema) :=
  match s with SNode _ _ props _ _ _ _ _ _ _ _ _ _ => props | SAny => [] end.
Definition complete_props : list (string * schema) := s_props schema_complete.
Definition el_sc : schema :=
  match obind (s_prop "elements" schema_complete) (s_patprop PDigits) with Some s => s | None => SAny end.
Definition el_props : list (string * schema) := s_props el_sc.
Definition pobj_of (p : pat) (item : schema) : schema :=
  SNode (Some TObject) [] [] false [(p, item)] None None None false None None None [].

Lemma complete_eq : schema_complete = obj_of complete_keys complete_props.
Proof. vm_compute. reflexivity. Qed.
Lemma complete_props_keys : map fst complete_props = complete_keys.
Proof. vm_compute. reflexivity. Qed.
Lemma complete_elements : assoc "elements" complete_props = Some (pobj_of PDigits el_sc).
Proof. vm_compute. reflexivity. Qed.
Lemma el_sc_eq : el_sc = obj_of ["references"] el_props.
Proof. vm_compute. reflexivity. Qed.
Lemma el_props_keys : map fst el_props = ["references"; "electron_shells"; "ecp_electrons"; "ecp_potentials"].
Proof. vm_compute. reflexivity. Qed.

Lemma assoc_in : forall (V : Type) k (d : list (string * V)) v, assoc k d = Some v -> In (k, v) d.
Proof.
  intros V k; induction d as [|[k' v'] t IH]; intros v H; cbn [assoc] in H; [discriminate|].
  destruct (String.eqb_spec k k') as [->|Hne]; [injection H as ->; left; reflexivity | right; apply IH; exact H].
Qed.

Lemma check_pobj : forall p item v, check_schema (pobj_of p item) v = true ->
  exists d, v = VDict d /\ forall k x, In (k, x) d -> pat_match p k = true /\ check_schema item x = true.
Proof.
  intros p item v. unfold pobj_of. cbn [check_schema].
  destruct v as [| | | | |d]; cbn [has_type andb forallb]; try discriminate.
  intros H. exists d. split; [reflexivity|].
  induction d as [|[k x] t IH]; [intros k x []|].
  rewrite !andb_true_iff in H. destruct H as [[H1 H2] H3].
  intros k' x' [He|Hin].
  - injection He as <- <-. destruct (pat_match p k); cbn [fst snd orb] in H1, H2; [|discriminate].
    split; [reflexivity|]. apply andb_true_iff in H1. apply H1.
  - apply IH; [|exact Hin]. exact H3.
Qed.

Lemma complete_top : complete_top_stmt.
Proof.
  intros v H. rewrite complete_eq in H. apply check_obj in H. destruct H as [d [-> [Hr He]]].
  exists d. split; [reflexivity|]. split; [exact Hr|].
  intros k Hk. apply in_map_iff in Hk. destruct Hk as [[k' x] [Hf Hin]]. cbn [fst] in Hf. subst k'.
  destruct (He k x Hin) as [ps [Hps _]]. apply assoc_in_keys in Hps. rewrite complete_props_keys in Hps. exact Hps.
Qed.

Lemma complete_element_keys : complete_element_keys_stmt.
Proof.
  intros d els k x H Hels Hin. rewrite complete_eq in H. apply check_obj in H. destruct H as [d0 [Hd [_ He]]].
  injection Hd as <-. apply assoc_in in Hels. destruct (He _ _ Hels) as [ps [Hps Hc]].
  rewrite complete_elements in Hps. injection Hps as <-.
  apply check_pobj in Hc. destruct Hc as [els0 [Hd Hc]]. injection Hd as <-.
  destruct (Hc k x Hin) as [Hpat Hx]. split; [exact Hpat|].
  rewrite el_sc_eq in Hx. apply check_obj in Hx. destruct Hx as [ed [-> [Hr Hk]]].
  exists ed. split; [reflexivity|]. split; [apply Hr; left; reflexivity|].
  intros k' Hk'. apply in_map_iff in Hk'. destruct Hk' as [[k'' x'] [Hf Hin']]. cbn [fst] in Hf. subst k''.
  destruct (Hk k' x' Hin') as [ps [Hps _]]. apply assoc_in_keys in Hps. rewrite el_props_keys in Hps. exact Hps.
Qed.

Print Assumptions validate_shell_iff.
Print Assumptions validate_shell_errors.
Print Assumptions validate_pots_iff.
Print Assumptions validate_element_sound.
Print Assumptions validate_complete_sound.
Print Assumptions shell_schema_present.
Print Assumptions shell_schema_iff.
Print Assumptions complete_top.
Print Assumptions complete_element_keys.
