(* Statements about the ECP part of the deMon2k writer / reader pair and about the whole file (electron part + ECP part):
   what write_demon2k prints, read_demon2k reads back.  Definitions only; the proofs are in Proofs/Demon2kEcpSpec.v. *)
From BSE Require Import Model.Val Model.Text Model.Basis Model.Manip Model.Matrix Model.Lut Model.Elements Model.Nwchem
                        Model.NwchemEcp Model.Turbomole Model.Demon2k Model.Demon2kEcp
                        Proofs.MatrixDefs Proofs.NwchemDefs Proofs.NwchemEcpDefs Proofs.Demon2kDefs.
Require Import Coq.Sorting.Permutation.

(* ---------- well-formed input of the ECP part of the writer ---------- *)
(* ecp_pot_ok (Proofs/NwchemEcpDefs.v): exactly one angular momentum l with 0 <= l < 25 (the writer asks lut.amint_to_char for
   its letter, 25 letters); at least one term; as many gaussian exponents as r exponents; exactly one coefficient column of
   that length (three point places); gaussian exponents and coefficients match helpers.floating_re.
   Here in addition: no negative r exponent (ecp_data_re wants \d+). *)
Definition d2k_pot_ok (p : epot) : Prop := ecp_pot_ok p /\ Forall (fun r => (0 <= r)%Z) (p_rexp p).

(* The reader numbers the potentials by their position: the first block (`ul`) gets (number of blocks - 1), the others 0, 1,
   2, ... and their letters must agree with that (assert).
   d2k_lower_ok: the momenta are pairwise distinct and all but the highest are 0, 1, ..., n-2 - what the reader needs not to
   fail.  d2k_contiguous: in addition the highest is n-1 - what it needs to return the same momenta. *)
Definition d2k_lower_ok (ls : list Z) : Prop :=
  NoDup ls /\ Forall (fun l => l = zmax ls \/ (0 <= l < Z.of_nat (List.length ls) - 1)%Z) ls.
Definition d2k_contiguous (ls : list Z) : Prop :=
  NoDup ls /\ Forall (fun l => (0 <= l < Z.of_nat (List.length ls))%Z) ls.

Definition d2k_ecp_el_gen (e : Z * (Z * list epot)) : Prop :=
  let '(z, (nelec, pots)) := e in
  (1 <= z <= 118)%Z /\
  (* 'ecp_electrons': ecp_entry_re wants \d+ *)
  (0 <= nelec)%Z /\
  (* at least one potential (max() of the writer) *)
  pots <> [] /\ Forall d2k_pot_ok pots /\
  d2k_lower_ok (map pot_l pots).
Definition d2k_ecp_el_ok (e : Z * (Z * list epot)) : Prop :=
  d2k_ecp_el_gen e /\ d2k_contiguous (map pot_l (snd (snd e))).

Definition d2k_ecp_gen (ecps : list (Z * (Z * list epot))) : Prop :=
  (* at least one element with an ECP: otherwise no END line is written and the reader refuses the text *)
  ecps <> [] /\ NoDup (map fst ecps) /\ Forall d2k_ecp_el_gen ecps.
Definition d2k_ecp_ok (ecps : list (Z * (Z * list epot))) : Prop :=
  ecps <> [] /\ NoDup (map fst ecps) /\ Forall d2k_ecp_el_ok ecps.

(* the whole file: BOTH parts are needed - without an element with electron shells the reader's assert on the first line
   fails, without an ECP there is no END *)
Definition d2k_all_gen (bsname : string) (els : list (Z * (Z * list sshell))) (ecps : list (Z * (Z * list epot))) : Prop :=
  d2k_ok bsname els /\ d2k_ecp_gen ecps.
Definition d2k_all_ok (bsname : string) (els : list (Z * (Z * list sshell))) (ecps : list (Z * (Z * list epot))) : Prop :=
  d2k_ok bsname els /\ d2k_ecp_ok ecps.

(* ---------- what comes back ---------- *)
(* r exponents, gaussian exponents and coefficients come back as they are (the ECP numbers do not go through replace_d: a
   Fortran D stays a D); ecp_type is not in the file, the reader says 'scalar_ecp'.  The momentum: the potential with the
   highest momentum mx gets n - 1 (n = number of potentials), the others keep theirs. *)
Definition d2k_read_pot (mx : Z) (n : nat) (p : epot) : epot :=
  mkEpot "scalar_ecp" (if Z.eqb (pot_l p) mx then [(Z.of_nat n - 1)%Z] else p_am p) (p_rexp p) (p_gexp p) (p_coef p).
Definition d2k_ecp_read_el (e : Z * (Z * list epot)) : Z * (option Z * list epot) :=
  (fst e, (Some (fst (snd e)),
           map (d2k_read_pot (zmax (map pot_l (snd (snd e)))) (List.length (snd (snd e)))) (ecp_written_order (snd (snd e))))).
Definition d2k_ecp_read (ecps : list (Z * (Z * list epot))) : ecp_state := map d2k_ecp_read_el ecps.

(* the same without renumbering *)
Definition d2k_expected_pot (p : epot) : epot := mkEpot "scalar_ecp" (p_am p) (p_rexp p) (p_gexp p) (p_coef p).
Definition d2k_ecp_expected (ecps : list (Z * (Z * list epot))) : ecp_state :=
  map (fun e => (fst e, (Some (fst (snd e)), map d2k_expected_pot (ecp_written_order (snd (snd e)))))) ecps.

Definition d2k_all_order (els : list (Z * (Z * list sshell))) (ecps : list (Z * (Z * list epot))) : list Z :=
  map fst els ++ filter (fun z => negb (existsb (Z.eqb z) (map fst els))) (map fst ecps).
Definition d2k_all_read (els : list (Z * (Z * list sshell))) (ecps : list (Z * (Z * list epot))) : list (Z * nw_el) :=
  nw_assemble (d2k_all_order els ecps, d2k_expected els, d2k_ecp_read ecps).
Definition d2k_all_expected (els : list (Z * (Z * list sshell))) (ecps : list (Z * (Z * list epot))) : list (Z * nw_el) :=
  nw_assemble (d2k_all_order els ecps, d2k_expected els, d2k_ecp_expected ecps).

(* ---------- statements ---------- *)
Definition d2k_all_write_total_stmt : Prop :=
  forall sph bsname els ecps, d2k_all_gen bsname els ecps -> exists t, d2k_write_all sph bsname els ecps = inr t.

(* what the reader returns for any ECP it does not refuse: the highest potential renumbered to n - 1 *)
Definition d2k_all_roundtrip_gen_stmt : Prop :=
  forall sph bsname els ecps, d2k_all_gen bsname els ecps ->
    d2k_roundtrip_all sph bsname els ecps = inr (d2k_all_read els ecps).
Definition d2k_all_roundtrip_parts_stmt : Prop :=
  forall sph bsname els ecps t, d2k_all_gen bsname els ecps -> d2k_write_all sph bsname els ecps = inr t ->
    d2k_read_all_parts (splitlines t) = inr (d2k_all_order els ecps, d2k_expected els, d2k_ecp_read ecps).

(* contiguous momenta 0 .. n-1: nothing is renumbered, the whole file comes back: elements in order (those with electron
   shells first), shells as in d2k_expected, electron counts, potentials in the written order (highest first, then by
   increasing momentum) with the same momenta, r exponents and numbers *)
Definition d2k_ecp_read_contiguous_stmt : Prop :=
  forall ecps, Forall d2k_ecp_el_ok ecps -> d2k_ecp_read ecps = d2k_ecp_expected ecps.
Definition d2k_all_roundtrip_stmt : Prop :=
  forall sph bsname els ecps, d2k_all_ok bsname els ecps ->
    d2k_roundtrip_all sph bsname els ecps = inr (d2k_all_expected els ecps).

(* the usual case: the momenta are 0, 1, ..., lmax in some order *)
Definition d2k_contiguous_perm_stmt : Prop :=
  forall ls lmax, Permutation ls (zrange 0 (S lmax)) -> d2k_contiguous ls.

(* C04 direction: every number of the ECP part - gaussian exponents, coefficients, r exponents and electron counts in
   decimal - is a white-space delimited token of some line of the written text *)
Definition d2k_ecp_no_number_lost_stmt : Prop :=
  forall ecps t, d2k_ecp_gen ecps -> d2k_write_ecp ecps = inr t ->
    forall x, nw_ecp_number_of ecps x -> exists line, In line (splitlines t) /\ In x (tokens_acc line "").

(* ---------- the conditions cannot be dropped ---------- *)
Definition cxa_els : list (Z * (Z * list sshell)) := [(11%Z, (10%Z, [cx_s]))].
Definition cxa_read (ls : list Z) : list (Z * nw_el) :=
  [(11%Z, mkNwEl [mkShell "gto" "" [0%Z] ["1.0"] [["1.0"]]] (Some 10%Z) (map gap_pot ls))].

(* VALID DATA (the validator does not ask for contiguous momenta): momenta 0, 1, 3 are written as ul, S, P and read back as
   2, 0, 1 without any error.  The input satisfies everything else. *)
Definition d2k_ecp_gap_counterexample_stmt : Prop :=
  d2k_all_gen "x" cxa_els (gap_ecp [0; 1; 3]%Z) /\ ~ d2k_contiguous [0; 1; 3]%Z /\
  d2k_roundtrip_all true "x" cxa_els (gap_ecp [0; 1; 3]%Z) = inr (cxa_read [2; 0; 1]%Z) /\
  d2k_all_expected cxa_els (gap_ecp [0; 1; 3]%Z) = cxa_read [3; 0; 1]%Z.
(* VALID DATA: a single potential with momentum 2 comes back with momentum 0 *)
Definition d2k_ecp_single_stmt : Prop :=
  d2k_all_gen "x" cxa_els (gap_ecp [2%Z]) /\
  d2k_roundtrip_all true "x" cxa_els (gap_ecp [2%Z]) = inr (cxa_read [0%Z]) /\
  d2k_roundtrip_all true "x" cxa_els (gap_ecp [0%Z]) = inr (cxa_read [0%Z]).
(* VALID DATA: a gap further down (0, 2, 3: written ul, S, D): the reader's assert fails; d2k_lower_ok cannot be dropped *)
Definition d2k_ecp_gap_below_stmt : Prop :=
  ~ d2k_lower_ok [0; 2; 3]%Z /\ d2k_roundtrip_all true "x" cxa_els (gap_ecp [0; 2; 3]%Z) = inl EAssert.
(* two potentials with the same momentum (not valid data): both highest ones are written as `ul`, assert *)
Definition d2k_ecp_dup_stmt : Prop := d2k_roundtrip_all true "x" cxa_els (gap_ecp [1; 0; 1]%Z) = inl EAssert.
(* VALID DATA: a basis that consists of ECPs only (def2-ECP, ...): the first line of the pruned text is `ECP`, the reader
   asserts that it is an element line *)
Definition d2k_ecp_only_stmt : Prop := d2k_roundtrip_all true "x" [] (gap_ecp [0; 1]%Z) = inl EAssert.
(* VALID DATA: no ECP at all: no END line (d2k_roundtrip_noend_stmt of Proofs/Demon2kDefs.v) *)
Definition d2k_all_noecp_stmt : Prop :=
  forall sph bsname els, d2k_ok bsname els -> d2k_roundtrip_all sph bsname els [] = inl ERuntime.
(* a negative r exponent (an integer, as the schema wants): written, refused by ecp_data_re *)
Definition d2k_ecp_negr_stmt : Prop :=
  d2k_roundtrip_all true "x" cxa_els [(11%Z, (10%Z, [mkEpot "scalar_ecp" [0%Z] [(-1)%Z] ["1.0"] [["1.0"]]]))] = inl ERuntime.
(* a potential without terms (the schema wants one): when it is the only potential of an element that is not the last one,
   the element's block has two lines and the reader SKIPS it without a word: sodium loses its ECP *)
Definition d2k_ecp_noterm_stmt : Prop :=
  d2k_roundtrip_all true "x" cxa_els
    [(11%Z, (10%Z, [mkEpot "scalar_ecp" [0%Z] [] [] [[]]])); (12%Z, (10%Z, [gap_pot 0%Z]))]
  = inr [(11%Z, mkNwEl [mkShell "gto" "" [0%Z] ["1.0"] [["1.0"]]] None []);
         (12%Z, mkNwEl [] (Some 10%Z) [gap_pot 0%Z])].
(* no potential, two coefficient columns: the writer fails *)
Definition d2k_ecp_nopot_stmt : Prop := d2k_roundtrip_all true "x" cxa_els [(11%Z, (10%Z, []))] = inl EValue.
Definition d2k_ecp_twocols_stmt : Prop :=
  d2k_roundtrip_all true "x" cxa_els [(11%Z, (10%Z, [mkEpot "scalar_ecp" [0%Z] [2%Z] ["1.0"] [["1.0"]; ["2.0"]]]))] = inl EIndex.
(* the exponent marker: converted in the electron shells (parse_primitive_matrix calls replace_d), kept in the ECP *)
Definition d2k_ecp_marker_stmt : Prop :=
  d2k_roundtrip_all true "x" [(11%Z, (10%Z, [mkShell "gto" "" [0%Z] ["1.0D+00"] [["1.0"]]]))]
                    [(11%Z, (10%Z, [mkEpot "scalar_ecp" [0%Z] [2%Z] ["1.0D+00"] [["1.0"]]]))]
  = inr [(11%Z, mkNwEl [mkShell "gto" "" [0%Z] ["1.0E+00"] [["1.0"]]] (Some 10%Z)
                       [mkEpot "scalar_ecp" [0%Z] [2%Z] ["1.0D+00"] [["1.0"]]])].

(* ---------- a concrete instance from the store: LANL2DZ for H (electron shells only) and Na (electron shells and ECP), as
   write_demon2k sees it; exa_text is, byte for byte,
   basis_set_exchange.get_basis('lanl2dz', elements=[1, 11], fmt='demon2k', header=False) ---------- *)
Definition exa_els : list (Z * (Z * list sshell)) :=
  [((1)%Z, ((0)%Z,
     [mkShell "gto" "valence" [(0)%Z] ["19.2384000"; "2.8987000"; "0.6535000"] [["0.0328280"; "0.2312040"; "0.8172260"]];
      mkShell "gto" "valence" [(0)%Z] ["0.1776000"] [["1.0000000"]]]));
   ((11)%Z, ((10)%Z,
     [mkShell "gto" "valence" [(0)%Z] ["0.4972000"; "0.0560000"] [["-0.2753574"; "1.0989969"]];
      mkShell "gto" "valence" [(0)%Z] ["0.0221000"] [["1.0000000"]];
      mkShell "gto" "valence" [(1)%Z] ["0.6697000"; "0.0636000"] [["-0.0683845"; "1.0140550"]];
      mkShell "gto" "valence" [(1)%Z] ["0.0204000"] [["1.0000000"]]]))].
Definition exa_ecps : list (Z * (Z * list epot)) :=
  [((11)%Z, ((10)%Z,
     [mkEpot "scalar_ecp" [(2)%Z] [(1)%Z; (2)%Z; (2)%Z; (2)%Z; (2)%Z] ["175.5502590"; "35.0516791"; "7.9060270"; "2.3365719"; "0.7799867"] [["-10.0000000"; "-47.4902024"; "-17.2283007"; "-6.0637782"; "-0.7299393"]];
      mkEpot "scalar_ecp" [(0)%Z] [(0)%Z; (1)%Z; (2)%Z; (2)%Z; (2)%Z] ["243.3605846"; "41.5764759"; "13.2649167"; "3.6797165"; "0.9764209"] [["3.0000000"; "36.2847626"; "72.9304880"; "23.8401151"; "6.0123861"]];
      mkEpot "scalar_ecp" [(1)%Z] [(0)%Z; (1)%Z; (2)%Z; (2)%Z; (2)%Z; (2)%Z] ["1257.2650682"; "189.6248810"; "54.5247759"; "13.7449955"; "3.6813579"; "0.9461106"] [["5.0000000"; "117.4495683"; "423.3986704"; "109.3247297"; "31.3701656"; "7.1241813"]]]))].
Definition exa_text : string :=
  String.concat nl1
   ["# This basis set uses cartesian components";
    "";
    "O-HYDROGEN H (LANL2DZ)";
    "# (4s) -> [2s]";
    "    2";
    "    1    0    3";
    "     19.2384000              0.0328280";
    "      2.8987000              0.2312040";
    "      0.6535000              0.8172260";
    "    2    0    1";
    "      0.1776000              1.0000000";
    "O-SODIUM NA (LANL2DZ)";
    "# (3s,3p) -> [2s,2p]";
    "    4";
    "    3    0    2";
    "      0.4972000             -0.2753574";
    "      0.0560000              1.0989969";
    "    4    0    1";
    "      0.0221000              1.0000000";
    "    3    1    2";
    "      0.6697000             -0.0683845";
    "      0.0636000              1.0140550";
    "    4    1    1";
    "      0.0204000              1.0000000";
    "";
    "";
    "ECP";
    "Na nelec 10";
    "Na ul";
    "1    175.5502590            -10.0000000";
    "2     35.0516791            -47.4902024";
    "2      7.9060270            -17.2283007";
    "2      2.3365719             -6.0637782";
    "2      0.7799867             -0.7299393";
    "Na S";
    "0    243.3605846              3.0000000";
    "1     41.5764759             36.2847626";
    "2     13.2649167             72.9304880";
    "2      3.6797165             23.8401151";
    "2      0.9764209              6.0123861";
    "Na P";
    "0   1257.2650682              5.0000000";
    "1    189.6248810            117.4495683";
    "2     54.5247759            423.3986704";
    "2     13.7449955            109.3247297";
    "2      3.6813579             31.3701656";
    "2      0.9461106              7.1241813";
    "END";
    ""].
Definition exa_read : list (Z * nw_el) :=
  [((1)%Z, mkNwEl
     [mkShell "gto" "" [(0)%Z] ["19.2384000"; "2.8987000"; "0.6535000"] [["0.0328280"; "0.2312040"; "0.8172260"]];
      mkShell "gto" "" [(0)%Z] ["0.1776000"] [["1.0000000"]]]
     (None)
     []);
   ((11)%Z, mkNwEl
     [mkShell "gto" "" [(0)%Z] ["0.4972000"; "0.0560000"] [["-0.2753574"; "1.0989969"]];
      mkShell "gto" "" [(0)%Z] ["0.0221000"] [["1.0000000"]];
      mkShell "gto" "" [(1)%Z] ["0.6697000"; "0.0636000"] [["-0.0683845"; "1.0140550"]];
      mkShell "gto" "" [(1)%Z] ["0.0204000"] [["1.0000000"]]]
     (Some (10)%Z)
     [mkEpot "scalar_ecp" [(2)%Z] [(1)%Z; (2)%Z; (2)%Z; (2)%Z; (2)%Z] ["175.5502590"; "35.0516791"; "7.9060270"; "2.3365719"; "0.7799867"] [["-10.0000000"; "-47.4902024"; "-17.2283007"; "-6.0637782"; "-0.7299393"]];
      mkEpot "scalar_ecp" [(0)%Z] [(0)%Z; (1)%Z; (2)%Z; (2)%Z; (2)%Z] ["243.3605846"; "41.5764759"; "13.2649167"; "3.6797165"; "0.9764209"] [["3.0000000"; "36.2847626"; "72.9304880"; "23.8401151"; "6.0123861"]];
      mkEpot "scalar_ecp" [(1)%Z] [(0)%Z; (1)%Z; (2)%Z; (2)%Z; (2)%Z; (2)%Z] ["1257.2650682"; "189.6248810"; "54.5247759"; "13.7449955"; "3.6813579"; "0.9461106"] [["5.0000000"; "117.4495683"; "423.3986704"; "109.3247297"; "31.3701656"; "7.1241813"]]])].

Definition d2k_ecp_example_stmt : Prop :=
  d2k_all_ok "LANL2DZ" exa_els exa_ecps /\
  d2k_write_all false "LANL2DZ" exa_els exa_ecps = inr exa_text /\
  d2k_all_expected exa_els exa_ecps = exa_read /\
  d2k_roundtrip_all false "LANL2DZ" exa_els exa_ecps = inr exa_read.
