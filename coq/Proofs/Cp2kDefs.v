(* Statements about the CP2K writer / reader pair (electron shells): what write_cp2k prints, read_cp2k reads back.
   Definitions only; the proofs are in Proofs/Cp2kSpec.v. *)
From BSE Require Import Model.Val Model.Text Model.Basis Model.Manip Model.Matrix Model.Lut Model.Elements Model.Nwchem
                        Model.Cp2k Proofs.MatrixDefs Proofs.NwchemDefs.

(* ---------- well-formed input of the writer (what is left after sort_basis) ---------- *)
(* nw_shell_ok (Proofs/NwchemDefs.v):
     exps s <> []                                                       at least one primitive
     am s <> []  /\  Forall (fun l => 0 <= l < 25) (am s)               momenta that have a letter in lut._amchar_map_hik
                                                                        (the writer calls misc.contraction_string)
     coefs s <> []  /\  every contraction has one coefficient per primitive
     1 < length (am s) -> length (coefs s) = length (am s)              a fused shell has one contraction per momentum
     every exponent / coefficient matches helpers.floating_re
   and, for this format: *)
Definition cp2k_shell_ok (s : sshell) : Prop :=
  nw_shell_ok s /\
  (* the momenta of a fused shell are consecutive and increasing: am = [l0, l0 + 1, ..., l0 + k - 1].  (Only min(am),
     max(am) and len(am) are printed.  Trivially true for a shell with one momentum.) *)
  am s = zrange (hd 0%Z (am s)) (List.length (am s)).

(* basis['name'] is printed after the element symbol, on the same line, and has to be matched by element_shell_re:
   one or more words, each of them matching helpers.basis_name_re_str = \d*[a-zA-Z][a-zA-Z0-9\-\+\*\(\)\[\]]*
   (digits, then a letter, then letters, digits and - + * ( ) [ ] ), separated by white space that keeps the words on
   one line (blank, tab, \x1f - not one of the line boundaries of str.splitlines) *)
Definition cp2k_sep_char (c : ascii) : bool := orb (beq c 32) (orb (beq c 9) (beq c 31)).
Definition cp2k_name_ok (bsname : string) : Prop :=
  sall (fun c => orb (name_char c) (cp2k_sep_char c)) bsname = true /\
  tokens_acc bsname "" <> [] /\
  Forall (fun w => name_word w = true) (tokens_acc bsname "").

Definition cp2k_ok (bsname : string) (els : list (Z * list sshell)) : Prop :=
  cp2k_name_ok bsname /\
  (* dictionary keys: pairwise distinct atomic numbers, all of them in lut's element table (1..120) *)
  NoDup (map fst els) /\
  Forall (fun zs => (1 <= fst zs <= 120)%Z /\ Forall cp2k_shell_ok (snd zs)) els.
(* NOT needed: els <> [] (nothing is written, read_cp2k gives {} - but see the note at cp2k_roundtrip_empty_stmt);
   snd zs <> [] (an element without shells is written with `0` blocks and comes back without shells). *)

(* ---------- what comes back ---------- *)
(* the function type the reader assigns: lut.function_type_from_am([l], 'gto', 'spherical') - always spherical, whatever
   the function type of the written shell was *)
Definition cp2k_ftype (a : list Z) : string := nw_ftype "spherical" a.

(* numbers: same normalisation as in matrix_roundtrip_stmt with conv = false (every digit, sign and point kept,
   d/D -> e/E).  A shell with one momentum comes back as one shell with all its general contractions; a FUSED shell comes
   back as one shell per momentum (same exponents, the contraction of that momentum) - the reader never builds a fused
   shell *)
Definition cp2k_expected_shell (s : sshell) : list sshell :=
  if Nat.ltb 1 (List.length (am s))
  then map (fun lc => mkShell (cp2k_ftype [fst lc]) "" [fst lc] (map (norm false) (exps s)) [map (norm false) (snd lc)])
           (combine (am s) (coefs s))
  else [mkShell (cp2k_ftype (am s)) "" (am s) (map (norm false) (exps s)) (map (map (norm false)) (coefs s))].

Definition cp2k_expected (els : list (Z * list sshell)) : list (Z * list sshell) :=
  map (fun zs => (fst zs, flat_map cp2k_expected_shell (snd zs))) els.

(* ---------- statements ---------- *)
(* the writer does not fail on well-formed input *)
Definition cp2k_write_total_stmt : Prop :=
  forall bsname els, cp2k_ok bsname els -> exists t, cp2k_write_electron bsname els = inr t.

(* reading back what was written gives exactly the same elements, in order, with the shells of cp2k_expected, in order *)
Definition cp2k_roundtrip_stmt : Prop :=
  forall bsname els, cp2k_ok bsname els -> cp2k_roundtrip bsname els = inr (cp2k_expected els).

(* C04 direction: every exponent and every coefficient of the input (zeros included - nothing is left out, and
   convert_exp=False: the exponent marker is printed as it is) is a white-space delimited token of some line of the
   written text *)
Definition cp2k_number_of (els : list (Z * list sshell)) (x : string) : Prop :=
  exists zs s, In zs els /\ In s (snd zs) /\ (In x (exps s) \/ exists c, In c (coefs s) /\ In x c).
Definition cp2k_no_number_lost_stmt : Prop :=
  forall bsname els t, cp2k_ok bsname els -> cp2k_write_electron bsname els = inr t ->
    forall x, cp2k_number_of els x -> exists line, In line (splitlines t) /\ In x (tokens_acc line "").

(* ---------- the conditions of cp2k_ok that cannot be dropped ---------- *)
Definition cp2k_h : sshell := mkShell "gto" "" [0%Z] ["1.0"] [["1.0"]].

(* --- the name.  FINDING: these are names of basis sets of the library's own store (117 of its 748 display names are
   refused by helpers.basis_name_re_str: every Pople name that begins with `digit-`, names with `/`, `_`, `,`, `!` or a
   word made of digits only); write_cp2k prints them, read_cp2k then refuses the element line *)
Definition cp2k_roundtrip_name_631g_stmt : Prop := cp2k_roundtrip "6-31G" [(1%Z, [cp2k_h])] = inl ERuntime.
Definition cp2k_roundtrip_name_binning_stmt : Prop := cp2k_roundtrip "binning 641" [(1%Z, [cp2k_h])] = inl ERuntime.
Definition cp2k_roundtrip_name_slash_stmt : Prop := cp2k_roundtrip "cc-pVDZ(fi/sf/fw)" [(1%Z, [cp2k_h])] = inl ERuntime.
Definition cp2k_roundtrip_name_underscore_stmt : Prop := cp2k_roundtrip "aug-pcJ-0_2006" [(1%Z, [cp2k_h])] = inl ERuntime.
Definition cp2k_roundtrip_name_paren_stmt : Prop := cp2k_roundtrip "SV (Dunning-Hay)" [(1%Z, [cp2k_h])] = inl ERuntime.
(* the empty name, a name containing a line boundary *)
Definition cp2k_roundtrip_noname_stmt : Prop := cp2k_roundtrip "" [(1%Z, [cp2k_h])] = inl ERuntime.
Definition cp2k_roundtrip_nlname_stmt : Prop := cp2k_roundtrip ("a" +++ nl1 +++ "b") [(1%Z, [cp2k_h])] = inl ERuntime.
(* names that are fine: several words, a leading digit run, the punctuation the regex knows *)
Definition cp2k_roundtrip_name_fine_stmt : Prop :=
  Forall (fun n => cp2k_roundtrip n [(1%Z, [cp2k_h])] = inr [(1%Z, [cp2k_h])])
         ["cc-pVDZ"; "def2-SVP"; "STO-3G"; " 3a  x(1)[2]+*- "; "6ZaPa-NR"; "aug-cc-pV(5+d)Z"].

(* --- fused shells.  FINDING (generated data only; the schema asks for a non-empty list of distinct non-negative
   integers, the store has only [0,1] and [0,1,2]): momenta that are not consecutive make the reader's assert fail ... *)
Definition cp2k_roundtrip_gap_stmt : Prop :=
  cp2k_roundtrip "x" [(1%Z, [mkShell "gto_spherical" "" [0%Z; 2%Z] ["1.0"] [["1.0"]; ["2.0"]]])] = inl EAssert.
(* ... and momenta that are not increasing come back SILENTLY with the contractions exchanged: the s contraction 1.0 is
   now the contraction of the p shell *)
Definition cp2k_roundtrip_swapped_stmt : Prop :=
  cp2k_roundtrip "x" [(1%Z, [mkShell "gto" "" [1%Z; 0%Z] ["3.0"] [["2.0"]; ["1.0"]]])] =
    inr [(1%Z, [mkShell "gto" "" [0%Z] ["3.0"] [["2.0"]]; mkShell "gto" "" [1%Z] ["3.0"] [["1.0"]]])].
(* a fused shell whose number of contractions is not the number of momenta (refused by the validator): ngen check *)
Definition cp2k_roundtrip_fused_stmt : Prop :=
  cp2k_roundtrip "x" [(1%Z, [mkShell "gto" "" [0%Z; 1%Z] ["1.0"] [["1.0"]]])] = inl ERuntime.
(* no contraction at all (refused by the schema): 'Missing contraction coefficients' *)
Definition cp2k_roundtrip_nocoef_stmt : Prop :=
  cp2k_roundtrip "x" [(1%Z, [mkShell "gto" "" [0%Z] ["1.0"] []])] = inl ERuntime.
(* no primitive (refused by the schema): block_re matches `1 0 0 0 1`, the empty slice is 'No exponents found' *)
Definition cp2k_roundtrip_noprim_stmt : Prop :=
  cp2k_roundtrip "x" [(1%Z, [mkShell "gto" "" [0%Z] [] [[]]])] = inl ERuntime.
(* the same atomic number twice (not possible in a Python dict): the reader merges the two sections *)
Definition cp2k_roundtrip_dup_stmt : Prop :=
  cp2k_roundtrip "x" [(1%Z, [cp2k_h]); (1%Z, [cp2k_h])] = inr [(1%Z, [cp2k_h; cp2k_h])].
(* angular momentum 25 has no letter (contraction_string), atomic number 121 no symbol, a number without a decimal
   point: the writer fails *)
Definition cp2k_write_am25_stmt : Prop :=
  cp2k_write_electron "x" [(1%Z, [mkShell "gto_spherical" "" [25%Z] ["1.0"] [["1.0"]]])] = inl EIndex.
Definition cp2k_write_z121_stmt : Prop := cp2k_write_electron "x" [(121%Z, [cp2k_h])] = inl EKey.
Definition cp2k_write_nopoint_stmt : Prop :=
  cp2k_write_electron "x" [(1%Z, [mkShell "gto" "" [0%Z] ["1"] [["1.0"]]])] = inl EValue.
Definition cp2k_write_noam_stmt : Prop :=
  cp2k_write_electron "x" [(1%Z, [mkShell "gto" "" [] ["1.0"] [["1.0"]]])] = inl EValue.

(* --- conditions that other formats need and this one does not *)
(* no element: nothing is written, read_cp2k returns {}.  (NOTE: read_cp2k returns the dictionary alone in this case and
   readers.read_formatted_basis_str, which unpacks `element_data, other_data = ...`, raises ValueError - for every reader
   that has this `# Empty file?` return.) *)
Definition cp2k_roundtrip_empty_stmt : Prop :=
  cp2k_write_electron "x" [] = inr "" /\ cp2k_roundtrip "x" [] = inr [].
(* an element without shells is kept (NWChem: it disappears; Turbomole: the file becomes unreadable) *)
Definition cp2k_roundtrip_noshell_stmt : Prop :=
  cp2k_roundtrip "x" [(1%Z, [cp2k_h]); (2%Z, [])] = inr [(1%Z, [cp2k_h]); (2%Z, [])].

(* --- what is lost: a Cartesian d shell comes back as gto_spherical, the region is dropped, a fused shell is split *)
Definition cp2k_roundtrip_cartesian_stmt : Prop :=
  cp2k_roundtrip "x" [(1%Z, [mkShell "gto_cartesian" "valence" [2%Z] ["1.0"] [["1.0"]]])] =
    inr [(1%Z, [mkShell "gto_spherical" "" [2%Z] ["1.0"] [["1.0"]]])].
Definition cp2k_roundtrip_spd_stmt : Prop :=
  cp2k_roundtrip "x" [(1%Z, [mkShell "gto_spherical" "" [0%Z; 1%Z; 2%Z] ["1.0"; "0.5"]
                                     [["1.0"; "2.0"]; ["3.0"; "4.0"]; ["5.0"; "6.0D+00"]]])] =
    inr [(1%Z, [mkShell "gto" "" [0%Z] ["1.0"; "0.5"] [["1.0"; "2.0"]];
                mkShell "gto" "" [1%Z] ["1.0"; "0.5"] [["3.0"; "4.0"]];
                mkShell "gto_spherical" "" [2%Z] ["1.0"; "0.5"] [["5.0"; "6.0E+00"]]])].

(* ---------- a concrete instance from the store: STO-3G for H and Li (a fused sp shell) and the first shell of cc-pVDZ
   for H (two general contractions), as write_cp2k sees them after sort_basis ---------- *)
Definition cx_H1 : sshell :=
  mkShell "gto" "" [0%Z] ["0.3425250914E+01"; "0.6239137298E+00"; "0.1688554040E+00"]
          [["0.1543289673E+00"; "0.5353281423E+00"; "0.4446345422E+00"]].
Definition cx_Li1 : sshell :=
  mkShell "gto" "" [0%Z] ["0.1611957475E+02"; "0.2936200663E+01"; "0.7946504870E+00"]
          [["0.1543289673E+00"; "0.5353281423E+00"; "0.4446345422E+00"]].
Definition cx_Li2 : sshell :=
  mkShell "gto" "" [0%Z; 1%Z] ["0.6362897469E+00"; "0.1478600533E+00"; "0.4808867840E-01"]
          [["-0.9996722919E-01"; "0.3995128261E+00"; "0.7001154689E+00"];
           ["0.1559162750E+00"; "0.6076837186E+00"; "0.3919573931E+00"]].
Definition cx_els : list (Z * list sshell) := [(1%Z, [cx_H1]); (3%Z, [cx_Li1; cx_Li2])].

Definition cx_text : string :=
  String.concat nl1
   ["# Hydrogen STO-3G (3s) -> [1s]";
    "H STO-3G";
    "    1";
    "1 0 0 3 1";
    "      0.3425250914E+01       0.1543289673E+00";
    "      0.6239137298E+00       0.5353281423E+00";
    "      0.1688554040E+00       0.4446345422E+00";
    "";
    "# Lithium STO-3G (6s,3p) -> [2s,1p]";
    "Li STO-3G";
    "    2";
    "1 0 0 3 1";
    "      0.1611957475E+02       0.1543289673E+00";
    "      0.2936200663E+01       0.5353281423E+00";
    "      0.7946504870E+00       0.4446345422E+00";
    "1 0 1 3 1 1";
    "      0.6362897469E+00      -0.9996722919E-01       0.1559162750E+00";
    "      0.1478600533E+00       0.3995128261E+00       0.6076837186E+00";
    "      0.4808867840E-01       0.7001154689E+00       0.3919573931E+00";
    "";
    ""].

(* cc-pVDZ, hydrogen, the s shell: two general contractions *)
Definition cx_ccH : sshell :=
  mkShell "gto" "" [0%Z] ["1.301000E+01"; "1.962000E+00"; "4.446000E-01"; "1.220000E-01"]
          [["1.968500E-02"; "1.379770E-01"; "4.781480E-01"; "5.012400E-01"];
           ["0.000000E+00"; "0.000000E+00"; "0.000000E+00"; "1.000000E+00"]].
Definition cx_cc_text : string :=
  String.concat nl1
   ["# Hydrogen cc-pVDZ (4s) -> [2s]";
    "H cc-pVDZ";
    "    1";
    "1 0 0 4 2";
    "      1.301000E+01           1.968500E-02           0.000000E+00";
    "      1.962000E+00           1.379770E-01           0.000000E+00";
    "      4.446000E-01           4.781480E-01           0.000000E+00";
    "      1.220000E-01           5.012400E-01           1.000000E+00";
    "";
    ""].

Definition cp2k_example_stmt : Prop :=
  cp2k_ok "STO-3G" cx_els /\
  cp2k_write_electron "STO-3G" cx_els = inr cx_text /\
  cp2k_roundtrip "STO-3G" cx_els = inr (cp2k_expected cx_els) /\
  (* the sp shell of Li comes back as an s shell and a p shell *)
  cp2k_expected cx_els =
    [(1%Z, [cx_H1]);
     (3%Z, [cx_Li1;
            mkShell "gto" "" [0%Z] (exps cx_Li2) [["-0.9996722919E-01"; "0.3995128261E+00"; "0.7001154689E+00"]];
            mkShell "gto" "" [1%Z] (exps cx_Li2) [["0.1559162750E+00"; "0.6076837186E+00"; "0.3919573931E+00"]]])] /\
  (* general contractions are columns, and come back as they were *)
  cp2k_write_electron "cc-pVDZ" [(1%Z, [cx_ccH])] = inr cx_cc_text /\
  cp2k_roundtrip "cc-pVDZ" [(1%Z, [cx_ccH])] = inr [(1%Z, [cx_ccH])] /\
  (* FINDING on store data: the same hydrogen shells under their own name 6-31G cannot be read back *)
  cp2k_roundtrip "6-31G" [(1%Z, [ex_H1; ex_H2])] = inl ERuntime /\
  cp2k_roundtrip "x6-31G" [(1%Z, [ex_H1; ex_H2])] = inr (cp2k_expected [(1%Z, [ex_H1; ex_H2])]).
