(* Proofs of the statements of Proofs/PqsDefs.v: the PQS writer is total on well-formed input (pqs_write_total); every number
   of the ECP part is a token of some line (pqs_ecp_no_number_lost); for the electron part the full-strength token statement
   is false (pqs_fused, pqs_no_number_lost_counterexample: the first exponent of a shell glued to the shell letter - data
   from the store), true when the first exponent of every shell leaves room for the letter (pqs_no_number_lost_partial),
   and in every case no character of any number is missing (pqs_no_digit_lost).
   The toolkit (matrices of cells, names, letters) is in Proofs/OrcaSpec.v. *)
From BSE Require Import Model.Val Model.Text Model.Num Model.Basis Model.Manip Model.Matrix Gen.GenLut Model.Lut
                        Model.Elements Model.Nwchem Model.NwchemEcp Model.G94 Model.GamessUs Model.GamessUsEcp Model.Pqs
                        Proofs.MatrixDefs Proofs.NwchemDefs Proofs.NwchemEcpDefs Proofs.PqsDefs Proofs.C20Finite.
From Coq Require Import NArith Nnat Znat Lia Permutation.
From BSE Require Import Proofs.HeaderSpec Proofs.PruneFS Proofs.MatrixSpec Proofs.NwchemSpec Proofs.NwchemEcpSpec
                        Proofs.GamessUsSpec Proofs.GamessUsEcpSpec Proofs.OrcaSpec.

(* ================================================================== *)
(* 1. a word put in front of a line                                    *)
(* ================================================================== *)
Lemma tokens_acc_app : forall s a b, a <> "" ->
  exists f r, tokens_acc s a = f :: r /\ tokens_acc s (a +++ b) = (srev b +++ f) :: r.
Proof.
  induction s as [|c t IH]; intros a b Ha.
  - destruct a as [|x a]; [congruence|]. cbn [String.append tokens_acc]. eexists. eexists. split; [reflexivity|].
    change (String x (a +++ b)) with (String x a +++ b). now rewrite srev_app.
  - cbn [tokens_acc]. destruct (is_space c).
    + destruct a as [|x a]; [congruence|]. cbn [String.append]. eexists. eexists. split; [reflexivity|].
      change (String x (a +++ b)) with (String x a +++ b). now rewrite srev_app.
    + change (String c (a +++ b)) with (String c a +++ b). apply IH. discriminate.
Qed.

(* a word without blanks in front of a line: every token of the line is still there, or has the word glued to its front *)
Lemma tokens_prefix_word : forall w s x, sany is_space w = false -> In x (tokens_acc s "") ->
  exists tok, In tok (tokens_acc (w +++ s) "") /\ (tok = x \/ tok = w +++ x).
Proof.
  intros w s x Hw Hx. rewrite (tokens_word w s "" Hw), sapp_nil_r.
  destruct w as [|w0 w']; [exists x; split; [exact Hx | now left]|].
  assert (Hne : srev (String w0 w') <> "") by (apply srev_ne; discriminate).
  destruct s as [|c t]; [destruct Hx|]. cbn [tokens_acc] in *. destruct (is_space c).
  - destruct (srev (String w0 w')) as [|y ys] eqn:E; [congruence|]. exists x. split; [right; exact Hx | now left].
  - destruct (tokens_acc_app t (String c "") (srev (String w0 w')) ltac:(discriminate)) as [f [r [E1 E2]]].
    cbn [String.append] in E2. rewrite E2, srev_involutive. rewrite E1 in Hx. destruct Hx as [<-|Hx].
    + exists (String w0 w' +++ f). split; [now left | now right].
    + exists x. split; [right; exact Hx | now left].
Qed.

(* the word takes the place of the first of two blanks: every token of the line is still there *)
Lemma tokens_letter_blank : forall A r x, sany is_space A = false -> In x (tokens_acc r "") ->
  In x (tokens_acc (A +++ String " " r) "").
Proof.
  intros A r x HA Hx. rewrite (tokens_word A _ "" HA), sapp_nil_r. cbn [tokens_acc]. change (is_space " ") with true. cbv iota.
  destruct (srev A); [exact Hx | right; exact Hx].
Qed.

Lemma alpha_no_space : forall s, sall is_alpha s = true -> sany is_space s = false.
Proof. intros s H. exact (sall_sany_false is_alpha is_space s alpha_not_space H). Qed.

(* ================================================================== *)
(* 2. the first line of a printed matrix                               *)
(* ================================================================== *)
Lemma write_row_prefix : forall cells pps first line out,
  write_row cells pps first line = inr out -> exists suf, out = line +++ suf.
Proof.
  induction cells as [|c cells IH]; intros pps first line out H.
  - cbn in H. inversion H; subst. exists "". now rewrite sapp_nil_r.
  - cbn [write_row] in H. destruct pps as [|pp ppt]; [discriminate|]. unfold bind in H.
    destruct (find_point c) as [e|fp]; [discriminate|]. apply IH in H. destruct H as [suf ->].
    eexists. rewrite !sapp_assoc. reflexivity.
Qed.

Lemma first_row_blank2 : forall e0 cells pp ppt out fp,
  write_row (CStr e0 :: cells) (pp :: ppt) true "" = inr out ->
  index_char "." e0 0 = Some fp -> (Z.of_nat fp + 3 <= pp)%Z -> exists r, out = String " " (String " " r).
Proof.
  intros e0 cells pp ppt out fp H Hfp Hpp. cbn [write_row find_point] in H. rewrite Hfp in H. unfold bind, ok in H.
  apply write_row_prefix in H. destruct H as [suf ->]. cbn [String.length]. rewrite Nat.sub_0_r.
  remember (Z.to_nat (Z.max (pp - 1 - Z.of_nat fp) 0)) as g eqn:Eg.
  destruct g as [|[|g]]; [lia | lia|]. cbn [sp String.append]. eexists. reflexivity.
Qed.

Lemma wm_rows_spec : forall mat pps, cells_ok mat -> List.length mat <= List.length pps ->
  Forall2 (fun row line => write_row row pps true "" = inr line) (transpose mat) (wm_rows mat pps).
Proof.
  intros mat pps [Hok _] Hlen.
  destruct (mapM_total _ _ (fun row => write_row row pps true "") (transpose mat)) as [rows Hrows].
  { pose proof (transpose_Forall _ _ mat Hok) as H1. pose proof (transpose_rowlen _ mat) as H2.
    rewrite Forall_forall in *. intros row Hin. apply write_row_total; [apply H1, Hin|]. rewrite (H2 _ Hin). exact Hlen. }
  unfold wm_rows. rewrite Hrows. exact (mapM_Forall2 _ _ _ _ _ Hrows).
Qed.

(* ================================================================== *)
(* 3. the electron part                                                *)
(* ================================================================== *)
Definition ppps (s : sshell) : list Z := pqs_point_places (List.length (coefs s) + 1).
Definition prow (s : sshell) : list string := wm_rows (pqs_cols s) (ppps s).
Definition pA (s : sshell) : string := upper (amch true true (am s)).
(* the first line of a shell: the letter instead of the first blank, or in front of everything *)
Definition pfirst (s : sshell) : string :=
  match hd "" (prow s) with
  | String c r => if Ascii.eqb c " " then pA s +++ r else pA s +++ String c r
  | EmptyString => pA s
  end.
Definition pshell_lines (s : sshell) : list string := pfirst s :: tl (prow s).
Definition pel_lines (zs : Z * list sshell) : list string := ("FOR        " +++ nsym (fst zs)) :: flat_map pshell_lines (snd zs).
Definition pel_ok (zs : Z * list sshell) : Prop := (1 <= fst zs <= 120)%Z /\ Forall pqs_shell_ok (snd zs).

Lemma pqs_cols_ok : forall s, pqs_shell_ok s ->
  cells_ok (pqs_cols s) /\ List.length (pqs_cols s) <= List.length (ppps s) /\
  Forall (fun r => List.length r = List.length (exps s)) (pqs_cols s).
Proof.
  intros s [_ [_ [HcF [He Hc]]]]. unfold pqs_cols, ppps, pqs_point_places. split; [|split].
  - apply cells_ok_cons; [apply floats_cells, He | apply cells_ok_floats, Hc].
  - cbn [List.length]. rewrite !map_length, zrange_length. lia.
  - constructor; [apply map_length|].
    rewrite Forall_forall in *. intros r Hr. apply in_map_iff in Hr. destruct Hr as [c [<- Hcin]]. rewrite map_length. apply HcF, Hcin.
Qed.

Lemma prow_length : forall s, pqs_shell_ok s -> List.length (prow s) = List.length (exps s).
Proof.
  intros s Hs. destruct (pqs_cols_ok s Hs) as [Hok [Hlen HF]]. destruct (wm_facts _ _ Hok Hlen) as [_ [_ F2]].
  unfold prow. rewrite <- (Forall2_len _ _ _ _ _ F2).
  destruct (transpose_spec cell (CInt 0) (List.length (exps s)) (pqs_cols s)) as [Tl _]; [discriminate | exact HF | exact Tl].
Qed.

Lemma pA_facts : forall s, pqs_shell_ok s ->
  amint_to_char (am s) true true = inr (amch true true (am s)) /\ sall is_alpha (pA s) = true /\ good_line (pA s).
Proof.
  intros s [_ [Ha _]]. destruct (amch_facts true true (am s) Ha) as [E [Hal [_ G]]].
  split; [exact E|]. split; [apply sall_alpha_upper, Hal | exact G].
Qed.

Lemma pshell_write : forall s, pqs_shell_ok s ->
  pqs_write_shell s = inr (unlines (pshell_lines s)) /\ Forall good_line (pshell_lines s).
Proof.
  intros s Hs. destruct (pqs_cols_ok s Hs) as [Hok [Hlen _]]. destruct (wm_write _ _ Hok Hlen) as [E1 E2].
  destruct (pA_facts s Hs) as [Ea [_ Ga]]. pose proof (wm_good _ _ Hok Hlen) as Gr. pose proof (prow_length s Hs) as Hl.
  fold (prow s) in E2, Gr. unfold pshell_lines, pfirst.
  destruct (prow s) as [|r0 rest] eqn:Er.
  { exfalso. destruct Hs as [Hne _]. cbn in Hl. destruct (exps s); [congruence | discriminate]. }
  inversion Gr as [|? ? G0 Grest]; subst. cbn [hd tl]. split.
  - unfold pqs_write_shell. rewrite Ea. unfold bind. fold (ppps s). rewrite E1, E2. fold (pA s).
    rewrite unlines_cons. destruct r0 as [|c r'].
    + cbn [String.append]. unfold nl1 at 1. cbn [String.append]. change (Ascii.eqb (byte 10) " ") with false. cbv iota.
      unfold ok. rewrite unlines_cons. reflexivity.
    + cbn [String.append]. unfold ok. destruct (Ascii.eqb c " ").
      * rewrite unlines_cons, !sapp_assoc. reflexivity.
      * rewrite unlines_cons. change (String c (r' +++ nl1 +++ unlines rest)) with (String c r' +++ nl1 +++ unlines rest).
        rewrite !sapp_assoc. reflexivity.
  - constructor; [|exact Grest]. destruct r0 as [|c r']; [exact Ga|].
    unfold good_line in G0. cbn [sall] in G0. apply andb_true_iff in G0. destruct G0 as [Gc Gr'].
    destruct (Ascii.eqb c " "); apply good_app; try exact Ga; [exact Gr'|]. unfold good_line. cbn [sall]. now rewrite Gc, Gr'.
Qed.

Lemma pel_write : forall zs, pel_ok zs -> pqs_write_element zs = inr (unlines (pel_lines zs)) /\ Forall good_line (pel_lines zs).
Proof.
  intros [z shs] [Hz Hshs]. cbn [fst snd] in *. destruct (el_facts z Hz) as [_ [Es [_ [_ [Gs _]]]]]. split.
  - unfold pqs_write_element. rewrite Es. unfold bind.
    rewrite (mapM_map_ok _ _ pqs_write_shell (fun s => unlines (pshell_lines s))).
    + unfold pel_lines, ok. cbn [fst snd]. rewrite unlines_cons, unlines_flat_map, !sapp_assoc. reflexivity.
    + intros s Hin. apply pshell_write. rewrite Forall_forall in Hshs. apply Hshs, Hin.
  - unfold pel_lines. cbn [fst snd]. constructor; [apply good_app; [reflexivity | exact Gs]|].
    rewrite Forall_forall in *. intros l Hl. apply in_flat_map in Hl. destruct Hl as [s [Hs Hl]].
    destruct (pshell_write s (Hshs s Hs)) as [_ G]. rewrite Forall_forall in G. apply G, Hl.
Qed.

Lemma pelectron_write : forall els, Forall pel_ok els ->
  pqs_write_electron els = inr (unlines (flat_map pel_lines els)) /\ Forall good_line (flat_map pel_lines els).
Proof.
  intros els H. split.
  - unfold pqs_write_electron. rewrite (mapM_map_ok _ _ pqs_write_element (fun zs => unlines (pel_lines zs))).
    + unfold bind, ok. rewrite unlines_flat_map. reflexivity.
    + intros e He. apply pel_write. rewrite Forall_forall in H. apply H, He.
  - rewrite Forall_forall in *. intros l Hl. apply in_flat_map in Hl. destruct Hl as [e [He Hl]].
    destruct (pel_write e (H e He)) as [_ G]. rewrite Forall_forall in G. apply G, Hl.
Qed.

(* every number of a shell is a token of one of the matrix rows *)
Lemma prow_token : forall s x, pqs_shell_ok s -> (In x (exps s) \/ exists c, In c (coefs s) /\ In x c) ->
  exists line, In line (prow s) /\ In x (tokens_acc line "").
Proof.
  intros s x Hs Hx. destruct (pqs_cols_ok s Hs) as [Hok [Hlen HF]].
  assert (Hcol : exists l, In (map CStr l) (pqs_cols s) /\ In x l).
  { unfold pqs_cols. destruct Hx as [Hx|[c [Hc Hx]]].
    - exists (exps s). split; [now left | exact Hx].
    - exists c. split; [right; apply in_map, Hc | exact Hx]. }
  destruct Hcol as [l [Hl Hxl]]. exact (wm_token_str _ _ _ l x Hok Hlen HF Hl Hxl).
Qed.

(* ... and of one of the shell's lines, possibly behind the letters *)
Lemma pshell_digit : forall s x, pqs_shell_ok s -> (In x (exps s) \/ exists c, In c (coefs s) /\ In x c) ->
  exists line tok, In line (pshell_lines s) /\ In tok (tokens_acc line "") /\
    (tok = x \/ exists pre, tok = pre +++ x /\ sall is_alpha pre = true).
Proof.
  intros s x Hs Hx. destruct (prow_token s x Hs Hx) as [line [Hline Htok]]. destruct (pA_facts s Hs) as [_ [HA _]].
  pose proof (alpha_no_space _ HA) as HAs. unfold pshell_lines, pfirst.
  destruct (prow s) as [|r0 rest]; [destruct Hline|]. cbn [hd tl]. destruct Hline as [<-|Hline].
  - assert (P : exists tok, In tok (tokens_acc (match r0 with
                                                 | String c r => if Ascii.eqb c " " then pA s +++ r else pA s +++ String c r
                                                 | EmptyString => pA s end) "") /\ (tok = x \/ tok = pA s +++ x)).
    { destruct r0 as [|c r']; [destruct Htok|]. destruct (Ascii.eqb_spec c " ") as [->|_].
      - cbn [tokens_acc] in Htok. change (is_space " ") with true in Htok. cbv iota in Htok.
        exact (tokens_prefix_word (pA s) r' x HAs Htok).
      - exact (tokens_prefix_word (pA s) (String c r') x HAs Htok). }
    destruct P as [tok [Hin Hor]]. eexists. exists tok. split; [now left|]. split; [exact Hin|].
    destruct Hor as [->| ->]; [now left | right; exists (pA s); split; [reflexivity | exact HA]].
  - exists line. exists x. split; [right; exact Hline|]. split; [exact Htok | now left].
Qed.

(* the first row begins with two blanks when the first exponent fits *)
Lemma prow_first_blank2 : forall s r0 rest, pqs_shell_ok s -> pqs_first_fits s -> prow s = r0 :: rest ->
  exists r, r0 = String " " (String " " r).
Proof.
  intros s r0 rest Hs Hfit Er. destruct (pqs_cols_ok s Hs) as [Hok [Hlen HF]].
  pose proof (wm_rows_spec _ _ Hok Hlen) as F2. fold (prow s) in F2. rewrite Er in F2.
  destruct (transpose_spec cell (CInt 0) (List.length (exps s)) (pqs_cols s)) as [Tl Tn]; [discriminate | exact HF|].
  pose proof Hs as [Hne [_ [_ [He _]]]]. destruct (exps s) as [|e0 et] eqn:Ee; [congruence|].
  specialize (Tn 0 ltac:(cbn; lia)). clear Tl.
  remember (transpose (pqs_cols s)) as T eqn:ET. clear ET.
  inversion F2 as [|row0 ? trest ? Hw _ Et]; subst T. cbn [nth] in Tn. subst row0.
  unfold pqs_cols in Hw. rewrite Ee in Hw. cbn [map nth] in Hw.
  unfold ppps, pqs_point_places in Hw. rewrite Nat.add_1_r in Hw. cbn [zrange map] in Hw.
  inversion He as [|? ? He0 _]; subst. destruct (floating_is_cell e0 He0) as [_ [_ Hpt]].
  destruct (index_char_some e0 0 Hpt) as [fp Hfp].
  unfold pqs_first_fits, point_index in Hfit. rewrite Ee in Hfit. cbn [hd] in Hfit. rewrite Hfp in Hfit.
  apply (first_row_blank2 _ _ _ _ _ fp Hw Hfp). lia.
Qed.

Lemma pshell_token : forall s x, pqs_shell_ok s -> pqs_first_fits s -> (In x (exps s) \/ exists c, In c (coefs s) /\ In x c) ->
  exists line, In line (pshell_lines s) /\ In x (tokens_acc line "").
Proof.
  intros s x Hs Hfit Hx. destruct (prow_token s x Hs Hx) as [line [Hline Htok]]. destruct (pA_facts s Hs) as [_ [HA _]].
  pose proof (alpha_no_space _ HA) as HAs. unfold pshell_lines, pfirst.
  destruct (prow s) as [|r0 rest] eqn:Er; [destruct Hline|]. cbn [hd tl]. destruct Hline as [<-|Hline].
  - destruct (prow_first_blank2 s r0 rest Hs Hfit Er) as [r ->]. eexists. split; [now left|].
    change (Ascii.eqb " " " ") with true. cbv iota. apply tokens_letter_blank; [exact HAs|].
    cbn [tokens_acc] in Htok. change (is_space " ") with true in Htok. cbv iota in Htok. exact Htok.
  - exists line. split; [right; exact Hline | exact Htok].
Qed.

(* ================================================================== *)
(* 4. the ECP part: the loop body of write_gamess_us_ecp_basis for ANY well-formed potential *)
(* ================================================================== *)
Definition pmx (e : Z * (Z * list epot)) : Z := zmax (map pot_l (snd (snd e))).
Definition ptitle (mx : Z) (p : epot) : string :=
  if Z.eqb (pot_l p) mx
  then pad5 (nat_str (List.length (p_rexp p))) +++ " ----- " +++ amch false false (p_am p) +++ "-ul potential -----"
  else pad5 (nat_str (List.length (p_rexp p))) +++ " ----- " +++ amch false false (p_am p) +++ "-" +++
       amch true false [mx] +++ " potential -----".
Definition ppot_lines (mx : Z) (p : epot) : list string := ptitle mx p :: wm_rows (gus_ecp_cols p) gus_ecp_point_places.
Definition pecp_hdr (e : Z * (Z * list epot)) : string :=
  upper (lsym (fst e)) +++ "-ECP GEN    " +++ Z_to_string (fst (snd e)) +++ "    " +++ Z_to_string (pmx e).
Definition pecp_lines (e : Z * (Z * list epot)) : list string :=
  pecp_hdr e :: flat_map (ppot_lines (pmx e)) (ecp_written_order (snd (snd e))).

Lemma gus_cols_gen_ok : forall p, pqs_pot_ok p ->
  cells_ok (gus_ecp_cols p) /\ List.length (gus_ecp_cols p) <= List.length gus_ecp_point_places /\
  Forall (fun r => List.length r = List.length (p_rexp p)) (gus_ecp_cols p).
Proof.
  intros p [_ [_ [Hg [Hn [HcF [Hgf Hcf]]]]]]. unfold gus_ecp_cols, gus_ecp_point_places. split; [|split].
  - apply cells_ok_app; [apply cells_ok_floats, Hcf|]. apply cells_ok_cons; [apply cints_ok|].
    apply cells_ok_cons; [apply floats_cells, Hgf | apply cells_ok_nil].
  - rewrite app_length, map_length. cbn [List.length]. lia.
  - apply Forall_app. split; [|constructor; [apply map_length | constructor; [rewrite map_length; exact Hg | constructor]]].
    rewrite Forall_forall in *. intros r Hr. apply in_map_iff in Hr. destruct Hr as [c [<- Hcin]]. rewrite map_length. apply HcF, Hcin.
Qed.

Lemma pad5_good : forall s, good_line s -> good_line (pad5 s).
Proof. intros s H. unfold pad5. apply good_app; [exact H | apply sp_nobd]. Qed.

Lemma ppot_write : forall mx p, pqs_pot_ok p -> (0 <= mx < 25)%Z ->
  gus_write_pot mx (amch true false [mx]) p = inr (unlines (ppot_lines mx p)) /\ Forall good_line (ppot_lines mx p).
Proof.
  intros mx p Hp Hmx. destruct (gus_cols_gen_ok p Hp) as [Hok [Hlen _]]. destruct (wm_write _ _ Hok Hlen) as [E1 E2].
  pose proof Hp as [Hne [Ha _]]. destruct (amch_facts false false (p_am p) Ha) as [Ea [_ [Ga _]]].
  assert (Hmxl : Forall (fun l => (0 <= l < am_bound true)%Z) [mx]) by (constructor; [cbn [am_bound]; lia | constructor]).
  destruct (amch_facts true false _ Hmxl) as [_ [_ [Gc _]]].
  assert (Ef : am_first p = inr (pot_l p)) by (unfold am_first, pot_l; destruct (p_am p); [congruence | reflexivity]).
  split.
  - unfold gus_write_pot. rewrite Ea. unfold bind. rewrite Ef, E1, E2. unfold ppot_lines, ptitle, ok.
    rewrite unlines_cons. destruct (Z.eqb (pot_l p) mx); rewrite !sapp_assoc; reflexivity.
  - constructor; [|apply wm_good; assumption]. unfold ptitle.
    destruct (Z.eqb (pot_l p) mx); (apply good_app; [apply pad5_good, nat_str_good|]); (apply good_app; [reflexivity|]);
      (apply good_app; [exact Ga|]); [reflexivity|]. apply good_app; [reflexivity|]. apply good_app; [exact Gc | reflexivity].
Qed.

Lemma pmx_range : forall e, pqs_ecp_el_ok e -> (0 <= pmx e < 25)%Z /\ ecp_max_am (snd (snd e)) = inr (pmx e).
Proof.
  intros [z [n pots]] [_ [Hne Hp]]. cbn [fst snd] in *. unfold pmx. cbn [fst snd].
  assert (Ham : Forall (fun p => p_am p <> []) pots) by (rewrite Forall_forall in *; intros p Hin; apply (Hp p Hin)).
  destruct (max_am_gen pots Hne Ham) as [E [q [Hq Eq]]]. split; [|exact E]. rewrite <- Eq.
  rewrite Forall_forall in Hp. destruct (Hp q Hq) as [Hqne [Hqa _]]. unfold pot_l. destruct (p_am q) as [|a r]; [congruence|].
  inversion Hqa; subst. cbn [hd]. assumption.
Qed.

Lemma pecp_el_write : forall e, pqs_ecp_el_ok e ->
  gus_write_ecp_element e = inr (unlines (pecp_lines e)) /\ Forall good_line (pecp_lines e).
Proof.
  intros e He. destruct (pmx_range e He) as [Hmx Emx]. destruct e as [z [n pots]]. destruct He as [Hz [Hne Hp]].
  cbn [fst snd] in *. destruct (el_facts z Hz) as [_ [_ [Es [_ [_ Gs]]]]].
  assert (Hmxl : Forall (fun l => (0 <= l < am_bound true)%Z) [pmx (z, (n, pots))]) by (constructor; [cbn [am_bound]; lia | constructor]).
  destruct (amch_facts true false _ Hmxl) as [Ec _].
  destruct (gus_order_ok pots Hne) as [Eo Hperm]. pose proof (Forall_perm _ _ _ _ Hperm Hp) as Hsp. split.
  - unfold gus_write_ecp_element. rewrite Es. unfold bind. rewrite Emx, Ec, Eo.
    rewrite (mapM_map_ok _ _ (gus_write_pot _ _) (fun p => unlines (ppot_lines (pmx (z, (n, pots))) p))).
    + unfold pecp_lines, pecp_hdr, ok. cbn [fst snd]. rewrite unlines_cons, unlines_flat_map, !sapp_assoc. reflexivity.
    + intros p Hin. apply ppot_write; [|exact Hmx]. rewrite Forall_forall in Hsp. apply Hsp, Hin.
  - unfold pecp_lines, pecp_hdr. cbn [fst snd].
    constructor.
    { apply good_app; [exact Gs|]. apply good_app; [reflexivity|]. apply good_app; [apply Z_to_string_good|].
      apply good_app; [reflexivity | apply Z_to_string_good]. }
    rewrite Forall_forall in *. intros l Hl. apply in_flat_map in Hl. destruct Hl as [p [Hpin Hl]].
    destruct (ppot_write (pmx (z, (n, pots))) p (Hsp p Hpin) Hmx) as [_ G]. rewrite Forall_forall in G. apply G, Hl.
Qed.

Definition pecp_part (ecps : list (Z * (Z * list epot))) : list string :=
  match ecps with
  | [] => []
  | _ => "" :: "" :: "Effective core Potentials" :: "-------------------------" :: flat_map pecp_lines ecps
  end.

Lemma pecp_write : forall ecps, Forall pqs_ecp_el_ok ecps ->
  pqs_write_ecp ecps = inr (unlines (pecp_part ecps)) /\ Forall good_line (pecp_part ecps).
Proof.
  intros ecps H. destruct ecps as [|e0 ecps0]; [split; [reflexivity | constructor]|]. set (L := e0 :: ecps0) in *. split.
  - assert (E : pqs_write_ecp L =
                (do parts <- mapM gus_write_ecp_element L;
                 ok (nl1 +++ nl1 +++ "Effective core Potentials" +++ nl1 +++ "-------------------------" +++ nl1 +++
                     String.concat "" parts))) by reflexivity.
    rewrite E. rewrite (mapM_map_ok _ _ gus_write_ecp_element (fun e => unlines (pecp_lines e))).
    + unfold bind, ok. change (pecp_part L) with ("" :: "" :: "Effective core Potentials" :: "-------------------------" :: flat_map pecp_lines L).
      rewrite !unlines_cons, unlines_flat_map. reflexivity.
    + intros e He. apply pecp_el_write. rewrite Forall_forall in H. apply H, He.
  - change (pecp_part L) with ("" :: "" :: "Effective core Potentials" :: "-------------------------" :: flat_map pecp_lines L).
    repeat (constructor; [reflexivity|]).
    rewrite Forall_forall in *. intros l Hl. apply in_flat_map in Hl. destruct Hl as [e [He Hl]].
    destruct (pecp_el_write e (H e He)) as [_ G]. rewrite Forall_forall in G. apply G, Hl.
Qed.

Lemma pecp_part_in : forall ecps e l, In e ecps -> In l (pecp_lines e) -> In l (pecp_part ecps).
Proof.
  intros ecps e l He Hl. destruct ecps as [|e0 ecps0]; [destruct He|]. cbn [pecp_part]. right. right. right. right.
  apply in_flat_map. exists e. split; assumption.
Qed.

(* ================================================================== *)
(* 5. the whole file                                                   *)
(* ================================================================== *)
Definition pqs_lines (els : list (Z * list sshell)) (ecps : list (Z * (Z * list epot))) : list string :=
  flat_map pel_lines els ++ pecp_part ecps.

Lemma pqs_text : forall els ecps, pqs_ok els ecps ->
  pqs_write_all els ecps = inr (unlines (pqs_lines els ecps)) /\ Forall good_line (pqs_lines els ecps).
Proof.
  intros els ecps [H1 H2]. destruct (pelectron_write els H1) as [Ee Ge]. destruct (pecp_write ecps H2) as [Ep Gp]. split.
  - unfold pqs_write_all. rewrite Ee. unfold bind at 1. rewrite Ep. unfold bind, ok, pqs_lines. rewrite unlines_app. reflexivity.
  - apply Forall_app. split; assumption.
Qed.

Lemma pqs_written_lines : forall els ecps t, pqs_ok els ecps -> pqs_write_all els ecps = inr t ->
  splitlines t = pqs_lines els ecps.
Proof.
  intros els ecps t H E. destruct (pqs_text els ecps H) as [Et G]. rewrite Et in E. inversion E; subst t.
  apply splitlines_unlines, G.
Qed.

Lemma pqs_write_total : pqs_write_total_stmt.
Proof. intros els ecps H. eexists. apply (pqs_text els ecps H). Qed.

Lemma pshell_line_in : forall els ecps zs s l, In zs els -> In s (snd zs) -> In l (pshell_lines s) -> In l (pqs_lines els ecps).
Proof.
  intros els ecps zs s l Hzs Hs Hl. unfold pqs_lines. apply in_or_app. left. apply in_flat_map. exists zs. split; [exact Hzs|].
  unfold pel_lines. right. apply in_flat_map. exists s. split; assumption.
Qed.

Lemma pqs_no_number_lost_partial : pqs_no_number_lost_partial_stmt.
Proof.
  intros els ecps t H Hfit E x [zs [s [Hzs [Hs Hx]]]]. rewrite (pqs_written_lines els ecps t H E).
  destruct H as [H1 _]. rewrite Forall_forall in H1. destruct (H1 zs Hzs) as [_ Hshs]. rewrite Forall_forall in Hshs.
  unfold pqs_fits in Hfit. rewrite Forall_forall in Hfit. pose proof (Hfit zs Hzs) as Hf. rewrite Forall_forall in Hf.
  destruct (pshell_token s x (Hshs s Hs) (Hf s Hs) Hx) as [line [Hl Ht]].
  exists line. split; [exact (pshell_line_in els ecps zs s line Hzs Hs Hl) | exact Ht].
Qed.

Lemma pqs_no_digit_lost : pqs_no_digit_lost_stmt.
Proof.
  intros els ecps t H E x [zs [s [Hzs [Hs Hx]]]]. rewrite (pqs_written_lines els ecps t H E).
  destruct H as [H1 _]. rewrite Forall_forall in H1. destruct (H1 zs Hzs) as [_ Hshs]. rewrite Forall_forall in Hshs.
  destruct (pshell_digit s x (Hshs s Hs) Hx) as [line [tok [Hl [Ht Hor]]]].
  exists line. exists tok. split; [exact (pshell_line_in els ecps zs s line Hzs Hs Hl)|]. split; [exact Ht | exact Hor].
Qed.

Lemma ppot_token : forall mx p x, pqs_pot_ok p ->
  (In x (p_gexp p) \/ (exists c, In c (p_coef p) /\ In x c) \/ exists r, In r (p_rexp p) /\ x = Z_to_string r) ->
  exists line, In line (ppot_lines mx p) /\ In x (tokens_acc line "").
Proof.
  intros mx p x Hp Hx. destruct (gus_cols_gen_ok p Hp) as [Hok [Hlen HF]].
  assert (Hl : exists line, In line (wm_rows (gus_ecp_cols p) gus_ecp_point_places) /\ In x (tokens_acc line "")).
  { destruct Hx as [Hx|[[c [Hc Hx]]|[r [Hr ->]]]].
    - apply (wm_token_str _ _ _ (p_gexp p) x Hok Hlen HF); [|exact Hx]. unfold gus_ecp_cols.
      apply in_or_app. right. right. now left.
    - apply (wm_token_str _ _ _ c x Hok Hlen HF); [|exact Hx]. unfold gus_ecp_cols. apply in_or_app. left. apply in_map, Hc.
    - apply (wm_token_int _ _ _ (p_rexp p) r Hok Hlen HF); [|exact Hr]. unfold gus_ecp_cols. apply in_or_app. right. now left. }
  destruct Hl as [line [Hline Htok]]. exists line. split; [right; exact Hline | exact Htok].
Qed.

Lemma pecp_hdr_tokens : forall e, In (Z_to_string (fst (snd e))) (tokens_acc (pecp_hdr e) "").
Proof.
  intros e. unfold pecp_hdr.
  assert (E : upper (lsym (fst e)) +++ "-ECP GEN    " +++ Z_to_string (fst (snd e)) +++ "    " +++ Z_to_string (pmx e) =
              ((upper (lsym (fst e)) +++ "-ECP GEN") +++ sp 4 +++ Z_to_string (fst (snd e))) +++ sp 4 +++ Z_to_string (pmx e))
    by (rewrite !sapp_assoc; reflexivity).
  rewrite E, (tokens_snoc 3 _ (int_tok (pmx e))), (tokens_snoc 3 _ (int_tok (fst (snd e)))).
  apply in_or_app. left. apply in_or_app. right. now left.
Qed.

Lemma pqs_ecp_no_number_lost : pqs_ecp_no_number_lost_stmt.
Proof.
  intros els ecps t H E x [e [He Hx]]. rewrite (pqs_written_lines els ecps t H E).
  destruct H as [_ H2]. rewrite Forall_forall in H2. pose proof (H2 e He) as Hok.
  assert (Hl : exists line, In line (pecp_lines e) /\ In x (tokens_acc line "")).
  { destruct Hx as [->|[p [Hp Hx]]].
    - exists (pecp_hdr e). split; [now left | apply pecp_hdr_tokens].
    - destruct Hok as [_ [Hne Hpok]]. rewrite Forall_forall in Hpok.
      destruct (ppot_token (pmx e) p x (Hpok p Hp) Hx) as [line [Hline Htok]]. exists line. split; [|exact Htok].
      unfold pecp_lines. right. apply in_flat_map. exists p. split; [|exact Hline].
      destruct (gus_order_ok _ Hne) as [_ Hperm]. apply (Permutation_in _ Hperm), Hp. }
  destruct Hl as [line [Hline Htok]]. exists line. split; [|exact Htok].
  unfold pqs_lines. apply in_or_app. right. exact (pecp_part_in ecps e line He Hline).
Qed.

(* ================================================================== *)
(* 6. the closed statements: the finding, counterexamples and the store instances (by computation) *)
(* ================================================================== *)
Ltac pshell_ok := split; [discriminate | split; [zrange_ok | split; [repeat constructor | split; floats]]].
Ltac ppot_ok :=
  split; [discriminate | split; [zrange_ok | split; [reflexivity | split; [cbn; lia | split; [repeat constructor | split; floats]]]]].
Ltac pecp_el_ok := split; [cbn; lia | split; [discriminate | cbn [snd]; repeat (constructor; [ppot_ok|]); constructor]].
Ltac pqs_ok_tac :=
  split; [repeat (constructor; [split; [cbn; lia | cbn [snd]; repeat (constructor; [pshell_ok|]); constructor]|]); constructor
         | repeat (constructor; [pecp_el_ok|]); constructor].
Ltac pqs_fits_tac :=
  repeat (constructor; [cbn [snd]; repeat (constructor; [vm_compute; lia|]); constructor|]); constructor.
(* x is not a token of any line of a closed text *)
Ltac not_token :=
  let H := fresh in let line := fresh in let Hl := fresh in let Ht := fresh in
  intros H; destruct H as [line [Hl Ht]]; vm_compute in Hl;
  repeat (destruct Hl as [Hl|Hl]; [subst line; vm_compute in Ht; repeat (destruct Ht as [Ht|Ht]; [discriminate Ht|]); exact Ht|]);
  exact Hl.
Ltac is_token l := exists l; split; [vm_compute; tauto | vm_compute; tauto].

Lemma pqs_fused : pqs_fused_stmt.
Proof.
  split; [unfold pqs_fused_els; pqs_ok_tac|]. split; [vm_compute; reflexivity|].
  split; [not_token|]. split; [not_token|].
  split; [is_token "  808649286.0000000              0.00000000529998"|].
  split; [is_token " 1840090021.0000000             -2.65389E-09"|].
  vm_compute. reflexivity.
Qed.

(* the full-strength token statement is false: the store data above *)
Lemma pqs_no_number_lost_counterexample : ~ pqs_no_number_lost_stmt.
Proof.
  intros H. destruct pqs_fused as [Hok [Ht [Hno _]]]. apply Hno.
  apply (H pqs_fused_els [] pqs_fused_text Hok Ht "5400187546.0000000").
  eexists. eexists. split; [left; reflexivity|]. split; [left; reflexivity|]. left. now left.
Qed.

Lemma pqs_conditions : pqs_conditions_stmt.
Proof. repeat split; vm_compute; reflexivity. Qed.
Lemma pqs_not_needed : pqs_not_needed_stmt.
Proof. repeat split; vm_compute; reflexivity. Qed.
Lemma pqs_ecp_conditions : pqs_ecp_conditions_stmt.
Proof. repeat split; vm_compute; reflexivity. Qed.
Lemma pqs_ecp_letters : pqs_ecp_letters_stmt.
Proof. split; [pqs_ok_tac | vm_compute; reflexivity]. Qed.
Lemma pqs_example : pqs_example_stmt.
Proof.
  split; [unfold pqs_ex_els, pqs_ex_ecps; pqs_ok_tac|]. split; [unfold pqs_fits, pqs_ex_els; pqs_fits_tac|].
  split; [vm_compute; reflexivity|].
  split; [unfold pqs_sp_els, pqs_sp_ecps; pqs_ok_tac|]. split; [unfold pqs_fits, pqs_sp_els; pqs_fits_tac|].
  vm_compute; reflexivity.
Qed.

Print Assumptions pqs_write_total.
Print Assumptions pqs_no_number_lost_partial.
Print Assumptions pqs_no_digit_lost.
Print Assumptions pqs_ecp_no_number_lost.
Print Assumptions pqs_fused.
Print Assumptions pqs_no_number_lost_counterexample.
Print Assumptions pqs_conditions.
Print Assumptions pqs_not_needed.
Print Assumptions pqs_ecp_conditions.
Print Assumptions pqs_ecp_letters.
Print Assumptions pqs_example.
