(* Proofs of the statements of Proofs/AcesiiDefs.v.  The electron part is write_cfour's with other number formatters: the
   chunk / line lemmas of Proofs/GenbasSpec.v are reused; the ECP part IS write_cfour's: its lines, their shape and their
   tokens come from Proofs/GenbasEcpSpec.v. *)
From BSE Require Import Model.Val Model.Text Model.Num Model.Basis Model.Manip Model.Matrix Gen.GenLut Model.Lut Model.Elements
                        Model.Nwchem Model.NwchemEcp Model.Turbomole Model.TurbomoleEcp Model.Genbas Model.GenbasEcp Model.Acesii
                        Proofs.MatrixDefs Proofs.NwchemDefs Proofs.NwchemEcpDefs Proofs.C20Finite Proofs.TurbomoleDefs
                        Proofs.TurbomoleEcpDefs Proofs.GenbasDefs Proofs.GenbasEcpDefs Proofs.AcesiiDefs.
From BSE Require Import Proofs.HeaderSpec Proofs.PruneFS Proofs.MatrixSpec Proofs.NwchemSpec Proofs.NwchemEcpSpec Proofs.TurbomoleSpec
                        Proofs.TurbomoleEcpSpec Proofs.GenbasSpec Proofs.GenbasEcpSpec.
Require Import Coq.Sorting.Permutation Coq.Sorting.Sorted Coq.ZArith.ZArith Coq.micromega.Lia.

(* ================================================================== *)
(* 1. characters of a printed number                                   *)
(* ================================================================== *)
(* visible and harmless: no white space, no line boundary *)
Definition vis (c : ascii) : bool := andb (nobd c) (negb (is_space c)).

Ltac inj_inr H b := unfold ok in H; (match type of H with inr ?X = inr _ => assert (b = X) by congruence end); subst b; clear H.

Lemma fchar_vis : forall c, fchar c = true -> vis c = true.
Proof. intros c H. all_chars c; try reflexivity; discriminate H. Qed.
Lemma vis_nobd : forall c, vis c = true -> nobd c = true.
Proof. intros c H. unfold vis in H. apply andb_true_iff in H. apply H. Qed.
Lemma vis_not_space : forall c, vis c = true -> is_space c = false.
Proof. intros c H. unfold vis in H. apply andb_true_iff in H. destruct H as [_ H]. now apply negb_true_iff in H. Qed.
Lemma vis_not_blank : forall c, vis c = true -> Ascii.eqb c " " = false.
Proof. intros c H. all_chars c; try reflexivity; discriminate H. Qed.

Lemma vis_good : forall w, sall vis w = true -> good_line w.
Proof. intros w H. exact (sall_impl vis nobd w vis_nobd H). Qed.
Lemma vis_tok : forall w, sall vis w = true -> w <> "" -> tok_ok w.
Proof. intros w H Hne. split; [exact Hne|]. apply (sall_sany_false vis); [exact vis_not_space | exact H]. Qed.

Lemma Zstr_vis : forall z, sall vis (Z_to_string z) = true.
Proof. intros z. apply (sall_impl fchar vis _ fchar_vis), Z_to_string_chars. Qed.
Lemma zeros_vis : forall n, sall vis (zeros n) = true.
Proof. induction n as [|n IH]; [reflexivity|]. cbn [zeros sall]. now rewrite IH. Qed.
Lemma stake_vis : forall k s, sall vis s = true -> sall vis (stake k s) = true.
Proof.
  induction k as [|k IH]; intros s H; [reflexivity|]. destruct s as [|c s]; [reflexivity|].
  cbn [sall] in H. apply andb_true_iff in H. destruct H as [Hc Hs]. cbn [stake sall]. now rewrite Hc, (IH s Hs).
Qed.
Lemma drop_vis : forall k s, sall vis s = true -> sall vis (drop_chars k s) = true.
Proof.
  induction k as [|k IH]; intros s H; [exact H|]. destruct s as [|c s]; [reflexivity|].
  cbn [sall] in H. apply andb_true_iff in H. destruct H as [_ Hs]. cbn [drop_chars]. apply IH, Hs.
Qed.

Lemma fixed_digits_vis : forall r nd, sall vis (fixed_digits r nd) = true /\ fixed_digits r nd <> "".
Proof.
  intros r nd. unfold fixed_digits.
  set (ds := zeros (S nd - String.length (Z_to_string r)) +++ Z_to_string r).
  assert (Hds : sall vis ds = true) by (unfold ds; now rewrite sall_app, zeros_vis, Zstr_vis).
  assert (Hne : ds <> "").
  { unfold ds. pose proof (Z_to_string_ne r) as H. destruct (zeros (S nd - String.length (Z_to_string r))); [exact H | discriminate]. }
  destruct nd as [|nd]; [split; assumption|]. split.
  - rewrite !sall_app, (stake_vis _ _ Hds), (drop_vis _ _ Hds). reflexivity.
  - destruct (stake (String.length ds - S nd) ds); discriminate.
Qed.

Lemma sign_vis : forall (b : bool), sall vis (if b then "-" else "") = true.
Proof. intros []; reflexivity. Qed.

Lemma exp_body_vis : forall x b, aces_exp_body x = inr b -> sall vis b = true /\ b <> "".
Proof.
  intros x b H. unfold aces_exp_body in H. destruct (parse_num x) as [[m e10]|]; [|discriminate].
  destruct (to_double m e10) as [q e2|]; [|discriminate]. destruct (Z.eqb q 0); [discriminate|].
  destruct (aces_log_candidates q e2) as [|c0 cs]; [discriminate|].
  destruct (negb (forallb (fun c => Z.eqb (Z.max (aces_ndec (num_neg x) c) (-1)) (Z.max (aces_ndec (num_neg x) c0) (-1))) cs)); [discriminate|].
  destruct (aces_ndec (num_neg x) c0 <? 0)%Z; [discriminate|]. unfold ok in H.
  (match type of H with inr ?X = inr _ => assert (E : b = X) by congruence end); subst b; clear H. unfold fixed_abs.
  destruct (fixed_digits_vis (fixed_round q e2 (Z.to_nat (aces_ndec (num_neg x) c0))) (Z.to_nat (aces_ndec (num_neg x) c0))) as [A B].
  split; [now rewrite sall_app, sign_vis, A|]. destruct (num_neg x); [discriminate|exact B].
Qed.

Lemma coef_body_vis : forall c b, aces_coef_body c = inr b -> sall vis b = true /\ b <> "".
Proof.
  intros c b H. unfold aces_coef_body in H. destruct (parse_num c) as [[m e10]|]; [|discriminate].
  destruct (to_double m e10) as [q e2|]; unfold ok in H;
    (match type of H with inr ?X = inr _ => assert (E : b = X) by congruence end); subst b; clear H.
  - unfold fixed_abs. destruct (fixed_digits_vis (fixed_round q e2 7) 7) as [A B].
    split; [rewrite sall_app, sign_vis, A; reflexivity|]. destruct (num_neg c); [discriminate | exact B].
  - split; [rewrite sall_app, sign_vis; reflexivity|]. destruct (num_neg c); discriminate.
Qed.

(* ================================================================== *)
(* 2. the shape of the two fields                                      *)
(* ================================================================== *)
Lemma lstrip_sp_vis : forall n w, sall vis w = true -> lstrip_ws (sp n +++ w) = w.
Proof.
  induction n as [|n IH]; intros w H.
  - change (sp 0 +++ w) with w. destruct w as [|c w]; [reflexivity|]. cbn [sall] in H. apply andb_true_iff in H.
    cbn [lstrip_ws]. now rewrite (vis_not_space c (proj1 H)).
  - change (sp (S n) +++ w) with (String " " (sp n +++ w)). cbn [lstrip_ws]. change (is_space " ") with true. cbv iota. apply IH, H.
Qed.

(* the field of an exponent: blanks, then a word *)
Lemma exp_field_shape : forall x f, aces_exp x = inr f ->
  exists n w, f = sp n +++ w /\ sall vis w = true /\ w <> "".
Proof.
  intros x f H. unfold aces_exp in H. destruct (aces_exp_body x) as [e|b] eqn:Eb; [discriminate|].
  unfold bind, ok in H. inversion H; subst; clear H. destruct (exp_body_vis x b Eb) as [Hv Hne].
  unfold rjust. destruct (14 - String.length b) as [|k] eqn:Ek.
  - change (sp 0 +++ b) with b. destruct b as [|c b']; [congruence|]. unfold aces_trim.
    assert (Hc : vis c = true) by (cbn [sall] in Hv; apply andb_true_iff in Hv; apply Hv).
    rewrite (vis_not_blank c Hc).
    destruct (srev (String c b')) as [|c0 r] eqn:Er; [exists 0, (String c b'); repeat split; [exact Hv | discriminate]|].
    destruct (Ascii.eqb c0 "0") eqn:E0; [|exists 0, (String c b'); repeat split; [exact Hv | discriminate]].
    exists 1, (srev r). split; [reflexivity|].
    assert (Hr : sall vis (String c0 r) = true) by (rewrite <- Er, sall_srev; exact Hv).
    cbn [sall] in Hr. apply andb_true_iff in Hr. destruct Hr as [_ Hr]. split; [now rewrite sall_srev|].
    apply srev_ne. intros ->. apply Ascii.eqb_eq in E0. subst c0.
    assert (Eb' : String c b' = "0") by (rewrite <- (srev_involutive (String c b')), Er; reflexivity).
    rewrite Eb' in Ek. cbn in Ek. discriminate Ek.
  - exists (S k), b. split; [|split; assumption]. reflexivity.
Qed.

Lemma exp_field_tok : forall x, aces_exp_ok x ->
  exists n, aces_exp_field x = sp n +++ aces_exp_tok x /\ sall vis (aces_exp_tok x) = true /\ aces_exp_tok x <> "" /\
            aces_exp x = inr (aces_exp_field x).
Proof.
  intros x [f Hf]. destruct (exp_field_shape x f Hf) as [n [w [E [Hv Hne]]]].
  unfold aces_exp_tok, aces_exp_field. rewrite Hf, E, (lstrip_sp_vis n w Hv). exists n. repeat split; assumption.
Qed.

Lemma exp_fits_tok : forall x, aces_exp_fits x ->
  exists n, aces_exp_field x = sp (S n) +++ aces_exp_tok x /\ tok_ok (aces_exp_tok x).
Proof.
  intros x [f Hf]. assert (Hok : aces_exp_ok x) by (eexists; exact Hf).
  destruct (exp_field_tok x Hok) as [n [E [Hv [Hne Hx]]]]. rewrite Hf in Hx. inversion Hx as [Hx'].
  destruct n as [|n].
  - exfalso. rewrite <- Hx' in E. change (sp 0 +++ aces_exp_tok x) with (aces_exp_tok x) in E.
    destruct (aces_exp_tok x) as [|c w]; [congruence|]. inversion E; subst c.
    cbn [sall] in Hv. apply andb_true_iff in Hv. destruct Hv as [Hc _]. discriminate Hc.
  - exists n. split; [first [exact E | rewrite Hx'; exact E] | apply vis_tok; assumption].
Qed.

Lemma fits_ok : forall x, aces_exp_fits x -> aces_exp_ok x.
Proof. intros x [f H]. eexists. exact H. Qed.

(* the field of a coefficient *)
Definition fcoef (c : string) : string := match aces_coef c with inr f => f | inl _ => "" end.
Definition gcoef (c : string) : string := rjust 10 (aces_coef_tok c) +++ " ".

Lemma coef_field_tok : forall c, aces_coef_ok c ->
  aces_coef c = inr (gcoef c) /\ fcoef c = gcoef c /\ sall vis (aces_coef_tok c) = true /\ aces_coef_tok c <> "".
Proof.
  intros c H. unfold aces_coef_ok in H.
  assert (Hb : exists b, aces_coef_body c = inr b).
  { unfold aces_coef_body. destruct (parse_num c) as [[m e10]|]; [eexists; reflexivity | congruence]. }
  destruct Hb as [b Hb]. destruct (coef_body_vis c b Hb) as [Hv Hne].
  assert (E : aces_coef c = inr (gcoef c)) by (unfold aces_coef, gcoef, aces_coef_tok; rewrite Hb; reflexivity).
  split; [exact E|]. split; [unfold fcoef; now rewrite E|]. unfold aces_coef_tok. rewrite Hb. split; assumption.
Qed.

(* ================================================================== *)
(* 3. tokens of a line of fields                                       *)
(* ================================================================== *)
Lemma jl_app : forall a b, jl (a ++ b) = jl a +++ jl b.
Proof. intros a b. unfold jl. apply concat_app_s. Qed.
Lemma jl_one : forall x, jl [x] = x.
Proof. reflexivity. Qed.

Lemma exp_fields_tokens : forall l, Forall aces_exp_fits l ->
  tokens_acc (jl (map aces_exp_field l)) "" = map aces_exp_tok l.
Proof.
  induction l as [|x l IH] using rev_ind; intros H; [reflexivity|].
  apply Forall_app in H. destruct H as [Hl Hx]. inversion Hx as [|? ? Hx' _]; subst.
  destruct (exp_fits_tok x Hx') as [n [E Ht]].
  rewrite !map_app, jl_app. cbn [map]. rewrite jl_one, E, (tokens_snoc n _ Ht), (IH Hl). reflexivity.
Qed.

Lemma tokens_word_blank : forall w rest, tok_ok w -> tokens_acc (w +++ String " " rest) "" = w :: tokens_acc rest "".
Proof.
  intros w rest [Hne Hs]. rewrite (tokens_word w _ "" Hs), sapp_nil_r. cbn [tokens_acc]. change (is_space " ") with true. cbv iota.
  destruct (srev w) as [|a r] eqn:E.
  - exfalso. apply Hne. rewrite <- (srev_involutive w), E. reflexivity.
  - rewrite <- E, srev_involutive. reflexivity.
Qed.

Lemma coef_fields_tokens : forall l, Forall aces_coef_ok l -> tokens_acc (jl (map gcoef l)) "" = map aces_coef_tok l.
Proof.
  induction l as [|c l IH]; intros H; [reflexivity|]. inversion H as [|? ? Hc Hl]; subst.
  destruct (coef_field_tok c Hc) as [_ [_ [Hv Hne]]].
  cbn [map]. unfold jl in *. rewrite concat_cons. unfold gcoef at 1. unfold rjust. rewrite !sapp_assoc, tokens_sp.
  change (aces_coef_tok c +++ " " +++ ?X) with (aces_coef_tok c +++ String " " X).
  rewrite (tokens_word_blank _ _ (vis_tok _ Hv Hne)), (IH Hl). reflexivity.
Qed.

(* ================================================================== *)
(* 4. the lines of a shell                                             *)
(* ================================================================== *)
Definition aexp_lines (s : sshell) : list string := map jl (chunks 5 (map aces_exp_field (exps s))).
Definition acoef_lines (s : sshell) : list string :=
  flat_map (fun row => map jl (chunks 7 (map gcoef row))) (transpose (coefs s)).
Definition ash_lines (s : sshell) : list string := (aexp_lines s ++ "" :: acoef_lines s) ++ [""].

Definition shell_w := acesii_shell_ok aces_exp_ok.

Lemma shell_ok_weaken : forall s, acesii_shell_ok aces_exp_fits s -> shell_w s.
Proof.
  intros s [H1 [H2 [H3 H4]]]. repeat split; try assumption. eapply Forall_weaken; [|exact H3]. exact fits_ok.
Qed.

Lemma aces_write_shell_lines : forall s, shell_w s -> aces_write_shell s = inr (unlines (ash_lines s)).
Proof.
  intros s [_ [_ [He Hc]]]. unfold aces_write_shell.
  rewrite (mapM_map_ok _ _ aces_exp aces_exp_field).
  2:{ intros x Hx. rewrite Forall_forall in He. destruct (exp_field_tok x (He x Hx)) as [_ [_ [_ [_ E]]]]. exact E. }
  unfold bind at 1.
  rewrite (mapM_map_ok _ _ (mapM aces_coef) (map gcoef)).
  2:{ intros c Hcin. apply mapM_map_ok. intros x Hx. rewrite Forall_forall in Hc. pose proof (Hc c Hcin) as Hcc.
      rewrite Forall_forall in Hcc. apply (coef_field_tok x (Hcc x Hx)). }
  unfold bind, ok. f_equal. rewrite transpose_map.
  unfold ash_lines, aexp_lines, acoef_lines.
  rewrite (map_ext (fun c => print_columns c 7) (fun c => unlines (map jl (chunks 7 c))))
    by (intros c; apply print_columns_lines).
  rewrite !unlines_app, unlines_cons, unlines_one, print_columns_lines, map_map, unlines_flat_map, !sapp_assoc. reflexivity.
Qed.

Lemma exp_field_good : forall x, aces_exp_ok x -> good_line (aces_exp_field x).
Proof.
  intros x H. destruct (exp_field_tok x H) as [n [E [Hv _]]]. rewrite E. unfold good_line.
  rewrite sall_app, sall_sp by reflexivity. exact (vis_good _ Hv).
Qed.
Lemma gcoef_good : forall c, aces_coef_ok c -> good_line (gcoef c).
Proof.
  intros c H. destruct (coef_field_tok c H) as [_ [_ [Hv _]]]. unfold gcoef, good_line.
  rewrite sall_app, (rjust_nobd 10 _ (vis_good _ Hv)). reflexivity.
Qed.

Lemma jl_good : forall ch, Forall good_line ch -> good_line (jl ch).
Proof. intros ch H. unfold good_line, jl. apply sall_concat. exact H. Qed.

Lemma trows_ok : forall s, shell_w s -> Forall (Forall aces_coef_ok) (transpose (coefs s)).
Proof. intros s [_ [_ [_ Hc]]]. apply transpose_Forall, Hc. Qed.

Lemma ash_lines_good : forall s, shell_w s -> Forall good_line (ash_lines s).
Proof.
  intros s Hs. pose proof (trows_ok s Hs) as HT. destruct Hs as [_ [_ [He _]]].
  unfold ash_lines. apply Forall_app. split; [|repeat constructor]. apply Forall_app. split.
  - unfold aexp_lines. rewrite Forall_forall. intros l Hl. apply in_map_iff in Hl. destruct Hl as [ch [<- Hch]].
    apply jl_good. apply (chunk_Forall _ 5 (map aces_exp_field (exps s))); [lia | | exact Hch].
    rewrite Forall_forall in *. intros f Hf. apply in_map_iff in Hf. destruct Hf as [x [<- Hx]]. apply exp_field_good, He, Hx.
  - constructor; [reflexivity|]. unfold acoef_lines. rewrite Forall_forall. intros l Hl. apply in_flat_map in Hl.
    destruct Hl as [row [Hrow Hl]]. apply in_map_iff in Hl. destruct Hl as [ch [<- Hch]].
    apply jl_good. apply (chunk_Forall _ 7 (map gcoef row)); [lia | | exact Hch].
    rewrite Forall_forall in HT. pose proof (HT row Hrow) as Hr.
    rewrite Forall_forall in *. intros f Hf. apply in_map_iff in Hf. destruct Hf as [x [<- Hx]]. apply gcoef_good, Hr, Hx.
Qed.

(* ================================================================== *)
(* 5. element, electron part, file                                     *)
(* ================================================================== *)
Definition ael_lines (name desc : string) (zs : Z * list sshell) : list string :=
  hdr7 name desc zs ++ "" :: flat_map ash_lines (snd zs).
Definition aall_lines (name desc : string) (els : list (Z * list sshell)) : list string :=
  "" :: flat_map (ael_lines name desc) els.
Definition afile_lines (name desc : string) (els : list (Z * list sshell)) (ecps : list (Z * (Z * list epot))) : list string :=
  aall_lines name desc els ++ cecp_part name desc ecps.

Definition ael_ok (zs : Z * list sshell) : Prop := (1 <= fst zs <= 120)%Z /\ Forall shell_w (snd zs).

Lemma am0_ok_a : forall s, shell_w s -> c4_am0 s = inr (am0 s).
Proof. intros s [H _]. unfold c4_am0, am0. destruct (am s); [congruence | reflexivity]. Qed.

Lemma aces_write_element_lines : forall name desc zs, ael_ok zs ->
  aces_write_element name desc zs = inr (unlines (ael_lines name desc zs)).
Proof.
  intros name desc [z shs] [Hz Hs]. cbn [fst snd] in *. destruct (symup_facts z Hz) as [Es _].
  unfold aces_write_element. rewrite Es. unfold bind at 1.
  rewrite (mapM_map_ok _ _ c4_am0 am0) by (intros s Hin; apply am0_ok_a; rewrite Forall_forall in Hs; apply Hs, Hin).
  unfold bind at 1.
  rewrite (mapM_map_ok _ _ aces_write_shell (fun s => unlines (ash_lines s)))
    by (intros s Hin; apply aces_write_shell_lines; rewrite Forall_forall in Hs; apply Hs, Hin).
  unfold bind, ok, ael_lines, hdr7, sym_line, nsh_line, field_line, am_ws, ngen_ws, nprim_ws, symup. cbn [fst snd].
  rewrite !map_map. cbn [app]. rewrite !unlines_cons, <- unlines_flat_map, !sapp_assoc. reflexivity.
Qed.

Lemma aces_write_electron_lines : forall name desc els, Forall ael_ok els ->
  aces_write_electron name desc els = inr (unlines (aall_lines name desc els)).
Proof.
  intros name desc els Hel. unfold aces_write_electron.
  rewrite (mapM_map_ok _ _ (aces_write_element name desc) (fun zs => unlines (ael_lines name desc zs))).
  - unfold bind, ok, aall_lines. rewrite unlines_cons, unlines_flat_map. reflexivity.
  - intros zs Hin. apply aces_write_element_lines. rewrite Forall_forall in Hel. apply Hel, Hin.
Qed.

Lemma writable_parts : forall name desc els ecps, acesii_writable name desc els ecps ->
  c4_name_ok name /\ c4_name_ok desc /\ Forall ael_ok els /\ Forall c4ecp_el_ok ecps.
Proof. intros name desc els ecps [H1 [H2 [H3 H4]]]. repeat split; assumption. Qed.

Lemma ok_writable : forall name desc els ecps, acesii_ok name desc els ecps -> acesii_writable name desc els ecps.
Proof.
  intros name desc els ecps [H1 [H2 [H3 H4]]]. repeat split; try assumption.
  eapply Forall_weaken; [|exact H3]. intros zs [Hz Hs]. split; [exact Hz|]. eapply Forall_weaken; [|exact Hs]. exact shell_ok_weaken.
Qed.

Lemma acesii_write_lines : forall name desc els ecps, acesii_writable name desc els ecps ->
  acesii_write_all name desc els ecps = inr (unlines (afile_lines name desc els ecps)).
Proof.
  intros name desc els ecps H. destruct (writable_parts _ _ _ _ H) as [_ [_ [Hel Hecp]]]. unfold acesii_write_all.
  rewrite (aces_write_electron_lines name desc els Hel). unfold bind. rewrite (cwrite_ecp_lines name desc ecps Hecp).
  unfold ok, afile_lines. rewrite unlines_app. reflexivity.
Qed.

(* ---------- acesii_write_total ---------- *)
Lemma acesii_write_total : acesii_write_total_stmt.
Proof. intros name desc els ecps H. eexists. apply acesii_write_lines, H. Qed.

(* ---- no line contains a line boundary ---- *)
Lemma hdr7_good_a : forall name desc zs, c4_name_ok name -> c4_name_ok desc -> (1 <= fst zs <= 120)%Z ->
  Forall good_line (hdr7 name desc zs).
Proof.
  intros name desc [z shs] Hn Hd Hz. cbn [fst snd] in *. destruct (symup_facts z Hz) as [_ [_ [Ha _]]].
  unfold hdr7. cbn [fst snd]. repeat constructor.
  - unfold sym_line, good_line. rewrite !sall_app, (sall_impl is_alpha nobd _ alpha_nobd Ha), (name_good name Hn). reflexivity.
  - apply name_good, Hd.
  - unfold nsh_line. apply rjust_nobd, nat_str_nobd.
  - apply field_line_good. unfold am_ws. rewrite Forall_forall. intros w Hw. apply in_map_iff in Hw. destruct Hw as [s [<- _]].
    apply TurbomoleEcpSpec.int_good.
  - apply field_line_good. unfold ngen_ws. rewrite Forall_forall. intros w Hw. apply in_map_iff in Hw. destruct Hw as [s [<- _]].
    apply nat_str_nobd.
  - apply field_line_good. unfold nprim_ws. rewrite Forall_forall. intros w Hw. apply in_map_iff in Hw. destruct Hw as [s [<- _]].
    apply nat_str_nobd.
Qed.

Lemma cecp_el_lines_good_a : forall name desc e, c4_name_ok name -> c4_name_ok desc -> c4ecp_el_ok e ->
  Forall good_line (cecp_el_lines name desc e).
Proof.
  intros name desc [z [n pots]] Hn Hd He. destruct (c4ecp_el_facts z n pots He) as [Hz [_ [_ [_ [_ [Hmx [_ [Hoo _]]]]]]]].
  unfold cecp_el_lines, el_mx. cbn [fst snd].
  constructor; [reflexivity|]. constructor; [apply sym_line_good; assumption|].
  constructor; [unfold good_line; rewrite sall_app, (name_good desc Hd); reflexivity|]. constructor; [reflexivity|].
  constructor.
  - unfold cinfo_line, cinfo_p, good_line.
    rewrite !sall_app, (TurbomoleEcpSpec.int_good n), (TurbomoleEcpSpec.int_good (zmax (map pot_l pots))). reflexivity.
  - apply Forall_app. split; [|repeat constructor]. rewrite Forall_forall in *. intros l Hl. apply in_flat_map in Hl.
    destruct Hl as [p [Hp Hl]]. destruct Hl as [<-|Hl]; [apply chead_facts; [apply Hoo, Hp | exact Hmx]|].
    unfold cprows in Hl. apply in_map_iff in Hl. destruct Hl as [t [<- Ht]].
    apply crow_facts, (cptrip_ok p (Hoo p Hp)), Ht.
Qed.

Lemma afile_lines_good : forall name desc els ecps, acesii_writable name desc els ecps ->
  Forall good_line (afile_lines name desc els ecps).
Proof.
  intros name desc els ecps H. destruct (writable_parts _ _ _ _ H) as [Hn [Hd [Hel Hecp]]].
  unfold afile_lines. apply Forall_app. split.
  - unfold aall_lines. constructor; [reflexivity|]. rewrite Forall_forall in *. intros l Hl. apply in_flat_map in Hl.
    destruct Hl as [zs [Hzs Hl]]. destruct (Hel zs Hzs) as [Hz Hs]. unfold ael_lines in Hl. apply in_app_or in Hl.
    destruct Hl as [Hl|[<-|Hl]]; [|reflexivity|].
    + pose proof (hdr7_good_a name desc zs Hn Hd Hz) as G. rewrite Forall_forall in G. apply G, Hl.
    + apply in_flat_map in Hl. destruct Hl as [s [Hsin Hl]]. rewrite Forall_forall in Hs.
      pose proof (ash_lines_good s (Hs s Hsin)) as G. rewrite Forall_forall in G. apply G, Hl.
  - unfold cecp_part. destruct ecps as [|e0 ecps0]; [constructor|]. remember (e0 :: ecps0) as ecps'.
    constructor; [reflexivity|]. constructor; [reflexivity|]. constructor; [reflexivity|].
    rewrite Forall_forall in *. intros l Hl. apply in_flat_map in Hl. destruct Hl as [e [He Hl]].
    pose proof (cecp_el_lines_good_a name desc e Hn Hd (Hecp e He)) as G. rewrite Forall_forall in G. apply G, Hl.
Qed.

Lemma acesii_written_lines : forall name desc els ecps t, acesii_writable name desc els ecps ->
  acesii_write_all name desc els ecps = inr t -> splitlines t = afile_lines name desc els ecps.
Proof.
  intros name desc els ecps t H E. rewrite (acesii_write_lines name desc els ecps H) in E. inversion E; subst.
  apply splitlines_unlines, afile_lines_good, H.
Qed.

Lemma shell_line_in_file : forall name desc els ecps zs s l, In zs els -> In s (snd zs) -> In l (ash_lines s) ->
  In l (afile_lines name desc els ecps).
Proof.
  intros name desc els ecps zs s l Hzs Hs Hl. unfold afile_lines. apply in_or_app. left. unfold aall_lines. right.
  apply in_flat_map. exists zs. split; [exact Hzs|]. unfold ael_lines. apply in_or_app. right. right.
  apply in_flat_map. exists s. split; assumption.
Qed.

(* ================================================================== *)
(* 6. where the numbers are                                            *)
(* ================================================================== *)
(* an exponent: its field is in a chunk of at most five fields whose concatenation is a line of the shell *)
Lemma exp_in_shell : forall s x, In x (exps s) ->
  exists ch, In ch (chunks 5 (exps s)) /\ In x ch /\ In (jl (map aces_exp_field ch)) (ash_lines s).
Proof.
  intros s x Hx. destruct (chunks_cover 5 (exps s) x) as [ch [Hch Hxc]]; [lia | exact Hx|]. exists ch. split; [exact Hch|].
  split; [exact Hxc|]. unfold ash_lines. apply in_or_app. left. apply in_or_app. left. unfold aexp_lines.
  rewrite chunks_map, map_map. apply (in_map (fun c => jl (map aces_exp_field c))), Hch.
Qed.

(* a coefficient: its rounded value is a token of a line of the shell *)
Lemma coef_in_shell : forall s c x, shell_w s -> In c (coefs s) -> In x c ->
  exists line, In line (ash_lines s) /\ In (aces_coef_tok x) (tokens_acc line "").
Proof.
  intros s c x Hs Hc Hx. pose proof (trows_ok s Hs) as HT. destruct Hs as [_ [HcF _]].
  destruct (transpose_has (coefs s) _ c x HcF Hc Hx) as [row [Hrow Hxr]].
  destruct (chunks_cover 7 row x) as [ch [Hch Hxc]]; [lia | exact Hxr|].
  exists (jl (map gcoef ch)). split.
  - unfold ash_lines. apply in_or_app. left. apply in_or_app. right. right. unfold acoef_lines.
    apply in_flat_map. exists row. split; [exact Hrow|]. rewrite chunks_map, map_map.
    apply (in_map (fun c0 => jl (map gcoef c0))), Hch.
  - rewrite coef_fields_tokens; [apply in_map, Hxc|]. apply (chunk_Forall _ 7 row); [lia | | exact Hch].
    rewrite Forall_forall in HT. apply HT, Hrow.
Qed.

Lemma file_shell_w : forall name desc els ecps zs s, acesii_writable name desc els ecps -> In zs els -> In s (snd zs) -> shell_w s.
Proof.
  intros name desc els ecps zs s H Hzs Hs. destruct (writable_parts _ _ _ _ H) as [_ [_ [Hel _]]].
  rewrite Forall_forall in Hel. destruct (Hel zs Hzs) as [_ Hshs]. rewrite Forall_forall in Hshs. apply Hshs, Hs.
Qed.

(* ---------- acesii_fields ---------- *)
Lemma acesii_fields : acesii_fields_stmt.
Proof.
  intros name desc els ecps t H E. rewrite (acesii_written_lines name desc els ecps t H E). split.
  - intros zs s x Hzs Hs Hx. destruct (exp_in_shell s x Hx) as [ch [_ [Hxc Hl]]].
    exists (map aces_exp_field ch). split; [apply in_map, Hxc|].
    apply (shell_line_in_file name desc els ecps zs s _ Hzs Hs). exact Hl.
  - intros zs s c x Hzs Hs Hc Hx.
    destruct (coef_in_shell s c x (file_shell_w _ _ _ _ zs s H Hzs Hs) Hc Hx) as [line [Hl Ht]].
    exists line. split; [|exact Ht]. apply (shell_line_in_file name desc els ecps zs s _ Hzs Hs Hl).
Qed.

(* ---------- acesii_no_number_lost_partial ---------- *)
Lemma acesii_no_number_lost_partial : acesii_no_number_lost_partial_stmt.
Proof.
  intros name desc els ecps t H E zs s Hzs Hs. pose proof (ok_writable _ _ _ _ H) as Hw.
  rewrite (acesii_written_lines name desc els ecps t Hw E). split.
  - intros x Hx. destruct (exp_in_shell s x Hx) as [ch [Hch [Hxc Hl]]].
    exists (jl (map aces_exp_field ch)). split; [apply (shell_line_in_file name desc els ecps zs s _ Hzs Hs Hl)|].
    rewrite exp_fields_tokens; [apply in_map, Hxc|]. apply (chunk_Forall _ 5 (exps s)); [lia | | exact Hch].
    destruct H as [_ [_ [Hel _]]]. rewrite Forall_forall in Hel. destruct (Hel zs Hzs) as [_ Hshs].
    rewrite Forall_forall in Hshs. destruct (Hshs s Hs) as [_ [_ [He _]]]. exact He.
  - intros c x Hc Hx.
    destruct (coef_in_shell s c x (file_shell_w _ _ _ _ zs s Hw Hzs Hs) Hc Hx) as [line [Hl Ht]].
    exists line. split; [|exact Ht]. apply (shell_line_in_file name desc els ecps zs s _ Hzs Hs Hl).
Qed.

(* ---------- acesii_ecp_no_number_lost: the second half of c4ecp_no_number_lost (Proofs/GenbasEcpSpec.v) ---------- *)
Lemma acesii_ecp_no_number_lost : acesii_ecp_no_number_lost_stmt.
Proof.
  intros name desc els ecps t H E x Hx. rewrite (acesii_written_lines name desc els ecps t H E).
  destruct (writable_parts _ _ _ _ H) as [_ [_ [_ Hecp]]].
  destruct Hx as [e [He Hx]]. rewrite Forall_forall in Hecp. pose proof (Hecp e He) as Hok.
  destruct e as [z [n pots]]. cbn [fst snd] in Hx.
  assert (Hsub : forall line, In line (cecp_el_lines name desc (z, (n, pots))) -> In line (afile_lines name desc els ecps)).
  { intros line Hl. unfold afile_lines. apply in_or_app. right.
    unfold cecp_part. destruct ecps as [|e0 ecps0]; [destruct He|]. right. right. right. apply in_flat_map. eexists. split; [exact He | exact Hl]. }
  destruct (c4ecp_el_facts z n pots Hok) as [_ [_ [_ [_ [_ [_ [_ [Hoo Hperm]]]]]]]].
  destruct Hx as [->|[p [Hp Hx]]].
  + exists (cinfo_line n (el_mx (z, (n, pots)))). split; [apply Hsub; do 4 right; now left|]. apply cinfo_line_tokens.
  + pose proof (Permutation_in _ Hperm Hp) as Hpo. rewrite Forall_forall in Hoo. pose proof (Hoo p Hpo) as Hpp.
    destruct (pot_facts p Hpp) as [_ [Ec [Hg [Hcl [_ [_ [Hts _]]]]]]].
    destruct (trip_proj _ _ _ Hg Hcl) as [P1 [P2 P3]]. fold (ptrip p) in P1, P2, P3.
    assert (Ht : exists tr, In tr (ptrip p) /\ In x (ttokrow tr)).
    { destruct Hx as [Hx|[[c [Hcin Hx]]|[r [Hr ->]]]].
      - rewrite <- P2 in Hx. apply in_map_iff in Hx. destruct Hx as [[[a b] c] [<- Hin]]. eexists. split; [exact Hin|]. right. right. now left.
      - rewrite Ec in Hcin. destruct Hcin as [<-|[]]. rewrite <- P3 in Hx. apply in_map_iff in Hx.
        destruct Hx as [[[a b] c] [<- Hin]]. eexists. split; [exact Hin|]. now left.
      - rewrite <- P1 in Hr. apply in_map_iff in Hr. destruct Hr as [[[a b] c] [<- Hin]]. eexists. split; [exact Hin|]. right. now left. }
    destruct Ht as [tr [Htr Hxt]]. exists (cline tr). split.
    * apply Hsub. unfold cecp_el_lines. cbn [fst snd]. do 5 right. apply in_or_app. left. apply in_flat_map. exists p.
      split; [exact Hpo|]. unfold cpot_lines, cprows. right. apply in_map, Htr.
    * unfold cline. destruct (crow_facts tr (Hts tr Htr)) as [_ [_ ->]]. exact Hxt.
Qed.

(* ================================================================== *)
(* 7. the rounding                                                     *)
(* ================================================================== *)
Lemma aces_coef_spec : aces_coef_spec_stmt.
Proof. intros c m e10 q e2 H1 H2. unfold aces_coef_tok, aces_coef_body. rewrite H1, H2. reflexivity. Qed.

Lemma aces_exp_spec : aces_exp_spec_stmt.
Proof.
  intros x f H. unfold aces_exp in H. destruct (aces_exp_body x) as [e|b] eqn:Eb; [discriminate|].
  unfold bind in H. inj_inr H f. unfold aces_exp_body in Eb.
  destruct (parse_num x) as [[m e10]|] eqn:Ep; [|discriminate]. destruct (to_double m e10) as [q e2|] eqn:Ed; [|discriminate].
  destruct (Z.eqb q 0) eqn:Eq; [discriminate|]. destruct (aces_log_candidates q e2) as [|c0 cs] eqn:Ec; [discriminate|].
  destruct (negb (forallb (fun c => Z.eqb (Z.max (aces_ndec (num_neg x) c) (-1)) (Z.max (aces_ndec (num_neg x) c0) (-1))) cs)); [discriminate|].
  destruct (aces_ndec (num_neg x) c0 <? 0)%Z eqn:En; [discriminate|]. inj_inr Eb b.
  exists m, e10, q, e2, c0. split; [reflexivity|]. split; [first [exact Ed | reflexivity]|]. split; [apply Z.eqb_neq, Eq|].
  split; [first [rewrite Ec; now left | now left]|]. cbv zeta. split; [lia|]. reflexivity.
Qed.

Lemma aces_rhe_half : aces_rhe_half_stmt.
Proof.
  intros n d Hd. unfold rhe. pose proof (Z.div_mod n d ltac:(lia)) as Hdm. pose proof (Z.mod_pos_bound n d Hd) as Hr.
  destruct (Z.compare_spec (2 * (n mod d)) d) as [Hc|Hc|Hc].
  - destruct (Z.even (n / d)); nia.
  - nia.
  - nia.
Qed.

Lemma aces_checkers : aces_checkers_stmt.
Proof.
  intros x. unfold aces_exp_ok_b, aces_exp_fits_b, aces_exp_ok, aces_exp_fits. split; split.
  - destruct (aces_exp x) as [e|f]; [discriminate|]. intros _. eexists. reflexivity.
  - intros [f ->]. reflexivity.
  - destruct (aces_exp x) as [e|[|c f]]; try discriminate. intros H. apply Ascii.eqb_eq in H. subst c. eexists. reflexivity.
  - intros [f ->]. reflexivity.
Qed.

(* ================================================================== *)
(* 8. closed statements                                                *)
(* ================================================================== *)
Lemma aces_rounding_examples : aces_rounding_examples_stmt.
Proof. split; vm_compute; reflexivity. Qed.

Ltac coef_ok := unfold aces_coef_ok; vm_compute; discriminate.
Ltac exp_ok := unfold aces_exp_ok; eexists; vm_compute; reflexivity.
Ltac exp_fits := unfold aces_exp_fits; eexists; vm_compute; reflexivity.
Ltac name_ok := unfold c4_name_ok; vm_compute; reflexivity.

Lemma acesii_merged_fields : acesii_merged_fields_stmt.
Proof.
  cbv zeta. split; [|split].
  - unfold acesii_writable, acesii_ok_with. split; [name_ok|]. split; [name_ok|]. split; [|constructor].
    constructor; [|constructor]. cbn [fst snd]. split; [lia|]. constructor; [|constructor].
    unfold acesii_shell_ok, ac_sh. cbn [am exps coefs]. split; [discriminate|]. split; [repeat constructor|].
    split; [repeat (constructor; [exp_ok|]); constructor|]. repeat (constructor; try coef_ok).
  - vm_compute. tauto.
  - vm_compute. reflexivity.
Qed.

Lemma acesii_small_coef : acesii_small_coef_stmt.
Proof.
  cbv zeta. split.
  - unfold acesii_ok, acesii_ok_with. split; [name_ok|]. split; [name_ok|]. split; [|constructor].
    constructor; [|constructor]. cbn [fst snd]. split; [lia|]. constructor; [|constructor].
    unfold acesii_shell_ok, ac_sh. cbn [am exps coefs]. split; [discriminate|]. split; [repeat constructor|].
    split; [repeat (constructor; [exp_fits|]); constructor|]. repeat (constructor; try coef_ok).
  - vm_compute. reflexivity.
Qed.

Lemma acesii_trim_integer : acesii_trim_integer_stmt.
Proof. repeat split; vm_compute; reflexivity. Qed.
Lemma acesii_wide_field : acesii_wide_field_stmt.
Proof. split; vm_compute; reflexivity. Qed.
Lemma acesii_errors : acesii_errors_stmt.
Proof. repeat split; vm_compute; reflexivity. Qed.
Lemma acesii_ragged : acesii_ragged_stmt.
Proof. cbv zeta. split; vm_compute; reflexivity. Qed.

(* ---------- the store instance ---------- *)
Lemma acesii_example : acesii_example_stmt.
Proof.
  split.
  - unfold acesii_ok, acesii_ok_with. split; [name_ok|]. split; [name_ok|]. split.
    + unfold acesii_ex_els. repeat (apply Forall_cons || apply Forall_nil); cbn [fst snd]; (split; [lia|]);
        repeat (apply Forall_cons || apply Forall_nil); unfold acesii_shell_ok; cbn [am exps coefs];
        (split; [discriminate|]); (split; [repeat constructor|]);
        (split; [repeat (apply Forall_cons; [exp_fits|]); apply Forall_nil|]);
        repeat (apply Forall_cons || apply Forall_nil); coef_ok.
    + unfold acesii_ex_ecps. repeat (apply Forall_cons || apply Forall_nil). unfold c4ecp_el_ok.
      split; [lia|]. split; [lia|]. split; [discriminate|]. split.
      * repeat (apply Forall_cons || apply Forall_nil); unfold ecp_pot_ok; cbn [p_am p_rexp p_gexp p_coef];
          (split; [eexists; split; [reflexivity | lia]|]); (split; [discriminate|]); (split; [reflexivity|]);
          (split; [eexists; split; reflexivity|]); split; repeat (constructor; try reflexivity).
      * cbn [map pot_l p_am hd]. repeat constructor; cbn [In]; intros C; repeat destruct C as [C|C]; try discriminate C; exact C.
  - vm_compute. reflexivity.
Qed.

Print Assumptions acesii_write_total.
Print Assumptions acesii_fields.
Print Assumptions acesii_no_number_lost_partial.
Print Assumptions acesii_ecp_no_number_lost.
Print Assumptions aces_coef_spec.
Print Assumptions aces_exp_spec.
Print Assumptions aces_rhe_half.
Print Assumptions aces_checkers.
Print Assumptions aces_rounding_examples.
Print Assumptions acesii_merged_fields.
Print Assumptions acesii_small_coef.
Print Assumptions acesii_trim_integer.
Print Assumptions acesii_wide_field.
Print Assumptions acesii_errors.
Print Assumptions acesii_ragged.
Print Assumptions acesii_example.
