(* Proofs of the statements of Proofs/DaltonDefs.v: the Dalton electron part written by write_dalton is read back by
   read_dalton with the same elements, shells and numbers and with the momenta 0, 1, 2, ... by position
   (dal_roundtrip_positional); this is the written data exactly when no momentum below the highest one is missing
   (dal_roundtrip_exact, dal_roundtrip_iff). *)
From BSE Require Import Model.Val Model.Text Model.Basis Model.Manip Model.Matrix Gen.GenLut Model.Lut Model.Elements
                        Model.Nwchem Model.Turbomole Model.Dalton Proofs.MatrixDefs Proofs.NwchemDefs Proofs.TurbomoleDefs
                        Proofs.DaltonDefs Proofs.C20Finite.
From BSE Require Proofs.ElementsSpec.
From BSE Require Import Proofs.HeaderSpec Proofs.PruneFS Proofs.MatrixSpec Proofs.NwchemSpec Proofs.TurbomoleSpec.
Require Import Coq.Sorting.Sorted.

(* ================================================================== *)
(* 1. character classes and small string facts                         *)
(* ================================================================== *)
(* the first character of a floating-point token *)
Definition lead (c : ascii) : bool :=
  orb (is_digit c) (orb (orb (Ascii.eqb c "-") (Ascii.eqb c "+")) (Ascii.eqb c ".")).
(* the characters of a printed matrix row *)
Definition rowc (c : ascii) : bool := orb (fchar c) (Ascii.eqb c " ").
Definition notP (c : ascii) : bool := negb (Ascii.eqb c "P").

Lemma floating_lead : forall c t, is_floating (String c t) = true -> lead c = true.
Proof. intros c t H. all_chars c; try reflexivity; exfalso; cbn in H; discriminate H. Qed.

Lemma rowc_notP : forall c, rowc c = true -> notP c = true.
Proof. intros c H. all_chars c; try reflexivity; discriminate H. Qed.
Lemma digit_notP : forall c, is_digit c = true -> notP c = true.
Proof. intros c H. all_chars c; try reflexivity; discriminate H. Qed.
Lemma digit_lead : forall c, is_digit c = true -> lead c = true.
Proof. intros c H. unfold lead. now rewrite H. Qed.

Lemma lead_facts : forall c, lead c = true ->
  is_space c = false /\ Ascii.eqb c "!" = false /\ Ascii.eqb c "$" = false /\ lower_char c = c /\
  Ascii.eqb c "a" = false /\ Ascii.eqb c "e" = false /\ Ascii.eqb c "h" = false /\ Ascii.eqb c "H" = false.
Proof. intros c H. all_chars c; try (repeat split; reflexivity); discriminate H. Qed.

Lemma sall_lstrip : forall p s, sall p s = true -> sall p (lstrip_ws s) = true.
Proof.
  intros p; induction s as [|c s IH]; intros H; [reflexivity|]. cbn [lstrip_ws]. destruct (is_space c); [|exact H].
  cbn [sall] in H. apply andb_true_iff in H. apply IH, H.
Qed.
Lemma sall_strip : forall p s, sall p s = true -> sall p (strip_ws s) = true.
Proof. intros p s H. unfold strip_ws. rewrite sall_srev. apply sall_lstrip. rewrite sall_srev. apply sall_lstrip, H. Qed.

(* re.sub('PHOSPHOROUS', 'PHOSPHORUS', line) changes nothing in a line without a capital P, and never the first character
   of a comment *)
Lemma replace_fuel_noP : forall f s, sall notP s = true -> replace_fuel f "PHOSPHOROUS" "PHOSPHORUS" s = s.
Proof.
  induction f as [|f IH]; intros s H; [reflexivity|]. destruct s as [|c t]; [reflexivity|].
  cbn [sall] in H. apply andb_true_iff in H. destruct H as [Hc Ht]. cbn [replace_fuel].
  assert (E : str_prefix "PHOSPHOROUS" (String c t) = false).
  { cbn [str_prefix]. unfold notP in Hc. apply negb_true_iff in Hc. rewrite Ascii.eqb_sym in Hc. now rewrite Hc. }
  rewrite E, (IH t Ht). reflexivity.
Qed.
Lemma fix_noP : forall s, sall notP s = true -> fix_spelling s = s.
Proof. intros s H. unfold fix_spelling, replace. apply replace_fuel_noP, H. Qed.
Lemma fix_bang : forall t, exists t', fix_spelling (String "!" t) = String "!" t'.
Proof. intros t. unfold fix_spelling, replace. cbn [String.length replace_fuel]. eexists. reflexivity. Qed.

(* strip() keeps a prefix that begins and ends with something that is not white space *)
Lemma lstrip_app_keep : forall x c y, is_space c = false -> exists x', lstrip_ws (x +++ String c y) = x' +++ String c y.
Proof.
  induction x as [|a x IH]; intros c y Hc.
  - exists "". cbn [String.append lstrip_ws]. now rewrite Hc.
  - cbn [String.append lstrip_ws]. destruct (is_space a); [apply IH, Hc|]. exists (String a x). reflexivity.
Qed.
Lemma strip_keeps_prefix : forall c0 w0 c y r, is_space c0 = false -> srev (String c0 w0) = String c y -> is_space c = false ->
  exists Y, strip_ws (String c0 w0 +++ r) = String c0 w0 +++ Y.
Proof.
  intros c0 w0 c y r H0 Ew Hc. unfold strip_ws. cbn [String.append lstrip_ws]. rewrite H0.
  change (String c0 (w0 +++ r)) with (String c0 w0 +++ r). rewrite srev_app, Ew.
  destruct (lstrip_app_keep (srev r) c y Hc) as [x' Ex]. rewrite Ex, srev_app. exists (srev x').
  rewrite <- Ew, srev_involutive. reflexivity.
Qed.

(* Z_to_string of a positive number *)
Lemma Z_to_string_pos : forall z, (0 < z)%Z -> Z_to_string z = nat_str (Z.to_nat z).
Proof.
  intros z Hz. destruct z as [|p|p]; try lia. unfold nat_str. cbn [Z_to_string]. f_equal.
  rewrite Z2Nat.inj_pos. now rewrite positive_nat_N.
Qed.
Lemma Z_to_string_val : forall z, (0 < z)%Z -> digits_val (Z_to_string z) 0 = z.
Proof. intros z Hz. rewrite (Z_to_string_pos z Hz), nat_str_val. lia. Qed.

Lemma span_digits_word : forall a, sall is_digit a = true -> span_digits a = (a, "").
Proof.
  induction a as [|c a IH]; intros H; [reflexivity|].
  cbn [sall] in H. apply andb_true_iff in H. destruct H as [Hc Ha]. cbn [span_digits]. now rewrite Hc, (IH Ha).
Qed.

Lemma nat_str_head : forall n, exists c r, nat_str n = String c r /\ is_digit c = true.
Proof.
  intros n. pose proof (nat_str_digits n) as Hd. pose proof (nat_str_ne n) as Hne. destruct (nat_str n) as [|c r]; [congruence|].
  cbn [sall] in Hd. apply andb_true_iff in Hd. destruct Hd as [Hd _]. eauto.
Qed.

Lemma sall_digit_notP : forall s, sall is_digit s = true -> sall notP s = true.
Proof. intros s. apply sall_impl. exact digit_notP. Qed.
Lemma sall_digit_nobd : forall s, sall is_digit s = true -> sall nobd s = true.
Proof. intros s. apply sall_impl. intros c H. apply (digit_facts c H). Qed.

(* ================================================================== *)
(* 2. finite facts about the tables of lut.py                          *)
(* ================================================================== *)
(* element names 1..120: there is one, its upper-case form is made of letters *)
Definition ename (z : Z) : string := match element_name_from_Z z false with inr s => upper s | inl _ => "" end.
Definition ename_good (z : Z) : bool :=
  match element_name_from_Z z false with inr s => sall is_alpha (upper s) | inl _ => false end.
Lemma ename_sweep : forallb ename_good (zrange 1 120) = true.
Proof. vm_compute. reflexivity. Qed.
Lemma ename_facts : forall z, (1 <= z <= 120)%Z ->
  exists s, element_name_from_Z z false = inr s /\ ename z = upper s /\ sall is_alpha (ename z) = true.
Proof.
  intros z Hz. assert (Hin : In z (zrange 1 120)) by (apply zrange_In; lia).
  pose proof (proj1 (forallb_forall _ _) ename_sweep z Hin) as H. unfold ename_good in H. unfold ename.
  destruct (element_name_from_Z z false) as [e|s]; [discriminate|]. exists s. repeat split. exact H.
Qed.

(* the comment `! x functions` for l in 0..24 (lut._amchar_map_hij): all the facts the reader needs about this line *)
Definition fn_of (l : Z) : string :=
  match amint_to_char [l] true false with inr ch => "! " +++ ch +++ " functions" | inl _ => "" end.
Definition res_false (r : res bool) : bool := match r with inr false => true | _ => false end.
Definition fn_good (l : Z) : bool :=
  match amint_to_char [l] true false with
  | inr ch =>
    let x := "! " +++ ch +++ " functions" in
    sall nobd x && String.eqb (strip_ws x) x && sall notP x && res_false (line_begins_element x) && str_prefix "!" x
  | inl _ => false
  end.
Lemma fn_sweep : forallb fn_good (zrange 0 25) = true.
Proof. vm_compute. reflexivity. Qed.
Lemma fn_facts : forall l, (0 <= l < 25)%Z ->
  (exists ch, amint_to_char [l] true false = inr ch /\ fn_of l = "! " +++ ch +++ " functions") /\
  sall nobd (fn_of l) = true /\ strip_ws (fn_of l) = fn_of l /\ sall notP (fn_of l) = true /\
  line_begins_element (fn_of l) = inr false /\ exists r, fn_of l = String "!" r.
Proof.
  intros l Hl. assert (Hin : In l (zrange 0 25)) by (apply zrange_In; lia).
  pose proof (proj1 (forallb_forall _ _) fn_sweep l Hin) as H. unfold fn_good in H. unfold fn_of.
  destruct (amint_to_char [l] true false) as [e|ch]; [discriminate|].
  rewrite !andb_true_iff in H. destruct H as [[[[H1 H2] H3] H4] H5].
  split; [eauto|]. split; [exact H1|]. split; [now apply String.eqb_eq|]. split; [exact H3|]. split.
  - destruct (line_begins_element ("! " +++ ch +++ " functions")) as [e|[|]]; try discriminate. reflexivity.
  - cbn [String.append]. eauto.
Qed.

(* ================================================================== *)
(* 3. the lines the writer prints                                      *)
(* ================================================================== *)
Definition fn_line (s : sshell) : string := fn_of (shell_l s).
Definition h_line (s : sshell) : string :=
  "H    " +++ nat_str (List.length (exps s)) +++ "    " +++ nat_str (List.length (coefs s)).
Definition dsh_lines (s : sshell) : list string := fn_line s :: h_line s :: rows_of s.
Definition a_line (z : Z) : string := "a " +++ Z_to_string z.
Definition name_line (zs : Z * list sshell) : string := "! " +++ ename (fst zs) +++ "       " +++ cs_of (snd zs).
Definition del_lines (zs : Z * list sshell) : list string := a_line (fst zs) :: name_line zs :: flat_map dsh_lines (snd zs).
Definition first_line (bsname : string) : string := "! Basis = " +++ bsname.
Definition dall_lines (bsname : string) (els : list (Z * list sshell)) : list string :=
  first_line bsname :: "" :: flat_map del_lines els.

Definition del_ok (zs : Z * list sshell) : Prop :=
  (1 <= fst zs <= 120)%Z /\ snd zs <> [] /\ Forall dal_shell_ok (snd zs).

Lemma dal_nw_shell : forall s, dal_shell_ok s -> nw_shell_ok s.
Proof.
  intros s [H1 [[l [Ea Hl]] [H3 [H4 [H5 H6]]]]]. unfold nw_shell_ok. rewrite Ea.
  repeat split; try assumption; try discriminate; try lia.
  - repeat constructor; lia.
  - cbn [List.length]. lia.
Qed.
Lemma dal_nw_shells : forall shs, Forall dal_shell_ok shs -> Forall nw_shell_ok shs.
Proof. intros shs H. rewrite Forall_forall in *. intros s Hs. apply dal_nw_shell, H, Hs. Qed.

Lemma shell_l_am : forall s, dal_shell_ok s -> am s = [shell_l s] /\ (0 <= shell_l s < 25)%Z.
Proof. intros s [_ [[l [Ea Hl]] _]]. unfold shell_l. rewrite Ea. split; [reflexivity | exact Hl]. Qed.

Lemma dal_write_shell_lines : forall s, dal_shell_ok s -> dal_write_shell s = inr (unlines (dsh_lines s)).
Proof.
  intros s Hs. destruct (rows_facts s (dal_nw_shell s Hs)) as [Hw _]. destruct (shell_l_am s Hs) as [Ea Hl].
  destruct (fn_facts _ Hl) as [[ch [Ech Efn]] _].
  unfold dal_write_shell. rewrite Ea, Ech. unfold bind. fold (mat_of s). fold (pps_of s). rewrite Hw.
  unfold dsh_lines, fn_line, h_line, ok. rewrite Efn, !unlines_cons, !sapp_assoc. reflexivity.
Qed.

Lemma dal_write_element_lines : forall zs, del_ok zs -> dal_write_element zs = inr (unlines (del_lines zs)).
Proof.
  intros [z shs] [Hz [_ Hshs]]. cbn [fst snd] in *. destruct (ename_facts z Hz) as [nm [En [Eu _]]].
  destruct (cs_facts shs (dal_nw_shells shs Hshs)) as [Ec _].
  unfold dal_write_element. rewrite En. unfold bind. rewrite Ec.
  rewrite (mapM_map_ok _ _ dal_write_shell (fun s => unlines (dsh_lines s))).
  - unfold del_lines, a_line, name_line, ok. cbn [fst snd]. rewrite Eu, !unlines_cons, unlines_flat_map, !sapp_assoc. reflexivity.
  - intros s Hin. apply dal_write_shell_lines. rewrite Forall_forall in Hshs. apply Hshs, Hin.
Qed.

Lemma dal_pre_els : forall bsname els, dal_pre bsname els -> Forall del_ok els.
Proof. intros bsname els [_ [_ [_ H]]]. exact H. Qed.

Lemma dal_write_electron_lines : forall bsname els, Forall del_ok els ->
  dal_write_electron bsname els = inr (unlines (dall_lines bsname els)).
Proof.
  intros bsname els Hel. unfold dal_write_electron.
  rewrite (mapM_map_ok _ _ dal_write_element (fun zs => unlines (del_lines zs))).
  - unfold bind, ok, dall_lines, first_line. rewrite !unlines_cons, unlines_flat_map, !sapp_assoc. reflexivity.
  - intros zs Hin. apply dal_write_element_lines. rewrite Forall_forall in Hel. apply Hel, Hin.
Qed.

(* ---- every line is free of line boundaries ---- *)
Lemma h_line_good : forall s, good_line (h_line s).
Proof. intros s. unfold good_line, h_line. rewrite !sall_app, !nat_str_nobd. reflexivity. Qed.

Lemma a_line_good : forall z, (1 <= z <= 120)%Z -> good_line (a_line z).
Proof.
  intros z Hz. unfold good_line, a_line. rewrite sall_app, Z_to_string_pos by lia. now rewrite nat_str_nobd.
Qed.

Lemma cs_of_good : forall shs, Forall nw_shell_ok shs -> sall nobd (cs_of shs) = true.
Proof.
  intros shs H. destruct (cs_facts shs H) as [_ Hg]. unfold good_line, comment_line in Hg.
  rewrite sall_app in Hg. apply andb_true_iff in Hg. apply Hg.
Qed.

Lemma name_line_good : forall zs, del_ok zs -> good_line (name_line zs).
Proof.
  intros [z shs] [Hz [_ Hshs]]. cbn [fst snd] in *. destruct (ename_facts z Hz) as [_ [_ [_ Ha]]].
  unfold good_line, name_line. cbn [fst snd].
  rewrite !sall_app, (sall_impl is_alpha nobd _ alpha_nobd Ha), (cs_of_good shs (dal_nw_shells shs Hshs)). reflexivity.
Qed.

Lemma first_line_good : forall bsname, dal_name_ok bsname -> good_line (first_line bsname).
Proof.
  intros bsname H. unfold good_line, first_line. rewrite sall_app. cbn [sall]. 
  rewrite (sall_impl tm_name_char nobd _ name_char_nobd H). reflexivity.
Qed.

Lemma dall_lines_good : forall bsname els, dal_pre bsname els -> Forall good_line (dall_lines bsname els).
Proof.
  intros bsname els H. pose proof (dal_pre_els bsname els H) as Hel. destruct H as [Hn _].
  unfold dall_lines. constructor; [apply first_line_good, Hn|]. constructor; [reflexivity|].
  rewrite Forall_forall in *. intros l Hin. apply in_flat_map in Hin. destruct Hin as [zs [Hzs Hl]].
  pose proof (Hel _ Hzs) as Hok. unfold del_lines in Hl.
  destruct Hl as [<-|[<-|Hl]]; [apply a_line_good, Hok | apply name_line_good, Hok |].
  destruct Hok as [_ [_ Hshs]]. rewrite Forall_forall in Hshs.
  apply in_flat_map in Hl. destruct Hl as [s [Hs Hl]]. specialize (Hshs s Hs).
  destruct Hl as [<-|[<-|Hl]].
  - destruct (shell_l_am s Hshs) as [_ Hl']. apply (fn_facts _ Hl').
  - apply h_line_good.
  - destruct (rows_facts s (dal_nw_shell s Hshs)) as [_ [Hg _]]. rewrite Forall_forall in Hg. apply Hg, Hl.
Qed.

(* ---------- dal_write_total ---------- *)
Lemma dal_write_total : dal_write_total_stmt.
Proof. intros bsname els H. eexists. apply dal_write_electron_lines, (dal_pre_els bsname els H). Qed.

Lemma dal_written_lines : forall bsname els t, dal_pre bsname els -> dal_write_electron bsname els = inr t ->
  splitlines t = dall_lines bsname els.
Proof.
  intros bsname els t H E. rewrite (dal_write_electron_lines bsname els (dal_pre_els bsname els H)) in E. inversion E; subst.
  apply splitlines_unlines, dall_lines_good, H.
Qed.

(* ---------- dal_no_number_lost ---------- *)
Lemma dal_no_number_lost : dal_no_number_lost_stmt.
Proof.
  intros bsname els t H E x [zs [s [Hzs [Hs Hx]]]].
  rewrite (dal_written_lines bsname els t H E).
  pose proof (dal_pre_els bsname els H) as Hel. rewrite Forall_forall in Hel. destruct (Hel zs Hzs) as [_ [_ Hshs]].
  rewrite Forall_forall in Hshs. pose proof (dal_nw_shell s (Hshs s Hs)) as Hok.
  destruct (rows_facts s Hok) as [_ [_ [F2 _]]].
  destruct Hok as [_ [_ [_ [_ [HcF _]]]]].
  assert (HF : Forall (fun r => List.length r = List.length (exps s)) (exps s :: coefs s)) by (constructor; [reflexivity | exact HcF]).
  assert (Hcol : exists c, In c (exps s :: coefs s) /\ In x c).
  { destruct Hx as [Hx|[c [Hc Hx]]]; [exists (exps s); split; [now left | exact Hx] | exists c; split; [now right | exact Hx]]. }
  destruct Hcol as [c [Hc Hxc]].
  destruct (transpose_has _ _ c x HF Hc Hxc) as [row [Hrow Hxr]].
  destruct (Forall2_In_l _ _ _ _ _ row F2 Hrow) as [line [Hline Htok]].
  exists line. split; [|rewrite Htok; exact Hxr].
  unfold dall_lines. right. right. apply in_flat_map. exists zs. split; [exact Hzs|].
  unfold del_lines. right. right. apply in_flat_map. exists s. split; [exact Hs|]. right. right. exact Hline.
Qed.

(* ================================================================== *)
(* 4. what the reader sees in each kind of line                        *)
(* ================================================================== *)
(* a line that goes through _parse_electron_lines unchanged and does not start an element *)
Definition kept (x : string) : Prop :=
  strip_ws x = x /\ fix_spelling x = x /\ line_begins_element x = inr false /\ is_ecp_line x = false.
(* ... and is neither a comment nor a `$` line *)
Definition body_line (x : string) : Prop :=
  kept x /\ exists c r, x = String c r /\ Ascii.eqb c "!" = false /\ Ascii.eqb c "$" = false.

Lemma ecp_head : forall c r, Ascii.eqb (lower_char c) "e" = false -> is_ecp_line (String c r) = false.
Proof. intros c r H. unfold is_ecp_line, lower. cbn [smap String.eqb]. now rewrite H. Qed.

Lemma lbe_lead : forall c r, lead c = true -> line_begins_element (String c r) = inr false.
Proof. intros c r H. all_chars c; try discriminate H; reflexivity. Qed.
Lemma lbe_H : forall r, line_begins_element (String "H" r) = inr false.
Proof. intros r. reflexivity. Qed.
Lemma lbe_a : forall r, line_begins_element (String "a" (String " " r)) = inr true.
Proof. intros r. reflexivity. Qed.

(* ---- `! x functions` ---- *)
Lemma fn_line_facts : forall s, dal_shell_ok s -> kept (fn_line s) /\ exists r, fn_line s = String "!" r.
Proof.
  intros s Hs. destruct (shell_l_am s Hs) as [_ Hl]. destruct (fn_facts _ Hl) as [_ [_ [H1 [H2 [H3 [r Er]]]]]].
  unfold fn_line. split; [|eauto]. split; [exact H1 | split; [apply fix_noP, H2 | split; [exact H3|]]].
  rewrite Er. apply ecp_head. reflexivity.
Qed.

(* ---- `H nprim ngen` ---- *)
Lemma lstrip_blanks4 : forall x, lstrip_ws ("    " +++ x) = lstrip_ws x.
Proof. reflexivity. Qed.

Lemma h_line_facts : forall s,
  body_line (h_line s) /\
  match_shell_begin (h_line s) = Some (nat_str (List.length (exps s)), nat_str (List.length (coefs s))).
Proof.
  intros s. set (n := List.length (exps s)). set (g := List.length (coefs s)).
  destruct (nat_str_head n) as [cn [rn [En Hcn]]]. destruct (nat_str_head g) as [cg [rg [Eg Hcg]]].
  destruct (digit_facts cn Hcn) as [Hsn _]. destruct (digit_facts cg Hcg) as [Hsg _].
  assert (Hstrip : strip_ws (h_line s) = h_line s).
  { assert (E : h_line s = "H" +++ ("    " +++ nat_str n +++ "    ") +++ nat_str g).
    { unfold h_line. fold n g. cbn [String.append]. rewrite !sapp_assoc. reflexivity. }
    rewrite E. apply strip_words; [split; [discriminate | reflexivity] | apply nat_str_tok]. }
  split; [split|].
  - split; [exact Hstrip | split; [|split; [apply lbe_H | apply ecp_head; reflexivity]]].
    apply fix_noP. unfold h_line. rewrite !sall_app, !(sall_digit_notP _ (nat_str_digits _)). reflexivity.
  - unfold h_line. cbn [String.append]. eexists. eexists. repeat split.
  - unfold h_line. fold n g. unfold match_shell_begin.
    change ("H    " +++ nat_str n +++ "    " +++ nat_str g) with (String "H" ("    " +++ nat_str n +++ "    " +++ nat_str g)).
    cbv iota. change (Ascii.eqb "H" "h" || Ascii.eqb "H" "H") with true. cbv iota.
    change ("    " +++ nat_str n +++ "    " +++ nat_str g) with (String " " ("   " +++ nat_str n +++ "    " +++ nat_str g)) at 1.
    cbv iota. change (is_space " ") with true. cbv iota.
    rewrite lstrip_blanks4.
    change (nat_str n +++ "    " +++ nat_str g) with (nat_str n +++ String " " ("   " +++ nat_str g)).
    rewrite (lstrip_word (nat_str n) _ (nat_str_tok n)).
    rewrite (span_digits_word_sp _ _ (nat_str_digits n)). rewrite En at 1.
    change (is_space " ") with true. cbv iota.
    change (String " " ("   " +++ nat_str g)) with ("    " +++ nat_str g). rewrite lstrip_blanks4.
    rewrite <- (sapp_nil_r (nat_str g)) at 1. rewrite (lstrip_word (nat_str g) "" (nat_str_tok g)), sapp_nil_r.
    rewrite (span_digits_word _ (nat_str_digits g)). rewrite Eg at 1. reflexivity.
Qed.

(* ---- `a Z` ---- *)
Lemma lower_digits : forall s, sall is_digit s = true -> lower s = s.
Proof.
  induction s as [|c s IH]; intros H; [reflexivity|]. cbn [sall] in H. apply andb_true_iff in H. destruct H as [Hc Hs].
  unfold lower in *. cbn [smap]. rewrite (IH Hs). f_equal. all_chars c; try reflexivity; discriminate Hc.
Qed.

Lemma a_line_facts : forall z, (1 <= z <= 120)%Z ->
  strip_ws (a_line z) = a_line z /\ fix_spelling (a_line z) = a_line z /\ line_begins_element (a_line z) = inr true /\
  is_ecp_line (a_line z) = false /\ dal_element_key (lower (a_line z)) = inr (Z_to_string z) /\
  exists r, a_line z = String "a" r.
Proof.
  intros z Hz. unfold a_line. rewrite Z_to_string_pos by lia. set (n := Z.to_nat z).
  destruct (nat_str_head n) as [cn [rn [En Hcn]]]. destruct (digit_facts cn Hcn) as [Hsn _].
  split; [|split; [|split; [|split; [|split]]]].
  - change ("a " +++ nat_str n) with ("a" +++ " " +++ nat_str n).
    apply strip_words; [split; [discriminate | reflexivity] | apply nat_str_tok].
  - apply fix_noP. rewrite sall_app, (sall_digit_notP _ (nat_str_digits n)). reflexivity.
  - apply lbe_a.
  - apply ecp_head. reflexivity.
  - assert (El : lower ("a " +++ nat_str n) = "a " +++ nat_str n).
    { unfold lower. rewrite smap_app. fold (lower (nat_str n)). now rewrite (lower_digits _ (nat_str_digits n)). }
    rewrite El. unfold dal_element_key. change (str_prefix "a " ("a " +++ nat_str n)) with true. cbv iota.
    unfold match_a_line. change ("a " +++ nat_str n) with (String "a" (String " " (nat_str n))). cbv iota.
    assert (Eb : lstrip_blanks (nat_str n) = nat_str n).
    { rewrite En. cbn [lstrip_blanks]. destruct (Ascii.eqb_spec cn " ") as [->|_]; [discriminate Hcn | reflexivity]. }
    rewrite Eb, (span_digits_word _ (nat_str_digits n)). rewrite En at 1. reflexivity.
  - cbn [String.append]. eauto.
Qed.

(* ---- the number rows ---- *)
Lemma tokens_split_cur : forall s cur t ts, cur <> "" -> tokens_acc s cur = t :: ts ->
  exists w rest, t = srev cur +++ w /\ s = w +++ rest.
Proof.
  induction s as [|c s IH]; intros cur t ts Hcur H.
  - cbn [tokens_acc] in H. destruct cur; [congruence|]. inversion H; subst. exists "", "". now rewrite sapp_nil_r.
  - cbn [tokens_acc] in H. destruct (is_space c).
    + destruct cur as [|a cur]; [congruence|]. inversion H; subst. exists "", (String c s). now rewrite sapp_nil_r.
    + destruct (IH (String c cur) t ts) as [w [rest [Et Es]]]; [discriminate | exact H|].
      exists (String c w), rest. rewrite Et, Es, srev_cons, sapp_assoc. split; reflexivity.
Qed.

Lemma tokens_split : forall s t ts, tokens_acc s "" = t :: ts -> exists rest, lstrip_ws s = t +++ rest.
Proof.
  induction s as [|c s IH]; intros t ts H; [discriminate|].
  cbn [tokens_acc] in H. cbn [lstrip_ws]. destruct (is_space c).
  - apply (IH t ts H).
  - destruct (tokens_split_cur s (String c "") t ts) as [w [rest [Et Es]]]; [discriminate | exact H|].
    exists rest. rewrite Et, Es. reflexivity.
Qed.

Lemma strip_lstrip : forall s, lstrip_ws (strip_ws s) = strip_ws s.
Proof.
  intros s. rewrite strip_rl. destruct (lstrip_shape s) as [->|[c [y [-> Hc]]]]; [reflexivity|].
  destruct (rstrip_head c y Hc) as [Z EZ]. rewrite EZ. apply lstrip_head, Hc.
Qed.

Lemma floating_not_shell_begin : forall e rest, is_floating e = true -> is_shell_begin (e +++ rest) = false.
Proof.
  intros e rest H. unfold is_shell_begin, match_shell_begin.
  destruct e as [|c0 e']; [discriminate H|]. pose proof (floating_lead c0 e' H) as Hl.
  destruct (lead_facts c0 Hl) as [_ [_ [_ [_ [_ [_ [Hh HH]]]]]]].
  cbn [String.append]. rewrite Hh, HH. cbn [orb].
  change (String c0 (e' +++ rest)) with (String c0 e' +++ rest).
  destruct (is_digit c0) eqn:Ed.
  - rewrite is_floating_unfold in H. cbn [skip_sign] in H. rewrite (digit_not_sign c0 Ed) in H.
    destruct (skip_digits (String c0 e')) as [|c t] eqn:Es; [discriminate H|].
    destruct (Ascii.eqb_spec c ".") as [->|Hne]; [|discriminate H].
    destruct (span_digits_skip _ rest _ _ Es) as [d Ed']. rewrite Ed'. destruct d; reflexivity.
  - cbn [String.append span_digits]. rewrite Ed. reflexivity.
Qed.

Definition row_line (x : string) : Prop :=
  body_line x /\ is_shell_begin x = false /\ exists c r, x = String c r /\ lead c = true.

Lemma row_line_of : forall row e cs, tokens_acc row "" = e :: cs -> is_floating e = true -> sall rowc row = true ->
  row_line (strip_ws row).
Proof.
  intros row e cs Ht He Hc. set (x := strip_ws row).
  assert (Htx : tokens_acc x "" = e :: cs) by (unfold x; now rewrite tokens_strip).
  destruct (tokens_split x e cs Htx) as [rest Ex]. unfold x in Ex. rewrite strip_lstrip in Ex. fold x in Ex.
  destruct e as [|c t]; [discriminate He|]. pose proof (floating_lead c t He) as Hl.
  destruct (lead_facts c Hl) as [_ [Hb [Hd [Hlow [_ [Hne _]]]]]].
  assert (Hform : x = String c (t +++ rest)) by (rewrite Ex; reflexivity).
  split; [split|split].
  - split; [|split; [|split]].
    + unfold x. apply strip_idem.
    + apply fix_noP. unfold x. apply sall_strip. exact (sall_impl rowc notP row rowc_notP Hc).
    + rewrite Hform. apply lbe_lead, Hl.
    + rewrite Hform. apply ecp_head. now rewrite Hlow.
  - exists c, (t +++ rest). repeat split; assumption.
  - rewrite Ex. apply floating_not_shell_begin, He.
  - exists c, (t +++ rest). split; assumption.
Qed.

Lemma rows_rowc : forall s, nw_shell_ok s -> Forall (fun r => sall rowc r = true) (rows_of s).
Proof.
  intros s [_ [_ [_ [_ [_ [_ [He Hc]]]]]]]. unfold floating in *. unfold rows_of.
  destruct (mapM (fun row => write_row row (pps_of s) true "") (transpose (mat_of s))) as [e|rows] eqn:Hrows; [constructor|].
  pose proof (mapM_Forall2 _ _ _ _ _ Hrows) as F2.
  assert (Hcells : Forall (Forall (fun c => sall rowc (cell_str c) = true)) (mat_of s)).
  { assert (Hf : forall l, Forall (fun x => is_floating x = true) l -> Forall (fun c => sall rowc (cell_str c) = true) (map CStr l)).
    { intros l Hl. rewrite Forall_forall in *. intros c Hin. apply in_map_iff in Hin. destruct Hin as [x [<- Hx]].
      cbn [cell_str]. apply (sall_impl fchar rowc); [|apply floating_chars, Hl, Hx]. intros ch Hch. unfold rowc. now rewrite Hch. }
    unfold mat_of. constructor; [apply Hf, He|]. rewrite Forall_forall in *. intros col Hin.
    apply in_map_iff in Hin. destruct Hin as [c [<- Hcin]]. apply Hf, Hc, Hcin. }
  pose proof (transpose_Forall _ _ (mat_of s) Hcells) as HT.
  refine (Forall2_Forall_r _ _ _ _ _ _ _ _ HT F2). intros row line Hrow Hwr. cbv beta in Hwr.
  apply (write_row_chars rowc eq_refl row (pps_of s) true "" line Hrow eq_refl Hwr).
Qed.

Lemma Forall2_and_r : forall (A B : Type) (R : A -> B -> Prop) (Q : B -> Prop) l r,
  Forall2 R l r -> Forall Q r -> Forall2 (fun a b => R a b /\ Q b) l r.
Proof.
  intros A B R Q l r F2; induction F2 as [|a b l r Hab F2 IH]; intros HQ; [constructor|]. inversion HQ; subst.
  constructor; [split; assumption | apply IH; assumption].
Qed.

Definition prows (s : sshell) : list string := map strip_ws (rows_of s).

Lemma prows_facts : forall s, dal_shell_ok s ->
  Forall row_line (prows s) /\ List.length (prows s) = List.length (exps s) /\ prows s <> [] /\
  parse_primitive_matrix (prows s) = inr (map (norm false) (exps s), map (map (norm false)) (coefs s)).
Proof.
  intros s Hs. pose proof (dal_nw_shell s Hs) as Hn. destruct (rows_facts s Hn) as [_ [_ [F2 [Hlen Hp]]]].
  pose proof (rows_rowc s Hn) as Hrc.
  destruct Hn as [Hex [_ [_ [Hcne [HcF [_ [He Hc]]]]]]]. unfold floating in *.
  assert (HT : Forall (Forall (fun x => is_floating x = true)) (transpose (exps s :: coefs s))).
  { apply transpose_Forall. constructor; assumption. }
  assert (HL : Forall (fun r => List.length r = List.length (exps s :: coefs s)) (transpose (exps s :: coefs s)))
    by apply transpose_rowlen.
  pose proof (Forall_and _ _ _ _ HT HL) as HTL.
  assert (Hrl : Forall (fun r => row_line (strip_ws r)) (rows_of s)).
  { assert (F2' : Forall2 (fun srow line => tokens_acc line "" = srow /\ sall rowc line = true)
                          (transpose (exps s :: coefs s)) (rows_of s)).
    { apply Forall2_and_r; assumption. }
    refine (Forall2_Forall_r _ _ _ _ _ _ _ _ HTL F2'). intros srow line [Hf Hl] [Ht Hch].
    destruct srow as [|e cs]; [cbn in Hl; discriminate|]. inversion Hf; subst.
    apply (row_line_of line e cs); assumption. }
  unfold prows. split; [|split; [|split]].
  - rewrite Forall_forall in *. intros x Hin. apply in_map_iff in Hin. destruct Hin as [r [<- Hr]]. apply Hrl, Hr.
  - now rewrite map_length.
  - intros E. apply (f_equal (@List.length string)) in E. rewrite map_length, Hlen in E. destruct (exps s); [congruence | discriminate].
  - rewrite ppm_strip. exact Hp.
Qed.

(* ---- the element comment and the first line ---- *)
Lemma name_line_strip : forall zs, exists Y, strip_ws (name_line zs) = String "!" Y.
Proof. intros zs. unfold name_line. cbn [String.append]. apply strip_ws_head. reflexivity. Qed.

Lemma first_line_facts : forall bsname, exists Y,
  strip_ws (first_line bsname) = String "!" Y /\ line_begins_element (String "!" Y) = inr false /\
  is_ecp_line (String "!" Y) = false.
Proof.
  intros bsname. unfold first_line.
  destruct (strip_keeps_prefix "!" " Basis =" "=" " sisaB !" (String " " bsname) eq_refl eq_refl eq_refl) as [Y EY].
  change ("! Basis = " +++ bsname) with ("! Basis =" +++ String " " bsname). rewrite EY.
  cbn [String.append]. eexists. split; [reflexivity|]. split; [reflexivity | apply ecp_head; reflexivity].
Qed.

(* ================================================================== *)
(* 5. one shell block                                                  *)
(* ================================================================== *)
(* the lines of a shell as the reader's last partition sees them *)
Definition bsh (s : sshell) : list string := h_line s :: prows s.

Lemma chunks_one : forall l, map (sjoin " ") (chunks 1 l (List.length l)) = l.
Proof. induction l as [|a l IH]; [reflexivity|]. cbn [List.length chunks firstn skipn map sjoin]. now rewrite IH. Qed.

Lemma join_same : forall l, l <> [] -> join_split_lines (Z.of_nat (List.length l)) l = l.
Proof.
  intros l Hne. unfold join_split_lines. destruct l as [|a l']; [congruence|]. remember (a :: l') as L eqn:EL.
  assert (Hn : List.length L <> 0) by (rewrite EL; discriminate).
  assert (Hp : (0 <? Z.of_nat (List.length L))%Z = true) by (apply Z.ltb_lt; lia).
  rewrite Hp, Nat2Z.id, (Nat.div_same _ Hn), Nat.mul_1_l, Nat.eqb_refl. apply chunks_one.
Qed.

Lemma np_ok : forall lines ex co n g, parse_primitive_matrix lines = inr (ex, co) ->
  List.length ex = n -> co <> [] -> Forall (fun c => List.length c = n) co -> List.length co = g ->
  parse_primitive_matrix_np lines (Z.of_nat n) (Z.to_nat (Z.of_nat g)) = inr (ex, co).
Proof.
  intros lines ex co n g Hp Hex Hne Hco Hg. unfold parse_primitive_matrix_np. rewrite Hp. unfold bind. cbv beta iota.
  rewrite Hex, Z.eqb_refl. cbn [negb]. destruct co as [|c0 co']; [congruence|].
  inversion Hco as [|? ? Hc0 _]. rewrite Hc0, Z.eqb_refl, Nat2Z.id, Hg, Nat.eqb_refl. reflexivity.
Qed.

Lemma parse_shell_block_ok : forall i s, dal_shell_ok s -> dal_parse_shell_block i (bsh s) = inr (dal_shell_at i s).
Proof.
  intros i s Hs. destruct (prows_facts s Hs) as [_ [Hlen [Hne Hp]]]. destruct (h_line_facts s) as [_ Hm].
  destruct Hs as [_ [_ [Hcne [HcF _]]]].
  unfold dal_parse_shell_block, bsh, parse_shell_begin. rewrite Hm, !nat_str_val. unfold bind, ok. cbv beta iota.
  assert (Ej : join_split_lines (Z.of_nat (List.length (exps s))) (prows s) = prows s) by (rewrite <- Hlen; apply join_same, Hne).
  rewrite Ej.
  rewrite (np_ok (prows s) _ _ (List.length (exps s)) (List.length (coefs s)) Hp).
  - rewrite tm_ftype_ok. reflexivity.
  - apply map_length.
  - destruct (coefs s); [congruence | discriminate].
  - rewrite Forall_forall in *. intros c Hin. apply in_map_iff in Hin. destruct Hin as [c' [<- Hc']].
    rewrite map_length. apply HcF, Hc'.
  - apply map_length.
Qed.

Lemma parse_shell_blocks_ok : forall shs i, Forall dal_shell_ok shs ->
  dal_parse_shell_blocks i (map bsh shs) = inr (dal_renumber i shs).
Proof.
  induction shs as [|s shs IH]; intros i H; [reflexivity|]. inversion H as [|? ? H1 H2]; subst.
  cbn [map dal_parse_shell_blocks dal_renumber]. rewrite (parse_shell_block_ok i s H1). unfold bind.
  rewrite (IH (i + 1)%Z H2). reflexivity.
Qed.

(* the partition of the shell lines of an element *)
Definition sb_cond (x : string) : res bool := ok (is_shell_begin x).

Lemma bsh_shape : forall s, dal_shell_ok s -> block_shape sb_cond (bsh s).
Proof.
  intros s Hs. destruct (prows_facts s Hs) as [Hr _]. destruct (h_line_facts s) as [_ Hm].
  exists (h_line s), (prows s). split; [reflexivity|]. split.
  - unfold sb_cond, is_shell_begin. now rewrite Hm.
  - rewrite Forall_forall in *. intros x Hx. destruct (Hr x Hx) as [_ [Hn _]]. unfold sb_cond. now rewrite Hn.
Qed.

Lemma partition_blocks_k : forall k cond bs, Forall (fun b => block_shape cond b /\ k <= List.length b) bs ->
  partition_lines (concat bs) cond true k 0 0 = inr bs.
Proof.
  intros k cond bs H. unfold partition_lines.
  rewrite (part_blocks cond bs [] []).
  - cbn [flush app]. unfold bind. rewrite existsb_false; [reflexivity|].
    intros b Hb. rewrite Forall_forall in H. destruct (H b Hb) as [_ Hl]. apply Nat.ltb_ge. exact Hl.
  - rewrite Forall_forall in *. intros b Hb. apply H, Hb.
Qed.

Lemma partition_shell_blocks : forall shs, Forall dal_shell_ok shs ->
  partition_lines (flat_map bsh shs) sb_cond true 1 0 0 = inr (map bsh shs).
Proof.
  intros shs H. rewrite flat_map_concat_map. apply partition_blocks_k.
  rewrite Forall_forall in *. intros b Hb. apply in_map_iff in Hb. destruct Hb as [s [<- Hs]].
  split; [apply bsh_shape, H, Hs|]. cbn [bsh List.length]. lia.
Qed.

(* ================================================================== *)
(* 6. one element block                                                *)
(* ================================================================== *)
Definition psh (s : sshell) : list string := fn_line s :: bsh s.
(* the element block after the comments that follow `a Z` are gone: the first shell has lost its comment *)
Definition body2 (shs : list sshell) : list string :=
  match shs with [] => [] | s :: t => bsh s ++ flat_map psh t end.
Definition pel2 (zs : Z * list sshell) : list string := a_line (fst zs) :: body2 (snd zs).

Definition prune_bang (L : list string) : list string := prune_lines L "!" true true.

Lemma body_head_bang : forall x, body_line x -> head_not_in "!" x.
Proof. intros x [_ [c [r [-> [Hb _]]]]]. exists c, r. split; [reflexivity|]. cbn [sany]. now rewrite Hb. Qed.
Lemma body_strip : forall x, body_line x -> strip_ws x = x.
Proof. intros x [[H _] _]. exact H. Qed.

Lemma bsh_body : forall s, dal_shell_ok s -> Forall body_line (bsh s).
Proof.
  intros s Hs. destruct (prows_facts s Hs) as [Hr _]. destruct (h_line_facts s) as [Hh _].
  constructor; [exact Hh|]. rewrite Forall_forall in *. intros x Hx. apply (Hr x Hx).
Qed.

Lemma prune_bang_bsh : forall s, dal_shell_ok s -> prune_bang (bsh s) = bsh s.
Proof.
  intros s Hs. pose proof (bsh_body s Hs) as Hb. unfold prune_bang.
  assert (Hid : map strip_ws (bsh s) = bsh s).
  { apply map_id_in. rewrite Forall_forall in *. intros x Hx. apply body_strip, Hb, Hx. }
  rewrite pr_keep; [exact Hid | reflexivity|]. rewrite Hid. rewrite Forall_forall in *. intros x Hx. apply body_head_bang, Hb, Hx.
Qed.

Lemma prune_bang_comment : forall x r, x = String "!" r -> strip_ws x = x -> prune_bang [x] = [].
Proof.
  intros x r E Hs. unfold prune_bang. rewrite pr_unfold by reflexivity. cbn [map]. rewrite Hs, E. reflexivity.
Qed.

Lemma prune_bang_psh : forall s, dal_shell_ok s -> prune_bang (psh s) = bsh s.
Proof.
  intros s Hs. destruct (fn_line_facts s Hs) as [[Hst _] [r Er]]. unfold psh.
  change (fn_line s :: bsh s) with ([fn_line s] ++ bsh s). unfold prune_bang. rewrite pr_app by reflexivity.
  fold (prune_bang [fn_line s]). fold (prune_bang (bsh s)).
  rewrite (prune_bang_comment _ r Er Hst), (prune_bang_bsh s Hs). reflexivity.
Qed.

Lemma prune_bang_flat : forall shs, Forall dal_shell_ok shs -> prune_bang (flat_map psh shs) = flat_map bsh shs.
Proof.
  induction shs as [|s shs IH]; intros H; [reflexivity|]. inversion H as [|? ? H1 H2]; subst.
  cbn [flat_map]. unfold prune_bang. rewrite pr_app by reflexivity. fold (prune_bang (psh s)). fold (prune_bang (flat_map psh shs)).
  now rewrite (prune_bang_psh s H1), (IH H2).
Qed.

Lemma prune_bang_body2 : forall shs, Forall dal_shell_ok shs -> prune_bang (body2 shs) = flat_map bsh shs.
Proof.
  intros [|s t] H; [reflexivity|]. inversion H as [|? ? H1 H2]; subst. cbn [body2 flat_map].
  unfold prune_bang. rewrite pr_app by reflexivity. fold (prune_bang (bsh s)). fold (prune_bang (flat_map psh t)).
  now rewrite (prune_bang_bsh s H1), (prune_bang_flat t H2).
Qed.

Lemma str_in_existsb : forall k l, ~ In k l -> existsb (String.eqb k) l = false.
Proof. intros k l H. apply existsb_false. intros x Hx. apply String.eqb_neq. intros ->. apply H, Hx. Qed.

Lemma parse_element_block_ok : forall zs d, del_ok zs -> ~ In (Z_to_string (fst zs)) (map fst d) ->
  dal_parse_element_block (pel2 zs) d = inr (d ++ [(Z_to_string (fst zs), dal_renumber 0 (snd zs))]).
Proof.
  intros [z shs] d [Hz [_ Hshs]] Hd. cbn [fst snd] in *. destruct (a_line_facts z Hz) as [_ [_ [_ [_ [Hkey _]]]]].
  unfold dal_parse_element_block, pel2. cbn [fst snd]. rewrite Hkey. unfold bind.
  rewrite (str_in_existsb _ _ Hd). fold (prune_bang (body2 shs)). rewrite (prune_bang_body2 shs Hshs).
  fold sb_cond. rewrite (partition_shell_blocks shs Hshs), (parse_shell_blocks_ok shs 0 Hshs). reflexivity.
Qed.

Definition key_el (zs : Z * list sshell) : string * list sshell := (Z_to_string (fst zs), dal_renumber 0 (snd zs)).

Lemma Z_to_string_inj : forall a b, (0 < a)%Z -> (0 < b)%Z -> Z_to_string a = Z_to_string b -> a = b.
Proof. intros a b Ha Hb E. rewrite <- (Z_to_string_val a Ha), <- (Z_to_string_val b Hb), E. reflexivity. Qed.

Lemma parse_element_blocks_ok : forall els d, Forall del_ok els -> NoDup (map fst els) ->
  (forall zs, In zs els -> ~ In (Z_to_string (fst zs)) (map fst d)) ->
  dal_parse_element_blocks (map pel2 els) d = inr (d ++ map key_el els).
Proof.
  induction els as [|zs els IH]; intros d Hel Hnd Hdis.
  - cbn. now rewrite app_nil_r.
  - inversion Hel as [|? ? H1 H2]; subst. cbn [map] in Hnd. inversion Hnd as [|? ? Hnotin Hnd']; subst.
    cbn [map dal_parse_element_blocks]. rewrite (parse_element_block_ok zs d H1); [|apply Hdis; now left]. unfold bind.
    rewrite IH; [| exact H2 | exact Hnd' |].
    + rewrite <- app_assoc. reflexivity.
    + intros zs' Hin. rewrite map_app, in_app_iff. cbn [map In fst]. intros [Hd|[Heq|[]]].
      * apply (Hdis zs'); [now right | exact Hd].
      * apply Hnotin. rewrite Forall_forall in H2. destruct H1 as [Hz _]. destruct (H2 zs' Hin) as [Hz' _].
        apply Z_to_string_inj in Heq; [|lia|lia]. rewrite Heq. apply in_map, Hin.
Qed.

(* ================================================================== *)
(* 7. the file as read_dalton sees it, stage by stage                  *)
(* ================================================================== *)
(* ---- prune_lines(basis_lines): strip, drop the blank lines ---- *)
Definition prune0 (L : list string) : list string := filter (fun l => negb (is_empty l)) (map strip_ws L).
Lemma prune0_eq : forall L, prune_lines L "" true true = prune0 L.
Proof. reflexivity. Qed.
Lemma prune0_app : forall a b, prune0 (a ++ b) = prune0 a ++ prune0 b.
Proof. intros a b. unfold prune0. now rewrite map_app, filter_app. Qed.
Lemma prune0_keep : forall L, Forall (fun x => strip_ws x <> "") L -> prune0 L = map strip_ws L.
Proof.
  intros L H. unfold prune0. apply filter_id. rewrite Forall_forall in *. intros x Hx.
  apply in_map_iff in Hx. destruct Hx as [y [<- Hy]]. specialize (H y Hy). destruct (strip_ws y); [congruence | reflexivity].
Qed.
Lemma prune0_flat_map : forall (A : Type) (f : A -> list string) l, prune0 (flat_map f l) = flat_map (fun x => prune0 (f x)) l.
Proof. intros A f; induction l as [|a l IH]; [reflexivity|]. cbn [flat_map]. now rewrite prune0_app, IH. Qed.

Definition nm_line (zs : Z * list sshell) : string := strip_ws (name_line zs).
Definition pel (zs : Z * list sshell) : list string := a_line (fst zs) :: nm_line zs :: flat_map psh (snd zs).

Lemma row_line_ne : forall x, row_line x -> x <> "".
Proof. intros x [_ [_ [c [r [-> _]]]]]. discriminate. Qed.

Lemma prune0_shell : forall s, dal_shell_ok s -> prune0 (dsh_lines s) = psh s.
Proof.
  intros s Hs. destruct (fn_line_facts s Hs) as [[Hf _] [r Er]]. destruct (h_line_facts s) as [[[Hh _] [c [r' [Eh _]]]] _].
  destruct (prows_facts s Hs) as [Hr _].
  rewrite prune0_keep.
  - unfold dsh_lines, psh, bsh, prows. cbn [map]. now rewrite Hf, Hh.
  - unfold dsh_lines. constructor; [rewrite Hf, Er; discriminate|]. constructor; [rewrite Hh, Eh; discriminate|].
    rewrite Forall_forall in *. intros x Hx. apply row_line_ne, Hr. unfold prows. apply in_map, Hx.
Qed.

Lemma prune0_element : forall zs, del_ok zs -> prune0 (del_lines zs) = pel zs.
Proof.
  intros [z shs] [Hz [_ Hshs]]. cbn [fst snd] in *. destruct (a_line_facts z Hz) as [Ha [_ [_ [_ [_ [r Er]]]]]].
  destruct (name_line_strip (z, shs)) as [Y EY].
  unfold del_lines, pel. cbn [fst snd].
  change (a_line z :: name_line (z, shs) :: flat_map dsh_lines shs) with ([a_line z; name_line (z, shs)] ++ flat_map dsh_lines shs).
  rewrite prune0_app, prune0_flat_map.
  rewrite (flat_map_ext_in _ _ (fun x => prune0 (dsh_lines x)) psh shs).
  - unfold prune0 at 1. cbn [map]. unfold nm_line. rewrite Ha, EY, Er. reflexivity.
  - intros s Hs. apply prune0_shell. rewrite Forall_forall in Hshs. apply Hshs, Hs.
Qed.

Lemma prune0_all : forall bsname els, Forall del_ok els ->
  prune0 (dall_lines bsname els) = strip_ws (first_line bsname) :: flat_map pel els.
Proof.
  intros bsname els Hel. destruct (first_line_facts bsname) as [Y [EY _]]. unfold dall_lines.
  change (first_line bsname :: "" :: flat_map del_lines els) with ([first_line bsname; ""] ++ flat_map del_lines els).
  rewrite prune0_app, prune0_flat_map.
  rewrite (flat_map_ext_in _ _ (fun x => prune0 (del_lines x)) pel els).
  - unfold prune0 at 1. cbn [map]. rewrite EY. reflexivity.
  - intros zs Hzs. apply prune0_element. rewrite Forall_forall in Hel. apply Hel, Hzs.
Qed.

(* ---- no line is `ecp` ---- *)
Lemma psh_kept : forall s, dal_shell_ok s -> Forall kept (psh s).
Proof.
  intros s Hs. destruct (fn_line_facts s Hs) as [Hf _]. pose proof (bsh_body s Hs) as Hb.
  unfold psh. constructor; [exact Hf|]. rewrite Forall_forall in *. intros x Hx. apply (Hb x Hx).
Qed.

Lemma nm_line_bang : forall zs, exists Y, nm_line zs = String "!" Y.
Proof. intros zs. apply name_line_strip. Qed.

Lemma pel_not_ecp : forall zs, del_ok zs -> Forall (fun x => is_ecp_line x = false) (pel zs).
Proof.
  intros [z shs] [Hz [_ Hshs]]. cbn [fst snd] in *. destruct (a_line_facts z Hz) as [_ [_ [_ [He _]]]].
  destruct (nm_line_bang (z, shs)) as [Y EY]. unfold pel. cbn [fst snd].
  constructor; [exact He|]. constructor; [rewrite EY; apply ecp_head; reflexivity|].
  rewrite Forall_forall in *. intros x Hx. apply in_flat_map in Hx. destruct Hx as [s [Hs Hx]].
  pose proof (psh_kept s (Hshs s Hs)) as Hk. rewrite Forall_forall in Hk. apply (Hk x Hx).
Qed.

Lemma partition_one : forall cond X, X <> [] -> Forall (fun l => cond l = inr false) X ->
  partition_lines X cond true 1 1 2 = inr [X].
Proof.
  intros cond X Hne HX. unfold partition_lines. rewrite (part_skip_all cond true X [] [] HX). cbn [app flush].
  destruct X as [|x X']; [congruence|]. reflexivity.
Qed.

(* ---- re.sub on every line ---- *)
Definition nm_line' (zs : Z * list sshell) : string := fix_spelling (nm_line zs).
Definition pel1 (zs : Z * list sshell) : list string := a_line (fst zs) :: nm_line' zs :: flat_map psh (snd zs).

Lemma fix_element : forall zs, del_ok zs -> map fix_spelling (pel zs) = pel1 zs.
Proof.
  intros [z shs] [Hz [_ Hshs]]. cbn [fst snd] in *. destruct (a_line_facts z Hz) as [_ [Hf _]].
  unfold pel, pel1, nm_line'. cbn [fst snd map]. rewrite Hf. do 2 f_equal.
  apply map_id_in. rewrite Forall_forall in *. intros x Hx. apply in_flat_map in Hx. destruct Hx as [s [Hs Hx]].
  pose proof (psh_kept s (Hshs s Hs)) as Hk. rewrite Forall_forall in Hk. apply (Hk x Hx).
Qed.

(* ---- the comments after `a Z` ---- *)
Lemma drop_body : forall B rest, Forall (fun x => line_begins_element x = inr false) B ->
  drop_element_comments false (B ++ rest) = (do r <- drop_element_comments false rest; ok (B ++ r)).
Proof.
  induction B as [|x B IH]; intros rest H.
  - cbn [app]. destruct (drop_element_comments false rest); reflexivity.
  - inversion H as [|? ? Hx HB]; subst. cbn [app drop_element_comments andb]. rewrite Hx. unfold bind at 1.
    rewrite (IH rest HB). destruct (drop_element_comments false rest); reflexivity.
Qed.

Lemma kept_lbe : forall L, Forall kept L -> Forall (fun x => line_begins_element x = inr false) L.
Proof. intros L H. rewrite Forall_forall in *. intros x Hx. apply (H x Hx). Qed.

Lemma flat_psh_kept : forall shs, Forall dal_shell_ok shs -> Forall kept (flat_map psh shs).
Proof.
  intros shs H. rewrite Forall_forall in *. intros x Hx. apply in_flat_map in Hx. destruct Hx as [s [Hs Hx]].
  pose proof (psh_kept s (H s Hs)) as Hk. rewrite Forall_forall in Hk. apply (Hk x Hx).
Qed.

Lemma drop_start : forall x t, line_begins_element x = inr true ->
  drop_element_comments false (x :: t) = (do r <- drop_element_comments true t; ok (x :: r)).
Proof. intros x t H. cbn [drop_element_comments andb]. rewrite H. reflexivity. Qed.
Lemma drop_skip : forall x t, str_prefix "!" x = true -> drop_element_comments true (x :: t) = drop_element_comments true t.
Proof. intros x t H. cbn [drop_element_comments andb]. now rewrite H. Qed.
Lemma drop_stop : forall x t, str_prefix "!" x = false -> line_begins_element x = inr false ->
  drop_element_comments true (x :: t) = (do r <- drop_element_comments false t; ok (x :: r)).
Proof. intros x t H Hb. cbn [drop_element_comments andb]. rewrite H, Hb. reflexivity. Qed.

Lemma drop_element : forall zs rest, del_ok zs ->
  drop_element_comments false (pel1 zs ++ rest) = (do r <- drop_element_comments false rest; ok (pel2 zs ++ r)).
Proof.
  intros [z shs] rest [Hz [Hne Hshs]]. cbn [fst snd] in *. destruct (a_line_facts z Hz) as [_ [_ [Hb _]]].
  destruct shs as [|s t]; [congruence|]. inversion Hshs as [|? ? Hs Ht]; subst.
  destruct (nm_line_bang (z, s :: t)) as [Y EY]. destruct (fix_bang Y) as [Y' EY'].
  destruct (fn_line_facts s Hs) as [_ [rf Ef]]. destruct (h_line_facts s) as [[[_ [_ [Hh _]]] [c [rh [Eh [Hc _]]]]] _].
  destruct (prows_facts s Hs) as [Hr _].
  pose proof (kept_lbe _ (flat_psh_kept t Ht)) as HT.
  assert (Ep : str_prefix "!" (h_line s) = false).
  { rewrite Eh. cbn [str_prefix]. rewrite Ascii.eqb_sym, Hc. reflexivity. }
  unfold pel1, pel2, nm_line'. cbn [fst snd flat_map body2]. rewrite EY, EY'. set (T := flat_map psh t) in *.
  unfold psh, bsh. cbn [app]. rewrite (drop_start _ _ Hb).
  rewrite drop_skip by reflexivity. rewrite drop_skip by (rewrite Ef; reflexivity).
  rewrite (drop_stop _ _ Ep Hh).
  rewrite <- !app_assoc. rewrite (drop_body (prows s) _).
  2:{ rewrite Forall_forall in *. intros x Hx. apply (Hr x Hx). }
  rewrite (drop_body T rest HT).
  destruct (drop_element_comments false rest); [reflexivity|]. unfold bind, ok. now rewrite <- app_assoc.
Qed.

Lemma drop_all : forall els, Forall del_ok els ->
  drop_element_comments false (flat_map pel1 els) = inr (flat_map pel2 els).
Proof.
  induction els as [|zs els IH]; intros H; [reflexivity|]. inversion H as [|? ? H1 H2]; subst.
  cbn [flat_map]. rewrite (drop_element zs _ H1), (IH H2). reflexivity.
Qed.

(* ---- prune_lines(new_basis_lines, '$') ---- *)
Definition line2 (x : string) : Prop := strip_ws x = x /\ head_not_in "$" x.

Lemma kept_bang_line2 : forall x r, kept x -> x = String "!" r -> line2 x.
Proof. intros x r [H _] E. split; [exact H|]. exists "!"%char, r. split; [exact E | reflexivity]. Qed.
Lemma body_line2 : forall x, body_line x -> line2 x.
Proof.
  intros x [[H _] [c [r [E [_ Hd]]]]]. split; [exact H|]. exists c, r. split; [exact E|]. cbn [sany]. now rewrite Hd.
Qed.

Lemma pel2_line2 : forall zs, del_ok zs -> Forall line2 (pel2 zs).
Proof.
  intros [z shs] [Hz [_ Hshs]]. cbn [fst snd] in *. destruct (a_line_facts z Hz) as [Ha [_ [_ [_ [_ [r Er]]]]]].
  assert (Hpsh : forall t, Forall dal_shell_ok t -> Forall line2 (flat_map psh t)).
  { intros t Ht. rewrite Forall_forall in *. intros x Hx. apply in_flat_map in Hx. destruct Hx as [s [Hs Hx]].
    destruct Hx as [<-|Hx].
    - destruct (fn_line_facts s (Ht s Hs)) as [Hk [rf Ef]]. apply (kept_bang_line2 _ rf Hk Ef).
    - pose proof (bsh_body s (Ht s Hs)) as Hb. rewrite Forall_forall in Hb. apply body_line2, Hb, Hx. }
  unfold pel2. cbn [fst snd]. constructor.
  - split; [exact Ha|]. exists "a"%char, r. split; [exact Er | reflexivity].
  - destruct shs as [|s t]; [constructor|]. inversion Hshs as [|? ? Hs Ht]; subst. cbn [body2]. apply Forall_app. split; [|apply Hpsh, Ht].
    pose proof (bsh_body s Hs) as Hb. rewrite Forall_forall in *. intros x Hx. apply body_line2, Hb, Hx.
Qed.

Lemma prune_dollar_all : forall els, Forall del_ok els ->
  prune_lines (flat_map pel2 els) "$" true true = flat_map pel2 els.
Proof.
  intros els Hel.
  assert (H2 : Forall line2 (flat_map pel2 els)).
  { rewrite Forall_forall in *. intros x Hx. apply in_flat_map in Hx. destruct Hx as [zs [Hzs Hx]].
    pose proof (pel2_line2 zs (Hel zs Hzs)) as Hl. rewrite Forall_forall in Hl. apply Hl, Hx. }
  assert (Hid : map strip_ws (flat_map pel2 els) = flat_map pel2 els).
  { apply map_id_in. rewrite Forall_forall in *. intros x Hx. apply (H2 x Hx). }
  rewrite pr_keep; [exact Hid | reflexivity|]. rewrite Hid. rewrite Forall_forall in *. intros x Hx. apply (H2 x Hx).
Qed.

(* ---- the partition into element blocks ---- *)
Lemma pel2_shape : forall zs, del_ok zs -> block_shape line_begins_element (pel2 zs) /\ 3 <= List.length (pel2 zs).
Proof.
  intros [z shs] [Hz [Hne Hshs]]. cbn [fst snd] in *. destruct (a_line_facts z Hz) as [_ [_ [Hb _]]].
  destruct shs as [|s t]; [congruence|]. inversion Hshs as [|? ? Hs Ht]; subst.
  destruct (prows_facts s Hs) as [_ [Hlen [Hpne _]]].
  unfold pel2. cbn [fst snd body2]. split.
  - exists (a_line z), (bsh s ++ flat_map psh t). split; [reflexivity|]. split; [exact Hb|].
    apply Forall_app. split; [|apply kept_lbe, flat_psh_kept, Ht].
    pose proof (bsh_body s Hs) as Hbb. rewrite Forall_forall in *. intros x Hx. apply (Hbb x Hx).
  - unfold bsh. cbn [List.length app]. rewrite app_length. destruct (prows s); [congruence|]. cbn [List.length]. lia.
Qed.

Lemma partition_elements : forall els, Forall del_ok els ->
  partition_lines (flat_map pel2 els) line_begins_element true 3 0 0 = inr (map pel2 els).
Proof.
  intros els H. rewrite flat_map_concat_map. apply partition_blocks_k.
  rewrite Forall_forall in *. intros b Hb. apply in_map_iff in Hb. destruct Hb as [zs [<- Hzs]]. apply pel2_shape, H, Hzs.
Qed.

(* ================================================================== *)
(* 8. the round trip                                                   *)
(* ================================================================== *)
Lemma parse_electron_lines_ok : forall els, Forall del_ok els -> NoDup (map fst els) ->
  dal_parse_electron_lines (flat_map pel els) [] = inr (map key_el els).
Proof.
  intros els Hel Hnd. unfold dal_parse_electron_lines.
  assert (Ef : map fix_spelling (flat_map pel els) = flat_map pel1 els).
  { rewrite map_flat_map. apply flat_map_ext_in. intros zs Hzs. apply fix_element. rewrite Forall_forall in Hel. apply Hel, Hzs. }
  rewrite Ef, (drop_all els Hel). unfold bind. rewrite (prune_dollar_all els Hel), (partition_elements els Hel).
  rewrite (parse_element_blocks_ok els [] Hel Hnd); [reflexivity|]. intros zs _ [].
Qed.

Lemma keys_back : forall els, Forall del_ok els ->
  map (fun kv : string * list sshell => (digits_val (fst kv) 0, snd kv)) (map key_el els) = dal_read_back els.
Proof.
  intros els H. unfold dal_read_back. rewrite map_map. apply map_ext_in. intros zs Hzs. rewrite Forall_forall in H.
  destruct (H zs Hzs) as [Hz _]. unfold key_el. cbn [fst snd]. rewrite Z_to_string_val by lia. reflexivity.
Qed.

Lemma skip_first : forall l0 r X, line_begins_element l0 = inr false -> is_ecp_line l0 = false ->
  dal_skip_to_start (l0 :: String "a" (String " " r) :: X) = inr (String "a" (String " " r) :: X).
Proof. intros l0 r X H H0. cbn [dal_skip_to_start]. rewrite H, lbe_a. unfold bind. rewrite H0. reflexivity. Qed.

Lemma read_dall_lines : forall bsname els, dal_pre bsname els ->
  dal_read_electron (dall_lines bsname els) = inr (dal_read_back els).
Proof.
  intros bsname els H. pose proof (dal_pre_els bsname els H) as Hel. destruct H as [_ [Hne [Hnd _]]].
  destruct (first_line_facts bsname) as [Y [EY [Hb He]]].
  unfold dal_read_electron, dal_read_keys. rewrite prune0_eq, (prune0_all bsname els Hel), EY.
  destruct els as [|zs els']; [congruence|]. remember (zs :: els') as els eqn:Eels.
  assert (Hhead : exists r X, flat_map pel els = String "a" (String " " r) :: X).
  { rewrite Eels. cbn [flat_map]. unfold pel, a_line. cbn [app String.append]. eauto. }
  destruct Hhead as [r [X EX]].
  assert (Hecp : Forall (fun x => is_ecp_line x = false) (flat_map pel els)).
  { rewrite Forall_forall in *. intros x Hx. apply in_flat_map in Hx. destruct Hx as [zs' [Hzs Hx]].
    pose proof (pel_not_ecp zs' (Hel zs' Hzs)) as Hp. rewrite Forall_forall in Hp. apply Hp, Hx. }
  assert (He1 : is_ecp_line (String "a" (String " " r)) = false) by (apply ecp_head; reflexivity).
  rewrite EX, (skip_first _ r X Hb He). unfold bind. cbv beta iota. rewrite <- EX.
  rewrite (partition_one (fun x => ok (is_ecp_line x)) (flat_map pel els)).
  - rewrite EX. cbn [dal_sections]. rewrite He1, <- EX, (parse_electron_lines_ok els Hel Hnd). unfold bind, ok.
    now rewrite (keys_back els Hel).
  - rewrite EX. discriminate.
  - rewrite Forall_forall in *. intros x Hx. unfold ok. now rewrite (Hecp x Hx).
Qed.

Lemma dal_roundtrip_positional : dal_roundtrip_positional_stmt.
Proof.
  intros bsname els H. unfold dal_roundtrip.
  rewrite (dal_write_electron_lines bsname els (dal_pre_els bsname els H)). unfold bind.
  rewrite (splitlines_unlines _ (dall_lines_good bsname els H)). apply read_dall_lines, H.
Qed.

(* ================================================================== *)
(* 9. when the momenta come back: contiguous from 0                    *)
(* ================================================================== *)
Lemma renumber_am : forall shs i, map (@am string) (dal_renumber i shs) = map (fun k => [k]) (zrange i (List.length shs)).
Proof. induction shs as [|s shs IH]; intros i; [reflexivity|]. cbn [dal_renumber map List.length zrange am]. now rewrite IH. Qed.

Lemma renumber_expected : forall shs i, map (@am string) shs = map (fun k => [k]) (zrange i (List.length shs)) ->
  dal_renumber i shs = map dal_expected_shell shs.
Proof.
  induction shs as [|s shs IH]; intros i H; [reflexivity|]. cbn [map List.length zrange] in H. inversion H as [[Ha Ht]].
  cbn [dal_renumber map]. rewrite (IH (i + 1)%Z Ht). unfold dal_shell_at, dal_expected_shell. now rewrite Ha.
Qed.

Lemma expected_am : forall shs, map (@am string) (map dal_expected_shell shs) = map (@am string) shs.
Proof. intros shs. rewrite map_map. reflexivity. Qed.

Lemma read_back_expected : forall els, Forall (fun zs => dal_contiguous (snd zs)) els -> dal_read_back els = dal_expected els.
Proof.
  intros els H. unfold dal_read_back, dal_expected. apply map_ext_in. intros zs Hzs. rewrite Forall_forall in H.
  now rewrite (renumber_expected (snd zs) 0 (H zs Hzs)).
Qed.

Lemma dal_roundtrip_exact : dal_roundtrip_stmt.
Proof.
  intros bsname els [Hpre Hc]. rewrite (dal_roundtrip_positional bsname els Hpre). now rewrite (read_back_expected els Hc).
Qed.

Lemma dal_roundtrip_iff : dal_roundtrip_iff_stmt.
Proof.
  intros bsname els Hpre. split.
  - intros E. rewrite (dal_roundtrip_positional bsname els Hpre) in E. inversion E as [E'].
    unfold dal_read_back, dal_expected in E'. clear E Hpre. induction els as [|zs els IH]; [constructor|].
    cbn [map] in E'. inversion E' as [[E1 E2]]. constructor; [|apply IH, E2].
    unfold dal_contiguous. rewrite <- (expected_am (snd zs)), <- E1. apply renumber_am.
  - intros Hc. apply dal_roundtrip_exact. split; assumption.
Qed.

(* ---- sorted momenta: contiguous = nothing missing below ---- *)
Lemma sorted_closed_range : forall L lo, StronglySorted Z.lt L -> (forall x, In x L -> (lo <= x)%Z) ->
  (forall l m, In m L -> (lo <= l <= m)%Z -> In l L) -> L = zrange lo (List.length L).
Proof.
  induction L as [|a L IH]; intros lo Hs Hlo Hcl; [reflexivity|].
  inversion Hs as [|? ? Hs' Hall]; subst. rewrite Forall_forall in Hall.
  assert (Ha : a = lo).
  { pose proof (Hlo a (or_introl eq_refl)) as H1. destruct (Hcl lo a (or_introl eq_refl)) as [E|Hin]; [lia | exact E|].
    specialize (Hall lo Hin). lia. }
  subst a. cbn [List.length zrange]. f_equal. apply IH; [exact Hs'| |].
  - intros x Hx. specialize (Hall x Hx). lia.
  - intros l m Hm Hl. destruct (Hcl l m (or_intror Hm)) as [E|Hin]; [lia | lia | exact Hin].
Qed.

Lemma zrange_mem : forall n lo z, In z (zrange lo n) -> (lo <= z < lo + Z.of_nat n)%Z.
Proof.
  induction n as [|n IH]; intros lo z H; [destruct H|]. cbn [zrange In] in H.
  destruct H as [<-|H]; [lia|]. specialize (IH _ _ H). lia.
Qed.

Lemma am_of_l : forall shs, Forall (fun s : sshell => exists l, am s = [l] /\ (0 <= l)%Z) shs ->
  map (@am string) shs = map (fun k => [k]) (map shell_l shs).
Proof.
  induction shs as [|s shs IH]; intros H; [reflexivity|]. inversion H as [|? ? [l [Ea _]] Ht]; subst.
  cbn [map]. rewrite (IH Ht). unfold shell_l. now rewrite Ea.
Qed.

Lemma map_single_inj : forall a b : list Z, map (fun k => [k]) a = map (fun k => [k]) b -> a = b.
Proof.
  induction a as [|x a IH]; intros [|y b] H; try discriminate; [reflexivity|]. cbn [map] in H. inversion H. f_equal. now apply IH.
Qed.

Lemma contiguous_closed : forall L n, n = List.length L -> StronglySorted Z.lt L -> (forall x, In x L -> (0 <= x)%Z) ->
  (map (fun k => [k]) L = map (fun k => [k]) (zrange 0 n) <-> forall l m, In m L -> (0 <= l <= m)%Z -> In l L).
Proof.
  intros L n -> Hs Hpos. split.
  - intros E. apply map_single_inj in E. rewrite E. intros l m Hm Hl. apply zrange_mem in Hm. apply zrange_In. lia.
  - intros Hcl. f_equal. apply sorted_closed_range; assumption.
Qed.

Lemma dal_contiguous_sorted : dal_contiguous_sorted_stmt.
Proof.
  intros shs Ham Hs. unfold dal_contiguous. rewrite (am_of_l shs Ham).
  apply (contiguous_closed (map shell_l shs) (List.length shs)); [symmetry; apply map_length | exact Hs |].
  intros x Hx. apply in_map_iff in Hx. destruct Hx as [s [<- Hin]]. rewrite Forall_forall in Ham.
  destruct (Ham s Hin) as [l [Ea Hl]]. unfold shell_l. now rewrite Ea.
Qed.

(* ================================================================== *)
(* 10. counterexamples and a concrete instance                         *)
(* ================================================================== *)
Lemma dal_sh_ok : forall ft l, (0 <= l < 25)%Z -> dal_shell_ok (dal_sh ft l).
Proof.
  intros ft l H. unfold dal_shell_ok. cbn [exps am coefs dal_sh]. split; [discriminate|]. split; [eauto|].
  split; [discriminate|]. repeat constructor.
Qed.

Lemma dal_gap_counterexample : dal_gap_counterexample_stmt.
Proof.
  split; [|split; [|split]].
  - unfold dal_pre, dal_gap_els. split; [reflexivity|]. split; [discriminate|]. split; [repeat constructor; intros []|].
    constructor; [|constructor]. cbn [fst snd]. split; [lia|]. split; [discriminate|].
    repeat constructor; apply dal_sh_ok; lia.
  - cbn. discriminate.
  - vm_compute. reflexivity.
  - intros E. vm_compute in E. discriminate E.
Qed.

Lemma dal_nos_counterexample : dal_nos_counterexample_stmt.
Proof.
  split; [|vm_compute; reflexivity].
  unfold dal_pre. split; [reflexivity|]. split; [discriminate|]. split; [repeat constructor; intros []|].
  constructor; [|constructor]. cbn [fst snd]. split; [lia|]. split; [discriminate|].
  repeat constructor; apply dal_sh_ok; lia.
Qed.

Lemma dal_high_momenta : dal_high_momenta_stmt.
Proof.
  split; [|split; [|split]]; try (vm_compute; reflexivity).
  split.
  - unfold dal_pre, dal_high_els. split; [reflexivity|]. split; [discriminate|]. split; [repeat constructor; intros []|].
    constructor; [|constructor]. cbn [fst snd]. split; [lia|]. split; [discriminate|].
    rewrite Forall_forall. intros s Hs. apply in_map_iff in Hs. destruct Hs as [l [<- Hl]].
    apply zrange_mem in Hl. apply dal_sh_ok. lia.
  - constructor; [|constructor]. vm_compute. reflexivity.
Qed.

Lemma dal_order_counterexample : dal_order_counterexample_stmt.
Proof. vm_compute. reflexivity. Qed.
Lemma dal_roundtrip_empty : dal_roundtrip_empty_stmt.
Proof. vm_compute. reflexivity. Qed.
Lemma dal_roundtrip_noshell : dal_roundtrip_noshell_stmt.
Proof. split; vm_compute; reflexivity. Qed.
Lemma dal_roundtrip_nlname : dal_roundtrip_nlname_stmt.
Proof. vm_compute. reflexivity. Qed.
Lemma dal_roundtrip_names : dal_roundtrip_names_stmt.
Proof. repeat split; vm_compute; reflexivity. Qed.
Lemma dal_roundtrip_dup : dal_roundtrip_dup_stmt.
Proof. vm_compute. reflexivity. Qed.
Lemma dal_roundtrip_fused : dal_roundtrip_fused_stmt.
Proof. vm_compute. reflexivity. Qed.
Lemma dal_roundtrip_noprim : dal_roundtrip_noprim_stmt.
Proof. split; vm_compute; reflexivity. Qed.
Lemma dal_write_z121 : dal_write_z121_stmt.
Proof. vm_compute. reflexivity. Qed.
Lemma dal_write_nopoint : dal_write_nopoint_stmt.
Proof. vm_compute. reflexivity. Qed.
Lemma dal_roundtrip_cartesian : dal_roundtrip_cartesian_stmt.
Proof. vm_compute. reflexivity. Qed.

Example dal_example : dal_example_stmt.
Proof.
  split; [|split; [|split]]; try (vm_compute; reflexivity).
  split.
  - unfold dal_pre, dx_els. split; [reflexivity|]. split; [discriminate|]. split.
    + cbn [map fst]. repeat constructor; cbn [In]; intros H; repeat (destruct H as [H|H]; [discriminate H|]); exact H.
    + repeat constructor; cbn [fst snd]; try lia; try discriminate;
        try (eexists; split; [reflexivity | lia]); try reflexivity.
  - repeat constructor.
Qed.

Print Assumptions dal_write_total.
Print Assumptions dal_roundtrip_positional.
Print Assumptions dal_roundtrip_exact.
Print Assumptions dal_roundtrip_iff.
Print Assumptions dal_contiguous_sorted.
Print Assumptions dal_no_number_lost.
Print Assumptions dal_gap_counterexample.
Print Assumptions dal_nos_counterexample.
Print Assumptions dal_high_momenta.
Print Assumptions dal_order_counterexample.
Print Assumptions dal_roundtrip_empty.
Print Assumptions dal_roundtrip_noshell.
Print Assumptions dal_roundtrip_nlname.
Print Assumptions dal_roundtrip_names.
Print Assumptions dal_roundtrip_dup.
Print Assumptions dal_roundtrip_fused.
Print Assumptions dal_roundtrip_noprim.
Print Assumptions dal_write_z121.
Print Assumptions dal_write_nopoint.
Print Assumptions dal_roundtrip_cartesian.
Print Assumptions dal_example.

