(* Proofs of the statements of Proofs/LibmolDefs.v: the electron shells written by write_libmol are read back by
   read_libmol exactly up to the zero coefficients outside the printed range, the region and the function type (see
   lmol_expected) - provided the name of the basis set fits the reader's header expression and l < 8. *)
From BSE Require Import Model.Val Model.Text Model.Num Model.Basis Model.Manip Model.Matrix Gen.GenLut Model.Lut Model.Elements
                        Model.Nwchem Model.G94 Model.Libmol Proofs.MatrixDefs Proofs.NwchemDefs Proofs.C20Finite
                        Proofs.LibmolDefs.
From BSE Require Proofs.ElementsSpec.
From BSE Require Import Proofs.HeaderSpec Proofs.MatrixSpec Proofs.NwchemSpec Proofs.G94Spec.

(* ================================================================== *)
(* 1. generic helpers                                                  *)
(* ================================================================== *)
Lemma slen_app : forall a b, String.length (a +++ b) = String.length a + String.length b.
Proof. induction a as [|c a IH]; intros b; [reflexivity|]. cbn [String.append String.length]. now rewrite IH. Qed.

Lemma first_some_head : forall (A B : Type) (f : A -> option B) x t y, f x = Some y -> first_some f (x :: t) = Some y.
Proof. intros A B f x t y H. cbn [first_some]. now rewrite H. Qed.

(* a line that begins and ends with a character that is not white space is left alone by strip() *)
Definition ends_ok (l : string) : Prop :=
  (exists c r, l = String c r /\ is_space c = false) /\ (exists d y, srev l = String d y /\ is_space d = false).

Lemma strip_ends : forall l, ends_ok l -> strip_ws l = l.
Proof.
  intros l [[c [r [E Hc]]] [d [y [Er Hd]]]]. unfold strip_ws.
  assert (E1 : lstrip_ws l = l) by (rewrite E; cbn [lstrip_ws]; now rewrite Hc).
  rewrite E1, Er. cbn [lstrip_ws]. rewrite Hd, <- Er. apply srev_involutive.
Qed.

Lemma last_char : forall (p : ascii -> bool) x w, w <> "" -> sall p w = true ->
  exists d y, srev (x +++ w) = String d y /\ p d = true.
Proof.
  intros p x w Hne Hw. rewrite srev_app. rewrite <- sall_srev in Hw.
  destruct (srev w) as [|d y] eqn:E; [exfalso; apply (srev_ne w Hne E)|].
  cbn [sall] in Hw. apply andb_true_iff in Hw. exists d, (y +++ srev x). split; [reflexivity | apply Hw].
Qed.

Lemma first_char : forall (p : ascii -> bool) w x, w <> "" -> sall p w = true ->
  exists c r, w +++ x = String c r /\ p c = true.
Proof.
  intros p [|c w] x Hne Hw; [congruence|]. cbn [sall] in Hw. apply andb_true_iff in Hw.
  exists c, (w +++ x). split; [reflexivity | apply Hw].
Qed.

(* prune_lines(lines, '!') leaves alone a list of lines that are stripped, not blank and not comments *)
Definition keep_line (l : string) : Prop := strip_ws l = l /\ l <> "" /\ first_in "!" l = false.

Lemma prune_keep : forall L, Forall keep_line L -> prune_lines L "!" true true = L.
Proof.
  intros L H. unfold prune_lines. cbn [is_empty andb negb].
  induction H as [|l L [Hs [Hne Hf]] _ IH]; [reflexivity|].
  cbn [map filter]. rewrite Hs, Hf. destruct l as [|c r]; [congruence|].
  cbn [is_empty orb negb filter]. f_equal. exact IH.
Qed.

(* ' '.join(words) *)
Lemma sjoin_cons2 : forall sep x y t, sjoin sep (x :: y :: t) = x +++ sep +++ sjoin sep (y :: t).
Proof. reflexivity. Qed.

Lemma tokens_sjoin : forall ws, Forall tok_ok ws -> tokens_acc (sjoin " " ws) "" = ws.
Proof.
  induction ws as [|x ws IH]; intros H; [reflexivity|]. inversion H as [|? ? Hx Hws]; subst.
  destruct ws as [|y t].
  - cbn [sjoin]. exact (tokens_sp_word 0 x Hx).
  - rewrite sjoin_cons2. destruct Hx as [Hne Hs]. rewrite (tokens_word _ _ _ Hs), sapp_nil_r.
    cbn [String.append tokens_acc]. change (is_space " ") with true. cbv iota.
    destruct (srev x) as [|a r] eqn:E; [exfalso; apply (srev_ne x Hne E)|].
    rewrite <- E, srev_involutive, (IH Hws). reflexivity.
Qed.

Lemma sjoin_sall : forall p ws, p " "%char = true -> Forall (fun w => sall p w = true) ws -> sall p (sjoin " " ws) = true.
Proof.
  intros p ws Hp. induction ws as [|x ws IH]; intros H; [reflexivity|]. inversion H as [|? ? Hx Hws]; subst.
  destruct ws as [|y t]; [exact Hx|]. rewrite sjoin_cons2, !sall_app, Hx, (IH Hws). cbn [sall]. now rewrite Hp.
Qed.

Lemma sjoin_first : forall (p : ascii -> bool) x ws, x <> "" -> sall p x = true ->
  exists c r, sjoin " " (x :: ws) = String c r /\ p c = true.
Proof.
  intros p x ws Hne Hx. destruct ws as [|y t].
  - cbn [sjoin]. destruct (first_char p x "" Hne Hx) as [c [r [E Hc]]]. rewrite sapp_nil_r in E. eauto.
  - rewrite sjoin_cons2. apply first_char; assumption.
Qed.

Lemma sjoin_last : forall (p : ascii -> bool) ws, ws <> [] -> Forall (fun w => w <> "" /\ sall p w = true) ws ->
  exists d y, srev (sjoin " " ws) = String d y /\ p d = true.
Proof.
  intros p. induction ws as [|x ws IH]; intros Hne H; [congruence|]. inversion H as [|? ? [Hx1 Hx2] Hws]; subst.
  destruct ws as [|y t].
  - cbn [sjoin]. apply (last_char p "" x Hx1 Hx2).
  - rewrite sjoin_cons2. destruct (IH ltac:(discriminate) Hws) as [d [z [E Hd]]].
    rewrite <- sapp_assoc, srev_app, E. exists d, (z +++ srev (x +++ " ")). split; [reflexivity | exact Hd].
Qed.

(* ================================================================== *)
(* 2. finite facts about the tables of lut.py                          *)
(* ================================================================== *)
Definition lsym (z : Z) : string := match element_sym_from_Z z false with inr s => upper s | inl _ => "" end.
Definition lname (z : Z) : string := match element_name_from_Z z false with inr s => s | inl _ => "" end.

Definition lsym_good (z : Z) : bool :=
  match element_sym_from_Z z false, element_name_from_Z z false with
  | inr s, inr n =>
    nonempty s && sall is_alpha (upper s) && res_eqb Z.eqb (element_Z_from_sym (upper s)) z &&
    negb (py_int_lit (upper s) false) && nonempty n && sall is_alpha n
  | _, _ => false
  end.
Lemma lsym_sweep : forallb lsym_good Zs = true.
Proof. vm_compute. reflexivity. Qed.

Lemma lsym_facts : forall z, (1 <= z <= 118)%Z ->
  element_sym_from_Z z false = inr (match element_sym_from_Z z false with inr s => s | inl _ => "" end) /\
  upper (match element_sym_from_Z z false with inr s => s | inl _ => "" end) = lsym z /\
  element_name_from_Z z false = inr (lname z) /\
  lsym z <> "" /\ sall is_alpha (lsym z) = true /\ element_Z_from_sym (lsym z) = inr z /\
  py_int_lit (lsym z) false = false /\ lname z <> "" /\ sall is_alpha (lname z) = true.
Proof.
  intros z Hz. pose proof (proj1 (forallb_forall _ _) lsym_sweep z (Zs_spec z Hz)) as H.
  unfold lsym_good, lsym, lname in *.
  destruct (element_sym_from_Z z false) as [e|s]; [discriminate H|].
  destruct (element_name_from_Z z false) as [e|n]; [discriminate H|].
  rewrite !andb_true_iff in H. destruct H as [[[[[H1 H2] H3] H4] H5] H6].
  split; [reflexivity|]. split; [reflexivity|]. split; [reflexivity|].
  split. { intros E. destruct s; [discriminate H1 | discriminate E]. }
  split; [exact H2|]. split; [now apply res_eqb_Z|]. split; [now apply negb_true_iff|].
  split; [intros ->; discriminate H5 | exact H6].
Qed.

(* the eight letters the reader knows *)
Definition lam_good (l : Z) : bool :=
  match amint_to_char [l] false false with
  | inr a =>
    match lower a with
    | String c EmptyString =>
      is_am_char c && is_alpha c && res_eqb list_Z_eqb (amchar_to_int (String c EmptyString) false) [l]
    | _ => false
    end
  | inl _ => false
  end.
Lemma lam_sweep : forallb lam_good (zrange 0 8) = true.
Proof. vm_compute. reflexivity. Qed.

Definition lamc (l : Z) : ascii :=
  match amint_to_char [l] false false with
  | inr a => match lower a with String c _ => c | EmptyString => " "%char end
  | inl _ => " "%char
  end.
Lemma lam_facts : forall l, (0 <= l < 8)%Z ->
  exists a, amint_to_char [l] false false = inr a /\ lower a = String (lamc l) EmptyString /\
    is_am_char (lamc l) = true /\ is_alpha (lamc l) = true /\ amchar_to_int (String (lamc l) EmptyString) false = inr [l].
Proof.
  intros l Hl. assert (Hin : In l (zrange 0 8)) by (apply zrange_In; lia).
  pose proof (proj1 (forallb_forall _ _) lam_sweep l Hin) as H. unfold lam_good, lamc in *.
  destruct (amint_to_char [l] false false) as [e|a]; [discriminate H|]. exists a.
  destruct (lower a) as [|c [|c2 r]]; try discriminate H.
  rewrite !andb_true_iff in H. destruct H as [[H1 H2] H3].
  repeat split; auto. now apply res_eqb_zlist.
Qed.

(* ================================================================== *)
(* 3. find_range and reshape                                           *)
(* ================================================================== *)
Definition nz (x : string) : bool := match parse_num x with Some (m, _) => negb (Z.eqb m 0) | None => false end.

Lemma nz_is0 : forall x, lmol_number x -> nz x = negb (is0_s x).
Proof. intros x H. unfold nz, is0_s, lmol_number in *. destruct (parse_num x) as [[m e]|]; [reflexivity | congruence]. Qed.

Lemma nonzero_flags : forall c, Forall lmol_number c -> mapM lmol_nonzero c = inr (map nz c).
Proof.
  intros c H. apply mapM_map_ok. intros x Hx. rewrite Forall_forall in H. specialize (H x Hx).
  unfold lmol_nonzero, nz, lmol_number in *. destruct (parse_num x) as [[m e]|]; [reflexivity | congruence].
Qed.

Lemma index_true_split : forall fl i, index_true fl = Some i ->
  exists a b, fl = a ++ true :: b /\ List.length a = i /\ Forall (eq false) a.
Proof.
  induction fl as [|x fl IH]; intros i H; [discriminate|]. cbn [index_true] in H. destruct x.
  - inversion H; subst. exists [], fl. repeat split. constructor.
  - destruct (index_true fl) as [j|]; [|discriminate]. cbn [option_map] in H. inversion H; subst.
    destruct (IH j eq_refl) as [a [b [E [L F]]]]. exists (false :: a), b. subst fl. repeat split; cbn [List.length]; auto.
Qed.

Lemma index_true_in : forall fl, In true fl -> exists i, index_true fl = Some i.
Proof.
  induction fl as [|x fl IH]; intros H; [destruct H|]. cbn [index_true]. destruct x; [eauto|].
  destruct H as [H|H]; [discriminate|]. destruct (IH H) as [i ->]. cbn [option_map]. eauto.
Qed.

Lemma first_true_le : forall a b p q, a ++ true :: b = p ++ true :: q -> Forall (eq false) a -> List.length a <= List.length p.
Proof.
  induction a as [|x a IH]; intros b p q E F; [cbn; lia|]. inversion F as [|? ? Hx Fa]; subst.
  destruct p as [|y p]; [discriminate E|]. cbn [app] in E. inversion E; subst. cbn [List.length].
  apply le_n_S. eapply IH; eauto.
Qed.

Lemma skipn_skipn' : forall (A : Type) a b (l : list A), skipn a (skipn b l) = skipn (b + a) l.
Proof.
  intros A a. induction b as [|b IH]; intros l; [reflexivity|]. destruct l as [|x l]; [now rewrite !skipn_nil|].
  cbn [skipn Nat.add]. apply IH.
Qed.

Lemma Forall_firstn' : forall (A : Type) (P : A -> Prop) n l, Forall P l -> Forall P (firstn n l).
Proof. intros A P. induction n as [|n IH]; intros l H; [constructor|]. destruct H; cbn [firstn]; constructor; auto. Qed.
Lemma Forall_skipn' : forall (A : Type) (P : A -> Prop) n l, Forall P l -> Forall P (skipn n l).
Proof. intros A P. induction n as [|n IH]; intros l H; [exact H|]. destruct H; cbn [skipn]; [constructor | auto]. Qed.

(* the three parts of a contraction *)
Definition zero_s (x : string) : Prop := is0_s x = true.

Lemma find_range_split : forall c, Forall lmol_number c -> (exists x, In x c /\ is0_s x = false) ->
  exists f l c1 c2 c3, find_range c = inr (f, l) /\ c = c1 ++ c2 ++ c3 /\ List.length c1 = f /\ c2 = lmol_slice c (f, l) /\
    List.length c2 = S l - f /\ f <= l /\ l < List.length c /\ List.length c3 = List.length c - S l /\
    Forall zero_s c1 /\ Forall zero_s c3.
Proof.
  intros c Hn [x [Hx Hx0]].
  assert (Hin : In true (map nz c)).
  { apply in_map_iff. exists x. split; [|exact Hx]. rewrite Forall_forall in Hn. rewrite (nz_is0 x (Hn x Hx)), Hx0. reflexivity. }
  destruct (index_true_in _ Hin) as [f Ef].
  assert (Hin' : In true (rev (map nz c))) by (apply in_rev; rewrite rev_involutive; exact Hin).
  destruct (index_true_in _ Hin') as [r Er].
  destruct (index_true_split _ _ Ef) as [a [b [Ea [La Fa]]]].
  destruct (index_true_split _ _ Er) as [a' [b' [Ea' [La' Fa']]]].
  assert (Eb : map nz c = rev b' ++ true :: rev a').
  { rewrite <- (rev_involutive (map nz c)), Ea', rev_app_distr. cbn [rev]. rewrite <- app_assoc. reflexivity. }
  assert (Hlen : List.length c = List.length (rev b') + S r).
  { rewrite <- (map_length nz c), Eb, app_length. cbn [List.length]. rewrite (rev_length a'). lia. }
  assert (Hfl : f <= List.length (rev b')).
  { rewrite <- La. apply (first_true_le a b (rev b') (rev a')); [rewrite <- Ea; exact Eb | exact Fa]. }
  set (l := List.length c - r - 1).
  assert (El : l = List.length (rev b')) by (unfold l; lia).
  exists f, l, (firstn f c), (lmol_slice c (f, l)), (skipn (S l) c).
  assert (Hzero : forall d fl, map nz d = fl -> Forall lmol_number d -> Forall (eq false) fl -> Forall zero_s d).
  { induction d as [|y d IHd]; intros fl E Hd F; [constructor|]. inversion Hd; subst. cbn [map] in F. inversion F; subst.
    constructor; [|eapply IHd; eauto]. unfold zero_s. rewrite (nz_is0 y) in *; auto.
    destruct (is0_s y); [reflexivity | discriminate]. }
  split.
  { unfold find_range. rewrite (nonzero_flags c Hn). cbn [bind]. rewrite Ef, Er, map_length. reflexivity. }
  split.
  { unfold lmol_slice. cbn [fst snd].
    rewrite <- (firstn_skipn f c) at 1. f_equal.
    rewrite <- (firstn_skipn (S l - f) (skipn f c)) at 1. f_equal.
    rewrite skipn_skipn'. f_equal. lia. }
  split. { apply firstn_length_le. lia. }
  split; [reflexivity|].
  split. { unfold lmol_slice. cbn [fst snd]. rewrite firstn_length, skipn_length. lia. }
  split; [lia|]. split; [lia|].
  split. { rewrite skipn_length. reflexivity. }
  split.
  - apply (Hzero _ (firstn f (map nz c))); [now rewrite firstn_map | now apply Forall_firstn'|].
    rewrite Ea, <- La, firstn_app, Nat.sub_diag, firstn_all. cbn [firstn]. rewrite app_nil_r. exact Fa.
  - apply (Hzero _ (skipn (S l) (map nz c))); [now rewrite skipn_map | now apply Forall_skipn'|].
    rewrite Eb, El.
    replace (rev b' ++ true :: rev a') with ((rev b' ++ [true]) ++ rev a') by (rewrite <- app_assoc; reflexivity).
    replace (S (List.length (rev b'))) with (List.length (rev b' ++ [true])) by (rewrite app_length; cbn; lia).
    rewrite skipn_app, skipn_all, Nat.sub_diag. cbn [skipn app].
    apply Forall_rev. exact Fa'.
Qed.

(* reshape: the rows are not empty and their concatenation is the data *)
Lemma chunks_spec : forall (A : Type) n fuel (l : list A), 0 < n -> List.length l <= fuel ->
  concat (chunks_fuel fuel n l) = l /\ Forall (fun r => r <> []) (chunks_fuel fuel n l) /\
  (l <> [] -> chunks_fuel fuel n l <> []).
Proof.
  intros A n. induction fuel as [|fuel IH]; intros l Hn Hl.
  - destruct l; [|cbn in Hl; lia]. repeat split; [constructor | congruence].
  - cbn [chunks_fuel]. destruct l as [|x l]; [repeat split; [constructor | congruence]|].
    assert (Hs : List.length (skipn n (x :: l)) <= fuel).
    { rewrite skipn_length. cbn [List.length] in *. lia. }
    destruct (IH (skipn n (x :: l)) Hn Hs) as [E [F _]].
    split; [cbn [concat]; rewrite E; apply firstn_skipn|]. split; [|discriminate].
    constructor; [|exact F]. destruct n; [lia|]. discriminate.
Qed.

Lemma reshape_spec : forall (l : list string), concat (reshape l 5) = l /\ Forall (fun r => r <> []) (reshape l 5) /\
  (l <> [] -> reshape l 5 <> []).
Proof. intros l. unfold reshape. apply chunks_spec; lia. Qed.

(* ================================================================== *)
(* 4. the lines the writer prints                                      *)
(* ================================================================== *)
Definition fr (c : list string) : nat * nat := match find_range c with inr r => r | inl _ => (0, 0) end.
Definition rng_of (s : sshell) : list (nat * nat) := map fr (coefs s).
Definition pdata (s : sshell) : list string := exps s ++ concat (map (fun c => lmol_slice c (fr c)) (coefs s)).
Definition lam_of (s : sshell) : Z := match am s with l :: _ => l | [] => 0%Z end.
Definition ltail (s : sshell) : string :=
  " " +++ nat_str (List.length (exps s)) +++ " " +++ nat_str (List.length (coefs s)) +++
  String.concat "" (map lmol_range_str (rng_of s)).
Definition lhead (bsname : string) (z : Z) (s : sshell) : string :=
  lsym z +++ " " +++ String (lamc (lam_of s)) "" +++ " " +++ bsname +++ " ".
Definition lheader (bsname : string) (z : Z) (s : sshell) : string := lhead bsname z s +++ String ":" (ltail s).
Definition lcomment (z : Z) (shs : list sshell) : string := lname z +++ " " +++ cs_of shs +++ " converted by Basis Set Exchange".
Definition lrows (s : sshell) : list string := map (sjoin " ") (reshape (pdata s) 5).
Definition lsh_lines (bsname : string) (z : Z) (shs : list sshell) (s : sshell) : list string :=
  lheader bsname z s :: lcomment z shs :: lrows s.
Definition lel_lines (bsname : string) (zs : Z * list sshell) : list string :=
  flat_map (lsh_lines bsname (fst zs) (snd zs)) (snd zs).
Definition lall_lines (harm bsname : string) (els : list (Z * list sshell)) : list string :=
  match els with [] => [harm] | _ => harm :: "basis={" :: flat_map (lel_lines bsname) els end.

Definition lel_ok (zs : Z * list sshell) : Prop := (1 <= fst zs <= 118)%Z /\ snd zs <> [] /\ Forall lmol_shell_ok (snd zs).

Lemma lmol_nw_ok : forall s, lmol_shell_ok s -> nw_shell_ok s.
Proof.
  intros s [He [[l [Ea Hl]] [Hc [Hlen [Hfe [Hfc _]]]]]]. unfold nw_shell_ok. rewrite Ea.
  split; [exact He|]. split; [discriminate|]. split; [repeat constructor; lia|]. split; [exact Hc|].
  split; [exact Hlen|]. split; [cbn; lia|]. split; assumption.
Qed.

Lemma col_facts : forall s c, lmol_shell_ok s -> In c (coefs s) ->
  Forall lmol_number c /\ (exists x, In x c /\ is0_s x = false) /\ Forall floating c /\ List.length c = List.length (exps s).
Proof.
  intros s c [_ [_ [_ [Hlen [_ [Hfc [Hn Hz]]]]]]] Hin.
  split; [exact (proj1 (Forall_forall _ _) Hn c Hin)|]. split; [exact (proj1 (Forall_forall _ _) Hz c Hin)|].
  split; [exact (proj1 (Forall_forall _ _) Hfc c Hin) | exact (proj1 (Forall_forall _ _) Hlen c Hin)].
Qed.

Lemma find_range_fr : forall s c, lmol_shell_ok s -> In c (coefs s) -> find_range c = inr (fr c).
Proof.
  intros s c Hs Hin. destruct (col_facts s c Hs Hin) as [Hn [Hz _]].
  destruct (find_range_split c Hn Hz) as [f [l [c1 [c2 [c3 [E _]]]]]]. unfold fr. now rewrite E.
Qed.

Lemma combine_map_self : forall (A B C : Type) (f : A -> B) (g : A * B -> C) l,
  map g (combine l (map f l)) = map (fun a => g (a, f a)) l.
Proof. intros A B C f g. induction l as [|a l IH]; [reflexivity|]. cbn [map combine]. now rewrite IH. Qed.

Lemma write_shell_lines : forall bsname z shs s, lmol_shell_ok s -> Forall lmol_shell_ok shs ->
  lmol_write_shell bsname (lsym z) (lname z) shs s = inr (unlines (lsh_lines bsname z shs s)).
Proof.
  intros bsname z shs s Hs Hshs. unfold lmol_write_shell.
  pose proof Hs as [_ [[l [Ea Hl]] _]].
  destruct (lam_facts l Hl) as [a [E1 [E2 _]]]. rewrite Ea, E1. cbn [bind].
  assert (Er : mapM find_range (coefs s) = inr (rng_of s)).
  { apply mapM_map_ok. intros c Hc. exact (find_range_fr s c Hs Hc). }
  rewrite Er. cbn [bind].
  assert (Hnw : Forall nw_shell_ok shs) by (eapply Forall_impl; [|exact Hshs]; exact lmol_nw_ok).
  destruct (cs_facts shs Hnw) as [Ec _]. rewrite Ec. cbn [bind]. unfold ok. f_equal.
  unfold lsh_lines. rewrite !unlines_cons. unfold lheader, lhead, ltail, lcomment, lam_of. rewrite Ea, E2.
  unfold rng_of. rewrite combine_map_self. cbn [fst snd]. fold (pdata s).
  unfold lrows, unlines. rewrite !map_map. repeat (progress (rewrite ?sapp_assoc; cbn [String.append])). reflexivity.
Qed.

Lemma write_element_lines : forall bsname zs, lel_ok zs -> lmol_write_element bsname zs = inr (unlines (lel_lines bsname zs)).
Proof.
  intros bsname [z shs] [Hz [_ Hs]]. cbn [fst snd] in *. unfold lmol_write_element.
  destruct (lsym_facts z Hz) as [E1 [E2 [E3 _]]]. rewrite E1, E3. cbn [bind]. rewrite E2.
  rewrite (mapM_map_ok _ _ (lmol_write_shell bsname (lsym z) (lname z) shs) (fun s => unlines (lsh_lines bsname z shs s))).
  - cbn [bind]. unfold ok, lel_lines. cbn [fst snd]. rewrite unlines_flat_map. reflexivity.
  - intros s Hin. apply write_shell_lines; [|exact Hs]. rewrite Forall_forall in Hs. auto.
Qed.

Lemma lmol_ok_els : forall harm bsname els, lmol_ok harm bsname els -> Forall lel_ok els.
Proof. intros harm bsname els [_ [_ [_ H]]]. exact H. Qed.

Lemma write_electron_lines : forall harm bsname els, lmol_ok harm bsname els ->
  lmol_write_electron harm bsname els = inr (unlines (lall_lines harm bsname els)).
Proof.
  intros harm bsname els H. pose proof (lmol_ok_els _ _ _ H) as Hel. unfold lmol_write_electron, lall_lines.
  destruct els as [|e els]; [reflexivity|].
  rewrite (mapM_map_ok _ _ (lmol_write_element bsname) (fun zs => unlines (lel_lines bsname zs))).
  - cbn [bind]. unfold ok. rewrite unlines_flat_map, !unlines_cons. reflexivity.
  - intros zs Hin. apply write_element_lines. rewrite Forall_forall in Hel. auto.
Qed.

Lemma lmol_write_total : lmol_write_total_stmt.
Proof. intros harm bsname els H. eexists. apply write_electron_lines. exact H. Qed.

(* ================================================================== *)
(* 5. every written line survives splitlines and prune_lines           *)
(* ================================================================== *)
Definition lline_ok (l : string) : Prop := good_line l /\ keep_line l.

Lemma name_char_nobd : forall c, lmol_name_char c = true -> nobd c = true.
Proof. intros c H. all_chars c; try reflexivity; discriminate H. Qed.
Lemma name_char_not_odd : forall c, lmol_name_char c = true -> odd_space c = false.
Proof. intros c H. all_chars c; try reflexivity; discriminate H. Qed.
Lemma name_char_not_colon : forall c, lmol_name_char c = true -> Ascii.eqb c ":" = false.
Proof. intros c H. all_chars c; try reflexivity; discriminate H. Qed.
Lemma alpha_not_odd : forall c, is_alpha c = true -> odd_space c = false.
Proof. intros c H. all_chars c; try reflexivity; discriminate H. Qed.
Lemma alpha_not_colon : forall c, is_alpha c = true -> Ascii.eqb c ":" = false.
Proof. intros c H. all_chars c; try reflexivity; discriminate H. Qed.
Lemma alpha_not_bang : forall c, is_alpha c = true -> Ascii.eqb c "!" = false.
Proof. intros c H. all_chars c; try reflexivity; discriminate H. Qed.
Lemma digit_not_space : forall c, is_digit c = true -> is_space c = false.
Proof. intros c H. all_chars c; try reflexivity; discriminate H. Qed.
Lemma digit_not_rspace : forall c, is_digit c = true -> is_rspace c = false.
Proof. intros c H. all_chars c; try reflexivity; discriminate H. Qed.
Lemma fchar_not_bang : forall c, fchar c = true -> Ascii.eqb c "!" = false.
Proof. intros c H. all_chars c; try reflexivity; discriminate H. Qed.
Lemma fchar_not_odd : forall c, fchar c = true -> odd_space c = false.
Proof. intros c H. all_chars c; try reflexivity; discriminate H. Qed.
Lemma fchar_not_colon : forall c, fchar c = true -> Ascii.eqb c ":" = false.
Proof. intros c H. all_chars c; try reflexivity; discriminate H. Qed.

Lemma keep_of_ends : forall l c r, l = String c r -> Ascii.eqb c "!" = false -> ends_ok l -> keep_line l.
Proof.
  intros l c r E Hc He. split; [now apply strip_ends|]. split; [rewrite E; discriminate|].
  rewrite E. cbn [first_in sany]. rewrite Hc. reflexivity.
Qed.

Lemma ranges_last : forall rs X, rs <> [] ->
  exists d y, srev (X +++ String.concat "" (map lmol_range_str rs)) = String d y /\ is_digit d = true.
Proof.
  induction rs as [|r rs IH]; intros X Hne; [congruence|]. cbn [map]. rewrite concat_cons.
  destruct rs as [|r' rs'].
  - cbn [map String.concat]. rewrite sapp_nil_r. unfold lmol_range_str.
    replace (X +++ " " +++ nat_str (S (fst r)) +++ "." +++ nat_str (S (snd r)))
      with ((X +++ " " +++ nat_str (S (fst r)) +++ ".") +++ nat_str (S (snd r))) by (now rewrite !sapp_assoc).
    apply last_char; [apply nat_str_ne | apply nat_str_digits].
  - rewrite <- sapp_assoc. apply IH. discriminate.
Qed.

Lemma range_str_nobd : forall r, sall nobd (lmol_range_str r) = true.
Proof. intros r. unfold lmol_range_str. rewrite !sall_app, !nat_str_nobd. reflexivity. Qed.
Lemma ranges_nobd : forall rs, sall nobd (String.concat "" (map lmol_range_str rs)) = true.
Proof.
  induction rs as [|r rs IH]; [reflexivity|]. cbn [map]. rewrite concat_cons, sall_app, range_str_nobd, IH. reflexivity.
Qed.

Lemma name_nobd : forall n, lmol_name_ok n -> sall nobd n = true.
Proof. intros n [H _]. apply (sall_impl lmol_name_char); [exact name_char_nobd | exact H]. Qed.

Lemma header_ok : forall bsname z s, lmol_name_ok bsname -> (1 <= z <= 118)%Z -> lmol_shell_ok s ->
  lline_ok (lheader bsname z s).
Proof.
  intros bsname z s Hn Hz Hs. destruct (lsym_facts z Hz) as [_ [_ [_ [Hne [Hal _]]]]].
  pose proof Hs as [_ [[l [Ea Hl]] [Hc _]]]. destruct (lam_facts l Hl) as [a [_ [_ [_ [Hamc _]]]]].
  split.
  - unfold good_line, lheader, lhead, ltail, lam_of. rewrite Ea. cbn [String.append sall].
    repeat (progress (cbn [String.append sall]; rewrite ?sall_app, ?nat_str_nobd)). rewrite ranges_nobd, (name_nobd _ Hn).
    rewrite (sall_impl is_alpha nobd _ alpha_nobd Hal), (alpha_nobd _ Hamc). reflexivity.
  - destruct (first_char is_alpha (lsym z) (" " +++ String (lamc (lam_of s)) "" +++ " " +++ bsname +++ " " +++ String ":" (ltail s)) Hne Hal)
      as [c [r [E Hcc]]].
    assert (E' : lheader bsname z s = String c r).
    { rewrite <- E. unfold lheader, lhead. now rewrite !sapp_assoc. }
    apply (keep_of_ends _ c r E' (alpha_not_bang c Hcc)). split.
    + exists c, r. split; [exact E' | now apply alpha_not_space].
    + unfold lheader, ltail.
      assert (Hr : rng_of s <> []) by (unfold rng_of; destruct (coefs s); [congruence | discriminate]).
      destruct (ranges_last (rng_of s) (lhead bsname z s +++ String ":" (" " +++ nat_str (List.length (exps s)) +++ " " +++
                   nat_str (List.length (coefs s)))) Hr) as [d [y [Ed Hd]]].
      exists d, y. split; [|now apply digit_not_space]. rewrite <- Ed. f_equal.
      rewrite !sapp_assoc. cbn [String.append]. rewrite !sapp_assoc. reflexivity.
Qed.

Lemma comment_ok : forall z shs, (1 <= z <= 118)%Z -> Forall lmol_shell_ok shs -> lline_ok (lcomment z shs).
Proof.
  intros z shs Hz Hs. destruct (lsym_facts z Hz) as [_ [_ [_ [_ [_ [_ [_ [Hne Hal]]]]]]]].
  assert (Hnw : Forall nw_shell_ok shs) by (eapply Forall_impl; [|exact Hs]; exact lmol_nw_ok).
  destruct (cs_facts shs Hnw) as [_ Hg]. unfold good_line, comment_line in Hg. rewrite sall_app in Hg.
  apply andb_true_iff in Hg. destruct Hg as [_ Hcs].
  split.
  - unfold good_line, lcomment. rewrite !sall_app, Hcs, (sall_impl is_alpha nobd _ alpha_nobd Hal). reflexivity.
  - destruct (first_char is_alpha (lname z) (" " +++ cs_of shs +++ " converted by Basis Set Exchange") Hne Hal) as [c [r [E Hcc]]].
    apply (keep_of_ends _ c r E (alpha_not_bang c Hcc)). split.
    + exists c, r. split; [exact E | now apply alpha_not_space].
    + unfold lcomment. rewrite <- !sapp_assoc, srev_app.
      set (w := srev " converted by Basis Set Exchange"). vm_compute in w. subst w.
      eexists _, _. split; [reflexivity | reflexivity].
Qed.

Lemma floating_tok : forall x, floating x -> tok_ok x.
Proof. intros x H. destruct (floating_is_cell x H) as [H1 [H2 _]]. split; assumption. Qed.
Lemma floating_nobd : forall x, floating x -> sall nobd x = true.
Proof. intros x H. apply (cell_nobd (CStr x)); [exact (floating_is_cell x H) | exact (floating_ascii x H)]. Qed.

Lemma Forall_concat_inv : forall (A : Type) (P : A -> Prop) rows, Forall P (concat rows) -> Forall (Forall P) rows.
Proof.
  intros A P. induction rows as [|r rows IH]; intros H; [constructor|]. cbn [concat] in H.
  apply Forall_app in H. destruct H as [H1 H2]. constructor; auto.
Qed.

Lemma pdata_floating : forall s, lmol_shell_ok s -> Forall floating (pdata s).
Proof.
  intros s Hs. pose proof Hs as [_ [_ [_ [_ [Hfe [Hfc _]]]]]]. unfold pdata. apply Forall_app. split; [exact Hfe|].
  apply concat_Forall. rewrite Forall_forall. intros r Hr. apply in_map_iff in Hr. destruct Hr as [c [<- Hc]].
  unfold lmol_slice. apply Forall_firstn', Forall_skipn'. rewrite Forall_forall in Hfc. auto.
Qed.

Lemma rows_floating : forall s, lmol_shell_ok s -> Forall (fun r => r <> [] /\ Forall floating r) (reshape (pdata s) 5).
Proof.
  intros s Hs. destruct (reshape_spec (pdata s)) as [E [F _]].
  pose proof (pdata_floating s Hs) as H. rewrite <- E in H. apply Forall_concat_inv in H.
  rewrite Forall_forall in *. intros r Hr. split; auto.
Qed.

Lemma row_line_ok : forall r, r <> [] -> Forall floating r -> lline_ok (sjoin " " r).
Proof.
  intros r Hne Hf. destruct r as [|x r]; [congruence|]. inversion Hf as [|? ? Hx Hr]; subst.
  assert (Hw : Forall (fun w => w <> "" /\ sall fchar w = true) (x :: r)).
  { eapply Forall_impl; [|exact Hf]. intros w Hw. split; [apply (floating_tok w Hw) | now apply floating_chars]. }
  split.
  - unfold good_line. apply sjoin_sall; [reflexivity|]. eapply Forall_impl; [|exact Hf]. exact floating_nobd.
  - destruct (sjoin_first fchar x r (proj1 (floating_tok x Hx)) (floating_chars x Hx)) as [c [t [E Hc]]].
    apply (keep_of_ends _ c t E (fchar_not_bang c Hc)). split.
    + exists c, t. split; [exact E | now apply fchar_not_space].
    + destruct (sjoin_last fchar (x :: r) ltac:(discriminate) Hw) as [d [y [Ed Hd]]].
      exists d, y. split; [exact Ed | now apply fchar_not_space].
Qed.

Lemma rows_ok : forall s, lmol_shell_ok s -> Forall lline_ok (lrows s).
Proof.
  intros s Hs. unfold lrows. pose proof (rows_floating s Hs) as H. rewrite Forall_forall in *.
  intros l Hl. apply in_map_iff in Hl. destruct Hl as [r [<- Hr]]. destruct (H r Hr). now apply row_line_ok.
Qed.

Lemma all_lines_ok : forall harm bsname els, lmol_ok harm bsname els -> Forall lline_ok (lall_lines harm bsname els).
Proof.
  intros harm bsname els [Hh [Hn [_ Hel]]].
  assert (Hlit : forall l, l = "spherical" \/ l = "cartesian" \/ l = "basis={" -> lline_ok l).
  { intros l [-> | [-> | ->]]; (split; [reflexivity | split; [reflexivity | split; [discriminate | reflexivity]]]). }
  assert (Hharm : lline_ok harm) by (apply Hlit; tauto).
  assert (Hb : lline_ok "basis={") by (apply Hlit; tauto).
  unfold lall_lines. destruct els as [|e els]; [constructor; [exact Hharm | constructor]|].
  constructor; [exact Hharm|]. constructor; [exact Hb|].
  generalize dependent (e :: els). clear e els. intros els Hel.
  apply Forall_forall. intros l Hl. apply in_flat_map in Hl. destruct Hl as [[z shs] [Hzs Hl]].
  rewrite Forall_forall in Hel. destruct (Hel _ Hzs) as [Hz [_ Hs]]. cbn [fst snd] in *.
  unfold lel_lines in Hl. cbn [fst snd] in Hl. apply in_flat_map in Hl. destruct Hl as [s [Hs' Hl]].
  assert (Hsok : lmol_shell_ok s) by (rewrite Forall_forall in Hs; auto).
  destruct Hl as [<- | [<- | Hl]].
  - now apply header_ok.
  - now apply comment_ok.
  - pose proof (rows_ok s Hsok) as Hr. rewrite Forall_forall in Hr. auto.
Qed.

(* the lines the reader works on *)
Lemma read_lines : forall harm bsname els t, lmol_ok harm bsname els -> lmol_write_electron harm bsname els = inr t ->
  splitlines t = lall_lines harm bsname els /\
  prune_lines (splitlines t) "!" true true = lall_lines harm bsname els.
Proof.
  intros harm bsname els t H Ht. rewrite (write_electron_lines _ _ _ H) in Ht. inversion Ht; subst t.
  pose proof (all_lines_ok _ _ _ H) as Hok.
  assert (E : splitlines (unlines (lall_lines harm bsname els)) = lall_lines harm bsname els).
  { apply splitlines_unlines. eapply Forall_impl; [|exact Hok]. intros l [Hg _]. exact Hg. }
  split; [exact E|]. rewrite E. apply prune_keep. eapply Forall_impl; [|exact Hok]. intros l [_ Hk]. exact Hk.
Qed.

(* ================================================================== *)
(* 6. the reader's header expression on a written header               *)
(* ================================================================== *)
Definition no_digit_head (r : string) : Prop := match r with String c _ => is_digit c = false | EmptyString => True end.

Lemma digit_prefixes_nil : forall r, no_digit_head r -> digit_prefixes r = [].
Proof. intros [|c r] H; [reflexivity|]. cbn in H. cbn [digit_prefixes]. now rewrite H. Qed.

Lemma digit_prefixes_head : forall w r, w <> "" -> sall is_digit w = true -> no_digit_head r ->
  exists tl, digit_prefixes (w +++ r) = (w, r) :: tl.
Proof.
  induction w as [|c w IH]; intros r Hne Hw Hr; [congruence|]. cbn [sall] in Hw. apply andb_true_iff in Hw.
  destruct Hw as [Hc Hw]. cbn [String.append digit_prefixes]. rewrite Hc. destruct w as [|c' w'].
  - cbn [String.append]. rewrite (digit_prefixes_nil r Hr). cbn [map app]. eauto.
  - destruct (IH r ltac:(discriminate) Hw Hr) as [tl E]. rewrite E. cbn [map app fst snd]. eauto.
Qed.

Lemma lstrip_rs_digits : forall w x, w <> "" -> sall is_digit w = true -> lstrip_rs (w +++ x) = w +++ x.
Proof.
  intros [|c w] x Hne Hw; [congruence|]. cbn [sall] in Hw. apply andb_true_iff in Hw. destruct Hw as [Hc _].
  cbn [String.append lstrip_rs]. now rewrite (digit_not_rspace c Hc).
Qed.

Lemma lstrip_rs_idem : forall s, lstrip_rs (lstrip_rs s) = lstrip_rs s.
Proof. induction s as [|c s IH]; [reflexivity|]. cbn [lstrip_rs]. destruct (is_rspace c) eqn:E; [exact IH|]. cbn [lstrip_rs]. now rewrite E. Qed.

Definition triple (r : nat * nat) : string * ascii * string := (nat_str (S (fst r)), "."%char, nat_str (S (snd r))).
Definition rtext (rs : list (nat * nat)) : string := String.concat "" (map lmol_range_str rs).

Lemma rtext_cons : forall r rs, rtext (r :: rs) = " " +++ nat_str (S (fst r)) +++ "." +++ nat_str (S (snd r)) +++ rtext rs.
Proof. intros r rs. unfold rtext. cbn [map]. rewrite concat_cons. unfold lmol_range_str. now rewrite !sapp_assoc. Qed.

Lemma rtext_head : forall rs, no_digit_head (rtext rs).
Proof. intros [|r rs]; [exact I|]. rewrite rtext_cons. reflexivity. Qed.

Lemma match_ranges_nil : forall fuel, match_ranges fuel "" = None.
Proof. intros [|f]; reflexivity. Qed.

Lemma match_ranges_ok : forall rs fuel s, rs <> [] -> List.length rs <= fuel -> lstrip_rs s = lstrip_rs (rtext rs) ->
  match_ranges fuel s = Some (map triple rs).
Proof.
  induction rs as [|r rs IH]; intros fuel s Hne Hf Hs; [congruence|].
  destruct fuel as [|f]; [cbn in Hf; lia|]. cbn [match_ranges]. rewrite Hs, rtext_cons.
  change (lstrip_rs (" " +++ nat_str (S (fst r)) +++ "." +++ nat_str (S (snd r)) +++ rtext rs))
    with (lstrip_rs (nat_str (S (fst r)) +++ "." +++ nat_str (S (snd r)) +++ rtext rs)).
  rewrite (lstrip_rs_digits _ _ (nat_str_ne _) (nat_str_digits _)).
  destruct (digit_prefixes_head (nat_str (S (fst r))) ("." +++ nat_str (S (snd r)) +++ rtext rs) (nat_str_ne _) (nat_str_digits _) eq_refl)
    as [tl1 E1].
  rewrite E1. cbn [first_some fst snd String.append].
  change (beq "." 10) with false. cbv iota.
  destruct (digit_prefixes_head (nat_str (S (snd r))) (rtext rs) (nat_str_ne _) (nat_str_digits _) (rtext_head rs)) as [tl2 E2].
  rewrite E2. cbn [first_some fst snd].
  destruct rs as [|r' rs'].
  - change (rtext []) with "". cbn [lstrip_rs]. rewrite match_ranges_nil. reflexivity.
  - rewrite (IH f (lstrip_rs (rtext (r' :: rs')))); [reflexivity | discriminate | cbn [List.length] in *; lia | apply lstrip_rs_idem].
Qed.

Lemma rtext_len : forall rs, List.length rs <= String.length (rtext rs).
Proof.
  induction rs as [|r rs IH]; [apply Nat.le_0_l|]. rewrite rtext_cons, !slen_app. cbn [String.length List.length]. lia.
Qed.

Lemma tail_match : forall s, coefs s <> [] ->
  match_shell_tail (ltail s) = Some (nat_str (List.length (exps s)), nat_str (List.length (coefs s)), map triple (rng_of s)).
Proof.
  intros s Hc. unfold match_shell_tail, ltail. fold (rtext (rng_of s)).
  assert (Hr : rng_of s <> []) by (unfold rng_of; destruct (coefs s); [congruence | discriminate]).
  change (lstrip_rs (" " +++ nat_str (List.length (exps s)) +++ " " +++ nat_str (List.length (coefs s)) +++ rtext (rng_of s)))
    with (lstrip_rs (nat_str (List.length (exps s)) +++ " " +++ nat_str (List.length (coefs s)) +++ rtext (rng_of s))).
  rewrite (lstrip_rs_digits _ _ (nat_str_ne _) (nat_str_digits _)).
  destruct (digit_prefixes_head (nat_str (List.length (exps s))) (" " +++ nat_str (List.length (coefs s)) +++ rtext (rng_of s))
              (nat_str_ne _) (nat_str_digits _) eq_refl) as [tl1 E1].
  rewrite E1. cbn [first_some fst snd].
  change (lstrip_rs (" " +++ nat_str (List.length (coefs s)) +++ rtext (rng_of s)))
    with (lstrip_rs (nat_str (List.length (coefs s)) +++ rtext (rng_of s))).
  rewrite (lstrip_rs_digits _ _ (nat_str_ne _) (nat_str_digits _)).
  destruct (digit_prefixes_head (nat_str (List.length (coefs s))) (rtext (rng_of s)) (nat_str_ne _) (nat_str_digits _) (rtext_head _))
    as [tl2 E2].
  rewrite E2. cbn [first_some fst snd].
  rewrite (match_ranges_ok (rng_of s) _ (rtext (rng_of s)) Hr); [reflexivity | | reflexivity].
  pose proof (rtext_len (rng_of s)). lia.
Qed.

Lemma split_colon_app : forall a t, sall (fun c => negb (Ascii.eqb c ":")) a = true -> split_colon (a +++ String ":" t) = Some (a, t).
Proof.
  induction a as [|c a IH]; intros t H.
  - reflexivity.
  - cbn [sall] in H. apply andb_true_iff in H. destruct H as [Hc Ha]. apply negb_true_iff in Hc.
    cbn [String.append split_colon]. rewrite Hc, (IH t Ha). reflexivity.
Qed.

Lemma split_colon_none : forall a, sall (fun c => negb (Ascii.eqb c ":")) a = true -> split_colon a = None.
Proof.
  induction a as [|c a IH]; intros H; [reflexivity|].
  cbn [sall] in H. apply andb_true_iff in H. destruct H as [Hc Ha]. apply negb_true_iff in Hc.
  cbn [split_colon]. rewrite Hc, (IH Ha). reflexivity.
Qed.

Lemma lhead_chars : forall bsname z s, lmol_name_ok bsname -> (1 <= z <= 118)%Z -> lmol_shell_ok s ->
  sall lmol_name_char (lhead bsname z s) = true.
Proof.
  intros bsname z s [Hn _] Hz Hs. destruct (lsym_facts z Hz) as [_ [_ [_ [_ [Hal _]]]]].
  pose proof Hs as [_ [[l [Ea Hl]] _]]. destruct (lam_facts l Hl) as [a [_ [_ [_ [Hamc _]]]]].
  assert (Hsub : forall c, is_alpha c = true -> lmol_name_char c = true).
  { intros c Hc. unfold lmol_name_char, is_name_char. now rewrite Hc. }
  unfold lhead, lam_of. rewrite Ea. rewrite !sall_app. cbn [sall].
  rewrite (sall_impl is_alpha lmol_name_char _ Hsub Hal), (Hsub _ Hamc), Hn. reflexivity.
Qed.

Lemma span_word_alpha : forall a r, sall is_alpha a = true -> span_word (a +++ String " " r) = (a, String " " r).
Proof.
  induction a as [|c a IH]; intros r H; [reflexivity|]. cbn [sall] in H. apply andb_true_iff in H. destruct H as [Hc Ha].
  cbn [String.append span_word]. rewrite (ElementsSpec.alpha_word c Hc), (IH r Ha). reflexivity.
Qed.

Lemma head_match : forall bsname z s, lmol_name_ok bsname -> (1 <= z <= 118)%Z -> lmol_shell_ok s ->
  match_shell_head (lhead bsname z s) = Some (lsym z, lamc (lam_of s)).
Proof.
  intros bsname z s Hn Hz Hs. pose proof (lhead_chars bsname z s Hn Hz Hs) as Hch.
  destruct (lsym_facts z Hz) as [_ [_ [_ [Hne [Hal _]]]]].
  pose proof Hs as [_ [[l [Ea Hl]] _]]. destruct (lam_facts l Hl) as [a [_ [_ [Ham [Hamc _]]]]].
  destruct Hn as [_ [Ht1 Ht2]].
  unfold match_shell_head. rewrite (sall_sany_false lmol_name_char odd_space _ name_char_not_odd Hch).
  unfold lhead, lam_of. rewrite Ea.
  rewrite (lstrip_word (lsym z) _ (alpha_word_tok _ Hne Hal)).
  change (lsym z +++ " " +++ String (lamc l) "" +++ " " +++ bsname +++ " ")
    with (lsym z +++ String " " (String (lamc l) (" " +++ bsname +++ " "))).
  rewrite (span_word_alpha _ _ Hal). destruct (lsym z) as [|c0 s0] eqn:Es; [congruence|].
  change (is_space " ") with true. cbv iota. cbn [lstrip_ws]. change (is_space " ") with true. cbv iota.
  rewrite (alpha_not_space _ Hamc), Ham.
  assert (Et : tokens_acc (" " +++ bsname +++ " ") "" = tokens_acc bsname "").
  { change (" " +++ bsname +++ " ") with (sp 1 +++ bsname +++ " "). rewrite tokens_sp.
    apply (tokens_trail " " eq_refl). }
  rewrite Et. destruct (tokens_acc bsname "") as [|t ts]; [congruence|]. rewrite Ht2. reflexivity.
Qed.

Lemma header_match : forall bsname z s, lmol_name_ok bsname -> (1 <= z <= 118)%Z -> lmol_shell_ok s ->
  match_shell_line (lheader bsname z s) =
    Some (lsym z, lamc (lam_of s), nat_str (List.length (exps s)), nat_str (List.length (coefs s)), map triple (rng_of s)).
Proof.
  intros bsname z s Hn Hz Hs. unfold match_shell_line, lheader.
  rewrite split_colon_app.
  - rewrite (head_match bsname z s Hn Hz Hs). destruct Hs as [_ [_ [Hc _]]]. rewrite (tail_match s Hc). reflexivity.
  - apply (sall_impl lmol_name_char); [|now apply lhead_chars]. intros c Hc. now rewrite (name_char_not_colon c Hc).
Qed.

(* ================================================================== *)
(* 7. lines that are no headers                                        *)
(* ================================================================== *)
Definition ncol (c : ascii) : bool := negb (Ascii.eqb c ":").

Lemma no_colon_skip : forall l, sall ncol l = true -> match_shell_line l = None /\ match_ecp_line l = None.
Proof. intros l H. unfold match_shell_line, match_ecp_line. rewrite (split_colon_none l H). split; reflexivity. Qed.

Lemma digit_ncol : forall k, k < 10 -> ncol (digit_char k) = true.
Proof. intros k H. do 10 (destruct k as [|k]; [reflexivity|]). lia. Qed.
Lemma alpha_ncol : forall c, is_alpha c = true -> ncol c = true.
Proof. intros c H. unfold ncol. now rewrite (alpha_not_colon c H). Qed.
Lemma nat_str_ncol : forall n, sall ncol (nat_str n) = true.
Proof. intros n. unfold nat_str, N_to_string. apply pdf_chars; [exact digit_ncol | reflexivity]. Qed.

Lemma cstr_parts_ncol : forall m prim cont, cm_ok m -> sall ncol prim = true -> sall ncol cont = true ->
  exists p c, cstr_parts false m prim cont = inr (p, c) /\ sall ncol p = true /\ sall ncol c = true.
Proof.
  induction m as [|[a [np nc]] m IH]; intros prim cont Hm Hp Hc.
  - exists prim, cont. repeat split; assumption.
  - inversion Hm as [|? ? Ha Hm']; subst. cbn [fst] in Ha.
    destruct (am_letter a Ha) as [c [Ec [Hcc _]]].
    assert (Ech : amint_to_char [a] false false = inr (String c "")).
    { unfold amint_to_char. cbn [andb amchar_map amint_chars]. assert (En : (a <? 0)%Z = false) by lia. now rewrite En, Ec. }
    cbn [cstr_parts]. rewrite Ech. unfold bind.
    apply IH; [exact Hm' | |]; rewrite !sall_app, ?Hp, ?Hc, nat_str_ncol; cbn [sall]; rewrite (alpha_ncol c Hcc);
      destruct (negb (a =? 0)%Z && negb false); reflexivity.
Qed.

Lemma cs_ncol : forall shs, Forall nw_shell_ok shs -> sall ncol (cs_of shs) = true.
Proof.
  intros shs H.
  assert (Hm : cm_ok (sort_cmap (cmap (map nw_cshell shs)))).
  { apply sort_cmap_ok. unfold cmap. apply cmap_ok; [|constructor].
    rewrite Forall_forall in *. intros sh Hin. apply in_map_iff in Hin. destruct Hin as [s [<- Hs]].
    unfold nw_cshell. cbn [fst]. destruct (H s Hs) as [_ [_ [Ha _]]]. exact Ha. }
  destruct (cstr_parts_ncol _ "" "" Hm eq_refl eq_refl) as [p [c [E [Hp Hc]]]].
  unfold cs_of, contraction_string. rewrite E. unfold bind, ok. cbv iota beta. rewrite !sall_app, Hp, Hc. reflexivity.
Qed.

Lemma comment_skip : forall z shs, (1 <= z <= 118)%Z -> Forall lmol_shell_ok shs ->
  match_shell_line (lcomment z shs) = None /\ match_ecp_line (lcomment z shs) = None.
Proof.
  intros z shs Hz Hs. apply no_colon_skip. destruct (lsym_facts z Hz) as [_ [_ [_ [_ [_ [_ [_ [_ Hal]]]]]]]].
  assert (Hnw : Forall nw_shell_ok shs) by (eapply Forall_impl; [|exact Hs]; exact lmol_nw_ok).
  unfold lcomment. rewrite !sall_app, (cs_ncol shs Hnw), (sall_impl is_alpha ncol _ alpha_ncol Hal). reflexivity.
Qed.

Lemma row_skip : forall r, Forall floating r -> match_shell_line (sjoin " " r) = None /\ match_ecp_line (sjoin " " r) = None.
Proof.
  intros r H. apply no_colon_skip. apply sjoin_sall; [reflexivity|]. eapply Forall_impl; [|exact H].
  intros x Hx. apply (sall_impl fchar ncol); [|now apply floating_chars]. intros c Hc. unfold ncol. now rewrite (fchar_not_colon c Hc).
Qed.

(* ================================================================== *)
(* 8. the numbers of a shell                                           *)
(* ================================================================== *)
Lemma floating_point : forall x, floating x -> add_point x = x.
Proof. intros x H. destruct (floating_is_cell x H) as [_ [_ Hp]]. unfold add_point. now rewrite Hp. Qed.

Lemma entry_row : forall r, r <> [] -> Forall floating r -> entry_vals (sjoin " " r) = inr r.
Proof.
  intros r Hne Hf. unfold entry_vals.
  assert (Hodd : sany odd_space (sjoin " " r) = false).
  { apply (sall_sany_false (fun c => negb (odd_space c))); [intros c Hc; now apply negb_true_iff|].
    apply sjoin_sall; [reflexivity|]. eapply Forall_impl; [|exact Hf]. intros x Hx.
    apply (sall_impl fchar); [|now apply floating_chars]. intros c Hc. now rewrite (fchar_not_odd c Hc). }
  rewrite Hodd, tokens_sjoin by (eapply Forall_impl; [|exact Hf]; exact floating_tok).
  destruct r as [|x r]; [congruence|].
  rewrite (mapM_map_ok _ _ word_vals (fun t => [t])).
  - cbn [bind]. unfold ok. f_equal. generalize (x :: r). clear. induction l as [|a l IH]; [reflexivity|]. cbn [map concat app]. now rewrite IH.
  - intros t Ht. rewrite Forall_forall in Hf. unfold word_vals. rewrite (Hf t Ht). reflexivity.
Qed.

Lemma map_id_on : forall (A : Type) (f : A -> A) l, (forall x, In x l -> f x = x) -> map f l = l.
Proof. intros A f. induction l as [|a l IH]; intros H; [reflexivity|]. cbn [map]. rewrite H, IH; auto using in_eq, in_cons. Qed.

Lemma read_entries_step : forall p l t n acc,
  lmol_read_entries (p :: l :: t) n acc =
    if (n <=? Z.of_nat (List.length acc))%Z then ok (acc, p :: l :: t)
    else do vs <- entry_vals l; lmol_read_entries (l :: t) n (acc ++ map add_point vs).
Proof. reflexivity. Qed.
Lemma read_entries_stop : forall cur n acc, (n <=? Z.of_nat (List.length acc))%Z = true -> lmol_read_entries cur n acc = inr (acc, cur).
Proof. intros [|p t] n acc H; cbn [lmol_read_entries]; now rewrite H. Qed.

Lemma read_rows : forall rows prev acc rest nread,
  Forall (fun r => r <> [] /\ Forall floating r) rows -> rows <> [] ->
  nread = Z.of_nat (List.length acc + List.length (concat rows)) ->
  exists row, In row rows /\
    lmol_read_entries (prev :: map (sjoin " ") rows ++ rest) nread acc = inr (acc ++ concat rows, sjoin " " row :: rest).
Proof.
  induction rows as [|r rows IH]; intros prev acc rest nread Hr Hne Hn; [congruence|].
  destruct (Forall_inv Hr) as [Hr1 Hr2]. pose proof (Forall_inv_tail Hr) as Hrows.
  assert (Hlen : 0 < List.length r) by (destruct r; [congruence | cbn; lia]).
  cbn [concat] in Hn. rewrite app_length in Hn.
  cbn [map app]. rewrite read_entries_step.
  assert (E1 : (nread <=? Z.of_nat (List.length acc))%Z = false) by (apply Z.leb_gt; lia).
  rewrite E1, (entry_row r Hr1 Hr2). cbn [bind].
  rewrite (map_id_on _ add_point r) by (intros x Hx; apply floating_point; rewrite Forall_forall in Hr2; auto).
  destruct rows as [|r' rows'].
  - exists r. split; [now left|]. cbn [map app concat]. rewrite read_entries_stop.
    + rewrite app_nil_r. reflexivity.
    + apply Z.leb_le. rewrite app_length. cbn [concat List.length] in Hn. lia.
  - destruct (IH (sjoin " " r) (acc ++ r) rest nread Hrows) as [row [Hin E]]; [discriminate | rewrite app_length; lia|].
    exists row. split; [now right|]. rewrite E. cbn [concat]. rewrite <- app_assoc. reflexivity.
Qed.

Lemma py_slice_mid : forall (A : Type) (a b c : list A),
  py_slice (a ++ b ++ c) (Z.of_nat (List.length a)) (Z.of_nat (List.length a) + Z.of_nat (List.length b)) = b.
Proof.
  intros A a b c. unfold py_slice, py_index. rewrite !app_length.
  assert (E1 : (Z.of_nat (List.length a) <? 0)%Z = false) by (apply Z.ltb_ge; lia).
  assert (E2 : (Z.of_nat (List.length a) + Z.of_nat (List.length b) <? 0)%Z = false) by (apply Z.ltb_ge; lia).
  rewrite E1, E2.
  replace (Z.to_nat (Z.min (Z.of_nat (List.length a)) (Z.of_nat (List.length a + (List.length b + List.length c)))))
    with (List.length a) by lia.
  replace (Z.to_nat (Z.min (Z.of_nat (List.length a) + Z.of_nat (List.length b))
                           (Z.of_nat (List.length a + (List.length b + List.length c))) -
                     Z.min (Z.of_nat (List.length a)) (Z.of_nat (List.length a + (List.length b + List.length c)))))
    with (List.length b) by lia.
  rewrite skipn_app, skipn_all, Nat.sub_diag. cbn [skipn app]. rewrite firstn_app, firstn_all, Nat.sub_diag. cbn [firstn].
  apply app_nil_r.
Qed.

Definition slc (c : list string) : list string := lmol_slice c (fr c).
Definition rg (c : list string) : Z * Z := (Z.of_nat (S (fst (fr c))), Z.of_nat (S (snd (fr c)))).
Definition col_ok (n : nat) (c : list string) : Prop :=
  Forall lmol_number c /\ (exists x, In x c /\ is0_s x = false) /\ List.length c = n.

Lemma col_fr : forall n c, col_ok n c ->
  find_range c = inr (fr c) /\ fst (fr c) <= snd (fr c) /\ snd (fr c) < n /\ List.length (slc c) = S (snd (fr c)) - fst (fr c).
Proof.
  intros n c [Hn [Hz Hl]]. destruct (find_range_split c Hn Hz) as [f [l [c1 [c2 [c3 [E [_ [_ [E2 [L2 [Hfl [Hl' _]]]]]]]]]]]].
  unfold slc, fr. rewrite E. cbn [fst snd]. rewrite <- E2. repeat split; auto; lia.
Qed.

Lemma coefficients_ok : forall n cs pre, Forall (col_ok n) cs ->
  lmol_coefficients (pre ++ concat (map slc cs)) (Z.of_nat n) (map rg cs) (Z.of_nat (List.length pre)) =
    map lmol_expected_col cs.
Proof.
  intros n. induction cs as [|c cs IH]; intros pre H; [reflexivity|]. inversion H as [|? ? Hc Hcs]; subst.
  destruct (col_fr n c Hc) as [E [Hfl [Hln Hs]]]. destruct Hc as [_ [_ Hlen]].
  cbn [map concat lmol_coefficients]. unfold rg at 1. 
  assert (En : (Z.of_nat (S (snd (fr c))) - Z.of_nat (S (fst (fr c))) + 1)%Z = Z.of_nat (List.length (slc c))) by lia.
  rewrite En, py_slice_mid.
  assert (E1 : (if (1 <? Z.of_nat (S (fst (fr c))))%Z then repeat "0.0" (Z.to_nat (Z.of_nat (S (fst (fr c))) - 1)) ++ slc c else slc c)
               = repeat "0.0" (fst (fr c)) ++ slc c).
  { destruct (1 <? Z.of_nat (S (fst (fr c))))%Z eqn:Eb.
    - f_equal. f_equal. lia.
    - apply Z.ltb_ge in Eb. assert (H0 : fst (fr c) = 0) by lia. rewrite H0. reflexivity. }
  rewrite E1.
  assert (E2 : (if (Z.of_nat (S (snd (fr c))) <? Z.of_nat n)%Z
                then (repeat "0.0" (fst (fr c)) ++ slc c) ++ repeat "0.0" (Z.to_nat (Z.of_nat n - Z.of_nat (S (snd (fr c)))))
                else repeat "0.0" (fst (fr c)) ++ slc c)
               = repeat "0.0" (fst (fr c)) ++ slc c ++ repeat "0.0" (List.length c - S (snd (fr c)))).
  { rewrite Hlen. destruct (Z.of_nat (S (snd (fr c))) <? Z.of_nat n)%Z eqn:Eb.
    - rewrite <- app_assoc. f_equal. f_equal. f_equal. lia.
    - apply Z.ltb_ge in Eb. assert (Hz : n - S (snd (fr c)) = 0) by lia. rewrite Hz. cbn [repeat]. now rewrite app_nil_r. }
  rewrite E2. f_equal.
  - unfold lmol_expected_col. rewrite E. unfold slc. destruct (fr c) as [f l]. reflexivity.
  - replace (Z.of_nat (List.length pre) + Z.of_nat (List.length (slc c)))%Z with (Z.of_nat (List.length (pre ++ slc c)))
      by (rewrite app_length; lia).
    rewrite app_assoc. apply IH. exact Hcs.
Qed.

Lemma nread_ok : forall n cs a, Forall (col_ok n) cs ->
  fold_left (fun m r => (m + (snd r - fst r + 1))%Z) (map rg cs) a = (a + Z.of_nat (List.length (concat (map slc cs))))%Z.
Proof.
  intros n. induction cs as [|c cs IH]; intros a H; [cbn; lia|]. inversion H as [|? ? Hc Hcs]; subst.
  destruct (col_fr n c Hc) as [_ [Hfl [_ Hs]]].
  cbn [map fold_left concat]. rewrite (IH _ Hcs), app_length. unfold rg. cbn [fst snd]. lia.
Qed.

(* ================================================================== *)
(* 9. one shell                                                        *)
(* ================================================================== *)
Lemma cols_ok : forall s, lmol_shell_ok s -> Forall (col_ok (List.length (exps s))) (coefs s).
Proof.
  intros s Hs. apply Forall_forall. intros c Hc. destruct (col_facts s c Hs Hc) as [H1 [H2 [_ H4]]]. repeat split; assumption.
Qed.

Lemma cranges_eq : forall s,
  map (fun r : string * ascii * string => (digits_val (fst (fst r)) 0, digits_val (snd r) 0)) (map triple (rng_of s)) = map rg (coefs s).
Proof.
  intros s. unfold rng_of. rewrite !map_map. apply map_ext. intros c. unfold triple, rg. cbn [fst snd].
  now rewrite !nat_str_val.
Qed.

Lemma read_shell_ok : forall z shs s rest d, (1 <= z <= 118)%Z -> lmol_shell_ok s ->
  exists row, In row (reshape (pdata s) 5) /\
    lmol_read_shell (lsym z, lamc (lam_of s), nat_str (List.length (exps s)), nat_str (List.length (coefs s)), map triple (rng_of s))
                    (lcomment z shs :: lrows s ++ rest) d =
      inr (sjoin " " row :: rest, append_shell z (lmol_expected_shell s) d).
Proof.
  intros z shs s rest d Hz Hs.
  pose proof Hs as [He [[l [Ea Hl]] [Hc _]]].
  destruct (lam_facts l Hl) as [a [_ [_ [_ [_ Ham]]]]].
  destruct (lsym_facts z Hz) as [_ [_ [_ [_ [_ [HZ [Hint _]]]]]]].
  pose proof (cols_ok s Hs) as Hcols.
  destruct (reshape_spec (pdata s)) as [Econ [_ Hrne]].
  assert (Hpne : pdata s <> []) by (unfold pdata; destruct (exps s); [congruence | discriminate]).
  assert (Hlp : List.length (pdata s) = List.length (exps s) + List.length (concat (map slc (coefs s)))).
  { unfold pdata. rewrite app_length. reflexivity. }
  destruct (read_rows (reshape (pdata s) 5) (lcomment z shs) [] rest
              (Z.of_nat (List.length (exps s)) + Z.of_nat (List.length (concat (map slc (coefs s)))))%Z
              (rows_floating s Hs) (Hrne Hpne)) as [row [Hrow Eread]].
  { rewrite Econ, Hlp. cbn [List.length]. lia. }
  exists row. split; [exact Hrow|].
  unfold lmol_read_shell, lam_of. rewrite Ea, Ham. cbn [bind]. rewrite !nat_str_val.
  assert (E1 : (0 <? Z.of_nat (List.length (exps s)))%Z = true) by (apply Z.ltb_lt; destruct (exps s); [congruence | cbn; lia]).
  assert (E2 : (0 <? Z.of_nat (List.length (coefs s)))%Z = true) by (apply Z.ltb_lt; destruct (coefs s); [congruence | cbn; lia]).
  rewrite E1, E2. cbn [negb].
  assert (E3 : Z.of_nat (List.length (map triple (rng_of s))) = Z.of_nat (List.length (coefs s)))
    by (unfold rng_of; now rewrite !map_length).
  rewrite E3, Z.eqb_refl. cbn [negb].
  rewrite (existsb_false _ _ (map triple (rng_of s))), (existsb_false _ _ (map triple (rng_of s))).
  2,3: intros x Hx; apply in_map_iff in Hx; destruct Hx as [r [<- _]]; reflexivity.
  rewrite cranges_eq, Hint, HZ. cbn [bind].
  rewrite (nread_ok _ _ _ Hcols). unfold lrows. rewrite Eread. cbn [bind]. rewrite Econ. unfold ok. f_equal. f_equal. f_equal.
  unfold lmol_expected_shell, lmol_ftype. rewrite Ea. f_equal.
  - unfold pdata.
    change (py_slice (exps s ++ concat (map (fun c => lmol_slice c (fr c)) (coefs s))) 0 (Z.of_nat (List.length (exps s))))
      with (py_slice ([] ++ exps s ++ concat (map slc (coefs s))) (Z.of_nat (List.length (@nil string)))
                     (Z.of_nat (List.length (@nil string)) + Z.of_nat (List.length (exps s)))).
    apply py_slice_mid.
  - unfold pdata. apply (coefficients_ok _ _ (exps s) Hcols).
Qed.

(* ================================================================== *)
(* 10. the loop over the lines                                         *)
(* ================================================================== *)
Lemma parse_step : forall f l rest d,
  lmol_parse_lines (S f) (l :: rest) d =
    match match_shell_line l with
    | Some caps => do r <- lmol_read_shell caps rest d; lmol_parse_lines f (fst r) (snd r)
    | None => match match_ecp_line l with Some _ => fail ENotImpl | None => lmol_parse_lines f rest d end
    end.
Proof. reflexivity. Qed.

Lemma parse_skip : forall f l rest d, match_shell_line l = None /\ match_ecp_line l = None ->
  lmol_parse_lines (S f) (l :: rest) d = lmol_parse_lines f rest d.
Proof. intros f l rest d [H1 H2]. now rewrite parse_step, H1, H2. Qed.

Lemma parse_nil : forall f d, 0 < f -> lmol_parse_lines f [] d = inr d.
Proof. intros [|f] d H; [lia | reflexivity]. Qed.

Lemma shell_step : forall bsname z shs s rest d f,
  lmol_name_ok bsname -> (1 <= z <= 118)%Z -> lmol_shell_ok s -> Forall lmol_shell_ok shs ->
  List.length (lsh_lines bsname z shs s ++ rest) < f ->
  exists f', List.length rest < f' /\
    lmol_parse_lines f (lsh_lines bsname z shs s ++ rest) d = lmol_parse_lines f' rest (append_shell z (lmol_expected_shell s) d).
Proof.
  intros bsname z shs s rest d f Hn Hz Hs Hshs Hf. unfold lsh_lines in *. cbn [app List.length] in Hf.
  rewrite app_length in Hf.
  destruct f as [|[|f2]]; [lia | lia |]. exists f2. split; [lia|].
  cbn [app]. rewrite parse_step, (header_match bsname z s Hn Hz Hs).
  destruct (read_shell_ok z shs s rest d Hz Hs) as [row [Hrow E]]. rewrite E. cbn [bind fst snd].
  apply parse_skip. apply row_skip.
  pose proof (rows_floating s Hs) as Hr. rewrite Forall_forall in Hr. apply (Hr row Hrow).
Qed.

Definition add_shells (z : Z) (ss : list sshell) (d : list (Z * list sshell)) : list (Z * list sshell) :=
  fold_left (fun d s => append_shell z (lmol_expected_shell s) d) ss d.

Lemma shells_step : forall bsname z shs ss rest d f,
  lmol_name_ok bsname -> (1 <= z <= 118)%Z -> Forall lmol_shell_ok ss -> Forall lmol_shell_ok shs ->
  List.length (flat_map (lsh_lines bsname z shs) ss ++ rest) < f ->
  exists f', List.length rest < f' /\
    lmol_parse_lines f (flat_map (lsh_lines bsname z shs) ss ++ rest) d = lmol_parse_lines f' rest (add_shells z ss d).
Proof.
  intros bsname z shs. induction ss as [|s ss IH]; intros rest d f Hn Hz Hss Hshs Hf.
  - exists f. split; [exact Hf | reflexivity].
  - inversion Hss as [|? ? Hs Hss']; subst. cbn [flat_map] in *. rewrite <- app_assoc in *.
    destruct (shell_step bsname z shs s (flat_map (lsh_lines bsname z shs) ss ++ rest) d f Hn Hz Hs Hshs Hf) as [f1 [Hf1 E1]].
    destruct (IH rest (append_shell z (lmol_expected_shell s) d) f1 Hn Hz Hss' Hshs Hf1) as [f2 [Hf2 E2]].
    exists f2. split; [exact Hf2|]. rewrite E1, E2. reflexivity.
Qed.

Lemma add_shells_rest : forall z ss d l, ~ In z (map fst d) ->
  add_shells z ss (d ++ [(z, l)]) = d ++ [(z, l ++ map lmol_expected_shell ss)].
Proof.
  intros z. induction ss as [|s ss IH]; intros d l Hd; [cbn; now rewrite app_nil_r|].
  unfold add_shells in *. cbn [fold_left map]. rewrite (append_shell_last z _ l d Hd), (IH d _ Hd), <- app_assoc. reflexivity.
Qed.

Lemma add_shells_new : forall z ss d, ss <> [] -> ~ In z (map fst d) ->
  add_shells z ss d = d ++ [(z, map lmol_expected_shell ss)].
Proof.
  intros z [|s ss] d Hne Hd; [congruence|]. unfold add_shells. cbn [fold_left]. rewrite (append_shell_new z _ d Hd).
  exact (add_shells_rest z ss d [lmol_expected_shell s] Hd).
Qed.

Lemma elements_step : forall bsname els rest d f,
  lmol_name_ok bsname -> Forall lel_ok els -> NoDup (map fst els) -> (forall z, In z (map fst els) -> ~ In z (map fst d)) ->
  List.length (flat_map (lel_lines bsname) els ++ rest) < f ->
  exists f', List.length rest < f' /\
    lmol_parse_lines f (flat_map (lel_lines bsname) els ++ rest) d = lmol_parse_lines f' rest (d ++ lmol_expected els).
Proof.
  intros bsname. induction els as [|[z shs] els IH]; intros rest d f Hn Hel Hnd Hd Hf.
  - exists f. split; [exact Hf|]. cbn. now rewrite app_nil_r.
  - inversion Hel as [|? ? [Hz [Hne Hs]] Hel']; subst. cbn [fst snd map] in *. inversion Hnd as [|? ? Hnz Hnd']; subst.
    cbn [flat_map] in *. rewrite <- app_assoc in *. unfold lel_lines at 1. unfold lel_lines at 1 in Hf. cbn [fst snd] in *.
    destruct (shells_step bsname z shs shs (flat_map (lel_lines bsname) els ++ rest) d f Hn Hz Hs Hs Hf) as [f1 [Hf1 E1]].
    rewrite (add_shells_new z shs d Hne (Hd z (or_introl eq_refl))) in E1.
    destruct (IH rest (d ++ [(z, map lmol_expected_shell shs)]) f1 Hn Hel' Hnd') as [f2 [Hf2 E2]]; [|exact Hf1|].
    + intros w Hw. rewrite map_app, in_app_iff. cbn [map fst In]. intros [Hin | [Heq | []]].
      * exact (Hd w (or_intror Hw) Hin).
      * subst w. exact (Hnz Hw).
    + exists f2. split; [exact Hf2|]. rewrite E1, E2. unfold lmol_expected. cbn [map fst snd]. rewrite <- app_assoc. reflexivity.
Qed.

Lemma lmol_roundtrip_exact : lmol_roundtrip_stmt.
Proof.
  intros harm bsname els H. unfold lmol_roundtrip. rewrite (write_electron_lines _ _ _ H). cbn [bind].
  destruct (read_lines harm bsname els _ H (write_electron_lines _ _ _ H)) as [_ Ep].
  unfold lmol_read_electron. rewrite Ep.
  destruct H as [Hh [Hn [Hnd Hel]]].
  assert (Hharm : match_shell_line harm = None /\ match_ecp_line harm = None)
    by (destruct Hh as [-> | ->]; split; reflexivity).
  unfold lall_lines. destruct els as [|e els].
  - cbn [List.length]. rewrite (parse_skip _ _ _ _ Hharm). reflexivity.
  - set (L := flat_map (lel_lines bsname) (e :: els)).
    cbn [List.length]. rewrite (parse_skip _ _ _ _ Hharm), parse_skip by (split; reflexivity).
    destruct (elements_step bsname (e :: els) [] [] (S (List.length L)) Hn Hel Hnd) as [f' [Hf' E]].
    + intros z _ [].
    + fold L. rewrite app_nil_r. lia.
    + fold L in E. rewrite app_nil_r in E. rewrite E. cbn [app]. apply parse_nil. lia.
Qed.

Print Assumptions lmol_write_total.
Print Assumptions lmol_roundtrip_exact.

(* ================================================================== *)
(* 11. what lmol_expected_col does                                     *)
(* ================================================================== *)
Definition zrel (x y : string) : Prop := y = x \/ (is0_s x = true /\ y = "0.0").

Lemma zrel_zero : forall c, Forall zero_s c -> Forall2 zrel c (repeat "0.0" (List.length c)).
Proof. induction 1 as [|x c Hx _ IH]; cbn [List.length repeat]; constructor; [right; split; [exact Hx | reflexivity] | exact IH]. Qed.
Lemma zrel_refl : forall c, Forall2 zrel c c.
Proof. induction c; constructor; [now left | assumption]. Qed.
Lemma F2_nth : forall a b, Forall2 zrel a b -> forall i x, nth_error a i = Some x -> exists y, nth_error b i = Some y /\ zrel x y.
Proof.
  induction 1 as [|x y a b Hxy _ IH]; intros i z Hi; [destruct i; discriminate|].
  destruct i as [|i]; cbn [nth_error] in *; [inversion Hi; subst; eauto | eauto].
Qed.

Lemma lmol_expected_col_spec : lmol_expected_col_stmt.
Proof.
  intros c Hn Hz. destruct (find_range_split c Hn Hz) as [f [l [c1 [c2 [c3 [E [Ec [L1 [E2 [L2 [Hfl [Hl [L3 [Z1 Z3]]]]]]]]]]]]]].
  assert (HF : Forall2 zrel c (lmol_expected_col c)).
  { unfold lmol_expected_col. rewrite E, <- E2, <- L1, <- L3. rewrite Ec at 1.
    apply Forall2_app; [now apply zrel_zero|]. apply Forall2_app; [apply zrel_refl | now apply zrel_zero]. }
  split; [symmetry; eapply Forall2_len; exact HF|].
  intros i x Hi. destruct (F2_nth _ _ HF i x Hi) as [y [Ey [-> | [H0 ->]]]]; [now left | right; split; assumption].
Qed.
Print Assumptions lmol_expected_col_spec.

(* ================================================================== *)
(* 12. no number is lost                                               *)
(* ================================================================== *)
Lemma lmol_no_number_lost : lmol_no_number_lost_stmt.
Proof.
  intros harm bsname els t H Ht x [zs [s [Hzs [Hs Hx]]]].
  destruct (read_lines harm bsname els t H Ht) as [El _]. rewrite El.
  pose proof (lmol_ok_els _ _ _ H) as Hel. rewrite Forall_forall in Hel. destruct (Hel zs Hzs) as [_ [_ Hshs]].
  assert (Hsok : lmol_shell_ok s) by (rewrite Forall_forall in Hshs; auto).
  assert (Hp : In x (pdata s)).
  { unfold pdata. apply in_or_app. destruct Hx as [Hx | [c [Hc [Hxc Hx0]]]]; [now left | right].
    apply in_concat. exists (lmol_slice c (fr c)). split; [apply in_map_iff; eauto|].
    destruct (col_facts s c Hsok Hc) as [Hn [Hz _]].
    destruct (find_range_split c Hn Hz) as [f [l [c1 [c2 [c3 [E [Ec [_ [E2 [_ [_ [_ [_ [Z1 Z3]]]]]]]]]]]]]].
    unfold fr. rewrite E, <- E2. rewrite Ec in Hxc. apply in_app_or in Hxc. destruct Hxc as [Hin | Hin].
    - rewrite Forall_forall in Z1. specialize (Z1 x Hin). unfold zero_s in Z1. congruence.
    - apply in_app_or in Hin. destruct Hin as [Hin | Hin]; [exact Hin|].
      rewrite Forall_forall in Z3. specialize (Z3 x Hin). unfold zero_s in Z3. congruence. }
  destruct (reshape_spec (pdata s)) as [Econ _]. rewrite <- Econ in Hp. apply in_concat in Hp. destruct Hp as [row [Hrow Hxr]].
  exists (sjoin " " row). split.
  - unfold lall_lines. destruct els as [|e els]; [destruct Hzs|]. right. right.
    apply in_flat_map. exists zs. split; [exact Hzs|]. unfold lel_lines. apply in_flat_map. exists s. split; [exact Hs|].
    right. right. unfold lrows. apply in_map. exact Hrow.
  - pose proof (rows_floating s Hsok) as Hr. rewrite Forall_forall in Hr. destruct (Hr row Hrow) as [_ Hf].
    rewrite tokens_sjoin; [exact Hxr|]. eapply Forall_impl; [|exact Hf]. exact floating_tok.
Qed.
Print Assumptions lmol_no_number_lost.

(* ================================================================== *)
(* 13. the conditions of lmol_ok that cannot be dropped, the reader on hand-written text, the ECP part *)
(* ================================================================== *)
Lemma lmol_roundtrip_empty : lmol_roundtrip_empty_stmt. Proof. vm_compute. reflexivity. Qed.
Lemma lmol_name : lmol_name_stmt.
Proof.
  unfold lmol_name_stmt. split; [vm_compute; reflexivity|].
  split; repeat (apply Forall_cons; [vm_compute; reflexivity|]); apply Forall_nil.
Qed.
Lemma lmol_am_bound : lmol_am_bound_stmt. Proof. unfold lmol_am_bound_stmt. repeat split; vm_compute; reflexivity. Qed.
Lemma lmol_roundtrip_fused : lmol_roundtrip_fused_stmt. Proof. vm_compute. reflexivity. Qed.
Lemma lmol_roundtrip_noshell : lmol_roundtrip_noshell_stmt. Proof. vm_compute. reflexivity. Qed.
Lemma lmol_roundtrip_nocontr : lmol_roundtrip_nocontr_stmt. Proof. vm_compute. reflexivity. Qed.
Lemma lmol_find_range : lmol_find_range_stmt. Proof. repeat split; vm_compute; reflexivity. Qed.
Lemma lmol_roundtrip_ragged : lmol_roundtrip_ragged_stmt. Proof. vm_compute. reflexivity. Qed.
Lemma lmol_floating : lmol_floating_stmt. Proof. repeat split; vm_compute; reflexivity. Qed.
Lemma lmol_elements : lmol_elements_stmt. Proof. repeat split; vm_compute; reflexivity. Qed.
Lemma lmol_cartesian : lmol_cartesian_stmt. Proof. vm_compute. reflexivity. Qed.
Lemma lmol_zero : lmol_zero_stmt. Proof. vm_compute. reflexivity. Qed.
Lemma lmol_reader : lmol_reader_stmt. Proof. unfold lmol_reader_stmt. repeat split; vm_compute; reflexivity. Qed.

Lemma lmol_ecp_dropped : lmol_ecp_dropped_stmt.
Proof.
  unfold lmol_ecp_dropped_stmt. split; [|repeat split; vm_compute; reflexivity].
  intros sym tail Hal. unfold match_ecp_line.
  replace (sym +++ " ECP " +++ String ":" tail) with ((sym +++ " ECP ") +++ String ":" tail) by (now rewrite sapp_assoc).
  rewrite split_colon_app by (change (sall ncol (sym +++ " ECP ") = true); rewrite sall_app, (sall_impl is_alpha ncol _ alpha_ncol Hal); reflexivity).
  destruct (sany odd_space (sym +++ " ECP ") || sany odd_space tail); [reflexivity|].
  destruct sym as [|c sym]; [reflexivity|].
  assert (Hs : sany is_space (String c sym) = false) by (apply (sall_sany_false is_alpha); [exact alpha_not_space | exact Hal]).
  rewrite (tokens_word _ _ _ Hs), sapp_nil_r. cbn [tokens_acc]. change (is_space " ") with true. cbv iota.
  destruct (srev (String c sym)) as [|a r] eqn:E; [exfalso; apply (srev_ne (String c sym) ltac:(discriminate) E)|].
  reflexivity.
Qed.
Print Assumptions lmol_ecp_dropped.

(* ================================================================== *)
(* 14. the example                                                     *)
(* ================================================================== *)
Definition is_nil {A : Type} (l : list A) : bool := match l with [] => true | _ => false end.
Definition shell_okb (s : sshell) : bool :=
  negb (is_nil (exps s)) &&
  match am s with [l] => (0 <=? l)%Z && (l <? 8)%Z | _ => false end &&
  negb (is_nil (coefs s)) &&
  forallb (fun c => Nat.eqb (List.length c) (List.length (exps s))) (coefs s) &&
  forallb is_floating (exps s) && forallb (forallb is_floating) (coefs s) &&
  forallb (forallb (fun x => match parse_num x with Some _ => true | None => false end)) (coefs s) &&
  forallb (existsb (fun x => negb (is0_s x))) (coefs s).

Lemma shell_okb_sound : forall s, shell_okb s = true -> lmol_shell_ok s.
Proof.
  intros s H. unfold shell_okb in H. rewrite !andb_true_iff in H.
  destruct H as [[[[[[[H1 H2] H3] H4] H5] H6] H7] H8]. unfold lmol_shell_ok.
  split. { destruct (exps s); [discriminate H1 | discriminate]. }
  split. { destruct (am s) as [|l [|? ?]]; try discriminate H2. exists l. split; [reflexivity | lia]. }
  split. { destruct (coefs s); [discriminate H3 | discriminate]. }
  split. { apply Forall_forall. intros c Hc. rewrite forallb_forall in H4. now apply Nat.eqb_eq, H4. }
  split. { apply Forall_forall. intros x Hx. rewrite forallb_forall in H5. now apply H5. }
  split. { apply Forall_forall. intros c Hc. apply Forall_forall. intros x Hx. rewrite forallb_forall in H6.
           specialize (H6 c Hc). rewrite forallb_forall in H6. now apply H6. }
  split. { apply Forall_forall. intros c Hc. apply Forall_forall. intros x Hx. rewrite forallb_forall in H7.
           specialize (H7 c Hc). rewrite forallb_forall in H7. specialize (H7 x Hx). unfold lmol_number.
           destruct (parse_num x); [discriminate | discriminate H7]. }
  apply Forall_forall. intros c Hc. rewrite forallb_forall in H8. specialize (H8 c Hc).
  apply existsb_exists in H8. destruct H8 as [x [Hx Hx0]]. exists x. split; [exact Hx | now apply negb_true_iff].
Qed.

Lemma lmol_example : lmol_example_stmt.
Proof.
  unfold lmol_example_stmt. split.
  - unfold lmol_ok. split; [now left|]. split; [split; [vm_compute; reflexivity | split; [vm_compute; discriminate | vm_compute; reflexivity]]|].
    split.
    + cbn [map fst exl_els]. repeat constructor; cbn [In]; intuition discriminate.
    + unfold exl_els. repeat (apply Forall_cons || apply Forall_nil); cbn [fst snd];
        (split; [lia | split; [discriminate|]]); repeat (apply Forall_cons || apply Forall_nil);
        apply shell_okb_sound; vm_compute; reflexivity.
  - split; [vm_compute; reflexivity|]. split; [vm_compute; reflexivity|]. split; [vm_compute; reflexivity|].
    split; vm_compute; reflexivity.
Qed.
Print Assumptions lmol_example.

Print Assumptions lmol_roundtrip_empty.
Print Assumptions lmol_name.
Print Assumptions lmol_am_bound.
Print Assumptions lmol_roundtrip_fused.
Print Assumptions lmol_roundtrip_noshell.
Print Assumptions lmol_roundtrip_nocontr.
Print Assumptions lmol_find_range.
Print Assumptions lmol_roundtrip_ragged.
Print Assumptions lmol_floating.
Print Assumptions lmol_elements.
Print Assumptions lmol_cartesian.
Print Assumptions lmol_zero.
Print Assumptions lmol_reader.
