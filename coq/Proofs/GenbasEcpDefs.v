(* Statements about the ECP part of the CFOUR / GENBAS writer / reader pair and about the whole file (electron blocks + ECP
   blocks): what write_cfour prints, read_genbas reads back.  Definitions only; the proofs are in Proofs/GenbasEcpSpec.v.
   The electron blocks alone are Proofs/GenbasDefs.v / GenbasSpec.v.
   STATUS: everything stated here is proved in Proofs/GenbasEcpSpec.v, c4ecp_roundtrip_stmt (the general round trip WITH
   ECPs) exactly as stated (lemma c4ecp_roundtrip_exact). *)
From BSE Require Import Model.Val Model.Text Model.Basis Model.Manip Model.Matrix Model.Lut Model.Elements Model.Nwchem
                        Model.NwchemEcp Model.Turbomole Model.TurbomoleEcp Model.Genbas Model.GenbasEcp
                        Proofs.MatrixDefs Proofs.NwchemDefs Proofs.NwchemEcpDefs Proofs.TurbomoleDefs Proofs.TurbomoleEcpDefs
                        Proofs.GenbasDefs.

(* ---------- well-formed input of the ECP part of the writer ---------- *)
(* a potential: Proofs/NwchemEcpDefs.v ecp_pot_ok - one angular momentum with a letter in lut._amchar_map_hik (0..24; writer
   and reader both use hij=False here, unlike Turbomole), at least one term, one r exponent / gaussian exponent /
   coefficient per term, exactly one coefficient column, numbers matching helpers.floating_re *)
Definition c4ecp_el_ok (e : Z * (Z * list epot)) : Prop :=
  let '(z, (nelec, pots)) := e in
  (1 <= z <= 120)%Z /\
  (* 'ecp_electrons': ecp_info_re wants \d+ *)
  (0 <= nelec)%Z /\
  (* at least one potential (max() of the writer) *)
  pots <> [] /\ Forall ecp_pot_ok pots /\
  (* momenta pairwise distinct (two potentials with the highest momentum: "Found multiple potentials with single AM") *)
  NoDup (map pot_l pots).

(* the whole dictionary as the writer sees it.  c4_ok (Proofs/GenbasDefs.v) is the condition of the electron part.
   THE FINDING of the whole file is `ecps <> [] -> els <> []`: the ECP part begins with a `*` line, which belongs to the last
   electron block; when there is none it is a block of its own, of one line, and partition_lines(..., min_size=4) refuses
   it - a basis with ECPs only (def2-ecp, ... in the store) cannot be read back (c4ecp_ecp_only_example_stmt). *)
Definition c4ecp_ok (name desc : string) (els : list (Z * list sshell)) (ecps : list (Z * (Z * list epot))) : Prop :=
  c4_ok name desc els /\
  (ecps <> [] -> els <> []) /\
  (* dictionary keys *)
  NoDup (map fst ecps) /\
  Forall c4ecp_el_ok ecps.

(* ---------- what comes back ---------- *)
(* the potentials in the written order (sorted by momentum, then the highest moved to the front), numbers normalised as in
   matrix_roundtrip_stmt with conv = false (ecp_expected_pot of Proofs/NwchemEcpDefs.v), ecp_type 'scalar_ecp' *)
Definition c4ecp_ecp_expected (ecps : list (Z * (Z * list epot))) : tmecp_map :=
  map (fun e => (fst e, (fst (snd e), map ecp_expected_pot (ecp_written_order (snd (snd e)))))) ecps.

(* the keys of the electron part, then the new ones of the ECP part (tmecp_all_order); per element what each part gives *)
Definition c4ecp_expected (els : list (Z * list sshell)) (ecps : list (Z * (Z * list epot))) : list (Z * nw_el) :=
  tmecp_assemble (tmecp_all_order els ecps, c4_expected els, c4ecp_ecp_expected ecps).

(* ---------- statements ---------- *)
(* without ECPs the text is the one of Model/Genbas.v (no hypothesis at all) *)
Definition c4ecp_no_ecp_stmt : Prop :=
  forall name desc els, c4ecp_write name desc els [] = c4_write_electron name desc els.

(* the whole-file reader on a text without ECP blocks: same elements, no ECP keys *)
Definition c4ecp_roundtrip_no_ecp_stmt : Prop :=
  forall name desc els, c4_ok name desc els -> c4ecp_roundtrip name desc els [] = inr (c4ecp_expected els []).

(* the general round trip with ECPs (Proofs/GenbasEcpSpec.v, c4ecp_roundtrip_exact) *)
Definition c4ecp_roundtrip_stmt : Prop :=
  forall name desc els ecps, c4ecp_ok name desc els ecps ->
    c4ecp_roundtrip name desc els ecps = inr (c4ecp_expected els ecps).

(* the writer does not fail on well-formed input *)
Definition c4ecp_write_total_stmt : Prop :=
  forall name desc els ecps, c4ecp_ok name desc els ecps -> exists t, c4ecp_write name desc els ecps = inr t.

(* the round trip component by component: key order, electron part (c4_expected of Proofs/GenbasDefs.v), ECP part *)
Definition c4ecp_roundtrip_parts_stmt : Prop :=
  forall name desc els ecps t, c4ecp_ok name desc els ecps -> c4ecp_write name desc els ecps = inr t ->
    c4ecp_read_parts (splitlines t) = inr (tmecp_all_order els ecps, c4_expected els, c4ecp_ecp_expected ecps).

(* C04 direction for the whole file: NOTHING is left out.
   - every exponent and coefficient of the electron shells (tm_number_of, Proofs/TurbomoleDefs.v) is a white-space delimited
     token of some line, with the marker as _cfour_exp / _cfour_coef print it (c4_dconv: E -> D, nothing else);
   - every gaussian exponent, coefficient, r exponent (in decimal) and electron count (in decimal) of the ECPs
     (nw_ecp_number_of, Proofs/NwchemEcpDefs.v) is a token of some line LITERALLY (write_matrix without convert_exp). *)
Definition c4ecp_no_number_lost_stmt : Prop :=
  forall name desc els ecps t, c4ecp_ok name desc els ecps -> c4ecp_write name desc els ecps = inr t ->
    forall x,
      (tm_number_of els x -> exists line, In line (splitlines t) /\ In (c4_dconv x) (tokens_acc line "")) /\
      (nw_ecp_number_of ecps x -> exists line, In line (splitlines t) /\ In x (tokens_acc line "")).

(* ---------- instances ---------- *)
Definition c4ecp_els0 : list (Z * list sshell) := [(1%Z, [c4_h])].
(* Na with 10 core electrons and one potential gap_pot l = (l; 1.0 r^2 exp(-1.0 r^2)) per momentum of ls *)
Definition c4ecp_rt (ls : list Z) : res (list (Z * nw_el)) := c4ecp_roundtrip "n" "d" c4ecp_els0 (gap_ecp ls).
Definition c4ecp_rd (ls : list Z) : list (Z * nw_el) :=
  [(1%Z, mkNwEl [c4_h] None []); (11%Z, mkNwEl [] (Some 10%Z) (map gap_pot ls))].

(* FINDING: ECPs only.  The text is written, the reader refuses it. *)
Definition c4ecp_ecp_only_example_stmt : Prop :=
  c4ecp_write "n" "d" [] (gap_ecp [0%Z]) =
    inr (String.concat nl1 [""; ""; ""; "! Effective core Potentials"; "*"; "NA:n"; "# d"; "*"; "    NCORE = 10    LMAX = 0"; "s";
                            "    1.0          2     1.0"; "*"; ""]) /\
  c4ecp_roundtrip "n" "d" [] (gap_ecp [0%Z]) = inl ERuntime.
(* the ECP keys may well belong to an element without electron shells, as long as some element has shells *)
Definition c4ecp_ecp_other_element_stmt : Prop := c4ecp_rt [1; 0]%Z = inr (c4ecp_rd [1; 0]%Z).
(* the same element in both parts: one entry with shells and ECP keys *)
Definition c4ecp_same_element_stmt : Prop :=
  c4ecp_roundtrip "n" "d" [(11%Z, [c4_h])] (gap_ecp [1; 0]%Z) = inr [(11%Z, mkNwEl [c4_h] (Some 10%Z) (map gap_pot [1; 0]%Z))].

(* momenta 0, 1, 3 (2 missing below the top) and a single potential of momentum 2 come back unchanged (the file says
   `LMAX = L`), in the written order *)
Definition c4ecp_gap_ok_stmt : Prop :=
  c4ecp_rt [0; 1; 3]%Z = inr (c4ecp_rd [3; 0; 1]%Z) /\ c4ecp_rt [2%Z] = inr (c4ecp_rd [2%Z]) /\
  c4ecp_expected c4ecp_els0 (gap_ecp [0; 1; 3]%Z) = c4ecp_rd [3; 0; 1]%Z.
(* NO counterpart of the Turbomole finding: writer and reader use the same table of letters (hij=False), every momentum
   that has a letter (0..24) comes back; 25 has none (writer) *)
Definition c4ecp_range_stmt : Prop :=
  map (fun l => c4ecp_rt [l]) (zrange 0 25) = map (fun l => inr (c4ecp_rd [l])) (zrange 0 25) /\
  c4ecp_write "n" "d" c4ecp_els0 (gap_ecp [25%Z]) = inl EIndex.

(* hypotheses of c4ecp_el_ok that cannot be dropped *)
Definition c4ecp_dup_stmt : Prop := c4ecp_rt [1; 0; 1]%Z = inl ERuntime.
Definition c4ecp_nopot_stmt : Prop := c4ecp_roundtrip "n" "d" c4ecp_els0 [(11%Z, (10%Z, []))] = inl EValue.
Definition c4ecp_noterm_stmt : Prop :=
  c4ecp_roundtrip "n" "d" c4ecp_els0
    [(11%Z, (10%Z, [mkEpot "scalar_ecp" [1%Z] [2%Z] ["1.0"] [["1.0"]]; mkEpot "scalar_ecp" [0%Z] [] [] [[]]]))] = inl ERuntime.
Definition c4ecp_negelec_stmt : Prop := c4ecp_roundtrip "n" "d" c4ecp_els0 [(11%Z, ((-1)%Z, [gap_pot 0%Z]))] = inl ERuntime.
Definition c4ecp_twocols_stmt : Prop :=
  c4ecp_roundtrip "n" "d" c4ecp_els0 [(11%Z, (10%Z, [mkEpot "scalar_ecp" [0%Z] [2%Z] ["1.0"] [["1.0"]; ["2.0"]]]))] = inl EIndex.
Definition c4ecp_twoam_stmt : Prop :=
  c4ecp_roundtrip "n" "d" c4ecp_els0 [(11%Z, (10%Z, [mkEpot "scalar_ecp" [0%Z; 1%Z] [2%Z] ["1.0"] [["1.0"]]]))] = inl ERuntime.
Definition c4ecp_dup_element_stmt : Prop :=
  c4ecp_roundtrip "n" "d" c4ecp_els0 [(11%Z, (10%Z, [gap_pot 0%Z])); (11%Z, (10%Z, [gap_pot 0%Z]))] = inl ERuntime.
Definition c4ecp_z121_stmt : Prop := c4ecp_write "n" "d" c4ecp_els0 [(121%Z, (10%Z, [gap_pot 0%Z]))] = inl EKey.
Definition c4ecp_nopoint_stmt : Prop :=
  c4ecp_write "n" "d" c4ecp_els0 [(11%Z, (10%Z, [mkEpot "scalar_ecp" [0%Z] [2%Z] ["1"] [["1.0"]]]))] = inl EValue.
(* the empty name is fine in the ECP part as well ('NA:' becomes 'NA ') *)
Definition c4ecp_noname_stmt : Prop :=
  c4ecp_roundtrip "" "" c4ecp_els0 (gap_ecp [0%Z]) = inr (c4ecp_rd [0%Z]).
(* exponent markers: no conversion in the ECP tables (write_matrix without convert_exp); d / D come back as e / E *)
Definition c4ecp_markers_stmt : Prop :=
  c4ecp_roundtrip "n" "d" c4ecp_els0 [(11%Z, (10%Z, [mkEpot "semilocal" [0%Z] [2%Z; 0%Z] ["1.755D+02"; "2.e1"] [["-1.0d0"; "3.E0"]]]))] =
    inr [(1%Z, mkNwEl [c4_h] None []);
         (11%Z, mkNwEl [] (Some 10%Z) [mkEpot "scalar_ecp" [0%Z] [2%Z; 0%Z] ["1.755E+02"; "2.e1"] [["-1.0e0"; "3.E0"]]])].

(* ---------- a concrete instance from the store: LANL2DZ for H (electron shells only) and Na (electron shells and ECP),
   as write_cfour sees it; cxe_text is, byte for byte,
   basis_set_exchange.get_basis('lanl2dz', elements=[1, 11], fmt='cfour', header=False) ---------- *)
Definition cxe_H : sshell :=
  c4_sh 0 ["19.2384000"; "2.8987000"; "0.6535000"; "0.1776000"]
        [["0.0328280"; "0.2312040"; "0.8172260"; "0.0000000"]; ["0.0000000"; "0.0000000"; "0.0000000"; "1.0000000"]].
Definition cxe_Na0 : sshell :=
  c4_sh 0 ["0.4972000"; "0.0560000"; "0.0221000"]
        [["-0.2753574"; "1.0989969"; "0.0000000"]; ["0.0000000"; "0.0000000"; "1.0000000"]].
Definition cxe_Na1 : sshell :=
  c4_sh 1 ["0.6697000"; "0.0636000"; "0.0204000"]
        [["-0.0683845"; "1.0140550"; "0.0000000"]; ["0.0000000"; "0.0000000"; "1.0000000"]].
Definition cxe_els : list (Z * list sshell) := [(1%Z, [cxe_H]); (11%Z, [cxe_Na0; cxe_Na1])].
Definition cxe_d : epot :=
  mkEpot "scalar_ecp" [2%Z] [1; 2; 2; 2; 2]%Z ["175.5502590"; "35.0516791"; "7.9060270"; "2.3365719"; "0.7799867"]
         [["-10.0000000"; "-47.4902024"; "-17.2283007"; "-6.0637782"; "-0.7299393"]].
Definition cxe_s : epot :=
  mkEpot "scalar_ecp" [0%Z] [0; 1; 2; 2; 2]%Z ["243.3605846"; "41.5764759"; "13.2649167"; "3.6797165"; "0.9764209"]
         [["3.0000000"; "36.2847626"; "72.9304880"; "23.8401151"; "6.0123861"]].
Definition cxe_p : epot :=
  mkEpot "scalar_ecp" [1%Z] [0; 1; 2; 2; 2; 2]%Z ["1257.2650682"; "189.6248810"; "54.5247759"; "13.7449955"; "3.6813579"; "0.9461106"]
         [["5.0000000"; "117.4495683"; "423.3986704"; "109.3247297"; "31.3701656"; "7.1241813"]].
Definition cxe_ecps : list (Z * (Z * list epot)) := [(11%Z, (10%Z, [cxe_d; cxe_s; cxe_p]))].

Definition cxe_text : string :=
  String.concat nl1
   [""; "H:LANL2DZ"; "LANL2DZ"; ""; "  1"; "    0"; "    2"; "    4"; "";
    "19.2384000 2.8987000 0.6535000 0.1776000 "; "";
    "0.0328280 0.0000000 "; "0.2312040 0.0000000 "; "0.8172260 0.0000000 "; "0.0000000 1.0000000 "; "";
    "NA:LANL2DZ"; "LANL2DZ"; ""; "  2"; "    0    1"; "    2    2"; "    3    3"; "";
    "0.4972000 0.0560000 0.0221000 "; "";
    "-0.2753574 0.0000000 "; "1.0989969 0.0000000 "; "0.0000000 1.0000000 "; "";
    "0.6697000 0.0636000 0.0204000 "; "";
    "-0.0683845 0.0000000 "; "1.0140550 0.0000000 "; "0.0000000 1.0000000 "; "";
    ""; ""; "! Effective core Potentials"; "*"; "NA:LANL2DZ"; "# LANL2DZ"; "*"; "    NCORE = 10    LMAX = 2";
    "d";
    "  -10.0000000    1   175.5502590"; "  -47.4902024    2    35.0516791"; "  -17.2283007    2     7.9060270";
    "   -6.0637782    2     2.3365719"; "   -0.7299393    2     0.7799867";
    "s-d";
    "    3.0000000    0   243.3605846"; "   36.2847626    1    41.5764759"; "   72.9304880    2    13.2649167";
    "   23.8401151    2     3.6797165"; "    6.0123861    2     0.9764209";
    "p-d";
    "    5.0000000    0  1257.2650682"; "  117.4495683    1   189.6248810"; "  423.3986704    2    54.5247759";
    "  109.3247297    2    13.7449955"; "   31.3701656    2     3.6813579"; "    7.1241813    2     0.9461106";
    "*"; ""].

Definition c4ecp_example_stmt : Prop :=
  c4ecp_ok "LANL2DZ" "LANL2DZ" cxe_els cxe_ecps /\
  c4ecp_write "LANL2DZ" "LANL2DZ" cxe_els cxe_ecps = inr cxe_text /\
  c4ecp_roundtrip "LANL2DZ" "LANL2DZ" cxe_els cxe_ecps = inr (c4ecp_expected cxe_els cxe_ecps) /\
  (* nothing changes: one entry per element, H without ECP keys, Na with its shells, 10 core electrons and the potentials
     d, s, p in the written order *)
  c4ecp_expected cxe_els cxe_ecps =
    [(1%Z, mkNwEl [cxe_H] None []); (11%Z, mkNwEl [cxe_Na0; cxe_Na1] (Some 10%Z) [cxe_d; cxe_s; cxe_p])].
