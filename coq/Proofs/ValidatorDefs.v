(* Statements for C18: the semantic rules of validator.py as a declarative predicate, and the shape the translated
   schemas accept.  Definitions only. *)
From BSE Require Import Model.Val Model.Num Model.Basis Model.Manip Model.Memo Model.Schema Gen.GenSchema Model.Compose Model.Validator.

Definition parses (s : string) : Prop := exists x, parse_num s = Some x.
Definition positive (s : string) : Prop := exists m e, parse_num s = Some (m, e) /\ (0 < m)%Z.
Definition nonzero (s : string) : Prop := is0_s s = false.

(* the documented rules for one electron shell (after the schema: lists of strings / integers) *)
Record valid_shell (s : sshell) : Prop := {
  vs_prims : exps s <> [];
  vs_am : am s <> [];
  vs_tag_high : (zmax (am s) > 1)%Z -> ftype s = "gto_spherical" \/ ftype s = "gto_cartesian";
  vs_tag_low : (zmax (am s) <= 1)%Z -> infix "spherical" (ftype s) = false /\ infix "cartesian" (ftype s) = false;
  vs_exp_parse : Forall parses (exps s);
  vs_exp_distinct : forall i j x y, nth_error (exps s) i = Some x -> nth_error (exps s) j = Some y -> i <> j -> same_s x y = false;
  vs_exp_positive : Forall positive (exps s);
  vs_rows : Forall (fun g => List.length g = List.length (exps s) /\ Forall parses g /\ Exists nonzero g) (coefs s);
  vs_no_dup_contraction : List.length (am s) = 1 ->
      forall i j g h, nth_error (coefs s) i = Some g -> nth_error (coefs s) j = Some h -> i <> j -> row_same g h = false;
  vs_prims_used : coefs s <> [] -> forall i, i < List.length (exps s) ->
      exists g x, In g (coefs s) /\ nth_error g i = Some x /\ nonzero x;
  vs_fused : 1 < List.length (am s) -> List.length (coefs s) = List.length (am s)
}.

(* validate_shell accepts exactly the valid shells, and rejects with RuntimeError (or ValueError for a non-number) *)
Definition validate_shell_iff_stmt : Prop := forall s, validate_shell s = inr tt <-> valid_shell s.
Definition validate_shell_errors_stmt : Prop := forall s e, validate_shell s = inl e -> e = ERuntime \/ e = EValue.

(* the documented rules for the ECP potentials of one element *)
Definition exempt (mx : list Z) (p : pot) : Prop := List.length (p_rexp p) <= 1 /\ p_am p = mx.
Record valid_pots (ps : list pot) : Prop := {
  vp_nonempty : ps <> [];
  vp_single_am : Forall (fun p => List.length (p_am p) = 1) ps;
  vp_am_distinct : forall i j p q, nth_error ps i = Some p -> nth_error ps j = Some q -> i <> j -> hd 0%Z (p_am p) <> hd 0%Z (p_am q);
  vp_each : Forall (fun p =>
      List.length (p_gexp p) = List.length (p_rexp p) /\
      Forall (fun g => List.length g = List.length (p_rexp p)) (p_coefs p) /\
      Forall (Forall parses) (p_coefs p) /\
      (forall i j g h, nth_error (p_coefs p) i = Some g -> nth_error (p_coefs p) j = Some h -> i <> j -> row_same g h = false) /\
      (~ exempt (max_am_list ps) p ->
         Forall (Exists nonzero) (p_coefs p) /\
         (p_coefs p <> [] -> forall i, i < List.length (p_rexp p) -> exists g x, In g (p_coefs p) /\ nth_error g i = Some x /\ nonzero x))) ps
}.
Definition validate_pots_iff_stmt : Prop := forall ps, validate_pots ps = inr tt <-> valid_pots ps.

(* ---------- the translated schemas ---------- *)
(* navigation inside a schema term *)
Definition s_prop (k : string) (s : schema) : option schema :=
  match s with SNode _ _ props _ _ _ _ _ _ _ _ _ _ => assoc k props | SAny => None end.
Definition s_patprop (p : pat) (s : schema) : option schema :=
  match s with
  | SNode _ _ _ _ pps _ _ _ _ _ _ _ _ =>
    match find (fun q => match fst q, p with PDigits, PDigits | PAny, PAny | PAlnum, PAlnum | PDate, PDate => true | _, _ => false end) pps with
    | Some q => Some (snd q) | None => None end
  | SAny => None
  end.
Definition s_item (s : schema) : option schema := match s with SNode _ _ _ _ _ _ it _ _ _ _ _ _ => it | SAny => None end.
Definition obind {A B} (x : option A) (f : A -> option B) : option B := match x with Some a => f a | None => None end.

(* the schema of one electron shell inside the 'complete' schema *)
Definition shell_schema_of (top : schema) : option schema :=
  obind (s_prop "elements" top) (fun e => obind (s_patprop PDigits e) (fun el => obind (s_prop "electron_shells" el) s_item)).

Definition is_strs (v : val) : Prop := exists l, v = VStrs l.
Definition is_nonempty_strs (v : val) : Prop := exists l, l <> [] /\ v = VStrs l.

(* what the shell schema accepts, written out *)
Record shell_shape (v : val) : Prop := {
  sh_dict : exists d, v = VDict d /\
     (forall k, In k (map fst d) -> In k ["function_type"; "region"; "angular_momentum"; "exponents"; "coefficients"]) /\
     (forall k, In k ["function_type"; "region"; "angular_momentum"; "exponents"; "coefficients"] -> assoc k d <> None) /\
     (forall x, In ("function_type", x) d -> In x [VStr "gto"; VStr "gto_spherical"; VStr "gto_cartesian"; VStr "sto"]) /\
     (forall x, In ("region", x) d -> In x [VStr ""; VStr "valence"; VStr "polarization"; VStr "core"; VStr "tight"; VStr "diffuse"]) /\
     (forall x, In ("angular_momentum", x) d -> exists l, l <> [] /\ x = VList (map VInt l) /\ NoDup l /\ Forall (fun z => (0 <= z)%Z) l) /\
     (forall x, In ("exponents", x) d -> is_nonempty_strs x) /\
     (forall x, In ("coefficients", x) d -> exists rows, rows <> [] /\ x = VList rows /\ Forall is_nonempty_strs rows)
}.
Definition shell_schema_iff_stmt : Prop :=
  forall sc v, shell_schema_of schema_complete = Some sc -> (check_schema sc v = true <-> shell_shape v).
Definition shell_schema_present_stmt : Prop :=
  (exists sc, shell_schema_of schema_complete = Some sc) /\
  shell_schema_of schema_complete = shell_schema_of schema_minimal /\
  shell_schema_of schema_complete = shell_schema_of schema_component.

(* the top level of the 'complete' schema: exactly the thirteen documented keys, all required *)
Definition complete_keys : list string :=
  ["molssi_bse_schema"; "name"; "names"; "version"; "description"; "revision_date"; "revision_description"; "family"; "tags";
   "role"; "auxiliaries"; "function_types"; "elements"].
Definition complete_top_stmt : Prop :=
  forall v, check_schema schema_complete v = true ->
    exists d, v = VDict d /\ (forall k, In k complete_keys -> assoc k d <> None) /\ (forall k, In k (map fst d) -> In k complete_keys).

(* an element key that is not a decimal number is rejected; an unknown key inside an element is rejected *)
Definition complete_element_keys_stmt : Prop :=
  forall d els k x, check_schema schema_complete (VDict d) = true -> assoc "elements" d = Some (VDict els) -> In (k, x) els ->
    pat_match PDigits k = true /\
    exists ed, x = VDict ed /\ assoc "references" ed <> None /\
               (forall k', In k' (map fst ed) -> In k' ["references"; "electron_shells"; "ecp_electrons"; "ecp_potentials"]).

(* validate_data('complete', v) accepted  ==>  schema accepted, at least one element, name among names, every element's
   shells and potentials valid *)
Definition validate_complete_sound_stmt : Prop :=
  forall v, validate_data "complete" v = inr tt ->
    check_schema schema_complete v = true /\
    exists els, (do e <- vfield "elements" v; vdict e) = inr els /\ els <> [] /\
      Forall (fun kv => validate_element (snd kv) = inr tt) els.
Definition validate_element_sound_stmt : Prop :=
  forall el d, validate_element el = inr tt -> el = VDict d ->
    (forall x, assoc "electron_shells" d = Some x -> exists l shs, x = VList l /\ mapM dec_shell l = inr shs /\ Forall valid_shell shs) /\
    (forall x, assoc "ecp_potentials" d = Some x -> assoc "ecp_electrons" d <> None /\
                                               exists l ps, x = VList l /\ mapM dec_pot l = inr ps /\ valid_pots ps).
