(* Statements about the Jaguar writer (writers/jaguar.py write_jaguar; there is no reader): the writer is total on
   well-formed input and the written text carries every number of the input as a white-space delimited token of some
   line - EXCEPT that the ECP of an element without electron shells is left out altogether (jag_ecp_only_lost_stmt,
   jag_ecp_uncovered_ignored_stmt).  Definitions only; the proofs are in Proofs/JaguarSpec.v. *)
From BSE Require Import Model.Val Model.Text Model.Basis Model.Manip Model.Matrix Model.Lut Model.Elements Model.Nwchem
                        Model.NwchemEcp Model.Jaguar Proofs.MatrixDefs Proofs.NwchemDefs.

(* ---------- well-formed input of the writer (what is left after uncontract_general / uncontract_spdf(1) / sort_basis) ---------- *)
(* `floating s` (Proofs/NwchemDefs.v) : is_floating s = true, the string matches helpers.floating_re entirely (this
   implies: non-empty, no white space, a decimal point, bytes < 128 only) *)
Definition jag_shell_ok (s : sshell) : Prop :=
  (* every angular momentum has a letter in lut._amchar_map_hij (26 letters; the shells are written with hij=True) *)
  Forall (fun l => (0 <= l < 26)%Z) (am s) /\
  (* every column has one coefficient per primitive (zip() in write_matrix cuts every column to the shortest one) *)
  Forall (fun c => List.length c = List.length (exps s)) (coefs s) /\
  Forall floating (exps s) /\ Forall (Forall floating) (coefs s).
(* no condition on the NUMBER of columns, of primitives or of momenta: the writer prints whatever it is given *)

Definition jag_pot_ok (p : epot) : Prop :=
  (* at least one angular momentum (am[0]); every one has a letter in lut._amchar_map_hik (25 letters; the potentials are
     written with hij=False) *)
  p_am p <> [] /\ Forall (fun l => (0 <= l < 25)%Z) (p_am p) /\
  (* one gaussian exponent per r exponent (r exponents are integers by their type: ANY integer) *)
  List.length (p_gexp p) = List.length (p_rexp p) /\
  (* at most ONE column of coefficients (point_places = [0, 9, 32] has three entries), as long as the other columns *)
  List.length (p_coef p) <= 1 /\ Forall (fun c => List.length c = List.length (p_rexp p)) (p_coef p) /\
  Forall floating (p_gexp p) /\ Forall (Forall floating) (p_coef p).

Definition jag_ok (els : list (Z * list sshell)) (ecps : list (Z * (Z * list epot))) : Prop :=
  (* the elements that have electron shells: an atomic number of the table of lut.py (1 .. 120) *)
  Forall (fun zs => (1 <= fst zs <= 120)%Z /\ Forall jag_shell_ok (snd zs)) els /\
  (* dictionary keys: pairwise distinct *)
  NoDup (map fst ecps) /\
  (* at least one potential (max() of the writer); 'ecp_electrons' may be any integer *)
  Forall (fun e => snd (snd e) <> [] /\ Forall jag_pot_ok (snd (snd e))) ecps.
(* no condition on the atomic numbers of ecps: the symbol is looked up in the loop over els only; no NoDup (map fst els) *)

(* every element that has an ECP has electron shells as well: NOT part of jag_ok - it does not hold for valid data (the
   ECP-only basis sets of the store) and the writer does not fail without it; it is the hypothesis under which nothing
   of the ECP part is lost *)
Definition jag_ecp_covered (els : list (Z * list sshell)) (ecps : list (Z * (Z * list epot))) : Prop :=
  forall z, In z (map fst ecps) -> In z (map fst els).

(* ---------- the numbers of the ECP part (also used for BDF) ---------- *)
(* x is a gaussian exponent or a coefficient of some potential of some element *)
Definition wecp_number_of (ecps : list (Z * (Z * list epot))) (x : string) : Prop :=
  exists e p, In e ecps /\ In p (snd (snd e)) /\ (In x (p_gexp p) \/ exists c, In c (p_coef p) /\ In x c).
(* n is an electron count or an r exponent *)
Definition wecp_int_of (ecps : list (Z * (Z * list epot))) (n : Z) : Prop :=
  exists e, In e ecps /\ (n = fst (snd e) \/ exists p, In p (snd (snd e)) /\ In n (p_rexp p)).

(* ---------- statements ---------- *)
(* the writer does not fail on well-formed input (whether or not the ECP elements have shells) *)
Definition jag_write_total_stmt : Prop :=
  forall name types els ecps, jag_ok els ecps -> exists t, jag_write_all name types els ecps = inr t.

(* C04, electron part: every exponent and every coefficient (nw_number_of, Proofs/NwchemDefs.v), with e/E replaced by D as
   printing.write_matrix(convert_exp=True) does it (Model.Matrix.d_convert: nothing else changes), is a white-space
   delimited token of some line of the text.  No condition on name / types. *)
Definition jag_no_number_lost_stmt : Prop :=
  forall name types els ecps t, jag_ok els ecps -> jag_write_all name types els ecps = inr t ->
    forall x, nw_number_of els x -> exists line, In line (splitlines t) /\ In (d_convert x) (tokens_acc line "").

(* C04, ECP part, UNDER jag_ecp_covered: every gaussian exponent and every coefficient (e/E -> D), and the decimal form
   of every r exponent and of every electron count is a token of some line *)
Definition jag_ecp_no_number_lost_stmt : Prop :=
  forall name types els ecps t, jag_ok els ecps -> jag_ecp_covered els ecps -> jag_write_all name types els ecps = inr t ->
    (forall x, wecp_number_of ecps x -> exists line, In line (splitlines t) /\ In (d_convert x) (tokens_acc line "")) /\
    (forall n, wecp_int_of ecps n -> exists line, In line (splitlines t) /\ In (Z_to_string n) (tokens_acc line "")).

(* ---------- FINDING: the ECP of an element without electron shells is not written ---------- *)
(* the text depends on ecps only through (a) whether it is empty (the word ECP in the first line) and (b) the entries of
   the elements that have electron shells: for ANY input, well-formed or not *)
Definition jag_ecp_uncovered_ignored_stmt : Prop :=
  forall name types els ecps ecps',
    (ecps = [] <-> ecps' = []) -> (forall z, In z (map fst els) -> assocZ z ecps = assocZ z ecps') ->
    jag_write_all name types els ecps = jag_write_all name types els ecps'.
(* a basis set that consists of ECPs only (8 basis sets of the store: def2-ECP, LANL2DZ ECP, CRENBL ECP ...) is written as
   its first line, whatever the potentials are *)
Definition jag_ecp_only_lost_stmt : Prop :=
  forall name types ecps, ecps <> [] ->
    jag_write_all name types [] ecps = inr ("BASIS " +++ name +++ " " +++ jag_harm_type types +++ " ECP" +++ nl1).
(* concretely (well-formed input, valid data): H with a shell, Rb with an ECP only - the text is that of H alone plus the
   word ECP; 28, 2, 1.5, -10.0 ... are not there.  So jag_ecp_covered cannot be dropped from jag_ecp_no_number_lost_stmt *)
Definition jag_h : sshell := mkShell "gto" "" [0%Z] ["1.0"] [["1.0"]].
Definition jag_p (l : Z) : epot := mkEpot "scalar_ecp" [l] [2%Z; 1%Z] ["1.5"; "0.25"] [["-10.0"; "2.5E+00"]].
Definition no_tok (t x : string) : Prop :=
  forallb (fun line => negb (existsb (String.eqb x) (tokens_acc line ""))) (splitlines t) = true.
Definition jag_ecp_only_example_stmt : Prop :=
  let els := [(1%Z, [jag_h])] in let ecps := [(37%Z, (28%Z, [jag_p 1; jag_p 0]))] in
  let t := String.concat nl1 ["BASIS X 5D ECP"; "H"; "S 0 1"; "      1.0                    1.0"; "****"; ""] in
  jag_ok els ecps /\ jag_write_all "X" ["gto"; "scalar_ecp"] els ecps = inr t /\
  no_tok t "28" /\ no_tok t "2" /\ no_tok t "1.5" /\ no_tok t "-10.0" /\ no_tok t "2.5D+00" /\
  ~ (forall n, wecp_int_of ecps n -> exists line, In line (splitlines t) /\ In (Z_to_string n) (tokens_acc line "")) /\
  (* with electron shells for Rb the ECP is there *)
  jag_write_all "X" ["gto"; "gto_cartesian"; "scalar_ecp"] [(37%Z, [jag_h])] ecps =
    inr (String.concat nl1 ["BASIS X 6D ECP"; "Rb"; "S 0 1"; "      1.0                    1.0"; "**"; "Rb 1 28";
                            "P_AND_UP"; "2      1.5                  -10.0"; "1      0.25                   2.5D+00";
                            "S-P"; "2      1.5                  -10.0"; "1      0.25                   2.5D+00"; "****"; ""]).

(* ---------- which conditions of jag_ok cannot be dropped ---------- *)
Definition jag_w (shs : list sshell) (pots : list epot) : res string :=
  jag_write_all "X" ["gto"] [(37%Z, shs)] (match pots with [] => [] | _ => [(37%Z, (28%Z, pots))] end).

(* `length (p_coef p) <= 1`: two columns of coefficients are VALID for the schema and the validator; the writer stops with
   an IndexError (point_places = [0, 9, 32] has no fourth entry).  No column at all is printed (two numbers per line) *)
Definition jag_ecp_coef_columns_stmt : Prop :=
  jag_w [jag_h] [mkEpot "scalar_ecp" [0%Z] [2%Z] ["1.0"] [["1.0"]; ["2.0"]]] = inl EIndex /\
  jag_w [jag_h] [mkEpot "scalar_ecp" [0%Z] [2%Z] ["1.0"] []] =
    inr (String.concat nl1 ["BASIS X 5D ECP"; "Rb"; "S 0 1"; "      1.0                    1.0"; "**"; "Rb 0 28";
                            "S_AND_UP"; "2      1.0"; "****"; ""]).

(* the list lengths: zip() in write_matrix cuts every column to the shortest one - the surplus numbers (2.0 here, 7.0 there)
   are LOST without an error; the count in the shell line is len(exponents) *)
Definition jag_lengths_stmt : Prop :=
  jag_w [mkShell "gto" "" [0%Z] ["1.0"; "2.0"] [["1.0"]]] [] =
    inr (String.concat nl1 ["BASIS X 5D"; "Rb"; "S 0 2"; "      1.0                    1.0"; "****"; ""]) /\
  jag_w [mkShell "gto" "" [0%Z] ["1.0"] [["1.0"; "7.0"]]] [] =
    inr (String.concat nl1 ["BASIS X 5D"; "Rb"; "S 0 1"; "      1.0                    1.0"; "****"; ""]) /\
  jag_w [jag_h] [mkEpot "scalar_ecp" [0%Z] [2%Z] ["1.0"; "3.0"] [["0.5"; "0.25"]]] =
    inr (String.concat nl1 ["BASIS X 5D ECP"; "Rb"; "S 0 1"; "      1.0                    1.0"; "**"; "Rb 0 28";
                            "S_AND_UP"; "2      1.0                    0.5"; "****"; ""]).

(* the angular momenta: 25 is the last letter for a shell (hij=True), 24 for a potential (hij=False); beyond: IndexError.
   No potential: ValueError of max(); a potential without angular momentum: IndexError.  A shell without angular momentum,
   primitives and coefficients is printed as the line ` 0 0` *)
Definition jag_am_stmt : Prop :=
  jag_w [mkShell "gto" "" [25%Z] ["1.0"] [["1.0"]]] [] =
    inr (String.concat nl1 ["BASIS X 5D"; "Rb"; "E 0 1"; "      1.0                    1.0"; "****"; ""]) /\
  jag_w [mkShell "gto" "" [26%Z] ["1.0"] [["1.0"]]] [] = inl EIndex /\
  jag_w [mkShell "gto" "" [(-1)%Z] ["1.0"] [["1.0"]]] [] = inl EIndex /\
  jag_w [jag_h] [jag_p 24] =
    inr (String.concat nl1 ["BASIS X 5D ECP"; "Rb"; "S 0 1"; "      1.0                    1.0"; "**"; "Rb 24 28";
                            "E_AND_UP"; "2      1.5                  -10.0"; "1      0.25                   2.5D+00"; "****"; ""]) /\
  jag_w [jag_h] [jag_p 25] = inl EIndex /\
  jag_write_all "X" ["gto"] [(37%Z, [jag_h])] [(37%Z, (28%Z, []))] = inl EValue /\
  jag_w [jag_h] [mkEpot "scalar_ecp" [] [2%Z] ["1.0"] [["1.0"]]] = inl EIndex /\
  jag_w [mkShell "gto" "" [] [] []] [] = inr (String.concat nl1 ["BASIS X 5D"; "Rb"; " 0 0"; "****"; ""]).

(* `Forall floating`: a number without a decimal point stops the writer (ValueError in _find_point), also when it stands
   where zip() would cut it off *)
Definition jag_floating_stmt : Prop :=
  jag_w [mkShell "gto" "" [0%Z] ["10"] [["1.0"]]] [] = inl EValue /\
  jag_w [mkShell "gto" "" [0%Z] ["1.0"] [["1.0"; "7"]]] [] = inl EValue /\
  jag_w [jag_h] [mkEpot "scalar_ecp" [0%Z] [2%Z] ["1"] [["1.0"]]] = inl EValue.

(* the elements: 120 is the last atomic number with a symbol; the same key twice in ecps (cannot happen for a dictionary):
   the second entry is not written *)
Definition jag_elements_stmt : Prop :=
  jag_write_all "X" ["gto"] [(121%Z, [jag_h])] [] = inl EKey /\
  jag_write_all "X" ["gto"] [(0%Z, [jag_h])] [] = inl EKey /\
  jag_write_all "X" ["gto"] [(120%Z, [jag_h])] [] =
    inr (String.concat nl1 ["BASIS X 5D"; "Ubn"; "S 0 1"; "      1.0                    1.0"; "****"; ""]) /\
  jag_write_all "X" ["gto"] [(37%Z, [jag_h])] [(37%Z, (28%Z, [jag_p 0])); (37%Z, (36%Z, [jag_p 1]))] =
  jag_write_all "X" ["gto"] [(37%Z, [jag_h])] [(37%Z, (28%Z, [jag_p 0])); (55%Z, (36%Z, [jag_p 1]))].

(* ---------- a concrete instance from the store: LANL2DZ for H (electron shells only) and Na (electron shells and ECP), as
   write_jaguar sees it; jag_ex_text is, byte for byte,
   basis_set_exchange.get_basis('lanl2dz', elements=[1, 11], fmt='jaguar', header=False) ---------- *)
Definition jag_ex_els : list (Z * list sshell) :=
  [((1)%Z, [(mkShell "gto" "valence" [(0)%Z] ["19.2384000"; "2.8987000"; "0.6535000"] [["0.0328280"; "0.2312040"; "0.8172260"]]);
      (mkShell "gto" "valence" [(0)%Z] ["0.1776000"] [["1.0000000"]])]);
   ((11)%Z, [(mkShell "gto" "valence" [(0)%Z] ["0.4972000"; "0.0560000"] [["-0.2753574"; "1.0989969"]]);
      (mkShell "gto" "valence" [(0)%Z] ["0.0221000"] [["1.0000000"]]);
      (mkShell "gto" "valence" [(1)%Z] ["0.6697000"; "0.0636000"] [["-0.0683845"; "1.0140550"]]);
      (mkShell "gto" "valence" [(1)%Z] ["0.0204000"] [["1.0000000"]])])].
Definition jag_ex_ecps : list (Z * (Z * list epot)) :=
  [((11)%Z, ((10)%Z, [(mkEpot "scalar_ecp" [(2)%Z] [(1)%Z; (2)%Z; (2)%Z; (2)%Z; (2)%Z] ["175.5502590"; "35.0516791"; "7.9060270"; "2.3365719"; "0.7799867"] [["-10.0000000"; "-47.4902024"; "-17.2283007"; "-6.0637782"; "-0.7299393"]]);
      (mkEpot "scalar_ecp" [(0)%Z] [(0)%Z; (1)%Z; (2)%Z; (2)%Z; (2)%Z] ["243.3605846"; "41.5764759"; "13.2649167"; "3.6797165"; "0.9764209"] [["3.0000000"; "36.2847626"; "72.9304880"; "23.8401151"; "6.0123861"]]);
      (mkEpot "scalar_ecp" [(1)%Z] [(0)%Z; (1)%Z; (2)%Z; (2)%Z; (2)%Z; (2)%Z] ["1257.2650682"; "189.6248810"; "54.5247759"; "13.7449955"; "3.6813579"; "0.9461106"] [["5.0000000"; "117.4495683"; "423.3986704"; "109.3247297"; "31.3701656"; "7.1241813"]])]))].
Definition jag_ex_text : string :=
  String.concat nl1
   ["BASIS LANL2DZ 5D ECP";
    "H";
    "S 0 3";
    "     19.2384000              0.0328280";
    "      2.8987000              0.2312040";
    "      0.6535000              0.8172260";
    "S 0 1";
    "      0.1776000              1.0000000";
    "****";
    "Na";
    "S 0 2";
    "      0.4972000             -0.2753574";
    "      0.0560000              1.0989969";
    "S 0 1";
    "      0.0221000              1.0000000";
    "P 0 2";
    "      0.6697000             -0.0683845";
    "      0.0636000              1.0140550";
    "P 0 1";
    "      0.0204000              1.0000000";
    "**";
    "Na 2 10";
    "D_AND_UP";
    "1    175.5502590            -10.0000000";
    "2     35.0516791            -47.4902024";
    "2      7.9060270            -17.2283007";
    "2      2.3365719             -6.0637782";
    "2      0.7799867             -0.7299393";
    "S-D";
    "0    243.3605846              3.0000000";
    "1     41.5764759             36.2847626";
    "2     13.2649167             72.9304880";
    "2      3.6797165             23.8401151";
    "2      0.9764209              6.0123861";
    "P-D";
    "0   1257.2650682              5.0000000";
    "1    189.6248810            117.4495683";
    "2     54.5247759            423.3986704";
    "2     13.7449955            109.3247297";
    "2      3.6813579             31.3701656";
    "2      0.9461106              7.1241813";
    "****";
    ""].

Definition jag_example_stmt : Prop :=
  jag_ok jag_ex_els jag_ex_ecps /\ jag_ecp_covered jag_ex_els jag_ex_ecps /\
  jag_write_all "LANL2DZ" ["gto"; "scalar_ecp"] jag_ex_els jag_ex_ecps = inr jag_ex_text.

(* the ECP-only basis set def2-ECP for Rb: get_basis('def2-ecp', elements=[37], fmt='jaguar', header=False) is the single
   line `BASIS def2-ECP 5D ECP` *)
Definition jag_example_ecp_only_stmt : Prop :=
  forall ecp, jag_write_all "def2-ECP" ["scalar_ecp"] [] [(37%Z, ecp)] = inr (String.concat nl1 ["BASIS def2-ECP 5D ECP"; ""]).
