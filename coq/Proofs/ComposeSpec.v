(* C01: the loop-and-dictionary shaped composition model refines the per-element specification.
   Proofs only; the statements are in ComposeDefs.v.  The generic helpers of the first sections
   (result monad, mapM, association lists, string order, sorted_set) are reused by SelectSpec.v and IndexSpec.v. *)
From BSE Require Import Model.Val Model.Elements Model.Compose Model.Index Gen.GenApi Proofs.ComposeDefs.
From Coq Require Import Sorted.

(* ====================================================================== *)
(* result monad, mapM                                                      *)
(* ====================================================================== *)
Lemma bind_inr : forall A B (x : res A) (f : A -> res B) b,
  bind x f = inr b -> exists a, x = inr a /\ f a = inr b.
Proof. intros A B [e|a] f b H; cbn in H; [discriminate|eauto]. Qed.

Ltac inv_bind H :=
  let a := fresh "x" in let Ha := fresh "E" in
  apply bind_inr in H; destruct H as (a & Ha & H).

Lemma ok_inj : forall A (a b : A), @ok A a = inr b -> a = b.
Proof. intros A a b H; inversion H; reflexivity. Qed.

Lemma mapM_F2 : forall A B (f : A -> res B) l l',
  mapM f l = inr l' -> Forall2 (fun a b => f a = inr b) l l'.
Proof.
  induction l as [|a t IH]; intros l' H; cbn in H.
  - inversion H; constructor.
  - inv_bind H. inv_bind H. inversion H; subst. constructor; auto.
Qed.

Lemma F2_mapM : forall A B (f : A -> res B) l l',
  Forall2 (fun a b => f a = inr b) l l' -> mapM f l = inr l'.
Proof.
  induction 1 as [|a b l l' Hab HF IH]; cbn; [reflexivity|].
  rewrite Hab; cbn. rewrite IH; reflexivity.
Qed.

Lemma mapM_length : forall A B (f : A -> res B) l l', mapM f l = inr l' -> List.length l' = List.length l.
Proof. intros A B f l l' H. apply mapM_F2 in H. induction H; cbn; congruence. Qed.

Lemma mapM_total : forall A B (f : A -> res B) l,
  (forall a, In a l -> exists b, f a = inr b) -> exists l', mapM f l = inr l'.
Proof.
  induction l as [|a t IH]; intros H; cbn; [eexists; reflexivity|].
  destruct (H a (or_introl eq_refl)) as [b Hb]. rewrite Hb; cbn.
  destruct IH as [l' Hl']; [intros; apply H; right; assumption|]. rewrite Hl'; cbn. eexists; reflexivity.
Qed.

Lemma mapM_ok_each : forall A B (f : A -> res B) l l' a,
  mapM f l = inr l' -> In a l -> exists b, f a = inr b /\ In b l'.
Proof.
  intros A B f l l' a H. apply mapM_F2 in H. induction H as [|x y l l' Hxy HF IH]; intros Hin; [destruct Hin|].
  destruct Hin as [->|Hin]; [exists y; split; [assumption|left; reflexivity]|].
  destruct (IH Hin) as (b & Hb & Hi). exists b; split; [assumption|right; assumption].
Qed.

Lemma mapM_in_out : forall A B (f : A -> res B) l l' b,
  mapM f l = inr l' -> In b l' -> exists a, In a l /\ f a = inr b.
Proof.
  intros A B f l l' b H. apply mapM_F2 in H. induction H as [|x y l l' Hxy HF IH]; intros Hin; [destruct Hin|].
  destruct Hin as [->|Hin]; [exists x; split; [left; reflexivity|assumption]|].
  destruct (IH Hin) as (a & Ha & Hi). exists a; split; [right; assumption|assumption].
Qed.

Lemma F2_impl : forall A B (R S : A -> B -> Prop) l l',
  (forall a b, R a b -> S a b) -> Forall2 R l l' -> Forall2 S l l'.
Proof. induction 2; constructor; auto. Qed.

Lemma F2_in_r : forall A B (R : A -> B -> Prop) l l' b,
  Forall2 R l l' -> In b l' -> exists a, In a l /\ R a b.
Proof.
  induction 1 as [|x y l l' Hxy HF IH]; intros Hin; [destruct Hin|].
  destruct Hin as [->|Hin]; [exists x; split; [left; reflexivity|assumption]|].
  destruct (IH Hin) as [a [Ha HR]]. exists a; split; [right|]; assumption.
Qed.

Lemma F2_flip : forall A B (R : A -> B -> Prop) l l',
  Forall2 R l l' -> Forall2 (fun b a => R a b) l' l.
Proof. induction 1; constructor; auto. Qed.

Lemma mapM_vstr : forall l names, mapM vstr l = inr names -> l = map VStr names.
Proof.
  induction l as [|a t IH]; intros names H; cbn in H.
  - inversion H; reflexivity.
  - inv_bind H. inv_bind H. inversion H; subst. cbn. destruct a; try discriminate.
    inversion E; subst. f_equal. apply IH; assumption.
Qed.

(* mapM over a sublist selected by filter succeeds when it does on the whole list *)
Lemma mapM_filter_ok : forall A B (f : A -> res B) (p : A -> bool) l l',
  mapM f l = inr l' -> exists l2, mapM f (filter p l) = inr l2.
Proof.
  intros A B f p l l' H. apply mapM_total. intros a Ha. apply filter_In in Ha. destruct Ha as [Ha _].
  destruct (mapM_ok_each _ _ _ _ _ a H Ha) as (b & Hb & _). eauto.
Qed.

(* the "keep" idiom of the index filters *)
Lemma mapM_keep_filter : forall A B (g : A -> res B) (p : B -> bool) l keep,
  mapM (fun kv => do x <- g kv; ok (if p x then [kv] else [])) l = inr keep ->
  concat keep = filter (fun kv => match g kv with inr x => p x | inl _ => false end) l.
Proof.
  induction l as [|a t IH]; intros keep H; cbn in H.
  - inversion H; reflexivity.
  - destruct (g a) as [e|x] eqn:Eg; cbn in H; [discriminate|].
    inv_bind H. inversion H; subst. cbn. rewrite Eg. rewrite (IH _ E). destruct (p x); reflexivity.
Qed.

(* ====================================================================== *)
(* association lists                                                       *)
(* ====================================================================== *)
Lemma assoc_set_same : forall V k (v : V) d, assoc k (assoc_set k v d) = Some v.
Proof.
  induction d as [|[k' v'] t IH]; cbn.
  - rewrite String.eqb_refl; reflexivity.
  - destruct (String.eqb k k') eqn:E; cbn; [rewrite String.eqb_refl; reflexivity|rewrite E; exact IH].
Qed.

Lemma assoc_set_other : forall V k k' (v : V) d, k <> k' -> assoc k (assoc_set k' v d) = assoc k d.
Proof.
  intros V k k' v d Hne. induction d as [|[k2 v2] t IH]; cbn.
  - apply String.eqb_neq in Hne. rewrite Hne; reflexivity.
  - destruct (String.eqb k' k2) eqn:E; cbn.
    + apply String.eqb_eq in E; subst k2. apply String.eqb_neq in Hne. rewrite Hne; reflexivity.
    + destruct (String.eqb k k2); [reflexivity|exact IH].
Qed.

Lemma assoc_set_keys_in : forall V k (v : V) d x,
  In x (map fst (assoc_set k v d)) -> x = k \/ In x (map fst d).
Proof.
  induction d as [|[k' v'] t IH]; cbn; intros x H.
  - destruct H as [H|[]]; auto.
  - destruct (String.eqb k k') eqn:E; cbn in H.
    + apply String.eqb_eq in E; subst k'. destruct H as [H|H]; auto.
    + destruct H as [H|H]; auto. destruct (IH _ H); auto.
Qed.

Lemma assoc_In : forall V k (v : V) d, assoc k d = Some v -> In (k, v) d.
Proof.
  induction d as [|[k' v'] t IH]; cbn; intros H; [discriminate|].
  destruct (String.eqb k k') eqn:E.
  - apply String.eqb_eq in E; subst. inversion H; subst. left; reflexivity.
  - right; auto.
Qed.

Lemma assoc_notin : forall V k (d : list (string * V)), ~ In k (map fst d) -> assoc k d = None.
Proof.
  induction d as [|[k' v'] t IH]; cbn; intros H; [reflexivity|].
  destruct (String.eqb k k') eqn:E.
  - apply String.eqb_eq in E; subst. exfalso; apply H; left; reflexivity.
  - apply IH. intros Hin; apply H; right; assumption.
Qed.

Lemma dict_update_none : forall b a k, assoc k b = None -> assoc k (dict_update a b) = assoc k a.
Proof.
  induction b as [|[k' v'] t IH]; intros a k H; [reflexivity|].
  change (dict_update a ((k', v') :: t)) with (dict_update (assoc_set k' v' a) t).
  cbn in H. destruct (String.eqb k k') eqn:E; [discriminate|].
  rewrite (IH _ _ H). apply assoc_set_other. apply String.eqb_neq; assumption.
Qed.

Lemma dict_update_some : forall b a k v, NoDup (map fst b) -> assoc k b = Some v -> assoc k (dict_update a b) = Some v.
Proof.
  induction b as [|[k' v'] t IH]; intros a k v Hnd H; cbn in H, Hnd; [discriminate|].
  inversion Hnd as [|? ? Hni Hnd']; subst.
  destruct (String.eqb k k') eqn:E.
  - apply String.eqb_eq in E; subst k'. inversion H; subst v'.
    change (dict_update a ((k, v) :: t)) with (dict_update (assoc_set k v a) t).
    rewrite dict_update_none by (apply assoc_notin; assumption). apply assoc_set_same.
  - change (dict_update a ((k', v') :: t)) with (dict_update (assoc_set k' v' a) t). apply IH; assumption.
Qed.

Lemma vfield_dict : forall k d, vfield k (VDict d) = match assoc k d with Some x => ok x | None => fail EKey end.
Proof. reflexivity. Qed.

Lemma vfield_inr : forall k v x, vfield k v = inr x -> exists d, v = VDict d /\ assoc k d = Some x.
Proof.
  intros k v x H. destruct v; try discriminate. cbn in H. destruct (assoc k l) eqn:E; [|discriminate].
  inversion H; subst. eauto.
Qed.

Lemma vdict_inr : forall v d, vdict v = inr d -> v = VDict d.
Proof. intros v d H; destruct v; try discriminate. inversion H; reflexivity. Qed.
Lemma vlist_inr : forall v l, vlist v = inr l -> v = VList l.
Proof. intros v d H; destruct v; try discriminate. inversion H; reflexivity. Qed.
Lemma vstr_inr : forall v s, vstr v = inr s -> v = VStr s.
Proof. intros v d H; destruct v; try discriminate. inversion H; reflexivity. Qed.

(* ====================================================================== *)
(* the string order and sorted(set(..))                                    *)
(* ====================================================================== *)
Lemma ascii_ltb_irrefl : forall a, ascii_ltb a a = false.
Proof. intros a; unfold ascii_ltb. apply Nat.ltb_irrefl. Qed.

Lemma ascii_ltb_trans : forall a b c, ascii_ltb a b = true -> ascii_ltb b c = true -> ascii_ltb a c = true.
Proof. unfold ascii_ltb; intros a b c H1 H2. apply Nat.ltb_lt in H1, H2. apply Nat.ltb_lt. lia. Qed.

Lemma ascii_ltb_total : forall a b, ascii_ltb a b = false -> ascii_ltb b a = false -> a = b.
Proof.
  unfold ascii_ltb; intros a b H1 H2. apply Nat.ltb_ge in H1, H2.
  assert (H : nat_of_ascii a = nat_of_ascii b) by lia.
  rewrite <- (ascii_nat_embedding a), <- (ascii_nat_embedding b), H. reflexivity.
Qed.

Lemma str_ltb_irrefl : forall a, str_ltb a a = false.
Proof. induction a as [|x a IH]; cbn [str_ltb]; [reflexivity|]. rewrite ascii_ltb_irrefl. exact IH. Qed.

Lemma str_ltb_trans : forall a b c, str_ltb a b = true -> str_ltb b c = true -> str_ltb a c = true.
Proof.
  induction a as [|x a IH]; intros [|y b] [|z c]; cbn [str_ltb]; try congruence. intros H1 H2.
  destruct (ascii_ltb x y) eqn:Exy.
  - destruct (ascii_ltb y z) eqn:Eyz.
    + rewrite (ascii_ltb_trans _ _ _ Exy Eyz). reflexivity.
    + destruct (ascii_ltb z y) eqn:Ezy; [discriminate|].
      pose proof (ascii_ltb_total _ _ Eyz Ezy); subst z. rewrite Exy. reflexivity.
  - destruct (ascii_ltb y x) eqn:Eyx; [discriminate|].
    pose proof (ascii_ltb_total _ _ Exy Eyx); subst y.
    destruct (ascii_ltb x z); [reflexivity|]. destruct (ascii_ltb z x); [discriminate|]. eapply IH; eauto.
Qed.

Lemma str_ltb_total : forall a b, str_ltb a b = false -> str_ltb b a = false -> a = b.
Proof.
  induction a as [|x a IH]; intros [|y b]; cbn [str_ltb]; try congruence. intros H1 H2.
  destruct (ascii_ltb x y) eqn:Exy; [discriminate|]. destruct (ascii_ltb y x) eqn:Eyx; [discriminate|].
  pose proof (ascii_ltb_total _ _ Exy Eyx); subst y. f_equal. apply IH; assumption.
Qed.

Definition slt (a b : string) : Prop := str_ltb a b = true.

Lemma insert_str_In : forall x l t, In t (insert_str x l) <-> t = x \/ In t l.
Proof.
  induction l as [|y l IH]; intros t; cbn.
  - intuition.
  - destruct (str_ltb x y); [cbn; intuition|].
    destruct (String.eqb x y) eqn:E.
    + apply String.eqb_eq in E; subst y. cbn; intuition.
    + cbn. rewrite IH. intuition.
Qed.

Lemma insert_str_sorted : forall x l, StronglySorted slt l -> StronglySorted slt (insert_str x l).
Proof.
  induction l as [|y l IH]; intros H; cbn.
  - constructor; constructor.
  - inversion H as [|? ? Hs Hf]; subst.
    destruct (str_ltb x y) eqn:Exy.
    + constructor; [assumption|]. constructor; [exact Exy|].
      eapply Forall_impl; [|exact Hf]. intros a Ha. eapply str_ltb_trans; eauto.
    + destruct (String.eqb x y) eqn:E; [assumption|].
      constructor; [apply IH; assumption|].
      apply Forall_forall. intros a Ha. apply insert_str_In in Ha. destruct Ha as [->|Ha].
      * destruct (str_ltb y x) eqn:Eyx; [exact Eyx|]. apply String.eqb_neq in E. exfalso; apply E.
        apply str_ltb_total; assumption.
      * rewrite Forall_forall in Hf. apply Hf; assumption.
Qed.

Lemma sorted_set_In : forall l t, In t (sorted_set l) <-> In t l.
Proof.
  unfold sorted_set. induction l as [|x l IH]; intros t; cbn; [tauto|].
  rewrite insert_str_In, IH. intuition.
Qed.

Lemma sorted_set_sorted : forall l, StronglySorted slt (sorted_set l).
Proof.
  unfold sorted_set. induction l as [|x l IH]; cbn; [constructor|]. apply insert_str_sorted; assumption.
Qed.

Lemma ssorted_nth : forall l, StronglySorted slt l ->
  forall i j a b, i < j -> nth_error l i = Some a -> nth_error l j = Some b -> str_ltb a b = true.
Proof.
  induction 1 as [|x l Hs IH Hf]; intros i j a b Hij Ha Hb.
  - destruct i; discriminate.
  - destruct j as [|j]; [lia|]. cbn in Hb. destruct i as [|i]; cbn in Ha.
    + inversion Ha; subst. rewrite Forall_forall in Hf. apply Hf. eapply nth_error_In; eauto.
    + eapply IH; [|eassumption|eassumption]. lia.
Qed.

(* ====================================================================== *)
(* merge_one / merge_sources                                               *)
(* ====================================================================== *)
Definition step_list (k : string) (sd ret : list (string * val)) : res (list (string * val)) :=
  match assoc k sd with
  | None => ok ret
  | Some x => do l <- vlist x;
              let cur := match assoc k ret with Some (VList c) => c | _ => [] end in
              ok (assoc_set k (VList (cur ++ l)) ret)
  end.
Definition step_ecp (s : val) (sd ret1 : list (string * val)) : res (list (string * val)) :=
  match assoc "ecp_potentials" sd with
  | None => ok ret1
  | Some p => match assoc "ecp_potentials" ret1 with
              | Some _ => fail ERuntime
              | None => do ne <- vfield "ecp_electrons" s;
                        ok (assoc_set "ecp_electrons" ne (assoc_set "ecp_potentials" p ret1))
              end
  end.

Lemma merge_one_steps : forall ret s,
  merge_one ret s = do sd <- vdict s; do ret1 <- step_list "electron_shells" sd ret;
                    do ret2 <- step_ecp s sd ret1; step_list "references" sd ret2.
Proof. reflexivity. Qed.

Definition odef (o : option (list val)) : list val := match o with Some c => c | None => [] end.
Definition osome (o : option (list val)) : bool := match o with Some _ => true | None => false end.

Lemma step_list_same : forall k sd ret r o,
  step_list k sd ret = inr r -> assoc k ret = option_map VList o ->
  assoc k r = option_map VList (if key_present k (VDict sd) then Some (odef o ++ list_under k (VDict sd)) else o).
Proof.
  unfold step_list. intros k sd ret r o H Ho. cbn [key_present list_under].
  destruct (assoc k sd) as [x|] eqn:Ex.
  - inv_bind H. apply vlist_inr in E; subst x. apply ok_inj in H; subst r.
    rewrite assoc_set_same. rewrite Ho. destruct o; reflexivity.
  - apply ok_inj in H; subst r. exact Ho.
Qed.

Lemma step_list_other : forall k k' sd ret r,
  step_list k sd ret = inr r -> k' <> k -> assoc k' r = assoc k' ret.
Proof.
  unfold step_list. intros k k' sd ret r H Hne. destruct (assoc k sd) as [x|].
  - inv_bind H. apply ok_inj in H; subst r. apply assoc_set_other; assumption.
  - apply ok_inj in H; subst r. reflexivity.
Qed.

Lemma step_list_keys : forall k sd ret r x,
  step_list k sd ret = inr r -> In x (map fst r) -> x = k \/ In x (map fst ret).
Proof.
  unfold step_list. intros k sd ret r x H Hin. destruct (assoc k sd) as [y|].
  - inv_bind H. apply ok_inj in H; subst r. eapply assoc_set_keys_in; eauto.
  - apply ok_inj in H; subst r. auto.
Qed.

Lemma step_ecp_cases : forall sd ret1 r,
  step_ecp (VDict sd) sd ret1 = inr r ->
  (assoc "ecp_potentials" sd = None /\ r = ret1) \/
  (exists p ne, assoc "ecp_potentials" sd = Some p /\ assoc "ecp_potentials" ret1 = None /\
                assoc "ecp_electrons" sd = Some ne /\
                r = assoc_set "ecp_electrons" ne (assoc_set "ecp_potentials" p ret1)).
Proof.
  unfold step_ecp. intros sd ret1 r H. destruct (assoc "ecp_potentials" sd) as [p|].
  - right. destruct (assoc "ecp_potentials" ret1) eqn:E1; [discriminate|].
    inv_bind H. apply ok_inj in H. apply vfield_inr in E. destruct E as (d & Hd & Hne). inversion Hd; subst d.
    exists p, x. auto.
  - left. apply ok_inj in H. auto.
Qed.

Lemma merge_one_inv : forall ret s r, merge_one ret s = inr r ->
  exists sd ret1 ret2, s = VDict sd /\ step_list "electron_shells" sd ret = inr ret1 /\
    step_ecp (VDict sd) sd ret1 = inr ret2 /\ step_list "references" sd ret2 = inr r.
Proof.
  intros ret s r H. rewrite merge_one_steps in H. inv_bind H. apply vdict_inr in E; subst s.
  inv_bind H. inv_bind H. eauto 8.
Qed.

Lemma key_present_false_list_under : forall k s, key_present k s = false -> list_under k s = [].
Proof.
  intros k s H. destruct s; try reflexivity. cbn in *. destruct (assoc k l); [discriminate|reflexivity].
Qed.

Lemma merge_one_list : forall k ret s r o,
  k = "electron_shells" \/ k = "references" ->
  merge_one ret s = inr r -> assoc k ret = option_map VList o ->
  assoc k r = option_map VList (if key_present k s then Some (odef o ++ list_under k s) else o).
Proof.
  intros k ret s r o Hk H Ho. apply merge_one_inv in H. destruct H as (sd & ret1 & ret2 & -> & H1 & H2 & H3).
  apply step_ecp_cases in H2.
  assert (Hep : k <> "ecp_potentials") by (destruct Hk; subst; discriminate).
  assert (Hee : k <> "ecp_electrons") by (destruct Hk; subst; discriminate).
  assert (H12 : assoc k ret2 = assoc k ret1).
  { destruct H2 as [[_ ->]|(p & ne & _ & _ & _ & ->)]; [reflexivity|].
    rewrite assoc_set_other by assumption. apply assoc_set_other; assumption. }
  destruct Hk; subst k.
  - rewrite (step_list_other _ _ _ _ _ H3) by discriminate. rewrite H12. eapply step_list_same; eauto.
  - eapply step_list_same; [eassumption|]. rewrite H12. rewrite (step_list_other _ _ _ _ _ H1) by discriminate. assumption.
Qed.

Lemma merge_sources_list : forall k srcs ret r o,
  k = "electron_shells" \/ k = "references" ->
  merge_sources ret srcs = inr r -> assoc k ret = option_map VList o ->
  assoc k r = option_map VList (if osome o || existsb (key_present k) srcs
                                then Some (odef o ++ flat_map (list_under k) srcs) else None).
Proof.
  intros k srcs. induction srcs as [|s t IH]; intros ret r o Hk H Ho; cbn in H.
  - apply ok_inj in H; subst r. cbn. rewrite app_nil_r, orb_false_r. rewrite Ho. destruct o; reflexivity.
  - inv_bind H. pose proof (merge_one_list _ _ _ _ _ Hk E Ho) as H1.
    rewrite (IH _ _ _ Hk H H1). cbn [existsb flat_map].
    destruct (key_present k s) eqn:Ek; cbn [osome odef].
    + rewrite orb_true_l, orb_true_r, app_assoc. reflexivity.
    + rewrite (key_present_false_list_under _ _ Ek). cbn. reflexivity.
Qed.

Lemma merge_one_keys : forall ret s r x, merge_one ret s = inr r ->
  In x (map fst r) ->
  In x ["electron_shells"; "ecp_potentials"; "ecp_electrons"; "references"] \/ In x (map fst ret).
Proof.
  intros ret s r x H Hin. apply merge_one_inv in H. destruct H as (sd & ret1 & ret2 & -> & H1 & H2 & H3).
  destruct (step_list_keys _ _ _ _ _ H3 Hin) as [->|Hin2]; [left; cbn; tauto|].
  assert (Hin1 : In x ["electron_shells"; "ecp_potentials"; "ecp_electrons"; "references"] \/ In x (map fst ret1)).
  { apply step_ecp_cases in H2. destruct H2 as [[_ ->]|(p & ne & _ & _ & _ & ->)]; [auto|].
    apply assoc_set_keys_in in Hin2. destruct Hin2 as [->|Hin2]; [left; cbn; tauto|].
    apply assoc_set_keys_in in Hin2. destruct Hin2 as [->|Hin2]; [left; cbn; tauto|auto]. }
  destruct Hin1 as [?|Hin1]; [auto|].
  destruct (step_list_keys _ _ _ _ _ H1 Hin1) as [->|?]; [left; cbn; tauto|auto].
Qed.

Lemma merge_sources_keys : forall srcs ret r x, merge_sources ret srcs = inr r ->
  In x (map fst r) ->
  In x ["electron_shells"; "ecp_potentials"; "ecp_electrons"; "references"] \/ In x (map fst ret).
Proof.
  induction srcs as [|s t IH]; intros ret r x H Hin; cbn in H.
  - apply ok_inj in H; subst; auto.
  - inv_bind H. destruct (IH _ _ _ H Hin) as [?|Hin1]; [auto|]. eapply merge_one_keys; eauto.
Qed.

Lemma merge_one_ep_some : forall ret s r p, merge_one ret s = inr r ->
  assoc "ecp_potentials" ret = Some p ->
  assoc "ecp_potentials" r = Some p /\ assoc "ecp_electrons" r = assoc "ecp_electrons" ret /\
  key_present "ecp_potentials" s = false.
Proof.
  intros ret s r p H Hp. apply merge_one_inv in H. destruct H as (sd & ret1 & ret2 & -> & H1 & H2 & H3).
  rewrite !(step_list_other _ _ _ _ _ H3) by discriminate.
  assert (Hp1 : assoc "ecp_potentials" ret1 = Some p) by (rewrite (step_list_other _ _ _ _ _ H1) by discriminate; assumption).
  apply step_ecp_cases in H2. destruct H2 as [[Hn ->]|(p' & ne & _ & Hc & _)]; [|congruence].
  rewrite !(step_list_other _ _ _ _ _ H1) by discriminate. cbn [key_present]. rewrite Hn. auto.
Qed.

Lemma merge_one_ep_none : forall ret s r, merge_one ret s = inr r ->
  assoc "ecp_potentials" ret = None ->
  (assoc "ecp_potentials" r = None /\ key_present "ecp_potentials" s = false) \/
  (exists sd p, s = VDict sd /\ assoc "ecp_potentials" sd = Some p /\ assoc "ecp_potentials" r = Some p /\
                assoc "ecp_electrons" r = assoc "ecp_electrons" sd).
Proof.
  intros ret s r H Hp. apply merge_one_inv in H. destruct H as (sd & ret1 & ret2 & -> & H1 & H2 & H3).
  rewrite !(step_list_other _ _ _ _ _ H3) by discriminate.
  apply step_ecp_cases in H2. destruct H2 as [[Hn ->]|(p' & ne & Hs & Hc & Hne & ->)].
  - left. rewrite (step_list_other _ _ _ _ _ H1) by discriminate. cbn [key_present]. rewrite Hn. auto.
  - right. exists sd, p'. repeat split; [assumption| |].
    + rewrite assoc_set_other by discriminate. apply assoc_set_same.
    + rewrite assoc_set_same. symmetry; assumption.
Qed.

Lemma merge_sources_ep_some : forall srcs ret r p, merge_sources ret srcs = inr r ->
  assoc "ecp_potentials" ret = Some p ->
  assoc "ecp_potentials" r = Some p /\ assoc "ecp_electrons" r = assoc "ecp_electrons" ret /\
  existsb (key_present "ecp_potentials") srcs = false.
Proof.
  induction srcs as [|s t IH]; intros ret r p H Hp; cbn in H.
  - apply ok_inj in H; subst; auto.
  - inv_bind H. destruct (merge_one_ep_some _ _ _ _ E Hp) as (H1 & H2 & H3).
    destruct (IH _ _ _ H H1) as (H4 & H5 & H6). cbn [existsb]. rewrite H3, H6. repeat split; congruence.
Qed.

Lemma merge_sources_ep_none : forall srcs ret r, merge_sources ret srcs = inr r ->
  assoc "ecp_potentials" ret = None ->
  (assoc "ecp_potentials" r = None /\ existsb (key_present "ecp_potentials") srcs = false) \/
  (exists s sd p, In s srcs /\ s = VDict sd /\ assoc "ecp_potentials" sd = Some p /\
                  assoc "ecp_potentials" r = Some p /\ assoc "ecp_electrons" r = assoc "ecp_electrons" sd).
Proof.
  induction srcs as [|s t IH]; intros ret r H Hp; cbn in H.
  - apply ok_inj in H; subst; auto.
  - inv_bind H. destruct (merge_one_ep_none _ _ _ E Hp) as [[H1 H2]|(sd & p & -> & Hs & H1 & H2)].
    + destruct (IH _ _ H H1) as [[H3 H4]|(s' & sd & p & Hin & Hrest)].
      * left. cbn [existsb]. rewrite H2, H4. auto.
      * right. exists s', sd, p. split; [right; assumption|assumption].
    + right. destruct (merge_sources_ep_some _ _ _ _ H H1) as (H3 & H4 & _).
      exists (VDict sd), sd, p. repeat split; [left; reflexivity|assumption|assumption|congruence].
Qed.

Lemma merge_sources_spec : merge_sources_spec_stmt.
Proof.
  intros srcs ret H. repeat split.
  - rewrite (merge_sources_list "electron_shells" srcs [] ret None (or_introl eq_refl) H eq_refl).
    cbn. destruct (existsb _ srcs); reflexivity.
  - rewrite (merge_sources_list "references" srcs [] ret None (or_intror eq_refl) H eq_refl).
    cbn. destruct (existsb _ srcs); reflexivity.
  - intros k Hk. destruct (merge_sources_keys _ _ _ _ H Hk) as [?|[]]; assumption.
  - intros p Hp. destruct (merge_sources_ep_none _ _ _ H eq_refl) as [[Hn _]|(s & sd & p' & Hin & -> & Hs & Hr & He)];
      [congruence|].
    exists (VDict sd), sd. repeat split; [assumption|congruence|assumption].
  - intros Hn. destruct (merge_sources_ep_none _ _ _ H eq_refl) as [[_ Hx]|(s & sd & p' & _ & _ & _ & Hr & _)];
      [assumption|congruence].
Qed.

Lemma merge_sources_app : forall a b ret,
  merge_sources ret (a ++ b) = do r <- merge_sources ret a; merge_sources r b.
Proof.
  induction a as [|s a IH]; intros b ret; cbn; [reflexivity|].
  destruct (merge_one ret s); cbn; [reflexivity|apply IH].
Qed.

Lemma merge_two_ecps_refused : merge_two_ecps_refused_stmt.
Proof.
  intros pre s1 mid s2 post K1 K2.
  destruct (merge_sources [] (pre ++ s1 :: mid ++ s2 :: post)) as [e|r] eqn:H; [eauto|exfalso].
  rewrite merge_sources_app in H. inv_bind H. cbn in H. inv_bind H.
  assert (Hp : exists p, assoc "ecp_potentials" x0 = Some p).
  { destruct (assoc "ecp_potentials" x) as [p|] eqn:Ex.
    - destruct (merge_one_ep_some _ _ _ _ E0 Ex) as (_ & _ & Hc). congruence.
    - destruct (merge_one_ep_none _ _ _ E0 Ex) as [[_ Hc]|(sd & p & _ & _ & Hr & _)]; [congruence|eauto]. }
  destruct Hp as [p Hp]. destruct (merge_sources_ep_some _ _ _ _ H Hp) as (_ & _ & Hc).
  rewrite existsb_app in Hc. cbn [existsb] in Hc. rewrite K2 in Hc. rewrite orb_true_l, orb_true_r in Hc. discriminate.
Qed.

(* ====================================================================== *)
(* whole_basis_types                                                       *)
(* ====================================================================== *)
Lemma types_of_In : forall key tkey el a, types_of key tkey el = inr a ->
  forall t, In t a <-> exists sh, In sh (list_under key el) /\ vfield tkey sh = inr (VStr t).
Proof.
  intros key tkey el a H t. destruct el; try discriminate. cbn in H. cbn [list_under].
  destruct (assoc key l) as [x|].
  - inv_bind H. apply vlist_inr in E; subst x. split.
    + intros Ht. destruct (mapM_in_out _ _ _ _ _ _ H Ht) as (sh & Hsh & Hf). inv_bind Hf. apply vstr_inr in Hf; subst x.
      eauto.
    + intros (sh & Hsh & Hv). destruct (mapM_ok_each _ _ _ _ _ sh H Hsh) as (b & Hb & Hin).
      cbn beta in Hb. rewrite Hv in Hb. cbn in Hb. apply ok_inj in Hb; subst b. assumption.
  - apply ok_inj in H; subst a. split; [intros []|intros (sh & [] & _)].
Qed.

Lemma whole_basis_types_spec : whole_basis_types_spec_stmt.
Proof.
  intros els ft H. unfold whole_basis_types in H. inv_bind H. apply ok_inj in H; subst ft. split.
  - intros t. rewrite sorted_set_In, in_concat. split.
    + intros (l & Hl & Ht). destruct (mapM_in_out _ _ _ _ _ _ E Hl) as (kv & Hkv & Hf).
      inv_bind Hf. inv_bind Hf. apply ok_inj in Hf; subst l. apply in_app_or in Ht. destruct Ht as [Ht|Ht].
      * apply (types_of_In _ _ _ _ E0) in Ht. destruct Ht as (sh & Hsh & Hv). exists kv, sh. auto.
      * apply (types_of_In _ _ _ _ E1) in Ht. destruct Ht as (sh & Hsh & Hv). exists kv, sh. auto.
    + intros (kv & sh & Hkv & Hcase). destruct (mapM_ok_each _ _ _ _ _ kv E Hkv) as (l & Hf & Hl).
      exists l. split; [assumption|]. cbn beta in Hf. inv_bind Hf. inv_bind Hf. apply ok_inj in Hf; subst l.
      apply in_or_app. destruct Hcase as [[Hsh Hv]|[Hsh Hv]].
      * left. apply (types_of_In _ _ _ _ E0). eauto.
      * right. apply (types_of_In _ _ _ _ E1). eauto.
  - apply ssorted_nth, sorted_set_sorted.
Qed.

(* ====================================================================== *)
(* compose_elemental_basis / compose_table_basis                           *)
(* ====================================================================== *)
(* the entry of element z in component file c, references wrapped *)
Definition comp_entry (d : datadir) (z c : string) : res val :=
  do comp <- read_json_basis d c;
  do w <- wrap_component comp;
  do els <- vfield "elements" w;
  match els with
  | VDict ce => match assoc z ce with Some x => ok x | None => fail ERuntime end
  | _ => fail EType
  end.
(* spec_element, from the element-file entry e of z onwards *)
Definition entry_spec (d : datadir) (z : string) (e : val) : res (list (string * val)) :=
  do comps <- (do c <- vfield "components" e; do l <- vlist c; mapM vstr l);
  do srcs <- mapM (comp_entry d z) comps;
  merge_sources [] srcs.

Lemma spec_element_eq : forall d efile z ef els e m,
  read_json_basis d efile = inr ef -> vfield "elements" ef = inr els -> vfield z els = inr e ->
  entry_spec d z e = inr m -> spec_element d efile z = inr (VDict m).
Proof.
  intros d efile z ef els e m H1 H2 H3 H4. unfold spec_element, spec_sources.
  rewrite H1; cbn [bind]. rewrite H2; cbn [bind]. rewrite H3; cbn [bind].
  unfold entry_spec in H4. inv_bind H4. inv_bind H4. rewrite E; cbn [bind].
  change (mapM _ x) with (mapM (comp_entry d z) x). rewrite E0; cbn [bind]. rewrite H4. reflexivity.
Qed.

Lemma cmap_lookup : forall d files cmap,
  mapM (fun f => do j <- read_json_basis d f; do w <- wrap_component j; ok (f, w)) files = inr cmap ->
  forall c w, assoc c cmap = Some w -> exists j, read_json_basis d c = inr j /\ wrap_component j = inr w.
Proof.
  intros d files cmap H c w Hc. apply assoc_In in Hc.
  destruct (mapM_in_out _ _ _ _ _ _ H Hc) as (f & _ & Hf). inv_bind Hf. inv_bind Hf. inversion Hf; subst. eauto.
Qed.

Lemma comp_lookup_spec : forall d cmap z c s,
  (forall c w, assoc c cmap = Some w -> exists j, read_json_basis d c = inr j /\ wrap_component j = inr w) ->
  match assoc c cmap with
  | None => fail EKey
  | Some comp => do ce <- (do e <- vfield "elements" comp; vdict e);
                 match assoc z ce with None => fail ERuntime | Some x => ok x end
  end = inr s ->
  comp_entry d z c = inr s.
Proof.
  intros d cmap z c s Hc H. destruct (assoc c cmap) as [comp|] eqn:Ec; [|discriminate].
  destruct (Hc _ _ Ec) as (j & Hj & Hw). unfold comp_entry. rewrite Hj; cbn [bind]. rewrite Hw; cbn [bind].
  inv_bind H. inv_bind E. rewrite E0; cbn [bind]. apply vdict_inr in E; subst x0. exact H.
Qed.

Definition elem_rel (d : datadir) (kv kv' : string * val) : Prop :=
  fst kv' = fst kv /\ exists m, snd kv' = VDict m /\ entry_spec d (fst kv) (snd kv) = inr m.

Lemma compose_elemental_inv : forall d f data, compose_elemental_basis d f = inr data ->
  exists top els els', read_json_basis d f = inr (VDict top) /\ assoc "elements" top = Some (VDict els) /\
    data = VDict (assoc_set "elements" (VDict els') top) /\ Forall2 (elem_rel d) els els'.
Proof.
  intros d f data H. unfold compose_elemental_basis in H.
  inv_bind H. rename x into el_bs, E into Hread.
  inv_bind H. rename x into top, E into Htop. apply vdict_inr in Htop; subst el_bs.
  inv_bind H. rename x into els, E into Hels. inv_bind Hels. apply vdict_inr in Hels; subst x.
  apply vfield_inr in E. destruct E as (top' & Heq & Hel). inversion Heq; subst top'; clear Heq.
  inv_bind H. rename x into comp_lists, E into Hcl.
  inv_bind H. rename x into cmap, E into Hcmap.
  inv_bind H. rename x into els', E into Hels'. apply ok_inj in H; subst data.
  exists top, els, els'. repeat split; try assumption.
  pose proof (cmap_lookup _ _ _ Hcmap) as Hlk.
  apply mapM_F2 in Hels'. eapply F2_impl; [|exact Hels']. clear Hels'.
  intros kv kv' Hk. cbn beta in Hk. inv_bind Hk. rename x into comps, E into Hcomps.
  inv_bind Hk. rename x into srcs, E into Hsrcs. inv_bind Hk. apply ok_inj in Hk; subst kv'.
  split; [reflexivity|]. exists x. split; [reflexivity|].
  unfold entry_spec. rewrite Hcomps; cbn [bind].
  assert (Hs : mapM (comp_entry d (fst kv)) comps = inr srcs).
  { apply F2_mapM. apply mapM_F2 in Hsrcs. eapply F2_impl; [|exact Hsrcs].
    intros c s Hcs. eapply comp_lookup_spec; eauto. }
  rewrite Hs; cbn [bind]. exact E.
Qed.

Lemma assoc_F2 : forall (R : string * val -> string * val -> Prop) els els' z x,
  Forall2 R els els' -> (forall kv kv', R kv kv' -> fst kv' = fst kv) ->
  assoc z els' = Some x -> exists e, assoc z els = Some e /\ R (z, e) (z, x).
Proof.
  intros R els els' z x HF Hfst. induction HF as [|[k e] [k' x'] l l' HR HF IH]; cbn; intros H; [discriminate|].
  pose proof (Hfst _ _ HR) as Hk; cbn in Hk; subst k'.
  destruct (String.eqb z k) eqn:E.
  - apply String.eqb_eq in E; subst k. inversion H; subst x'. eauto.
  - apply IH; assumption.
Qed.

Lemma emap_lookup : forall d files emap,
  mapM (fun f => do e <- compose_elemental_basis d f; ok (f, e)) files = inr emap ->
  forall f data, assoc f emap = Some data -> compose_elemental_basis d f = inr data.
Proof.
  intros d files emap H f data Hf. apply assoc_In in Hf.
  destruct (mapM_in_out _ _ _ _ _ _ H Hf) as (f' & _ & Hf'). inv_bind Hf'. inversion Hf'; subst. assumption.
Qed.

Definition meta_path (t : string) : string :=
  path_join (dirname t) (hd "" (split_on "." (basename t)) +++ ".metadata.json").

Definition schema_complete : val := VDict [("schema_type", VStr "complete"); ("schema_version", VStr "0.1")].

Definition table_rel (d : datadir) (kv' kv : string * val) : Prop :=
  fst kv' = fst kv /\ exists efile, snd kv = VStr efile /\ spec_element d efile (fst kv) = inr (snd kv').

(* the shape of a successful compose_table_basis *)
Lemma compose_table_inv : forall d t b, compose_table_basis d t = inr b ->
  exists top tels els' version ftypes md,
    read_json_basis d t = inr (VDict top) /\ assoc "elements" top = Some (VDict tels) /\
    Forall2 (table_rel d) els' tels /\
    nth_from_end (split_on "." (basename t)) 2 = inr version /\ whole_basis_types els' = inr ftypes /\
    read_json_basis d (meta_path t) = inr (VDict md) /\
    b = VDict (assoc_set "molssi_bse_schema" schema_complete
                 (dict_update (assoc_set "function_types" (VStrs ftypes)
                                 (assoc_set "version" (VStr version) (assoc_set "elements" (VDict els') top))) md)).
Proof.
  intros d t b H. unfold compose_table_basis in H.
  inv_bind H. rename x into table, E into Hread.
  inv_bind H. rename x into top, E into Htop. apply vdict_inr in Htop; subst table.
  inv_bind H. rename x into tels, E into Htels. inv_bind Htels. apply vdict_inr in Htels; subst x.
  apply vfield_inr in E. destruct E as (top' & Heq & Hel). inversion Heq; subst top'; clear Heq.
  inv_bind H. rename x into efiles, E into Hef.
  inv_bind H. rename x into emap, E into Hemap.
  inv_bind H. rename x into els', E into Hels'.
  inv_bind H. rename x into version, E into Hver.
  inv_bind H. rename x into ftypes, E into Hft.
  inv_bind H. rename x into meta, E into Hmeta.
  inv_bind H. rename x into md, E into Hmd. apply vdict_inr in Hmd; subst meta. apply ok_inj in H; subst b.
  exists top, tels, els', version, ftypes, md. repeat split; try assumption.
  pose proof (emap_lookup _ _ _ Hemap) as Hlk.
  apply F2_flip. apply mapM_F2 in Hels'. eapply F2_impl; [|exact Hels']. clear Hels'.
  intros kv kv' Hk. cbn beta in Hk. inv_bind Hk. rename x into f, E into Hf. apply vstr_inr in Hf.
  destruct (assoc f emap) as [data|] eqn:Edata; [|discriminate].
  inv_bind Hk. rename x into de, E into Hde. inv_bind Hde. apply vdict_inr in Hde; subst x.
  destruct (assoc (fst kv) de) as [x|] eqn:Ex; [|discriminate]. apply ok_inj in Hk; subst kv'.
  split; [reflexivity|]. exists f. split; [assumption|]. cbn [snd].
  apply Hlk in Edata. apply compose_elemental_inv in Edata.
  destruct Edata as (etop & eels & eels' & Her & Hee & -> & HF).
  rewrite vfield_dict, assoc_set_same in E. apply ok_inj in E. inversion E; subst de; clear E.
  destruct (assoc_F2 (elem_rel d) _ _ _ _ HF (fun kv kv' (H : elem_rel d kv kv') => proj1 H) Ex) as (e & He & _ & m & Hm & Hs).
  cbn [fst snd] in Hm, Hs. subst x.
  eapply spec_element_eq; [exact Her| | |exact Hs].
  - rewrite vfield_dict, Hee. reflexivity.
  - rewrite vfield_dict, He. reflexivity.
Qed.

Lemma table_rel_keys : forall d els' tels, Forall2 (table_rel d) els' tels -> map fst els' = map fst tels.
Proof. induction 1 as [|a b l l' [Hab _] HF IH]; cbn; [reflexivity|]. rewrite Hab, IH. reflexivity. Qed.

(* compose_table_elements as stated is false when the metadata file carries its own "elements" key:
   dict_update lets the metadata override every field of the composed table, "elements" included.
   Counterexample: a metadata file {"molssi_bse_schema": .., "elements": 0} gives vfield "elements" b = inr (VInt 0).
   Condition added: the metadata file of the table has no "elements" key. *)
Lemma compose_table_elements_partial :
  forall d t b, compose_table_basis d t = inr b ->
    (forall md, read_json_basis d (meta_path t) = inr (VDict md) -> assoc "elements" md = None) ->
    exists table tels els',
      read_json_basis d t = inr table /\ vfield "elements" table = inr (VDict tels) /\
      vfield "elements" b = inr (VDict els') /\ map fst els' = map fst tels /\
      Forall2 (fun kv' kv => exists efile, snd kv = VStr efile /\ spec_element d efile (fst kv) = inr (snd kv')) els' tels.
Proof.
  intros d t b H Hmeta. apply compose_table_inv in H.
  destruct H as (top & tels & els' & version & ftypes & md & Hread & Hel & HF & Hver & Hft & Hmd & ->).
  exists (VDict top), tels, els'. repeat split.
  - assumption.
  - rewrite vfield_dict, Hel. reflexivity.
  - rewrite vfield_dict, assoc_set_other by discriminate. rewrite dict_update_none by (apply Hmeta; assumption).
    rewrite !assoc_set_other by discriminate. rewrite assoc_set_same. reflexivity.
  - eapply table_rel_keys; eauto.
  - eapply F2_impl; [|exact HF]. intros a b [_ Hab]. exact Hab.
Qed.

Lemma F2_in_r_ex : forall A B (R : A -> B -> Prop) l l' b, Forall2 R l l' -> In b l' -> exists a, R a b.
Proof. intros A B R l l' b HF Hin. destruct (F2_in_r _ _ _ _ _ _ HF Hin) as (a & _ & Ha). eauto. Qed.

Lemma compose_refuses : compose_refuses_stmt.
Proof.
  intros d t table tels z efile Hread Hel Hin [e He].
  destruct (compose_table_basis d t) as [e'|b] eqn:H; [eauto|exfalso].
  apply compose_table_inv in H.
  destruct H as (top & tels' & els' & version & ftypes & md & Hread' & Hel' & HF & _).
  rewrite Hread in Hread'. inversion Hread'; subst table; clear Hread'.
  rewrite vfield_dict, Hel' in Hel. apply ok_inj in Hel. inversion Hel; subst tels'; clear Hel.
  destruct (F2_in_r_ex _ _ _ _ _ _ HF Hin) as (kv' & _ & efile' & Hs & Hspec). cbn [fst snd] in Hs, Hspec.
  inversion Hs; subst efile'. congruence.
Qed.

(* compose_table_fields as stated is false in two edge cases of the metadata file md:
   (1) md has its own "elements" key (as above: vfield "elements" b is then md's value, possibly not a dict, and
       function_types is not recomputed from it);
   (2) md has a duplicated key, e.g. [("x", 1); ("x", 2)]: assoc "x" md = Some 1 but dict.update keeps the last, 2.
   Conditions added: the metadata file has duplicate-free keys (always so for a parsed JSON object) and no "elements". *)
Lemma compose_table_fields_partial :
  forall d t b, compose_table_basis d t = inr b ->
    (forall md, read_json_basis d (meta_path t) = inr (VDict md) -> NoDup (map fst md) /\ assoc "elements" md = None) ->
    exists table meta md els',
      read_json_basis d t = inr table /\
      read_json_basis d (path_join (dirname t) (hd "" (split_on "." (basename t)) +++ ".metadata.json")) = inr meta /\
      meta = VDict md /\ vfield "elements" b = inr (VDict els') /\
      (forall k v, assoc k md = Some v -> k <> "molssi_bse_schema" -> vfield k b = inr v) /\
      (assoc "version" md = None -> exists ver, nth_from_end (split_on "." (basename t)) 2 = inr ver /\ vfield "version" b = inr (VStr ver)) /\
      (assoc "function_types" md = None -> exists ft, whole_basis_types els' = inr ft /\ vfield "function_types" b = inr (VStrs ft)) /\
      (forall k, ~ In k ["elements"; "version"; "function_types"; "molssi_bse_schema"] -> assoc k md = None -> vfield k b = vfield k table).
Proof.
  intros d t b H Hmeta. apply compose_table_inv in H.
  destruct H as (top & tels & els' & version & ftypes & md & Hread & Hel & HF & Hver & Hft & Hmd & ->).
  destruct (Hmeta _ Hmd) as [Hnd Hnoel].
  exists (VDict top), (VDict md), md, els'. repeat split.
  - assumption.
  - exact Hmd.
  - rewrite vfield_dict, assoc_set_other by discriminate. rewrite dict_update_none by assumption.
    rewrite !assoc_set_other by discriminate. rewrite assoc_set_same. reflexivity.
  - intros k v Hk Hne. rewrite vfield_dict, assoc_set_other by assumption.
    rewrite (dict_update_some _ _ _ _ Hnd Hk). reflexivity.
  - intros Hv. exists version. split; [assumption|].
    rewrite vfield_dict, assoc_set_other by discriminate. rewrite dict_update_none by assumption.
    rewrite assoc_set_other by discriminate. rewrite assoc_set_same. reflexivity.
  - intros Hf. exists ftypes. split; [assumption|].
    rewrite vfield_dict, assoc_set_other by discriminate. rewrite dict_update_none by assumption.
    rewrite assoc_set_same. reflexivity.
  - intros k Hk Hn. cbn [In] in Hk.
    rewrite vfield_dict, assoc_set_other by (intros ->; tauto). rewrite dict_update_none by assumption.
    rewrite !assoc_set_other by (intros ->; tauto). reflexivity.
Qed.

Print Assumptions merge_sources_spec.
Print Assumptions merge_two_ecps_refused.
Print Assumptions compose_table_elements_partial.
Print Assumptions compose_refuses.
Print Assumptions compose_table_fields_partial.
Print Assumptions whole_basis_types_spec.
