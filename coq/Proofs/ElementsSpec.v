(* Proofs of the C20 statements in Proofs/ElementsDefs.v: sorted(set()), the run grouping, the documented rejections of
   expand_elements, and the round trip expand_elements (compact_elements S) = sorted(set(S)). *)
From Coq Require Import Sorting.Sorted.
From BSE Require Import Model.Val Gen.GenLut Model.Lut Model.Elements Proofs.C20Finite Proofs.ElementsDefs.

(* ================= strings: append / reverse ================= *)
Lemma sapp_assoc a b c : (a +++ b) +++ c = a +++ (b +++ c).
Proof. induction a as [|x a IH]; cbn; [reflexivity|]. now rewrite IH. Qed.
Lemma sapp_nil_r a : a +++ "" = a.
Proof. induction a as [|x a IH]; cbn; [reflexivity|]. now rewrite IH. Qed.
Lemma srev_acc_spec s acc : srev_acc s acc = srev s +++ acc.
Proof.
  unfold srev. revert acc. induction s as [|x s IH]; intros acc; cbn [srev_acc]; [reflexivity|].
  rewrite IH. rewrite (IH (String x "")). rewrite sapp_assoc. reflexivity.
Qed.
Lemma srev_cons c s : srev (String c s) = srev s +++ String c "".
Proof. unfold srev at 1. cbn [srev_acc]. apply srev_acc_spec. Qed.
Lemma srev_app x y : srev (x +++ y) = srev y +++ srev x.
Proof.
  induction x as [|a x IH]; cbn [String.append].
  - change (srev "") with "". now rewrite sapp_nil_r.
  - rewrite !srev_cons, IH, sapp_assoc. reflexivity.
Qed.
Lemma srev_invol s : srev (srev s) = s.
Proof.
  induction s as [|a s IH]; [reflexivity|].
  rewrite srev_cons, srev_app, IH. reflexivity.
Qed.

(* ================= sort_dedupe ================= *)
Lemma insert_dedupe_in x l z : In z (insert_dedupe x l) <-> z = x \/ In z l.
Proof.
  induction l as [|y t IH]; cbn [insert_dedupe].
  - cbn. intuition.
  - destruct (x <? y)%Z eqn:E1; [cbn; intuition|].
    destruct (x =? y)%Z eqn:E2.
    + apply Z.eqb_eq in E2. subst y. cbn. intuition.
    + cbn [In]. rewrite IH. intuition.
Qed.
Lemma insert_dedupe_sorted x l : StronglySorted Z.lt l -> StronglySorted Z.lt (insert_dedupe x l).
Proof.
  induction l as [|y t IH]; intros Hs; cbn [insert_dedupe].
  - constructor; constructor.
  - apply StronglySorted_inv in Hs. destruct Hs as [Ht Hy].
    destruct (x <? y)%Z eqn:E1.
    + apply Z.ltb_lt in E1. constructor; [constructor; assumption|].
      constructor; [assumption|]. rewrite Forall_forall in *. intros z Hz. specialize (Hy z Hz). lia.
    + destruct (x =? y)%Z eqn:E2; [constructor; assumption|].
      apply Z.ltb_ge in E1. apply Z.eqb_neq in E2.
      constructor; [apply IH; assumption|].
      rewrite Forall_forall in *. intros z Hz. apply insert_dedupe_in in Hz. destruct Hz as [->|Hz]; [lia|auto].
Qed.
Lemma sort_dedupe_spec : sort_dedupe_spec_stmt.
Proof.
  intros S. induction S as [|x S [IH1 IH2]]; cbn [sort_dedupe fold_right].
  - split; [constructor|]. intros z. tauto.
  - split; [apply insert_dedupe_sorted; exact IH1|].
    intros z. fold (sort_dedupe S). rewrite insert_dedupe_in, IH2. cbn. intuition.
Qed.

(* ================= runs ================= *)
Lemma zrange_snoc lo n : zrange lo (S n) = zrange lo n ++ [(lo + Z.of_nat n)%Z].
Proof.
  revert lo. induction n as [|n IH]; intros lo.
  - cbn. now rewrite Z.add_0_r.
  - cbn [zrange] in *. rewrite IH. cbn [app]. do 3 f_equal. lia.
Qed.
Lemma zrange_incl_snoc s e : (s <= e + 1)%Z -> zrange_incl s (e + 1) = zrange_incl s e ++ [(e + 1)%Z].
Proof.
  intros H. unfold zrange_incl.
  replace (Z.to_nat (e + 1 - s + 1)) with (S (Z.to_nat (e - s + 1))) by lia.
  rewrite zrange_snoc. do 2 f_equal. lia.
Qed.
Lemma zrange_incl_single a : zrange_incl a a = [a].
Proof. unfold zrange_incl. replace (a - a + 1)%Z with 1%Z by lia. reflexivity. Qed.
Lemma zrange_incl_pair a : zrange_incl a (a + 1) = [a; (a + 1)%Z].
Proof. unfold zrange_incl. replace (a + 1 - a + 1)%Z with 2%Z by lia. reflexivity. Qed.

Lemma runs_from_spec l : forall s e, (s <= e)%Z ->
  flat_map (fun r => zrange_incl (fst r) (snd r)) (runs_from s e l) = zrange_incl s e ++ l.
Proof.
  induction l as [|x t IH]; intros s e Hse; cbn [runs_from].
  - cbn. reflexivity.
  - destruct (x =? e + 1)%Z eqn:E.
    + apply Z.eqb_eq in E. subst x. rewrite IH by lia. rewrite zrange_incl_snoc by lia.
      rewrite <- app_assoc. reflexivity.
    + cbn [flat_map fst snd]. rewrite IH by lia. rewrite zrange_incl_single. reflexivity.
Qed.
Lemma runs_spec : runs_spec_stmt.
Proof.
  intros l. destruct l as [|x t]; [reflexivity|]. cbn [runs].
  rewrite runs_from_spec by lia. rewrite zrange_incl_single. reflexivity.
Qed.

Lemma expand_compact_empty : expand_compact_empty_stmt.
Proof. split; reflexivity. Qed.

(* ================= the documented rejections ================= *)
Definition is_rt (r : res (list Z)) : bool := match r with inl ERuntime => true | _ => false end.
Lemma is_rt_eq r : is_rt r = true -> r = inl ERuntime.
Proof. destruct r as [[]|]; cbn; intros H; try discriminate H; reflexivity. Qed.
Definition dangling_check (z : Z) : bool :=
  is_rt (expand_elements (SelStr (Z_to_string z +++ "-"))) &&
  is_rt (expand_elements (SelStr ("-" +++ Z_to_string z))) &&
  is_rt (expand_elements (SelStr (Z_to_string z +++ "-" +++ Z_to_string z +++ "-" +++ Z_to_string z))).
Lemma dangling_sweep : forallb dangling_check Zs = true.
Proof. vm_compute. reflexivity. Qed.
Lemma expand_rejects_dangling : expand_rejects_dangling_stmt.
Proof.
  intros z Hz. pose proof (proj1 (forallb_forall _ _) dangling_sweep z (Zs_spec z Hz)) as H.
  unfold dangling_check in H. rewrite !andb_true_iff in H. destruct H as [[H1 H2] H3].
  auto using is_rt_eq.
Qed.

(* the four malformed tests *)
Definition bad4 (s : string) : bool :=
  infix "-," s || infix ",-" s || str_prefix "-" s || str_suffix "-" s.
Definition norm4 (s : string) : string := strip "," (remove_ws (collapse "-" (collapse "," s))).
Lemma expand_string_bad s : bad4 (norm4 s) = true -> expand_string s = inl ERuntime.
Proof.
  unfold expand_string. fold (norm4 s). generalize (norm4 s) as s4. intros s4 H.
  destruct s4 as [|c t]; [discriminate H|].
  unfold bad4 in H.
  destruct (infix "-," (String c t)); [reflexivity|].
  destruct (infix ",-" (String c t)); [reflexivity|].
  cbn [orb] in H. rewrite H. reflexivity.
Qed.

Lemma str_prefix_app p y : str_prefix p (p +++ y) = true.
Proof. induction p as [|a p IH]; cbn; [reflexivity|]. rewrite Ascii.eqb_refl. exact IH. Qed.
Lemma infix_of_prefix p r : str_prefix p r = true -> infix p r = true.
Proof. intros H. destruct r; cbn [infix]; rewrite H; reflexivity. Qed.
Lemma infix_app p x r : str_prefix p r = true -> infix p (x +++ r) = true.
Proof.
  intros H. induction x as [|a x IH]; cbn [String.append]; [now apply infix_of_prefix|].
  cbn [infix]. rewrite IH. destruct (str_prefix p (String a (x +++ r))); reflexivity.
Qed.
Lemma infix_intro p x y : infix p (x +++ p +++ y) = true.
Proof. apply infix_app, str_prefix_app. Qed.
Lemma suffix_intro c x : str_suffix (String c "") (x +++ String c "") = true.
Proof.
  unfold str_suffix. rewrite srev_app. change (srev (String c "")) with (String c "").
  cbn. rewrite Ascii.eqb_refl. reflexivity.
Qed.

Lemma collapse_app_ne c d x t : d <> c ->
  collapse c (x +++ String d t) = collapse c x +++ String d (collapse c t).
Proof.
  intros Hd. apply Ascii.eqb_neq in Hd.
  induction x as [|a x IH]; cbn [String.append].
  - cbn [collapse]. rewrite Hd. reflexivity.
  - cbn [collapse]. destruct (Ascii.eqb a c) eqn:Ea.
    + destruct x as [|b x'].
      * cbn [String.append]. rewrite Hd. cbn [String.append collapse] in IH. rewrite Hd in IH.
        cbn [collapse]. rewrite Hd. reflexivity.
      * cbn [String.append] in *. destruct (Ascii.eqb b c) eqn:Eb.
        -- exact IH.
        -- rewrite IH. reflexivity.
    + rewrite IH. reflexivity.
Qed.
Lemma collapse_cons_eq c a t :
  collapse c (String a t) =
  if Ascii.eqb a c then
    match t with
    | String b _ => if Ascii.eqb b c then collapse c t else String a (collapse c t)
    | EmptyString => String a EmptyString
    end
  else String a (collapse c t).
Proof. reflexivity. Qed.
Lemma collapse_head c y : exists y', collapse c (String c y) = String c y'.
Proof.
  induction y as [|b y IH]; [exists ""; cbn; now rewrite Ascii.eqb_refl|].
  rewrite collapse_cons_eq. rewrite Ascii.eqb_refl. destruct (Ascii.eqb b c) eqn:Eb.
  - apply Ascii.eqb_eq in Eb. subst b. exact IH.
  - eexists. reflexivity.
Qed.
Lemma collapse_last c x : exists x', collapse c (x +++ String c "") = x' +++ String c "".
Proof.
  induction x as [|a x [x' IH]].
  - exists "". cbn. now rewrite Ascii.eqb_refl.
  - cbn [String.append collapse]. destruct (Ascii.eqb a c) eqn:Ea.
    + destruct (x +++ String c "") as [|b r] eqn:Er; [destruct x; discriminate Er|].
      destruct (Ascii.eqb b c).
      * exists x'. exact IH.
      * exists (String a x'). rewrite IH. reflexivity.
    + exists (String a x'). rewrite IH. reflexivity.
Qed.
Lemma remove_ws_app x y : remove_ws (x +++ y) = remove_ws x +++ remove_ws y.
Proof.
  induction x as [|a x IH]; cbn [String.append remove_ws]; [reflexivity|].
  destruct (is_space a); rewrite IH; reflexivity.
Qed.
Lemma lstrip_keep c d x y : d <> c -> exists x', lstrip c (x +++ String d y) = x' +++ String d y.
Proof.
  intros Hd. apply Ascii.eqb_neq in Hd. induction x as [|a x [x' IH]]; cbn [String.append lstrip].
  - rewrite Hd. exists "". reflexivity.
  - destruct (Ascii.eqb a c); [exists x'; exact IH|]. exists (String a x). reflexivity.
Qed.
Lemma lstrip_cd c d u v : d <> c ->
  (exists u', lstrip c (u +++ String c (String d v)) = u' +++ String c (String d v)) \/
  lstrip c (u +++ String c (String d v)) = String d v.
Proof.
  intros Hd. apply Ascii.eqb_neq in Hd. induction u as [|a u IH]; cbn [String.append lstrip].
  - right. rewrite Ascii.eqb_refl, Hd. reflexivity.
  - destruct (Ascii.eqb a c); [exact IH|]. left. exists (String a u). reflexivity.
Qed.

Lemma ne_dash_comma : "-"%char <> ","%char. Proof. discriminate. Qed.
Lemma ne_comma_dash : ","%char <> "-"%char. Proof. discriminate. Qed.

(* "-," survives the normalisation, or leaves a trailing "-" *)
Lemma norm4_dash_comma a b : bad4 (norm4 (a +++ "-," +++ b)) = true.
Proof.
  unfold norm4.
  (* collapse "," *)
  change (a +++ "-," +++ b) with (a +++ String "-" (String "," b)).
  rewrite (collapse_app_ne "," "-") by discriminate.
  destruct (collapse_head "," b) as [b1 Hb1]. rewrite Hb1.
  (* collapse "-" *)
  replace (collapse "," a +++ String "-" (String "," b1)) with ((collapse "," a +++ String "-" "") +++ String "," b1)
    by (rewrite sapp_assoc; reflexivity).
  rewrite (collapse_app_ne "-" ",") by discriminate.
  destruct (collapse_last "-" (collapse "," a)) as [a2 Ha2]. rewrite Ha2.
  rewrite sapp_assoc. cbn [String.append].
  (* remove_ws *)
  rewrite remove_ws_app. change (remove_ws (String "-" (String "," (collapse "-" b1))))
    with (String "-" (String "," (remove_ws (collapse "-" b1)))).
  generalize (remove_ws a2) as a3. generalize (remove_ws (collapse "-" b1)) as b3. intros b3 a3.
  (* strip *)
  unfold strip.
  destruct (lstrip_keep "," "-" a3 (String "," b3)) as [a4 Ha4]; [discriminate|]. rewrite Ha4.
  rewrite srev_app. rewrite !srev_cons. rewrite !sapp_assoc. cbn [String.append].
  destruct (lstrip_cd "," "-" (srev b3) (srev a4)) as [[u Hu]|Hu]; [discriminate| |]; rewrite Hu.
  - rewrite srev_app, !srev_cons, srev_invol, !sapp_assoc. cbn [String.append].
    unfold bad4. change (a4 +++ String "-" (String "," (srev u))) with (a4 +++ "-," +++ srev u).
    rewrite infix_intro. reflexivity.
  - rewrite srev_cons, srev_invol. unfold bad4. rewrite suffix_intro. rewrite !orb_true_r. reflexivity.
Qed.

(* ",-" survives the normalisation, or leaves a leading "-" *)
Lemma norm4_comma_dash a b : bad4 (norm4 (a +++ ",-" +++ b)) = true.
Proof.
  unfold norm4.
  replace (a +++ ",-" +++ b) with ((a +++ String "," "") +++ String "-" b) by (rewrite sapp_assoc; reflexivity).
  rewrite (collapse_app_ne "," "-") by discriminate.
  destruct (collapse_last "," a) as [a1 Ha1]. rewrite Ha1.
  rewrite sapp_assoc. cbn [String.append].
  rewrite (collapse_app_ne "-" ",") by discriminate.
  destruct (collapse_head "-" (collapse "," b)) as [b2 Hb2]. rewrite Hb2.
  rewrite remove_ws_app. change (remove_ws (String "," (String "-" b2))) with (String "," (String "-" (remove_ws b2))).
  generalize (remove_ws (collapse "-" a1)) as a3. generalize (remove_ws b2) as b3. intros b3 a3.
  unfold strip.
  destruct (lstrip_cd "," "-" a3 b3) as [[u Hu]|Hu]; [discriminate| |]; rewrite Hu.
  - rewrite srev_app, !srev_cons, !sapp_assoc. cbn [String.append].
    destruct (lstrip_keep "," "-" (srev b3) (String "," (srev u))) as [v Hv]; [discriminate|]. rewrite Hv.
    rewrite srev_app, !srev_cons, srev_invol, !sapp_assoc. cbn [String.append].
    unfold bad4. change (u +++ String "," (String "-" (srev v))) with (u +++ ",-" +++ srev v).
    rewrite infix_intro. rewrite orb_true_r. reflexivity.
  - rewrite srev_cons.
    destruct (lstrip_keep "," "-" (srev b3) "") as [v Hv]; [discriminate|]. rewrite Hv.
    rewrite srev_app. change (srev (String "-" "")) with (String "-" ""). cbn [String.append].
    unfold bad4. cbn [str_prefix]. rewrite orb_true_r. reflexivity.
Qed.

Lemma expand_rejects : expand_rejects_stmt.
Proof.
  intros a b. cbn [expand_elements]. split; apply expand_string_bad.
  - apply norm4_dash_comma.
  - apply norm4_comma_dash.
Qed.

(* ================= the round trip ================= *)
(* --- finite sweep: capitalised symbols are non-empty, alphabetic, and map back --- *)
Definition symz (z : Z) : string := match element_sym_from_Z z true with inr s => s | inl _ => "" end.
Definition sym_good (z : Z) : bool :=
  match element_sym_from_Z z true with
  | inr s => nonempty s && sall is_alpha s && res_eqb Z.eqb (element_Z_from_sym s) z
  | inl _ => false
  end.
Lemma sym_good_sweep : forallb sym_good Zs = true.
Proof. vm_compute. reflexivity. Qed.
Lemma sym_props z : (1 <= z <= 118)%Z ->
  element_sym_from_Z z true = inr (symz z) /\ symz z <> "" /\ sall is_alpha (symz z) = true /\
  element_Z_from_sym (symz z) = inr z.
Proof.
  intros Hz. pose proof (proj1 (forallb_forall _ _) sym_good_sweep z (Zs_spec z Hz)) as H.
  unfold sym_good, symz in *. destruct (element_sym_from_Z z true) as [e|s]; [discriminate H|].
  rewrite !andb_true_iff in H. destruct H as [[H1 H2] H3].
  repeat split; auto using res_eqb_Z. intros ->. discriminate H1.
Qed.

(* --- character classes --- *)
Lemma alpha_facts c : is_alpha c = true ->
  Ascii.eqb c "," = false /\ Ascii.eqb c "-" = false /\ is_space c = false /\ is_digit c = false /\ is_word c = true.
Proof.
  destruct c as [[] [] [] [] [] [] [] []]; vm_compute; intros H; try discriminate H; repeat split.
Qed.
Lemma alpha_not_comma c : is_alpha c = true -> Ascii.eqb c "," = false.
Proof. intros H. apply alpha_facts in H. tauto. Qed.
Lemma alpha_not_dash c : is_alpha c = true -> Ascii.eqb c "-" = false.
Proof. intros H. apply alpha_facts in H. tauto. Qed.
Lemma alpha_not_space c : is_alpha c = true -> is_space c = false.
Proof. intros H. apply alpha_facts in H. tauto. Qed.
Lemma alpha_not_digit c : is_alpha c = true -> is_digit c = false.
Proof. intros H. apply alpha_facts in H. tauto. Qed.
Lemma alpha_word c : is_alpha c = true -> is_word c = true.
Proof. intros H. apply alpha_facts in H. tauto. Qed.

(* --- the shape of compact_elements output: items separated by ',', an item is word or word-word ---
   states: 0 = start of an item, 1 = in the first word, 2 = just after '-', 3 = in the second word *)
Fixpoint wf (st : nat) (s : string) : bool :=
  match s with
  | EmptyString => match st with 1 | 3 => true | _ => false end
  | String c t =>
    match st with
    | 0 => is_alpha c && wf 1 t
    | 1 => if is_alpha c then wf 1 t else if Ascii.eqb c "," then wf 0 t else if Ascii.eqb c "-" then wf 2 t else false
    | 2 => is_alpha c && wf 3 t
    | 3 => if is_alpha c then wf 3 t else if Ascii.eqb c "," then wf 0 t else false
    | _ => false
    end
  end.

Lemma wf_cons st c t : wf st (String c t) = true ->
  (is_alpha c = true /\ ((st = 0 /\ wf 1 t = true) \/ (st = 1 /\ wf 1 t = true) \/
                         (st = 2 /\ wf 3 t = true) \/ (st = 3 /\ wf 3 t = true))) \/
  (c = ","%char /\ (st = 1 \/ st = 3) /\ wf 0 t = true) \/
  (c = "-"%char /\ st = 1 /\ wf 2 t = true).
Proof.
  intros H. destruct st as [|[|[|[|st]]]]; cbn [wf] in H.
  - apply andb_true_iff in H. destruct H as [Ha Ht]. left. split; [exact Ha|]. left. auto.
  - destruct (is_alpha c) eqn:Ea; [left; split; [reflexivity|]; right; left; auto|].
    destruct (Ascii.eqb c ",") eqn:Ec; [apply Ascii.eqb_eq in Ec; right; left; auto|].
    destruct (Ascii.eqb c "-") eqn:Ed; [apply Ascii.eqb_eq in Ed; right; right; auto|discriminate H].
  - apply andb_true_iff in H. destruct H as [Ha Ht]. left. split; [exact Ha|]. right; right; left. auto.
  - destruct (is_alpha c) eqn:Ea; [left; split; [reflexivity|]; right; right; right; auto|].
    destruct (Ascii.eqb c ",") eqn:Ec; [apply Ascii.eqb_eq in Ec; right; left; auto|discriminate H].
  - discriminate H.
Qed.
Lemma wf_tail st c t : wf st (String c t) = true -> exists st', wf st' t = true.
Proof. intros H. apply wf_cons in H. destruct H as [[_ [[_ H]|[[_ H]|[[_ H]|[_ H]]]]]|[[_ [_ H]]|[_ [_ H]]]]; eauto. Qed.
Lemma wf_02_head st s : (st = 0 \/ st = 2) -> wf st s = true -> exists b t, s = String b t /\ is_alpha b = true.
Proof.
  intros Hst H. destruct s as [|b t]; [destruct Hst; subst; discriminate H|].
  exists b, t. split; [reflexivity|]. destruct Hst; subst; cbn [wf] in H; apply andb_true_iff in H; tauto.
Qed.

Lemma collapse_wf c : (c = ","%char \/ c = "-"%char) -> forall s st, wf st s = true -> collapse c s = s.
Proof.
  intros Hc. induction s as [|a s IH]; intros st H; [reflexivity|].
  pose proof (wf_tail _ _ _ H) as [st' Ht]. rewrite collapse_cons_eq. rewrite (IH _ Ht).
  destruct (Ascii.eqb a c) eqn:Ea; [|reflexivity].
  destruct s as [|b s']; [reflexivity|].
  destruct (Ascii.eqb b c) eqn:Eb; [|reflexivity]. exfalso.
  apply Ascii.eqb_eq in Ea, Eb. subst a b.
  apply wf_cons in H. destruct H as [[Ha _]|[[_ [_ H]]|[_ [_ H]]]].
  - destruct Hc; subst c; discriminate Ha.
  - destruct (wf_02_head 0 _ (or_introl eq_refl) H) as [b [t [E Hb]]]. injection E as <- _.
    destruct Hc; subst c; discriminate Hb.
  - destruct (wf_02_head 2 _ (or_intror eq_refl) H) as [b [t [E Hb]]]. injection E as <- _.
    destruct Hc; subst c; discriminate Hb.
Qed.

Lemma remove_ws_wf s : forall st, wf st s = true -> remove_ws s = s.
Proof.
  induction s as [|a s IH]; intros st H; [reflexivity|].
  pose proof (wf_tail _ _ _ H) as [st' Ht]. cbn [remove_ws]. rewrite (IH _ Ht).
  assert (Hs : is_space a = false).
  { apply wf_cons in H. destruct H as [[Ha _]|[[-> _]|[-> _]]]; [now apply alpha_not_space|reflexivity|reflexivity]. }
  rewrite Hs. reflexivity.
Qed.

Lemma xyz_wf s : forall st, wf st s = true -> xyz_dfa st s = false.
Proof.
  induction s as [|a s IH]; intros st H; [reflexivity|].
  apply wf_cons in H. destruct H as [[Ha H]|[[-> [Hst H]]|[-> [-> H]]]].
  - cbn [xyz_dfa]. rewrite (alpha_word _ Ha).
    destruct H as [[-> H]|[[-> H]|[[-> H]|[-> H]]]]; apply IH; exact H.
  - destruct Hst as [-> | ->]; cbn [xyz_dfa]; change (is_word ",") with false; cbn; apply IH; exact H.
  - cbn [xyz_dfa]. change (is_word "-") with false. cbn. apply IH; exact H.
Qed.

Lemma infix_wf s : forall st, wf st s = true -> infix "-," s = false /\ infix ",-" s = false.
Proof.
  induction s as [|a s IH]; intros st H; [split; reflexivity|].
  pose proof (wf_tail _ _ _ H) as [st' Ht]. destruct (IH _ Ht) as [I1 I2].
  cbn [infix]. rewrite I1, I2.
  apply wf_cons in H. destruct H as [[Ha H]|[[-> [Hst H]]|[-> [-> H]]]].
  - cbn [str_prefix]. rewrite Ascii.eqb_sym, (alpha_not_dash _ Ha).
    rewrite (Ascii.eqb_sym "," a), (alpha_not_comma _ Ha). split; reflexivity.
  - destruct (wf_02_head 0 _ (or_introl eq_refl) H) as [b [t [-> Hb]]].
    cbn [str_prefix]. rewrite (Ascii.eqb_sym "-" b), (alpha_not_dash _ Hb). split; reflexivity.
  - destruct (wf_02_head 2 _ (or_intror eq_refl) H) as [b [t [-> Hb]]].
    cbn [str_prefix]. rewrite (Ascii.eqb_sym "," b), (alpha_not_comma _ Hb). split; reflexivity.
Qed.

Lemma wf_last s : forall st, wf st s = true -> s <> "" -> exists x d, s = x +++ String d "" /\ is_alpha d = true.
Proof.
  induction s as [|a s IH]; intros st H Hne; [congruence|].
  destruct s as [|b s'].
  - exists "", a. split; [reflexivity|].
    apply wf_cons in H. destruct H as [[Ha _]|[[_ [_ H]]|[_ [_ H]]]]; [exact Ha|discriminate H|discriminate H].
  - pose proof (wf_tail _ _ _ H) as [st' Ht]. destruct (IH _ Ht) as [x [d [E Hd]]]; [discriminate|].
    exists (String a x), d. rewrite E. split; [reflexivity|exact Hd].
Qed.

Lemma strip_id c e y x d : Ascii.eqb e c = false -> Ascii.eqb d c = false ->
  String e y = x +++ String d "" -> strip c (String e y) = String e y.
Proof.
  intros He Hd E. unfold strip. cbn [lstrip]. rewrite He. rewrite E at 1.
  rewrite srev_app. change (srev (String d "")) with (String d ""). cbn [String.append lstrip]. rewrite Hd.
  change (String d (srev x)) with (String d "" +++ srev x). rewrite srev_app, srev_invol.
  change (srev (String d "")) with (String d ""). symmetry. exact E.
Qed.

(* on a well-formed string expand_string goes straight to the tokens *)
Lemma expand_string_wf s : wf 0 s = true -> expand_string s = expand_tokens (split_on "," s).
Proof.
  intros H. unfold expand_string.
  rewrite (collapse_wf "," (or_introl eq_refl) _ _ H).
  rewrite (collapse_wf "-" (or_intror eq_refl) _ _ H).
  rewrite (remove_ws_wf _ _ H).
  destruct (wf_02_head 0 s (or_introl eq_refl) H) as [e [y [-> He]]].
  destruct (wf_last _ _ H) as [x [d [E Hd]]]; [discriminate|].
  rewrite (strip_id "," e y x d (alpha_not_comma _ He) (alpha_not_comma _ Hd) E).
  destruct (infix_wf _ _ H) as [I1 I2]. rewrite I1, I2.
  assert (P : str_prefix "-" (String e y) = false).
  { cbn [str_prefix]. rewrite Ascii.eqb_sym, (alpha_not_dash _ He). reflexivity. }
  assert (Q : str_suffix "-" (String e y) = false).
  { unfold str_suffix. rewrite E, srev_app. change (srev (String d "")) with (String d ""). change (srev "-") with "-".
    cbn [String.append str_prefix]. rewrite Ascii.eqb_sym, (alpha_not_dash _ Hd). reflexivity. }
  rewrite P, Q. cbn [orb]. unfold has_xyz. rewrite (xyz_wf _ _ H). reflexivity.
Qed.

(* --- alphabetic words inside well-formed strings --- *)
Lemma wf1_word w r : sall is_alpha w = true -> wf 1 (w +++ r) = wf 1 r.
Proof.
  induction w as [|a w IH]; intros H; [reflexivity|]. cbn [sall] in H. apply andb_true_iff in H. destruct H as [Ha Hw].
  cbn [String.append wf]. rewrite Ha. auto.
Qed.
Lemma wf3_word w r : sall is_alpha w = true -> wf 3 (w +++ r) = wf 3 r.
Proof.
  induction w as [|a w IH]; intros H; [reflexivity|]. cbn [sall] in H. apply andb_true_iff in H. destruct H as [Ha Hw].
  cbn [String.append wf]. rewrite Ha. auto.
Qed.
Lemma wf0_word w r : w <> "" -> sall is_alpha w = true -> wf 0 (w +++ r) = wf 1 r.
Proof.
  destruct w as [|a w]; intros Hne H; [congruence|]. cbn [sall] in H. apply andb_true_iff in H. destruct H as [Ha Hw].
  cbn [String.append wf]. rewrite Ha. cbn [andb]. now apply wf1_word.
Qed.
Lemma wf2_word w r : w <> "" -> sall is_alpha w = true -> wf 2 (w +++ r) = wf 3 r.
Proof.
  destruct w as [|a w]; intros Hne H; [congruence|]. cbn [sall] in H. apply andb_true_iff in H. destruct H as [Ha Hw].
  cbn [String.append wf]. rewrite Ha. cbn [andb]. now apply wf3_word.
Qed.

(* --- split_on --- *)
Lemma split_on_nonempty c s : split_on c s <> [].
Proof. destruct s as [|a t]; cbn [split_on]; [discriminate|]. destruct (Ascii.eqb a c); [discriminate|]. destruct (split_on c t); discriminate. Qed.
Lemma split_on_app c x y : split_on c (x +++ String c y) = split_on c x ++ split_on c y.
Proof.
  induction x as [|a x IH]; cbn [String.append split_on].
  - rewrite Ascii.eqb_refl. reflexivity.
  - destruct (Ascii.eqb a c); [rewrite IH; reflexivity|]. rewrite IH.
    pose proof (split_on_nonempty c x) as Hne. destruct (split_on c x) as [|h r]; [congruence|]. reflexivity.
Qed.
Lemma split_on_word c w : (c = ","%char \/ c = "-"%char) -> sall is_alpha w = true -> split_on c w = [w].
Proof.
  intros Hc. induction w as [|a w IH]; intros H; [reflexivity|]. cbn [sall] in H. apply andb_true_iff in H. destruct H as [Ha Hw].
  cbn [split_on]. rewrite (IH Hw).
  assert (E : Ascii.eqb a c = false) by (destruct Hc; subst c; [now apply alpha_not_comma|now apply alpha_not_dash]).
  rewrite E. reflexivity.
Qed.
Lemma has_char_app c x y : has_char c (x +++ y) = has_char c x || has_char c y.
Proof. unfold has_char. induction x as [|a x IH]; cbn [String.append sany]; [reflexivity|]. rewrite IH, orb_assoc. reflexivity. Qed.
Lemma has_char_word c w : (c = ","%char \/ c = "-"%char) -> sall is_alpha w = true -> has_char c w = false.
Proof.
  intros Hc. unfold has_char. induction w as [|a w IH]; intros H; [reflexivity|]. cbn [sall] in H. apply andb_true_iff in H. destruct H as [Ha Hw].
  cbn [sany]. rewrite (IH Hw). rewrite Ascii.eqb_sym.
  assert (E : Ascii.eqb a c = false) by (destruct Hc; subst c; [now apply alpha_not_comma|now apply alpha_not_dash]).
  rewrite E. reflexivity.
Qed.
Lemma isdecimal_word w : sall is_alpha w = true -> isdecimal w = false.
Proof.
  destruct w as [|a w]; intros H; [reflexivity|]. cbn [sall] in H. apply andb_true_iff in H. destruct H as [Ha Hw].
  unfold isdecimal. cbn [sall]. rewrite (alpha_not_digit _ Ha). reflexivity.
Qed.

(* --- tokens --- *)
Lemma Z_from_str_sym z : (1 <= z <= 118)%Z -> Z_from_str (symz z) = inr z.
Proof.
  intros Hz. destruct (sym_props z Hz) as [_ [_ [Ha Hb]]]. unfold Z_from_str. rewrite (isdecimal_word _ Ha). exact Hb.
Qed.
Lemma expand_token_sym z : (1 <= z <= 118)%Z -> expand_token (symz z) = inr [z].
Proof.
  intros Hz. destruct (sym_props z Hz) as [_ [_ [Ha _]]]. unfold expand_token.
  rewrite (has_char_word "-" _ (or_intror eq_refl) Ha). cbn [negb]. rewrite (Z_from_str_sym z Hz). reflexivity.
Qed.
Lemma expand_token_range a b : (1 <= a <= 118)%Z -> (1 <= b <= 118)%Z ->
  expand_token (symz a +++ String "-" (symz b)) = inr (zrange_incl a b).
Proof.
  intros Ha Hb. destruct (sym_props a Ha) as [_ [_ [Aa _]]]. destruct (sym_props b Hb) as [_ [_ [Ab _]]].
  unfold expand_token. rewrite has_char_app. change (has_char "-" (String "-" (symz b))) with true.
  rewrite orb_true_r. cbn [negb]. rewrite split_on_app.
  rewrite (split_on_word "-" _ (or_intror eq_refl) Aa), (split_on_word "-" _ (or_intror eq_refl) Ab). cbn [app].
  rewrite (Z_from_str_sym a Ha), (Z_from_str_sym b Hb). reflexivity.
Qed.

Definition E (s : string) : res (list Z) := expand_tokens (split_on "," s).
Lemma expand_tokens_app l1 l2 :
  expand_tokens (l1 ++ l2) = (do a <- expand_tokens l1; do b <- expand_tokens l2; ok (a ++ b)).
Proof.
  induction l1 as [|t l1 IH]; cbn [app expand_tokens].
  - cbn. destruct (expand_tokens l2); reflexivity.
  - rewrite IH. destruct (expand_token t) as [e|a]; [reflexivity|]. cbn [bind].
    destruct (expand_tokens l1) as [e|b]; [reflexivity|]. cbn [bind].
    destruct (expand_tokens l2) as [e|c]; [reflexivity|]. unfold ok. cbn [bind]. rewrite app_assoc. reflexivity.
Qed.
Lemma E_app x y : E (x +++ String "," y) = (do a <- E x; do b <- E y; ok (a ++ b)).
Proof. unfold E. rewrite split_on_app. apply expand_tokens_app. Qed.
Lemma E_word w : sall is_alpha w = true -> E w = (do a <- expand_token w; ok a).
Proof.
  intros H. unfold E. rewrite (split_on_word "," _ (or_introl eq_refl) H). cbn [expand_tokens].
  destruct (expand_token w); cbn; [reflexivity|]. now rewrite app_nil_r.
Qed.

(* --- one rendered run --- *)
Definition good_run (r : Z * Z) : Prop := (1 <= fst r /\ fst r <= snd r /\ snd r <= 118)%Z.
Definition rstr (r : Z * Z) : string :=
  let '(a, b) := r in
  if (a =? b)%Z then symz a
  else if (b =? a + 1)%Z then symz a +++ String "," (symz b) else symz a +++ String "-" (symz b).

Lemma render_run_rstr r : good_run r -> render_run r = inr (rstr r).
Proof.
  destruct r as [a b]. unfold good_run. cbn [fst snd]. intros H.
  destruct (sym_props a) as [Sa _]; [lia|]. destruct (sym_props b) as [Sb _]; [lia|].
  unfold render_run, rstr. rewrite Sa. cbn [bind]. destruct (a =? b)%Z; [reflexivity|]. rewrite Sb. cbn [bind].
  destruct (b =? a + 1)%Z; reflexivity.
Qed.
Lemma mapM_render rs : Forall good_run rs -> mapM render_run rs = inr (map rstr rs).
Proof.
  induction rs as [|r rs IH]; intros H; [reflexivity|]. inversion H as [|? ? Hr Hrs]; subst.
  cbn [mapM map]. rewrite (render_run_rstr r Hr). cbn [bind]. rewrite (IH Hrs). reflexivity.
Qed.

Lemma rstr_wf r : good_run r -> exists k, (k = 1 \/ k = 3) /\ forall t, wf 0 (rstr r +++ t) = wf k t.
Proof.
  destruct r as [a b]. unfold good_run. cbn [fst snd]. intros H.
  destruct (sym_props a) as [_ [Na [Aa _]]]; [lia|]. destruct (sym_props b) as [_ [Nb [Ab _]]]; [lia|].
  unfold rstr. destruct (a =? b)%Z.
  - exists 1. split; [auto|]. intros t. now apply wf0_word.
  - destruct (b =? a + 1)%Z.
    + exists 1. split; [auto|]. intros t. rewrite sapp_assoc. rewrite (wf0_word _ _ Na Aa).
      cbn [String.append wf]. change (is_alpha ",") with false. cbn. now apply wf0_word.
    + exists 3. split; [auto|]. intros t. rewrite sapp_assoc. rewrite (wf0_word _ _ Na Aa).
      cbn [String.append wf]. change (is_alpha "-") with false. cbn. now apply wf2_word.
Qed.
Lemma rstr_wf_end r : good_run r -> wf 0 (rstr r) = true.
Proof.
  intros H. destruct (rstr_wf r H) as [k [Hk Hw]]. rewrite <- (sapp_nil_r (rstr r)), Hw.
  destruct Hk; subst k; reflexivity.
Qed.
Lemma rstr_wf_app r rest : good_run r -> wf 0 (rstr r +++ String "," rest) = wf 0 rest.
Proof.
  intros H. destruct (rstr_wf r H) as [k [Hk Hw]]. rewrite Hw. destruct Hk; subst k; reflexivity.
Qed.
Lemma rstr_E r : good_run r -> E (rstr r) = inr (zrange_incl (fst r) (snd r)).
Proof.
  destruct r as [a b]. unfold good_run. cbn [fst snd]. intros H.
  assert (Ha : (1 <= a <= 118)%Z) by lia. assert (Hb : (1 <= b <= 118)%Z) by lia.
  destruct (sym_props a Ha) as [_ [Na [Aa _]]]. destruct (sym_props b Hb) as [_ [Nb [Ab _]]].
  unfold rstr. destruct (a =? b)%Z eqn:E1.
  - apply Z.eqb_eq in E1. subst b. rewrite (E_word _ Aa), (expand_token_sym a Ha). rewrite zrange_incl_single. reflexivity.
  - destruct (b =? a + 1)%Z eqn:E2.
    + apply Z.eqb_eq in E2. subst b. rewrite E_app, (E_word _ Aa), (E_word _ Ab).
      rewrite (expand_token_sym a Ha), (expand_token_sym _ Hb). rewrite zrange_incl_pair. reflexivity.
    + unfold E.
      assert (S1 : split_on "," (symz a +++ String "-" (symz b)) = [symz a +++ String "-" (symz b)]).
      { clear - Aa Ab. induction (symz a) as [|c w IH]; cbn [String.append split_on].
        - change (Ascii.eqb "-" ",") with false. cbn iota. rewrite (split_on_word "," _ (or_introl eq_refl) Ab). reflexivity.
        - cbn [sall] in Aa. apply andb_true_iff in Aa. destruct Aa as [Hc Hw]. rewrite (alpha_not_comma _ Hc).
          rewrite (IH Hw). reflexivity. }
      rewrite S1. cbn [expand_tokens]. rewrite (expand_token_range a b Ha Hb). cbn. now rewrite app_nil_r.
Qed.

(* --- the joined string --- *)
Definition run_flat (rs : list (Z * Z)) : list Z := flat_map (fun r => zrange_incl (fst r) (snd r)) rs.
Lemma join_runs rs : rs <> [] -> Forall good_run rs ->
  wf 0 (sjoin "," (map rstr rs)) = true /\ E (sjoin "," (map rstr rs)) = inr (run_flat rs).
Proof.
  induction rs as [|r rs IH]; intros Hne H; [congruence|]. inversion H as [|? ? Hr Hrs]; subst.
  destruct rs as [|r2 rs'].
  - cbn [map sjoin]. split; [now apply rstr_wf_end|]. rewrite (rstr_E r Hr). unfold run_flat. cbn. now rewrite app_nil_r.
  - destruct IH as [IH1 IH2]; [discriminate|exact Hrs|].
    change (sjoin "," (map rstr (r :: r2 :: rs'))) with (rstr r +++ String "," (sjoin "," (map rstr (r2 :: rs')))).
    split.
    + rewrite (rstr_wf_app _ _ Hr). exact IH1.
    + rewrite E_app, (rstr_E r Hr), IH2. reflexivity.
Qed.

(* --- runs of a list in range --- *)
Lemma runs_from_good l : forall s e, Forall (fun z => (1 <= z <= 118)%Z) l -> (1 <= s <= e)%Z -> (e <= 118)%Z ->
  Forall good_run (runs_from s e l).
Proof.
  induction l as [|x t IH]; intros s e Hl Hs He; cbn [runs_from].
  - constructor; [unfold good_run; cbn; lia|constructor].
  - inversion Hl as [|? ? Hx Ht]; subst. destruct (x =? e + 1)%Z eqn:Ex.
    + apply Z.eqb_eq in Ex. apply IH; [exact Ht|lia|lia].
    + constructor; [unfold good_run; cbn; lia|]. apply IH; [exact Ht|lia|lia].
Qed.
Lemma runs_from_nonempty l : forall s e, runs_from s e l <> [].
Proof. induction l as [|x t IH]; intros s e; cbn [runs_from]; [discriminate|]. destruct (x =? e + 1)%Z; [apply IH|discriminate]. Qed.

Lemma insert_dedupe_nonempty x l : insert_dedupe x l <> [].
Proof. destruct l as [|y t]; cbn [insert_dedupe]; [discriminate|]. destruct (x <? y)%Z; [discriminate|]. destruct (x =? y)%Z; discriminate. Qed.

Lemma expand_compact : expand_compact_stmt.
Proof.
  intros S Hne HS.
  set (l := sort_dedupe S).
  assert (Hl : Forall (fun z => (1 <= z <= 118)%Z) l).
  { rewrite Forall_forall in *. intros z Hz. apply HS. apply (proj2 (sort_dedupe_spec S)). exact Hz. }
  assert (Hlne : l <> []).
  { unfold l. destruct S as [|x S']; [congruence|]. cbn [sort_dedupe fold_right]. apply insert_dedupe_nonempty. }
  assert (Hrs : Forall good_run (runs l) /\ runs l <> []).
  { destruct l as [|x t]; [congruence|]. cbn [runs]. inversion Hl as [|? ? Hx Ht]; subst.
    split; [apply runs_from_good; [exact Ht|lia|lia]|apply runs_from_nonempty]. }
  destruct Hrs as [Hgood Hrne].
  destruct (join_runs (runs l) Hrne Hgood) as [Hwf HE].
  exists (sjoin "," (map rstr (runs l))). split.
  - unfold compact_elements. destruct S as [|x S']; [congruence|]. fold l. rewrite (mapM_render _ Hgood). reflexivity.
  - cbn [expand_elements]. rewrite (expand_string_wf _ Hwf). fold (E (sjoin "," (map rstr (runs l)))). rewrite HE.
    unfold run_flat. rewrite (runs_spec l). reflexivity.
Qed.

Print Assumptions sort_dedupe_spec.
Print Assumptions runs_spec.
Print Assumptions expand_compact_empty.
Print Assumptions expand_rejects.
Print Assumptions expand_rejects_dangling.
Print Assumptions expand_compact.
