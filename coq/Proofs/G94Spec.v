(* Proofs of the statements of Proofs/G94Defs.v: the Gaussian94 electron section written by write_g94 is read back by
   read_g94 exactly (up to the exponent marker, the region and the function type, see g94_expected). *)
From BSE Require Import Model.Val Model.Text Model.Num Model.Basis Model.Manip Model.Matrix Gen.GenLut Model.Lut
                        Model.Elements Model.Nwchem Model.G94 Proofs.MatrixDefs Proofs.NwchemDefs Proofs.G94Defs
                        Proofs.C20Finite.
From BSE Require Proofs.ElementsSpec.
From Coq Require Import NArith Nnat Znat.
From BSE Require Import Proofs.HeaderSpec Proofs.PruneFS Proofs.MatrixSpec Proofs.NwchemSpec.

(* ================================================================== *)
(* 1. finite facts about the tables of lut.py                          *)
(* ================================================================== *)
(* element symbols 1..120: non-empty, letters only, at most three of them (element_re), mapped back to z *)
Definition sym_check94 (z : Z) : bool :=
  match element_sym_from_Z z true with
  | inr s => negb (is_empty s) && sall is_alpha s && Nat.leb (String.length s) 3 && res_eqb Z.eqb (element_Z_from_sym s) z
  | inl _ => false
  end.
Lemma sym_sweep94 : forallb sym_check94 (zrange 1 120) = true.
Proof. vm_compute. reflexivity. Qed.

Lemma sym_facts94 : forall z, (1 <= z <= 120)%Z ->
  element_sym_from_Z z true = inr (symz z) /\ symz z <> "" /\ sall is_alpha (symz z) = true /\
  String.length (symz z) <= 3 /\ element_Z_from_sym (symz z) = inr z.
Proof.
  intros z Hz. assert (Hin : In z (zrange 1 120)) by (apply zrange_In; lia).
  pose proof (proj1 (forallb_forall _ _) sym_sweep94 z Hin) as H. unfold sym_check94 in H.
  unfold symz, ElementsSpec.symz. destruct (element_sym_from_Z z true) as [e|s]; [discriminate|].
  rewrite !andb_true_iff in H. destruct H as [[[H1 H2] H3] H4].
  split; [reflexivity|]. split; [intros ->; discriminate H1|]. split; [exact H2|].
  split; [now apply Nat.leb_le | now apply res_eqb_Z].
Qed.

(* for every l in 0..25: l has a letter in the hij table, the letter is an ASCII letter, and its upper-case form is mapped
   back to l *)
Definition am_letter_check94 (l : Z) : bool :=
  match snth (Z.to_nat l) amchar_map_hij with
  | Some c => is_alpha c &&
              match sindex (lower_char (upper_char c)) amchar_map_hij with
              | Some i => Z.eqb (Z.of_nat i) l
              | None => false
              end
  | None => false
  end.
Lemma am_letter_sweep94 : forallb am_letter_check94 (zrange 0 26) = true.
Proof. vm_compute. reflexivity. Qed.

Lemma am_letter94 : forall l, (0 <= l < 26)%Z ->
  exists c, snth (Z.to_nat l) amchar_map_hij = Some c /\ is_alpha c = true /\
            exists i, sindex (lower_char (upper_char c)) amchar_map_hij = Some i /\ Z.of_nat i = l.
Proof.
  intros l Hl. assert (Hin : In l (zrange 0 26)) by (apply zrange_In; lia).
  pose proof (proj1 (forallb_forall _ _) am_letter_sweep94 l Hin) as H. unfold am_letter_check94 in H.
  destruct (snth (Z.to_nat l) amchar_map_hij) as [c|]; [|discriminate]. exists c.
  apply andb_true_iff in H. destruct H as [H1 H2].
  destruct (sindex (lower_char (upper_char c)) amchar_map_hij) as [i|]; [|discriminate].
  split; [reflexivity|]. split; [exact H1|]. exists i. split; [reflexivity | now apply Z.eqb_eq].
Qed.

Definition am_ok94 (a : list Z) : Prop := Forall (fun l => (0 <= l < 26)%Z) a.
Definition amch94 (a : list Z) : string := match amint_to_char a true false with inr c => c | inl _ => "" end.

Lemma amint_chars_ok94 : forall a, am_ok94 a ->
  exists ch, amint_chars amchar_map_hij a = inr ch /\ sall is_alpha (upper ch) = true /\
             (a <> [] -> ch <> "") /\ amchar_ints amchar_map_hij (lower (upper ch)) = inr a.
Proof.
  induction a as [|l a IH]; intros H.
  - exists "". split; [reflexivity|]. split; [reflexivity|]. split; [intros C; congruence | reflexivity].
  - inversion H as [|? ? Hl Ha]; subst. destruct (IH Ha) as [r [E1 [E2 [_ E4]]]].
    destruct (am_letter94 l Hl) as [c [Ec [Hc [i [Ei Hi]]]]].
    exists (String c r). cbn [amint_chars].
    assert (En : (l <? 0)%Z = false) by lia. rewrite En, Ec, E1. unfold bind, ok.
    split; [reflexivity|]. split; [|split].
    + unfold upper in *. cbn [smap sall]. rewrite (alpha_upper c Hc), E2. reflexivity.
    + intros _. discriminate.
    + unfold upper, lower in *. cbn [smap amchar_ints]. rewrite Ei, E4. unfold bind, ok. now rewrite Hi.
Qed.

Lemma amch_facts94 : forall a, am_ok94 a -> a <> [] ->
  amint_to_char a true false = inr (amch94 a) /\ sall is_alpha (upper (amch94 a)) = true /\
  upper (amch94 a) <> "" /\ amchar_to_int (upper (amch94 a)) true = inr a.
Proof.
  intros a Ha Hne. destruct (amint_chars_ok94 a Ha) as [ch [E1 [E2 [E3 E4]]]].
  assert (E : amint_to_char a true false = inr ch) by exact E1.
  unfold amch94. rewrite E. repeat split; [exact E2 | | exact E4].
  specialize (E3 Hne). destruct ch; [congruence | discriminate].
Qed.

(* ================================================================== *)
(* 2. str(n) and int(str(n))                                           *)
(* ================================================================== *)
Lemma digit_char_val : forall k, k < 10 -> nat_of_ascii (digit_char k) - 48 = k.
Proof. intros k H. do 10 (destruct k as [|k]; [reflexivity|]). lia. Qed.

Lemma digits_val_app1 : forall p d rest a,
  digits_val ((p +++ String d "") +++ rest) a = digits_val (p +++ String d rest) a.
Proof. intros p d rest a. rewrite sapp_assoc. reflexivity. Qed.

(* the digits pushed in front of acc read back as the number *)
Lemma pdf_value : forall f n acc, (n < 10 ^ N.of_nat f)%N ->
  exists p, pos_digits_fuel f n acc = p +++ acc /\
            forall rest a, digits_val (p +++ rest) a = digits_val rest (a * 10 ^ Z.of_nat (String.length p) + Z.of_N n)%Z.
Proof.
  induction f as [|f IH]; intros n acc Hn.
  - exists "". split; [reflexivity|]. intros rest a. cbn [String.append String.length].
    assert (n = 0%N) by (change (10 ^ N.of_nat 0)%N with 1%N in Hn; lia). subst n.
    f_equal. change (10 ^ Z.of_nat 0)%Z with 1%Z. lia.
  - cbn [pos_digits_fuel].
    assert (Hr : (n mod 10 < 10)%N) by (apply N.mod_lt; discriminate).
    assert (Hdm : n = (10 * (n / 10) + n mod 10)%N) by (apply N.div_mod; discriminate).
    assert (Hk : N.to_nat (n mod 10) < 10) by lia.
    destruct (N.eqb_spec (n / 10) 0) as [Hq|Hq].
    + exists (String (digit_char (N.to_nat (n mod 10))) ""). split; [reflexivity|].
      intros rest a. cbn [String.append String.length digits_val]. rewrite (digit_char_val _ Hk). f_equal.
      change (10 ^ Z.of_nat 1)%Z with 10%Z. lia.
    + assert (Hq10 : (n / 10 < 10 ^ N.of_nat f)%N).
      { apply N.div_lt_upper_bound; [discriminate|]. rewrite Nat2N.inj_succ, N.pow_succ_r' in Hn. exact Hn. }
      destruct (IH (n / 10)%N (String (digit_char (N.to_nat (n mod 10))) acc) Hq10) as [p [Ep Hp]].
      exists (p +++ String (digit_char (N.to_nat (n mod 10))) ""). split.
      * rewrite Ep, sapp_assoc. reflexivity.
      * intros rest a. rewrite digits_val_app1, Hp. cbn [digits_val]. rewrite (digit_char_val _ Hk). f_equal.
        assert (El : String.length (p +++ String (digit_char (N.to_nat (n mod 10))) "") = S (String.length p)).
        { clear. induction p as [|c p IHp]; [reflexivity|]. cbn [String.append String.length]. now rewrite IHp. }
        rewrite El, Nat2Z.inj_succ, Z.pow_succ_r by lia.
        assert (Hz : Z.of_N n = (10 * Z.of_N (n / 10) + Z.of_N (n mod 10))%Z) by lia.
        rewrite Hz. lia.
Qed.

Lemma N_lt_pow10 : forall n, (n < 10 ^ N.of_nat (S (N.to_nat (N.log2 n))))%N.
Proof.
  intros n. rewrite Nat2N.inj_succ, N2Nat.id.
  apply N.lt_le_trans with (2 ^ N.succ (N.log2 n))%N.
  - destruct n as [|p]; [reflexivity|]. apply N.log2_spec. reflexivity.
  - apply N.pow_le_mono_l. lia.
Qed.

Lemma nat_str_val : forall n, digits_val (nat_str n) 0 = Z.of_nat n.
Proof.
  intros n. unfold nat_str, N_to_string.
  destruct (pdf_value _ (N.of_nat n) "" (N_lt_pow10 (N.of_nat n))) as [p [Ep Hp]].
  rewrite Ep. rewrite (Hp "" 0%Z). cbn [digits_val]. lia.
Qed.

Lemma nat_str_digits : forall n, sall is_digit (nat_str n) = true.
Proof. intros n. unfold nat_str, N_to_string. apply pdf_chars; [exact digit_char_fchar | reflexivity]. Qed.

Lemma nat_str_ne : forall n, nat_str n <> "".
Proof. intros n. apply N_to_string_ne. Qed.

(* ================================================================== *)
(* 3. the lines the writer prints                                      *)
(* ================================================================== *)
Definition el_ok94 (zs : Z * list sshell) : Prop :=
  (1 <= fst zs <= 120)%Z /\ snd zs <> [] /\ Forall g94_shell_ok (snd zs).

(* the matrix part of a shell does not look at the angular momenta: reuse rows_facts of Proofs/NwchemSpec.v *)
Definition as_nw (s : sshell) : sshell := mkShell (ftype s) (region s) [0%Z] (exps s) (coefs s).
Lemma as_nw_ok : forall s, g94_shell_ok s -> nw_shell_ok (as_nw s).
Proof.
  intros s [Hex [Hne [_ [Hlen [HcF [He Hc]]]]]]. unfold nw_shell_ok, as_nw. cbn [exps am coefs].
  split; [exact Hex|]. split; [discriminate|]. split; [repeat constructor; lia|].
  split; [intros E; rewrite E in Hlen; destruct (am s); [congruence | discriminate]|].
  split; [exact HcF|]. split; [cbn; lia|]. split; assumption.
Qed.

Lemma Forall2_map_r_impl : forall (A B C : Type) (R : A -> B -> Prop) (R' : A -> C -> Prop) (f : B -> C) l r,
  Forall2 R l r -> (forall a b, R a b -> R' a (f b)) -> Forall2 R' l (map f r).
Proof. intros A B C R R' f l r F H. induction F; cbn [map]; constructor; auto. Qed.

(* the rows as write_matrix(convert_exp=True) prints them *)
Definition drows (s : sshell) : list string := map d_convert (rows_of (as_nw s)).
Definition mat94 (s : sshell) : list (list cell) := map CStr (exps s) :: map (map CStr) (coefs s).
Definition pps94 (s : sshell) : list Z := nw_point_places (S (List.length (coefs s))).

Lemma drows_facts : forall s, g94_shell_ok s ->
  write_matrix (mat94 s) (pps94 s) true = inr (unlines (drows s)) /\
  Forall good_line (drows s) /\
  Forall2 (fun srow line => tokens_acc line "" = map d_convert srow) (transpose (exps s :: coefs s)) (drows s) /\
  List.length (drows s) = List.length (exps s) /\
  parse_primitive_matrix (drows s) = inr (map (MatrixDefs.norm true) (exps s), map (map (MatrixDefs.norm true)) (coefs s)).
Proof.
  intros s Hs. pose proof (as_nw_ok s Hs) as Hn.
  destruct (rows_facts (as_nw s) Hn) as [Hw [Hg [F2 [Hl _]]]].
  change (mat_of (as_nw s)) with (mat94 s) in Hw. change (pps_of (as_nw s)) with (pps94 s) in Hw.
  change (exps (as_nw s)) with (exps s) in *. change (coefs (as_nw s)) with (coefs s) in *.
  assert (Hw' : write_matrix (mat94 s) (pps94 s) true = inr (unlines (drows s))).
  { unfold write_matrix in *. destruct (mapM (fun row => write_row row (pps94 s) true "") (transpose_cells (mat94 s))) as [e|rows];
      [discriminate Hw|]. unfold bind, ok in *. inversion Hw as [Hrows]. f_equal.
    unfold d_convert at 1. rewrite Hrows. unfold unlines, drows, d_convert. apply smap_lines. reflexivity. }
  assert (Hg' : Forall good_line (drows s)).
  { unfold drows. rewrite Forall_forall in *. intros r Hr. apply in_map_iff in Hr. destruct Hr as [r0 [<- Hr0]].
    unfold good_line, d_convert. rewrite sall_smap. apply (sall_impl nobd); [exact nobd_dconv | apply Hg, Hr0]. }
  split; [exact Hw'|]. split; [exact Hg'|]. split; [|split].
  - unfold drows. apply (Forall2_map_r_impl _ _ _ _ _ _ _ _ F2). intros srow line Ht. cbv beta in *.
    change (tokens_acc (smap dconv_c line) (smap dconv_c "") = map (smap dconv_c) srow).
    rewrite (tokens_smap dconv_c dconv_c_space line ""), Ht. reflexivity.
  - unfold drows. rewrite map_length. exact Hl.
  - destruct Hs as [Hex [_ [_ [Hlen [HcF [He Hc]]]]]]. unfold floating in *.
    rewrite <- (splitlines_unlines (drows s) Hg').
    apply (matrix_roundtrip (exps s) (coefs s) (pps94 s) true (unlines (drows s)) (List.length (exps s))); try assumption;
      try reflexivity.
    + destruct (exps s); [congruence | discriminate].
    + destruct Hn as [_ [_ [_ [Hcne _]]]]. exact Hcne.
    + unfold pps94. rewrite pps_length. lia.
Qed.

(* ---- shell header, shell, element, file ---- *)
Definition hdr (s : sshell) : string :=
  pad4 (upper (amch94 (am s))) +++ " " +++ nat_str (List.length (exps s)) +++ "   1.00".
Definition sh_lines94 (s : sshell) : list string := hdr s :: drows s.
Definition el_line (z : Z) : string := symz z +++ "     0".
Definition el_lines94 (zs : Z * list sshell) : list string :=
  el_line (fst zs) :: flat_map sh_lines94 (snd zs) ++ ["****"].
Definition all_lines94 (els : list (Z * list sshell)) : list string := flat_map el_lines94 els.

Lemma sall_nobd_sp : forall n, sall nobd (sp n) = true.
Proof. intros n. apply sall_sp. reflexivity. Qed.

Lemma digit_is_nobd : forall c, is_digit c = true -> nobd c = true.
Proof. intros c H. all_chars c; try reflexivity; discriminate H. Qed.

Lemma hdr_good : forall s, g94_shell_ok s -> good_line (hdr s).
Proof.
  intros s [_ [Hne [Ha _]]]. destruct (amch_facts94 (am s) Ha Hne) as [_ [Hu _]].
  unfold hdr, pad4, good_line. rewrite !sall_app, (sall_impl is_alpha nobd _ alpha_nobd Hu), sall_nobd_sp.
  rewrite (sall_impl is_digit nobd _ digit_is_nobd (nat_str_digits _)). reflexivity.
Qed.

Lemma el_line_good : forall z, (1 <= z <= 120)%Z -> good_line (el_line z).
Proof.
  intros z Hz. destruct (sym_facts94 z Hz) as [_ [_ [Hs _]]]. unfold el_line, good_line.
  rewrite sall_app, (sall_impl is_alpha nobd _ alpha_nobd Hs). reflexivity.
Qed.

Lemma amchar_plain : forall (a : list Z) (x : string),
  match a with
  | [l] => if andb false (7 <=? l)%Z then "L=" +++ Z_to_string l else x
  | _ => x
  end = x.
Proof. intros [|l [|l' a]] x; reflexivity. Qed.

Lemma write_shell_lines94 : forall s, g94_shell_ok s -> g94_write_shell false false s = inr (unlines (sh_lines94 s)).
Proof.
  intros s Hs. destruct (drows_facts s Hs) as [Hw _]. destruct Hs as [_ [Hne [Ha _]]].
  destruct (amch_facts94 (am s) Ha Hne) as [E _].
  unfold g94_write_shell. rewrite E. unfold bind. rewrite amchar_plain. fold (mat94 s). fold (pps94 s). rewrite Hw.
  unfold sh_lines94, hdr, ok. cbn [andb]. rewrite unlines_cons, !sapp_assoc. reflexivity.
Qed.

Lemma write_element_lines94 : forall zs, el_ok94 zs -> g94_write_element false false false zs = inr (unlines (el_lines94 zs)).
Proof.
  intros [z shs] [Hz [_ Hshs]]. cbn [fst snd] in *. destruct (sym_facts94 z Hz) as [Es _].
  unfold g94_write_element. rewrite Es. unfold bind.
  rewrite (mapM_map_ok _ _ (g94_write_shell false false) (fun s => unlines (sh_lines94 s))).
  - unfold el_lines94, el_line, ok. cbn [fst snd]. rewrite unlines_cons, unlines_app, unlines_flat_map, !sapp_assoc.
    reflexivity.
  - intros s Hin. apply write_shell_lines94. rewrite Forall_forall in Hshs. apply Hshs, Hin.
Qed.

Lemma g94_ok_els : forall els, g94_ok els -> Forall el_ok94 els.
Proof. intros els [_ H]. exact H. Qed.

Lemma write_electron_lines94 : forall els, g94_ok els -> g94_write_electron els = inr (unlines (all_lines94 els)).
Proof.
  intros els H. pose proof (g94_ok_els els H) as Hel.
  unfold g94_write_electron, g94_write_common.
  rewrite (mapM_map_ok _ _ (g94_write_element false false false) (fun zs => unlines (el_lines94 zs))).
  - unfold bind, ok, all_lines94. rewrite unlines_flat_map. reflexivity.
  - intros zs Hin. apply write_element_lines94. rewrite Forall_forall in Hel. apply Hel, Hin.
Qed.

Lemma all_lines_good94 : forall els, g94_ok els -> Forall good_line (all_lines94 els).
Proof.
  intros els H. pose proof (g94_ok_els els H) as Hel. unfold all_lines94.
  rewrite Forall_forall in *. intros l Hin. apply in_flat_map in Hin. destruct Hin as [[z shs] [Hzs Hl]].
  destruct (Hel _ Hzs) as [Hz [_ Hshs]]. cbn [fst snd] in *. unfold el_lines94 in Hl. cbn [fst snd] in Hl.
  destruct Hl as [<-|Hl]; [apply el_line_good, Hz|].
  apply in_app_or in Hl. destruct Hl as [Hl|[<-|[]]]; [|reflexivity].
  apply in_flat_map in Hl. destruct Hl as [s [Hs Hl]]. rewrite Forall_forall in Hshs. specialize (Hshs s Hs).
  destruct Hl as [<-|Hl]; [apply hdr_good; assumption|].
  destruct (drows_facts s Hshs) as [_ [Hg _]]. rewrite Forall_forall in Hg. apply Hg, Hl.
Qed.

(* ---------- g94_write_total ---------- *)
Lemma g94_write_total : g94_write_total_stmt.
Proof. intros els H. eexists. apply write_electron_lines94, H. Qed.

Lemma written_lines94 : forall els t, g94_ok els -> g94_write_electron els = inr t -> splitlines t = all_lines94 els.
Proof.
  intros els t H E. rewrite (write_electron_lines94 els H) in E. inversion E; subst.
  apply splitlines_unlines, all_lines_good94, H.
Qed.

(* ---------- g94_no_number_lost ---------- *)
Lemma g94_no_number_lost : g94_no_number_lost_stmt.
Proof.
  intros els t H E x [zs [s [Hzs [Hs Hx]]]].
  rewrite (written_lines94 els t H E).
  pose proof (g94_ok_els els H) as Hel. rewrite Forall_forall in Hel. destruct (Hel zs Hzs) as [_ [_ Hshs]].
  rewrite Forall_forall in Hshs. pose proof (Hshs s Hs) as Hok.
  destruct (drows_facts s Hok) as [_ [_ [F2 _]]].
  destruct Hok as [_ [_ [_ [_ [HcF _]]]]].
  assert (HF : Forall (fun r => List.length r = List.length (exps s)) (exps s :: coefs s)) by (constructor; [reflexivity | exact HcF]).
  assert (Hcol : exists c, In c (exps s :: coefs s) /\ In x c).
  { destruct Hx as [Hx|[c [Hc Hx]]]; [exists (exps s); split; [now left | exact Hx] | exists c; split; [now right | exact Hx]]. }
  destruct Hcol as [c [Hc Hxc]].
  destruct (transpose_has _ _ c x HF Hc Hxc) as [row [Hrow Hxr]].
  destruct (Forall2_In_l _ _ _ _ _ row F2 Hrow) as [line [Hline Htok]].
  exists line. split; [|rewrite Htok; apply in_map; exact Hxr].
  unfold all_lines94. apply in_flat_map. exists zs. split; [exact Hzs|].
  unfold el_lines94. right. apply in_or_app. left. apply in_flat_map. exists s. split; [exact Hs|]. right. exact Hline.
Qed.

(* ================================================================== *)
(* 4. lines that begin with a number                                   *)
(* ================================================================== *)
Definition numline (l : string) : Prop := exists e rest, l = e +++ rest /\ is_floating e = true.

Lemma tok_split : forall s cur, cur <> "" ->
  exists w rest ts, tokens_acc s cur = (srev cur +++ w) :: ts /\ s = w +++ rest /\ sany is_space w = false.
Proof.
  induction s as [|c s IH]; intros cur Hcur.
  - exists "", "", []. cbn [tokens_acc]. destruct cur; [congruence|]. rewrite sapp_nil_r. repeat split.
  - cbn [tokens_acc]. destruct (is_space c) eqn:Ec.
    + destruct cur as [|a cur]; [congruence|]. exists "", (String c s). eexists. rewrite sapp_nil_r. repeat split.
    + destruct (IH (String c cur)) as [w [rest [ts [E [Es Hw]]]]]; [discriminate|].
      exists (String c w), rest, ts. rewrite E, srev_cons, sapp_assoc. split; [reflexivity|].
      split; [cbn [String.append]; now rewrite <- Es|]. cbn [sany]. now rewrite Ec, Hw.
Qed.

Lemma tokens_first2 : forall s t ts, tokens_acc s "" = t :: ts -> exists rest, lstrip_ws s = t +++ rest /\ tok_ok t.
Proof.
  induction s as [|c s IH]; intros t ts H; [discriminate|].
  cbn [tokens_acc] in H. cbn [lstrip_ws]. destruct (is_space c) eqn:Ec.
  - apply (IH t ts H).
  - destruct (tok_split s (String c "")) as [w [rest [ts' [E [Es Hw]]]]]; [discriminate|]. rewrite E in H.
    inversion H; subst. exists rest. split; [reflexivity|]. split; [discriminate|].
    change (srev (String c "") +++ w) with (String c w). cbn [sany]. now rewrite Ec, Hw.
Qed.

Lemma lstrip_keep : forall a b, tok_ok b -> exists a', lstrip_ws (a +++ b) = a' +++ b.
Proof.
  induction a as [|c a IH]; intros b Hb.
  - exists "". cbn [String.append]. rewrite <- (sapp_nil_r b) at 1. rewrite (lstrip_word b "" Hb). apply sapp_nil_r.
  - cbn [String.append lstrip_ws]. destruct (is_space c); [apply IH, Hb|]. exists (String c a). reflexivity.
Qed.

Lemma strip_tok_prefix : forall s t ts, tokens_acc s "" = t :: ts -> exists rest, strip_ws s = t +++ rest.
Proof.
  intros s t ts H. destruct (tokens_first2 s t ts H) as [rest [El Ht]].
  unfold strip_ws. rewrite El, srev_app.
  destruct (lstrip_keep (srev rest) (srev t) (tok_ok_srev t Ht)) as [a' Ea]. rewrite Ea, srev_app, srev_involutive.
  eexists. reflexivity.
Qed.

(* a printed matrix row after strip() begins with its first number *)
Lemma row_numline : forall row e cs, tokens_acc row "" = e :: cs -> is_floating e = true -> numline (strip_ws row).
Proof.
  intros row e cs Ht He. destruct (strip_tok_prefix row e cs Ht) as [rest Er]. exists e, rest. split; assumption.
Qed.

Lemma floating_first94 : forall c t, is_floating (String c t) = true -> is_alpha c = false /\ Ascii.eqb c "!" = false.
Proof.
  intros c t H. all_chars c; try (split; reflexivity); exfalso; cbn in H; discriminate H.
Qed.

Lemma numline_head : forall l, numline l ->
  exists c r, l = String c r /\ is_alpha c = false /\ Ascii.eqb c "!" = false.
Proof.
  intros l [e [rest [-> He]]]. destruct e as [|c t]; [discriminate He|].
  destruct (floating_first94 c t He) as [H1 H2]. exists c, (t +++ rest). repeat split; assumption.
Qed.

(* element_re does not match it *)
Lemma floating_not_element : forall e rest, is_floating e = true -> is_element_line (e +++ rest) = false.
Proof.
  intros e rest H. destruct e as [|c t]; [discriminate H|].
  all_chars c; try reflexivity; try (exfalso; cbn in H; discriminate H).
  (* c = "-" : the next character is a digit or the point *)
  destruct t as [|c2 t2]; [discriminate H|].
  all_chars c2; try reflexivity; exfalso; cbn in H; discriminate H.
Qed.

(* is_integer does not match it *)
Lemma skip_digits_point : forall x t rest, skip_digits x = String "." t -> skip_digits (x +++ rest) = String "." (t +++ rest).
Proof.
  induction x as [|c x IH]; intros t rest H; [discriminate H|].
  cbn [skip_digits] in H. cbn [String.append skip_digits]. destruct (is_digit c) eqn:Ec.
  - apply IH, H.
  - inversion H; subst. reflexivity.
Qed.

Lemma floating_not_integer : forall e rest, is_floating e = true -> is_integer (e +++ rest) = false.
Proof.
  intros e rest H. rewrite is_floating_unfold in H.
  destruct (skip_digits (skip_sign e)) as [|c t] eqn:E; [discriminate H|].
  destruct (Ascii.eqb_spec c ".") as [->|Hne]; [|discriminate H].
  assert (Es : skip_sign (e +++ rest) = skip_sign e +++ rest).
  { destruct e as [|a e']; [discriminate E|]. cbn [String.append skip_sign].
    destruct (Ascii.eqb a "-" || Ascii.eqb a "+"); reflexivity. }
  unfold is_integer. rewrite Es. destruct (skip_sign e) as [|a x]; [discriminate E|].
  cbn [String.append]. cbn [skip_digits] in E. destruct (is_digit a) eqn:Ea.
  - rewrite (skip_digits_point x t rest E). reflexivity.
  - reflexivity.
Qed.

Lemma numline_facts : forall l, numline l ->
  is_element_line l = false /\ is_integer l = false /\ starts_alpha l = inr false.
Proof.
  intros l Hl. destruct (numline_head l Hl) as [c [r [E [Hc _]]]]. destruct Hl as [e [rest [-> He]]].
  split; [now apply floating_not_element|]. split; [now apply floating_not_integer|].
  rewrite E. cbn [starts_alpha]. now rewrite Hc.
Qed.

(* ================================================================== *)
(* 5. prune_lines(lines, '!') on the written lines                      *)
(* ================================================================== *)
Definition prune2 (L : list string) : list string := prune_lines L "!" true true.

Lemma prune2_unfold : forall L,
  prune2 L = filter (fun l => negb (is_empty l)) (filter (fun l => orb (is_empty l) (negb (first_in "!" l))) (map strip_ws L)).
Proof. reflexivity. Qed.

Lemma prune2_app : forall a b, prune2 (a ++ b) = prune2 a ++ prune2 b.
Proof. intros a b. rewrite !prune2_unfold, map_app, !filter_app. reflexivity. Qed.

Lemma prune2_cons : forall x a, prune2 (x :: a) = prune2 [x] ++ prune2 a.
Proof. intros x a. change (x :: a) with ([x] ++ a). apply prune2_app. Qed.

Lemma prune2_flat_map : forall (A : Type) (f : A -> list string) l,
  prune2 (flat_map f l) = flat_map (fun x => prune2 (f x)) l.
Proof.
  intros A f; induction l as [|a l IH]; [reflexivity|]. cbn [flat_map]. now rewrite prune2_app, IH.
Qed.

Lemma prune2_keep : forall c r, strip_ws (String c r) = String c r -> Ascii.eqb c "!" = false ->
  prune2 [String c r] = [String c r].
Proof.
  intros c r Hs Hc. rewrite prune2_unfold. cbn [map]. rewrite Hs. cbn [filter is_empty first_in sany orb negb].
  rewrite Hc. reflexivity.
Qed.

Lemma prune2_data : forall rows, Forall (fun r => numline (strip_ws r)) rows -> prune2 rows = map strip_ws rows.
Proof.
  induction rows as [|r rows IH]; intros H; [reflexivity|]. inversion H as [|? ? Hn Hr]; subst.
  destruct (numline_head _ Hn) as [c [x [E [_ Hh]]]].
  rewrite prune2_cons, (IH Hr). cbn [map]. rewrite prune2_unfold. cbn [map]. rewrite E.
  cbn [filter is_empty first_in sany orb negb]. rewrite Hh. reflexivity.
Qed.

Lemma alpha_not_bang : forall c, is_alpha c = true -> Ascii.eqb c "!" = false /\ Ascii.eqb c "-" = false.
Proof. intros c H. all_chars c; try (split; reflexivity); discriminate H. Qed.

Lemma alpha_head : forall w, w <> "" -> sall is_alpha w = true -> exists c r, w = String c r /\ is_alpha c = true.
Proof.
  intros [|c r] Hne H; [congruence|]. cbn [sall] in H. apply andb_true_iff in H. destruct H as [Hc _].
  exists c, r. split; [reflexivity | exact Hc].
Qed.

(* ---- the element line ---- *)
Lemma el_line_strip : forall z, (1 <= z <= 120)%Z -> strip_ws (el_line z) = el_line z.
Proof.
  intros z Hz. destruct (sym_facts94 z Hz) as [_ [Hne [Hs _]]]. unfold el_line.
  change (symz z +++ "     0") with (symz z +++ "     " +++ "0").
  apply strip_words; [now apply alpha_word_tok | split; [discriminate | reflexivity]].
Qed.

Lemma el_line_head : forall z, (1 <= z <= 120)%Z -> exists c r, el_line z = String c r /\ is_alpha c = true.
Proof.
  intros z Hz. destruct (sym_facts94 z Hz) as [_ [Hne [Hs _]]]. destruct (alpha_head _ Hne Hs) as [c [r [E Hc]]].
  exists c, (r +++ "     0"). unfold el_line. rewrite E. split; [reflexivity | exact Hc].
Qed.

(* ---- the shell header line ---- *)
Lemma sp_comm : forall k x, sp k +++ String " " x = String " " (sp k +++ x).
Proof.
  induction k as [|k IH]; intros x; [reflexivity|].
  change (sp (S k)) with (String " " (sp k)). cbn [String.append]. now rewrite IH.
Qed.

Definition hdr_amch (s : sshell) : string := upper (amch94 (am s)).
Lemma hdr_shape : forall s, hdr s =
  hdr_amch s +++ String " " (sp (4 - String.length (hdr_amch s)) +++ nat_str (List.length (exps s)) +++ "   1.00").
Proof.
  intros s. unfold hdr, pad4. fold (hdr_amch s). rewrite sapp_assoc.
  change (" " +++ nat_str (List.length (exps s)) +++ "   1.00") with (String " " (nat_str (List.length (exps s)) +++ "   1.00")).
  now rewrite sp_comm.
Qed.

Lemma hdr_am_facts : forall s, g94_shell_ok s ->
  hdr_amch s <> "" /\ sall is_alpha (hdr_amch s) = true /\ amchar_to_int (hdr_amch s) true = inr (am s).
Proof.
  intros s [_ [Hne [Ha _]]]. destruct (amch_facts94 (am s) Ha Hne) as [_ [Hu [Hune Hback]]]. repeat split; assumption.
Qed.

Lemma hdr_strip : forall s, g94_shell_ok s -> strip_ws (hdr s) = hdr s.
Proof.
  intros s Hs. destruct (hdr_am_facts s Hs) as [Hne [Ha _]].
  assert (E : hdr s = hdr_amch s +++ (String " " (sp (4 - String.length (hdr_amch s)) +++ nat_str (List.length (exps s)) +++ "   ")) +++ "1.00").
  { rewrite hdr_shape. cbn [String.append]. rewrite !sapp_assoc. reflexivity. }
  rewrite E. apply strip_words; [now apply alpha_word_tok | split; [discriminate | reflexivity]].
Qed.

Lemma hdr_head : forall s, g94_shell_ok s -> exists c r, hdr s = String c r /\ is_alpha c = true.
Proof.
  intros s Hs. destruct (hdr_am_facts s Hs) as [Hne [Ha _]]. destruct (alpha_head _ Hne Ha) as [c [r [E Hc]]].
  rewrite hdr_shape, E. eexists c, _. split; [reflexivity | exact Hc].
Qed.

(* ---- the pruned file ---- *)
Definition blk94 (s : sshell) : list string := hdr s :: map strip_ws (drows s).
Definition sec94 (zs : Z * list sshell) : list string := el_line (fst zs) :: concat (map blk94 (snd zs)) ++ ["****"].

Lemma drows_num : forall s, g94_shell_ok s -> Forall (fun r => numline (strip_ws r)) (drows s).
Proof.
  intros s Hs. destruct (drows_facts s Hs) as [_ [_ [F2 _]]].
  destruct Hs as [Hex [_ [_ [Hlen [HcF [He Hc]]]]]]. unfold floating in *.
  assert (HT : Forall (Forall (fun x => is_floating x = true)) (transpose (exps s :: coefs s))).
  { apply transpose_Forall. constructor; assumption. }
  assert (HL : Forall (fun r => List.length r = List.length (exps s :: coefs s)) (transpose (exps s :: coefs s)))
    by apply transpose_rowlen.
  pose proof (Forall_and _ _ _ _ HT HL) as HTL.
  refine (Forall2_Forall_r _ _ _ _ _ _ _ _ HTL F2). intros srow line [Hf Hl] Ht. cbv beta in Ht.
  destruct srow as [|e cs]; [cbn in Hl; discriminate|]. inversion Hf; subst. cbn [map] in Ht.
  apply (row_numline line (d_convert e) (map d_convert cs) Ht).
  change (d_convert e) with (conv_text true e). pose proof (is_floating_norm true e) as Hn.
  unfold MatrixDefs.norm in Hn.
  assert (Hd : forall x, is_floating (replace_d x) = is_floating x) by (intros x; exact (is_floating_norm false x)).
  rewrite <- (Hd (conv_text true e)). cbn [conv_text]. rewrite Hn. assumption.
Qed.

Lemma prune2_shell : forall s, g94_shell_ok s -> prune2 (sh_lines94 s) = blk94 s.
Proof.
  intros s Hs. unfold sh_lines94, blk94. rewrite prune2_cons, (prune2_data _ (drows_num s Hs)).
  destruct (hdr_head s Hs) as [c [r [El Hc]]]. pose proof (hdr_strip s Hs) as E. rewrite El in *.
  rewrite (prune2_keep c r E (proj1 (alpha_not_bang c Hc))). reflexivity.
Qed.

Lemma prune2_element : forall zs, el_ok94 zs -> prune2 (el_lines94 zs) = sec94 zs.
Proof.
  intros [z shs] [Hz [_ Hshs]]. cbn [fst snd] in *. unfold el_lines94, sec94. cbn [fst snd].
  rewrite prune2_cons, prune2_app, prune2_flat_map.
  destruct (el_line_head z Hz) as [c [r [El Hc]]]. pose proof (el_line_strip z Hz) as E. rewrite El in *.
  rewrite (prune2_keep c r E (proj1 (alpha_not_bang c Hc))). cbn [app]. f_equal. f_equal.
  rewrite <- flat_map_concat_map. apply flat_map_ext_in. intros s Hin. apply prune2_shell.
  rewrite Forall_forall in Hshs. apply Hshs, Hin.
Qed.

Lemma pruned_lines94 : forall els, g94_ok els -> prune2 (all_lines94 els) = concat (map sec94 els).
Proof.
  intros els H. pose proof (g94_ok_els els H) as Hel. unfold all_lines94.
  rewrite prune2_flat_map, <- flat_map_concat_map. apply flat_map_ext_in.
  intros zs Hin. apply prune2_element. rewrite Forall_forall in Hel. apply Hel, Hin.
Qed.

(* ================================================================== *)
(* 6. the regular expressions on the written lines                     *)
(* ================================================================== *)
Definition undash (l : string) : string := match l with String "-" t => t | _ => l end.
Lemma undash_keep : forall c t, Ascii.eqb c "-" = false -> undash (String c t) = String c t.
Proof. intros c t H. all_chars c; try reflexivity; discriminate H. Qed.

Lemma is_element_line_unfold : forall l,
  is_element_line l =
  let '(a, r) := span_alpha (undash l) in
  if andb (Nat.leb 1 (String.length a)) (Nat.leb (String.length a) 3) then
    if dollar r then true else
    match r with
    | String c _ => if is_space c then match lstrip_ws r with String "0" r' => dollar r' | _ => false end else false
    | EmptyString => false
    end
  else false.
Proof. reflexivity. Qed.

(* a word of letters followed by a blank *)
Lemma element_line_word : forall a X, a <> "" -> sall is_alpha a = true ->
  is_element_line (a +++ String " " X) =
  if Nat.leb (String.length a) 3 then match lstrip_ws X with String "0" r' => dollar r' | _ => false end else false.
Proof.
  intros a X Hne Ha. destruct (alpha_head a Hne Ha) as [c [r [E Hc]]].
  rewrite is_element_line_unfold. rewrite E at 1. cbn [String.append].
  rewrite (undash_keep c _ (proj2 (alpha_not_bang c Hc))).
  change (String c (r +++ String " " X)) with (String c r +++ String " " X). rewrite <- E.
  rewrite (span_alpha_word_sp a X Ha).
  assert (E1 : Nat.leb 1 (String.length a) = true) by (rewrite E; reflexivity). rewrite E1. cbn [andb].
  assert (Ed : dollar (String " " X) = false) by (destruct X; reflexivity). rewrite Ed.
  change (is_space " ") with true. cbv iota. cbn [lstrip_ws]. change (is_space " ") with true. cbv iota. reflexivity.
Qed.

Lemma lstrip_sp : forall k x, lstrip_ws (sp k +++ x) = lstrip_ws x.
Proof.
  induction k as [|k IH]; intros x; [reflexivity|].
  change (sp (S k)) with (String " " (sp k)). cbn [String.append lstrip_ws]. change (is_space " ") with true. cbv iota.
  apply IH.
Qed.

Lemma el_line_matches : forall z, (1 <= z <= 120)%Z -> is_element_line (el_line z) = true.
Proof.
  intros z Hz. destruct (sym_facts94 z Hz) as [_ [Hne [Hs [Hl _]]]]. unfold el_line.
  change (symz z +++ "     0") with (symz z +++ String " " "    0"). rewrite (element_line_word _ _ Hne Hs).
  apply Nat.leb_le in Hl. rewrite Hl. reflexivity.
Qed.

Lemma digit_not_space : forall c, is_digit c = true -> is_space c = false.
Proof. intros c H. all_chars c; try reflexivity; discriminate H. Qed.

Lemma nat_str_tok : forall n, tok_ok (nat_str n).
Proof.
  intros n. split; [apply nat_str_ne|]. apply (sall_sany_false is_digit); [exact digit_not_space | apply nat_str_digits].
Qed.

Lemma dollar_long : forall x, dollar (x +++ "   1.00") = false.
Proof. intros [|a [|b x]]; reflexivity. Qed.

Lemma zero_match_false : forall d R, dollar R = false ->
  match String d R with String "0" r' => dollar r' | _ => false end = false.
Proof. intros d R H. all_chars d; try reflexivity; exact H. Qed.

Lemma hdr_not_element : forall s, g94_shell_ok s -> is_element_line (hdr s) = false.
Proof.
  intros s Hs. destruct (hdr_am_facts s Hs) as [Hne [Ha _]]. rewrite hdr_shape, (element_line_word _ _ Hne Ha).
  destruct (Nat.leb (String.length (hdr_amch s)) 3); [|reflexivity].
  rewrite lstrip_sp, (lstrip_word _ _ (nat_str_tok _)).
  destruct (nat_str (List.length (exps s))) as [|d N'] eqn:E; [exfalso; exact (nat_str_ne _ E)|].
  cbn [String.append]. apply zero_match_false, dollar_long.
Qed.

Lemma span_digit_word_sp : forall a r, sall is_digit a = true -> span_digit (a +++ String " " r) = (a, String " " r).
Proof.
  induction a as [|c a IH]; intros r H; [reflexivity|].
  cbn [sall] in H. apply andb_true_iff in H. destruct H as [Hc Ha].
  cbn [String.append span_digit]. rewrite Hc, (IH r Ha). reflexivity.
Qed.

Lemma hdr_match : forall s, g94_shell_ok s ->
  match_am_line (hdr s) = Some (hdr_amch s, nat_str (List.length (exps s)), "   1.00").
Proof.
  intros s Hs. destruct (hdr_am_facts s Hs) as [Hne [Ha _]].
  unfold match_am_line. rewrite hdr_shape, (span_alpha_word_sp _ _ Ha).
  destruct (hdr_amch s) as [|c0 r0] eqn:E0; [congruence|].
  unfold nprim_scaling. change (is_space " ") with true. cbv iota.
  cbn [lstrip_ws]. change (is_space " ") with true. cbv iota.
  rewrite lstrip_sp, (lstrip_word _ _ (nat_str_tok _)).
  change (nat_str (List.length (exps s)) +++ "   1.00") with (nat_str (List.length (exps s)) +++ String " " "  1.00").
  rewrite (span_digit_word_sp _ _ (nat_str_digits _)).
  destruct (nat_str (List.length (exps s))) as [|d N'] eqn:E; [exfalso; exact (nat_str_ne _ E)|].
  reflexivity.
Qed.

Lemma alpha_not_integer : forall c r, is_alpha c = true -> is_integer (String c r) = false.
Proof. intros c r H. all_chars c; try reflexivity; discriminate H. Qed.

(* ================================================================== *)
(* 7. the two partitions                                               *)
(* ================================================================== *)
Definition el_cond (x : string) : res bool := ok (is_element_line x).

Lemma blk94_lines : forall s l, g94_shell_ok s -> In l (blk94 s) ->
  is_element_line l = false /\ is_integer l = false.
Proof.
  intros s l Hs [<-|Hin].
  - split; [apply hdr_not_element, Hs|]. destruct (hdr_head s Hs) as [c [r [-> Hc]]]. now apply alpha_not_integer.
  - apply in_map_iff in Hin. destruct Hin as [row [<- Hrow]].
    pose proof (drows_num s Hs) as Hd. rewrite Forall_forall in Hd.
    destruct (numline_facts _ (Hd row Hrow)) as [H1 [H2 _]]. split; assumption.
Qed.

Lemma sec94_tail : forall zs l, el_ok94 zs -> In l (concat (map blk94 (snd zs)) ++ ["****"]) ->
  is_element_line l = false /\ is_integer l = false.
Proof.
  intros [z shs] l [_ [_ Hshs]] Hin. cbn [fst snd] in *. apply in_app_or in Hin. destruct Hin as [Hin|[<-|[]]].
  - apply in_concat in Hin. destruct Hin as [b [Hb Hl]]. apply in_map_iff in Hb. destruct Hb as [s [<- Hs]].
    rewrite Forall_forall in Hshs. apply (blk94_lines s l (Hshs s Hs) Hl).
  - split; reflexivity.
Qed.

Lemma sec94_shape : forall zs, el_ok94 zs -> block_shape el_cond (sec94 zs) /\ 3 <= List.length (sec94 zs).
Proof.
  intros zs H. pose proof H as [Hz [Hne Hshs]]. split.
  - exists (el_line (fst zs)), (concat (map blk94 (snd zs)) ++ ["****"]). split; [reflexivity|]. split.
    + unfold el_cond, ok. now rewrite (el_line_matches _ Hz).
    + rewrite Forall_forall. intros l Hl. unfold el_cond, ok. now rewrite (proj1 (sec94_tail zs l H Hl)).
  - unfold sec94. cbn [List.length]. rewrite app_length. cbn [List.length].
    destruct (snd zs) as [|s shs]; [congruence|]. cbn [map concat blk94 app List.length]. lia.
Qed.

Lemma partition_sections : forall els, Forall el_ok94 els ->
  partition_lines (concat (map sec94 els)) el_cond true 3 0 0 = inr (map sec94 els).
Proof.
  intros els H. unfold partition_lines. rewrite (part_blocks el_cond (map sec94 els) [] []).
  - cbn [flush app]. unfold bind. rewrite existsb_false; [reflexivity|].
    intros b Hb. apply in_map_iff in Hb. destruct Hb as [zs [<- Hzs]]. rewrite Forall_forall in H.
    apply Nat.ltb_ge. apply (sec94_shape zs (H zs Hzs)).
  - rewrite Forall_forall in *. intros b Hb. apply in_map_iff in Hb. destruct Hb as [zs [<- Hzs]].
    apply (sec94_shape zs (H zs Hzs)).
Qed.

Lemma blk94_shape : forall s, g94_shell_ok s -> block_shape starts_alpha (blk94 s).
Proof.
  intros s Hs. exists (hdr s), (map strip_ws (drows s)). split; [reflexivity|]. split.
  - destruct (hdr_head s Hs) as [c [r [-> Hc]]]. cbn [starts_alpha]. now rewrite Hc.
  - pose proof (drows_num s Hs) as Hd. rewrite Forall_forall in *. intros l Hin.
    apply in_map_iff in Hin. destruct Hin as [row [<- Hrow]]. apply (numline_facts _ (Hd row Hrow)).
Qed.

Lemma partition_shells94 : forall shs, Forall g94_shell_ok shs ->
  partition_lines (concat (map blk94 shs)) starts_alpha true 1 0 0 = inr (map blk94 shs).
Proof.
  intros shs H. unfold partition_lines. rewrite (part_blocks starts_alpha (map blk94 shs) [] []).
  - cbn [flush app]. unfold bind. rewrite existsb_false; [reflexivity|].
    intros b Hb. apply in_map_iff in Hb. destruct Hb as [s [<- Hs]]. apply Nat.ltb_ge. cbn [blk94 List.length]. lia.
  - rewrite Forall_forall in *. intros b Hb. apply in_map_iff in Hb. destruct Hb as [s [<- Hs]].
    apply blk94_shape, H, Hs.
Qed.

(* ================================================================== *)
(* 8. one shell block, one element section                             *)
(* ================================================================== *)
Lemma ftype_ok94 : forall a, a <> [] -> function_type_from_am a "gto" "spherical" = inr (g94_ftype a).
Proof. intros [|x a] H; [congruence|]. reflexivity. Qed.

Lemma scaling_one : scaling_factors "   1.00" = inr [(100%Z, (-2)%Z)].
Proof. vm_compute. reflexivity. Qed.

Lemma parse_block94 : forall s, g94_shell_ok s -> g94_parse_shell_block (blk94 s) = inr (g94_expected_shell s).
Proof.
  intros s Hs. destruct (drows_facts s Hs) as [_ [_ [_ [_ Hp]]]].
  destruct (hdr_am_facts s Hs) as [_ [_ Hback]]. pose proof (hdr_match s Hs) as Hm.
  destruct Hs as [_ [Hne [_ [Hlen _]]]].
  unfold g94_parse_shell_block, blk94. rewrite Hm, Hback. unfold bind at 1 2. unfold ok at 1.
  rewrite (ftype_ok94 (am s) Hne). unfold bind at 1. rewrite scaling_one. unfold bind at 1.
  change (filter dec_nonzero [(100%Z, (-2)%Z)]) with [(100%Z, (-2)%Z)].
  change (dec_square_not_one (100%Z, (-2)%Z)) with false.
  unfold parse_primitive_matrix_n. rewrite ppm_strip, Hp. unfold bind. cbn [fst snd].
  rewrite !map_length, nat_str_val, Nat2Z.id, Nat.eqb_refl, Hlen, Nat.eqb_refl. reflexivity.
Qed.

Lemma mapM_map_ok2 : forall (A B C : Type) (f : B -> res C) (g : A -> B) (h : A -> C) l,
  (forall x, In x l -> f (g x) = inr (h x)) -> mapM f (map g l) = inr (map h l).
Proof.
  intros A B C f g h; induction l as [|a l IH]; intros H; [reflexivity|].
  cbn [map mapM]. rewrite (H a (or_introl eq_refl)). unfold bind. rewrite IH; [reflexivity|].
  intros x Hx. apply H. now right.
Qed.

Lemma pop_last_snoc : forall l x, pop_last (l ++ [x]) = Some (l, x).
Proof.
  induction l as [|a l IH]; intros x; [reflexivity|].
  cbn [app pop_last]. rewrite IH. destruct (l ++ [x]) eqn:E; [destruct l; discriminate E | reflexivity].
Qed.

Lemma tokens_el_line : forall z, (1 <= z <= 120)%Z -> tokens_acc (el_line z) "" = [symz z; "0"].
Proof.
  intros z Hz. destruct (sym_facts94 z Hz) as [_ [Hne [Hs _]]]. pose proof (alpha_word_tok _ Hne Hs) as [_ Hsp].
  unfold el_line. rewrite (tokens_word (symz z) "     0" "" Hsp), sapp_nil_r.
  destruct (srev (symz z)) as [|a r] eqn:E; [exfalso; apply Hne; rewrite <- (srev_involutive (symz z)), E; reflexivity|].
  change (tokens_acc "     0" (String a r)) with (srev (String a r) :: ["0"]). rewrite <- E, srev_involutive. reflexivity.
Qed.

Lemma lstrip_dash_sym : forall z, (1 <= z <= 120)%Z -> lstrip_dash (symz z) = symz z.
Proof.
  intros z Hz. destruct (sym_facts94 z Hz) as [_ [Hne [Hs _]]]. destruct (alpha_head _ Hne Hs) as [c [r [-> Hc]]].
  pose proof (proj2 (alpha_not_bang c Hc)) as Hd. all_chars c; try reflexivity; discriminate Hd.
Qed.

Lemma existsb_Zeqb_false : forall z l, ~ In z l -> existsb (Z.eqb z) l = false.
Proof.
  intros z l H. apply existsb_false. intros x Hx. apply Z.eqb_neq. intros ->. exact (H Hx).
Qed.

Lemma parse_section94 : forall zs d, el_ok94 zs -> ~ In (fst zs) (map fst d) ->
  g94_parse_electron_lines (sec94 zs) d = inr (d ++ [(fst zs, map g94_expected_shell (snd zs))]).
Proof.
  intros [z shs] d [Hz [_ Hshs]] Hd. cbn [fst snd] in *. destruct (sym_facts94 z Hz) as [_ [_ [_ [_ Hback]]]].
  unfold g94_parse_electron_lines, sec94. cbn [fst snd].
  change (el_line z :: concat (map blk94 shs) ++ ["****"]) with ((el_line z :: concat (map blk94 shs)) ++ ["****"]).
  rewrite pop_last_snoc. change (String.eqb "****" "****") with true. cbn [negb].
  rewrite (tokens_el_line z Hz), (lstrip_dash_sym z Hz), Hback. unfold bind at 1.
  rewrite (existsb_Zeqb_false z _ Hd), (partition_shells94 shs Hshs). unfold bind at 1.
  rewrite (mapM_map_ok2 _ _ _ g94_parse_shell_block blk94 g94_expected_shell shs); [reflexivity|].
  intros s Hs. apply parse_block94. rewrite Forall_forall in Hshs. apply Hshs, Hs.
Qed.

Lemma not_ecp_guess : forall zs, el_ok94 zs ->
  match nth_error (sec94 zs) 3 with Some l3 => is_integer l3 | None => false end = false.
Proof.
  intros zs H. destruct (nth_error (sec94 zs) 3) as [l3|] eqn:E; [|reflexivity].
  apply nth_error_In in E. unfold sec94 in E. destruct E as [<-|E].
  - destruct (el_line_head (fst zs) (proj1 H)) as [c [r [-> Hc]]]. now apply alpha_not_integer.
  - apply (sec94_tail zs l3 H E).
Qed.

(* ================================================================== *)
(* 9. the loop over the element sections, the round trip               *)
(* ================================================================== *)
Lemma sections_parse94 : forall els d, Forall el_ok94 els -> NoDup (map fst els) ->
  (forall z, In z (map fst els) -> ~ In z (map fst d)) ->
  g94_sections (map sec94 els) d = inr (d ++ g94_expected els).
Proof.
  induction els as [|zs els IH]; intros d Hel Hnd Hdis.
  - cbn. now rewrite app_nil_r.
  - inversion Hel as [|? ? H1 H2]; subst. cbn [map] in Hnd. inversion Hnd as [|? ? Hnotin Hnd']; subst.
    cbn [map g94_sections]. rewrite (not_ecp_guess zs H1).
    rewrite (parse_section94 zs d H1); [|apply Hdis; now left]. unfold bind.
    rewrite IH; [| exact H2 | exact Hnd' |].
    + unfold g94_expected. cbn [map]. rewrite <- app_assoc. reflexivity.
    + intros z Hz. rewrite map_app, in_app_iff. cbn [map In fst]. intros [Hin|[Heq|[]]].
      * apply (Hdis z); [now right | exact Hin].
      * subst z. apply Hnotin, Hz.
Qed.

Lemma read_all_lines94 : forall els, g94_ok els -> g94_read_electron (all_lines94 els) = inr (g94_expected els).
Proof.
  intros els H. pose proof (g94_ok_els els H) as Hel. pose proof (pruned_lines94 els H) as Hp. destruct H as [Hnd _].
  unfold g94_read_electron. fold (prune2 (all_lines94 els)). rewrite Hp.
  destruct els as [|zs els]; [reflexivity|].
  destruct (concat (map sec94 (zs :: els))) as [|l L] eqn:E; [discriminate E|]. cbv iota. rewrite <- E. fold el_cond.
  rewrite (partition_sections _ Hel). unfold bind.
  rewrite (sections_parse94 (zs :: els) [] Hel Hnd); [reflexivity|]. intros z _ [].
Qed.

Lemma g94_roundtrip_exact : g94_roundtrip_stmt.
Proof.
  intros els H. unfold g94_roundtrip. rewrite (write_electron_lines94 els H). unfold bind.
  rewrite (splitlines_unlines _ (all_lines_good94 els H)). apply read_all_lines94, H.
Qed.

(* ================================================================== *)
(* 10. the hypotheses of g94_ok that cannot be dropped, and a concrete instance *)
(* ================================================================== *)
Lemma g94_roundtrip_empty : g94_roundtrip_empty_stmt.
Proof. vm_compute. reflexivity. Qed.
Lemma g94_roundtrip_noshell : g94_roundtrip_noshell_stmt.
Proof. split; vm_compute; reflexivity. Qed.
Lemma g94_roundtrip_general : g94_roundtrip_general_stmt.
Proof. split; vm_compute; reflexivity. Qed.
Lemma g94_roundtrip_fused : g94_roundtrip_fused_stmt.
Proof. vm_compute. reflexivity. Qed.
Lemma g94_roundtrip_noprim : g94_roundtrip_noprim_stmt.
Proof. vm_compute. reflexivity. Qed.
Lemma g94_roundtrip_noam : g94_roundtrip_noam_stmt.
Proof. vm_compute. reflexivity. Qed.
Lemma g94_am_bound : g94_am_bound_stmt.
Proof. repeat split; vm_compute; reflexivity. Qed.
Lemma g94_roundtrip_ragged : g94_roundtrip_ragged_stmt.
Proof. vm_compute. reflexivity. Qed.
Lemma g94_floating : g94_floating_stmt.
Proof. split; vm_compute; reflexivity. Qed.
Lemma g94_elements : g94_elements_stmt.
Proof. repeat split; vm_compute; reflexivity. Qed.
Lemma g94_cartesian : g94_cartesian_stmt.
Proof. vm_compute. reflexivity. Qed.
Lemma g94_scale : g94_scale_stmt.
Proof. repeat split; vm_compute; reflexivity. Qed.

Example g94_example : g94_example_stmt.
Proof.
  assert (Hunc : unc_gen_shells [ex_C4] = [ex94_C4a; ex94_C4b]) by (vm_compute; reflexivity).
  split; [exact Hunc|]. split; [|split; [|split; [|split; [|split]]]]; try (vm_compute; reflexivity).
  unfold g94_ok, ex94_els. rewrite Hunc. split.
  - cbn [map fst]. repeat constructor; cbn [In]; intros H; repeat (destruct H as [H|H]; [discriminate H|]); exact H.
  - repeat constructor; cbn; try lia; try discriminate; try reflexivity.
Qed.

Print Assumptions g94_write_total.
Print Assumptions g94_roundtrip_exact.
Print Assumptions g94_no_number_lost.
Print Assumptions g94_roundtrip_empty.
Print Assumptions g94_roundtrip_noshell.
Print Assumptions g94_roundtrip_general.
Print Assumptions g94_roundtrip_fused.
Print Assumptions g94_roundtrip_noprim.
Print Assumptions g94_roundtrip_noam.
Print Assumptions g94_am_bound.
Print Assumptions g94_roundtrip_ragged.
Print Assumptions g94_floating.
Print Assumptions g94_elements.
Print Assumptions g94_cartesian.
Print Assumptions g94_scale.
Print Assumptions g94_example.
