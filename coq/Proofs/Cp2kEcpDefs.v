(* Statements about the ECP part of the CP2K writer and about the whole file (electron part + ECP part): write_cp2k prints
   an ECP section, read_cp2k has no code for it - a text with an ECP section is never read back.
   Definitions only; the proofs are in Proofs/Cp2kEcpSpec.v. *)
From BSE Require Import Model.Val Model.Text Model.Basis Model.Manip Model.Matrix Model.Lut Model.Elements Model.Nwchem
                        Model.NwchemEcp Model.Cp2k Model.Cp2kEcp
                        Proofs.MatrixDefs Proofs.NwchemDefs Proofs.NwchemEcpDefs Proofs.Cp2kDefs.

(* ---------- well-formed input of the ECP part of the writer ---------- *)
(* ecp_pot_ok (Proofs/NwchemEcpDefs.v): exactly one angular momentum l, 0 <= l < 25; at least one term; one r exponent, one
   gaussian exponent and one coefficient per term; exactly one coefficient column (the writer has three point places);
   the numbers match helpers.floating_re.   pot_l p = the momentum of p. *)
Definition cp2k_ecp_el_ok (e : Z * (Z * list epot)) : Prop :=
  let '(z, (nelec, pots)) := e in
  (1 <= z <= 120)%Z /\
  (* at least one potential (max() of the writer), momenta pairwise distinct (the validator's rule).
     'ecp_electrons': no condition *)
  pots <> [] /\ Forall ecp_pot_ok pots /\ NoDup (map pot_l pots).

(* the whole file: els / ecps are the two views of basis['elements'] (an element may be in one of them or in both) *)
Definition cp2k_all_ok (bsname : string) (els : list (Z * list sshell)) (ecps : list (Z * (Z * list epot))) : Prop :=
  cp2k_ok bsname els /\ NoDup (map fst ecps) /\ Forall cp2k_ecp_el_ok ecps.

(* ---------- statements ---------- *)
(* the writer does not fail on well-formed input *)
Definition cp2k_all_write_total_stmt : Prop :=
  forall bsname els ecps, cp2k_all_ok bsname els ecps -> exists t, cp2k_write_all bsname els ecps = inr t.

(* without ECP the whole file is the electron part, and cp2k_roundtrip_stmt applies *)
Definition cp2k_all_noecp_stmt : Prop :=
  forall bsname els, cp2k_ok bsname els ->
    cp2k_write_all bsname els [] = cp2k_write_electron bsname els /\
    cp2k_roundtrip_all bsname els [] = inr (cp2k_expected els).

(* FINDING.  With at least one element that has an ECP, the text written by write_cp2k for ANY well-formed basis - however
   readable its electron part is - makes read_cp2k raise RuntimeError: the lines `Sym ul` / `Sym S` ... of the ECP section
   match element_shell_re (a symbol followed by a "basis name"), the line after them is a row of the potential and not a
   number of blocks; and without electron part the section's first line `name_ECP` is a section of its own that does not
   begin with an element line.  (Store: every basis set with an ECP, e.g. LANL2DZ, def2-SVP for Z > 36, def2-ECP.) *)
Definition cp2k_all_unreadable_stmt : Prop :=
  forall bsname els ecps, cp2k_all_ok bsname els ecps -> ecps <> [] ->
    cp2k_roundtrip_all bsname els ecps = inl ERuntime.

(* C04 direction: every number of the ECP part - gaussian exponents, coefficients, r exponents and electron counts in
   decimal - is a white-space delimited token of some line of the written text (so are those of the electron part:
   cp2k_no_number_lost_stmt; the electron lines are lines of the whole text as well) *)
Definition cp2k_ecp_no_number_lost_stmt : Prop :=
  forall bsname els ecps t, cp2k_all_ok bsname els ecps -> cp2k_write_all bsname els ecps = inr t ->
    (forall x, nw_ecp_number_of ecps x -> exists line, In line (splitlines t) /\ In x (tokens_acc line "")) /\
    (forall x, cp2k_number_of els x -> exists line, In line (splitlines t) /\ In x (tokens_acc line "")).

(* ---------- the writer's own failures ---------- *)
Definition kx_pot (l : Z) : epot := mkEpot "scalar_ecp" [l] [2%Z] ["1.0"] [["1.0"]].
(* no potential: max() of an empty list; no angular momentum: am[0]; two coefficient columns: three point places only *)
Definition cp2k_ecp_write_nopot_stmt : Prop := cp2k_write_ecp "x" [(11%Z, (10%Z, []))] = inl EValue.
Definition cp2k_ecp_write_noam_stmt : Prop :=
  cp2k_write_ecp "x" [(11%Z, (10%Z, [mkEpot "scalar_ecp" [] [2%Z] ["1.0"] [["1.0"]]]))] = inl EIndex.
Definition cp2k_ecp_write_twocol_stmt : Prop :=
  cp2k_write_ecp "x" [(11%Z, (10%Z, [mkEpot "scalar_ecp" [0%Z] [2%Z] ["1.0"] [["1.0"]; ["2.0"]]]))] = inl EIndex.
(* a blank in the name becomes an underscore in the name of the ECP section *)
Definition cp2k_ecp_name_stmt : Prop := cp2k_ecp_name "def2 SVP x" = "def2_SVP_x_ECP".

(* ---------- a concrete instance from the store: LANL2DZ for Na ---------- *)
Definition cx_Na_s : sshell :=
  mkShell "gto" "valence" [0%Z] ["0.4972000"; "0.0560000"; "0.0221000"]
          [["-0.2753574"; "1.0989969"; "0.0000000"]; ["0.0000000"; "0.0000000"; "1.0000000"]].
Definition cx_Na_p : sshell :=
  mkShell "gto" "valence" [1%Z] ["0.6697000"; "0.0636000"; "0.0204000"]
          [["-0.0683845"; "1.0140550"; "0.0000000"]; ["0.0000000"; "0.0000000"; "1.0000000"]].
Definition cx_Na_d : epot :=
  mkEpot "scalar_ecp" [2%Z] [1; 2; 2; 2; 2]%Z ["175.5502590"; "35.0516791"; "7.9060270"; "2.3365719"; "0.7799867"]
         [["-10.0000000"; "-47.4902024"; "-17.2283007"; "-6.0637782"; "-0.7299393"]].
Definition cx_Na_s_pot : epot :=
  mkEpot "scalar_ecp" [0%Z] [0; 1; 2; 2; 2]%Z ["243.3605846"; "41.5764759"; "13.2649167"; "3.6797165"; "0.9764209"]
         [["3.0000000"; "36.2847626"; "72.9304880"; "23.8401151"; "6.0123861"]].
Definition cx_Na_p_pot : epot :=
  mkEpot "scalar_ecp" [1%Z] [0; 1; 2; 2; 2; 2]%Z
         ["1257.2650682"; "189.6248810"; "54.5247759"; "13.7449955"; "3.6813579"; "0.9461106"]
         [["5.0000000"; "117.4495683"; "423.3986704"; "109.3247297"; "31.3701656"; "7.1241813"]].
Definition cx_Na_els : list (Z * list sshell) := [(11%Z, [cx_Na_s; cx_Na_p])].
Definition cx_Na_ecps : list (Z * (Z * list epot)) := [(11%Z, (10%Z, [cx_Na_d; cx_Na_s_pot; cx_Na_p_pot]))].

Definition cx_Na_text : string :=
  String.concat nl1
   ["# Sodium LANL2DZ (3s,3p) -> [2s,2p]";
    "Na LANL2DZ";
    "    2";
    "1 0 0 3 2";
    "      0.4972000             -0.2753574              0.0000000";
    "      0.0560000              1.0989969              0.0000000";
    "      0.0221000              0.0000000              1.0000000";
    "1 1 1 3 2";
    "      0.6697000             -0.0683845              0.0000000";
    "      0.0636000              1.0140550              0.0000000";
    "      0.0204000              0.0000000              1.0000000";
    "";
    "";
    "";
    "## Effective core potentials";
    "LANL2DZ_ECP";
    "Na nelec 10";
    "Na ul";
    "1    175.5502590            -10.0000000";
    "2     35.0516791            -47.4902024";
    "2      7.9060270            -17.2283007";
    "2      2.3365719             -6.0637782";
    "2      0.7799867             -0.7299393";
    "Na S";
    "0    243.3605846              3.0000000";
    "1     41.5764759             36.2847626";
    "2     13.2649167             72.9304880";
    "2      3.6797165             23.8401151";
    "2      0.9764209              6.0123861";
    "Na P";
    "0   1257.2650682              5.0000000";
    "1    189.6248810            117.4495683";
    "2     54.5247759            423.3986704";
    "2     13.7449955            109.3247297";
    "2      3.6813579             31.3701656";
    "2      0.9461106              7.1241813";
    "END LANL2DZ_ECP";
    ""].

Definition cp2k_all_example_stmt : Prop :=
  cp2k_all_ok "LANL2DZ" cx_Na_els cx_Na_ecps /\
  cp2k_write_all "LANL2DZ" cx_Na_els cx_Na_ecps = inr cx_Na_text /\
  (* the electron part alone is read back (two general contractions per shell, the region is dropped) ... *)
  cp2k_roundtrip "LANL2DZ" cx_Na_els = inr (cp2k_expected cx_Na_els) /\
  (* ... the whole file is not; neither is the ECP part alone (as for the store's ECP-only sets, e.g. def2-ECP) *)
  cp2k_roundtrip_all "LANL2DZ" cx_Na_els cx_Na_ecps = inl ERuntime /\
  cp2k_roundtrip_all "LANL2DZ" [] cx_Na_ecps = inl ERuntime.
