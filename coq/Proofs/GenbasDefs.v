(* Statements about the CFOUR / GENBAS writer / reader pair (electron shells): what write_cfour prints, read_genbas reads
   back.  Definitions only; the proofs are in Proofs/GenbasSpec.v. *)
From BSE Require Import Model.Val Model.Text Model.Basis Model.Manip Model.Matrix Model.Lut Model.Elements Model.Nwchem
                        Model.Turbomole Model.Genbas Proofs.MatrixDefs Proofs.NwchemDefs Proofs.TurbomoleDefs.

(* ---------- well-formed input of the writer (what is left after make_general / sort_basis) ---------- *)
Definition c4_shell_ok (s : sshell) : Prop :=
  (* at least one primitive (a shell without primitives comes back without contractions, and as the last shell of the file
     it makes the text unreadable: c4_roundtrip_noprim_stmt, c4_roundtrip_noprim_last_stmt) *)
  exps s <> [] /\
  (* exactly one angular momentum (make_general with skip_spdf=False leaves no fused shell): only am[0] is printed.  It is
     printed as a number in a '{:>5}' field, so ANY integer that leaves a blank in that field is fine (no table of letters
     is involved: momenta above 24 and even negative ones survive) *)
  (exists l, am s = [l] /\ (-1000 < l < 10000)%Z) /\
  (* at least one general contraction, every one with one coefficient per primitive (zip( *coefficients ) cuts to the shortest) *)
  coefs s <> [] /\ Forall (fun c => List.length c = List.length (exps s)) (coefs s) /\
  (* the numbers of primitives and of contractions are printed in '{:>5}' fields without a separator *)
  (Z.of_nat (List.length (exps s)) < 10000)%Z /\ (Z.of_nat (List.length (coefs s)) < 10000)%Z /\
  (* every number is a string matching helpers.floating_re (this implies: non-empty, no white space, a decimal point,
     bytes < 128 only - lemmas floating_is_cell, floating_ascii of Proofs/MatrixSpec.v) *)
  Forall floating (exps s) /\ Forall (Forall floating) (coefs s).

(* basis['name'] is printed after 'SYM:' on the element line and skipped by the reader (group 2 of element_block_re): it only
   has to stay on that line.  ASCII bytes only (the model works on bytes; Python's strip / \s / splitlines also know non-ASCII
   white space and line boundaries), none of them one of the line boundaries of str.splitlines (Proofs/TurbomoleDefs.v).
   The EMPTY name and a blank name are fine. *)
Definition c4_name_ok (name : string) : Prop := sall tm_name_char name = true.

(* basis['description'] is printed on a line of its own, which the reader skips (basis_lines[2:]) - provided the line is
   still there and the block is still taken for an electron block:
   - it has to stay on one line (as the name);
   - prune_lines(lines, '!#') removes it when its first non-blank character is '!' or '#': the comment characters of the
     format.  A description is free text for the schema, so this excludes VALID data (c4_roundtrip_desc_hash_stmt);
   - a description of the form 'ncore = 2 lmax = 1' (ecp_block_re, any case) turns the block into an ECP block.
   The empty description is fine; so is one that looks like an element line ('ab:c': min_after=1 protects it). *)
Definition c4_desc_ok (desc : string) : Prop :=
  sall tm_name_char desc = true /\
  first_in "!#" (strip_ws desc) = false /\
  is_ecp_block_line (strip_ws desc) = false.

Definition c4_ok (name desc : string) (els : list (Z * list sshell)) : Prop :=
  c4_name_ok name /\ c4_desc_ok desc /\
  (* dictionary keys: pairwise distinct atomic numbers, all of them in lut's element table (1..120).  NO condition `els <> []`
     (the text of no element is read back as no element) and NO condition `snd zs <> []` (an element without shells is
     written with nshell = 0 and comes back without shells) *)
  NoDup (map fst els) /\
  Forall (fun zs => (1 <= fst zs <= 120)%Z /\ Forall c4_shell_ok (snd zs)) els.

(* ---------- what comes back ---------- *)
(* the function type is lut.function_type_from_am([am], 'gto', 'spherical') (tm_ftype of Proofs/TurbomoleDefs.v), the region
   is '', and a number x comes back as replace_d(x.replace('E', 'D')) = replace_d(x) = norm false x, the normalisation of
   matrix_roundtrip_stmt: d/D -> e/E, every digit, sign and point kept (norm_keeps_digits of Proofs/MatrixSpec.v) *)
Definition c4_expected_shell (s : sshell) : sshell :=
  mkShell (tm_ftype (am s)) "" (am s) (map (norm false) (exps s)) (map (map (norm false)) (coefs s)).

Definition c4_expected (els : list (Z * list sshell)) : list (Z * list sshell) :=
  map (fun zs => (fst zs, map c4_expected_shell (snd zs))) els.

(* the reader undoes the writer's marker conversion *)
Definition c4_norm_stmt : Prop := forall x, replace_d (c4_dconv x) = norm false x.

(* ---------- statements ---------- *)
(* the writer does not fail on well-formed input *)
Definition c4_write_total_stmt : Prop :=
  forall name desc els, c4_ok name desc els -> exists t, c4_write_electron name desc els = inr t.

(* reading back what was written gives exactly the same elements, in order, with the same shells, in order *)
Definition c4_roundtrip_stmt : Prop :=
  forall name desc els, c4_ok name desc els -> c4_roundtrip name desc els = inr (c4_expected els).

(* C04 direction: every exponent and every coefficient of the input - the zeros that make_general pads with included, the
   writer leaves nothing out - is a white-space delimited token of some line of the written text, with the exponent marker
   as the writer prints it (E -> D, nothing else; a lower-case e stays) *)
Definition c4_no_number_lost_stmt : Prop :=
  forall name desc els t, c4_ok name desc els -> c4_write_electron name desc els = inr t ->
    forall x, tm_number_of els x -> exists line, In line (splitlines t) /\ In (c4_dconv x) (tokens_acc line "").
(* (the literal string is in general NOT there: 0.8E+00 is printed as 0.8D+00) *)
Definition c4_literal_number_counterexample_stmt : Prop :=
  exists t, c4_write_electron "n" "d" [(1%Z, [mkShell "gto" "" [0%Z] ["0.8E+00"] [["1.0"]]])] = inr t /\
            forallb (fun line => negb (existsb (String.eqb "0.8E+00") (tokens_acc line ""))) (splitlines t) = true.

(* ---------- the conditions of c4_ok cannot be dropped ---------- *)
Definition c4_h : sshell := mkShell "gto" "" [0%Z] ["1.0"] [["1.0"]].
Definition c4_sh (a : Z) (e : list string) (c : list (list string)) : sshell := mkShell "gto" "" [a] e c.

(* FINDING: a description whose first non-blank character is '#' or '!' (valid data) makes the written text unreadable *)
Definition c4_roundtrip_desc_hash_stmt : Prop := c4_roundtrip "n" "# d" [(1%Z, [c4_h])] = inl ERuntime.
Definition c4_roundtrip_desc_bang_stmt : Prop := c4_roundtrip "n" " !d" [(1%Z, [c4_h])] = inl ERuntime.
(* a description that matches ecp_block_re: the block is handed to _parse_ecp_lines, which refuses it *)
Definition c4_roundtrip_desc_ecp_stmt : Prop := c4_roundtrip "n" "ncore=2 LMAX =  1  " [(1%Z, [c4_h])] = inl ERuntime.
(* a description or a name with a line boundary inside *)
Definition c4_roundtrip_nldesc_stmt : Prop := c4_roundtrip "n" ("d" +++ nl1 +++ "e") [(1%Z, [c4_h])] = inl ERuntime.
Definition c4_roundtrip_nlname_stmt : Prop := c4_roundtrip ("a" +++ nl1 +++ "b") "d" [(1%Z, [c4_h])] = inl ERuntime.
(* what is NOT needed: empty name and description, blanks around them, a description that looks like an element line,
   no element at all, elements without shells *)
Definition c4_roundtrip_noname_stmt : Prop := c4_roundtrip "" "" [(1%Z, [c4_h])] = inr [(1%Z, [c4_h])].
Definition c4_roundtrip_blanks_stmt : Prop := c4_roundtrip " a b " "  " [(1%Z, [c4_h])] = inr [(1%Z, [c4_h])].
Definition c4_roundtrip_desc_element_stmt : Prop := c4_roundtrip "n" "ab:c" [(1%Z, [c4_h])] = inr [(1%Z, [c4_h])].
Definition c4_roundtrip_empty_stmt : Prop := c4_roundtrip "n" "d" [] = inr [].
Definition c4_roundtrip_noshell_stmt : Prop :=
  c4_roundtrip "n" "d" [(1%Z, []); (2%Z, [c4_h]); (3%Z, [])] = inr [(1%Z, []); (2%Z, [c4_h]); (3%Z, [])].
(* a fused shell (not possible after make_general(basis, False)): only am[0] is printed, the shell comes back - without an
   error - as an s shell with two contractions *)
Definition c4_roundtrip_fused_stmt : Prop :=
  c4_roundtrip "n" "d" [(1%Z, [mkShell "gto" "" [0%Z; 1%Z] ["1.0"] [["1.0"]; ["2.0"]]])] =
    inr [(1%Z, [mkShell "gto" "" [0%Z] ["1.0"] [["1.0"]; ["2.0"]]])].
(* no angular momentum at all: the writer fails *)
Definition c4_write_noam_stmt : Prop := c4_write_electron "n" "d" [(1%Z, [mkShell "gto" "" [] ["1.0"] [["1.0"]]])] = inl EIndex.
(* a shell without primitives: its (empty) contraction is lost; at the end of the file the text is unreadable because
   prune_lines strips the blank lines the reader expects *)
Definition c4_roundtrip_noprim_stmt : Prop :=
  c4_roundtrip "n" "d" [(1%Z, [c4_sh 0 [] [[]]; c4_h])] = inr [(1%Z, [c4_sh 0 [] []; c4_h])].
Definition c4_roundtrip_noprim_last_stmt : Prop := c4_roundtrip "n" "d" [(1%Z, [c4_sh 0 [] [[]]])] = inl ERuntime.
(* a shell without contractions, a contraction that is too short, a number without a decimal point (the writer prints
   them, the reader refuses the text) *)
Definition c4_roundtrip_nocontr_stmt : Prop := c4_roundtrip "n" "d" [(1%Z, [c4_sh 0 ["1.0"] []])] = inl ERuntime.
Definition c4_roundtrip_ragged_stmt : Prop :=
  c4_roundtrip "n" "d" [(1%Z, [c4_sh 0 ["1.0"; "2.0"] [["1.0"; "2.0"]; ["1.0"]]])] = inl ERuntime.
Definition c4_roundtrip_nopoint_stmt : Prop := c4_roundtrip "n" "d" [(1%Z, [c4_sh 0 ["1"] [["1.0"]]])] = inl ERuntime.
(* the '{:>5}' fields: a five-character entry runs into its left neighbour.  9999 and -999 are fine, and so is a
   momentum without a letter *)
Definition c4_roundtrip_wide_am_stmt : Prop :=
  c4_roundtrip "n" "d" [(1%Z, [c4_h; c4_sh 10000 ["1.0"] [["1.0"]]])] = inl ERuntime /\
  c4_roundtrip "n" "d" [(1%Z, [c4_h; c4_sh (-1000) ["1.0"] [["1.0"]]])] = inl ERuntime /\
  c4_roundtrip "n" "d" [(1%Z, [c4_h; c4_sh 9999 ["1.0"] [["1.0"]]; c4_sh (-999) ["1.0"] [["1.0"]]; c4_sh 30 ["1.0"] [["1.0"]]])] =
    inr [(1%Z, [c4_h; mkShell "gto_spherical" "" [9999%Z] ["1.0"] [["1.0"]]; c4_sh (-999) ["1.0"] [["1.0"]];
                mkShell "gto_spherical" "" [30%Z] ["1.0"] [["1.0"]]])].
Definition c4_roundtrip_wide_nprim_stmt : Prop :=
  c4_roundtrip "n" "d" [(1%Z, [c4_h; c4_sh 0 (repeat "1.0" 10000) [repeat "1.0" 10000]])] = inl ERuntime.
Definition c4_roundtrip_wide_ngen_stmt : Prop :=
  c4_roundtrip "n" "d" [(1%Z, [c4_h; c4_sh 0 ["1.0"] (repeat ["1.0"] 10000)])] = inl ERuntime.
(* the same atomic number twice (not possible in a Python dict): create_element_data refuses the second block;
   atomic number 121 has no symbol: the writer fails *)
Definition c4_roundtrip_dup_stmt : Prop := c4_roundtrip "n" "d" [(1%Z, [c4_h]); (1%Z, [c4_h])] = inl ERuntime.
Definition c4_write_z121_stmt : Prop := c4_write_electron "n" "d" [(121%Z, [c4_h])] = inl EKey.
(* what is lost: a Cartesian d shell comes back as gto_spherical, the region is dropped *)
Definition c4_roundtrip_cartesian_stmt : Prop :=
  c4_roundtrip "n" "d" [(1%Z, [mkShell "gto_cartesian" "valence" [2%Z] ["1.0"] [["1.0"]]])] =
    inr [(1%Z, [mkShell "gto_spherical" "" [2%Z] ["1.0"] [["1.0"]]])].
(* a number with a blank in front (they exist in the data files; not `floating`): it comes back stripped, without an error *)
Definition c4_roundtrip_blank_number_stmt : Prop :=
  c4_roundtrip "n" "d" [(1%Z, [c4_sh 0 ["1.0"; " 2.0"] [["1.0"; "1.0"]]])] = inr [(1%Z, [c4_sh 0 ["1.0"; "2.0"] [["1.0"; "1.0"]]])].
(* the exponent markers: E is written as D and read as E, a lower-case e is written as it is, d / D come back as e / E;
   seven primitives (two lines of exponents) and nine contractions (two lines per row of the coefficient matrix) *)
Definition c4_g : sshell :=
  c4_sh 1 ["1.0"; "2.5e-1"; "3.D+2"; "4.d0"; "5.E0"; "6."; ".7"]
        (["1.0"; "0.0"; "0.0"; "0.0"; "0.0"; "0.0"; "0.0"] :: ["0.1"; "0.2"; "0.3"; "0.4"; "0.5"; "0.6"; "0.7"] ::
         repeat (repeat "0.0" 7) 7).
Definition c4_markers_stmt : Prop :=
  c4_roundtrip "n" "d" [(2%Z, [c4_h; c4_g])] =
    inr [(2%Z, [c4_h; c4_sh 1 ["1.0"; "2.5e-1"; "3.E+2"; "4.e0"; "5.E0"; "6."; ".7"] (coefs c4_g)])] /\
  c4_write_electron "n" "d" [(2%Z, [c4_g])] =
    inr (String.concat nl1
          [""; "HE:n"; "d"; ""; "  1"; "    1"; "    9"; "    7"; "";
           "1.0 2.5e-1 3.D+2 4.d0 5.D0 "; "6. .7 "; "";
           "1.0 0.1 0.0 0.0 0.0 0.0 0.0 "; "0.0 0.0 ";
           "0.0 0.2 0.0 0.0 0.0 0.0 0.0 "; "0.0 0.0 ";
           "0.0 0.3 0.0 0.0 0.0 0.0 0.0 "; "0.0 0.0 ";
           "0.0 0.4 0.0 0.0 0.0 0.0 0.0 "; "0.0 0.0 ";
           "0.0 0.5 0.0 0.0 0.0 0.0 0.0 "; "0.0 0.0 ";
           "0.0 0.6 0.0 0.0 0.0 0.0 0.0 "; "0.0 0.0 ";
           "0.0 0.7 0.0 0.0 0.0 0.0 0.0 "; "0.0 0.0 "; ""; ""]).

(* ---------- a concrete instance: 6-31G for H and C as write_cfour sees it after make_general / sort_basis (one general
   contraction per momentum, padded with '0.00000000'; name and description as in the store) ---------- *)
Definition cx_H : sshell :=
  c4_sh 0 ["0.1873113696E+02"; "0.2825394365E+01"; "0.6401216923E+00"; "0.1612777588E+00"]
        [["0.3349460434E-01"; "0.2347269535E+00"; "0.8137573261E+00"; "0.00000000"];
         ["0.00000000"; "0.00000000"; "0.00000000"; "1.0000000"]].
Definition cx_C0 : sshell :=
  c4_sh 0 ["0.3047524880E+04"; "0.4573695180E+03"; "0.1039486850E+03"; "0.2921015530E+02"; "0.9286662960E+01";
           "0.7868272350E+01"; "0.3163926960E+01"; "0.1881288540E+01"; "0.5442492580E+00"; "0.1687144782E+00"]
        [["0.1834737132E-02"; "0.1403732281E-01"; "0.6884262226E-01"; "0.2321844432E+00"; "0.4679413484E+00";
          "0.00000000"; "0.3623119853E+00"; "0.00000000"; "0.00000000"; "0.00000000"];
         ["0.00000000"; "0.00000000"; "0.00000000"; "0.00000000"; "0.00000000";
          "-0.1193324198E+00"; "0.00000000"; "-0.1608541517E+00"; "0.1143456438E+01"; "0.00000000"];
         ["0.00000000"; "0.00000000"; "0.00000000"; "0.00000000"; "0.00000000";
          "0.00000000"; "0.00000000"; "0.00000000"; "0.00000000"; "0.1000000000E+01"]].
Definition cx_C1 : sshell :=
  c4_sh 1 ["0.7868272350E+01"; "0.1881288540E+01"; "0.5442492580E+00"; "0.1687144782E+00"]
        [["0.6899906659E-01"; "0.3164239610E+00"; "0.7443082909E+00"; "0.00000000"];
         ["0.00000000"; "0.00000000"; "0.00000000"; "0.1000000000E+01"]].
Definition cx_els : list (Z * list sshell) := [(1%Z, [cx_H]); (6%Z, [cx_C0; cx_C1])].

Definition cx_text : string :=
  String.concat nl1
   [""; "H:6-31G"; "6-31G valence double-zeta"; ""; "  1"; "    0"; "    2"; "    4"; "";
    "0.1873113696D+02 0.2825394365D+01 0.6401216923D+00 0.1612777588D+00 "; "";
    "0.3349460434D-01 0.00000000 "; "0.2347269535D+00 0.00000000 "; "0.8137573261D+00 0.00000000 ";
    "0.00000000 1.0000000 "; "";
    "C:6-31G"; "6-31G valence double-zeta"; ""; "  2"; "    0    1"; "    3    2"; "   10    4"; "";
    "0.3047524880D+04 0.4573695180D+03 0.1039486850D+03 0.2921015530D+02 0.9286662960D+01 ";
    "0.7868272350D+01 0.3163926960D+01 0.1881288540D+01 0.5442492580D+00 0.1687144782D+00 "; "";
    "0.1834737132D-02 0.00000000 0.00000000 "; "0.1403732281D-01 0.00000000 0.00000000 ";
    "0.6884262226D-01 0.00000000 0.00000000 "; "0.2321844432D+00 0.00000000 0.00000000 ";
    "0.4679413484D+00 0.00000000 0.00000000 "; "0.00000000 -0.1193324198D+00 0.00000000 ";
    "0.3623119853D+00 0.00000000 0.00000000 "; "0.00000000 -0.1608541517D+00 0.00000000 ";
    "0.00000000 0.1143456438D+01 0.00000000 "; "0.00000000 0.00000000 0.1000000000D+01 "; "";
    "0.7868272350D+01 0.1881288540D+01 0.5442492580D+00 0.1687144782D+00 "; "";
    "0.6899906659D-01 0.00000000 "; "0.3164239610D+00 0.00000000 "; "0.7443082909D+00 0.00000000 ";
    "0.00000000 0.1000000000D+01 "; ""; ""].

Definition c4_example_stmt : Prop :=
  c4_ok "6-31G" "6-31G valence double-zeta" cx_els /\
  c4_write_electron "6-31G" "6-31G valence double-zeta" cx_els = inr cx_text /\
  c4_roundtrip "6-31G" "6-31G valence double-zeta" cx_els = inr (c4_expected cx_els) /\
  (* nothing at all changes here: the markers are upper-case E, the momenta are 0 and 1, make_general has emptied the region *)
  c4_expected cx_els = cx_els.
