(* C09: proofs of the statements of RefsDefs.v about the reference handling model (Model/Refs.v). *)
From Coq Require Import Sorting.Permutation Sorted.
From BSE Require Import Model.Val Model.Basis Model.Memo Model.Compose Model.Index Model.Elements Model.Text Model.Refs.
From BSE Require Import Proofs.ComposeSpec Proofs.MemoSpec Proofs.HeaderSpec Proofs.RefsDefs.

(* ====================================================================== *)
(* strings: prefix / infix                                                 *)
(* ====================================================================== *)
Lemma infix_unfold : forall p s,
  infix p s = if str_prefix p s then true else match s with EmptyString => false | String _ t => infix p t end.
Proof. intros p s; destruct s; reflexivity. Qed.

Lemma str_prefix_iff : forall p s, str_prefix p s = true <-> exists b, s = p +++ b.
Proof.
  induction p as [|a p IH]; intros s; cbn.
  - split; [intros _; exists s; reflexivity|reflexivity].
  - destruct s as [|c s].
    + split; [discriminate|intros (b & Hb); discriminate].
    + rewrite andb_true_iff, Ascii.eqb_eq, IH. split.
      * intros (-> & b & ->). exists b; reflexivity.
      * intros (b & Hb). inversion Hb; subst. split; [reflexivity|exists b; reflexivity].
Qed.

Lemma infix_iff : forall p s, infix p s = true <-> exists a b, s = a +++ p +++ b.
Proof.
  intros p s; induction s as [|c s IH]; rewrite infix_unfold.
  - destruct (str_prefix p "") eqn:E.
    + apply str_prefix_iff in E. destruct E as (b & Hb). split; [intros _|reflexivity].
      exists "", b; exact Hb.
    + split; [discriminate|]. intros (a & b & H).
      destruct a; cbn in H; [|discriminate].
      assert (str_prefix p "" = true) by (apply str_prefix_iff; exists b; exact H). congruence.
  - destruct (str_prefix p (String c s)) eqn:E.
    + apply str_prefix_iff in E. destruct E as (b & Hb). split; [intros _|reflexivity].
      exists "", b; exact Hb.
    + rewrite IH. split.
      * intros (a & b & ->). exists (String c a), b; reflexivity.
      * intros (a & b & H). destruct a as [|c' a]; cbn in H.
        -- assert (str_prefix p (String c s) = true) by (apply str_prefix_iff; exists b; exact H). congruence.
        -- inversion H; subst. exists a, b; reflexivity.
Qed.

Lemma infix_refl : forall p, infix p p = true.
Proof. intros p; apply infix_iff; exists "", "". cbn. symmetry; apply sapp_nil_r. Qed.

Lemma infix_mid : forall p a b, infix p (a +++ p +++ b) = true.
Proof. intros; apply infix_iff; eauto. Qed.

Lemma infix_trans : forall a b c, infix a b = true -> infix b c = true -> infix a c = true.
Proof.
  intros a b c H1 H2. apply infix_iff in H1; apply infix_iff in H2. apply infix_iff.
  destruct H1 as (x & y & ->). destruct H2 as (u & v & ->).
  exists (u +++ x), (y +++ v). rewrite !sapp_assoc. reflexivity.
Qed.

Lemma infix_app_r : forall p a b, infix p b = true -> infix p (a +++ b) = true.
Proof.
  intros p a b H. apply infix_iff in H; apply infix_iff. destruct H as (x & y & ->).
  exists (a +++ x), y. rewrite !sapp_assoc. reflexivity.
Qed.

Lemma infix_app_l : forall p a b, infix p a = true -> infix p (a +++ b) = true.
Proof.
  intros p a b H. apply infix_iff in H; apply infix_iff. destruct H as (x & y & ->).
  exists x, (y +++ b). rewrite !sapp_assoc. reflexivity.
Qed.

Lemma infix_sjoin : forall sep l x, In x l -> infix x (sjoin sep l) = true.
Proof.
  intros sep l; induction l as [|y t IH]; intros x Hin; [destruct Hin|].
  destruct t as [|z t'].
  - destruct Hin as [->|[]]. cbn. apply infix_refl.
  - change (sjoin sep (y :: z :: t')) with (y +++ sep +++ sjoin sep (z :: t')).
    destruct Hin as [->|Hin].
    + apply infix_app_l, infix_refl.
    + apply infix_app_r, infix_app_r, IH, Hin.
Qed.

Lemma infix_concat : forall l x p, In x l -> infix p x = true -> infix p (String.concat "" l) = true.
Proof.
  induction l as [|y t IH]; intros x p Hin Hp; [destruct Hin|].
  rewrite concat_cons. destruct Hin as [->|Hin].
  - apply infix_app_l, Hp.
  - apply infix_app_r. eapply IH; eauto.
Qed.

(* ====================================================================== *)
(* compact_references                                                      *)
(* ====================================================================== *)
Definition grp_go (els : list (string * val)) :=
  fix go (ks : list string) (gs : list rgroup) : res (list rgroup) :=
    match ks with
    | [] => ok gs
    | k :: t => match assoc k els with
                | None => fail EKey
                | Some el => do r <- vfield "references" el; go t (add_to_group k r gs)
                end
    end.

Lemma compact_references_eq : forall els refs,
  compact_references els refs =
  (do keys <- sort_keys_int (map fst els);
   do groups <- grp_go els keys [];
   mapM (fun g => do i <- resolve_info refs (g_info g); ok {| g_info := i; g_elements := g_elements g |}) groups).
Proof. reflexivity. Qed.

Definition all_elements (gs : list rgroup) : list string := concat (map g_elements gs).

Lemma add_to_group_perm : forall k r gs,
  Permutation (all_elements (add_to_group k r gs)) (k :: all_elements gs).
Proof.
  intros k r gs; induction gs as [|g t IH]; cbn [add_to_group].
  - cbn. apply Permutation_refl.
  - destruct (val_eqb (g_info g) r); unfold all_elements in *; cbn [map concat g_elements].
    + change (k :: g_elements g ++ concat (map g_elements t)) with ((k :: g_elements g) ++ concat (map g_elements t)).
      apply Permutation_app_tail. apply Permutation_sym, Permutation_cons_append.
    + eapply Permutation_trans; [apply Permutation_app_head, IH|].
      apply Permutation_sym, Permutation_middle.
Qed.

Lemma add_to_group_nonempty : forall k r gs,
  Forall (fun g => g_elements g <> []) gs -> Forall (fun g => g_elements g <> []) (add_to_group k r gs).
Proof.
  intros k r gs H; induction H as [|g t Hg Ht IH]; cbn [add_to_group].
  - constructor; [cbn; discriminate|constructor].
  - destruct (val_eqb (g_info g) r).
    + constructor; [|assumption]. cbn. intros E. apply app_eq_nil in E. destruct E; discriminate.
    + constructor; assumption.
Qed.

Lemma grp_go_perm : forall els ks gs gs', grp_go els ks gs = inr gs' ->
  Permutation (all_elements gs') (all_elements gs ++ ks) /\
  (Forall (fun g => g_elements g <> []) gs -> Forall (fun g => g_elements g <> []) gs').
Proof.
  intros els; induction ks as [|k t IH]; intros gs gs' H; cbn in H.
  - inversion H; subst. rewrite app_nil_r. split; [apply Permutation_refl|auto].
  - destruct (assoc k els) as [el|]; [|discriminate]. inv_bind H.
    apply IH in H. destruct H as (HP & HF). split.
    + eapply Permutation_trans; [exact HP|].
      eapply Permutation_trans; [apply Permutation_app_tail, add_to_group_perm|].
      cbn. apply Permutation_middle.
    + intros Hne. apply HF, add_to_group_nonempty, Hne.
Qed.

Lemma insert_by_int_perm : forall x l, Permutation (insert_by_int x l) (x :: l).
Proof.
  intros x l; induction l as [|y t IH]; cbn [insert_by_int]; [apply Permutation_refl|].
  destruct (fst y <=? fst x)%Z; [|apply Permutation_refl].
  eapply Permutation_trans; [apply perm_skip, IH|apply perm_swap].
Qed.

Lemma fold_insert_by_int_perm : forall zs acc,
  Permutation (fold_left (fun acc x => insert_by_int x acc) zs acc) (acc ++ zs).
Proof.
  induction zs as [|z t IH]; intros acc; cbn [fold_left].
  - rewrite app_nil_r; apply Permutation_refl.
  - eapply Permutation_trans; [apply IH|].
    eapply Permutation_trans; [apply Permutation_app_tail, insert_by_int_perm|].
    cbn. apply Permutation_middle.
Qed.

Lemma sort_keys_int_perm : forall ks ks', sort_keys_int ks = inr ks' -> Permutation ks' ks.
Proof.
  intros ks ks' H. unfold sort_keys_int in H. inv_bind H. inversion H; subst; clear H.
  assert (Hs : map snd x = ks).
  { apply mapM_F2 in E. induction E as [|a b l l' Hab HF IH]; [reflexivity|].
    cbn beta in Hab. inv_bind Hab. inversion Hab; subst. cbn [map snd]. congruence. }
  rewrite <- Hs. apply Permutation_map. apply (fold_insert_by_int_perm x []).
Qed.

Lemma resolved_groups : forall refs groups gs,
  mapM (fun g => do i <- resolve_info refs (g_info g); ok {| g_info := i; g_elements := g_elements g |}) groups = inr gs ->
  Forall2 (fun g0 g => resolve_info refs (g_info g0) = inr (g_info g) /\ g_elements g = g_elements g0) groups gs.
Proof.
  intros refs groups gs H. apply mapM_F2 in H. eapply F2_impl; [|exact H].
  intros a b Hab. cbn beta in Hab. inv_bind Hab. inversion Hab; subst. cbn. split; [assumption|reflexivity].
Qed.

Lemma groups_partition : groups_partition_stmt.
Proof.
  intros els refs gs _ H. rewrite compact_references_eq in H.
  inv_bind H. rename x into keys. inv_bind H. rename x into groups.
  apply resolved_groups in H.
  assert (Hel : map g_elements gs = map g_elements groups).
  { clear - H. induction H as [|a b l l' (_ & Hab) HF IH]; [reflexivity|]. cbn [map]. f_equal; assumption. }
  apply grp_go_perm in E0. destruct E0 as (HP & HF). split.
  - change (Permutation (all_elements gs) (map fst els)). unfold all_elements. rewrite Hel.
    eapply Permutation_trans; [exact HP|]. cbn. apply sort_keys_int_perm, E.
  - specialize (HF (Forall_nil _)). clear - H HF.
    induction H as [|a b l l' (_ & Hab) H2 IH]; [constructor|].
    inversion HF; subst. constructor; [rewrite Hab; assumption|auto].
Qed.

(* invariant of the grouping loop: every member of a group carries the group's reference list *)
Definition ginv (els : list (string * val)) (gs : list rgroup) : Prop :=
  forall g z, In g gs -> In z (g_elements g) ->
    exists el, assoc z els = Some el /\ vfield "references" el = inr (g_info g).

Lemma add_to_group_inv : forall els k el r gs,
  assoc k els = Some el -> vfield "references" el = inr r -> ginv els gs -> ginv els (add_to_group k r gs).
Proof.
  intros els k el r gs Hk Hr; induction gs as [|g t IH]; intros Hinv; cbn [add_to_group].
  - intros g z [<-|[]] Hz. cbn in Hz. destruct Hz as [<-|[]]. exists el. cbn. auto.
  - destruct (val_eqb (g_info g) r) eqn:E.
    + apply val_eqb_eq in E.
      intros g' z [<-|Hin] Hz.
      * cbn in Hz |- *. apply in_app_or in Hz. destruct Hz as [Hz|[<-|[]]].
        -- apply (Hinv g z); [left; reflexivity|assumption].
        -- exists el. rewrite E. auto.
      * apply (Hinv g' z); [right; assumption|assumption].
    + intros g' z [<-|Hin] Hz.
      * apply (Hinv g z); [left; reflexivity|assumption].
      * apply IH; [|assumption|assumption].
        intros g'' z'' Hg'' Hz''. apply (Hinv g'' z''); [right; assumption|assumption].
Qed.

Lemma grp_go_inv : forall els ks gs gs', grp_go els ks gs = inr gs' -> ginv els gs -> ginv els gs'.
Proof.
  intros els; induction ks as [|k t IH]; intros gs gs' H Hinv; cbn in H.
  - inversion H; subst; assumption.
  - destruct (assoc k els) as [el|] eqn:Hk; [|discriminate]. inv_bind H.
    eapply IH; [exact H|]. eapply add_to_group_inv; eauto.
Qed.

Lemma group_info : group_info_stmt.
Proof.
  intros els refs gs g z el r H Hg Hz Hel Hr. rewrite compact_references_eq in H.
  inv_bind H. rename x into keys. inv_bind H. rename x into groups.
  apply resolved_groups in H.
  destruct (@F2_in_r _ _ _ _ _ _ H Hg) as (g0 & Hg0 & Hres & Hels).
  assert (Hinv : ginv els groups).
  { eapply grp_go_inv; [exact E0|]. intros ? ? []. }
  rewrite Hels in Hz. destruct (Hinv g0 z Hg0 Hz) as (el' & Hel' & Hr').
  rewrite Hel in Hel'. inversion Hel'; subst el'. rewrite Hr in Hr'. inversion Hr'; subst r. exact Hres.
Qed.

(* ====================================================================== *)
(* resolve_info                                                            *)
(* ====================================================================== *)
Lemma resolve_info_spec : resolve_info_spec_stmt.
Proof.
  intros refs info out H. unfold resolve_info in H.
  inv_bind H. rename x into l, E into Hl. inv_bind H. rename x into l', E into Hl'.
  inversion H; subst out; clear H. apply vlist_inr in Hl.
  exists l, l'. split; [assumption|]. split; [reflexivity|].
  apply mapM_F2 in Hl'. eapply F2_impl; [|exact Hl']. clear. intros elref o Ho. cbn beta in Ho.
  inv_bind Ho. rename x into d, E into Hd. inv_bind Ho. rename x into keys, E into Hk.
  inv_bind Ho. rename x into data, E into Hdata. inversion Ho; subst o; clear Ho.
  apply vdict_inr in Hd. exists d, keys, data. split; [assumption|]. split; [assumption|]. split; [reflexivity|].
  apply mapM_F2 in Hdata. eapply F2_impl; [|exact Hdata]. clear. intros k p Hp. cbn beta in Hp.
  destruct (assoc k refs) as [r|]; [|discriminate]. inversion Hp; subst. exists r; auto.
Qed.

Lemma mapM_fail : forall A B (f : A -> res B) l a e, In a l -> f a = inl e -> exists e', mapM f l = inl e'.
Proof.
  intros A B f l a e; induction l as [|y t IH]; intros Hin Hf; [destruct Hin|]. cbn [mapM].
  destruct (f y) as [e1|b] eqn:Ey; cbn [bind]; [eauto|].
  destruct Hin as [->|Hin]; [congruence|].
  destruct (IH Hin Hf) as (e' & He'). rewrite He'. cbn. eauto.
Qed.

Lemma mapM_vstr_strs : forall ks, mapM vstr (map VStr ks) = inr ks.
Proof. induction ks as [|k t IH]; cbn; [reflexivity|]. rewrite IH. reflexivity. Qed.

Lemma unknown_key_refused : unknown_key_refused_stmt.
Proof.
  intros refs d k pre post Hk.
  set (f := fun k0 : string => match assoc k0 refs with Some r => ok (VList [VStr k0; r]) | None => @fail val EKey end).
  destruct (@mapM_fail _ _ f (pre ++ k :: post) k EKey) as (e & He).
  { apply in_or_app; right; left; reflexivity. }
  { unfold f. rewrite Hk. reflexivity. }
  exists e. unfold resolve_info. cbn [vlist bind ok mapM vdict].
  replace (vfield "reference_keys" (VDict (("reference_keys", VStrs (pre ++ k :: post)) :: d)))
    with (@inr err val (VStrs (pre ++ k :: post))) by reflexivity.
  cbn [bind]. unfold VStrs. cbn [vlist bind ok]. rewrite mapM_vstr_strs. cbn [bind].
  fold f. rewrite He. reflexivity.
Qed.

(* ====================================================================== *)
(* single-reference writers                                                *)
(* ====================================================================== *)
Lemma infix_cons : forall p c s, infix p s = true -> infix p (String c s) = true.
Proof. intros p c s H. apply (infix_app_r p (String c "") s H). Qed.

Ltac infix_right :=
  match goal with
  | |- infix ?p ?p = true => apply infix_refl
  | |- infix ?p (?p +++ _) = true => apply infix_app_l, infix_refl
  | |- infix ?p (_ +++ _) = true => apply infix_app_r; infix_right
  | |- infix ?p (String _ _) = true => apply infix_cons; infix_right
  end.

Definition strs_in (l : list val) : list string := flat_map (fun x => match x with VStr s => [s] | _ => [] end) l.

Lemma field_values_cons : forall k v t,
  field_values ((k, v) :: t) =
  (if String.eqb k "_entry_type" then []
   else match v with VStr s => [s] | VList l => strs_in l | _ => [] end) ++ field_values t.
Proof. reflexivity. Qed.

Lemma strs_in_strs : forall a, strs_in (map VStr a) = a.
Proof. induction a as [|x t IH]; cbn; [reflexivity|]. f_equal; exact IH. Qed.

Lemma strs_of_inr : forall v a, strs_of v = inr a -> v = VList (map VStr a).
Proof.
  intros v a H. unfold strs_of in H. inv_bind H. apply vlist_inr in E. apply mapM_vstr in H. subst. reflexivity.
Qed.

Lemma str_of_values : forall v s x, str_of v = inr s ->
  In x (match v with VStr s => [s] | VList l => strs_in l | _ => [] end) -> x = s.
Proof.
  intros v s x H Hin. destruct v; cbn in H; try discriminate; cbn in Hin.
  - destruct Hin.
  - inversion H; subst. destruct Hin as [<-|[]]. reflexivity.
Qed.

Lemma bib_lines_values : forall ref ls, bib_lines ref = inr ls ->
  forall x, In x (field_values ref) -> exists l, In l ls /\ infix x l = true.
Proof.
  induction ref as [|[k v] t IH]; intros ls H x Hx; [destruct Hx|].
  cbn [bib_lines] in H. inv_bind H. rename x0 into rest, E into Hrest.
  rewrite field_values_cons in Hx. apply in_app_or in Hx.
  assert (Htail : In x (field_values t) -> forall l0, exists l, In l (l0 :: rest) /\ infix x l = true).
  { intros Hin l0. destruct (IH _ Hrest x Hin) as (l & Hl & Hi). exists l. split; [right; assumption|assumption]. }
  destruct (String.eqb k "_entry_type").
  - inversion H; subst. destruct Hx as [[]|Hx]. apply (IH _ Hrest x Hx).
  - destruct (String.eqb k "authors").
    { inv_bind H. inversion H; subst; clear H. destruct Hx as [Hx|Hx]; [|apply Htail, Hx].
      apply strs_of_inr in E. subst v. rewrite strs_in_strs in Hx.
      eexists; split; [left; reflexivity|].
      eapply infix_trans; [apply (infix_sjoin " and " _ _ Hx)|]. infix_right. }
    destruct (String.eqb k "editors").
    { inv_bind H. inversion H; subst; clear H. destruct Hx as [Hx|Hx]; [|apply Htail, Hx].
      apply strs_of_inr in E. subst v. rewrite strs_in_strs in Hx.
      eexists; split; [left; reflexivity|].
      eapply infix_trans; [apply (infix_sjoin " and " _ _ Hx)|]. infix_right. }
    inv_bind H. inversion H; subst; clear H. destruct Hx as [Hx|Hx]; [|apply Htail, Hx].
    apply (str_of_values _ _ _ E) in Hx. subst x.
    eexists; split; [left; reflexivity|]. infix_right.
Qed.

Lemma Forall_infix_lines : forall (vals ls : list string) sep pre post,
  (forall x, In x vals -> exists l, In l ls /\ infix x l = true) ->
  Forall (fun v => infix v (pre +++ sjoin sep ls +++ post) = true) vals.
Proof.
  intros vals ls sep pre post H. apply Forall_forall. intros x Hx.
  destruct (H x Hx) as (l & Hl & Hi).
  apply infix_app_r, infix_app_l. eapply infix_trans; [exact Hi|]. apply infix_sjoin, Hl.
Qed.

Lemma bib_fields : bib_fields_stmt.
Proof.
  intros key ref s H. unfold write_bib in H. inv_bind H. rename x into t. inv_bind H. rename x into ls.
  inversion H; subst s; clear H. split; [infix_right|].
  pose proof (Forall_infix_lines (field_values ref) ls ("," +++ nl) ("@" +++ t +++ "{" +++ key +++ "," +++ nl) (nl +++ "}")
                (bib_lines_values _ _ E0)) as HF.
  rewrite !sapp_assoc in HF. exact HF.
Qed.

Lemma tagged_lines_values : forall au note tags ref ls, tagged_lines au note tags ref = inr ls ->
  forall x, In x (field_values ref) -> exists l, In l ls /\ infix x l = true.
Proof.
  intros au note tags; induction ref as [|[k v] t IH]; intros ls H x Hx; [destruct Hx|].
  cbn [tagged_lines] in H. inv_bind H. rename x0 into rest, E into Hrest.
  rewrite field_values_cons in Hx. apply in_app_or in Hx.
  assert (Htail : In x (field_values t) -> forall l0, exists l, In l (l0 :: rest) /\ infix x l = true).
  { intros Hin l0. destruct (IH _ Hrest x Hin) as (l & Hl & Hi). exists l. split; [right; assumption|assumption]. }
  destruct (String.eqb k "_entry_type").
  - inversion H; subst. destruct Hx as [[]|Hx]. apply (IH _ Hrest x Hx).
  - destruct (String.eqb k "authors").
    { inv_bind H. inversion H; subst; clear H. destruct Hx as [Hx|Hx].
      - apply strs_of_inr in E. subst v. rewrite strs_in_strs in Hx.
        exists (au +++ " " +++ x). split; [|infix_right].
        apply in_or_app; left. apply (in_map (fun y => au +++ " " +++ y)), Hx.
      - destruct (IH _ Hrest x Hx) as (l & Hl & Hi). exists l. split; [apply in_or_app; right; assumption|assumption]. }
    destruct (assoc k tags) as [tag|].
    { inv_bind H. inversion H; subst; clear H. destruct Hx as [Hx|Hx]; [|apply Htail, Hx].
      apply (str_of_values _ _ _ E) in Hx. subst x.
      eexists; split; [left; reflexivity|]. infix_right. }
    inv_bind H. rename x0 into s. inversion H; subst; clear H. destruct Hx as [Hx|Hx]; [|apply Htail, Hx].
    eexists; split; [left; reflexivity|].
    eapply (infix_trans x s); [|infix_right].
    destruct v; try (apply (str_of_values _ _ _ E) in Hx; subst x; apply infix_refl).
    inv_bind E. rename x0 into ss. inversion E; subst s; clear E.
    apply mapM_vstr in E0. subst l. rewrite strs_in_strs in Hx.
    apply infix_cons, infix_app_l.
    assert (Hq : infix x ("'" +++ x +++ "'") = true) by infix_right.
    eapply infix_trans; [exact Hq|]. apply infix_sjoin.
    apply (in_map (fun y => "'" +++ y +++ "'")), Hx.
Qed.

Lemma tagged_fields : forall types dflt au note tags key ref s,
  write_tagged types dflt au note tags key ref = inr s ->
  infix key s = true /\ Forall (fun v => infix v s = true) (field_values ref).
Proof.
  intros types dflt au note tags key ref s H. unfold write_tagged in H.
  inv_bind H. rename x into t. inv_bind H. rename x into ls.
  inversion H; subst s; clear H. split; [infix_right|].
  pose proof (Forall_infix_lines (field_values ref) ls nl
                ("#" +++ t +++ " " +++ key +++ nl +++ (match assoc t types with Some h => h | None => dflt end) +++ nl) nl
                (tagged_lines_values _ _ _ _ _ E0)) as HF.
  rewrite !sapp_assoc in HF. exact HF.
Qed.

Lemma ris_fields : ris_fields_stmt.
Proof. intros key ref s H. exact (tagged_fields _ _ _ _ _ _ _ _ H). Qed.

Lemma endnote_fields : endnote_fields_stmt.
Proof. intros key ref s H. exact (tagged_fields _ _ _ _ _ _ _ _ H). Qed.

(* ====================================================================== *)
(* sort_single_reference                                                   *)
(* ====================================================================== *)
Lemma insert_by_rank_perm : forall x l, Permutation (insert_by_rank x l) (x :: l).
Proof.
  intros x l; induction l as [|y t IH]; cbn [insert_by_rank]; [apply Permutation_refl|].
  destruct (Nat.leb (fst y) (fst x)); [|apply Permutation_refl].
  eapply Permutation_trans; [apply perm_skip, IH|apply perm_swap].
Qed.

Lemma fold_insert_by_rank_perm : forall zs acc,
  Permutation (fold_left (fun acc x => insert_by_rank x acc) zs acc) (acc ++ zs).
Proof.
  induction zs as [|z t IH]; intros acc; cbn [fold_left].
  - rewrite app_nil_r; apply Permutation_refl.
  - eapply Permutation_trans; [apply IH|].
    eapply Permutation_trans; [apply Permutation_app_tail, insert_by_rank_perm|].
    cbn. apply Permutation_middle.
Qed.

Lemma sort_single_reference_perm : sort_single_reference_perm_stmt.
Proof.
  intros r r' H. unfold sort_single_reference in H. inv_bind H. rename x into ranked.
  inversion H; subst r'; clear H.
  assert (Hs : map snd ranked = r).
  { apply mapM_F2 in E. clear - E. induction E as [|a b l l' Hab HF IH]; [reflexivity|].
    cbn beta in Hab. destruct (index_of_str (fst a) ref_keyorder 0); [|discriminate].
    inversion Hab; subst. cbn [map snd]. congruence. }
  rewrite <- Hs. apply Permutation_map, Permutation_sym. apply (fold_insert_by_rank_perm ranked []).
Qed.

(* ====================================================================== *)
(* process_notes                                                           *)
(* ====================================================================== *)
Lemma process_notes_spec : process_notes_spec_stmt.
Proof.
  intros notes keys txt out H. cbv zeta. unfold process_notes in H. cbv zeta in H.
  split; [|split].
  - intros Hf. rewrite Hf in H. inversion H; reflexivity.
  - intros Hne. remember (sorted_set (filter (fun k => infix k notes) keys)) as found eqn:Ef. clear Ef.
    destruct found as [|k0 t]; [congruence|]. clear Hne.
    inv_bind H. rename x into texts, E into Ht. inversion H; subst out; clear H.
    eexists. split; [reflexivity|].
    intros k Hk. destruct (@mapM_ok_each _ _ _ _ _ _ Ht Hk) as (b & Hb & Hin).
    destruct (assoc k txt) as [s|]; [|discriminate]. inversion Hb; subst b; clear Hb.
    exists s. split; [reflexivity|].
    assert (Hc : infix s (String.concat "" texts) = true).
    { eapply infix_concat; [exact Hin|]. infix_right. }
    eapply infix_trans; [exact Hc|]. infix_right.
  - intros k. rewrite sorted_set_In, filter_In. reflexivity.
Qed.

(* ====================================================================== *)
(* convert_references                                                      *)
(* ====================================================================== *)
Lemma pair_inv : forall pair k (r : list (string * val)),
  (match pair with VList [VStr k; VDict r] => ok (k, r) | _ => fail EType end) = inr (k, r) ->
  pair = VList [VStr k; VDict r].
Proof.
  intros pair k r H. destruct pair as [| | | |l|]; try discriminate.
  destruct l as [|a [|b [|c l]]]; try discriminate; destruct a; try discriminate; destruct b; try discriminate.
  inversion H; subst. reflexivity.
Qed.

(* the (key, entry) pairs that group_refs extracts sit in the reference_data of one reference_info item *)
Lemma group_refs_inv : forall g refs k r, group_refs g = inr refs -> In (k, r) refs ->
  exists info ri data,
    (do i <- vfield "reference_info" g; vlist i) = inr info /\ In ri info /\
    (do d <- vfield "reference_data" ri; vlist d) = inr data /\ In (VList [VStr k; VDict r]) data.
Proof.
  intros g refs k r H Hin. unfold group_refs in H.
  inv_bind H. rename x into info, E into Hinfo. inv_bind H. rename x into per, E into Hper.
  apply ok_inj in H. subst refs. apply in_concat in Hin. destruct Hin as (p & Hp & Hkr).
  destruct (@mapM_in_out _ _ _ _ _ _ Hper Hp) as (ri & Hri & Hd). cbn beta in Hd.
  inv_bind Hd. rename x into data, E into Hdata.
  destruct (@mapM_in_out _ _ _ _ _ _ Hd Hkr) as (pair & Hpair & Hm). cbn beta in Hm.
  apply pair_inv in Hm. subst pair.
  exists info, ri, data. auto.
Qed.

(* members of the sorted groups come from group_refs of a group, entry by entry *)
Definition sort_group (g : val) : res (val * list (string * list (string * val))) :=
  do refs <- group_refs g;
  do refs' <- mapM (fun kr => do r <- sort_single_reference (snd kr); ok (fst kr, r)) refs;
  ok (g, refs').

Lemma sort_group_fwd : forall g refs sg k r, sort_group g = inr sg -> group_refs g = inr refs -> In (k, r) refs ->
  fst sg = g /\ exists r', sort_single_reference r = inr r' /\ In (k, r') (snd sg).
Proof.
  intros g refs sg k r H Hrefs Hin. unfold sort_group in H.
  inv_bind H. rewrite Hrefs in E. apply ok_inj in E. subst x.
  inv_bind H. rename x into refs', E into Hrefs'. apply ok_inj in H. subst sg. split; [reflexivity|].
  destruct (@mapM_ok_each _ _ _ _ _ _ Hrefs' Hin) as (b & Hb & Hbin). cbn [fst snd] in Hb.
  inv_bind Hb. rename x into r', E into Hr'. apply ok_inj in Hb. subst b.
  exists r'. split; assumption.
Qed.

Lemma sort_group_bwd : forall g sg k r', sort_group g = inr sg -> In (k, r') (snd sg) ->
  exists refs r, group_refs g = inr refs /\ In (k, r) refs /\ sort_single_reference r = inr r'.
Proof.
  intros g sg k r' H Hin. unfold sort_group in H.
  inv_bind H. rename x into refs, E into Hrefs.
  inv_bind H. rename x into refs', E into Hrefs'. apply ok_inj in H. subst sg. cbn [snd] in Hin.
  destruct (@mapM_in_out _ _ _ _ _ _ Hrefs' Hin) as ([k0 r] & Hkr & Hb). cbn [fst snd] in Hb.
  inv_bind Hb. apply ok_inj in Hb. inversion Hb; subst. exists refs, r. auto.
Qed.

(* a key listed in a table line occurs in the table line *)
Lemma table_line_mentions : forall (c : string) g info ri data k (r : list (string * val)) tl,
  (do i <- vfield "reference_info" g; vlist i) = inr info -> In ri info ->
  (do d <- vfield "reference_data" ri; vlist d) = inr data -> In (VList [VStr k; VDict r]) data ->
  (do els <- (do e <- vfield "elements" g; do l <- vlist e; mapM vstr l);
   do zs <- mapM int_of_key els;
   do ce <- compact_elements zs;
   do info <- (do i <- vfield "reference_info" g; vlist i);
   do lines <- mapM (fun ri =>
       do desc <- (do d <- vfield "reference_description" ri; vstr d);
       do data <- (do d <- vfield "reference_data" ri; vlist d);
       do keys <- mapM (fun pair => match pair with VList [VStr k; _] => ok k | _ => fail EType end) data;
       ok (c +++ "     " +++ desc +++ nl +++
           match keys with
           | [] => c +++ "         (...no reference...)" +++ nl +++ c +++ nl
           | _ => c +++ "         " +++ sjoin " " keys +++ nl +++ c +++ nl
           end)) info;
   ok (c +++ " " +++ (match ce with Some s => s | None => "None" end) +++ nl +++ String.concat "" lines)) = inr tl ->
  infix k tl = true.
Proof.
  intros c g info ri data k r tl Hinfo Hri Hdata Hpair Htl.
  inv_bind Htl. rename x into els. clear E.
  inv_bind Htl. rename x into zs. clear E.
  inv_bind Htl. rename x into ce. clear E.
  inv_bind Htl. rewrite Hinfo in E. apply ok_inj in E. subst x.
  inv_bind Htl. rename x into lines, E into Hlines. apply ok_inj in Htl. subst tl.
  destruct (@mapM_ok_each _ _ _ _ _ _ Hlines Hri) as (line & Hline & Hlinein). cbn beta in Hline.
  inv_bind Hline. rename x into dsc. clear E.
  inv_bind Hline. rewrite Hdata in E. apply ok_inj in E. subst x.
  inv_bind Hline. rename x into keys, E into Hkeys. apply ok_inj in Hline. subst line.
  destruct (@mapM_ok_each _ _ _ _ _ _ Hkeys Hpair) as (k' & Hk' & Hkin). cbn in Hk'.
  apply ok_inj in Hk'. subst k'.
  assert (H1 : infix k (String.concat "" lines) = true).
  { eapply infix_concat; [exact Hlinein|].
    destruct keys as [|k1 keys]; [destruct Hkin|].
    eapply infix_trans; [apply (infix_sjoin " " _ _ Hkin)|]. infix_right. }
  eapply infix_trans; [exact H1|]. infix_right.
Qed.

Lemma convert_mentions : convert_mentions_stmt.
Proof.
  intros f txt desc libs groups s H.
  cbv beta zeta delta [convert_references] in H.
  inv_bind H. rename x into sorted_groups, E into Hsg. fold sort_group in Hsg.
  inv_bind H. rename x into libs_out, E into Hlibs.
  inv_bind H. rename x into table, E into Htable.
  inv_bind H. rename x into uniq_txt, E into Huniq.
  apply ok_inj in H. subst s. split.
  - intros k r Hin.
    destruct (@mapM_ok_each _ _ _ _ _ _ Hlibs Hin) as (b & Hb & Hbin). cbn [fst snd] in Hb.
    inv_bind Hb. rename x into t. apply ok_inj in Hb. subst b.
    exists t. split; [assumption|].
    assert (Hc : infix t (String.concat "" libs_out) = true).
    { eapply infix_concat; [exact Hbin|]. infix_right. }
    eapply infix_trans; [exact Hc|]. infix_right.
  - intros g refs k r Hg Hrefs Hin.
    destruct (@mapM_ok_each _ _ _ _ _ _ Hsg Hg) as (sg & Hsgg & Hsgin).
    destruct (sort_group_fwd _ _ _ _ _ Hsgg Hrefs Hin) as (Hfst & r' & Hr' & _).
    match goal with |- ?G /\ _ => assert (Hks : G) end.
    { destruct (group_refs_inv _ _ _ _ Hrefs Hin) as (info & ri & data & Hinfo & Hri & Hdata & Hpair).
      destruct (@mapM_ok_each _ _ _ _ _ _ Htable Hsgin) as (tl & Htl & Htlin). cbn beta in Htl. rewrite Hfst in Htl.
      pose proof (table_line_mentions _ _ _ _ _ _ _ _ Hinfo Hri Hdata Hpair Htl) as H1.
      assert (H2 : infix k (String.concat "" table) = true).
      { eapply infix_concat; [exact Htlin|exact H1]. }
      eapply infix_trans; [exact H2|]. infix_right. }
    split; [exact Hks|].
    exists r', k. split; [assumption|]. split; [apply infix_refl|exact Hks].
Qed.

(* ---------------------------------------------------------------------- *)
(* A stronger form of the second clause of convert_mentions (the clause as stated is already satisfied by the witness t := k):
   for every cited key the output contains the rendering (`single`) of an entry that some group stores under
   that key, after sort_single_reference.  (When several groups store different entries under one key the
   implementation keeps one of them: dict semantics of insert_kv_last.)                                      *)
(* ---------------------------------------------------------------------- *)
Lemma insert_kv_last_key : forall x m k,
  In k (map fst m) \/ k = fst x -> In k (map fst (insert_kv_last x m)).
Proof.
  intros x m k H. unfold insert_kv_last.
  assert (Hmap : forall k0, In k0 (map fst m) ->
            In k0 (map fst (map (fun kv : string * list (string * val) => if String.eqb (fst kv) (fst x) then x else kv) m))).
  { clear. induction m as [|kv t IH]; intros k0 Hk; [destruct Hk|]. cbn [map].
    destruct Hk as [<-|Hk]; [left|right; apply IH, Hk].
    destruct (String.eqb (fst kv) (fst x)) eqn:E; [|reflexivity]. apply String.eqb_eq in E. symmetry; exact E. }
  destruct (existsb (fun kv => String.eqb (fst kv) (fst x)) m) eqn:Ex.
  - destruct H as [H| ->]; [apply Hmap, H|]. apply Hmap.
    apply existsb_exists in Ex. destruct Ex as (kv & Hkv & E). apply String.eqb_eq in E.
    rewrite <- E. apply in_map, Hkv.
  - rewrite map_app. apply in_or_app. destruct H as [H| ->]; [left; exact H|right; left; reflexivity].
Qed.

Lemma insert_kv_last_sub : forall x m y, In y (insert_kv_last x m) -> y = x \/ In y m.
Proof.
  intros x m y H. unfold insert_kv_last in H.
  destruct (existsb (fun kv => String.eqb (fst kv) (fst x)) m).
  - apply in_map_iff in H. destruct H as (kv & Hy & Hkv).
    destruct (String.eqb (fst kv) (fst x)); [left; symmetry; exact Hy|right; subst; exact Hkv].
  - apply in_app_or in H. destruct H as [H|[<-|[]]]; auto.
Qed.

Lemma fold_ikl_key : forall L acc k, In k (map fst acc) \/ In k (map fst L) ->
  In k (map fst (fold_left (fun m kr => insert_kv_last kr m) L acc)).
Proof.
  induction L as [|x t IH]; intros acc k H; cbn [fold_left].
  - destruct H as [H|[]]; exact H.
  - apply IH. cbn [map] in H. destruct H as [H|[H|H]].
    + left. apply insert_kv_last_key. left; exact H.
    + left. apply insert_kv_last_key. right; symmetry; exact H.
    + right; exact H.
Qed.

Lemma fold_ikl_sub : forall L acc y, In y (fold_left (fun m kr => insert_kv_last kr m) L acc) -> In y acc \/ In y L.
Proof.
  induction L as [|x t IH]; intros acc y H; cbn [fold_left] in H; [left; exact H|].
  apply IH in H. destruct H as [H|H]; [|right; right; exact H].
  apply insert_kv_last_sub in H. destruct H as [->|H]; [right; left; reflexivity|left; exact H].
Qed.

Lemma insert_kv_In : forall V (x : string * V) l y, In y (insert_kv x l) <-> y = x \/ In y l.
Proof.
  intros V x l y; induction l as [|z t IH]; cbn [insert_kv].
  - cbn. intuition.
  - destruct (str_ltb (fst x) (fst z)); cbn [In]; [intuition|]. rewrite IH. cbn [In]. intuition.
Qed.

Lemma sort_items_In : forall V (d : list (string * V)) y, In y (sort_items d) <-> In y d.
Proof.
  intros V d y. unfold sort_items.
  assert (G : forall acc, In y (fold_left (fun acc x => insert_kv x acc) d acc) <-> In y acc \/ In y d).
  { induction d as [|x t IH]; intros acc; cbn [fold_left].
    - cbn. intuition.
    - rewrite IH, insert_kv_In. cbn [In]. intuition. }
  rewrite G. cbn. intuition.
Qed.

Lemma convert_mentions_strong :
  forall f txt desc libs groups s, convert_references f txt desc libs groups = inr s ->
    forall g refs k r, In g groups -> group_refs g = inr refs -> In (k, r) refs ->
      exists g0 refs0 r0 r0' t, In g0 groups /\ group_refs g0 = inr refs0 /\ In (k, r0) refs0 /\
        sort_single_reference r0 = inr r0' /\ single f txt k r0' = inr t /\ infix t s = true.
Proof.
  intros f txt desc libs groups s H g refs k r Hg Hrefs Hin.
  cbv beta zeta delta [convert_references] in H.
  inv_bind H. rename x into sorted_groups, E into Hsg. fold sort_group in Hsg.
  inv_bind H. rename x into libs_out. clear E.
  inv_bind H. rename x into table. clear E.
  inv_bind H. rename x into uniq_txt, E into Huniq.
  apply ok_inj in H. subst s.
  set (L := concat (map snd sorted_groups)) in *.
  set (unique := fold_left (fun m kr => insert_kv_last kr m) L []) in *.
  destruct (@mapM_ok_each _ _ _ _ _ _ Hsg Hg) as (sg & Hsgg & Hsgin).
  destruct (sort_group_fwd _ _ _ _ _ Hsgg Hrefs Hin) as (_ & r' & _ & Hr'in).
  assert (HkL : In k (map fst L)).
  { apply (in_map fst _ (k, r')). unfold L. apply in_concat. exists (snd sg). split; [apply in_map, Hsgin|exact Hr'in]. }
  assert (Hku : In k (map fst unique)) by (apply fold_ikl_key; right; exact HkL).
  apply in_map_iff in Hku. destruct Hku as ([k0 r0'] & Hk0 & Hy). cbn [fst] in Hk0. subst k0.
  assert (HyL : In (k, r0') L).
  { destruct (fold_ikl_sub _ _ _ Hy) as [[]|HL]. exact HL. }
  unfold L in HyL. apply in_concat in HyL. destruct HyL as (p & Hp & Hyp).
  apply in_map_iff in Hp. destruct Hp as (sg0 & <- & Hsg0in).
  destruct (@mapM_in_out _ _ _ _ _ _ Hsg Hsg0in) as (g0 & Hg0 & Hsg0).
  destruct (sort_group_bwd _ _ _ _ Hsg0 Hyp) as (refs0 & r0 & Hrefs0 & Hin0 & Hr0).
  apply (sort_items_In _ unique) in Hy.
  destruct (@mapM_ok_each _ _ _ _ _ _ Huniq Hy) as (b & Hb & Hbin). cbn [fst snd] in Hb.
  inv_bind Hb. rename x into t. apply ok_inj in Hb. subst b.
  exists g0, refs0, r0, r0', t. repeat (split; [assumption|]).
  assert (Hc : infix t (String.concat "" uniq_txt) = true).
  { eapply infix_concat; [exact Hbin|]. infix_right. }
  eapply infix_trans; [exact Hc|]. infix_right.
Qed.

Print Assumptions groups_partition.
Print Assumptions group_info.
Print Assumptions resolve_info_spec.
Print Assumptions unknown_key_refused.
Print Assumptions bib_fields.
Print Assumptions ris_fields.
Print Assumptions endnote_fields.
Print Assumptions sort_single_reference_perm.
Print Assumptions convert_mentions.
Print Assumptions convert_mentions_strong.
Print Assumptions process_notes_spec.
