(* Proofs of the statements of Proofs/GenbasEcpDefs.v (CFOUR / GENBAS, ECP part and whole file): the whole-file theorems
   without ECPs (sections 1-3), the instances and the counterexamples (section 4), and the general round trip with ECPs
   c4ecp_roundtrip_exact : c4ecp_roundtrip_stmt with its companions c4ecp_write_total, c4ecp_roundtrip_parts and
   c4ecp_no_number_lost (sections 5-13). *)
From BSE Require Import Model.Val Model.Text Model.Basis Model.Manip Model.Matrix Gen.GenLut Model.Lut Model.Elements
                        Model.Nwchem Model.NwchemEcp Model.Turbomole Model.TurbomoleEcp Model.Genbas Model.GenbasEcp
                        Proofs.MatrixDefs Proofs.NwchemDefs Proofs.NwchemEcpDefs Proofs.C20Finite Proofs.TurbomoleDefs
                        Proofs.TurbomoleEcpDefs Proofs.GenbasDefs Proofs.GenbasEcpDefs.
From BSE Require Import Proofs.HeaderSpec Proofs.PruneFS Proofs.MatrixSpec Proofs.NwchemSpec Proofs.NwchemEcpSpec Proofs.TurbomoleSpec
                        Proofs.TurbomoleEcpSpec Proofs.GenbasSpec.
Require Import Coq.Sorting.Permutation Coq.Sorting.Sorted Coq.ZArith.ZArith Coq.micromega.Lia.

(* ================================================================== *)
(* 1. no ECP: the text                                                 *)
(* ================================================================== *)
Lemma c4ecp_no_ecp : c4ecp_no_ecp_stmt.
Proof.
  intros name desc els. unfold c4ecp_write, c4ecp_write_ecp.
  destruct (c4_write_electron name desc els) as [e|t]; [reflexivity|]. unfold bind, ok. rewrite sapp_nil_r. reflexivity.
Qed.

(* ================================================================== *)
(* 2. an electron block adds exactly one new key                       *)
(* ================================================================== *)
Lemma append_shell_keys : forall z sh d, In z (map fst d) -> map fst (append_shell z sh d) = map fst d.
Proof.
  intros z sh; induction d as [|[z' l] d IH]; intros H; [destruct H|]. cbn [append_shell].
  destruct (Z.eqb_spec z z') as [->|Hne]; [reflexivity|]. cbn [map fst]. f_equal. apply IH.
  destruct H as [H|H]; [cbn in H; congruence | exact H].
Qed.

Lemma parse_shells_keys : forall z idx lines d lines' d', In z (map fst d) ->
  c4_parse_shells z idx lines d = inr (lines', d') -> map fst d' = map fst d.
Proof.
  intros z; induction idx as [|[[a g] p] idx IH]; intros lines d lines' d' Hin H.
  - cbn [c4_parse_shells] in H. inversion H; subst. reflexivity.
  - cbn [c4_parse_shells] in H. destruct (c4_parse_shell a g p lines) as [e|[sh l1]]; [discriminate H|]. unfold bind in H.
    assert (Hin' : In z (map fst (append_shell z sh d))) by (rewrite append_shell_keys; assumption).
    rewrite (IH _ _ _ _ Hin' H). apply append_shell_keys, Hin.
Qed.

Lemma parse_keys : forall b d d1, c4_parse_electron_lines b d = inr d1 ->
  exists z, map fst d1 = map fst d ++ [z] /\ ~ In z (map fst d).
Proof.
  intros b d d1 H. unfold c4_parse_electron_lines in H. destruct b as [|l0 b']; [discriminate H|].
  destruct (parse_c4_element_line l0) as [e|sym]; [discriminate H|]. unfold bind at 1 in H.
  destruct (element_Z_from_sym sym) as [e|z]; [discriminate H|]. unfold bind at 1 in H.
  unfold tm_create_electron_shells in H. destruct (existsb (Z.eqb z) (map fst d)) eqn:Ex; [discriminate H|].
  unfold bind at 1, ok at 1 in H.
  assert (Hnot : ~ In z (map fst d)).
  { intros Hin. apply Bool.not_true_iff_false in Ex. apply Ex. apply existsb_exists. exists z. split; [exact Hin | apply Z.eqb_refl]. }
  exists z. split; [|exact Hnot].
  destruct (remove_expected_line (skipn 2 (l0 :: b')) "" 0) as [e|bl]; [discriminate H|]. unfold bind at 1 in H.
  destruct bl as [|l rest]; [discriminate H|].
  destruct (parse_nshell l) as [e|n]; [discriminate H|]. unfold bind at 1 in H.
  destruct (read_n_integers rest n) as [e|[a1 r1]]; [discriminate H|]. unfold bind at 1 in H.
  destruct (read_n_integers r1 n) as [e|[a2 r2]]; [discriminate H|]. unfold bind at 1 in H.
  destruct (read_n_integers r2 n) as [e|[a3 r3]]; [discriminate H|]. unfold bind at 1 in H.
  destruct (c4_parse_shells z (combine (combine a1 a2) a3) r3 (d ++ [(z, [])])) as [e|[r4 d']] eqn:Ep; [discriminate H|].
  unfold bind in H. destruct (prune_lines r4 "*" true true); [|discriminate H]. inversion H; subst d1.
  assert (Hin : In z (map fst (d ++ [(z, @nil sshell)]))) by (rewrite map_app, in_app_iff; right; left; reflexivity).
  rewrite (parse_shells_keys z _ _ _ _ _ Hin Ep), map_app. reflexivity.
Qed.

Lemma add_keys_new : forall K z, ~ In z K -> add_keys K (K ++ [z]) = K ++ [z].
Proof.
  intros K z Hz. unfold add_keys. f_equal. rewrite filter_app.
  assert (E1 : filter (fun x => negb (existsb (Z.eqb x) K)) K = []).
  { assert (G : forall L, incl L K -> filter (fun x => negb (existsb (Z.eqb x) K)) L = []).
    { induction L as [|x L IH]; intros Hi; [reflexivity|]. cbn [filter].
      assert (Ex : existsb (Z.eqb x) K = true) by (apply existsb_exists; exists x; split; [apply Hi; now left | apply Z.eqb_refl]).
      rewrite Ex. cbn [negb]. apply IH. intros y Hy. apply Hi. now right. }
    apply G, incl_refl. }
  rewrite E1. cbn [app filter]. rewrite (not_in_existsb z K Hz). reflexivity.
Qed.

(* the whole-file loop on blocks that the electron-only loop accepts *)
Lemma blocks_lift : forall bs d r, c4_blocks bs d = inr r ->
  c4ecp_blocks bs (map fst d, d, []) = inr (map fst r, r, []).
Proof.
  induction bs as [|b bs IH]; intros d r H.
  - cbn in H. inversion H; subst. reflexivity.
  - cbn [c4_blocks] in H. cbn [c4ecp_blocks]. destruct (existsb is_ecp_block_line b).
    + destruct (remove_expected_line b "*" 1); discriminate H.
    + destruct (c4_parse_electron_lines b d) as [e|d1] eqn:Ep; [discriminate H|]. unfold bind in *.
      destruct (parse_keys b d d1 Ep) as [z [Ek Hz]]. rewrite Ek, (add_keys_new _ z Hz), <- Ek. apply IH, H.
Qed.

(* ================================================================== *)
(* 3. no ECP: the round trip through the whole-file reader             *)
(* ================================================================== *)
Lemma c4_expected_keys : forall els, map fst (c4_expected els) = map fst els.
Proof. intros els. unfold c4_expected. rewrite map_map. reflexivity. Qed.

Lemma c4ecp_roundtrip_no_ecp : c4ecp_roundtrip_no_ecp_stmt.
Proof.
  intros name desc els H. unfold c4ecp_roundtrip. rewrite c4ecp_no_ecp.
  pose proof (c4_roundtrip_exact name desc els H) as R. unfold c4_roundtrip in R.
  destruct (c4_write_electron name desc els) as [e|t]; [discriminate R|]. unfold bind in *.
  unfold c4_read_electron in R. unfold c4ecp_read, c4ecp_read_parts.
  destruct (partition_lines_after (prune_lines (splitlines t) "!#" false true) (fun l => ok (is_c4_element_line l)) 1 4)
    as [e|bs]; [discriminate R|]. unfold bind in *.
  pose proof (blocks_lift bs [] _ R) as L. cbn [map] in L. rewrite L. unfold ok.
  unfold c4ecp_expected, tmecp_all_order. cbn [map filter]. rewrite app_nil_r, c4_expected_keys. reflexivity.
Qed.

(* ================================================================== *)
(* 4. instances and counterexamples                                    *)
(* ================================================================== *)
Lemma c4ecp_ecp_only_example : c4ecp_ecp_only_example_stmt.
Proof. split; vm_compute; reflexivity. Qed.
Lemma c4ecp_ecp_other_element : c4ecp_ecp_other_element_stmt.
Proof. vm_compute. reflexivity. Qed.
Lemma c4ecp_same_element : c4ecp_same_element_stmt.
Proof. vm_compute. reflexivity. Qed.
Lemma c4ecp_gap_ok : c4ecp_gap_ok_stmt.
Proof. repeat split; vm_compute; reflexivity. Qed.
Lemma c4ecp_range : c4ecp_range_stmt.
Proof. split; vm_compute; reflexivity. Qed.
Lemma c4ecp_dup : c4ecp_dup_stmt.
Proof. vm_compute. reflexivity. Qed.
Lemma c4ecp_nopot : c4ecp_nopot_stmt.
Proof. vm_compute. reflexivity. Qed.
Lemma c4ecp_noterm : c4ecp_noterm_stmt.
Proof. vm_compute. reflexivity. Qed.
Lemma c4ecp_negelec : c4ecp_negelec_stmt.
Proof. vm_compute. reflexivity. Qed.
Lemma c4ecp_twocols : c4ecp_twocols_stmt.
Proof. vm_compute. reflexivity. Qed.
Lemma c4ecp_twoam : c4ecp_twoam_stmt.
Proof. vm_compute. reflexivity. Qed.
Lemma c4ecp_dup_element : c4ecp_dup_element_stmt.
Proof. vm_compute. reflexivity. Qed.
Lemma c4ecp_z121 : c4ecp_z121_stmt.
Proof. vm_compute. reflexivity. Qed.
Lemma c4ecp_nopoint : c4ecp_nopoint_stmt.
Proof. vm_compute. reflexivity. Qed.
Lemma c4ecp_noname : c4ecp_noname_stmt.
Proof. vm_compute. reflexivity. Qed.
Lemma c4ecp_markers : c4ecp_markers_stmt.
Proof. vm_compute. reflexivity. Qed.

Ltac cxe_shell_ok_tac :=
  unfold c4_shell_ok, cxe_H, cxe_Na0, cxe_Na1, c4_sh; cbn [exps am coefs];
  split; [discriminate|]; split; [eexists; split; [reflexivity | lia]|];
  split; [discriminate|]; split; [repeat constructor|]; split; [reflexivity|]; split; [reflexivity|];
  split; repeat constructor.
Ltac cxe_pot_ok_tac :=
  unfold ecp_pot_ok, cxe_d, cxe_s, cxe_p; cbn [p_am p_rexp p_gexp p_coef];
  split; [eexists; split; [reflexivity | lia]|]; split; [discriminate|]; split; [reflexivity|];
  split; [eexists; split; reflexivity|]; split; repeat constructor.

Example c4ecp_example : c4ecp_example_stmt.
Proof.
  split; [|split; [|split]]; try (vm_compute; reflexivity).
  unfold c4ecp_ok. split; [|split; [|split]].
  - unfold c4_ok, cxe_els. split; [reflexivity|]. split; [repeat split; reflexivity|]. split.
    + cbn [map fst]. repeat constructor; cbn [In]; intros H; repeat (destruct H as [H|H]; [discriminate H|]); exact H.
    + repeat (constructor; [cbn [fst snd]; split; [lia|]|]); [| |constructor].
      * repeat (constructor; [cxe_shell_ok_tac|]). constructor.
      * repeat (constructor; [cxe_shell_ok_tac|]). constructor.
  - intros _. discriminate.
  - cbn [map fst cxe_ecps]. repeat constructor. intros [].
  - unfold cxe_ecps. constructor; [|constructor]. unfold c4ecp_el_ok. split; [lia|]. split; [lia|]. split; [discriminate|]. split.
    + repeat (constructor; [cxe_pot_ok_tac|]). constructor.
    + cbn [map pot_l cxe_d cxe_s cxe_p p_am hd]. repeat constructor; cbn [In]; intros H; repeat (destruct H as [H|H]; [discriminate H|]); exact H.
Qed.

(* ================================================================== *)
(* 5. the letters of the ECP part: lut._amchar_map_hik on both sides   *)
(* ================================================================== *)
Definition hik_of (a : list Z) : string := match amint_to_char a false false with inr c => lower c | inl _ => "" end.

Definition hik_check (l : Z) : bool :=
  match amint_to_char [l] false false with
  | inr s =>
    match lower s with
    | String c EmptyString =>
      is_lower c && match amchar_to_int (String c EmptyString) false with
                    | inr [l'] => Z.eqb l' l
                    | _ => false
                    end
    | _ => false
    end
  | _ => false
  end.
Lemma hik_sweep : forallb hik_check (zrange 0 25) = true.
Proof. vm_compute. reflexivity. Qed.

Lemma hik_facts : forall l, (0 <= l < 25)%Z ->
  exists s c, amint_to_char [l] false false = inr s /\ lower s = String c "" /\ is_lower c = true /\
              amchar_to_int (String c "") false = inr [l].
Proof.
  intros l Hl. assert (Hin : In l (zrange 0 25)) by (apply zrange_In; lia).
  pose proof (proj1 (forallb_forall _ _) hik_sweep l Hin) as H. unfold hik_check in H.
  destruct (amint_to_char [l] false false) as [e|s]; [discriminate H|]. exists s.
  destruct (lower s) as [|c [|c2 s2]]; try discriminate H.
  exists c. apply andb_true_iff in H. destruct H as [H1 H2]. split; [reflexivity|]. split; [reflexivity|]. split; [exact H1|].
  destruct (amchar_to_int (String c "") false) as [e|[|l' [|l2 r]]]; try discriminate H2.
  apply Z.eqb_eq in H2. now subst.
Qed.

Lemma numhd_star : forall c, numhd c = true -> Ascii.eqb c "*" = false.
Proof. intros c H. all_chars c; try reflexivity; discriminate H. Qed.

(* a line that strip() leaves alone and that does not begin with `*` *)
Definition sline (l : string) : Prop := strip_ws l = l /\ head_not_in "*" l.

(* ================================================================== *)
(* 6. the table of one potential (point places 6, 18, 25, no marker conversion) *)
(* ================================================================== *)
Definition crow (row : list cell) : string :=
  match write_row row c4ecp_point_places true "" with inr l => l | inl _ => "" end.

Lemma crow_facts : forall t, trip_ok t ->
  write_row (tcellrow t) c4ecp_point_places true "" = inr (crow (tcellrow t)) /\
  good_line (crow (tcellrow t)) /\ tokens_acc (crow (tcellrow t)) "" = ttokrow t.
Proof.
  intros t Ht. destruct (tcellrow_ok t Ht) as [Hok Hasc].
  destruct (write_row_total (tcellrow t) c4ecp_point_places true "" Hok) as [line Hl].
  { destruct t as [[x y] z]. cbn. lia. }
  unfold crow. rewrite Hl. split; [reflexivity|]. split.
  - apply (write_row_chars nobd eq_refl (tcellrow t) c4ecp_point_places true "" line); [|reflexivity|exact Hl].
    rewrite Forall_forall in *. intros c Hc. apply cell_nobd; [apply Hok | apply Hasc]; exact Hc.
  - rewrite (write_row_tokens_gen _ _ _ _ _ Hok (fun _ => eq_refl) Hl). destruct t as [[x y] z]. reflexivity.
Qed.

Definition cline (t : Z * string * string) : string := crow (tcellrow t).
Definition cp (t : Z * string * string) : string := strip_ws (cline t).
Definition creadrow (t : Z * string * string) : string * string * string :=
  let '(x, y, z) := t in (Z_to_string x, norm false y, norm false z).

Lemma cp_nline : forall t, trip_ok t -> nline (cp t).
Proof.
  intros t Ht. destruct (crow_facts t Ht) as [_ [_ Htok]]. destruct t as [[x y] z]. destruct Ht as [_ Hz]. cbn [fst snd] in Hz.
  cbn [ttokrow] in Htok. destruct z as [|c z']; [discriminate Hz|].
  unfold cp, cline. apply (tokens_nline _ c z' _ Htok). apply (floating_numhd c z' Hz).
Qed.

Lemma nline_sline : forall l, strip_ws l = l -> nline l -> sline l /\ starts_alpha l = inr false /\ l <> "".
Proof.
  intros l Hs [c [r [-> Hc]]]. destruct (numhd_facts c Hc) as [Ha _]. split; [|split; [|discriminate]].
  - split; [exact Hs|]. exists c, r. split; [reflexivity|]. cbn [sany]. now rewrite (numhd_star c Hc).
  - cbn [starts_alpha]. now rewrite Ha.
Qed.

Lemma cp_facts : forall t, trip_ok t ->
  sline (cp t) /\ starts_alpha (cp t) = inr false /\ cp t <> "" /\ plain (cp t).
Proof.
  intros t Ht. pose proof (cp_nline t Ht) as Hn.
  destruct (nline_sline (cp t) (strip_idem _) Hn) as [A [B C]].
  split; [exact A|]. split; [exact B|]. split; [exact C | apply (nline_plain _ Hn)].
Qed.

Lemma cteline_row : forall t, trip_ok t -> teline (cp t) = inr (creadrow t).
Proof.
  intros t Ht. destruct (crow_facts t Ht) as [_ [_ Htok]].
  unfold teline, split_ws, cp, cline. rewrite strip_idem.
  pose proof (tokens_read false (crow (tcellrow t))) as H. cbn [conv_text] in H.
  rewrite H, Htok. destruct t as [[x y] z]. cbn [ttokrow map creadrow]. rewrite norm_int. reflexivity.
Qed.

Lemma ctable_read : forall r g c, List.length g = List.length r -> List.length c = List.length r ->
  Forall floating g -> Forall floating c ->
  parse_ecp_table_crg (map cp (trip r g c)) = inr (r, map (norm false) g, [map (norm false) c]).
Proof.
  intros r g c Hg Hc Fg Fc. unfold floating in *.
  assert (Hts : forall t, In t (trip r g c) -> trip_ok t).
  { intros [[x y] z] Hin. destruct (trip_in _ _ _ _ _ _ Hin) as [_ [Hy Hz]]. rewrite Forall_forall in Fg, Fc.
    split; cbn [fst snd]; [apply Fg, Hy | apply Fc, Hz]. }
  rewrite parse_ecp_table_crg_unfold.
  rewrite (mapM_map_ext _ _ _ teline cp (fun t => teline (cp t))) by reflexivity.
  rewrite (mapM_map_ok _ _ _ creadrow (trip r g c)) by (intros t Hin; apply cteline_row, Hts, Hin).
  unfold bind. cbv zeta. destruct (trip_proj r g c Hg Hc) as [P1 [P2 P3]].
  assert (E1 : map (fun x => fst (fst x)) (map creadrow (trip r g c)) = map Z_to_string r).
  { transitivity (map Z_to_string (map (fun t => fst (fst t)) (trip r g c))); [|now rewrite P1].
    rewrite !map_map. apply map_ext. intros [[x y] z]. reflexivity. }
  assert (E2 : map (fun x => snd (fst x)) (map creadrow (trip r g c)) = map (norm false) g).
  { transitivity (map (norm false) (map (fun t => snd (fst t)) (trip r g c))); [|now rewrite P2].
    rewrite !map_map. apply map_ext. intros [[x y] z]. reflexivity. }
  assert (E3 : map snd (map creadrow (trip r g c)) = map (norm false) c).
  { transitivity (map (norm false) (map snd (trip r g c))); [|now rewrite P3].
    rewrite !map_map. apply map_ext. intros [[x y] z]. reflexivity. }
  rewrite E1, E2, E3.
  rewrite (forallb_true _ is_integer (map Z_to_string r)).
  2:{ intros s Hs. apply in_map_iff in Hs. destruct Hs as [z [<- _]]. apply Z_to_string_int. }
  rewrite (forallb_true _ is_floating (map (norm false) g)).
  2:{ intros s Hs. apply in_map_iff in Hs. destruct Hs as [y [<- Hy]]. rewrite is_floating_norm.
      rewrite Forall_forall in Fg. apply Fg, Hy. }
  rewrite (forallb_true _ is_floating (map (norm false) c)).
  2:{ intros s Hs. apply in_map_iff in Hs. destruct Hs as [y [<- Hy]]. rewrite is_floating_norm.
      rewrite Forall_forall in Fc. apply Fc, Hy. }
  cbn [negb]. rewrite map_map. rewrite (map_ext _ (fun z => z) (fun z => proj2 (Z_to_string_int z))), map_id. reflexivity.
Qed.

(* ================================================================== *)
(* 7. the lines of the ECP part                                        *)
(* ================================================================== *)
Definition chead (mx : Z) (p : epot) : string :=
  if Z.eqb (pot_l p) mx then hik_of (p_am p) else hik_of (p_am p) +++ "-" +++ hik_of [mx].
Definition cprows (p : epot) : list string := map cline (ptrip p).
Definition cpot_lines (mx : Z) (p : epot) : list string := chead mx p :: cprows p.
Definition cinfo_p (n mx : Z) : string := "NCORE = " +++ Z_to_string n +++ "    LMAX = " +++ Z_to_string mx.
Definition cinfo_line (n mx : Z) : string := "    " +++ cinfo_p n mx.
Definition cecp_el_lines (name desc : string) (e : Z * (Z * list epot)) : list string :=
  "*" :: sym_line name (fst e) :: ("# " +++ desc) :: "*" :: cinfo_line (fst (snd e)) (el_mx e) ::
  flat_map (cpot_lines (el_mx e)) (ecp_written_order (snd (snd e))) ++ ["*"].
Definition cecp_part (name desc : string) (ecps : list (Z * (Z * list epot))) : list string :=
  match ecps with [] => [] | _ => "" :: "" :: "! Effective core Potentials" :: flat_map (cecp_el_lines name desc) ecps end.
Definition cfile_lines (name desc : string) (els : list (Z * list sshell)) (ecps : list (Z * (Z * list epot))) : list string :=
  all_lines name desc els ++ cecp_part name desc ecps.

Lemma c4ecp_el_facts : forall z n pots, c4ecp_el_ok (z, (n, pots)) ->
  (1 <= z <= 120)%Z /\ (0 <= n)%Z /\ pots <> [] /\ Forall ecp_pot_ok pots /\ NoDup (map pot_l pots) /\
  (0 <= zmax (map pot_l pots) < 25)%Z /\
  ecp_order pots = inr (ecp_written_order pots) /\ Forall ecp_pot_ok (ecp_written_order pots) /\
  Permutation pots (ecp_written_order pots).
Proof.
  intros z n pots [Hz [Hn [Hne [Hok Hnd]]]].
  destruct (written_order_ok pots Hne Hok Hnd) as [Eo [Hoo Hperm]].
  repeat (split; [assumption|]). split; [|split; [exact Eo|split; [exact Hoo | exact Hperm]]].
  assert (Hls : map pot_l pots <> []) by (destruct pots; [congruence | discriminate]).
  destruct (zmax_facts _ Hls) as [Zin _]. apply in_map_iff in Zin. destruct Zin as [p [<- Hp]].
  rewrite Forall_forall in Hok. apply pot_ok_single, Hok, Hp.
Qed.

Lemma cpot_am_facts : forall p, ecp_pot_ok p ->
  exists s c, hik_of (p_am p) = String c "" /\ is_lower c = true /\ lower s = String c "" /\
              amint_to_char (p_am p) false false = inr s /\ am_first p = inr (pot_l p) /\
              amchar_to_int (String c "") false = inr (p_am p).
Proof.
  intros p [[l [E Hl]] _]. destruct (hik_facts l Hl) as [s [c [E1 [E2 [Hc E3]]]]]. exists s, c.
  unfold hik_of, am_first, pot_l. rewrite E, E1, E2. repeat split; assumption.
Qed.

Lemma cmx_facts : forall mx, (0 <= mx < 25)%Z ->
  exists s m, hik_of [mx] = String m "" /\ is_lower m = true /\ lower s = String m "" /\
              amint_to_char [mx] false false = inr s /\ amchar_to_int (String m "") false = inr [mx].
Proof.
  intros mx H. destruct (hik_facts mx H) as [s [m [E1 [E2 [Hm E3]]]]]. exists s, m. unfold hik_of. rewrite E1, E2.
  repeat split; assumption.
Qed.

Lemma cwrite_pot_lines : forall mx p, ecp_pot_ok p ->
  c4ecp_write_pot mx (hik_of [mx]) p = inr (unlines (cpot_lines mx p)).
Proof.
  intros mx p Hp. destruct (pot_facts p Hp) as [_ [_ [Hg [Hc [Fg [Fc [Hts _]]]]]]].
  destruct (cpot_am_facts p Hp) as [s [c [Eh [_ [Es [A1 [A2 _]]]]]]].
  unfold c4ecp_write_pot. rewrite A1, A2. unfold bind. rewrite (tmecp_cols_eq p Hp).
  assert (Hleft : leftpad_check [map CStr (pcoef p); map CInt (p_rexp p); map CStr (p_gexp p)] c4ecp_point_places = inr tt).
  { unfold c4ecp_point_places. cbn [leftpad_check].
    destruct (mapM_find_point (map CStr (pcoef p))) as [l1 ->]; [apply floats_cells, Fc|].
    destruct (mapM_find_point (map CInt (p_rexp p))) as [l2 ->].
    { rewrite Forall_forall. intros x Hx. apply in_map_iff in Hx. destruct Hx as [y [<- _]]. exact I. }
    destruct (mapM_find_point (map CStr (p_gexp p))) as [l3 ->]; [apply floats_cells, Fg|]. reflexivity. }
  rewrite Hleft.
  assert (Hw : write_matrix [map CStr (pcoef p); map CInt (p_rexp p); map CStr (p_gexp p)] c4ecp_point_places false
               = inr (unlines (cprows p))).
  { unfold write_matrix, transpose_cells. rewrite transpose_ttrip. fold (ptrip p).
    rewrite (mapM_map_ok _ _ _ crow (map tcellrow (ptrip p))).
    - unfold bind, ok. fold (unlines (map crow (map tcellrow (ptrip p)))).
      unfold cprows, cline. rewrite !map_map. reflexivity.
    - intros row Hrow. apply in_map_iff in Hrow. destruct Hrow as [t [<- Ht]]. apply crow_facts, Hts, Ht. }
  rewrite Hw. unfold ok, cpot_lines, chead. rewrite unlines_cons, Eh, Es.
  destruct (Z.eqb (pot_l p) mx); rewrite ?sapp_assoc; reflexivity.
Qed.

Lemma cwrite_ecp_element_lines : forall name desc e, c4ecp_el_ok e ->
  c4ecp_write_ecp_element name desc e = inr (unlines (cecp_el_lines name desc e)).
Proof.
  intros name desc [z [n pots]] He. destruct (c4ecp_el_facts z n pots He) as [Hz [Hn [Hne [Hok [Hnd [Hmx [Eo [Hoo _]]]]]]]].
  destruct (symup_facts z Hz) as [Es _]. destruct (cmx_facts _ Hmx) as [s [m [Em [_ [Esm [Am _]]]]]].
  unfold c4ecp_write_ecp_element. rewrite Es. unfold bind. rewrite (max_am_ok pots Hne Hok), Am, Eo.
  rewrite Esm, <- Em.
  rewrite (mapM_map_ok _ _ _ (fun p => unlines (cpot_lines (zmax (map pot_l pots)) p))).
  - unfold ok, cecp_el_lines, el_mx, cinfo_line, cinfo_p, sym_line, symup. cbn [fst snd].
    rewrite !unlines_cons, unlines_app, unlines_flat_map, !unlines_cons, !sapp_assoc. reflexivity.
  - intros p Hp. apply cwrite_pot_lines. rewrite Forall_forall in Hoo. apply Hoo, Hp.
Qed.

Lemma cwrite_ecp_lines : forall name desc ecps, Forall c4ecp_el_ok ecps ->
  c4ecp_write_ecp name desc ecps = inr (unlines (cecp_part name desc ecps)).
Proof.
  intros name desc ecps Hel. unfold c4ecp_write_ecp, cecp_part. destruct ecps as [|e0 ecps0]; [reflexivity|].
  rewrite (mapM_map_ok _ _ _ (fun e => unlines (cecp_el_lines name desc e))).
  - unfold bind, ok. rewrite !unlines_cons, unlines_flat_map. reflexivity.
  - intros e Hin. apply cwrite_ecp_element_lines. rewrite Forall_forall in Hel. apply Hel, Hin.
Qed.

Lemma cwrite_lines : forall name desc els ecps, Forall cel_ok els -> Forall c4ecp_el_ok ecps ->
  c4ecp_write name desc els ecps = inr (unlines (cfile_lines name desc els ecps)).
Proof.
  intros name desc els ecps Hel Hecp. unfold c4ecp_write.
  rewrite (c4_write_electron_lines name desc els Hel). unfold bind. rewrite (cwrite_ecp_lines name desc ecps Hecp).
  unfold ok, cfile_lines. rewrite unlines_app. reflexivity.
Qed.

(* ================================================================== *)

(* ================================================================== *)
(* 8. the lines of the ECP part after strip()                          *)
(* ================================================================== *)
(* ---- the letter line of a potential ---- *)
Lemma chead_shape : forall mx p, ecp_pot_ok p -> (0 <= mx < 25)%Z ->
  exists c m, is_lower c = true /\ is_lower m = true /\
    chead mx p = (if Z.eqb (pot_l p) mx then String c "" else String c (String "-" (String m ""))) /\
    amchar_to_int (String c "") false = inr (p_am p) /\ amchar_to_int (String m "") false = inr [mx].
Proof.
  intros mx p Hp Hmx. destruct (cpot_am_facts p Hp) as [s [c [Eh [Hc [_ [_ [_ Eb]]]]]]].
  destruct (cmx_facts mx Hmx) as [s' [m [Em [Hm [_ [_ Ebm]]]]]].
  exists c, m. unfold chead. rewrite Eh, Em. repeat split; assumption.
Qed.

Lemma lower_bang : forall c, is_lower c = true -> Ascii.eqb c "!" = false /\ Ascii.eqb c ":" = false.
Proof. intros c H. all_chars c; try (split; reflexivity); discriminate H. Qed.

Lemma short_not_ecp : forall c X, String.length X <= 2 -> is_ecp_block_line (String c X) = false.
Proof.
  intros c X H. unfold is_ecp_block_line, match_ecp_block.
  destruct X as [|c2 [|c3 [|c4 X]]]; [| | |cbn [String.length] in H; lia]; cbn [strip_prefix_ci];
    repeat match goal with
           | |- context [Ascii.eqb (lower_char c) ?k] => destruct (Ascii.eqb (lower_char c) k)
           | |- context [Ascii.eqb (lower_char c2) ?k] => destruct (Ascii.eqb (lower_char c2) k)
           | |- context [Ascii.eqb (lower_char c3) ?k] => destruct (Ascii.eqb (lower_char c3) k)
           end; reflexivity.
Qed.

Lemma chead_facts : forall mx p, ecp_pot_ok p -> (0 <= mx < 25)%Z ->
  sline (chead mx p) /\ starts_alpha (chead mx p) = inr true /\ chead mx p <> "" /\ plain (chead mx p) /\
  good_line (chead mx p).
Proof.
  intros mx p Hp Hmx. destruct (chead_shape mx p Hp Hmx) as [c [m [Hc [Hm [E _]]]]]. rewrite E.
  destruct (lower_facts c Hc) as [Ac [Sc [Nc [Hh [_ [Hs _]]]]]]. destruct (lower_facts m Hm) as [Am [Sm [Nm _]]].
  destruct (lower_bang c Hc) as [Hb Hcol].
  assert (G : forall X, tok_ok (String c X) -> String.length X <= 2 -> el_cond (String c X) = inr false -> sall nobd X = true ->
              sline (String c X) /\ starts_alpha (String c X) = inr true /\ String c X <> "" /\ plain (String c X) /\
              good_line (String c X)).
  { intros X Ht Hl He Hn. split; [|split; [|split; [|split]]].
    - split; [apply strip_tok, Ht|]. exists c, X. split; [reflexivity|]. cbn [sany]. now rewrite Hs.
    - cbn [starts_alpha]. now rewrite Ac.
    - discriminate.
    - split; [|split; [exact He | apply short_not_ecp, Hl]]. unfold keepf. cbn [is_empty first_in sany orb]. now rewrite Hb, Hh.
    - unfold good_line. cbn [sall]. now rewrite Nc, Hn. }
  destruct (Z.eqb (pot_l p) mx).
  - apply G.
    + split; [discriminate|]. cbn [sany]. now rewrite Sc.
    + cbn; lia.
    + unfold el_cond, is_c4_element_line, match_c4_element_line. cbn [span_alpha]. rewrite Ac. reflexivity.
    + reflexivity.
  - apply G.
    + split; [discriminate|]. cbn [sany]. rewrite Sc, Sm. reflexivity.
    + cbn; lia.
    + unfold el_cond, is_c4_element_line, match_c4_element_line. cbn [span_alpha]. rewrite Ac.
      change (is_alpha "-") with false. cbv iota. cbn [String.length Nat.leb andb]. change (Ascii.eqb "-" ":") with false. reflexivity.
    + cbn [sall]. rewrite Nm. reflexivity.
Qed.

(* ---- the `NCORE = N    LMAX = L` line ---- *)
Lemma cinfo_strip : forall n mx, strip_ws (cinfo_line n mx) = cinfo_p n mx /\ strip_ws (cinfo_p n mx) = cinfo_p n mx.
Proof.
  intros n mx.
  assert (E : strip_ws (cinfo_p n mx) = cinfo_p n mx).
  { unfold cinfo_p.
    replace ("NCORE = " +++ Z_to_string n +++ "    LMAX = " +++ Z_to_string mx)
      with ("NCORE" +++ (" = " +++ Z_to_string n +++ "    LMAX = ") +++ Z_to_string mx) by (rewrite !sapp_assoc; reflexivity).
    apply strip_words; [split; [discriminate | reflexivity] | apply int_tok]. }
  split; [|exact E]. unfold cinfo_line.
  change ("    " +++ cinfo_p n mx) with (String " " (String " " (String " " (String " " (cinfo_p n mx))))).
  now rewrite !strip_blank_head.
Qed.

Lemma c4_match_ecp_info_ok : forall N M, decimal N -> decimal M ->
  match_ecp_info ("NCORE = " +++ N +++ "    LMAX = " +++ M) = Some (N, M) /\
  match_ecp_block ("NCORE = " +++ N +++ "    LMAX = " +++ M) = Some (N, M).
Proof.
  intros N M HN HM. pose proof HN as [HNne HNd]. pose proof HM as [HMne HMd].
  unfold match_ecp_info, match_ecp_block.
  change (strip_prefix_ci "ncore" ("NCORE = " +++ N +++ "    LMAX = " +++ M)) with (Some (" = " +++ N +++ "    LMAX = " +++ M)).
  cbv iota.
  change (lstrip_ws (" = " +++ N +++ "    LMAX = " +++ M)) with (String "=" (" " +++ N +++ "    LMAX = " +++ M)). cbv iota.
  change (lstrip_ws (" " +++ N +++ "    LMAX = " +++ M)) with (lstrip_ws (N +++ "    LMAX = " +++ M)).
  rewrite (lstrip_word N _ (decimal_tok N HN)).
  change (N +++ "    LMAX = " +++ M) with (N +++ String " " ("   LMAX = " +++ M)).
  rewrite (span_digits_word_sp N _ HNd).
  destruct N as [|n0 N']; [congruence|].
  change (is_space " ") with true. cbv iota.
  change (lstrip_ws (String " " ("   LMAX = " +++ M))) with ("LMAX = " +++ M).
  change (strip_prefix_ci "lmax" ("LMAX = " +++ M)) with (Some (" = " +++ M)). cbv iota.
  change (lstrip_ws (" = " +++ M)) with (String "=" (" " +++ M)). cbv iota.
  change (lstrip_ws (" " +++ M)) with (lstrip_ws M).
  rewrite <- (sapp_nil_r M) at 1 3. rewrite (lstrip_word M "" (decimal_tok M HM)), sapp_nil_r, (span_digits_all M HMd).
  destruct M as [|m0 M']; [congruence|]. split; reflexivity.
Qed.

Lemma cinfo_p_facts : forall n mx, (0 <= n)%Z -> (0 <= mx)%Z ->
  sline (cinfo_p n mx) /\ el_cond (cinfo_p n mx) = inr false /\ keepf (cinfo_p n mx) = true /\
  match_ecp_info (cinfo_p n mx) = Some (Z_to_string n, Z_to_string mx) /\
  is_ecp_block_line (cinfo_p n mx) = true.
Proof.
  intros n mx Hn Hmx. destruct (cinfo_strip n mx) as [_ E].
  destruct (c4_match_ecp_info_ok _ _ (proj1 (nonneg_string n Hn)) (proj1 (nonneg_string mx Hmx))) as [M1 M2].
  split; [|split; [|split; [reflexivity|split]]].
  - split; [exact E|]. exists "N"%char. eexists. unfold cinfo_p. split; reflexivity.
  - unfold el_cond, is_c4_element_line, match_c4_element_line, cinfo_p.
    change ("NCORE = " +++ Z_to_string n +++ "    LMAX = " +++ Z_to_string mx)
      with ("NCORE" +++ String " " ("= " +++ Z_to_string n +++ "    LMAX = " +++ Z_to_string mx)).
    rewrite (span_alpha_stop "NCORE" " " _ eq_refl eq_refl). reflexivity.
  - exact M1.
  - unfold is_ecp_block_line, cinfo_p. now rewrite M2.
Qed.

(* ---- the element line: `SYM:name` becomes `SYM name` ---- *)
Lemma replace_colon_alpha : forall a r, sall is_alpha a = true -> replace_colon (a +++ String ":" r) = a +++ String " " r.
Proof.
  induction a as [|c a IH]; intros r H; [reflexivity|]. cbn [sall] in H. apply andb_true_iff in H. destruct H as [Hc Ha].
  cbn [String.append replace_colon].
  assert (Ec : Ascii.eqb c ":" = false) by (clear -Hc; all_chars c; try reflexivity; discriminate Hc).
  rewrite Ec, (IH r Ha). reflexivity.
Qed.

Lemma sym_p_colon : forall name z, (1 <= z <= 120)%Z ->
  parse_element_line (replace_colon (sym_p name z)) = inr (symup z) /\ sline (sym_p name z).
Proof.
  intros name z Hz. destruct (symup_facts z Hz) as [_ [Hne [Ha [Hl _]]]]. split.
  - rewrite (sym_p_form name z Hz), (replace_colon_alpha _ _ Ha).
    unfold parse_element_line, match_element_line. rewrite (span_alpha_stop _ " " _ Ha eq_refl).
    destruct (symup z) as [|c0 a']; [congruence|]. apply Nat.leb_le in Hl. rewrite Hl. reflexivity.
  - split; [apply strip_idem|]. rewrite (sym_p_form name z Hz). destruct (symup z) as [|c0 a']; [congruence|].
    cbn [sall] in Ha. apply andb_true_iff in Ha. destruct Ha as [Hc _]. eexists c0, _. split; [reflexivity|]. cbn [sany].
    assert (Ec : Ascii.eqb c0 "*" = false) by (clear -Hc; all_chars c0; try reflexivity; discriminate Hc). now rewrite Ec.
Qed.

(* ---- one potential block ---- *)
Definition cpot_blk (mx : Z) (p : epot) : list string := chead mx p :: map cp (ptrip p).

Lemma cptrip_ok : forall p, ecp_pot_ok p -> (forall t, In t (ptrip p) -> trip_ok t) /\ ptrip p <> [].
Proof. intros p Hp. destruct (pot_facts p Hp) as [_ [_ [_ [_ [_ [_ H]]]]]]. exact H. Qed.

Lemma cpot_blk_facts : forall mx p, ecp_pot_ok p -> (0 <= mx < 25)%Z ->
  block_shape starts_alpha (cpot_blk mx p) /\ 2 <= List.length (cpot_blk mx p) /\
  Forall (fun l => sline l /\ plain l) (cpot_blk mx p).
Proof.
  intros mx p Hp Hmx. destruct (chead_facts mx p Hp Hmx) as [Hs [Ha [_ [Hpl _]]]]. destruct (cptrip_ok p Hp) as [Hts Hne].
  unfold cpot_blk. split; [|split].
  - exists (chead mx p), (map cp (ptrip p)). split; [reflexivity|]. split; [exact Ha|].
    rewrite Forall_forall. intros l Hl. apply in_map_iff in Hl. destruct Hl as [t [<- Ht]]. apply cp_facts, Hts, Ht.
  - cbn [List.length]. rewrite map_length. destruct (ptrip p); [congruence | cbn; lia].
  - constructor; [split; assumption|]. rewrite Forall_forall. intros l Hl. apply in_map_iff in Hl.
    destruct Hl as [t [<- Ht]]. destruct (cp_facts t (Hts t Ht)) as [H1 [_ [_ H4]]]. split; assumption.
Qed.

Lemma strip_cpot_lines : forall mx p, ecp_pot_ok p -> (0 <= mx < 25)%Z -> map strip_ws (cpot_lines mx p) = cpot_blk mx p.
Proof.
  intros mx p Hp Hmx. destruct (chead_facts mx p Hp Hmx) as [[E _] _]. unfold cpot_lines, cpot_blk, cprows. cbn [map].
  rewrite E, map_map. reflexivity.
Qed.

Lemma c4_expected_pot_eq : forall p, ecp_pot_ok p ->
  mkEpot "scalar_ecp" (p_am p) (p_rexp p) (map (norm false) (p_gexp p)) [map (norm false) (pcoef p)] = ecp_expected_pot p.
Proof. intros p Hp. destruct (pot_facts p Hp) as [_ [Ec _]]. unfold ecp_expected_pot. rewrite Ec. reflexivity. Qed.

Lemma cpot_table : forall p, ecp_pot_ok p ->
  parse_ecp_table_crg (map cp (ptrip p)) = inr (p_rexp p, map (norm false) (p_gexp p), [map (norm false) (pcoef p)]).
Proof. intros p Hp. destruct (pot_facts p Hp) as [_ [_ [Hg [Hc [Fg [Fc _]]]]]]. apply ctable_read; assumption. Qed.

Lemma cparse_pots_ok : forall mx pots found acc, (0 <= mx < 25)%Z -> Forall ecp_pot_ok pots -> NoDup (map pot_l pots) ->
  (found = true -> Forall (fun p => pot_l p <> mx) pots) ->
  tmecp_parse_pots mx (map (cpot_blk mx) pots) found acc = inr (acc ++ map ecp_expected_pot pots).
Proof.
  intros mx; induction pots as [|p pots IH]; intros found acc Hmx Hok Hnd Hf.
  - cbn [map tmecp_parse_pots]. now rewrite app_nil_r.
  - inversion Hok as [|? ? Hp Hok']; subst. cbn [map] in Hnd. inversion Hnd as [|? ? Hnotin Hnd']; subst.
    destruct (chead_shape mx p Hp Hmx) as [c [m [Hc [Hm [E [Ec Em]]]]]].
    destruct (pot_ok_single p Hp) as [Hsing _]. unfold single_am in Hsing.
    cbn [map tmecp_parse_pots]. unfold cpot_blk at 1. rewrite E.
    destruct (Z.eqb (pot_l p) mx) eqn:Eq.
    + cbn [match_pot_am]. rewrite Hc, Ec. unfold bind at 1.
      destruct found.
      { exfalso. apply Z.eqb_eq in Eq. specialize (Hf eq_refl). inversion Hf as [|? ? H1 _]; subst. apply H1; reflexivity. }
      pose proof Hsing as Hs2. destruct (p_am p) as [|a0 arest] eqn:Eam; [discriminate Hs2|]. injection Hs2 as -> ->.
      rewrite Eq. cbn [negb]. unfold bind at 1, ok at 1. rewrite <- Eam.
      rewrite (cpot_table p Hp). unfold bind at 1. rewrite (c4_expected_pot_eq p Hp).
      rewrite (IH true _ Hmx Hok' Hnd').
      * rewrite <- app_assoc. reflexivity.
      * intros _. apply Z.eqb_eq in Eq. rewrite Forall_forall. intros q Hq Eqq. apply Hnotin. rewrite Eq, <- Eqq. apply in_map, Hq.
    + cbn [match_pot_am]. rewrite Hc, Hm. cbn [andb]. rewrite Ec. unfold bind at 1. rewrite Em. unfold bind at 1. unfold bind at 1.
      rewrite Z.eqb_refl. cbn [negb]. unfold ok at 1.
      rewrite (cpot_table p Hp). unfold bind at 1. rewrite (c4_expected_pot_eq p Hp).
      rewrite (IH found _ Hmx Hok' Hnd').
      * rewrite <- app_assoc. reflexivity.
      * intros Hfound. specialize (Hf Hfound). inversion Hf; assumption.
Qed.

(* ---- one element ---- *)
Definition cexp_el (e : Z * (Z * list epot)) : Z * (Z * list epot) :=
  (fst e, (fst (snd e), map ecp_expected_pot (ecp_written_order (snd (snd e))))).
(* the lines of an element that reach the Turbomole parser (before the colon is replaced) *)
Definition cinner (e : Z * (Z * list epot)) : list string :=
  cinfo_p (fst (snd e)) (el_mx e) :: flat_map (cpot_blk (el_mx e)) (ecp_written_order (snd (snd e))).

Lemma cinner_facts : forall e, c4ecp_el_ok e ->
  Forall (fun l => sline l /\ el_cond l = inr false /\ keepf l = true) (cinner e).
Proof.
  intros [z [n pots]] He. destruct (c4ecp_el_facts z n pots He) as [_ [Hn [_ [_ [_ [Hmx [_ [Hoo _]]]]]]]].
  unfold cinner, el_mx. cbn [fst snd]. constructor.
  - destruct (cinfo_p_facts n (zmax (map pot_l pots)) Hn ltac:(lia)) as [H1 [H2 [H3 _]]]. repeat split; assumption || apply H1.
  - rewrite Forall_forall in *. intros l Hl. apply in_flat_map in Hl. destruct Hl as [p [Hp Hl]].
    destruct (cpot_blk_facts _ p (Hoo p Hp) Hmx) as [_ [_ F]]. rewrite Forall_forall in F. destruct (F l Hl) as [A [B [C D]]].
    split; [exact A|]. split; assumption.
Qed.

Lemma cparse_ecp_element : forall name e pm, c4ecp_el_ok e -> ~ In (fst e) (map fst pm) ->
  tmecp_parse_ecp_potential_lines (replace_colon (sym_p name (fst e)) :: cinner e) pm = inr (pm ++ [cexp_el e]).
Proof.
  intros name [z [n pots]] pm He Hd. cbn [fst] in Hd.
  destruct (c4ecp_el_facts z n pots He) as [Hz [Hn [Hne [Hok [Hnd [Hmx [_ [Hoo Hperm]]]]]]]].
  destruct (sym_p_colon name z Hz) as [Hp _].
  destruct (symup_facts z Hz) as [_ [_ [_ [_ Hback]]]].
  destruct (cinfo_p_facts n (zmax (map pot_l pots)) Hn ltac:(lia)) as [_ [_ [_ [Hinfo _]]]].
  destruct (nonneg_string n Hn) as [_ Vn]. destruct (nonneg_string (zmax (map pot_l pots)) ltac:(lia)) as [_ Vm].
  unfold cinner, cexp_el, el_mx. cbn [fst snd].
  unfold tmecp_parse_ecp_potential_lines. rewrite Hp. unfold bind at 1. rewrite Hback. unfold bind at 1.
  rewrite (not_in_existsb z _ Hd), Hinfo, Vn, Vm. cbv zeta.
  rewrite flat_map_concat_map, partition_blocks2.
  - unfold bind at 1. rewrite (cparse_pots_ok _ _ false [] Hmx Hoo); [reflexivity | | discriminate].
    apply (Permutation_NoDup (Permutation_map pot_l Hperm)), Hnd.
  - rewrite Forall_forall in *. intros b Hb. apply in_map_iff in Hb. destruct Hb as [p [<- Hpin]].
    destruct (cpot_blk_facts _ p (Hoo p Hpin) Hmx) as [H1 [H2 _]]. split; assumption.
Qed.

(* ================================================================== *)

(* ================================================================== *)
(* 9. an electron block followed by any lines that the `*` pruning removes *)
(* ================================================================== *)
Definition tail_ok (T : list string) : Prop := Forall plain T /\ prune_lines T "*" true true = [].

Lemma parse_block_okT : forall name desc zs T d, cel_ok zs -> prune_lines T "*" true true = [] -> ~ In (fst zs) (map fst d) ->
  c4_parse_electron_lines (core name desc zs ++ T) d =
    inr (d ++ [(fst zs, map c4_expected_shell (snd zs))]).
Proof.
  intros name desc [z shs] T d [Hz Hs] HT Hd. unfold core. cbn [fst snd] in *.
  replace (match shs with [] => [sym_p name z; strip_ws desc; ""; nat_str 0] | _ :: _ => hdr_p name desc (z, shs) ++ body_p shs end ++ T)
    with (sym_p name z :: strip_ws desc :: "" :: nat_str (List.length shs) ::
          match shs with [] => T | _ => fl_p (am_ws shs) :: fl_p (ngen_ws shs) :: fl_p (nprim_ws shs) :: body_p shs ++ T end)
    by (destruct shs; reflexivity).
  destruct (sym_p_facts name z Hz) as [_ [_ [_ [Hp _]]]]. destruct (symup_facts z Hz) as [_ [_ [_ [_ Hback]]]].
  destruct (ws_ok_all shs Hs) as [W1 [W2 W3]]. destruct (ints_back shs Hs) as [I1 [I2 I3]].
  unfold c4_parse_electron_lines. rewrite Hp. unfold bind at 1. rewrite Hback. unfold bind at 1.
  unfold tm_create_electron_shells. rewrite (not_in_existsb z _ Hd). unfold bind at 1, ok at 1.
  cbn [skipn]. rewrite remove_blank. unfold bind at 1. rewrite parse_nshell_ok. unfold bind at 1.
  destruct shs as [|s0 shs0] eqn:Eshs.
  - cbn [List.length Z.of_nat].
    rewrite read_ints_none. unfold bind at 1. rewrite read_ints_none. unfold bind at 1. rewrite read_ints_none. unfold bind at 1.
    cbn [combine c4_parse_shells]. unfold bind, ok. rewrite HT. reflexivity.
  - rewrite <- Eshs in *. assert (Hne : shs <> []) by (rewrite Eshs; discriminate).
    assert (L1 : List.length (am_ws shs) = List.length shs) by apply map_length.
    assert (L2 : List.length (ngen_ws shs) = List.length shs) by apply map_length.
    assert (L3 : List.length (nprim_ws shs) = List.length shs) by apply map_length.
    assert (N1 : am_ws shs <> []) by (rewrite Eshs; discriminate).
    assert (N2 : ngen_ws shs <> []) by (rewrite Eshs; discriminate).
    assert (N3 : nprim_ws shs <> []) by (rewrite Eshs; discriminate).
    rewrite <- L1 at 1. rewrite (read_ints_line _ _ N1 W1). unfold bind at 1.
    rewrite <- L2 at 1. rewrite (read_ints_line _ _ N2 W2). unfold bind at 1.
    rewrite <- L3 at 1. rewrite (read_ints_line _ _ N3 W3). unfold bind at 1.
    rewrite I1, I2, I3, combine3.
    change (map (fun s => (am0 s, Z.of_nat (List.length (coefs s)), Z.of_nat (List.length (exps s)))) shs) with (map idx_of shs).
    rewrite (parse_shells_ok z shs T d [] Hs Hd). unfold bind. rewrite HT. reflexivity.
Qed.

Lemma core_blockT : forall name desc zs T, cel_ok zs -> Forall plain T ->
  exists r, core name desc zs ++ T = sym_p name (fst zs) :: strip_ws desc :: r /\ Forall plain r /\ 2 <= List.length r.
Proof.
  intros name desc [z shs] T [Hz Hs] HT. cbn [fst snd] in *. unfold core. cbn [fst snd].
  assert (Hnat : forall n, plain (nat_str n)) by (intros n; apply nline_plain, nat_str_nline).
  destruct shs as [|s0 shs0] eqn:E.
  - eexists. split; [reflexivity|]. split; [|cbn [List.length]; lia].
    constructor; [exact plain_blank|]. constructor; [apply Hnat | exact HT].
  - rewrite <- E in *. destruct (ws_ok_all shs Hs) as [W1 [W2 W3]].
    unfold hdr_p. cbn [fst snd app]. eexists. split; [reflexivity|]. split; [|cbn [List.length]; lia].
    constructor; [exact plain_blank|]. constructor; [apply Hnat|].
    constructor; [apply (fl_p_facts _ W1)|]. constructor; [apply (fl_p_facts _ W2)|]. constructor; [apply (fl_p_facts _ W3)|].
    apply Forall_app. split; [apply body_plain, Hs | exact HT].
Qed.

Lemma core_factsT : forall name desc zs T, c4_desc_ok desc -> cel_ok zs -> Forall plain T ->
  let b := core name desc zs ++ T in
  ablock el_cond b /\ 4 <= List.length b /\ existsb is_ecp_block_line b = false /\ Forall (fun l => keepf l = true) b.
Proof.
  intros name desc zs T Hd Hz HT b. destruct (core_blockT name desc zs T Hz HT) as [r [Er [Hr Hl]]]. subst b. rewrite Er.
  destruct Hz as [Hz _]. destruct (sym_p_facts name (fst zs) Hz) as [K1 [K2 [K3 _]]]. destruct (desc_p_facts desc Hd) as [D1 D2].
  split; [|split; [|split]].
  - exists (sym_p name (fst zs)), (strip_ws desc), r. split; [reflexivity|]. split; [exact K2|].
    eapply Forall_weaken; [|exact Hr]. intros l Hp. apply Hp.
  - cbn [List.length]. lia.
  - cbn [existsb]. rewrite K3, D2. cbn [orb]. apply existsb_false. intros l Hin. rewrite Forall_forall in Hr. apply (Hr l Hin).
  - constructor; [exact K1|]. constructor; [exact D1|]. eapply Forall_weaken; [|exact Hr]. intros l Hp. apply Hp.
Qed.

(* ================================================================== *)
(* 10. the loop over the blocks                                        *)
(* ================================================================== *)
Definition blkT (name desc : string) (p : (Z * list sshell) * list string) : list string := core name desc (fst p) ++ snd p.
Definition nin (E : list Z) (z : Z) : bool := negb (existsb (Z.eqb z) E).

Lemma c4ecp_blocks_electron : forall name desc zts rest d, c4_desc_ok desc -> Forall cel_ok (map fst zts) ->
  Forall tail_ok (map snd zts) -> NoDup (map fst (map fst zts)) ->
  (forall z, In z (map fst (map fst zts)) -> ~ In z (map fst d)) ->
  c4ecp_blocks (map (blkT name desc) zts ++ rest) (map fst d, d, []) =
  c4ecp_blocks rest (map fst (d ++ c4_expected (map fst zts)), d ++ c4_expected (map fst zts), []).
Proof.
  intros name desc; induction zts as [|[zs T] zts IH]; intros rest d Hd Hel HT Hnd Hdis.
  - cbn [map app c4_expected]. now rewrite app_nil_r.
  - cbn [map fst snd] in *. inversion Hel as [|? ? H1 H2]; subst. inversion HT as [|? ? [T1 T2] T3]; subst.
    inversion Hnd as [|? ? Hnotin Hnd']; subst.
    cbn [app c4ecp_blocks]. change (blkT name desc (zs, T)) with (core name desc zs ++ T).
    destruct (core_factsT name desc zs T Hd H1 T1) as [_ [_ [He _]]]. cbv zeta in He. rewrite He.
    rewrite (parse_block_okT name desc zs T d H1 T2); [|apply Hdis; now left]. unfold bind.
    assert (Ek : add_keys (map fst d) (map fst (d ++ [(fst zs, map c4_expected_shell (snd zs))])) =
                 map fst (d ++ [(fst zs, map c4_expected_shell (snd zs))])).
    { rewrite map_app. cbn [map fst]. apply add_keys_new. apply Hdis. now left. }
    rewrite Ek. rewrite (IH rest _ Hd H2 T3 Hnd').
    + unfold c4_expected. cbn [map]. rewrite <- !app_assoc. reflexivity.
    + intros z Hz. rewrite map_app, in_app_iff. cbn [map fst In]. intros [Hin|[Heq|[]]].
      * apply (Hdis z); [now right | exact Hin].
      * subst z. apply Hnotin, Hz.
Qed.

(* an ECP block: the element line, `*`, the lines for the Turbomole parser and k lines `*` *)
Definition eblk (name : string) (p : (Z * (Z * list epot)) * nat) : list string :=
  sym_p name (fst (fst p)) :: "*" :: cinner (fst p) ++ repeat "*" (snd p).

Lemma prune_stars : forall k, prune_lines (repeat "*" k) "*" true true = [].
Proof.
  intros k. rewrite pr_unfold by reflexivity. induction k as [|k IH]; [reflexivity|]. cbn [repeat map filter]. exact IH.
Qed.

Lemma stars_plain : forall k, Forall plain (repeat "*" k).
Proof. induction k as [|k IH]; [constructor|]. cbn [repeat]. constructor; [repeat split | exact IH]. Qed.

Lemma c4ecp_parse_eblk : forall name e k pm, c4ecp_el_ok e -> ~ In (fst e) (map fst pm) ->
  c4ecp_parse_ecp_lines (eblk name (e, k)) pm = inr (pm ++ [cexp_el e]).
Proof.
  intros name e k pm He Hd. pose proof (cinner_facts e He) as Hin.
  assert (Hz : (1 <= fst e <= 120)%Z) by (destruct e as [z [n pots]]; apply He).
  destruct (sym_p_colon name (fst e) Hz) as [_ Hsym].
  assert (HA : Forall sline (sym_p name (fst e) :: cinner e)).
  { constructor; [exact Hsym|]. eapply Forall_weaken; [|exact Hin]. intros l Hl. apply Hl. }
  unfold c4ecp_parse_ecp_lines, eblk, remove_expected_line. cbn [fst snd nth_error].
  change (String.eqb "*" "*") with true. cbv iota. cbn [firstn skipn app]. unfold bind.
  change (sym_p name (fst e) :: cinner e ++ repeat "*" k) with ((sym_p name (fst e) :: cinner e) ++ repeat "*" k).
  unfold ok. rewrite pr_app by reflexivity. rewrite prune_stars, app_nil_r.
  assert (Eid : map strip_ws (sym_p name (fst e) :: cinner e) = sym_p name (fst e) :: cinner e).
  { apply map_id_in. eapply Forall_weaken; [|exact HA]. intros l Hl. apply Hl. }
  rewrite pr_keep; [| reflexivity | rewrite Eid; eapply Forall_weaken; [|exact HA]; intros l Hl; apply Hl].
  rewrite Eid. apply cparse_ecp_element; assumption.
Qed.

Lemma eblk_facts : forall name e k, c4ecp_el_ok e -> 1 <= k ->
  ablock el_cond (eblk name (e, k)) /\ 4 <= List.length (eblk name (e, k)) /\
  existsb is_ecp_block_line (eblk name (e, k)) = true.
Proof.
  intros name e k He Hk. pose proof (cinner_facts e He) as Hin.
  assert (Hz : (1 <= fst e <= 120)%Z) by (destruct e as [z [n pots]]; apply He).
  destruct (sym_p_facts name (fst e) Hz) as [_ [K2 _]].
  unfold eblk. cbn [fst snd]. split; [|split].
  - exists (sym_p name (fst e)), "*", (cinner e ++ repeat "*" k). split; [reflexivity|]. split; [exact K2|].
    apply Forall_app. split.
    + eapply Forall_weaken; [|exact Hin]. intros l Hl. apply Hl.
    + eapply Forall_weaken; [|exact (stars_plain k)]. intros l Hl. apply Hl.
  - cbn [List.length]. rewrite app_length, repeat_length. unfold cinner. cbn [List.length]. lia.
  - destruct e as [z [n pots]]. destruct (c4ecp_el_facts z n pots He) as [_ [Hn [_ [_ [_ [Hmx _]]]]]].
    destruct (cinfo_p_facts n (zmax (map pot_l pots)) Hn ltac:(lia)) as [_ [_ [_ [_ Hi]]]].
    unfold cinner, el_mx. cbn [fst snd app existsb]. rewrite Hi. rewrite !orb_true_r. reflexivity.
Qed.

Lemma existsb_app_Z : forall z (a b : list Z), existsb (Z.eqb z) (a ++ b) = orb (existsb (Z.eqb z) a) (existsb (Z.eqb z) b).
Proof. intros z a b. apply existsb_app. Qed.

Lemma in_existsb : forall z l, In z l -> existsb (Z.eqb z) l = true.
Proof. intros z l H. apply existsb_exists. exists z. split; [exact H | apply Z.eqb_refl]. Qed.

Lemma add_keys_inv : forall E P k, ~ In k P ->
  add_keys (E ++ filter (nin E) P) (P ++ [k]) = E ++ filter (nin E) (P ++ [k]).
Proof.
  intros E P k Hk. unfold add_keys. rewrite <- app_assoc. f_equal. rewrite !filter_app. f_equal.
  assert (E1 : filter (fun z => negb (existsb (Z.eqb z) (E ++ filter (nin E) P))) P = []).
  { assert (G : forall L, incl L P -> filter (fun z => negb (existsb (Z.eqb z) (E ++ filter (nin E) P))) L = []).
    { induction L as [|x L IH]; intros Hi; [reflexivity|]. cbn [filter].
      assert (Ex : existsb (Z.eqb x) (E ++ filter (nin E) P) = true).
      { rewrite existsb_app_Z. destruct (existsb (Z.eqb x) E) eqn:Ee; [reflexivity|]. cbn [orb].
        apply in_existsb. apply filter_In. split; [apply Hi; now left|]. unfold nin. now rewrite Ee. }
      rewrite Ex. cbn [negb]. apply IH. intros y Hy. apply Hi. now right. }
    apply G, incl_refl. }
  rewrite E1. cbn [app filter]. unfold nin at 2. rewrite existsb_app_Z.
  destruct (existsb (Z.eqb k) E) eqn:Ee; [reflexivity|]. cbn [orb negb].
  rewrite (not_in_existsb k (filter (nin E) P)); [reflexivity|]. intros Hin. apply filter_In in Hin. apply Hk, Hin.
Qed.

Lemma c4ecp_blocks_ecp : forall name eks E em pm, Forall c4ecp_el_ok (map fst eks) ->
  NoDup (map fst pm ++ map fst (map fst eks)) ->
  c4ecp_blocks (map (eblk name) eks) (E ++ filter (nin E) (map fst pm), em, pm) =
  inr (E ++ filter (nin E) (map fst (pm ++ map cexp_el (map fst eks))), em, pm ++ map cexp_el (map fst eks)).
Proof.
  intros name; induction eks as [|[e k] eks IH]; intros E em pm Hel Hnd.
  - cbn [map c4ecp_blocks]. now rewrite app_nil_r.
  - cbn [map fst snd] in *. inversion Hel as [|? ? H1 H2]; subst.
    assert (Hk : ~ In (fst e) (map fst pm)).
    { intros Hin. apply NoDup_remove_2 in Hnd. apply Hnd. apply in_or_app. now left. }
    cbn [c4ecp_blocks].
    assert (Hex : existsb is_ecp_block_line (eblk name (e, k)) = true).
    { pose proof (cinner_facts e H1) as _. destruct e as [z [n pots]]. destruct (c4ecp_el_facts z n pots H1) as [_ [Hn [_ [_ [_ [Hmx _]]]]]].
      destruct (cinfo_p_facts n (zmax (map pot_l pots)) Hn ltac:(lia)) as [_ [_ [_ [_ Hi]]]].
      unfold eblk, cinner, el_mx. cbn [fst snd app existsb]. rewrite Hi. rewrite !orb_true_r. reflexivity. }
    rewrite Hex. rewrite (c4ecp_parse_eblk name e k pm H1 Hk). unfold bind.
    rewrite map_app. cbn [map fst]. change (fst (cexp_el e)) with (fst e).
    rewrite (add_keys_inv E (map fst pm) (fst e) Hk).
    replace (map fst pm ++ [fst e]) with (map fst (pm ++ [cexp_el e])) by (rewrite map_app; reflexivity).
    etransitivity; [apply (IH E em (pm ++ [cexp_el e]) H2)|].
    + rewrite map_app. cbn [map fst]. change (fst (cexp_el e)) with (fst e). rewrite <- app_assoc. exact Hnd.
    + rewrite <- !app_assoc. reflexivity.
Qed.

(* ================================================================== *)

(* ================================================================== *)
(* 11. the written text: complete lines, and what prune_lines(lines, '!#', prune_blank=False) leaves *)
(* ================================================================== *)
Lemma sym_line_good : forall name z, c4_name_ok name -> (1 <= z <= 120)%Z -> good_line (sym_line name z).
Proof.
  intros name z Hn Hz. destruct (symup_facts z Hz) as [_ [_ [Ha _]]]. unfold sym_line, good_line.
  rewrite !sall_app, (sall_impl is_alpha nobd _ alpha_nobd Ha), (name_good name Hn). reflexivity.
Qed.

Lemma cecp_el_lines_good : forall name desc e, c4_name_ok name -> c4_desc_ok desc -> c4ecp_el_ok e ->
  Forall good_line (cecp_el_lines name desc e).
Proof.
  intros name desc [z [n pots]] Hn [Hd _] He. destruct (c4ecp_el_facts z n pots He) as [Hz [_ [_ [_ [_ [Hmx [_ [Hoo _]]]]]]]].
  unfold cecp_el_lines, el_mx. cbn [fst snd].
  constructor; [reflexivity|]. constructor; [apply sym_line_good; assumption|].
  constructor; [unfold good_line; rewrite sall_app, (name_good desc Hd); reflexivity|]. constructor; [reflexivity|].
  constructor.
  - unfold cinfo_line, cinfo_p, good_line.
    rewrite !sall_app, (TurbomoleEcpSpec.int_good n), (TurbomoleEcpSpec.int_good (zmax (map pot_l pots))). reflexivity.
  - apply Forall_app. split; [|repeat constructor]. rewrite Forall_forall in *. intros l Hl. apply in_flat_map in Hl.
    destruct Hl as [p [Hp Hl]]. destruct Hl as [<-|Hl]; [apply chead_facts; [apply Hoo, Hp | exact Hmx]|].
    unfold cprows in Hl. apply in_map_iff in Hl. destruct Hl as [t [<- Ht]].
    apply crow_facts, (cptrip_ok p (Hoo p Hp)), Ht.
Qed.

Lemma c4ecp_ok_parts : forall name desc els ecps, c4ecp_ok name desc els ecps ->
  c4_ok name desc els /\ c4_name_ok name /\ c4_desc_ok desc /\ Forall cel_ok els /\ NoDup (map fst els) /\
  (ecps <> [] -> els <> []) /\ NoDup (map fst ecps) /\ Forall c4ecp_el_ok ecps.
Proof.
  intros name desc els ecps [H [Hne [Hnd Hecp]]]. pose proof (c4_ok_els _ _ _ H) as Hel. pose proof H as [Hn [Hd [Hnd' _]]].
  repeat (split; [assumption|]). assumption.
Qed.

Lemma cfile_lines_good : forall name desc els ecps, c4ecp_ok name desc els ecps ->
  Forall good_line (cfile_lines name desc els ecps).
Proof.
  intros name desc els ecps H. destruct (c4ecp_ok_parts _ _ _ _ H) as [Hc [Hn [Hd [_ [_ [_ [_ Hecp]]]]]]].
  unfold cfile_lines. apply Forall_app. split; [apply all_lines_good, Hc|].
  unfold cecp_part. destruct ecps as [|e0 ecps0]; [constructor|]. remember (e0 :: ecps0) as ecps.
  constructor; [reflexivity|]. constructor; [reflexivity|]. constructor; [reflexivity|].
  rewrite Forall_forall in *. intros l Hl. apply in_flat_map in Hl. destruct Hl as [e [He Hl]].
  pose proof (cecp_el_lines_good name desc e Hn Hd (Hecp e He)) as G. rewrite Forall_forall in G. apply G, Hl.
Qed.

Lemma c4ecp_write_lines_ok : forall name desc els ecps, c4ecp_ok name desc els ecps ->
  c4ecp_write name desc els ecps = inr (unlines (cfile_lines name desc els ecps)).
Proof.
  intros name desc els ecps H. destruct (c4ecp_ok_parts _ _ _ _ H) as [_ [_ [_ [Hel [_ [_ [_ Hecp]]]]]]].
  apply cwrite_lines; assumption.
Qed.

Lemma c4ecp_written_lines : forall name desc els ecps t, c4ecp_ok name desc els ecps ->
  c4ecp_write name desc els ecps = inr t -> splitlines t = cfile_lines name desc els ecps.
Proof.
  intros name desc els ecps t H E. rewrite (c4ecp_write_lines_ok name desc els ecps H) in E. inversion E; subst.
  apply splitlines_unlines, cfile_lines_good, H.
Qed.

(* ---- what is kept of the lines of an ECP element ---- *)
Definition ckept (name : string) (e : Z * (Z * list epot)) : list string :=
  "*" :: sym_p name (fst e) :: "*" :: cinner e ++ ["*"].

Lemma filter_cons_true : forall (A : Type) (p : A -> bool) x l, p x = true -> filter p (x :: l) = x :: filter p l.
Proof. intros A p x l H. cbn [filter]. now rewrite H. Qed.
Lemma filter_cons_false : forall (A : Type) (p : A -> bool) x l, p x = false -> filter p (x :: l) = filter p l.
Proof. intros A p x l H. cbn [filter]. now rewrite H. Qed.

Lemma filter_flat_map : forall (A B : Type) (p : B -> bool) (f : A -> list B) l,
  filter p (flat_map f l) = flat_map (fun x => filter p (f x)) l.
Proof. intros A B p f; induction l as [|a l IH]; [reflexivity|]. cbn [flat_map]. now rewrite filter_app, IH. Qed.

Lemma strip_cecp_el_lines : forall name desc e, c4ecp_el_ok e ->
  exists Z, map strip_ws (cecp_el_lines name desc e) =
            "*" :: sym_p name (fst e) :: String "#" Z :: "*" :: cinner e ++ ["*"].
Proof.
  intros name desc [z [n pots]] He. destruct (c4ecp_el_facts z n pots He) as [_ [_ [_ [_ [_ [Hmx [_ [Hoo _]]]]]]]].
  destruct (strip_ws_head "#" (String " " desc) eq_refl) as [Z EZ]. exists Z.
  unfold cecp_el_lines, cinner, el_mx, sym_p. cbn [fst snd map].
  change ("# " +++ desc) with (String "#" (String " " desc)). rewrite EZ.
  destruct (cinfo_strip n (zmax (map pot_l pots))) as [-> _].
  rewrite map_app, map_flat_map. cbn [map app]. do 5 f_equal. f_equal.
  apply flat_map_ext_in. intros p Hp. apply strip_cpot_lines; [|exact Hmx]. rewrite Forall_forall in Hoo. apply Hoo, Hp.
Qed.

Lemma kept_cecp_el_lines : forall name desc e, c4ecp_el_ok e ->
  filter keepf (map strip_ws (cecp_el_lines name desc e)) = ckept name e.
Proof.
  intros name desc e He. destruct (strip_cecp_el_lines name desc e He) as [Z ->].
  assert (Hz : (1 <= fst e <= 120)%Z) by (destruct e as [z [n pots]]; apply He).
  destruct (sym_p_facts name (fst e) Hz) as [K1 _]. pose proof (cinner_facts e He) as Hin.
  rewrite (filter_cons_true _ keepf "*") by reflexivity. rewrite (filter_cons_true _ keepf _ _ K1).
  rewrite (filter_cons_false _ keepf (String "#" Z)) by reflexivity. rewrite (filter_cons_true _ keepf "*") by reflexivity.
  rewrite filter_app. rewrite (filter_id _ keepf (cinner e)); [reflexivity|].
  eapply Forall_weaken; [|exact Hin]. intros l Hl. apply Hl.
Qed.

Lemma el_p_keep : forall name desc els, c4_desc_ok desc -> Forall cel_ok els ->
  Forall (fun l => keepf l = true) (flat_map (el_p name desc) els).
Proof.
  intros name desc els Hd Hel. rewrite Forall_forall in *. intros l Hl. apply in_flat_map in Hl. destruct Hl as [zs [Hzs Hl]].
  rewrite el_p_core in Hl. destruct (core_facts name desc zs (tr zs) Hd (Hel zs Hzs)) as [_ [_ [_ G]]].
  rewrite Forall_forall in G. apply G, Hl.
Qed.

Lemma el_p_head : forall name desc els, els <> [] -> Forall cel_ok els ->
  exists x X, flat_map (el_p name desc) els = x :: X /\ x <> "".
Proof.
  intros name desc [|z0 els0] Hne Hel; [congruence|]. inversion Hel as [|? ? Hz0 _]; subst.
  cbn [flat_map]. rewrite el_p_core. destruct (core_block name desc z0 (tr z0) Hz0) as [r [Er _]]. rewrite Er.
  destruct Hz0 as [Hz0 _]. destruct (sym_p_facts name (fst z0) Hz0) as [_ [_ [_ [_ Hs]]]].
  cbn [app]. eexists _, _. split; [reflexivity | exact Hs].
Qed.

Lemma rstripb_last : forall A x, x <> "" -> rstripb (A ++ [x]) = A ++ [x].
Proof.
  intros A x Hx. unfold rstripb. rewrite rev_unit. cbn [drop_while_empty]. destruct x as [|c r]; [congruence|].
  cbn [is_empty rev]. now rewrite rev_involutive.
Qed.

(* the kept lines of the ECP part, as blocks: every element line is followed by the rest of its element and by the `*`
   line that opens the next element *)
Lemma ckept_blocks : forall name ecps' el,
  flat_map (ckept name) (ecps' ++ [el]) =
  "*" :: concat (map (eblk name) (map (fun e => (e, 2)) ecps')) ++ eblk name (el, 1).
Proof.
  intros name; induction ecps' as [|e ecps' IH]; intros el.
  - cbn [app flat_map map concat]. rewrite app_nil_r. reflexivity.
  - cbn [app flat_map map concat]. rewrite (IH el).
    change (eblk name (e, 2)) with (sym_p name (fst e) :: "*" :: cinner e ++ ["*"; "*"]). unfold ckept.
    cbn [app]. rewrite <- !app_assoc. cbn [app]. reflexivity.
Qed.

Lemma tail_blanks : forall k, tail_ok (blanks k).
Proof. intros k. split; [apply blanks_plain | apply prune_blanks]. Qed.

Lemma tail_last : forall k, tail_ok (blanks k ++ [""; ""; "*"]).
Proof.
  intros k. split.
  - apply Forall_app. split; [apply blanks_plain|]. repeat constructor.
  - rewrite pr_app by reflexivity. rewrite prune_blanks. reflexivity.
Qed.

(* the pruned text as blocks *)
Definition czts (els' : list (Z * list sshell)) (zl : Z * list sshell) : list ((Z * list sshell) * list string) :=
  map (fun zs => (zs, blanks (tr zs))) els' ++ [(zl, blanks (tr zl) ++ [""; ""; "*"])].
Definition ceks (ecps' : list (Z * (Z * list epot))) (el : Z * (Z * list epot)) : list ((Z * (Z * list epot)) * nat) :=
  map (fun e => (e, 2)) ecps' ++ [(el, 1)].

Lemma cpruned_text : forall name desc els' zl ecps' el, c4ecp_ok name desc (els' ++ [zl]) (ecps' ++ [el]) ->
  prune_lines (cfile_lines name desc (els' ++ [zl]) (ecps' ++ [el])) "!#" false true =
  concat (map (blkT name desc) (czts els' zl) ++ map (eblk name) (ceks ecps' el)).
Proof.
  intros name desc els' zl ecps' el H. destruct (c4ecp_ok_parts _ _ _ _ H) as [_ [_ [Hd [Hel [_ [_ [_ Hecp]]]]]]].
  remember (els' ++ [zl]) as els eqn:Eels. remember (ecps' ++ [el]) as ecps eqn:Eecps.
  assert (Hne : els <> []) by (rewrite Eels; destruct els'; discriminate).
  rewrite prune_c4_unfold. unfold cfile_lines. rewrite map_app, strip_all_lines.
  assert (Ecp : filter keepf (map strip_ws (cecp_part name desc ecps)) = "" :: "" :: flat_map (ckept name) ecps).
  { unfold cecp_part. destruct ecps as [|e0 ecps0]; [destruct ecps'; discriminate Eecps|]. remember (e0 :: ecps0) as ecps1.
    cbn [map]. rewrite (filter_cons_true _ keepf "") by reflexivity. change (strip_ws "") with "".
    rewrite (filter_cons_true _ keepf "") by reflexivity. rewrite (filter_cons_false _ keepf) by reflexivity.
    rewrite map_flat_map, filter_flat_map. do 2 f_equal. apply flat_map_ext_in. intros e He.
    apply kept_cecp_el_lines. rewrite Forall_forall in Hecp. apply Hecp, He. }
  rewrite filter_app, Ecp. rewrite (filter_cons_true _ keepf "") by reflexivity.
  rewrite (filter_id _ _ _ (el_p_keep name desc els Hd Hel)).
  destruct (el_p_head name desc els Hne Hel) as [x [X [EX Hx]]].
  assert (Edrop : drop_while_empty (("" :: flat_map (el_p name desc) els) ++ "" :: "" :: flat_map (ckept name) ecps) =
                  flat_map (el_p name desc) els ++ "" :: "" :: flat_map (ckept name) ecps).
  { cbn [app drop_while_empty is_empty]. rewrite EX. cbn [app drop_while_empty]. destruct x; [congruence | reflexivity]. }
  rewrite Edrop. rewrite Eecps, ckept_blocks.
  assert (Elast : exists A, eblk name (el, 1) = A ++ ["*"]).
  { unfold eblk. cbn [fst snd repeat]. exists (sym_p name (fst el) :: "*" :: cinner el). reflexivity. }
  destruct Elast as [A EA].
  assert (Eel : flat_map (el_p name desc) els = concat (map (blk name desc) (map (fun zs => (zs, tr zs)) els')) ++ core name desc zl ++ blanks (tr zl)).
  { rewrite Eels, flat_map_app, flat_el_p. cbn [flat_map]. rewrite app_nil_r, el_p_core. reflexivity. }
  rewrite Eel.
  assert (Eblk : map (blk name desc) (map (fun zs => (zs, tr zs)) els') = map (blkT name desc) (map (fun zs => (zs, blanks (tr zs))) els')).
  { rewrite !map_map. apply map_ext. intros zs. reflexivity. }
  rewrite Eblk. unfold czts, ceks. rewrite !map_app, !concat_app. cbn [map concat].
  change (blkT name desc (zl, blanks (tr zl) ++ [""; ""; "*"])) with (core name desc zl ++ blanks (tr zl) ++ [""; ""; "*"]).
  rewrite !app_nil_r.
  match goal with |- rstripb ?L = ?R => replace L with R end.
  - rewrite EA. rewrite !app_assoc. apply rstripb_last. discriminate.
  - rewrite <- !app_assoc. cbn [app]. reflexivity.
Qed.

(* ================================================================== *)
(* 12. the round trip of the whole file                                *)
(* ================================================================== *)
Lemma c4ecp_expected_eq : forall ecps, c4ecp_ecp_expected ecps = map cexp_el ecps.
Proof. reflexivity. Qed.

Lemma cread_parts_both : forall name desc els ecps, c4ecp_ok name desc els ecps -> ecps <> [] ->
  c4ecp_read_parts (cfile_lines name desc els ecps) =
    inr (tmecp_all_order els ecps, c4_expected els, c4ecp_ecp_expected ecps).
Proof.
  intros name desc els ecps H Hne. destruct (c4ecp_ok_parts _ _ _ _ H) as [_ [_ [Hd [Hel [Hnd [Himp [Hnde Hecp]]]]]]].
  specialize (Himp Hne).
  destruct (exists_last Himp) as [els' [zl Eels]]. destruct (exists_last Hne) as [ecps' [el Eecps]]. subst els ecps.
  unfold c4ecp_read_parts. rewrite (cpruned_text name desc els' zl ecps' el H). fold el_cond.
  assert (Fz : Forall cel_ok (map fst (czts els' zl))).
  { unfold czts. rewrite map_app, map_map. cbn [map fst]. rewrite map_id. exact Hel. }
  assert (Ft : Forall tail_ok (map snd (czts els' zl))).
  { unfold czts. rewrite map_app, map_map. cbn [map snd]. apply Forall_app. split; [|constructor; [apply tail_last | constructor]].
    rewrite Forall_forall. intros T HT. apply in_map_iff in HT. destruct HT as [zs [<- _]]. apply tail_blanks. }
  assert (Ez : map fst (czts els' zl) = els' ++ [zl]).
  { unfold czts. rewrite map_app, map_map. cbn [map fst]. now rewrite map_id. }
  assert (Ee : map fst (ceks ecps' el) = ecps' ++ [el]).
  { unfold ceks. rewrite map_app, map_map. cbn [map fst]. now rewrite map_id. }
  assert (Fk : Forall (fun p => 1 <= snd p) (ceks ecps' el)).
  { unfold ceks. apply Forall_app. split; [|constructor; [cbn; lia | constructor]].
    rewrite Forall_forall. intros p Hp. apply in_map_iff in Hp. destruct Hp as [e [<- _]]. cbn; lia. }
  rewrite partition_after_blocks.
  - unfold bind.
    pose proof (c4ecp_blocks_electron name desc (czts els' zl) (map (eblk name) (ceks ecps' el)) [] Hd Fz Ft) as B1.
    cbn [map app] in B1. rewrite B1; [| rewrite Ez; exact Hnd | intros z _ []]. clear B1.
    rewrite Ez.
    pose proof (c4ecp_blocks_ecp name (ceks ecps' el) (map fst (c4_expected (els' ++ [zl]))) (c4_expected (els' ++ [zl])) []) as B2.
    cbn [map filter app] in B2. rewrite app_nil_r in B2. rewrite B2; [| rewrite Ee; exact Hecp | rewrite Ee; exact Hnde]. clear B2.
    rewrite Ee, <- c4ecp_expected_eq. unfold tmecp_all_order, nin.
    rewrite c4_expected_keys. unfold c4ecp_ecp_expected at 1. rewrite map_map. reflexivity.
  - apply Forall_app. split.
    + rewrite Forall_forall. intros b Hb. apply in_map_iff in Hb. destruct Hb as [[zs T] [<- Hin]].
      assert (Hzs : cel_ok zs).
      { rewrite Forall_forall in Fz. apply Fz. apply in_map_iff. exists (zs, T). split; [reflexivity | exact Hin]. }
      assert (HT : tail_ok T).
      { rewrite Forall_forall in Ft. apply Ft. apply in_map_iff. exists (zs, T). split; [reflexivity | exact Hin]. }
      destruct (core_factsT name desc zs T Hd Hzs (proj1 HT)) as [A [B _]]. split; assumption.
    + rewrite Forall_forall. intros b Hb. apply in_map_iff in Hb. destruct Hb as [[e k] [<- Hin]].
      assert (He : c4ecp_el_ok e).
      { rewrite Forall_forall in Hecp. apply Hecp. rewrite <- Ee. apply in_map_iff. exists (e, k). split; [reflexivity | exact Hin]. }
      rewrite Forall_forall in Fk. pose proof (Fk _ Hin) as Hk. cbn [snd] in Hk.
      destruct (eblk_facts name e k He Hk) as [A [B _]]. split; assumption.
Qed.

Lemma c4ecp_roundtrip_exact : c4ecp_roundtrip_stmt.
Proof.
  intros name desc els ecps H. destruct ecps as [|e0 ecps0].
  - apply c4ecp_roundtrip_no_ecp, H.
  - unfold c4ecp_roundtrip. rewrite (c4ecp_write_lines_ok _ _ _ _ H). unfold bind at 1.
    rewrite (splitlines_unlines _ (cfile_lines_good _ _ _ _ H)). unfold c4ecp_read.
    rewrite (cread_parts_both _ _ _ _ H); [reflexivity | discriminate].
Qed.


(* ================================================================== *)
(* 13. the writer is total, the round trip by components, no number is lost *)
(* ================================================================== *)
Lemma c4ecp_write_total : c4ecp_write_total_stmt.
Proof. intros name desc els ecps H. eexists. apply c4ecp_write_lines_ok, H. Qed.

Lemma cread_parts : forall name desc els ecps, c4ecp_ok name desc els ecps ->
  c4ecp_read_parts (cfile_lines name desc els ecps) =
    inr (tmecp_all_order els ecps, c4_expected els, c4ecp_ecp_expected ecps).
Proof.
  intros name desc els ecps H. destruct ecps as [|e0 ecps0]; [|apply cread_parts_both; [exact H | discriminate]].
  destruct H as [H _]. unfold cfile_lines, cecp_part. rewrite app_nil_r.
  pose proof (read_all_lines name desc els H) as R. unfold c4_read_electron in R. unfold c4ecp_read_parts.
  destruct (partition_lines_after (prune_lines (all_lines name desc els) "!#" false true) (fun l => ok (is_c4_element_line l)) 1 4)
    as [e|bs]; [discriminate R|]. unfold bind in *.
  pose proof (blocks_lift bs [] _ R) as L. cbn [map] in L. rewrite L.
  unfold tmecp_all_order. cbn [map filter]. rewrite app_nil_r, c4_expected_keys. reflexivity.
Qed.

Lemma c4ecp_roundtrip_parts : c4ecp_roundtrip_parts_stmt.
Proof.
  intros name desc els ecps t H E. rewrite (c4ecp_written_lines name desc els ecps t H E). apply cread_parts, H.
Qed.

Lemma cinfo_line_tokens : forall n mx, In (Z_to_string n) (tokens_acc (cinfo_line n mx) "").
Proof.
  intros n mx. unfold cinfo_line, cinfo_p.
  change ("    " +++ "NCORE = " +++ Z_to_string n +++ "    LMAX = " +++ Z_to_string mx)
    with ("    NCORE =" +++ String " " (Z_to_string n +++ String " " ("   LMAX = " +++ Z_to_string mx))).
  apply tokens_in_mid, int_tok.
Qed.

Lemma c4ecp_no_number_lost : c4ecp_no_number_lost_stmt.
Proof.
  intros name desc els ecps t H E x. rewrite (c4ecp_written_lines name desc els ecps t H E).
  destruct (c4ecp_ok_parts _ _ _ _ H) as [Hc [_ [_ [Hel [_ [_ [_ Hecp]]]]]]]. split; intros Hx.
  - (* a number of the electron part: the line is one of the lines of c4_write_electron *)
    destruct (c4_write_total name desc els Hc) as [t' Et'].
    destruct (c4_no_number_lost name desc els t' Hc Et' x Hx) as [line [Hl Htok]].
    rewrite (c4_written_lines name desc els t' Hc Et') in Hl. exists line. split; [|exact Htok].
    unfold cfile_lines. apply in_or_app. now left.
  - destruct Hx as [e [He Hx]]. rewrite Forall_forall in Hecp. pose proof (Hecp e He) as Hok.
    destruct e as [z [n pots]]. cbn [fst snd] in Hx.
    assert (Hsub : forall line, In line (cecp_el_lines name desc (z, (n, pots))) -> In line (cfile_lines name desc els ecps)).
    { intros line Hl. unfold cfile_lines. apply in_or_app. right.
      unfold cecp_part. destruct ecps as [|e0 ecps0]; [destruct He|]. right. right. right. apply in_flat_map. eexists. split; [exact He | exact Hl]. }
    destruct (c4ecp_el_facts z n pots Hok) as [_ [_ [_ [_ [_ [_ [_ [Hoo Hperm]]]]]]]].
    destruct Hx as [->|[p [Hp Hx]]].
    + exists (cinfo_line n (el_mx (z, (n, pots)))). split; [apply Hsub; do 4 right; now left|]. apply cinfo_line_tokens.
    + pose proof (Permutation_in _ Hperm Hp) as Hpo. rewrite Forall_forall in Hoo. pose proof (Hoo p Hpo) as Hpp.
      destruct (pot_facts p Hpp) as [_ [Ec [Hg [Hcl [_ [_ [Hts _]]]]]]].
      destruct (trip_proj _ _ _ Hg Hcl) as [P1 [P2 P3]]. fold (ptrip p) in P1, P2, P3.
      assert (Ht : exists tr, In tr (ptrip p) /\ In x (ttokrow tr)).
      { destruct Hx as [Hx|[[c [Hcin Hx]]|[r [Hr ->]]]].
        - rewrite <- P2 in Hx. apply in_map_iff in Hx. destruct Hx as [[[a b] c] [<- Hin]]. eexists. split; [exact Hin|]. right. right. now left.
        - rewrite Ec in Hcin. destruct Hcin as [<-|[]]. rewrite <- P3 in Hx. apply in_map_iff in Hx.
          destruct Hx as [[[a b] c] [<- Hin]]. eexists. split; [exact Hin|]. now left.
        - rewrite <- P1 in Hr. apply in_map_iff in Hr. destruct Hr as [[[a b] c] [<- Hin]]. eexists. split; [exact Hin|]. right. now left. }
      destruct Ht as [tr [Htr Hxt]]. exists (cline tr). split.
      * apply Hsub. unfold cecp_el_lines. cbn [fst snd]. do 5 right. apply in_or_app. left. apply in_flat_map. exists p.
        split; [exact Hpo|]. unfold cpot_lines, cprows. right. apply in_map, Htr.
      * unfold cline. destruct (crow_facts tr (Hts tr Htr)) as [_ [_ ->]]. exact Hxt.
Qed.

Print Assumptions c4ecp_no_ecp.
Print Assumptions c4ecp_roundtrip_no_ecp.
Print Assumptions c4ecp_ecp_only_example.
Print Assumptions c4ecp_ecp_other_element.
Print Assumptions c4ecp_same_element.
Print Assumptions c4ecp_gap_ok.
Print Assumptions c4ecp_range.
Print Assumptions c4ecp_dup.
Print Assumptions c4ecp_nopot.
Print Assumptions c4ecp_noterm.
Print Assumptions c4ecp_negelec.
Print Assumptions c4ecp_twocols.
Print Assumptions c4ecp_twoam.
Print Assumptions c4ecp_dup_element.
Print Assumptions c4ecp_z121.
Print Assumptions c4ecp_nopoint.
Print Assumptions c4ecp_noname.
Print Assumptions c4ecp_markers.
Print Assumptions c4ecp_example.
Print Assumptions c4ecp_write_total.
Print Assumptions c4ecp_roundtrip_exact.
Print Assumptions c4ecp_roundtrip_parts.
Print Assumptions c4ecp_no_number_lost.
