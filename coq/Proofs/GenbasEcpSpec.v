(* Proofs of the statements of Proofs/GenbasEcpDefs.v (CFOUR / GENBAS, ECP part and whole file).  The general round trip
   with ECPs (c4ecp_roundtrip_stmt) is NOT proved here; proved are the whole-file theorems without ECPs, the instances and the
   counterexamples. *)
From BSE Require Import Model.Val Model.Text Model.Basis Model.Manip Model.Matrix Gen.GenLut Model.Lut Model.Elements
                        Model.Nwchem Model.NwchemEcp Model.Turbomole Model.TurbomoleEcp Model.Genbas Model.GenbasEcp
                        Proofs.MatrixDefs Proofs.NwchemDefs Proofs.NwchemEcpDefs Proofs.C20Finite Proofs.TurbomoleDefs
                        Proofs.TurbomoleEcpDefs Proofs.GenbasDefs Proofs.GenbasEcpDefs.
From BSE Require Import Proofs.HeaderSpec Proofs.PruneFS Proofs.MatrixSpec Proofs.NwchemSpec Proofs.TurbomoleSpec Proofs.GenbasSpec.

(* ================================================================== *)
(* 1. no ECP: the text                                                 *)
(* ================================================================== *)
Lemma c4ecp_no_ecp : c4ecp_no_ecp_stmt.
Proof.
  intros name desc els. unfold c4ecp_write, c4ecp_write_ecp.
  destruct (c4_write_electron name desc els) as [e|t]; [reflexivity|]. unfold bind, ok. rewrite sapp_nil_r. reflexivity.
Qed.

(* ================================================================== *)
(* 2. an electron block adds exactly one new key                       *)
(* ================================================================== *)
Lemma append_shell_keys : forall z sh d, In z (map fst d) -> map fst (append_shell z sh d) = map fst d.
Proof.
  intros z sh; induction d as [|[z' l] d IH]; intros H; [destruct H|]. cbn [append_shell].
  destruct (Z.eqb_spec z z') as [->|Hne]; [reflexivity|]. cbn [map fst]. f_equal. apply IH.
  destruct H as [H|H]; [cbn in H; congruence | exact H].
Qed.

Lemma parse_shells_keys : forall z idx lines d lines' d', In z (map fst d) ->
  c4_parse_shells z idx lines d = inr (lines', d') -> map fst d' = map fst d.
Proof.
  intros z; induction idx as [|[[a g] p] idx IH]; intros lines d lines' d' Hin H.
  - cbn [c4_parse_shells] in H. inversion H; subst. reflexivity.
  - cbn [c4_parse_shells] in H. destruct (c4_parse_shell a g p lines) as [e|[sh l1]]; [discriminate H|]. unfold bind in H.
    assert (Hin' : In z (map fst (append_shell z sh d))) by (rewrite append_shell_keys; assumption).
    rewrite (IH _ _ _ _ Hin' H). apply append_shell_keys, Hin.
Qed.

Lemma parse_keys : forall b d d1, c4_parse_electron_lines b d = inr d1 ->
  exists z, map fst d1 = map fst d ++ [z] /\ ~ In z (map fst d).
Proof.
  intros b d d1 H. unfold c4_parse_electron_lines in H. destruct b as [|l0 b']; [discriminate H|].
  destruct (parse_c4_element_line l0) as [e|sym]; [discriminate H|]. unfold bind at 1 in H.
  destruct (element_Z_from_sym sym) as [e|z]; [discriminate H|]. unfold bind at 1 in H.
  unfold tm_create_electron_shells in H. destruct (existsb (Z.eqb z) (map fst d)) eqn:Ex; [discriminate H|].
  unfold bind at 1, ok at 1 in H.
  assert (Hnot : ~ In z (map fst d)).
  { intros Hin. apply Bool.not_true_iff_false in Ex. apply Ex. apply existsb_exists. exists z. split; [exact Hin | apply Z.eqb_refl]. }
  exists z. split; [|exact Hnot].
  destruct (remove_expected_line (skipn 2 (l0 :: b')) "" 0) as [e|bl]; [discriminate H|]. unfold bind at 1 in H.
  destruct bl as [|l rest]; [discriminate H|].
  destruct (parse_nshell l) as [e|n]; [discriminate H|]. unfold bind at 1 in H.
  destruct (read_n_integers rest n) as [e|[a1 r1]]; [discriminate H|]. unfold bind at 1 in H.
  destruct (read_n_integers r1 n) as [e|[a2 r2]]; [discriminate H|]. unfold bind at 1 in H.
  destruct (read_n_integers r2 n) as [e|[a3 r3]]; [discriminate H|]. unfold bind at 1 in H.
  destruct (c4_parse_shells z (combine (combine a1 a2) a3) r3 (d ++ [(z, [])])) as [e|[r4 d']] eqn:Ep; [discriminate H|].
  unfold bind in H. destruct (prune_lines r4 "*" true true); [|discriminate H]. inversion H; subst d1.
  assert (Hin : In z (map fst (d ++ [(z, @nil sshell)]))) by (rewrite map_app, in_app_iff; right; left; reflexivity).
  rewrite (parse_shells_keys z _ _ _ _ _ Hin Ep), map_app. reflexivity.
Qed.

Lemma add_keys_new : forall K z, ~ In z K -> add_keys K (K ++ [z]) = K ++ [z].
Proof.
  intros K z Hz. unfold add_keys. f_equal. rewrite filter_app.
  assert (E1 : filter (fun x => negb (existsb (Z.eqb x) K)) K = []).
  { assert (G : forall L, incl L K -> filter (fun x => negb (existsb (Z.eqb x) K)) L = []).
    { induction L as [|x L IH]; intros Hi; [reflexivity|]. cbn [filter].
      assert (Ex : existsb (Z.eqb x) K = true) by (apply existsb_exists; exists x; split; [apply Hi; now left | apply Z.eqb_refl]).
      rewrite Ex. cbn [negb]. apply IH. intros y Hy. apply Hi. now right. }
    apply G, incl_refl. }
  rewrite E1. cbn [app filter]. rewrite (not_in_existsb z K Hz). reflexivity.
Qed.

(* the whole-file loop on blocks that the electron-only loop accepts *)
Lemma blocks_lift : forall bs d r, c4_blocks bs d = inr r ->
  c4ecp_blocks bs (map fst d, d, []) = inr (map fst r, r, []).
Proof.
  induction bs as [|b bs IH]; intros d r H.
  - cbn in H. inversion H; subst. reflexivity.
  - cbn [c4_blocks] in H. cbn [c4ecp_blocks]. destruct (existsb is_ecp_block_line b).
    + destruct (remove_expected_line b "*" 1); discriminate H.
    + destruct (c4_parse_electron_lines b d) as [e|d1] eqn:Ep; [discriminate H|]. unfold bind in *.
      destruct (parse_keys b d d1 Ep) as [z [Ek Hz]]. rewrite Ek, (add_keys_new _ z Hz), <- Ek. apply IH, H.
Qed.

(* ================================================================== *)
(* 3. no ECP: the round trip through the whole-file reader             *)
(* ================================================================== *)
Lemma c4_expected_keys : forall els, map fst (c4_expected els) = map fst els.
Proof. intros els. unfold c4_expected. rewrite map_map. reflexivity. Qed.

Lemma c4ecp_roundtrip_no_ecp : c4ecp_roundtrip_no_ecp_stmt.
Proof.
  intros name desc els H. unfold c4ecp_roundtrip. rewrite c4ecp_no_ecp.
  pose proof (c4_roundtrip_exact name desc els H) as R. unfold c4_roundtrip in R.
  destruct (c4_write_electron name desc els) as [e|t]; [discriminate R|]. unfold bind in *.
  unfold c4_read_electron in R. unfold c4ecp_read, c4ecp_read_parts.
  destruct (partition_lines_after (prune_lines (splitlines t) "!#" false true) (fun l => ok (is_c4_element_line l)) 1 4)
    as [e|bs]; [discriminate R|]. unfold bind in *.
  pose proof (blocks_lift bs [] _ R) as L. cbn [map] in L. rewrite L. unfold ok.
  unfold c4ecp_expected, tmecp_all_order. cbn [map filter]. rewrite app_nil_r, c4_expected_keys. reflexivity.
Qed.

(* ================================================================== *)
(* 4. instances and counterexamples                                    *)
(* ================================================================== *)
Lemma c4ecp_ecp_only_example : c4ecp_ecp_only_example_stmt.
Proof. split; vm_compute; reflexivity. Qed.
Lemma c4ecp_ecp_other_element : c4ecp_ecp_other_element_stmt.
Proof. vm_compute. reflexivity. Qed.
Lemma c4ecp_same_element : c4ecp_same_element_stmt.
Proof. vm_compute. reflexivity. Qed.
Lemma c4ecp_gap_ok : c4ecp_gap_ok_stmt.
Proof. repeat split; vm_compute; reflexivity. Qed.
Lemma c4ecp_range : c4ecp_range_stmt.
Proof. split; vm_compute; reflexivity. Qed.
Lemma c4ecp_dup : c4ecp_dup_stmt.
Proof. vm_compute. reflexivity. Qed.
Lemma c4ecp_nopot : c4ecp_nopot_stmt.
Proof. vm_compute. reflexivity. Qed.
Lemma c4ecp_noterm : c4ecp_noterm_stmt.
Proof. vm_compute. reflexivity. Qed.
Lemma c4ecp_negelec : c4ecp_negelec_stmt.
Proof. vm_compute. reflexivity. Qed.
Lemma c4ecp_twocols : c4ecp_twocols_stmt.
Proof. vm_compute. reflexivity. Qed.
Lemma c4ecp_twoam : c4ecp_twoam_stmt.
Proof. vm_compute. reflexivity. Qed.
Lemma c4ecp_dup_element : c4ecp_dup_element_stmt.
Proof. vm_compute. reflexivity. Qed.
Lemma c4ecp_z121 : c4ecp_z121_stmt.
Proof. vm_compute. reflexivity. Qed.
Lemma c4ecp_nopoint : c4ecp_nopoint_stmt.
Proof. vm_compute. reflexivity. Qed.
Lemma c4ecp_noname : c4ecp_noname_stmt.
Proof. vm_compute. reflexivity. Qed.
Lemma c4ecp_markers : c4ecp_markers_stmt.
Proof. vm_compute. reflexivity. Qed.

Ltac cxe_shell_ok_tac :=
  unfold c4_shell_ok, cxe_H, cxe_Na0, cxe_Na1, c4_sh; cbn [exps am coefs];
  split; [discriminate|]; split; [eexists; split; [reflexivity | lia]|];
  split; [discriminate|]; split; [repeat constructor|]; split; [reflexivity|]; split; [reflexivity|];
  split; repeat constructor.
Ltac cxe_pot_ok_tac :=
  unfold ecp_pot_ok, cxe_d, cxe_s, cxe_p; cbn [p_am p_rexp p_gexp p_coef];
  split; [eexists; split; [reflexivity | lia]|]; split; [discriminate|]; split; [reflexivity|];
  split; [eexists; split; reflexivity|]; split; repeat constructor.

Example c4ecp_example : c4ecp_example_stmt.
Proof.
  split; [|split; [|split]]; try (vm_compute; reflexivity).
  unfold c4ecp_ok. split; [|split; [|split]].
  - unfold c4_ok, cxe_els. split; [reflexivity|]. split; [repeat split; reflexivity|]. split.
    + cbn [map fst]. repeat constructor; cbn [In]; intros H; repeat (destruct H as [H|H]; [discriminate H|]); exact H.
    + repeat (constructor; [cbn [fst snd]; split; [lia|]|]); [| |constructor].
      * repeat (constructor; [cxe_shell_ok_tac|]). constructor.
      * repeat (constructor; [cxe_shell_ok_tac|]). constructor.
  - intros _. discriminate.
  - cbn [map fst cxe_ecps]. repeat constructor. intros [].
  - unfold cxe_ecps. constructor; [|constructor]. unfold c4ecp_el_ok. split; [lia|]. split; [lia|]. split; [discriminate|]. split.
    + repeat (constructor; [cxe_pot_ok_tac|]). constructor.
    + cbn [map pot_l cxe_d cxe_s cxe_p p_am hd]. repeat constructor; cbn [In]; intros H; repeat (destruct H as [H|H]; [discriminate H|]); exact H.
Qed.

Print Assumptions c4ecp_no_ecp.
Print Assumptions c4ecp_roundtrip_no_ecp.
Print Assumptions c4ecp_ecp_only_example.
Print Assumptions c4ecp_ecp_other_element.
Print Assumptions c4ecp_same_element.
Print Assumptions c4ecp_gap_ok.
Print Assumptions c4ecp_range.
Print Assumptions c4ecp_dup.
Print Assumptions c4ecp_nopot.
Print Assumptions c4ecp_noterm.
Print Assumptions c4ecp_negelec.
Print Assumptions c4ecp_twocols.
Print Assumptions c4ecp_twoam.
Print Assumptions c4ecp_dup_element.
Print Assumptions c4ecp_z121.
Print Assumptions c4ecp_nopoint.
Print Assumptions c4ecp_noname.
Print Assumptions c4ecp_markers.
Print Assumptions c4ecp_example.
