(* Proofs of the statements of Proofs/DaltonEcpDefs.v: write_dalton never fails on a well-formed basis set with ECPs, and
   read_dalton never reads the result back (dal_ecp_unreadable). *)
From BSE Require Import Model.Val Model.Text Model.Basis Model.Manip Model.Matrix Gen.GenLut Model.Lut Model.Elements
                        Model.Nwchem Model.Turbomole Model.NwchemEcp Model.Dalton Model.DaltonEcp
                        Proofs.MatrixDefs Proofs.NwchemDefs Proofs.NwchemEcpDefs Proofs.TurbomoleDefs Proofs.DaltonDefs
                        Proofs.DaltonEcpDefs Proofs.C20Finite.
From BSE Require Import Proofs.HeaderSpec Proofs.PruneFS Proofs.MatrixSpec Proofs.NwchemSpec Proofs.TurbomoleSpec
                        Proofs.NwchemEcpSpec Proofs.DaltonSpec.
Require Import Coq.Sorting.Permutation.

(* ================================================================== *)
(* 1. the lines of the ECP section                                     *)
(* ================================================================== *)
(* a table row, printed with the point places [0, 9, 32] *)
Definition erow9 (row : list cell) : string :=
  match write_row row dal_ecp_point_places true "" with inr l => l | inl _ => "" end.

Lemma erow9_facts : forall t, trip_ok t ->
  write_row (cellrow t) dal_ecp_point_places true "" = inr (erow9 (cellrow t)) /\
  good_line (erow9 (cellrow t)) /\ tokens_acc (erow9 (cellrow t)) "" = tokrow t.
Proof.
  intros t Ht. destruct (cellrow_ok t Ht) as [Hok Hasc].
  destruct (write_row_total (cellrow t) dal_ecp_point_places true "" Hok) as [line Hl].
  { destruct t as [[x y] z]. cbn. lia. }
  unfold erow9. rewrite Hl. split; [reflexivity|]. split.
  - apply (write_row_chars nobd eq_refl (cellrow t) dal_ecp_point_places true "" line); [|reflexivity|exact Hl].
    rewrite Forall_forall in *. intros c Hc. apply cell_nobd; [apply Hok | apply Hasc]; exact Hc.
  - rewrite (write_row_tokens_gen _ _ _ _ _ Hok (fun _ => eq_refl) Hl). destruct t as [[x y] z]. reflexivity.
Qed.

(* a line which, after strip(), begins with `$`, a digit or a minus sign *)
Definition ehead (c : ascii) : bool := orb (Ascii.eqb c "$") (intc c).
Definition ebody (x : string) : Prop := exists c r, strip_ws x = String c r /\ ehead c = true.

Lemma erow9_body : forall t, trip_ok t -> ebody (erow9 (cellrow t)).
Proof.
  intros t Ht. destruct (erow9_facts t Ht) as [_ [_ Htok]]. destruct t as [[x y] z]. cbn [tokrow] in Htok.
  destruct (tokens_first _ _ _ Htok) as [c [t' [y' [E [El Hc]]]]].
  destruct (strip_first _ c y' El Hc) as [r Er]. destruct (int_first x) as [c0 [t0 [E0 Hc0]]].
  rewrite E0 in E. inversion E; subst c0 t0. exists c, r. split; [exact Er|]. unfold ehead. now rewrite Hc0, orb_true_r.
Qed.

Lemma fmt_d_good : forall w z, good_line (fmt_d w z).
Proof.
  intros w z. unfold good_line, fmt_d. rewrite sall_app, (sall_sp nobd _ eq_refl).
  apply (sall_impl intc nobd _ intc_nobd), Z_to_string_intc.
Qed.

Lemma int_head_body : forall z rest, ebody (Z_to_string z +++ rest).
Proof.
  intros z rest. destruct (int_first z) as [c [t [E Hc]]]. rewrite E. cbn [String.append].
  destruct (strip_ws_head c (t +++ rest) (intc_not_space c Hc)) as [Y EY]. exists c, Y. split; [exact EY|].
  unfold ehead. now rewrite Hc, orb_true_r.
Qed.

Lemma fmt_d_body : forall w z rest, ebody (fmt_d w z +++ rest).
Proof.
  intros w z rest. unfold fmt_d. destruct (int_head_body z rest) as [c [r [E Hc]]]. exists c, r. split; [|exact Hc].
  rewrite sapp_assoc, strip_sp. exact E.
Qed.

Definition prows9 (p : epot) : list string := map erow9 (map cellrow (ptrip p)).
Definition cnt_line (p : epot) : string := fmt_d 12 (Z.of_nat (List.length (p_rexp p))).
Definition pot_lines9 (p : epot) : list string := cnt_line p :: prows9 p.
Definition a_ecp_line (z : Z) : string := "a " +++ fmt_d 3 z.
Definition hdr_line9 (mx nelec : Z) : string := fmt_d 4 mx +++ fmt_d 4 nelec.
Definition ecp_el_lines9 (e : Z * (Z * list epot)) : list string :=
  a_ecp_line (fst e) :: "$" :: hdr_line9 (el_mx e) (fst (snd e)) ::
  flat_map pot_lines9 (ecp_written_order (snd (snd e))) ++ ["$"].
Definition ecp_tail9 (ecps : list (Z * (Z * list epot))) : list string :=
  flat_map ecp_el_lines9 ecps ++ ["$ END OF ECP"].
Definition ecp_lines9 (ecps : list (Z * (Z * list epot))) : list string := "" :: "" :: "ECP" :: ecp_tail9 ecps.

Lemma write_pot9 : forall p, ecp_pot_ok p -> dal_write_pot p = inr (unlines (pot_lines9 p)).
Proof.
  intros p Hp. destruct (pot_facts p Hp) as [Ecols [_ [Hg [Hc [Fg [Fc [Hts _]]]]]]].
  unfold dal_write_pot. rewrite Ecols.
  assert (Hleft : leftpad_check [map CInt (p_rexp p); map CStr (p_gexp p); map CStr (pcoef p)] dal_ecp_point_places = inr tt).
  { unfold dal_ecp_point_places. cbn [leftpad_check].
    destruct (mapM_find_point (map CInt (p_rexp p))) as [l1 ->].
    { rewrite Forall_forall. intros c Hc'. apply in_map_iff in Hc'. destruct Hc' as [x [<- _]]. exact I. }
    destruct (mapM_find_point (map CStr (p_gexp p))) as [l2 ->]; [apply floats_cells, Fg|].
    destruct (mapM_find_point (map CStr (pcoef p))) as [l3 ->]; [apply floats_cells, Fc|]. reflexivity. }
  rewrite Hleft. unfold bind.
  assert (Hw : write_matrix [map CInt (p_rexp p); map CStr (p_gexp p); map CStr (pcoef p)] dal_ecp_point_places false
               = inr (unlines (prows9 p))).
  { unfold write_matrix, transpose_cells. rewrite transpose_trip. fold (ptrip p).
    rewrite (mapM_map_ok _ _ _ erow9 (map cellrow (ptrip p))); [reflexivity|].
    intros row Hrow. apply in_map_iff in Hrow. destruct Hrow as [t [<- Ht]]. apply erow9_facts, Hts, Ht. }
  rewrite Hw. unfold ok, pot_lines9, cnt_line. rewrite unlines_cons. reflexivity.
Qed.

Lemma write_ecp_element9 : forall e, dal_ecp_el_ok e -> dal_write_ecp_element e = inr (unlines (ecp_el_lines9 e)).
Proof.
  intros [z [n pots]] [Hne [Hok Hnd]]. destruct (written_order_ok pots Hne Hok Hnd) as [Eo [Hoo _]].
  unfold dal_write_ecp_element. rewrite (max_am_ok pots Hne Hok). unfold bind. rewrite Eo.
  rewrite (mapM_map_ok _ _ _ (fun p => unlines (pot_lines9 p))).
  - unfold ok, ecp_el_lines9, el_mx, a_ecp_line, hdr_line9. cbn [fst snd].
    rewrite !unlines_cons, unlines_app, unlines_flat_map, !sapp_assoc. reflexivity.
  - intros p Hp. apply write_pot9. rewrite Forall_forall in Hoo. apply Hoo, Hp.
Qed.

Lemma write_ecp9 : forall ecps, ecps <> [] -> Forall dal_ecp_el_ok ecps ->
  dal_write_ecp ecps = inr (unlines (ecp_lines9 ecps)).
Proof.
  intros ecps Hne Hel. unfold dal_write_ecp. destruct ecps as [|e0 ecps0]; [congruence|].
  rewrite (mapM_map_ok _ _ dal_write_ecp_element (fun e => unlines (ecp_el_lines9 e))).
  - unfold bind, ok, ecp_lines9, ecp_tail9. rewrite !unlines_cons, unlines_app, unlines_flat_map. reflexivity.
  - intros e He. apply write_ecp_element9. rewrite Forall_forall in Hel. apply Hel, He.
Qed.

Definition all_lines9 (bsname : string) (els : list (Z * list sshell)) (ecps : list (Z * (Z * list epot))) : list string :=
  dall_lines bsname els ++ ecp_lines9 ecps.

Lemma all_ok_els : forall bsname els ecps, dal_all_ok bsname els ecps -> Forall del_ok els /\ NoDup (map fst els).
Proof.
  intros bsname els ecps [_ [[->|Hpre] _]]; [split; constructor|].
  split; [apply (dal_pre_els bsname els Hpre) | apply Hpre].
Qed.

Lemma write_all9 : forall bsname els ecps, dal_all_ok bsname els ecps ->
  dal_write_all bsname els ecps = inr (unlines (all_lines9 bsname els ecps)).
Proof.
  intros bsname els ecps H. destruct (all_ok_els bsname els ecps H) as [Hel _]. destruct H as [_ [_ [Hne Hecp]]].
  unfold dal_write_all. rewrite (dal_write_electron_lines bsname els Hel). unfold bind.
  rewrite (write_ecp9 ecps Hne Hecp). unfold ok, all_lines9. now rewrite unlines_app.
Qed.

Lemma dal_all_write_total : dal_all_write_total_stmt.
Proof. intros bsname els ecps H. eexists. apply write_all9, H. Qed.

(* ---- every line is free of line boundaries ---- *)
Lemma pot_lines9_good : forall p, ecp_pot_ok p -> Forall good_line (pot_lines9 p).
Proof.
  intros p Hp. destruct (pot_facts p Hp) as [_ [_ [_ [_ [_ [_ [Hts _]]]]]]].
  unfold pot_lines9. constructor; [apply fmt_d_good|]. unfold prows9. rewrite Forall_forall. intros l Hl.
  apply in_map_iff in Hl. destruct Hl as [row [<- Hrow]]. apply in_map_iff in Hrow. destruct Hrow as [t [<- Ht]].
  apply erow9_facts, Hts, Ht.
Qed.

Lemma el_order_ok : forall e, dal_ecp_el_ok e -> Forall ecp_pot_ok (ecp_written_order (snd (snd e))).
Proof. intros [z [n pots]] [Hne [Hok Hnd]]. cbn [snd]. apply (written_order_ok pots Hne Hok Hnd). Qed.

Lemma ecp_el_lines9_good : forall e, dal_ecp_el_ok e -> Forall good_line (ecp_el_lines9 e).
Proof.
  intros e He. pose proof (el_order_ok e He) as Hoo. unfold ecp_el_lines9.
  constructor; [unfold good_line, a_ecp_line; rewrite sall_app; apply fmt_d_good|].
  constructor; [reflexivity|].
  constructor; [unfold good_line, hdr_line9; rewrite sall_app; rewrite (fmt_d_good 4 (el_mx e)); apply fmt_d_good|].
  apply Forall_app. split; [|repeat constructor].
  rewrite Forall_forall in *. intros l Hl. apply in_flat_map in Hl. destruct Hl as [p [Hp Hl]].
  pose proof (pot_lines9_good p (Hoo p Hp)) as Hg. rewrite Forall_forall in Hg. apply Hg, Hl.
Qed.

Lemma all_lines9_good : forall bsname els ecps, dal_all_ok bsname els ecps -> Forall good_line (all_lines9 bsname els ecps).
Proof.
  intros bsname els ecps H. destruct H as [Hn [Hels [_ Hecp]]]. unfold all_lines9. apply Forall_app. split.
  - destruct Hels as [->|Hpre]; [|apply dall_lines_good, Hpre].
    unfold dall_lines. cbn [flat_map]. constructor; [apply first_line_good, Hn|]. repeat constructor.
  - unfold ecp_lines9, ecp_tail9. do 3 (constructor; [reflexivity|]). apply Forall_app. split; [|repeat constructor].
    rewrite Forall_forall in *. intros l Hl. apply in_flat_map in Hl. destruct Hl as [e [He Hl]].
    pose proof (ecp_el_lines9_good e (Hecp e He)) as Hg. rewrite Forall_forall in Hg. apply Hg, Hl.
Qed.

(* ================================================================== *)
(* 2. what read_dalton sees in the ECP section                         *)
(* ================================================================== *)
Lemma ehead_facts : forall c, ehead c = true ->
  is_space c = false /\ is_alpha c = false /\ Ascii.eqb (lower_char c) "e" = false.
Proof. intros c H. all_chars c; try (repeat split; reflexivity); discriminate H. Qed.

(* the element line `a  11`: strip() leaves it alone; it starts a block of the NWChem ECP parser, which cannot parse it *)
Lemma a_ecp_facts : forall z, exists A r,
  strip_ws (a_ecp_line z) = A /\ A = String "a" r /\ starts_alpha A = inr true /\ is_end_line A = false /\
  is_ecp_line A = false /\ parse_am_line A = inl ERuntime.
Proof.
  intros z. unfold a_ecp_line, fmt_d. set (k := 3 - String.length (Z_to_string z)). set (ds := Z_to_string z).
  destruct (int_first z) as [c [t [E Hc]]]. fold ds in E.
  assert (Hs : strip_ws ("a " +++ sp k +++ ds) = "a " +++ sp k +++ ds).
  { change ("a " +++ sp k +++ ds) with ("a" +++ (" " +++ sp k) +++ ds).
    apply strip_words; [split; [discriminate | reflexivity] | apply int_tok]. }
  exists ("a " +++ sp k +++ ds), (" " +++ sp k +++ ds). split; [exact Hs|]. split; [reflexivity|]. split; [reflexivity|].
  split; [|split].
  - apply not_end. reflexivity.
  - apply ecp_head. reflexivity.
  - unfold parse_am_line, match_am_line.
    change ("a " +++ sp k +++ ds) with ("a" +++ String " " (sp k +++ ds)).
    rewrite (span_alpha_word_sp "a" _ eq_refl). cbv iota. change (is_space " ") with true. cbv iota.
    assert (El : lstrip_ws (String " " (sp k +++ ds)) = ds).
    { change (String " " (sp k +++ ds)) with (sp (S k) +++ ds). rewrite lstrip_spaces by (apply sall_sp; reflexivity).
      rewrite E. apply lstrip_head, (intc_not_space c Hc). }
    rewrite El, E. destruct (intc_data c Hc) as [Ha _]. cbn [span_alpha]. rewrite Ha. reflexivity.
Qed.

(* every other line of the section *)
Lemma dollar_body : ebody "$".
Proof. exists "$"%char, "". split; reflexivity. Qed.
Lemma end_of_ecp_body : ebody "$ END OF ECP".
Proof. exists "$"%char, " END OF ECP". split; reflexivity. Qed.

Lemma pot_lines9_body : forall p, ecp_pot_ok p -> Forall ebody (pot_lines9 p).
Proof.
  intros p Hp. destruct (pot_facts p Hp) as [_ [_ [_ [_ [_ [_ [Hts _]]]]]]].
  unfold pot_lines9. constructor.
  - unfold cnt_line. rewrite <- (sapp_nil_r (fmt_d 12 _)). apply fmt_d_body.
  - unfold prows9. rewrite Forall_forall. intros l Hl.
    apply in_map_iff in Hl. destruct Hl as [row [<- Hrow]]. apply in_map_iff in Hrow. destruct Hrow as [t [<- Ht]].
    apply erow9_body, Hts, Ht.
Qed.

(* the lines of an element after its first line *)
Definition el_rest9 (e : Z * (Z * list epot)) : list string :=
  "$" :: hdr_line9 (el_mx e) (fst (snd e)) :: flat_map pot_lines9 (ecp_written_order (snd (snd e))) ++ ["$"].

Lemma el_rest9_body : forall e, dal_ecp_el_ok e -> Forall ebody (el_rest9 e).
Proof.
  intros e He. pose proof (el_order_ok e He) as Hoo. unfold el_rest9.
  constructor; [apply dollar_body|]. constructor; [unfold hdr_line9; apply fmt_d_body|].
  apply Forall_app. split; [|repeat constructor; apply dollar_body].
  rewrite Forall_forall in *. intros l Hl. apply in_flat_map in Hl. destruct Hl as [p [Hp Hl]].
  pose proof (pot_lines9_body p (Hoo p Hp)) as Hg. rewrite Forall_forall in Hg. apply Hg, Hl.
Qed.

(* after strip(): not empty, not `ecp` *)
Definition eline_ok (l : string) : Prop := strip_ws l <> "" /\ is_ecp_line (strip_ws l) = false.

Lemma ebody_ok : forall l, ebody l -> eline_ok l.
Proof.
  intros l [c [r [E Hc]]]. destruct (ehead_facts c Hc) as [_ [_ He]]. split; rewrite E; [discriminate | apply ecp_head, He].
Qed.
Lemma a_ecp_ok : forall z, eline_ok (a_ecp_line z).
Proof. intros z. destruct (a_ecp_facts z) as [A [r [E [EA [_ [_ [He _]]]]]]]. split; rewrite E; [rewrite EA; discriminate | exact He]. Qed.

Lemma ecp_tail9_ok : forall ecps, Forall dal_ecp_el_ok ecps -> Forall eline_ok (ecp_tail9 ecps).
Proof.
  intros ecps H. unfold ecp_tail9. apply Forall_app. split; [|repeat constructor; apply ebody_ok, end_of_ecp_body].
  rewrite Forall_forall in *. intros l Hl. apply in_flat_map in Hl. destruct Hl as [e [He Hl]].
  change (ecp_el_lines9 e) with (a_ecp_line (fst e) :: el_rest9 e) in Hl. destruct Hl as [<-|Hl]; [apply a_ecp_ok|].
  pose proof (el_rest9_body e (H e He)) as Hb. rewrite Forall_forall in Hb. apply ebody_ok, Hb, Hl.
Qed.

Lemma prune0_ok : forall L, Forall eline_ok L ->
  prune0 L = map strip_ws L /\ Forall (fun x => x <> "" /\ is_ecp_line x = false) (prune0 L).
Proof.
  intros L H. assert (E : prune0 L = map strip_ws L).
  { apply prune0_keep. rewrite Forall_forall in *. intros x Hx. apply (H x Hx). }
  split; [exact E|]. rewrite E. rewrite Forall_forall in *. intros x Hx. apply in_map_iff in Hx. destruct Hx as [y [<- Hy]]. apply (H y Hy).
Qed.

(* the pruned ECP section: `ECP`, the first element line, `$`, and lines that are not empty and not `ecp` *)
Lemma pruned_ecp : forall ecps, ecps <> [] -> Forall dal_ecp_el_ok ecps ->
  exists A r REST, prune0 (ecp_lines9 ecps) = "ECP" :: A :: "$" :: REST /\ A = String "a" r /\
    starts_alpha A = inr true /\ is_end_line A = false /\ parse_am_line A = inl ERuntime /\
    Forall (fun x => x <> "" /\ is_ecp_line x = false) (A :: "$" :: REST).
Proof.
  intros ecps Hne Hel. destruct (prune0_ok _ (ecp_tail9_ok ecps Hel)) as [E HF].
  destruct ecps as [|e0 ecps']; [congruence|]. destruct (a_ecp_facts (fst e0)) as [A [r [EA [Er [Hsa [Hend [_ Hp]]]]]]].
  assert (Etail : ecp_tail9 (e0 :: ecps') = a_ecp_line (fst e0) :: "$" :: tl (tl (ecp_tail9 (e0 :: ecps')))) by reflexivity.
  exists A, r, (map strip_ws (tl (tl (ecp_tail9 (e0 :: ecps'))))).
  assert (Ep : prune0 (ecp_tail9 (e0 :: ecps')) = A :: "$" :: map strip_ws (tl (tl (ecp_tail9 (e0 :: ecps'))))).
  { rewrite E. rewrite Etail at 1. cbn [map]. rewrite EA. reflexivity. }
  split; [|split; [exact Er | split; [exact Hsa | split; [exact Hend | split; [exact Hp|]]]]].
  - unfold ecp_lines9. change ("" :: "" :: "ECP" :: ecp_tail9 (e0 :: ecps')) with (["";"";"ECP"] ++ ecp_tail9 (e0 :: ecps')).
    rewrite prune0_app, Ep. reflexivity.
  - rewrite <- Ep. exact HF.
Qed.

(* ================================================================== *)
(* 3. partition_lines on lines that are not empty                      *)
(* ================================================================== *)
Lemma part_go_prefix : forall cond lines cur all,
  Forall (fun l => exists b, cond l = inr b) lines ->
  exists bs, part_go cond true lines cur all = inr (all ++ bs) /\ Forall (fun b => b <> []) bs /\
             (cur <> [] -> exists r more, bs = (cur ++ r) :: more).
Proof.
  intros cond; induction lines as [|l t IH]; intros cur all H.
  - cbn [part_go]. destruct cur as [|c cur'].
    + exists []. rewrite app_nil_r. split; [reflexivity|]. split; [constructor | congruence].
    + exists [c :: cur']. split; [reflexivity|]. split; [repeat constructor; discriminate|].
      intros _. exists [], []. now rewrite app_nil_r.
  - inversion H as [|? ? [b Hb] Ht]; subst. cbn [part_go]. rewrite Hb. unfold bind. destruct b.
    + destruct (IH [l] (match cur with [] => all | _ => all ++ [cur] end) Ht) as [bs [E [Hne Hcur]]].
      destruct cur as [|c cur'].
      * exists bs. split; [exact E|]. split; [exact Hne | congruence].
      * exists ((c :: cur') :: bs). rewrite E, <- app_assoc. split; [reflexivity|]. split; [constructor; [discriminate | exact Hne]|].
        intros _. exists [], bs. now rewrite app_nil_r.
    + destruct (IH (cur ++ [l]) all Ht) as [bs [E [Hne Hcur]]]. exists bs. split; [exact E|]. split; [exact Hne|].
      intros _. destruct Hcur as [r [more Ebs]]; [destruct cur; discriminate|]. exists (l :: r), more.
      rewrite Ebs, <- app_assoc. reflexivity.
Qed.

Lemma starts_alpha_total : forall L, Forall (fun x => x <> "") L -> Forall (fun l => exists b, starts_alpha l = inr b) L.
Proof.
  intros L H. rewrite Forall_forall in *. intros x Hx. specialize (H x Hx). destruct x as [|c r]; [congruence|].
  cbn [starts_alpha]. eauto.
Qed.

(* the NWChem ECP parser on the section *)
Lemma ecp_section_fails : forall A r REST d, A = String "a" r -> starts_alpha A = inr true -> is_end_line A = false ->
  parse_am_line A = inl ERuntime -> Forall (fun x => x <> "") REST ->
  nw_read_ecp_section ("ECP" :: A :: "$" :: REST) d = inl ERuntime.
Proof.
  intros A r REST d EA Hsa Hend Hp Hne. unfold nw_read_ecp_section.
  set (R' := filter (fun x => negb (is_end_line x)) REST).
  assert (Ef : filter (fun x => negb (is_end_line x)) ("ECP" :: A :: "$" :: REST) = "ECP" :: A :: "$" :: R').
  { cbn [filter]. change (is_end_line "ECP") with false. change (is_end_line "$") with false. rewrite Hend. reflexivity. }
  assert (Htot : Forall (fun l => exists b, starts_alpha l = inr b) R').
  { apply starts_alpha_total. unfold R'. rewrite Forall_forall in *. intros x Hx. apply filter_In in Hx. apply Hne, Hx. }
  destruct (part_go_prefix starts_alpha R' [A; "$"] [] Htot) as [bs [E [Hbne Hcur]]].
  destruct Hcur as [r' [more Ebs]]; [discriminate|]. cbn [app] in E.
  assert (Epg : part_go starts_alpha true (A :: "$" :: R') [] [] = inr bs).
  { rewrite (part_go_match _ _ _ _ _ _ Hsa). cbn [flush part_go]. change (starts_alpha "$") with (@inr err bool false).
    unfold bind. cbn [app]. exact E. }
  rewrite Ef. cbn [tl]. unfold partition_lines. rewrite Epg. unfold bind.
  rewrite existsb_false.
  2:{ intros b Hb. rewrite Forall_forall in Hbne. specialize (Hbne b Hb). destruct b; [congruence | reflexivity]. }
  cbn [Nat.eqb andb negb]. rewrite Ebs. unfold ok. cbv beta iota. cbn [app nw_parse_ecp_blocks nw_parse_ecp_block]. rewrite Hp. reflexivity.
Qed.

(* ================================================================== *)
(* 4. the whole file                                                   *)
(* ================================================================== *)
Lemma partition_two : forall cond X h Y, Forall (fun l => cond l = inr false) X -> cond h = inr true ->
  Forall (fun l => cond l = inr false) Y ->
  partition_lines (X ++ h :: Y) cond true 1 1 2 = inr (match X with [] => [h :: Y] | _ => [X; h :: Y] end).
Proof.
  intros cond X h Y HX Hh HY. unfold partition_lines. rewrite (part_skip cond true X (h :: Y) [] [] HX). cbn [app].
  rewrite (part_go_match _ _ _ _ _ _ Hh), (part_skip_all cond true Y [h] _ HY). destruct X as [|x X']; reflexivity.
Qed.

Definition ecp_cond (x : string) : res bool := ok (is_ecp_line x).

Lemma read_all9 : forall bsname els ecps, dal_all_ok bsname els ecps ->
  dal_read_all (all_lines9 bsname els ecps) = inl ERuntime.
Proof.
  intros bsname els ecps H. destruct (all_ok_els bsname els ecps H) as [Hel Hnd]. destruct H as [_ [Hels [Hne Hecp]]].
  destruct (first_line_facts bsname) as [Y [EY [Hb He]]].
  destruct (pruned_ecp ecps Hne Hecp) as [A [r [REST [Ep [EA [Hsa [Hend [Hp HF]]]]]]]].
  assert (HFne : Forall (fun x => x <> "") REST).
  { inversion HF as [|? ? _ HF1]; subst. inversion HF1 as [|? ? _ HF2]; subst. rewrite Forall_forall in *. intros x Hx. apply (HF2 x Hx). }
  assert (HFe : Forall (fun l => ecp_cond l = inr false) (A :: "$" :: REST)).
  { rewrite Forall_forall in *. intros x Hx. unfold ecp_cond, ok. destruct (HF x Hx) as [_ ->]. reflexivity. }
  assert (Hfail : forall d, nw_read_ecp_section ("ECP" :: A :: "$" :: REST) d = inl ERuntime).
  { intros d. apply (ecp_section_fails A r REST d EA Hsa Hend Hp HFne). }
  unfold dal_read_all, dal_read_all_parts. rewrite prune0_eq. unfold all_lines9.
  rewrite prune0_app, (prune0_all bsname els Hel), EY, Ep. fold ecp_cond.
  assert (Hecpl : ecp_cond "ECP" = inr true) by reflexivity.
  destruct Hels as [->|Hpre].
  - cbn [flat_map app].
    assert (Hskip : dal_skip_to_start (String "!" Y :: "ECP" :: A :: "$" :: REST) = inr ("ECP" :: A :: "$" :: REST)).
    { cbn [dal_skip_to_start]. rewrite Hb. unfold bind. rewrite He. reflexivity. }
    pose proof (partition_two ecp_cond [] "ECP" _ (Forall_nil _) Hecpl HFe) as Hpt. cbn [app] in Hpt.
    rewrite Hskip. unfold bind. cbv beta iota. rewrite Hpt. cbn [dal_sections_all].
    change (is_ecp_line "ECP") with true. cbv iota. rewrite Hfail. reflexivity.
  - destruct Hpre as [_ [Hene _]]. destruct els as [|zs els']; [congruence|]. remember (zs :: els') as els eqn:Eels.
    assert (Hhead : exists r' X, flat_map pel els = String "a" (String " " r') :: X).
    { rewrite Eels. cbn [flat_map]. unfold pel, a_line. cbn [app String.append]. eauto. }
    destruct Hhead as [r' [X EX]].
    assert (Hecp' : Forall (fun x => ecp_cond x = inr false) (flat_map pel els)).
    { rewrite Forall_forall in *. intros x Hx. apply in_flat_map in Hx. destruct Hx as [zs' [Hzs Hx]].
      pose proof (pel_not_ecp zs' (Hel zs' Hzs)) as Hq. rewrite Forall_forall in Hq. unfold ecp_cond, ok. now rewrite (Hq x Hx). }
    assert (He1 : is_ecp_line (String "a" (String " " r')) = false) by (apply ecp_head; reflexivity).
    pose proof (partition_two ecp_cond (flat_map pel els) "ECP" _ Hecp' Hecpl HFe) as Hpt.
    assert (Hskip : dal_skip_to_start ((String "!" Y :: flat_map pel els) ++ "ECP" :: A :: "$" :: REST) =
                    inr (flat_map pel els ++ "ECP" :: A :: "$" :: REST)).
    { rewrite EX. cbn [app]. apply (skip_first _ r' _ Hb He). }
    rewrite Hskip. unfold bind. rewrite EX in Hpt |- *. cbn [app] in Hpt |- *. cbv beta iota. rewrite Hpt.
    cbn [dal_sections_all]. rewrite He1, <- EX.
    rewrite (parse_electron_lines_ok els Hel Hnd). unfold bind. cbv beta iota.
    change (is_ecp_line "ECP") with true. cbv iota. rewrite Hfail. reflexivity.
Qed.

Lemma dal_ecp_unreadable : dal_ecp_unreadable_stmt.
Proof.
  intros bsname els ecps H. unfold dal_roundtrip_all. rewrite (write_all9 bsname els ecps H). unfold bind.
  rewrite (splitlines_unlines _ (all_lines9_good bsname els ecps H)). apply read_all9, H.
Qed.

(* ================================================================== *)
(* 5. no number is lost                                                *)
(* ================================================================== *)
(* the decimal form of a number below 1000 has at most three digits: '{:4d}' puts a blank in front of it *)
Lemma short_sweep : forallb (fun n => Nat.leb (String.length (Z_to_string n)) 3) (zrange 0 1000) = true.
Proof. vm_compute. reflexivity. Qed.
Lemma short_number : forall n, (0 <= n < 1000)%Z -> exists k, fmt_d 4 n = sp (S k) +++ Z_to_string n.
Proof.
  intros n Hn. assert (Hin : In n (zrange 0 1000)) by (apply zrange_In; lia).
  pose proof (proj1 (forallb_forall _ _) short_sweep n Hin) as H. cbv beta in H. apply Nat.leb_le in H.
  unfold fmt_d. exists (3 - String.length (Z_to_string n)). f_equal. f_equal. lia.
Qed.

Lemma hdr_tokens : forall mx n, (0 <= n < 1000)%Z -> In (Z_to_string n) (tokens_acc (hdr_line9 mx n) "").
Proof.
  intros mx n Hn. destruct (short_number n Hn) as [k Ek]. unfold hdr_line9. rewrite Ek.
  rewrite (tokens_snoc k _ (int_tok n)). apply in_or_app. right. now left.
Qed.

Lemma dal_written_lines9 : forall bsname els ecps t, dal_all_ok bsname els ecps -> dal_write_all bsname els ecps = inr t ->
  splitlines t = all_lines9 bsname els ecps.
Proof.
  intros bsname els ecps t H E. rewrite (write_all9 bsname els ecps H) in E. inversion E; subst.
  apply splitlines_unlines, all_lines9_good, H.
Qed.

Lemma dal_ecp_no_number_lost : dal_ecp_no_number_lost_stmt.
Proof.
  intros bsname els ecps t H E x [e [He Hx]]. rewrite (dal_written_lines9 bsname els ecps t H E).
  destruct H as [_ [_ [_ Hel]]]. rewrite Forall_forall in Hel. pose proof (Hel e He) as Hok.
  destruct e as [z [n pots]]. cbn [fst snd] in Hx.
  assert (Hsub : forall line, In line (ecp_el_lines9 (z, (n, pots))) -> In line (all_lines9 bsname els ecps)).
  { intros line Hl. unfold all_lines9, ecp_lines9, ecp_tail9. apply in_or_app. right. do 3 right. apply in_or_app. left.
    apply in_flat_map. eexists. split; [exact He | exact Hl]. }
  destruct Hx as [[-> Hn]|[p [Hp Hx]]].
  - exists (hdr_line9 (el_mx (z, (n, pots))) n). split; [apply Hsub; right; right; now left | apply hdr_tokens, Hn].
  - destruct Hok as [Hne [Hpok Hnd]]. destruct (written_order_ok pots Hne Hpok Hnd) as [_ [_ Hperm]].
    rewrite Forall_forall in Hpok. pose proof (Hpok p Hp) as Hpp.
    destruct (pot_facts p Hpp) as [_ [Ec [Hg [Hc [_ [_ [Hts _]]]]]]].
    destruct (trip_proj _ _ _ Hg Hc) as [P1 [P2 P3]]. fold (ptrip p) in P1, P2, P3.
    assert (Ht : exists tr, In tr (ptrip p) /\ In x (tokrow tr)).
    { destruct Hx as [Hx|[[c [Hcin Hx]]|[r [Hr ->]]]].
      - rewrite <- P2 in Hx. apply in_map_iff in Hx. destruct Hx as [[[a b] c] [<- Hin]]. eexists. split; [exact Hin|]. right. now left.
      - rewrite Ec in Hcin. destruct Hcin as [<-|[]]. rewrite <- P3 in Hx. apply in_map_iff in Hx.
        destruct Hx as [[[a b] c] [<- Hin]]. eexists. split; [exact Hin|]. right. right. now left.
      - rewrite <- P1 in Hr. apply in_map_iff in Hr. destruct Hr as [[[a b] c] [<- Hin]]. eexists. split; [exact Hin|]. now left. }
    destruct Ht as [tr [Htr Hxt]]. exists (erow9 (cellrow tr)). destruct (erow9_facts tr (Hts tr Htr)) as [_ [_ Htok]].
    split; [|rewrite Htok; exact Hxt].
    apply Hsub. unfold ecp_el_lines9. cbn [fst snd]. do 3 right. apply in_or_app. left. apply in_flat_map. exists p.
    split; [apply (Permutation_in _ Hperm), Hp|]. unfold pot_lines9, prows9. right. apply in_map, in_map, Htr.
Qed.

Lemma dal_ecp_glued_counterexample : dal_ecp_glued_counterexample_stmt.
Proof. eexists. split; [vm_compute; reflexivity|]. split; vm_compute; auto 10. Qed.

(* ================================================================== *)
(* 6. a concrete instance                                              *)
(* ================================================================== *)
Example dal_ecp_example : dal_ecp_example_stmt.
Proof.
  split; [|split; [|split; [|split]]]; try (vm_compute; reflexivity).
  unfold dal_all_ok. split; [reflexivity|]. split; [|split; [discriminate|]].
  - right. unfold dal_pre, dxe_els. split; [reflexivity|]. split; [discriminate|]. split.
    + cbn [map fst]. repeat constructor; cbn [In]; intros H; repeat (destruct H as [H|H]; [discriminate H|]); exact H.
    + repeat constructor; cbn [fst snd]; try lia; try discriminate;
        try (eexists; split; [reflexivity | lia]); try reflexivity.
  - constructor; [|constructor]. unfold dal_ecp_el_ok. split; [discriminate|]. split.
    + repeat constructor; cbn; try lia; try discriminate; try reflexivity;
        try (eexists; split; [reflexivity | lia]); try (eexists; split; reflexivity).
    + cbn [map pot_l p_am hd dxe_pot_11_0 dxe_pot_11_1 dxe_pot_11_2].
      repeat constructor; cbn [In]; intros H; repeat (destruct H as [H|H]; [discriminate H|]); exact H.
Qed.

Print Assumptions dal_all_write_total.
Print Assumptions dal_ecp_unreadable.
Print Assumptions dal_ecp_no_number_lost.
Print Assumptions dal_ecp_glued_counterexample.
Print Assumptions dal_ecp_example.

