(* Proofs of the statements of Proofs/MolproDefs.v: the electron part of the Molpro text written by write_molpro is read back
   by read_molpro as mpro_expected says. *)
From BSE Require Import Model.Val Model.Text Model.Num Model.Basis Model.Manip Model.Matrix Gen.GenLut Model.Lut Model.Elements
                        Model.Nwchem Model.G94 Model.Molpro Proofs.MatrixDefs Proofs.NwchemDefs Proofs.MolproDefs
                        Proofs.C20Finite.
From BSE Require Proofs.ElementsSpec.
From BSE Require Import Proofs.HeaderSpec Proofs.PruneFS Proofs.MatrixSpec Proofs.NwchemSpec Proofs.TurbomoleSpec.

Definition sapp_assoc := ElementsSpec.sapp_assoc.

(* ================================================================== *)
(* 1. a calculus for the backtracking matcher                          *)
(* ================================================================== *)
(* "m takes s to s' first": whenever the continuation succeeds on s' (with the captures d adds), this is the match *)
Definition gokm (m : string -> caps -> kont -> option caps) (s s' : string) (d : caps -> caps) : Prop :=
  forall c k res, k s' (d c) = Some res -> m s c k = Some res.
Definition gok (r : re) := gokm (rm r).
(* no way to match at the head of s, whatever follows *)
Definition fails (r : re) (s : string) : Prop := forall c k, rm r s c k = None.
Definition nohead (p : ascii -> bool) (s : string) : Prop :=
  match s with String c _ => p c = false | EmptyString => True end.
Definition same (c : caps) : caps := c.
Definition add (g x : string) (c : caps) : caps := c ++ [(g, x)].

Lemma gok_ext : forall r s s' d d', (forall c, d c = d' c) -> gok r s s' d -> gok r s s' d'.
Proof. intros r s s' d d' E H c k res Hk. apply H. now rewrite E. Qed.

Lemma gok_seq : forall a b s s1 s2 da db, gok a s s1 da -> gok b s1 s2 db -> gok (a ;; b) s s2 (fun c => db (da c)).
Proof. intros a b s s1 s2 da db Ha Hb c k res Hk. cbn [rm]. apply Ha. apply Hb. exact Hk. Qed.

Lemma gok_cls : forall p a t, p a = true -> gok (RCls p) (String a t) t same.
Proof. intros p a t Hp c k res Hk. cbn [rm]. rewrite Hp. exact Hk. Qed.

Lemma fails_cls : forall p s, nohead p s -> fails (RCls p) s.
Proof. intros p [|a t] H c k; cbn [rm]; [reflexivity|]. cbn in H. now rewrite H. Qed.

Lemma fails_seq : forall a b s, fails a s -> fails (a ;; b) s.
Proof. intros a b s H c k. cbn [rm]. apply H. Qed.

Lemma fails_cap : forall g a s, fails a s -> fails (RCap g a) s.
Proof. intros g a s H c k. cbn [rm]. apply H. Qed.

Lemma gok_opt_take : forall a s s' d, gok a s s' d -> gok (ROpt a) s s' d.
Proof. intros a s s' d H c k res Hk. cbn [rm]. now rewrite (H c k res Hk). Qed.

Lemma gok_opt_skip : forall a s, fails a s -> gok (ROpt a) s s same.
Proof. intros a s H c k res Hk. cbn [rm]. rewrite H. exact Hk. Qed.

Lemma slen_app : forall a b, String.length (a +++ b) = String.length a + String.length b.
Proof. induction a as [|x a IH]; intros b; cbn [String.append String.length]; [reflexivity | now rewrite IH]. Qed.

Lemma take_chars_app : forall x s, take_chars (String.length (x +++ s) - String.length s) (x +++ s) = x.
Proof.
  intros x s. rewrite slen_app. replace (String.length x + String.length s - String.length s) with (String.length x) by lia.
  induction x as [|a x IH]; cbn [String.append String.length take_chars].
  - destruct s; reflexivity.
  - now rewrite IH.
Qed.

Lemma gok_cap : forall g a x s', forall d, gok a (x +++ s') s' d -> gok (RCap g a) (x +++ s') s' (fun c => add g x (d c)).
Proof.
  intros g a x s' d H c k res Hk. cbn [rm]. apply H. rewrite take_chars_app. exact Hk.
Qed.

Lemma gok_end : gok REnd "" "" same.
Proof. intros c k res Hk. cbn [rm dollar]. exact Hk. Qed.

(* greedy loops *)
Definition star_ok (m : string -> caps -> kont -> option caps) (s s' : string) (d : caps -> caps) : Prop :=
  forall f c k res, String.length s < f -> k s' (d c) = Some res -> star_g m f s c k = Some res.

Lemma gok_star : forall a s s' d, star_ok (rm a) s s' d -> gok (RStar a) s s' d.
Proof. intros a s s' d H c k res Hk. cbn [rm]. apply H; [lia | exact Hk]. Qed.

Lemma star_ok_stop : forall m s, (forall c k, m s c k = None) -> star_ok m s s same.
Proof.
  intros m s H f c k res Hf Hk. destruct f as [|f]; [lia|]. cbn [star_g]. rewrite H. exact Hk.
Qed.

Lemma star_ok_step : forall m s s1 s2 d1 d2, gokm m s s1 d1 -> String.length s1 < String.length s ->
  star_ok m s1 s2 d2 -> star_ok m s s2 (fun c => d2 (d1 c)).
Proof.
  intros m s s1 s2 d1 d2 H1 Hlen H2 f c k res Hf Hk. destruct f as [|f]; [lia|]. cbn [star_g].
  rewrite (H1 c (fun s' c' => star_g m f s' c' k) res); [reflexivity|]. apply H2; [lia | exact Hk].
Qed.

(* x* over a class: all of the run x *)
Lemma star_cls : forall p x s', sall p x = true -> nohead p s' -> star_ok (rm (RCls p)) (x +++ s') s' same.
Proof.
  intros p; induction x as [|a x IH]; intros s' Hx Hs'.
  - cbn [String.append]. apply star_ok_stop. apply fails_cls. exact Hs'.
  - cbn [sall] in Hx. apply andb_true_iff in Hx. destruct Hx as [Ha Hx]. cbn [String.append].
    apply (star_ok_step (rm (RCls p)) (String a (x +++ s')) (x +++ s') s' same same).
    + apply gok_cls. exact Ha.
    + cbn [String.length]. lia.
    + apply IH; assumption.
Qed.

Lemma gok_star_cls : forall p x s', sall p x = true -> nohead p s' -> gok (RStar (RCls p)) (x +++ s') s' same.
Proof. intros. apply gok_star, star_cls; assumption. Qed.

(* x+ over a class *)
Lemma gok_plus_cls : forall p x s', x <> "" -> sall p x = true -> nohead p s' -> gok (RPlus (RCls p)) (x +++ s') s' same.
Proof.
  intros p [|a x] s' Hne Hx Hs'; [congruence|]. cbn [sall] in Hx. apply andb_true_iff in Hx. destruct Hx as [Ha Hx].
  unfold RPlus. cbn [String.append].
  apply (gok_seq (RCls p) (RStar (RCls p)) _ (x +++ s') s' same same); [now apply gok_cls | now apply gok_star_cls].
Qed.

(* lazy loops in front of b: no pass, or one pass over one character on which b cannot start *)
Lemma gok_lazy0 : forall a b s s' d, gok b s s' d -> gok (RLazy a ;; b) s s' d.
Proof. intros a b s s' d H c k res Hk. cbn [rm lazy_g]. now rewrite (H c k res Hk). Qed.

Lemma gok_lazy1 : forall p b ch s s' d, p ch = true -> fails b (String ch s) -> gok b s s' d ->
  gok (RLazy (RCls p) ;; b) (String ch s) s' d.
Proof.
  intros p b ch s s' d Hp Hf H c k res Hk. cbn [rm]. cbn [String.length lazy_g]. rewrite Hf. cbn [rm]. rewrite Hp.
  cbn [lazy_g]. now rewrite (H c k res Hk).
Qed.

(* a lazy loop over a class in front of b fails where neither b nor the class can start *)
Lemma fails_lazy : forall p b ch t, p ch = false -> fails b (String ch t) -> fails (RLazy (RCls p) ;; b) (String ch t).
Proof. intros p b ch t Hp Hf c k. cbn [rm]. cbn [String.length lazy_g]. rewrite Hf. cbn [rm]. now rewrite Hp. Qed.

(* ================================================================== *)
(* 2. helpers.floating_re_str                                          *)
(* ================================================================== *)
Lemma skip_digits_split : forall s, exists d, s = d +++ skip_digits s /\ sall is_digit d = true /\ nohead is_digit (skip_digits s).
Proof.
  induction s as [|a s [d [E [Hd Hn]]]].
  - exists "". repeat split.
  - cbn [skip_digits]. destruct (is_digit a) eqn:Ea.
    + exists (String a d). cbn [String.append sall]. rewrite <- E, Ea, Hd. repeat split. exact Hn.
    + exists "". repeat split. exact Ea.
Qed.

Definition sign_str (g : string) : Prop := g = "" \/ g = "-" \/ g = "+".
Lemma skip_sign_split : forall s, exists g, s = g +++ skip_sign s /\ sign_str g /\
  (g = "" -> nohead is_sign s).
Proof.
  intros [|a s]; [exists ""; repeat split; now left|]. cbn [skip_sign]. unfold nohead, is_sign.
  destruct (Ascii.eqb_spec a "-") as [->|N1]; [exists "-"; repeat split; [right; now left | discriminate]|].
  destruct (Ascii.eqb_spec a "+") as [->|N2]; [exists "+"; repeat split; [right; now right | discriminate]|].
  exists "". repeat split; now left.
Qed.

Lemma digit_not_sign : forall c, is_digit c = true -> is_sign c = false.
Proof. intros c H. all_chars c; try reflexivity; discriminate H. Qed.

(* what may follow a number in a line: nothing, or a comma *)
Definition sep_rest (s : string) : Prop := s = "" \/ exists t, s = String "," t.
Lemma sep_nohead : forall p s, p ","%char = false -> sep_rest s -> nohead p s.
Proof. intros p s Hp [->|[t ->]]; [exact I | exact Hp]. Qed.

Definition re_sign := ROpt (RCls is_sign).
Lemma gok_sign : forall g s, sign_str g -> (g = "" -> nohead is_sign s) -> gok re_sign (g +++ s) s same.
Proof.
  intros g s [->|[->| ->]] Hn.
  - apply gok_opt_skip, fails_cls, Hn. reflexivity.
  - apply gok_opt_take. now apply gok_cls.
  - apply gok_opt_take. now apply gok_cls.
Qed.

Definition re_expo : re := RCls is_expmark ;; ROpt (RCls is_sign) ;; RPlus c_digit.

(* the tail of a floating point literal after the point: digits and an optional exponent *)
Lemma gok_fl_tail : forall t rest, fl_tail t = true -> sep_rest rest ->
  gok (RStar c_digit ;; ROpt re_expo) (t +++ rest) rest same.
Proof.
  intros t rest Ht Hr. unfold fl_tail in Ht. destruct (skip_digits_split t) as [d2 [E2 [Hd2 Hn2]]].
  destruct (skip_digits t) as [|m r] eqn:Esk.
  - (* no exponent *)
    rewrite E2, sapp_assoc. cbn [String.append].
    apply (gok_seq (RStar c_digit) (ROpt re_expo) _ rest rest same same).
    + apply gok_star_cls; [exact Hd2 | now apply sep_nohead].
    + apply gok_opt_skip. apply fails_seq, fails_cls. now apply sep_nohead.
  - fold (isexp m) in Ht. destruct (isexp m) eqn:Em; [|discriminate].
    destruct (skip_sign_split r) as [g [Eg [Hg Hgn]]].
    destruct (skip_sign r) as [|c2 r2] eqn:Ess; [discriminate|].
    apply andb_true_iff in Ht. destruct Ht as [Hc2 Ht].
    destruct (skip_digits_split r2) as [d3 [E3 [Hd3 _]]].
    destruct (skip_digits r2) eqn:Esk2; [|discriminate]. rewrite sapp_nil_r in E3. subst r2.
    rewrite E2, sapp_assoc. cbn [String.append].
    apply (gok_seq (RStar c_digit) (ROpt re_expo) _ (String m (r +++ rest)) rest same same).
    + apply gok_star_cls; [exact Hd2 | exact Hn2].
    + apply gok_opt_take. unfold re_expo.
      apply (gok_seq (RCls is_expmark) _ _ (r +++ rest) rest same same); [apply gok_cls; exact Em|].
      rewrite Eg, sapp_assoc.
      apply (gok_seq (ROpt (RCls is_sign)) _ _ (String c2 d3 +++ rest) rest same same).
      * apply gok_sign; [exact Hg|]. intros ->. cbn. now apply digit_not_sign.
      * apply (gok_plus_cls is_digit (String c2 d3) rest); [discriminate | cbn [sall]; now rewrite Hc2, Hd3 | now apply sep_nohead].
Qed.

Lemma gok_floating : forall e rest, is_floating e = true -> sep_rest rest -> gok re_floating (e +++ rest) rest same.
Proof.
  intros e rest He Hr. rewrite is_floating_unfold in He.
  destruct (skip_sign_split e) as [g [Eg [Hg Hgn]]].
  destruct (skip_digits_split (skip_sign e)) as [d1 [E1 [Hd1 Hn1]]].
  destruct (skip_digits (skip_sign e)) as [|p t] eqn:Esk; [discriminate|].
  destruct (Ascii.eqb_spec p ".") as [->|N]; [|discriminate].
  rewrite Eg, E1, !sapp_assoc. cbn [String.append]. unfold re_floating.
  apply (gok_seq re_sign _ _ (d1 +++ String "." (t +++ rest)) rest same same).
  - apply gok_sign; [exact Hg|]. intros ->. cbn [String.append] in Eg. rewrite <- Eg in E1.
    destruct d1 as [|a d1]; [reflexivity|]. cbn [sall] in Hd1. apply andb_true_iff in Hd1. cbn. now apply digit_not_sign.
  - apply (gok_seq (RStar c_digit) _ _ (String "." (t +++ rest)) rest same same); [now apply gok_star_cls|].
    apply (gok_seq (c_chr ".") _ _ (t +++ rest) rest same same); [now apply gok_cls|].
    apply gok_fl_tail; assumption.
Qed.

Lemma floating_head : forall e, is_floating e = true -> exists a t, e = String a t /\ fchar a = true.
Proof.
  intros e H. pose proof (floating_chars e H) as Hc. destruct e as [|a t]; [discriminate H|].
  exists a, t. cbn [sall] in Hc. apply andb_true_iff in Hc. now split.
Qed.

(* ================================================================== *)
(* 3. the list of numbers `, e1, e2, ...` at the end of a line          *)
(* ================================================================== *)
Definition items (es : list string) : string := String.concat "" (map (fun e => ", " +++ e) es).
Lemma items_cons : forall e es, items (e :: es) = ", " +++ e +++ items es.
Proof. intros e es. unfold items. cbn [map]. destruct es; cbn [String.concat map]; rewrite ?sapp_assoc, ?sapp_nil_r; reflexivity. Qed.
Lemma items_sep : forall es, sep_rest (items es).
Proof. intros [|e es]; [now left|]. right. rewrite items_cons. cbn [String.append]. eauto. Qed.

Lemma fails_item_nil : forall g, fails (re_number_item g) "".
Proof. intros g c k. reflexivity. Qed.

Lemma gok_item : forall g e rest, is_floating e = true -> sep_rest rest ->
  gok (re_number_item g) (", " +++ e +++ rest) rest (add g e).
Proof.
  intros g e rest He Hr. destruct (floating_head e He) as [a [t [Ee Ha]]]. unfold re_number_item. cbn [String.append].
  apply (gok_ext _ _ _ (fun c => same ((fun c' => same ((fun c'' => add g e (same c'')) c')) (same c)))); [reflexivity|].
  apply (gok_seq (ROpt (c_chr ",")) _ _ (String " " (e +++ rest)) rest same _); [apply gok_opt_take; now apply gok_cls|].
  apply (gok_seq (RStar c_space) _ _ (e +++ rest) rest same _).
  { apply (gok_star_cls is_space " " (e +++ rest)); [reflexivity|]. rewrite Ee. cbn. now apply fchar_not_space. }
  apply (gok_seq (RCap g re_floating) _ _ rest rest (fun c => add g e (same c)) same).
  - apply gok_cap. now apply gok_floating.
  - apply (gok_star_cls is_space "" rest); [reflexivity | now apply sep_nohead].
Qed.

Definition adds (g : string) (es : list string) (c : caps) : caps := c ++ map (pair g) es.

Lemma star_items : forall g es, Forall floating es -> star_ok (rm (re_number_item g)) (items es) "" (adds g es).
Proof.
  intros g; induction es as [|e es IH]; intros H.
  - intros f c k res Hf Hk. unfold adds in Hk. cbn [map] in Hk. rewrite app_nil_r in Hk.
    revert f c k res Hf Hk. apply (star_ok_stop _ ""). apply fails_item_nil.
  - inversion H as [|? ? He Hes]; subst. intros f c k res Hf Hk.
    apply (star_ok_step (rm (re_number_item g)) (items (e :: es)) (items es) "" (add g e) (adds g es)); try assumption.
    + rewrite items_cons. apply gok_item; [exact He | apply items_sep].
    + rewrite items_cons, !slen_app. cbn. lia.
    + now apply IH.
    + unfold adds, add in *. cbn [map] in Hk. rewrite <- app_assoc. exact Hk.
Qed.

Lemma gok_numbers_tail : forall g e es, Forall floating (e :: es) ->
  gok (re_numbers_tail g) (items (e :: es)) "" (adds g (e :: es)).
Proof.
  intros g e es H. inversion H as [|? ? He Hes]; subst. unfold re_numbers_tail, RPlus.
  apply (gok_ext _ _ _ (fun c => same ((fun c' => adds g es (add g e c')) c))).
  { intros c. unfold same, adds, add. cbn [map]. now rewrite <- app_assoc. }
  apply (gok_seq _ _ _ "" "" (fun c' => adds g es (add g e c')) same).
  - apply (gok_seq (re_number_item g) _ _ (items es) "" (add g e) (adds g es)).
    + rewrite items_cons. apply gok_item; [exact He | apply items_sep].
    + apply gok_star, star_items, Hes.
  - apply gok_lazy0, gok_end.
Qed.

(* a blank before the list: the list cannot start there *)
Lemma fails_tail_blank : forall g t, fails (re_numbers_tail g) (String " " (String "," t)).
Proof. intros g t c k. reflexivity. Qed.

(* ================================================================== *)
(* 4. the two kinds of lines the writer prints for a shell              *)
(* ================================================================== *)
Definition shell_line (amc : ascii) (sym : string) (es : list string) : string :=
  String amc (", " +++ sym +++ " " +++ items es).
Definition contr_line (a b : nat) (cs : list string) : string :=
  "c, " +++ nat_str a +++ "." +++ nat_str b +++ items cs.

Lemma shell_line_gok : forall amc sym e es, is_am_letter amc = true -> sym <> "" -> sall is_word sym = true ->
  Forall floating (e :: es) ->
  gok element_shell_re (shell_line amc sym (e :: es)) ""
      (fun c => adds "exp" (e :: es) (add "sym" sym (add "am" (String amc "") c))).
Proof.
  intros amc sym e es Ham Hne Hw Hfl. unfold element_shell_re, shell_line. cbn [String.append].
  apply gok_lazy0.
  eapply gok_ext; [|eapply gok_seq].
  2:{ apply (gok_cap "am" (RCls is_am_letter) (String amc "") _ same). cbn [String.append]. apply gok_cls. exact Ham. }
  2:{ apply gok_lazy0. eapply gok_seq; [apply gok_opt_take; now apply gok_cls|].
      apply gok_lazy1; [reflexivity | |].
      { apply fails_seq, fails_cap. unfold RPlus. apply fails_seq, fails_cls. reflexivity. }
      eapply gok_seq.
      { apply (gok_cap "sym" (RPlus c_word) sym _ same). apply gok_plus_cls; [exact Hne | exact Hw | reflexivity]. }
      apply gok_lazy1; [reflexivity | |].
      { rewrite items_cons. cbn [String.append]. apply fails_tail_blank. }
      apply gok_numbers_tail. exact Hfl. }
  intros c. reflexivity.
Qed.

Lemma captures_app : forall g a b, captures g (a ++ b) = captures g a ++ captures g b.
Proof. intros g a b. unfold captures. now rewrite filter_app, map_app. Qed.
Lemma captures_same : forall g es, captures g (map (pair g) es) = es.
Proof.
  intros g; induction es as [|e es IH]; [reflexivity|]. unfold captures in *. cbn [map filter fst]. rewrite String.eqb_refl.
  cbn [map snd]. now rewrite IH.
Qed.
Lemma captures_other : forall g g' es, String.eqb g' g = false -> captures g (map (pair g') es) = [].
Proof.
  intros g g' es H; induction es as [|e es IH]; [reflexivity|]. unfold captures in *. cbn [map filter fst]. rewrite H. exact IH.
Qed.

Lemma shell_line_match : forall amc sym e es, is_am_letter amc = true -> sym <> "" -> sall is_word sym = true ->
  Forall floating (e :: es) ->
  exists c, re_match element_shell_re (shell_line amc sym (e :: es)) = Some c /\
            captures "am" c = [String amc ""] /\ captures "sym" c = [sym] /\ captures "exp" c = e :: es.
Proof.
  intros amc sym e es Ham Hne Hw Hfl. eexists. split.
  - unfold re_match. apply (shell_line_gok amc sym e es Ham Hne Hw Hfl). reflexivity.
  - unfold adds, add. rewrite !captures_app, captures_same.
    rewrite !(captures_other _ "exp") by reflexivity. repeat split; reflexivity.
Qed.

Lemma nat_str_shape : forall n, exists a t, nat_str n = String a t /\ sall is_digit (nat_str n) = true.
Proof.
  intros n. pose proof (nat_str_ne n) as Hne. pose proof (nat_str_digits n) as Hd.
  destruct (nat_str n) as [|a t]; [congruence|]. exists a, t. now split.
Qed.

Lemma contr_line_gok : forall a b e cs, Forall floating (e :: cs) ->
  gok contraction_re (contr_line a b (e :: cs)) ""
      (fun c => adds "coeff" (e :: cs) (add "end" (nat_str b) (add "start" (nat_str a) c))).
Proof.
  intros a b e cs Hfl. unfold contraction_re, contr_line. cbn [String.append].
  destruct (nat_str_shape a) as [a0 [ta [Ea Hda]]]. destruct (nat_str_shape b) as [b0 [tb [Eb Hdb]]].
  apply gok_lazy0.
  eapply gok_ext; [|eapply gok_seq; [now apply gok_cls|]].
  2:{ apply gok_lazy0. eapply gok_seq; [apply gok_opt_take; now apply gok_cls|].
      apply gok_lazy1; [reflexivity | |].
      { apply fails_seq, fails_cap. unfold RPlus. apply fails_seq, fails_cls. reflexivity. }
      eapply gok_seq.
      { apply (gok_cap "start" (RPlus c_digit) (nat_str a) _ same). apply gok_plus_cls; [apply nat_str_ne | exact Hda | reflexivity]. }
      cbn [String.append].
      eapply gok_seq; [now apply gok_cls|].
      eapply gok_seq.
      { apply (gok_cap "end" (RPlus c_digit) (nat_str b) _ same). apply gok_plus_cls; [apply nat_str_ne | exact Hdb |].
        rewrite items_cons. reflexivity. }
      apply gok_lazy0. apply gok_numbers_tail. exact Hfl. }
  intros c. reflexivity.
Qed.

Lemma contr_line_match : forall a b e cs, Forall floating (e :: cs) ->
  exists c, re_match contraction_re (contr_line a b (e :: cs)) = Some c /\
            captures "start" c = [nat_str a] /\ captures "end" c = [nat_str b] /\ captures "coeff" c = e :: cs.
Proof.
  intros a b e cs Hfl. eexists. split.
  - unfold re_match. apply (contr_line_gok a b e cs Hfl). reflexivity.
  - unfold adds, add. rewrite !captures_app, captures_same.
    rewrite !(captures_other _ "coeff") by reflexivity. repeat split; reflexivity.
Qed.

(* lines on which an expression cannot even start *)
Lemma contraction_re_head : forall a t, Ascii.eqb "c" a = false -> is_space a = false -> re_match contraction_re (String a t) = None.
Proof.
  intros a t H1 H2. unfold re_match, contraction_re. apply fails_lazy; [exact H2|]. apply fails_seq, fails_cls. exact H1.
Qed.
Lemma shell_re_head : forall a t, is_am_letter a = false -> is_space a = false -> re_match element_shell_re (String a t) = None.
Proof.
  intros a t H1 H2. unfold re_match, element_shell_re. apply fails_lazy; [exact H2|]. apply fails_seq, fails_cap, fails_cls. exact H1.
Qed.
Lemma fails_star_cls : forall p b a t, p a = false -> fails b (String a t) -> fails (RStar (RCls p) ;; b) (String a t).
Proof. intros p b a t Hp Hf c k. cbn [rm]. cbn [String.length star_g]. cbn [rm]. rewrite Hp. apply Hf. Qed.
Lemma ecp_re_head : forall a t, Ascii.eqb "E" a = false -> is_space a = false -> re_match ecp_re (String a t) = None.
Proof.
  intros a t H1 H2. unfold re_match, ecp_re. apply fails_star_cls; [exact H2|]. apply fails_seq, fails_cls. exact H1.
Qed.

(* ================================================================== *)
(* 5. find_range                                                       *)
(* ================================================================== *)
Lemma idx_spec : forall l i, index_true l = Some i ->
  i < List.length l /\ nth i l false = true /\ forall j, j < i -> nth j l false = false.
Proof.
  induction l as [|b l IH]; intros i H; [discriminate|]. cbn [index_true] in H. destruct b.
  - injection H as <-. cbn. repeat split; [lia|]. intros j Hj. lia.
  - destruct (index_true l) as [i'|]; [|discriminate]. injection H as <-. destruct (IH i' eq_refl) as [H1 [H2 H3]].
    cbn [List.length nth]. repeat split; [lia | exact H2|]. intros [|j] Hj; [reflexivity|]. apply H3. lia.
Qed.
Lemma idx_none : forall l, index_true l = None -> forall j, nth j l false = false.
Proof.
  induction l as [|b l IH]; intros H j; [destruct j; reflexivity|]. cbn [index_true] in H. destruct b; [discriminate|].
  destruct (index_true l); [discriminate|]. destruct j; [reflexivity|]. cbn [nth]. now apply IH.
Qed.
Lemma idx_some : forall l, In true l -> exists i, index_true l = Some i.
Proof.
  induction l as [|b l IH]; intros H; [destruct H|]. cbn [index_true]. destruct b; [eauto|].
  destruct H as [H|H]; [discriminate|]. destruct (IH H) as [i ->]. cbn. eauto.
Qed.

Lemma idx_rev : forall l j, index_true (rev l) = Some j ->
  j < List.length l /\ nth (List.length l - j - 1) l false = true /\
  forall i, List.length l - j - 1 < i -> nth i l false = false.
Proof.
  intros l j H. destruct (idx_spec _ _ H) as [H1 [H2 H3]]. rewrite rev_length in H1.
  split; [exact H1|]. split.
  - rewrite rev_nth in H2 by exact H1. replace (List.length l - j - 1) with (List.length l - S j) by lia. exact H2.
  - intros i Hi. destruct (Nat.lt_ge_cases i (List.length l)) as [Hlt|Hge]; [|now apply nth_overflow].
    specialize (H3 (List.length l - S i)). rewrite rev_nth in H3 by lia.
    replace (List.length l - S (List.length l - S i)) with i in H3 by lia. apply H3. lia.
Qed.

Lemma mapM_nth : forall (A : Type) (f : A -> res bool) l r, mapM f l = inr r ->
  List.length r = List.length l /\ forall i x, nth_error l i = Some x -> f x = inr (nth i r false).
Proof.
  intros A f; induction l as [|a l IH]; intros r H.
  - cbn in H. injection H as <-. split; [reflexivity|]. intros [|i] x Hx; discriminate Hx.
  - cbn [mapM] in H. destruct (f a) as [e|b] eqn:Ea; [discriminate|]. unfold bind in H.
    destruct (mapM f l) as [e|bs] eqn:El; [discriminate|]. injection H as <-. destruct (IH bs eq_refl) as [H1 H2].
    split; [cbn; now rewrite H1|]. intros [|i] x Hx; cbn in Hx |- *; [now injection Hx as <- | now apply H2].
Qed.

Lemma mpro_find_range : mpro_find_range_stmt.
Proof.
  intros c first last H. unfold find_range in H. destruct (mapM float_nonzero c) as [e|nz] eqn:Em; [discriminate|].
  unfold bind in H. destruct (mapM_nth _ _ _ _ Em) as [Hlen Hnth].
  destruct (index_true nz) as [i|] eqn:Ei; [|discriminate]. destruct (index_true (rev nz)) as [j|] eqn:Ej; [|discriminate].
  injection H as <- <-. destruct (idx_spec _ _ Ei) as [A1 [A2 A3]]. destruct (idx_rev _ _ Ej) as [B1 [B2 B3]].
  rewrite Hlen in *.
  assert (Hle : i <= List.length c - j - 1).
  { destruct (Nat.le_gt_cases i (List.length c - j - 1)) as [Hl|Hg]; [exact Hl|]. rewrite (B3 i Hg) in A2. discriminate. }
  split; [lia|].
  assert (Hget : forall n, n < List.length c -> exists x, nth_error c n = Some x).
  { intros n Hn. destruct (nth_error c n) eqn:E; [eauto|]. apply nth_error_None in E. lia. }
  split; [|split].
  - destruct (Hget i A1) as [x Hx]. exists x. split; [exact Hx|]. rewrite (Hnth i x Hx), A2. reflexivity.
  - destruct (Hget (List.length c - j - 1)) as [x Hx]; [lia|]. exists x. split; [exact Hx|]. rewrite (Hnth _ x Hx), B2. reflexivity.
  - intros n x Hx [Hn|Hn]; rewrite (Hnth n x Hx); [now rewrite A3 | now rewrite B3].
Qed.

Definition col_ok (c : list string) : Prop :=
  Forall floating c /\ Forall float_ok c /\ exists x, In x c /\ float_nonzero x = inr true.

Lemma find_range_total : forall c, Forall float_ok c -> (exists x, In x c /\ float_nonzero x = inr true) ->
  exists first last, find_range c = inr (first, last).
Proof.
  intros c Hf [x [Hx Hnz]]. unfold find_range.
  assert (Em : mapM float_nonzero c = inr (map (fun y => match float_nonzero y with inr b => b | inl _ => false end) c)).
  { apply mapM_map_ok. intros y Hy. rewrite Forall_forall in Hf. specialize (Hf y Hy). unfold float_ok in Hf.
    unfold float_nonzero. destruct (parse_num y); [reflexivity | congruence]. }
  rewrite Em. unfold bind.
  assert (Hin : In true (map (fun y => match float_nonzero y with inr b => b | inl _ => false end) c)).
  { apply in_map_iff. exists x. now rewrite Hnz. }
  destruct (idx_some _ Hin) as [i ->]. assert (Hin' : In true (rev (map (fun y => match float_nonzero y with inr b => b | inl _ => false end) c))) by (now apply -> in_rev).
  destruct (idx_some _ Hin') as [j ->]. eauto.
Qed.

Lemma in_firstn : forall (A : Type) n (l : list A) x, In x (firstn n l) -> In x l.
Proof. intros A; induction n as [|n IH]; intros [|a l] x H; cbn in *; try contradiction. destruct H; [now left | right; now apply IH]. Qed.
Lemma in_skipn : forall (A : Type) n (l : list A) x, In x (skipn n l) -> In x l.
Proof. intros A; induction n as [|n IH]; intros [|a l] x H; cbn in *; try contradiction; auto. Qed.

(* what is printed is not empty *)
Lemma slice_length : forall (A : Type) first last (l : list A), first <= last < List.length l ->
  List.length (slice_incl first last l) = S last - first.
Proof. intros A first last l H. unfold slice_incl. rewrite firstn_length, skipn_length. lia. Qed.

Lemma col_range : forall c, col_ok c ->
  find_range c = inr (mpro_range c) /\ fst (mpro_range c) <= snd (mpro_range c) < List.length c /\
  exists e cs, mpro_printed c = e :: cs /\ Forall floating (e :: cs).
Proof.
  intros c [Hfl [Hf Hnz]]. destruct (find_range_total c Hf Hnz) as [first [last E]].
  destruct (mpro_find_range c first last E) as [Hle _]. unfold mpro_printed, mpro_range. rewrite E. cbn [fst snd].
  split; [reflexivity|]. split; [exact Hle|].
  pose proof (slice_length _ first last c Hle) as Hlen.
  assert (Hsub : Forall floating (slice_incl first last c)).
  { rewrite Forall_forall in *. intros x Hx. apply Hfl. unfold slice_incl in Hx. apply in_firstn in Hx.
    eapply in_skipn. exact Hx. }
  destruct (slice_incl first last c) as [|e cs]; [cbn [List.length] in Hlen; lia|]. eauto.
Qed.

(* ================================================================== *)
(* 6. finite facts about the tables of lut.py                          *)
(* ================================================================== *)
Definition mp_amc (l : Z) : ascii := match snth (Z.to_nat l) "spdfghik" with Some c => c | None => "s"%char end.
Lemma am8_facts : forall l, (0 <= l < 8)%Z ->
  amint_to_char [l] false false = inr (String (mp_amc l) "") /\ lower (String (mp_amc l) "") = String (mp_amc l) "" /\
  is_am_letter (mp_amc l) = true /\ amchar_to_int (String (mp_amc l) "") false = inr [l] /\
  Ascii.eqb "c" (mp_amc l) = false /\ is_space (mp_amc l) = false /\ nobd (mp_amc l) = true /\
  sany (Ascii.eqb (mp_amc l)) "!*" = false.
Proof.
  intros l Hl.
  assert (H : (l = 0 \/ l = 1 \/ l = 2 \/ l = 3 \/ l = 4 \/ l = 5 \/ l = 6 \/ l = 7)%Z) by lia.
  repeat (destruct H as [->|H]; [vm_compute; repeat split; reflexivity|]). subst l. vm_compute; repeat split; reflexivity.
Qed.

Definition mp_sym (z : Z) : string := upper (symlo z).
Definition mp_name (z : Z) : string := match element_name_from_Z z false with inr s => s | inl _ => "" end.
Definition mp_el_good (z : Z) : bool :=
  match element_sym_from_Z z false, element_name_from_Z z false with
  | inr s, inr n =>
    let u := upper s in
    negb (is_empty u) && sall is_alpha u && sall is_word u && negb (int_like u) &&
    res_eqb Z.eqb (element_Z_from_sym u) z && sall nobd n
  | _, _ => false
  end.
Lemma mp_el_sweep : forallb mp_el_good (zrange 1 120) = true.
Proof. vm_compute. reflexivity. Qed.
Lemma mp_el_facts : forall z, (1 <= z <= 120)%Z ->
  element_sym_from_Z z false = inr (symlo z) /\ element_name_from_Z z false = inr (mp_name z) /\
  mp_sym z <> "" /\ sall is_alpha (mp_sym z) = true /\ sall is_word (mp_sym z) = true /\ int_like (mp_sym z) = false /\
  element_Z_from_sym (mp_sym z) = inr z /\ sall nobd (mp_name z) = true.
Proof.
  intros z Hz. assert (Hin : In z (zrange 1 120)) by (apply zrange_In; lia).
  pose proof (proj1 (forallb_forall _ _) mp_el_sweep z Hin) as H. unfold mp_el_good, mp_sym, symlo, mp_name in *.
  destruct (element_sym_from_Z z false) as [e|s]; [discriminate H|].
  destruct (element_name_from_Z z false) as [e|n]; [discriminate H|].
  rewrite !andb_true_iff in H. destruct H as [[[[[H1 H2] H3] H4] H5] H6].
  repeat split; auto using res_eqb_Z.
  - intros E. rewrite E in H1. discriminate H1.
  - now apply negb_true_iff.
Qed.

(* ================================================================== *)
(* 7. the lines the writer prints                                      *)
(* ================================================================== *)
Definition cline (c : list string) : string :=
  contr_line (S (fst (mpro_range c))) (S (snd (mpro_range c))) (mpro_printed c).
Definition sh_lines (sym : string) (s : sshell) : list string :=
  shell_line (mp_amc (hd 0%Z (am s))) sym (exps s) :: map cline (coefs s).
Definition mp_cs (shs : list sshell) : string :=
  match contraction_string (Some (map nw_cshell shs)) false with inr c => c | inl _ => "" end.
Definition el_plines (zs : Z * list sshell) : list string := flat_map (sh_lines (mp_sym (fst zs))) (snd zs).
Definition el_lines (zs : Z * list sshell) : list string :=
  "!" :: ("! " +++ pad20 (mp_name (fst zs)) +++ " " +++ mp_cs (snd zs)) :: el_plines zs.
Definition all_lines (harm : string) (els : list (Z * list sshell)) : list string :=
  match els with
  | [] => [harm]
  | _ => harm :: "basis={" :: flat_map el_lines els ++ ["}"]
  end.

Lemma sjoin_items : forall e es, ", " +++ sjoin ", " (e :: es) = items (e :: es).
Proof.
  intros e es; revert e; induction es as [|x es IH]; intros e.
  - rewrite items_cons. unfold items. cbn. now rewrite sapp_nil_r.
  - rewrite items_cons, <- IH. cbn [sjoin]. reflexivity.
Qed.

Lemma shell_cols : forall s, mpro_shell_ok s -> Forall col_ok (coefs s).
Proof.
  intros s [_ [_ [_ [_ [H1 [H2 H3]]]]]]. rewrite Forall_forall in *. intros c Hc. repeat split; auto.
Qed.

Lemma write_contraction_line : forall c, col_ok c -> mpro_write_contraction c = inr (cline c +++ nl1).
Proof.
  intros c Hc. destruct (col_range c Hc) as [E [_ [e [cs [Ep _]]]]]. unfold mpro_write_contraction, cline, contr_line.
  rewrite E. unfold bind. unfold mpro_printed in *. destruct (mpro_range c) as [first last]. cbn [fst snd] in *.
  rewrite Ep, <- sjoin_items. rewrite !sapp_assoc. reflexivity.
Qed.

Lemma write_shell_lines : forall sym s, mpro_shell_ok s -> mpro_write_shell sym s = inr (unlines (sh_lines sym s)).
Proof.
  intros sym s H. pose proof (shell_cols s H) as Hcols. destruct H as [Hne [[l [El Hl]] _]].
  destruct (am8_facts l Hl) as [Ea [Elo _]]. unfold mpro_write_shell, sh_lines. rewrite El, Ea. unfold bind. cbn [hd].
  rewrite (mapM_map_ok _ _ _ (fun c => cline c +++ nl1)).
  2:{ intros c Hc. apply write_contraction_line. rewrite Forall_forall in Hcols. now apply Hcols. }
  rewrite Elo, unlines_cons. unfold unlines at 1. rewrite map_map. unfold shell_line.
  destruct (exps s) as [|e es]; [congruence|]. rewrite <- sjoin_items. cbn [String.append]. rewrite !sapp_assoc. reflexivity.
Qed.

Definition el_ok (zs : Z * list sshell) : Prop := (1 <= fst zs <= 120)%Z /\ snd zs <> [] /\ Forall mpro_shell_ok (snd zs).

Lemma mp_cs_facts : forall shs, Forall mpro_shell_ok shs ->
  contraction_string (Some (map nw_cshell shs)) false = inr (mp_cs shs) /\ sall nobd (mp_cs shs) = true.
Proof.
  intros shs H.
  assert (Hm : cm_ok (sort_cmap (cmap (map nw_cshell shs)))).
  { apply sort_cmap_ok. unfold cmap. apply cmap_ok; [|constructor].
    rewrite Forall_forall in *. intros sh Hin. apply in_map_iff in Hin. destruct Hin as [s [<- Hs]].
    unfold nw_cshell. cbn [fst]. destruct (H s Hs) as [_ [[l [El Hl]] _]]. rewrite El. constructor; [lia | constructor]. }
  destruct (cstr_parts_ok _ "" "" Hm eq_refl eq_refl) as [p [c [E [Hp Hc]]]].
  assert (Ec : contraction_string (Some (map nw_cshell shs)) false = inr ("(" +++ p +++ ") -> [" +++ c +++ "]")).
  { unfold contraction_string. rewrite E. reflexivity. }
  unfold mp_cs. rewrite Ec. split; [reflexivity|]. rewrite !sall_app, Hp, Hc. reflexivity.
Qed.

Lemma write_element_lines : forall zs, el_ok zs -> mpro_write_element zs = inr (unlines (el_lines zs)).
Proof.
  intros [z shs] [Hz [_ Hs]]. cbn [fst snd] in *. destruct (mp_el_facts z Hz) as [Es [En _]].
  destruct (mp_cs_facts shs Hs) as [Ec _]. unfold mpro_write_element. rewrite Es, En, Ec. unfold bind.
  rewrite (mapM_map_ok _ _ _ (fun s => unlines (sh_lines (mp_sym z) s))).
  2:{ intros s Hin. apply write_shell_lines. rewrite Forall_forall in Hs. now apply Hs. }
  rewrite unlines_flat_map. unfold el_lines, el_plines. cbn [fst snd]. rewrite !unlines_cons, !sapp_assoc. reflexivity.
Qed.

Lemma mpro_ok_els : forall harm els, mpro_ok harm els -> Forall el_ok els.
Proof. intros harm els [_ [_ H]]. exact H. Qed.

Lemma write_electron_lines : forall harm els, mpro_ok harm els ->
  mpro_write_electron harm els = inr (unlines (all_lines harm els)).
Proof.
  intros harm els H. pose proof (mpro_ok_els harm els H) as Hel. unfold mpro_write_electron, all_lines.
  destruct els as [|zs els]; [unfold unlines; cbn [map String.concat]; rewrite ?sapp_nil_r; reflexivity|].
  rewrite (mapM_map_ok _ _ _ (fun zs => unlines (el_lines zs))).
  2:{ intros x Hin. apply write_element_lines. rewrite Forall_forall in Hel. now apply Hel. }
  unfold bind. rewrite unlines_flat_map, !unlines_cons, unlines_app. unfold unlines at 3. cbn [map String.concat].
  rewrite ?sapp_assoc. reflexivity.
Qed.

Lemma mpro_write_total : mpro_write_total_stmt.
Proof. intros harm els H. eexists. apply write_electron_lines, H. Qed.

(* ================================================================== *)
(* 8. the lines are complete lines, and survive prune_lines             *)
(* ================================================================== *)
Lemma floating_nobd : forall e, floating e -> sall nobd e = true.
Proof.
  intros e H. apply (sall_impl fchar); [|now apply floating_chars].
  intros c Hc. apply nobd_of_ascii; [now apply fchar_not_space | exact (fchar_ascii c Hc)].
Qed.
Lemma items_nobd : forall es, Forall floating es -> sall nobd (items es) = true.
Proof.
  induction es as [|e es IH]; intros H; [reflexivity|]. inversion H as [|? ? He Hes]; subst. rewrite items_cons, !sall_app.
  rewrite (IH Hes), (floating_nobd e He). reflexivity.
Qed.
Lemma shell_line_good : forall amc sym es, nobd amc = true -> sall nobd sym = true -> Forall floating es ->
  good_line (shell_line amc sym es).
Proof.
  intros amc sym es H1 H2 H3. unfold good_line, shell_line. cbn [sall]. rewrite H1, !sall_app, H2, (items_nobd es H3).
  reflexivity.
Qed.
Lemma contr_line_good : forall a b cs, Forall floating cs -> good_line (contr_line a b cs).
Proof.
  intros a b cs H. unfold good_line, contr_line. rewrite !sall_app, !nat_str_nobd, (items_nobd cs H). reflexivity.
Qed.

Lemma sh_lines_good : forall z s, (1 <= z <= 120)%Z -> mpro_shell_ok s -> Forall good_line (sh_lines (mp_sym z) s).
Proof.
  intros z s Hz H. pose proof (shell_cols s H) as Hcols. destruct H as [_ [[l [El Hl]] [_ [Hfl _]]]].
  destruct (am8_facts l Hl) as [_ [_ [_ [_ [_ [_ [Hn _]]]]]]]. destruct (mp_el_facts z Hz) as [_ [_ [_ [Ha _]]]].
  unfold sh_lines. rewrite El. cbn [hd]. constructor.
  - apply shell_line_good; [exact Hn | | exact Hfl]. apply (sall_impl is_alpha); [exact alpha_nobd | exact Ha].
  - rewrite Forall_forall in *. intros x Hx. apply in_map_iff in Hx. destruct Hx as [c [<- Hc]].
    destruct (col_range c (Hcols c Hc)) as [_ [_ [e [cs [Ep Hf]]]]]. unfold cline. rewrite Ep. now apply contr_line_good.
Qed.

Lemma flat_map_Forall : forall (A B : Type) (P : B -> Prop) (f : A -> list B) l,
  (forall x, In x l -> Forall P (f x)) -> Forall P (flat_map f l).
Proof.
  intros A B P f; induction l as [|a l IH]; intros H; [constructor|]. cbn [flat_map]. apply Forall_app. split.
  - apply H. now left.
  - apply IH. intros x Hx. apply H. now right.
Qed.

Lemma el_lines_good : forall zs, el_ok zs -> Forall good_line (el_lines zs).
Proof.
  intros [z shs] [Hz [_ Hs]]. cbn [fst snd] in *. destruct (mp_el_facts z Hz) as [_ [_ [_ [_ [_ [_ [_ Hn]]]]]]].
  destruct (mp_cs_facts shs Hs) as [_ Hc]. unfold el_lines, el_plines. cbn [fst snd].
  constructor; [reflexivity|]. constructor.
  - unfold good_line, pad20. rewrite !sall_app, Hn, Hc, sall_sp by reflexivity. reflexivity.
  - apply flat_map_Forall. intros s Hin. apply sh_lines_good; [exact Hz|]. rewrite Forall_forall in Hs. now apply Hs.
Qed.

Lemma all_lines_good : forall harm els, mpro_ok harm els -> Forall good_line (all_lines harm els).
Proof.
  intros harm els H. pose proof (mpro_ok_els harm els H) as Hel. destruct H as [Hh _].
  assert (Hg : good_line harm) by (destruct Hh as [->| ->]; reflexivity).
  unfold all_lines. destruct els as [|zs els]; [now constructor|].
  constructor; [exact Hg|]. constructor; [reflexivity|]. apply Forall_app. split; [|now constructor].
  apply flat_map_Forall. intros x Hx. apply el_lines_good. rewrite Forall_forall in Hel. now apply Hel.
Qed.

(* strip() *)
Lemma strip_id : forall s, nohead is_space s -> nohead is_space (srev s) -> strip_ws s = s.
Proof.
  intros s H1 H2. unfold strip_ws.
  assert (L : forall x, nohead is_space x -> lstrip_ws x = x).
  { intros [|c x] Hx; [reflexivity|]. cbn in Hx. cbn [lstrip_ws]. now rewrite Hx. }
  rewrite (L s H1), (L _ H2). apply srev_involutive.
Qed.

Lemma items_last : forall es e, exists x l, items (e :: es) = x +++ l /\ In l (e :: es).
Proof.
  induction es as [|e' es IH]; intros e.
  - exists ", ", e. split; [|now left]. rewrite items_cons. unfold items. cbn. now rewrite sapp_nil_r.
  - destruct (IH e') as [x [l [E Hl]]]. exists (", " +++ e +++ x), l. split; [|now right].
    rewrite items_cons, E, !sapp_assoc. reflexivity.
Qed.

Lemma number_line_strip : forall a pre e es, is_space a = false -> Forall floating (e :: es) ->
  strip_ws (String a (pre +++ items (e :: es))) = String a (pre +++ items (e :: es)).
Proof.
  intros a pre e es Ha Hfl. apply strip_id; [exact Ha|]. destruct (items_last es e) as [x [l [E Hl]]]. rewrite E.
  change (String a (pre +++ x +++ l)) with (String a "" +++ pre +++ x +++ l). rewrite <- !sapp_assoc, srev_app.
  rewrite Forall_forall in Hfl. specialize (Hfl l Hl). destruct (floating_head l Hfl) as [c [t [El Hc]]].
  pose proof (floating_chars l Hfl) as Hall. rewrite <- sall_srev in Hall.
  destruct (srev l) as [|c' t'] eqn:Er.
  - exfalso. apply (srev_ne l); [rewrite El; discriminate | exact Er].
  - cbn [String.append nohead]. cbn [sall] in Hall. apply andb_true_iff in Hall. apply fchar_not_space, Hall.
Qed.

Definition prune2 (L : list string) : list string := prune_lines L "!*" true true.
Lemma prune2_unfold : forall L,
  prune2 L = filter (fun l => negb (is_empty l)) (filter (fun l => orb (is_empty l) (negb (first_in "!*" l))) (map strip_ws L)).
Proof. reflexivity. Qed.
Lemma prune2_app : forall a b, prune2 (a ++ b) = prune2 a ++ prune2 b.
Proof. intros a b. rewrite !prune2_unfold, map_app, !filter_app. reflexivity. Qed.
Lemma prune2_cons : forall x a, prune2 (x :: a) = prune2 [x] ++ prune2 a.
Proof. intros x a. change (x :: a) with ([x] ++ a). apply prune2_app. Qed.
Lemma prune2_flat_map : forall (A : Type) (f g : A -> list string) l,
  (forall x, In x l -> prune2 (f x) = g x) -> prune2 (flat_map f l) = flat_map g l.
Proof.
  intros A f g; induction l as [|a l IH]; intros H; [reflexivity|]. cbn [flat_map].
  rewrite prune2_app, (H a (or_introl eq_refl)), IH; [reflexivity|]. intros x Hx. apply H. now right.
Qed.
Lemma prune2_keep : forall c r, strip_ws (String c r) = String c r -> sany (Ascii.eqb c) "!*" = false ->
  prune2 [String c r] = [String c r].
Proof.
  intros c r Hs Hc. rewrite prune2_unfold. cbn [map]. rewrite Hs. cbn [filter is_empty first_in orb negb]. rewrite Hc. reflexivity.
Qed.
Lemma prune2_comment : forall X, prune2 [String "!" X] = [].
Proof.
  intros X. rewrite prune2_unfold. cbn [map]. destruct (strip_ws_head "!" X eq_refl) as [Z ->]. reflexivity.
Qed.
Lemma prune2_all_kept : forall L, Forall (fun l => prune2 [l] = [l]) L -> prune2 L = L.
Proof.
  induction L as [|l L IH]; intros H; [reflexivity|]. inversion H; subst. rewrite prune2_cons, IH by assumption.
  now replace (prune2 [l]) with [l].
Qed.

Lemma sh_lines_prune : forall z s, (1 <= z <= 120)%Z -> mpro_shell_ok s -> prune2 (sh_lines (mp_sym z) s) = sh_lines (mp_sym z) s.
Proof.
  intros z s Hz H. pose proof (shell_cols s H) as Hcols. destruct H as [Hne [[l [El Hl]] [_ [Hfl _]]]].
  destruct (am8_facts l Hl) as [_ [_ [_ [_ [_ [Hsp [_ Hex]]]]]]].
  apply prune2_all_kept. unfold sh_lines. rewrite El. cbn [hd]. constructor.
  - destruct (exps s) as [|e es]; [congruence|]. unfold shell_line.
    replace (", " +++ mp_sym z +++ " " +++ items (e :: es)) with ((", " +++ mp_sym z +++ " ") +++ items (e :: es))
      by (rewrite !sapp_assoc; reflexivity).
    apply prune2_keep; [now apply number_line_strip | exact Hex].
  - rewrite Forall_forall in *. intros x Hx. apply in_map_iff in Hx. destruct Hx as [c [<- Hc]].
    destruct (col_range c (Hcols c Hc)) as [_ [_ [e [cs [Ep Hf]]]]]. unfold cline. rewrite Ep.
    assert (E : forall a b, contr_line a b (e :: cs) = String "c" ((", " +++ nat_str a +++ "." +++ nat_str b) +++ items (e :: cs))).
    { intros a b. unfold contr_line. cbn [String.append]. rewrite !sapp_assoc. reflexivity. }
    rewrite E. apply prune2_keep; [now apply number_line_strip | reflexivity].
Qed.

Lemma el_lines_prune : forall zs, el_ok zs -> prune2 (el_lines zs) = el_plines zs.
Proof.
  intros [z shs] [Hz [_ Hs]]. cbn [fst snd] in *. unfold el_lines, el_plines. cbn [fst snd].
  rewrite prune2_cons, prune2_comment. cbn [app]. rewrite prune2_cons. cbn [String.append]. rewrite prune2_comment. cbn [app].
  apply prune2_flat_map. intros s Hin. apply sh_lines_prune; [exact Hz|]. rewrite Forall_forall in Hs. now apply Hs.
Qed.

Definition plines (harm : string) (els : list (Z * list sshell)) : list string :=
  match els with
  | [] => [harm]
  | _ => harm :: "basis={" :: flat_map el_plines els ++ ["}"]
  end.

Lemma pruned_lines : forall harm els, mpro_ok harm els -> prune2 (all_lines harm els) = plines harm els.
Proof.
  intros harm els H. pose proof (mpro_ok_els harm els H) as Hel. destruct H as [Hh _].
  assert (Hk : prune2 [harm] = [harm]) by (destruct Hh as [->| ->]; reflexivity).
  unfold all_lines, plines. destruct els as [|zs els]; [exact Hk|].
  rewrite prune2_cons, Hk. cbn [app]. rewrite prune2_cons. replace (prune2 ["basis={"]) with ["basis={"] by reflexivity.
  cbn [app]. rewrite prune2_app. replace (prune2 ["}"]) with ["}"] by reflexivity.
  rewrite (prune2_flat_map _ el_lines el_plines); [reflexivity|].
  intros x Hx. apply el_lines_prune. rewrite Forall_forall in Hel. now apply Hel.
Qed.

(* ================================================================== *)
(* 9. _read_shell on the lines of a shell                              *)
(* ================================================================== *)
(* the line after the last contraction of a shell is not a contraction *)
Definition head_nc (rest : list string) : Prop := exists l0 r, rest = l0 :: r /\ re_match contraction_re l0 = None.

Lemma pad_eq : forall first last nprim (cc : list string), first <= last < nprim -> List.length cc = S last - first ->
  (Z.of_nat (List.length cc) =? Z.of_nat (S last) - Z.of_nat (S first) + 1)%Z = true /\
  (if (Z.of_nat (S last) <? Z.of_nat nprim)%Z
   then (if (1 <? Z.of_nat (S first))%Z then zeros 1 (Z.of_nat (S first)) ++ cc else cc) ++ zeros (Z.of_nat (S last)) (Z.of_nat nprim)
   else (if (1 <? Z.of_nat (S first))%Z then zeros 1 (Z.of_nat (S first)) ++ cc else cc)) =
  repeat "0.0" first ++ cc ++ repeat "0.0" (nprim - last - 1).
Proof.
  intros first last nprim cc H Hlen. split; [apply Z.eqb_eq; lia|].
  assert (E1 : (if (1 <? Z.of_nat (S first))%Z then zeros 1 (Z.of_nat (S first)) ++ cc else cc) = repeat "0.0" first ++ cc).
  { destruct (Z.ltb_spec 1 (Z.of_nat (S first))) as [Hlt|Hge].
    - unfold zeros. replace (Z.to_nat (Z.of_nat (S first) - 1)) with first by lia. reflexivity.
    - assert (first = 0) by lia. subst first. reflexivity. }
  rewrite E1. destruct (Z.ltb_spec (Z.of_nat (S last)) (Z.of_nat nprim)) as [Hlt|Hge].
  - unfold zeros. replace (Z.to_nat (Z.of_nat nprim - Z.of_nat (S last))) with (nprim - last - 1) by lia.
    now rewrite <- app_assoc.
  - replace (nprim - last - 1) with 0 by lia. cbn [repeat]. now rewrite app_nil_r.
Qed.

Lemma expected_column_eq : forall c, col_ok c ->
  mpro_expected_column c = repeat "0.0" (fst (mpro_range c)) ++ map replace_D (mpro_printed c) ++
                           repeat "0.0" (List.length c - snd (mpro_range c) - 1).
Proof. intros c _. unfold mpro_expected_column. destruct (mpro_range c) as [first last]. reflexivity. Qed.

Lemma read_contractions_ok : forall nprim cols rest, Forall col_ok cols -> Forall (fun c => List.length c = nprim) cols ->
  head_nc rest ->
  mpro_read_contractions nprim (map cline cols ++ rest) = inr (map mpro_expected_column cols, rest).
Proof.
  intros nprim; induction cols as [|c cols IH]; intros rest Hok Hlen [l0 [r [-> Hnc]]].
  - cbn [map app mpro_read_contractions]. rewrite Hnc. reflexivity.
  - inversion Hok as [|? ? Hc Hcs]; subst. inversion Hlen as [|? ? Hl Hls]; subst.
    cbn [map app mpro_read_contractions].
    destruct (col_range c Hc) as [_ [Hle [e [cs [Ep Hf]]]]]. rewrite (expected_column_eq c Hc).
    pose proof (slice_length _ _ _ c Hle) as Hsl. fold (mpro_printed c) in Hsl.
    assert (Ecl : cline c = contr_line (S (fst (mpro_range c))) (S (snd (mpro_range c))) (e :: cs))
      by (unfold cline; now rewrite Ep).
    rewrite Ecl. rewrite Ep in *.
    destruct (contr_line_match (S (fst (mpro_range c))) (S (snd (mpro_range c))) e cs Hf) as [cp [Em [C1 [C2 C3]]]].
    rewrite Em, C1, C2, C3, !nat_str_val.
    assert (Hl2 : List.length (map replace_D (e :: cs)) = S (snd (mpro_range c)) - fst (mpro_range c)) by (now rewrite map_length).
    destruct (pad_eq _ _ _ _ Hle Hl2) as [P1 P2]. rewrite P1. cbn [negb]. rewrite P2.
    assert (P3 : List.length (repeat "0.0" (fst (mpro_range c)) ++ map replace_D (e :: cs) ++
                              repeat "0.0" (List.length c - snd (mpro_range c) - 1)) = List.length c).
    { rewrite !app_length, !repeat_length, Hl2. lia. }
    rewrite P3, Nat.eqb_refl. cbn [negb].
    rewrite (IH (l0 :: r) Hcs Hls); [reflexivity|]. exists l0, r. now split.
Qed.

Lemma read_shell_ok : forall z s rest bs, (1 <= z <= 120)%Z -> mpro_shell_ok s -> head_nc rest ->
  matches element_shell_re (shell_line (mp_amc (hd 0%Z (am s))) (mp_sym z) (exps s)) = true /\
  mpro_read_shell (shell_line (mp_amc (hd 0%Z (am s))) (mp_sym z) (exps s)) (map cline (coefs s) ++ rest) bs =
    inr (append_shell z (mpro_expected_shell s) bs, rest).
Proof.
  intros z s rest bs Hz H Hnc. pose proof (shell_cols s H) as Hcols. destruct H as [Hne [[l [El Hl]] [Hlen [Hfl _]]]].
  destruct (am8_facts l Hl) as [_ [_ [Ham [Eai _]]]].
  destruct (mp_el_facts z Hz) as [_ [_ [Hsne [_ [Hw [Hint [Ez _]]]]]]].
  rewrite El. cbn [hd]. destruct (exps s) as [|e es] eqn:Ee; [congruence|].
  destruct (shell_line_match (mp_amc l) (mp_sym z) e es Ham Hsne Hw Hfl) as [cp [Em [C1 [C2 C3]]]].
  split; [unfold matches; now rewrite Em|].
  unfold mpro_read_shell. rewrite Em, C1, C2, C3, Eai. unfold bind. rewrite Hint, Ez.
  rewrite map_length. rewrite (read_contractions_ok _ (coefs s) rest Hcols Hlen Hnc).
  unfold mpro_expected_shell, mpro_ftype. rewrite El, Ee. reflexivity.
Qed.

(* ================================================================== *)
(* 10. _parse_lines                                                    *)
(* ================================================================== *)
Lemma parse_skip : forall f l rest bs, matches element_shell_re l = false -> matches ecp_re l = false ->
  mpro_parse_lines (S f) (l :: rest) bs = mpro_parse_lines f rest bs.
Proof. intros f l rest bs H1 H2. cbn [mpro_parse_lines]. now rewrite H1, H2. Qed.

Lemma shell_line_nc : forall l sym es, (0 <= l < 8)%Z -> re_match contraction_re (shell_line (mp_amc l) sym es) = None.
Proof.
  intros l sym es Hl. destruct (am8_facts l Hl) as [_ [_ [_ [_ [Hc [Hs _]]]]]]. unfold shell_line. now apply contraction_re_head.
Qed.

Lemma sh_lines_head : forall z s shs rest, mpro_shell_ok s -> head_nc (flat_map (sh_lines (mp_sym z)) (s :: shs) ++ rest).
Proof.
  intros z s shs rest [_ [[l [El Hl]] _]]. cbn [flat_map]. unfold sh_lines at 1. rewrite El. cbn [hd].
  eexists _, _. split; [reflexivity|]. now apply shell_line_nc.
Qed.

Lemma parse_shells : forall z shs fuel rest bs, (1 <= z <= 120)%Z -> Forall mpro_shell_ok shs -> head_nc rest ->
  List.length shs <= fuel ->
  mpro_parse_lines fuel (flat_map (sh_lines (mp_sym z)) shs ++ rest) bs =
  mpro_parse_lines (fuel - List.length shs) rest (fold_left (fun b s => append_shell z (mpro_expected_shell s) b) shs bs).
Proof.
  intros z; induction shs as [|s shs IH]; intros fuel rest bs Hz Hs Hnc Hf.
  - cbn [flat_map app List.length fold_left]. now rewrite Nat.sub_0_r.
  - inversion Hs as [|? ? H1 H2]; subst. cbn [List.length] in Hf. destruct fuel as [|f]; [lia|].
    cbn [flat_map]. unfold sh_lines at 1. rewrite <- !app_assoc. cbn [app].
    assert (Hnc' : head_nc (flat_map (sh_lines (mp_sym z)) shs ++ rest)).
    { destruct shs as [|s' shs']; [exact Hnc|]. inversion H2; subst. now apply sh_lines_head. }
    destruct (read_shell_ok z s _ bs Hz H1 Hnc') as [Hm Hr].
    cbn [mpro_parse_lines]. rewrite Hm, Hr. unfold bind. cbn [fst snd].
    rewrite (IH f rest _ Hz H2 Hnc) by lia. cbn [List.length fold_left]. reflexivity.
Qed.

Lemma fold_append_last : forall z (g : sshell -> sshell) shs d l, ~ In z (map fst d) ->
  fold_left (fun b s => append_shell z (g s) b) shs (d ++ [(z, l)]) = d ++ [(z, l ++ map g shs)].
Proof.
  intros z g; induction shs as [|s shs IH]; intros d l Hd; [cbn; now rewrite app_nil_r|].
  cbn [fold_left map]. rewrite (append_shell_last z _ l d Hd), (IH d _ Hd), <- app_assoc. reflexivity.
Qed.

Lemma fold_append_new : forall z (g : sshell -> sshell) s shs d, ~ In z (map fst d) ->
  fold_left (fun b x => append_shell z (g x) b) (s :: shs) d = d ++ [(z, map g (s :: shs))].
Proof.
  intros z g s shs d Hd. cbn [fold_left]. rewrite (append_shell_new z _ d Hd). apply (fold_append_last z g shs d [g s] Hd).
Qed.

Definition nshells (els : list (Z * list sshell)) : nat := List.length (flat_map snd els).

Lemma parse_elements : forall els fuel rest bs, Forall el_ok els -> NoDup (map fst els) ->
  (forall z, In z (map fst els) -> ~ In z (map fst bs)) -> head_nc rest -> nshells els <= fuel ->
  mpro_parse_lines fuel (flat_map el_plines els ++ rest) bs =
  mpro_parse_lines (fuel - nshells els) rest (bs ++ mpro_expected els).
Proof.
  induction els as [|[z shs] els IH]; intros fuel rest bs Hel Hnd Hdis Hnc Hf.
  - cbn. now rewrite Nat.sub_0_r, app_nil_r.
  - inversion Hel as [|? ? H1 H2]; subst. cbn [map fst] in Hnd. inversion Hnd as [|? ? Hnotin Hnd']; subst.
    destruct H1 as [Hz [Hne Hs]]. cbn [fst snd] in *. unfold nshells in *. cbn [flat_map snd] in *. rewrite app_length in Hf.
    cbn [flat_map]. unfold el_plines at 1. cbn [fst snd]. rewrite <- app_assoc.
    assert (Hnc' : head_nc (flat_map el_plines els ++ rest)).
    { destruct els as [|[z' shs'] els']; [exact Hnc|]. inversion H2 as [|? ? [_ [Hne' Hs']] _]; subst. cbn [fst snd] in *.
      cbn [flat_map]. unfold el_plines at 1. cbn [fst snd]. destruct shs' as [|s' shs'']; [congruence|].
      inversion Hs'; subst. rewrite <- app_assoc. now apply sh_lines_head. }
    rewrite (parse_shells z shs fuel _ bs Hz Hs Hnc') by lia.
    destruct shs as [|s shs]; [congruence|].
    rewrite (fold_append_new z mpro_expected_shell s shs bs); [|apply Hdis; now left].
    rewrite IH; [| exact H2 | exact Hnd' | | exact Hnc | lia].
    + rewrite app_length. replace (fuel - List.length (s :: shs) - List.length (flat_map snd els))
        with (fuel - (List.length (s :: shs) + List.length (flat_map snd els))) by lia.
      unfold mpro_expected. cbn [map fst snd]. rewrite <- app_assoc. reflexivity.
    + intros z' Hz'. rewrite map_app, in_app_iff. cbn [map fst In]. intros [Hin|[Heq|[]]].
      * apply (Hdis z'); [now right | exact Hin].
      * subst z'. apply Hnotin, Hz'.
Qed.

Lemma plines_count : forall els, Forall el_ok els -> nshells els <= List.length (flat_map el_plines els).
Proof.
  unfold nshells. induction els as [|[z shs] els IH]; intros H; [cbn; lia|]. inversion H as [|? ? _ H2]; subst.
  cbn [flat_map snd]. rewrite !app_length. specialize (IH H2).
  assert (List.length shs <= List.length (el_plines (z, shs))).
  { unfold el_plines. cbn [fst snd]. clear. induction shs as [|s shs IHs]; [cbn; lia|]. cbn [flat_map List.length].
    rewrite app_length. unfold sh_lines at 1. cbn [List.length]. lia. }
  lia.
Qed.

Lemma read_all_lines : forall harm els, mpro_ok harm els -> mpro_read_electron (all_lines harm els) = inr (mpro_expected els).
Proof.
  intros harm els H. pose proof (mpro_ok_els harm els H) as Hel. pose proof (pruned_lines harm els H) as Hp.
  destruct H as [Hh [Hnd _]]. unfold mpro_read_electron. fold (prune2 (all_lines harm els)). rewrite Hp.
  assert (Hs1 : matches element_shell_re harm = false /\ matches ecp_re harm = false)
    by (destruct Hh as [->| ->]; split; vm_compute; reflexivity).
  unfold plines. destruct els as [|zs els].
  - cbn [List.length]. rewrite parse_skip; [reflexivity | apply Hs1 | apply Hs1].
  - pose proof (plines_count _ Hel) as Hcnt. set (E := zs :: els) in *.
    cbn [List.length]. rewrite app_length. cbn [List.length].
    rewrite parse_skip; [| apply Hs1 | apply Hs1].
    replace (S (List.length (flat_map el_plines E) + 1)) with (S (S (List.length (flat_map el_plines E)))) by lia.
    rewrite parse_skip; [| vm_compute; reflexivity | vm_compute; reflexivity].
    rewrite (parse_elements E _ ["}"] [] Hel Hnd); [| intros z _ [] | | lia].
    2:{ exists "}", []. split; [reflexivity | vm_compute; reflexivity]. }
    cbn [app]. destruct (S (List.length (flat_map el_plines E)) - nshells E) as [|f] eqn:Ef; [lia|].
    rewrite parse_skip; [destruct f; reflexivity | vm_compute; reflexivity | vm_compute; reflexivity].
Qed.

Lemma mpro_roundtrip_exact : mpro_roundtrip_stmt.
Proof.
  intros harm els H. unfold mpro_roundtrip. rewrite (write_electron_lines harm els H). unfold bind.
  rewrite (splitlines_unlines _ (all_lines_good harm els H)). apply read_all_lines, H.
Qed.

(* ================================================================== *)
(* 11. no number is lost                                               *)
(* ================================================================== *)
Lemma written_lines : forall harm els t, mpro_ok harm els -> mpro_write_electron harm els = inr t ->
  splitlines t = all_lines harm els.
Proof.
  intros harm els t H E. rewrite (write_electron_lines harm els H) in E. inversion E; subst.
  apply splitlines_unlines, all_lines_good, H.
Qed.

Lemma tok_in : forall x, tok_ok x -> forall pre r cur, (r = "" \/ exists t, r = String " " t) ->
  In x (tokens_acc (pre +++ String " " (x +++ r)) cur).
Proof.
  intros x [Hne Hsp]. assert (Hr : srev x <> "") by (now apply srev_ne).
  assert (Hx : forall r, (r = "" \/ exists t, r = String " " t) -> In x (tokens_acc (x +++ r) "")).
  { intros r Hrr. rewrite (tokens_word _ _ _ Hsp), sapp_nil_r. destruct (srev x) as [|a u] eqn:E; [congruence|].
    rewrite <- E. destruct Hrr as [->|[t ->]]; cbn [tokens_acc].
    - rewrite E, <- E, srev_involutive. now left.
    - change (is_space " ") with true. cbv iota. rewrite E, <- E, srev_involutive. now left. }
  induction pre as [|c pre IH]; intros r cur Hrr.
  - cbn [String.append tokens_acc]. change (is_space " ") with true. cbv iota. destruct cur; [now apply Hx | right; now apply Hx].
  - cbn [String.append tokens_acc]. destruct (is_space c); [destruct cur; [|right]|]; now apply IH.
Qed.

Lemma items_split : forall x es, In x es -> exists a b, items es = a +++ ", " +++ x +++ items b.
Proof.
  intros x; induction es as [|e es IH]; intros H; [destruct H|]. destruct H as [->|H].
  - exists "", es. now rewrite items_cons.
  - destruct (IH H) as [a [b E]]. exists (", " +++ e +++ a), b. rewrite items_cons, E, !sapp_assoc. reflexivity.
Qed.

Lemma fchar_not_comma : forall c, fchar c = true -> Ascii.eqb c "," = false.
Proof. intros c H. all_chars c; try reflexivity; discriminate H. Qed.

Lemma comma_blank_fchars : forall x, sall fchar x = true -> comma_blank x = x.
Proof.
  unfold comma_blank. induction x as [|c x IH]; intros Hc; [reflexivity|].
  cbn [sall] in Hc. apply andb_true_iff in Hc. destruct Hc as [H1 H2]. cbn [smap]. rewrite (fchar_not_comma c H1), (IH H2).
  reflexivity.
Qed.

Lemma comma_blank_app : forall a b, comma_blank (a +++ b) = comma_blank a +++ comma_blank b.
Proof. intros a b. unfold comma_blank. apply smap_app. Qed.

Lemma number_in_line : forall pre x es, In x es -> Forall floating es ->
  In x (tokens_acc (comma_blank (pre +++ items es)) "").
Proof.
  intros pre x es Hx Hfl. rewrite Forall_forall in Hfl. pose proof (Hfl x Hx) as Hf.
  destruct (items_split x es Hx) as [a [b E]]. rewrite E, !comma_blank_app.
  rewrite (comma_blank_fchars x (floating_chars x Hf)). change (comma_blank ", ") with "  ".
  assert (Eq : comma_blank pre +++ comma_blank a +++ "  " +++ x +++ comma_blank (items b) =
               (comma_blank pre +++ comma_blank a +++ " ") +++ String " " (x +++ comma_blank (items b))).
  { rewrite !sapp_assoc. reflexivity. }
  rewrite Eq. apply tok_in.
  - destruct (floating_is_cell x Hf) as [H1 [H2 _]]. now split.
  - destruct b as [|e b]; [now left|]. right. rewrite items_cons, !comma_blank_app. change (comma_blank ", ") with "  ".
    cbn [String.append]. eauto.
Qed.

Lemma mpro_no_number_lost : mpro_no_number_lost_stmt.
Proof.
  intros harm els t H E x [zs [s [Hzs [Hs Hx]]]].
  rewrite (written_lines harm els t H E).
  pose proof (mpro_ok_els harm els H) as Hel. rewrite Forall_forall in Hel. destruct (Hel zs Hzs) as [_ [_ Hshs]].
  rewrite Forall_forall in Hshs. pose proof (Hshs s Hs) as Hok. pose proof (shell_cols s Hok) as Hcols.
  destruct Hok as [_ [_ [_ [Hfl _]]]].
  assert (Hin : forall line, In line (sh_lines (mp_sym (fst zs)) s) -> In line (all_lines harm els)).
  { intros line Hl. unfold all_lines. destruct els as [|z0 els0] eqn:Ee; [destruct Hzs|]. rewrite <- Ee in *.
    right. right. apply in_or_app. left. apply in_flat_map. exists zs. split; [exact Hzs|].
    unfold el_lines. right. right. unfold el_plines. apply in_flat_map. exists s. now split. }
  destruct Hx as [Hx|[c [Hc Hx]]].
  - eexists. split; [apply Hin; unfold sh_lines; left; reflexivity|]. unfold shell_line.
    replace (String (mp_amc (hd 0%Z (am s))) (", " +++ mp_sym (fst zs) +++ " " +++ items (exps s)))
      with ((String (mp_amc (hd 0%Z (am s))) (", " +++ mp_sym (fst zs) +++ " ")) +++ items (exps s))
      by (cbn [String.append]; rewrite !sapp_assoc; reflexivity).
    now apply number_in_line.
  - exists (cline c). split; [apply Hin; unfold sh_lines; right; now apply in_map|]. unfold cline, contr_line.
    rewrite Forall_forall in Hcols. destruct (col_range c (Hcols c Hc)) as [_ [_ [e [cs [Ep Hf]]]]].
    replace ("c, " +++ nat_str (S (fst (mpro_range c))) +++ "." +++ nat_str (S (snd (mpro_range c))) +++ items (mpro_printed c))
      with (("c, " +++ nat_str (S (fst (mpro_range c))) +++ "." +++ nat_str (S (snd (mpro_range c)))) +++ items (mpro_printed c))
      by (rewrite !sapp_assoc; reflexivity).
    apply number_in_line; [exact Hx | now rewrite Ep].
Qed.

(* ================================================================== *)
(* 12. the conditions of mpro_ok that cannot be dropped, and a concrete instance *)
(* ================================================================== *)
Ltac vc := vm_compute; reflexivity.
Lemma mpro_roundtrip_empty : mpro_roundtrip_empty_stmt. Proof. split; vc. Qed.
Lemma mpro_high_am : mpro_high_am_stmt.
Proof.
  unfold mpro_high_am_stmt. split; [vc|]. split; [vc|]. split; [vc|]. split; [|vc].
  change (zrange 8 17) with [8; 9; 10; 11; 12; 13; 14; 15; 16; 17; 18; 19; 20; 21; 22; 23; 24]%Z.
  repeat (constructor; [vc|]). constructor.
Qed.
Lemma mpro_cartesian : mpro_cartesian_stmt. Proof. vc. Qed.
Lemma mpro_zero_spelling : mpro_zero_spelling_stmt. Proof. split; vc. Qed.
Lemma mpro_underflow : mpro_underflow_stmt. Proof. split; [vc|]. split; [vc|]. split; vc. Qed.
Lemma mpro_zero_column : mpro_zero_column_stmt. Proof. split; [vc|]. split; [vc|]. split; vc. Qed.
Lemma mpro_no_contraction : mpro_no_contraction_stmt. Proof. vc. Qed.
Lemma mpro_noprim : mpro_noprim_stmt. Proof. vc. Qed.
Lemma mpro_fused : mpro_fused_stmt. Proof. split; vc. Qed.
Lemma mpro_noshell : mpro_noshell_stmt. Proof. vc. Qed.
Lemma mpro_ragged : mpro_ragged_stmt. Proof. split; vc. Qed.
Lemma mpro_floating : mpro_floating_stmt. Proof. split; vc. Qed.
Lemma mpro_elements : mpro_elements_stmt. Proof. split; [vc|]. split; vc. Qed.
Lemma mpro_loose : mpro_loose_stmt. Proof. unfold mpro_loose_stmt. repeat (split; [vc|]). vc. Qed.

Lemma fok_by_compute : forall x, (match parse_num x with Some _ => true | None => false end) = true -> float_ok x.
Proof. intros x H E. rewrite E in H. discriminate H. Qed.
Lemma nz_by_compute : forall c,
  existsb (fun x => match float_nonzero x with inr true => true | _ => false end) c = true ->
  exists x, In x c /\ float_nonzero x = inr true.
Proof.
  intros c H. apply existsb_exists in H. destruct H as [x [Hx H]]. exists x. split; [exact Hx|].
  destruct (float_nonzero x) as [e|[|]]; try discriminate H. reflexivity.
Qed.

Ltac fall tac := repeat (apply Forall_cons; [tac|]); apply Forall_nil.
Ltac shell_ok_tac :=
  unfold mpro_shell_ok; cbn [exps am coefs];
  split; [discriminate|]; split; [eexists; split; [reflexivity | lia]|];
  split; [fall ltac:(reflexivity)|]; split; [fall ltac:(vm_compute; reflexivity)|];
  split; [fall ltac:(fall ltac:(vm_compute; reflexivity))|];
  split; [fall ltac:(fall ltac:(apply fok_by_compute; vm_compute; reflexivity))|];
  fall ltac:(apply nz_by_compute; vm_compute; reflexivity).

Example mpro_example : mpro_example_stmt.
Proof.
  split; [|split; [vc|split; [vc|split; vc]]].
  unfold mpro_ok, exm_els. split; [now left|]. split.
  - cbn [map fst]. constructor; [intros [H|[]]; discriminate H|]. constructor; [intros []|constructor].
  - apply Forall_cons; [|apply Forall_cons; [|apply Forall_nil]]; cbn [fst snd];
      (split; [lia|]; split; [discriminate|]).
    + unfold exm_H. fall ltac:(shell_ok_tac).
    + unfold exm_Cs, exm_Cp. fall ltac:(shell_ok_tac).
Qed.

Print Assumptions mpro_write_total.
Print Assumptions mpro_roundtrip_exact.
Print Assumptions mpro_find_range.
Print Assumptions mpro_no_number_lost.
Print Assumptions mpro_roundtrip_empty.
Print Assumptions mpro_high_am.
Print Assumptions mpro_cartesian.
Print Assumptions mpro_zero_spelling.
Print Assumptions mpro_underflow.
Print Assumptions mpro_zero_column.
Print Assumptions mpro_no_contraction.
Print Assumptions mpro_noprim.
Print Assumptions mpro_fused.
Print Assumptions mpro_noshell.
Print Assumptions mpro_ragged.
Print Assumptions mpro_floating.
Print Assumptions mpro_elements.
Print Assumptions mpro_loose.
Print Assumptions mpro_example.
