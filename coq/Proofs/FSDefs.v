(* Function-set semantics (DESIGN 3.3) and the statements of the C02/C07 theorems, parametric in the
   number carrier.  This file contains definitions and statements only; the proofs live in the other
   files of Proofs/ and the closed instances in Properties/. *)
From BSE Require Import Model.Val Model.Basis Model.Manip Model.Sort.
Set Implicit Arguments.

Section FS.
  Variable N : Type.
  Variable is0 : N -> bool.
  Variable same : N -> N -> bool.
  Variable eqN : N -> N -> bool.
  Variables zero_lit one_lit ozero_lit : N.

  (* what the carrier must satisfy; Proofs/NumInstance.v shows the decimal-string instance does *)
  Record carrier_ok : Prop := {
    same_refl : forall a, same a a = true;
    same_sym : forall a b, same a b = true -> same b a = true;
    same_trans : forall a b c, same a b = true -> same b c = true -> same a c = true;
    is0_same : forall a b, same a b = true -> is0 a = is0 b;
    eqN_eq : forall a b, eqN a b = true -> a = b;
    zero_is0 : is0 zero_lit = true;
    ozero_is0 : is0 ozero_lit = true;
    one_not0 : is0 one_lit = false
  }.

  Notation shell := (shell N).
  Notation cfun := (cfun N).
  Notation element := (element N).
  Notation basis := (basis N).

  (* membership of an (exponent, coefficient) pair up to value equality *)
  Definition InS (p : N * N) (l : list (N * N)) : Prop :=
    exists q, In q l /\ same (fst p) (fst q) = true /\ same (snd p) (snd q) = true.

  (* two contracted functions are equal: same momentum, same non-zero pairs (zero coefficients are invisible) *)
  Definition feq (f g : cfun) : Prop :=
    fst f = fst g /\ forall p, is0 (snd p) = false -> (InS p (snd f) <-> InS p (snd g)).

  Definition FSin (f : cfun) (shs : list shell) : Prop :=
    exists g, In g (shells_cfuns shs) /\ feq f g.

  (* the two shell lists hold the same set of contracted functions *)
  Definition FSeq (a b : list shell) : Prop := forall f, FSin f a <-> FSin f b.
  Definition FSsub (a b : list shell) : Prop := forall f, FSin f a -> FSin f b.

  (* lifting a relation on shell lists to elements and whole basis dictionaries:
     same element keys in the same order, every other field untouched (ECP data, references, metadata) *)
  Definition elem_rel (R : list shell -> list shell -> Prop) (e1 e2 : element) : Prop :=
    erest e1 = erest e2 /\
    match eshells e1, eshells e2 with
    | Some a, Some b => R a b
    | None, None => True
    | _, _ => False
    end.
  Definition basis_rel (R : list shell -> list shell -> Prop) (b1 b2 : basis) : Prop :=
    brest b1 = brest b2 /\
    Forall2 (fun kv1 kv2 => fst kv1 = fst kv2 /\ elem_rel R (snd kv1) (snd kv2)) (belems b1) (belems b2).
  Definition basis_FSeq := basis_rel FSeq.

  (* ---------- well-formedness used as hypotheses (the validator's rules that matter here) ---------- *)
  Definition rect (s : shell) : Prop := Forall (fun c => List.length c = List.length (exps s)) (coefs s).
  Definition has_nonzero (s : shell) : Prop := exists c x, In c (coefs s) /\ In x c /\ is0 x = false.
  Definition nz_cols (s : shell) : Prop :=
    coefs s <> [] /\ Forall (fun c => exists x, In x c /\ is0 x = false) (coefs s).
  (* one momentum, or a fused shell with one contraction per momentum *)
  Definition am_ok (s : shell) : Prop :=
    List.length (am s) = 1 \/ (1 < List.length (am s) /\ List.length (coefs s) = List.length (am s)).
  Definition wf_shell (s : shell) : Prop := rect s /\ nz_cols s /\ am_ok s.
  Definition wf_shells (shs : list shell) : Prop := Forall wf_shell shs.
  Definition wf_basis (b : basis) : Prop :=
    Forall (fun kv => match eshells (snd kv) with Some shs => wf_shells shs | None => True end) (belems b).
  (* a fused shell keeps at least one member under uncontract_spdf max_am *)
  Definition fused_low (m : Z) (s : shell) : Prop :=
    1 < List.length (am s) -> exists l, In l (am s) /\ (l <= m)%Z.
  Definition basis_fused_low (m : Z) (b : basis) : Prop :=
    Forall (fun kv => match eshells (snd kv) with Some shs => Forall (fused_low m) shs | None => True end) (belems b).
  (* exponents of one shell pairwise different by value (validator rule; needed only where stated) *)
  Definition distinct_exps (s : shell) : Prop :=
    forall i j x y, nth_error (exps s) i = Some x -> nth_error (exps s) j = Some y -> i <> j -> same x y = false.

  (* ====================== statements: shell level ====================== *)

  (* prune_shell: merging equal exponents and dropping dead primitives keeps every function *)
  Definition prune_shell_FS_stmt : Prop :=
    forall s s', rect s -> has_nonzero s -> am_ok s ->
      prune_shell is0 same s = inr s' ->
      FSeq [s'] [s] /\ rect s' /\ am s' = am s /\ ftype s' = ftype s /\
      List.length (coefs s') = List.length (coefs s).

  (* on a shell whose exponents are pairwise distinct, prune_shell cannot raise *)
  Definition prune_shell_total_stmt : Prop :=
    forall s, rect s -> coefs s <> [] -> distinct_exps s -> exists s', prune_shell is0 same s = inr s'.

  Definition prune_shells_FS_stmt : Prop :=
    forall shs out, wf_shells shs -> prune_shells is0 same eqN shs = inr out -> FSeq out shs /\ wf_shells out.

  (* uncontract_general before pruning: literally the same list of contracted functions *)
  Definition unc_gen_shells_cfuns_stmt : Prop :=
    forall shs : list shell, shells_cfuns (unc_gen_shells shs) = shells_cfuns shs.
  Definition unc_gen_shells_wf_stmt : Prop :=
    forall shs : list shell, wf_shells shs -> wf_shells (unc_gen_shells shs).
  (* shape promise: afterwards every single-momentum shell has exactly one contraction *)
  Definition unc_gen_shape_stmt : Prop :=
    forall shs out, wf_shells shs -> prune_shells is0 same eqN (unc_gen_shells shs) = inr out ->
      Forall (fun s => List.length (am s) = 1 -> List.length (coefs s) = 1) out.

  Definition unc_spdf_shells_FS_stmt : Prop :=
    forall m shs out, wf_shells shs -> unc_spdf_shells m shs [] = inr out -> FSeq out shs.
  Definition unc_spdf_shells_wf_stmt : Prop :=
    forall m shs out, wf_shells shs -> Forall (fused_low m) shs -> unc_spdf_shells m shs [] = inr out -> wf_shells out.
  Definition unc_spdf_total_stmt : Prop :=
    forall m shs, wf_shells shs -> exists out, unc_spdf_shells m shs [] = inr out.
  (* shape promise: no member above max_am is left inside a fused shell *)
  Definition unc_spdf_shape_stmt : Prop :=
    forall m shs out, wf_shells shs -> unc_spdf_shells m shs [] = inr out ->
      Forall (fun s => 1 < List.length (am s) -> Forall (fun l => (l <= m)%Z) (am s)) out.

  (* make_general before pruning *)
  Definition make_general_shells_FS_stmt : Prop :=
    forall shs gs, wf_shells shs -> make_general_shells zero_lit shs = inr gs -> FSeq gs shs /\ wf_shells gs.
  (* shape promise: at most one single-momentum shell per momentum (also after pruning) *)
  Definition make_general_shape_stmt : Prop :=
    forall shs gs out, wf_shells shs -> make_general_shells zero_lit shs = inr gs ->
      prune_shells is0 same eqN gs = inr out ->
      forall i j s t, nth_error out i = Some s -> nth_error out j = Some t ->
        List.length (am s) = 1 -> am s = am t -> i = j.

  (* ====================== statements: basis level ====================== *)
  Definition prune_basis_FS_stmt : Prop :=
    forall b b', wf_basis b -> prune_basis is0 same eqN b = inr b' -> basis_FSeq b' b /\ wf_basis b'.
  Definition uncontract_general_FS_stmt : Prop :=
    forall b b', wf_basis b -> uncontract_general is0 same eqN b = inr b' -> basis_FSeq b' b /\ wf_basis b'.
  Definition uncontract_spdf_FS_stmt : Prop :=
    forall m b b', wf_basis b -> uncontract_spdf m b = inr b' -> basis_FSeq b' b.
  Definition make_general_FS_stmt : Prop :=
    forall skip b b', wf_basis b -> (skip = false -> basis_fused_low 0 b) ->
      make_general is0 same eqN zero_lit skip b = inr b' -> basis_FSeq b' b /\ wf_basis b'.

End FS.
