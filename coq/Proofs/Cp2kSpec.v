(* Proofs of the statements of Proofs/Cp2kDefs.v: the CP2K electron part written by write_cp2k is read back by read_cp2k
   exactly (up to the exponent marker, the region, the function type and the splitting of fused shells, see
   cp2k_expected) whenever the basis name is one the reader's regular expression accepts. *)
From BSE Require Import Model.Val Model.Text Model.Basis Model.Manip Model.Matrix Gen.GenLut Model.Lut Model.Elements
                        Model.Nwchem Model.NwchemEcp Model.G94 Model.GamessUs Model.Cp2k
                        Proofs.MatrixDefs Proofs.NwchemDefs Proofs.Cp2kDefs Proofs.C20Finite.
From Coq Require Import NArith Nnat Znat.
From BSE Require Import Proofs.HeaderSpec Proofs.PruneFS Proofs.MatrixSpec Proofs.NwchemSpec Proofs.NwchemEcpSpec
                        Proofs.TurbomoleSpec Proofs.G94Spec Proofs.GamessUsSpec.

(* ================================================================== *)
(* 1. finite facts about the tables of lut.py                          *)
(* ================================================================== *)
(* elements 1..120: the capitalised symbol is non-empty, letters only, and mapped back to z; the capitalised name has no
   byte that could begin a line boundary *)
Definition ksym (z : Z) : string := match element_sym_from_Z z true with inr s => s | inl _ => "" end.
Definition kname (z : Z) : string := match element_name_from_Z z true with inr s => s | inl _ => "" end.
Definition kel_check (z : Z) : bool :=
  match element_sym_from_Z z true, element_name_from_Z z true with
  | inr s, inr n => negb (is_empty s) && sall is_alpha s && res_eqb Z.eqb (element_Z_from_sym s) z && sall nobd n
  | _, _ => false
  end.
Lemma kel_sweep : forallb kel_check (zrange 1 120) = true.
Proof. vm_compute. reflexivity. Qed.

Lemma kel_facts : forall z, (1 <= z <= 120)%Z ->
  element_sym_from_Z z true = inr (ksym z) /\ element_name_from_Z z true = inr (kname z) /\
  ksym z <> "" /\ sall is_alpha (ksym z) = true /\ element_Z_from_sym (ksym z) = inr z /\ sall nobd (kname z) = true.
Proof.
  intros z Hz. assert (Hin : In z (zrange 1 120)) by (apply zrange_In; lia).
  pose proof (proj1 (forallb_forall _ _) kel_sweep z Hin) as H. unfold kel_check, ksym, kname in *.
  destruct (element_sym_from_Z z true) as [e|s]; [discriminate H|].
  destruct (element_name_from_Z z true) as [e|n]; [discriminate H|].
  rewrite !andb_true_iff in H. destruct H as [[[H1 H2] H3] H4].
  split; [reflexivity|]. split; [reflexivity|]. split; [intros ->; discriminate H1|]. split; [exact H2|].
  split; [now apply res_eqb_Z | exact H4].
Qed.

Lemma ksym_tok : forall z, (1 <= z <= 120)%Z -> tok_ok (ksym z).
Proof. intros z Hz. destruct (kel_facts z Hz) as [_ [_ [H1 [H2 _]]]]. now apply alpha_word_tok. Qed.

(* ================================================================== *)
(* 2. min / max of consecutive momenta, small list facts               *)
(* ================================================================== *)
Lemma fold_max_zrange : forall k l m,
  fold_left Z.max (zrange l (S k)) m = Z.max m (l + Z.of_nat k)%Z.
Proof.
  induction k as [|k IH]; intros l m.
  - cbn [zrange fold_left]. f_equal. cbn. lia.
  - change (zrange l (S (S k))) with (l :: zrange (l + 1) (S k)). cbn [fold_left]. rewrite IH. lia.
Qed.
Lemma fold_min_zrange : forall k l m, (m <= l)%Z -> fold_left Z.min (zrange l k) m = m.
Proof.
  induction k as [|k IH]; intros l m H; [reflexivity|].
  cbn [zrange fold_left]. rewrite IH by lia. lia.
Qed.

Lemma zminmax_range : forall l k, zmin (zrange l (S k)) = l /\ zmax (zrange l (S k)) = (l + Z.of_nat k)%Z.
Proof.
  intros l k. unfold zmin, zmax. split.
  - apply fold_min_zrange. cbn [zrange hd]. lia.
  - rewrite fold_max_zrange. cbn [zrange hd]. lia.
Qed.

Lemma zsum_ones : forall (A : Type) (l : list A) a, fold_left Z.add (map (fun _ => 1%Z) l) a = (a + Z.of_nat (List.length l))%Z.
Proof.
  intros A; induction l as [|x l IH]; intros a; [cbn; lia|].
  cbn [map fold_left List.length]. rewrite IH. lia.
Qed.

Lemma combine_map_r : forall (A B C D : Type) (f : A * C -> D) (g : B -> C) (a : list A) (b : list B),
  map f (combine a (map g b)) = map (fun p => f (fst p, g (snd p))) (combine a b).
Proof.
  intros A B C D f g; induction a as [|x a IH]; intros b; [reflexivity|].
  destruct b as [|y b]; [reflexivity|]. cbn [map combine fst snd]. now rewrite IH.
Qed.

(* ================================================================== *)
(* 3. the tokeniser and the three regular expressions                  *)
(* ================================================================== *)
Lemma tokens_word_sp : forall w c r, tok_ok w -> is_space c = true ->
  tokens_acc (w +++ String c r) "" = w :: tokens_acc r "".
Proof.
  intros w c r [Hne Hs] Hc. rewrite (tokens_word w _ "" Hs), sapp_nil_r. cbn [tokens_acc]. rewrite Hc.
  destruct (srev w) as [|a x] eqn:E.
  - exfalso. apply Hne. rewrite <- (srev_involutive w), E. reflexivity.
  - rewrite <- E, srev_involutive. reflexivity.
Qed.

Lemma word_not_space : forall c, is_word c = true -> is_space c = false.
Proof. intros c H. all_chars c; try reflexivity; discriminate H. Qed.
Lemma alpha_word : forall c, is_alpha c = true -> is_word c = true.
Proof. intros c H. all_chars c; try reflexivity; discriminate H. Qed.

Lemma span_word_spec : forall s a r, span_word s = (a, r) ->
  s = a +++ r /\ sall is_word a = true /\ (forall c t, r = String c t -> is_word c = false).
Proof.
  induction s as [|c s IH]; intros a r H.
  - inversion H; subst. repeat split. intros c t E; discriminate E.
  - cbn [span_word] in H. destruct (is_word c) eqn:Ec.
    + destruct (span_word s) as [a0 r0] eqn:E0. inversion H; subst. destruct (IH a0 r eq_refl) as [H1 [H2 H3]].
      split; [cbn [String.append]; now rewrite <- H1|]. split; [cbn [sall]; now rewrite Ec, H2 | exact H3].
    + inversion H; subst. repeat split. intros c' t E. inversion E; subst. exact Ec.
Qed.

Lemma span_word_word_sp : forall a c r, sall is_word a = true -> is_word c = false ->
  span_word (a +++ String c r) = (a, String c r).
Proof.
  induction a as [|x a IH]; intros c r H Hc.
  - cbn [String.append span_word]. now rewrite Hc.
  - cbn [sall] in H. apply andb_true_iff in H. destruct H as [Hx Ha].
    cbn [String.append span_word]. rewrite Hx, (IH c r Ha Hc). reflexivity.
Qed.

(* what a line that matches element_shell_re looks like, in terms of its words *)
Lemma mes_tokens : forall l a, match_element_shell l = Some a ->
  sall is_word a = true /\ exists ws, tokens_acc l "" = a :: ws /\ ws <> [] /\ forallb name_word ws = true.
Proof.
  intros l a H. unfold match_element_shell in H.
  destruct (span_word (lstrip_ws l)) as [a0 r] eqn:E. destruct (span_word_spec _ _ _ E) as [H1 [H2 _]].
  destruct a0 as [|x a0]; [discriminate H|]. destruct r as [|c r]; [discriminate H|].
  destruct (is_space c) eqn:Ec; [|discriminate H].
  destruct (tokens_acc (String c r) "") as [|w ws] eqn:Et; [discriminate H|].
  destruct (forallb name_word (w :: ws)) eqn:Ef; [|discriminate H]. inversion H; subst a.
  split; [exact H2|]. exists (w :: ws). split; [|split; [discriminate | exact Ef]].
  rewrite <- (tokens_lstrip l), H1.
  assert (Htok : tok_ok (String x a0)).
  { split; [discriminate|]. apply (sall_sany_false is_word); [exact word_not_space | exact H2]. }
  rewrite (tokens_word_sp _ c r Htok Ec). f_equal. rewrite <- Et. cbn [tokens_acc]. now rewrite Ec.
Qed.

Lemma not_element_line : forall l a ws, tokens_acc l "" = a :: ws ->
  (sall is_word a = false \/ ws = [] \/ forallb name_word ws = false) -> is_element_shell_line l = false.
Proof.
  intros l a ws Ht H. unfold is_element_shell_line. destruct (match_element_shell l) as [b|] eqn:E; [|reflexivity].
  destruct (mes_tokens l b E) as [Hb [ws' [Ht' [Hne Hf]]]]. rewrite Ht in Ht'. inversion Ht'; subst.
  destruct H as [H|[H|H]]; congruence.
Qed.

(* a line `word, white space, words that are names` *)
Lemma mes_ok : forall a c r, a <> "" -> sall is_alpha a = true -> is_space c = true ->
  tokens_acc r "" <> [] -> Forall (fun w => name_word w = true) (tokens_acc r "") ->
  match_element_shell (a +++ String c r) = Some a.
Proof.
  intros a c r Hne Ha Hc Hn Hf. unfold match_element_shell.
  assert (Hw : sall is_word a = true) by (apply (sall_impl is_alpha is_word); [exact alpha_word | exact Ha]).
  assert (Hl : lstrip_ws (a +++ String c r) = a +++ String c r).
  { apply lstrip_word. now apply alpha_word_tok. }
  assert (Hcw : is_word c = false) by (destruct (is_word c) eqn:E; [apply word_not_space in E; congruence | reflexivity]).
  rewrite Hl, (span_word_word_sp a c r Hw Hcw). destruct a as [|x a]; [congruence|]. rewrite Hc.
  assert (Et : tokens_acc (String c r) "" = tokens_acc r "") by (cbn [tokens_acc]; now rewrite Hc).
  rewrite Et. destruct (tokens_acc r "") as [|w ws]; [congruence|].
  assert (Hfb : forallb name_word (w :: ws) = true) by (apply forallb_forall; rewrite Forall_forall in Hf; exact Hf).
  rewrite Hfb. reflexivity.
Qed.

Lemma int_word_alpha : forall a, a <> "" -> sall is_alpha a = true -> int_word a false = false.
Proof.
  intros [|c a] Hne H; [congruence|]. cbn [sall] in H. apply andb_true_iff in H. destruct H as [Hc _].
  cbn [int_word]. assert (is_digit c = false /\ Ascii.eqb c "_" = false) as [-> ->]; [|reflexivity].
  all_chars c; try (split; reflexivity); discriminate Hc.
Qed.

(* nblocks_re on the decimal rendering of a number *)
Lemma match_nblocks_ok : forall n, match_nblocks (nat_str n) = Some (nat_str n).
Proof.
  intros n. unfold match_nblocks. rewrite (lstrip_tok _ (nat_str_tok n)), (span_digit_all _ (nat_str_digits n)).
  pose proof (nat_str_ne n) as Hne. destruct (nat_str n); [congruence | reflexivity].
Qed.

(* block_re in terms of the words of the line *)
Lemma match_block_ok : forall l n lmin lmax nprim ns0 ns,
  tokens_acc l "" = n :: lmin :: lmax :: nprim :: ns0 :: ns ->
  Forall (fun w => isdecimal w = true) (n :: lmin :: lmax :: nprim :: ns0 :: ns) ->
  match_block l = Some (digits_val lmin 0, digits_val lmax 0, digits_val nprim 0, map (fun x => digits_val x 0) (ns0 :: ns)).
Proof.
  intros l n lmin lmax nprim ns0 ns Ht Hd. unfold match_block. rewrite Ht.
  assert (Hf : forallb isdecimal (n :: lmin :: lmax :: nprim :: ns0 :: ns) = true)
    by (apply forallb_forall; rewrite Forall_forall in Hd; exact Hd).
  rewrite Hf. reflexivity.
Qed.

Lemma decimal_isdecimal : forall s, decimal s -> isdecimal s = true.
Proof. intros s H. apply (decimal_is_integer s H). Qed.
Lemma nat_str_decimal : forall n, decimal (nat_str n).
Proof. intros n. split; [apply nat_str_ne | apply nat_str_digits]. Qed.
Lemma decimal_not_name : forall s, decimal s -> name_word s = false.
Proof. intros s [_ H]. unfold name_word. now rewrite (skip_digits_all s H). Qed.
Lemma decimal_tok : forall s, decimal s -> tok_ok s.
Proof.
  intros s [Hne H]. split; [exact Hne|]. apply (sall_sany_false is_digit); [intros c Hc; apply (digit_facts c Hc) | exact H].
Qed.
Lemma decimal_nobd : forall s, decimal s -> sall nobd s = true.
Proof. intros s [_ H]. apply (sall_impl is_digit nobd); [intros c Hc; apply (digit_facts c Hc) | exact H]. Qed.

(* ================================================================== *)
(* 4. the lines the writer prints                                      *)
(* ================================================================== *)
Definition kfused (s : sshell) : bool := Nat.ltb 1 (List.length (am s)).
Definition ktail (s : sshell) : string :=
  if kfused s then String.concat "" (map (fun _ => " 1") (am s)) else " " +++ nat_str (List.length (coefs s)).
Definition khead (s : sshell) : string :=
  "1 " +++ Z_to_string (zmin (am s)) +++ " " +++ Z_to_string (zmax (am s)) +++ " " +++ nat_str (List.length (exps s)).
Definition kblk (s : sshell) : string := khead s +++ ktail s.
Definition tailw (s : sshell) : list string :=
  if kfused s then map (fun _ => "1") (am s) else [nat_str (List.length (coefs s))].
Definition ksh_lines (s : sshell) : list string := kblk s :: rows_of s.
Definition kcmt (bsname : string) (z : Z) (shs : list sshell) : string :=
  "# " +++ kname z +++ " " +++ bsname +++ " " +++ cs_of shs.
Definition kel (bsname : string) (z : Z) : string := ksym z +++ " " +++ bsname.
Definition knsh (shs : list sshell) : string := "    " +++ nat_str (List.length shs).
Definition kel_lines (bsname : string) (zs : Z * list sshell) : list string :=
  kcmt bsname (fst zs) (snd zs) :: kel bsname (fst zs) :: knsh (snd zs) :: flat_map ksh_lines (snd zs) ++ [""].
Definition kall (bsname : string) (els : list (Z * list sshell)) : list string := flat_map (kel_lines bsname) els.

Definition kel_ok (zs : Z * list sshell) : Prop := (1 <= fst zs <= 120)%Z /\ Forall cp2k_shell_ok (snd zs).

(* ---- the block line ---- *)
Lemma ones_tokens : forall (A : Type) (l : list A) line,
  tokens_acc (line +++ String.concat "" (map (fun _ => " 1") l)) "" = tokens_acc line "" ++ map (fun _ => "1") l.
Proof.
  intros A; induction l as [|x l IH]; intros line.
  - cbn [map String.concat]. now rewrite sapp_nil_r, app_nil_r.
  - cbn [map]. rewrite concat_cons, <- sapp_assoc, IH.
    assert (H1 : tok_ok "1") by (split; [discriminate | reflexivity]).
    pose proof (tokens_snoc 0 "1" H1 line "") as E. change (sp 1 +++ "1") with " 1" in E. rewrite E, <- app_assoc. reflexivity.
Qed.

Lemma ones_nobd : forall (A : Type) (l : list A), sall nobd (String.concat "" (map (fun _ => " 1") l)) = true.
Proof. intros A; induction l as [|x l IH]; [reflexivity|]. cbn [map]. rewrite concat_cons, sall_app, IH. reflexivity. Qed.

Lemma ktail_tokens : forall s line, tokens_acc (line +++ ktail s) "" = tokens_acc line "" ++ tailw s.
Proof.
  intros s line. unfold ktail, tailw. destruct (kfused s); [apply ones_tokens|].
  exact (tokens_snoc 0 _ (nat_str_tok _) line "").
Qed.

(* the shape of the momenta of a well-formed shell: l0, l0 + 1, ..., l0 + k *)
Lemma am_shape : forall s, cp2k_shell_ok s ->
  exists l0 k, am s = zrange l0 (S k) /\ (0 <= l0)%Z /\ (l0 + Z.of_nat k < 25)%Z /\
               (kfused s = true -> List.length (coefs s) = S k) /\ (kfused s = false -> k = 0).
Proof.
  intros s [[_ [Hne [Ha [_ [_ [Hf _]]]]]] Hr]. unfold kfused.
  destruct (am s) as [|l0 t] eqn:E; [congruence|]. exists l0, (List.length t). cbn [hd List.length] in Hr.
  split; [exact Hr|]. rewrite Forall_forall in Ha.
  assert (H0 : (0 <= l0 < 25)%Z) by (apply Ha; now left).
  assert (H1 : In (l0 + Z.of_nat (List.length t))%Z (l0 :: t)).
  { rewrite Hr. apply zrange_In. lia. }
  specialize (Ha _ H1). split; [lia|]. split; [lia|]. cbn [List.length] in *. split.
  - intros H. apply Nat.ltb_lt in H. apply Hf. exact H.
  - intros H. apply Nat.ltb_ge in H. lia.
Qed.

Lemma kblk_facts : forall s, cp2k_shell_ok s ->
  cp2k_block_line s = inr (kblk s) /\ good_line (kblk s) /\
  tokens_acc (kblk s) "" = "1" :: Z_to_string (hd 0%Z (am s)) :: Z_to_string (hd 0%Z (am s) + Z.of_nat (List.length (am s)) - 1)
                               :: nat_str (List.length (exps s)) :: tailw s.
Proof.
  intros s Hs. destruct (am_shape s Hs) as [l0 [k [Ea [H0 [Hk _]]]]].
  destruct (zminmax_range l0 k) as [Emin Emax].
  destruct (nonneg_string l0 H0) as [D0 _]. destruct (nonneg_string (l0 + Z.of_nat k)%Z) as [D1 _]; [lia|].
  split; [|split].
  - unfold cp2k_block_line, kblk, khead, ktail, kfused. rewrite Ea. cbn [zrange]. rewrite !sapp_assoc. reflexivity.
  - unfold good_line, kblk, khead, ktail. rewrite Ea, Emin, Emax, !sall_app.
    rewrite (decimal_nobd _ D0), (decimal_nobd _ D1), (decimal_nobd _ (nat_str_decimal _)).
    destruct (kfused s); [rewrite ones_nobd | rewrite sall_app, (decimal_nobd _ (nat_str_decimal _))]; reflexivity.
  - assert (Eh : hd 0%Z (am s) = l0) by (rewrite Ea; reflexivity).
    assert (El : List.length (am s) = S k) by (rewrite Ea; apply zrange_length).
    rewrite Eh, El. replace (l0 + Z.of_nat (S k) - 1)%Z with (l0 + Z.of_nat k)%Z by lia.
    unfold kblk, khead. rewrite Ea, Emin, Emax.
    rewrite !sapp_assoc.
    change ("1 " +++ Z_to_string l0 +++ " " +++ Z_to_string (l0 + Z.of_nat k) +++ " " +++ nat_str (List.length (exps s)) +++ ktail s)
      with ("1" +++ String " " (Z_to_string l0 +++ String " " (Z_to_string (l0 + Z.of_nat k) +++ String " "
              (nat_str (List.length (exps s)) +++ ktail s)))).
    rewrite (tokens_word_sp "1" " " _ (conj (fun E => eq_ind "1" (fun x => match x with "" => False | _ => True end) I "" E) eq_refl) eq_refl).
    rewrite (tokens_word_sp _ " " _ (decimal_tok _ D0) eq_refl), (tokens_word_sp _ " " _ (decimal_tok _ D1) eq_refl).
    rewrite ktail_tokens. pose proof (tokens_sp_word 0 _ (nat_str_tok (List.length (exps s)))) as E.
    change (sp 0 +++ nat_str (List.length (exps s))) with (nat_str (List.length (exps s))) in E. rewrite E. reflexivity.
Qed.

(* ---- the matrix ---- *)
Lemma leftpad_ok : forall cols pps, List.length cols <= List.length pps -> Forall (Forall cell_ok) cols ->
  leftpad_check cols pps = inr tt.
Proof.
  induction cols as [|c cols IH]; intros pps Hl H; [reflexivity|].
  destruct pps as [|p pps]; [cbn in Hl; lia|]. inversion H as [|? ? Hc Hcs]; subst.
  cbn [leftpad_check]. destruct (mapM_find_point c Hc) as [l ->]. unfold bind. apply IH; [cbn in Hl; lia | exact Hcs].
Qed.

Lemma kshell_nw : forall s, cp2k_shell_ok s -> nw_shell_ok s.
Proof. intros s [H _]. exact H. Qed.

Lemma kcols_ok : forall s, nw_shell_ok s -> Forall (Forall cell_ok) (cp2k_cols s).
Proof.
  intros s [_ [_ [_ [_ [_ [_ [He Hc]]]]]]]. unfold floating in *. unfold cp2k_cols.
  constructor; [apply floats_cells, He|]. rewrite Forall_forall in *. intros col Hcol.
  apply in_map_iff in Hcol. destruct Hcol as [c [<- Hin]]. apply floats_cells, Hc, Hin.
Qed.

Lemma write_shell_klines : forall s, cp2k_shell_ok s -> cp2k_write_shell s = inr (unlines (ksh_lines s)).
Proof.
  intros s Hs. pose proof (kshell_nw s Hs) as Hn. destruct (rows_facts s Hn) as [Hw _].
  destruct (kblk_facts s Hs) as [Eb _].
  unfold cp2k_write_shell. rewrite Eb. unfold bind.
  rewrite leftpad_ok; [| unfold cp2k_cols; cbn [List.length]; rewrite pps_length, map_length; lia | apply kcols_ok, Hn].
  change (cp2k_cols s) with (mat_of s). fold (pps_of s). rewrite Hw.
  unfold ksh_lines, ok. rewrite unlines_cons. reflexivity.
Qed.

(* ---- the name ---- *)
Lemma spaces_no_tokens : forall s, sall is_space s = true -> tokens_acc s "" = [].
Proof.
  induction s as [|c s IH]; intros H; [reflexivity|]. cbn [sall] in H. apply andb_true_iff in H. destruct H as [Hc Hs].
  cbn [tokens_acc]. rewrite Hc. apply IH, Hs.
Qed.

Lemma name_facts_k : forall bsname, cp2k_name_ok bsname -> sall nobd bsname = true /\ sall is_space bsname = false.
Proof.
  intros bsname [H1 [H2 _]]. split.
  - apply (sall_impl _ nobd _) in H1; [exact H1|]. intros c Hc. unfold name_char, cp2k_sep_char in Hc.
    all_chars c; try reflexivity; discriminate Hc.
  - destruct (sall is_space bsname) eqn:E; [|reflexivity]. exfalso. apply H2, spaces_no_tokens, E.
Qed.

(* ---- element and file ---- *)
Lemma cs_nobd : forall shs, Forall nw_shell_ok shs -> sall nobd (cs_of shs) = true.
Proof.
  intros shs H. destruct (cs_facts shs H) as [_ Hg]. unfold good_line, comment_line in Hg.
  rewrite sall_app in Hg. apply andb_true_iff in Hg. apply Hg.
Qed.

Lemma kshells_nw : forall shs, Forall cp2k_shell_ok shs -> Forall nw_shell_ok shs.
Proof. intros shs H. rewrite Forall_forall in *. intros s Hs. apply kshell_nw, H, Hs. Qed.

Lemma write_element_klines : forall bsname zs, kel_ok zs -> cp2k_write_element bsname zs = inr (unlines (kel_lines bsname zs)).
Proof.
  intros bsname [z shs] [Hz Hshs]. cbn [fst snd] in *. destruct (kel_facts z Hz) as [Es [En _]].
  destruct (cs_facts shs (kshells_nw shs Hshs)) as [Ec _].
  unfold cp2k_write_element. rewrite Es, En. unfold bind. rewrite Ec.
  rewrite (mapM_map_ok _ _ cp2k_write_shell (fun s => unlines (ksh_lines s))).
  - unfold kel_lines, kcmt, kel, knsh, ok. cbn [fst snd].
    rewrite !unlines_cons, unlines_app, unlines_flat_map, !sapp_assoc. reflexivity.
  - intros s Hin. apply write_shell_klines. rewrite Forall_forall in Hshs. apply Hshs, Hin.
Qed.

Lemma cp2k_ok_els : forall bsname els, cp2k_ok bsname els -> Forall kel_ok els.
Proof. intros bsname els [_ [_ H]]. exact H. Qed.

Lemma write_electron_klines : forall bsname els, Forall kel_ok els ->
  cp2k_write_electron bsname els = inr (unlines (kall bsname els)).
Proof.
  intros bsname els Hel. unfold cp2k_write_electron.
  rewrite (mapM_map_ok _ _ (cp2k_write_element bsname) (fun zs => unlines (kel_lines bsname zs))).
  - unfold bind, ok, kall. rewrite unlines_flat_map. reflexivity.
  - intros zs Hin. apply write_element_klines. rewrite Forall_forall in Hel. apply Hel, Hin.
Qed.

Lemma kall_good : forall bsname els, cp2k_ok bsname els -> Forall good_line (kall bsname els).
Proof.
  intros bsname els H. pose proof (cp2k_ok_els bsname els H) as Hel. destruct H as [Hn _].
  destruct (name_facts_k bsname Hn) as [Hnb _].
  unfold kall. rewrite Forall_forall in *. intros l Hin. apply in_flat_map in Hin. destruct Hin as [[z shs] [Hzs Hl]].
  destruct (Hel _ Hzs) as [Hz Hshs]. cbn [fst snd] in *. destruct (kel_facts z Hz) as [_ [_ [_ [Hsa [_ Hnn]]]]].
  unfold kel_lines in Hl. cbn [fst snd] in Hl.
  destruct Hl as [<-|[<-|[<-|Hl]]].
  - unfold good_line, kcmt. rewrite !sall_app, Hnn, Hnb, (cs_nobd shs (kshells_nw shs Hshs)). reflexivity.
  - unfold good_line, kel. rewrite !sall_app, (sall_impl is_alpha nobd _ alpha_nobd Hsa), Hnb. reflexivity.
  - unfold good_line, knsh. rewrite sall_app, (decimal_nobd _ (nat_str_decimal _)). reflexivity.
  - apply in_app_or in Hl. destruct Hl as [Hl|[<-|[]]]; [|reflexivity].
    apply in_flat_map in Hl. destruct Hl as [s [Hs Hl]]. rewrite Forall_forall in Hshs. specialize (Hshs s Hs).
    destruct Hl as [<-|Hl]; [apply kblk_facts, Hshs|].
    destruct (rows_facts s (kshell_nw s Hshs)) as [_ [Hg _]]. rewrite Forall_forall in Hg. apply Hg, Hl.
Qed.

(* ---------- cp2k_write_total ---------- *)
Lemma cp2k_write_total : cp2k_write_total_stmt.
Proof. intros bsname els H. eexists. apply write_electron_klines, (cp2k_ok_els bsname els H). Qed.

Lemma kwritten_lines : forall bsname els t, cp2k_ok bsname els -> cp2k_write_electron bsname els = inr t ->
  splitlines t = kall bsname els.
Proof.
  intros bsname els t H E. rewrite (write_electron_klines bsname els (cp2k_ok_els bsname els H)) in E. inversion E; subst.
  apply splitlines_unlines, kall_good, H.
Qed.

(* ---------- cp2k_no_number_lost ---------- *)
Lemma cp2k_no_number_lost : cp2k_no_number_lost_stmt.
Proof.
  intros bsname els t H E x [zs [s [Hzs [Hs Hx]]]].
  rewrite (kwritten_lines bsname els t H E).
  pose proof (cp2k_ok_els bsname els H) as Hel. rewrite Forall_forall in Hel. destruct (Hel zs Hzs) as [_ Hshs].
  rewrite Forall_forall in Hshs. pose proof (kshell_nw s (Hshs s Hs)) as Hok.
  destruct (rows_facts s Hok) as [_ [_ [F2 _]]].
  destruct Hok as [_ [_ [_ [_ [HcF _]]]]].
  assert (HF : Forall (fun r => List.length r = List.length (exps s)) (exps s :: coefs s)) by (constructor; [reflexivity | exact HcF]).
  assert (Hcol : exists c, In c (exps s :: coefs s) /\ In x c).
  { destruct Hx as [Hx|[c [Hc Hx]]]; [exists (exps s); split; [now left | exact Hx] | exists c; split; [now right | exact Hx]]. }
  destruct Hcol as [c [Hc Hxc]].
  destruct (transpose_has _ _ c x HF Hc Hxc) as [row [Hrow Hxr]].
  destruct (Forall2_In_l _ _ _ _ _ row F2 Hrow) as [line [Hline Htok]].
  exists line. split; [|rewrite Htok; exact Hxr].
  unfold kall. apply in_flat_map. exists zs. split; [exact Hzs|].
  unfold kel_lines. right. right. right. apply in_or_app. left. apply in_flat_map. exists s. split; [exact Hs|]. right. exact Hline.
Qed.

(* ================================================================== *)
(* 5. prune_lines(prune_lines(lines, '!'), '#') on the written lines    *)
(* ================================================================== *)
Definition prune2 (L : list string) : list string := prune_lines (prune_lines L "!" true true) "#" true true.

Lemma prune2_app : forall a b, prune2 (a ++ b) = prune2 a ++ prune2 b.
Proof. intros a b. unfold prune2. rewrite (pr_app "!") by reflexivity. apply pr_app. reflexivity. Qed.
Lemma prune2_cons : forall x a, prune2 (x :: a) = prune2 [x] ++ prune2 a.
Proof. intros x a. change (x :: a) with ([x] ++ a). apply prune2_app. Qed.
Lemma prune2_flat_map : forall (A : Type) (f : A -> list string) l, prune2 (flat_map f l) = flat_map (fun x => prune2 (f x)) l.
Proof. intros A f; induction l as [|a l IH]; [reflexivity|]. cbn [flat_map]. now rewrite prune2_app, IH. Qed.

Lemma prune2_keep : forall l c r, strip_ws l = String c r -> Ascii.eqb c "!" = false -> Ascii.eqb c "#" = false ->
  prune2 [l] = [String c r].
Proof.
  intros l c r Hs H1 H2. pose proof (strip_idem l) as Hi. rewrite Hs in Hi.
  unfold prune2. rewrite (pr_unfold "!") by reflexivity. cbn [map]. rewrite Hs.
  cbn [filter is_empty first_in sany orb negb]. rewrite H1. cbn [filter is_empty orb negb].
  rewrite pr_unfold by reflexivity. cbn [map]. rewrite Hi. cbn [filter is_empty first_in sany orb negb]. rewrite H2. reflexivity.
Qed.

Lemma prune2_comment : forall X, prune2 [String "#" X] = [].
Proof.
  intros X. destruct (strip_ws_head "#" X eq_refl) as [Z EZ]. pose proof (strip_idem (String "#" X)) as Hi. rewrite EZ in Hi.
  unfold prune2. rewrite (pr_unfold "!") by reflexivity. cbn [map]. rewrite EZ.
  cbn [filter is_empty first_in sany orb negb Ascii.eqb Bool.eqb].
  rewrite pr_unfold by reflexivity. cbn [map]. rewrite Hi. reflexivity.
Qed.

Lemma prune2_blank : prune2 [""] = [].
Proof. reflexivity. Qed.

(* ---- the number rows ---- *)
Definition krow (r : string) : Prop :=
  exists e cs rest, tokens_acc r "" = e :: cs /\ is_floating e = true /\ strip_ws r = e +++ rest.

Lemma krows : forall s, nw_shell_ok s -> Forall krow (rows_of s).
Proof.
  intros s Hs. destruct (rows_facts s Hs) as [_ [_ [F2 _]]].
  destruct Hs as [Hex [_ [_ [Hcne [HcF [_ [He Hc]]]]]]]. unfold floating in *.
  assert (HT : Forall (Forall (fun x => is_floating x = true)) (transpose (exps s :: coefs s))).
  { apply transpose_Forall. constructor; assumption. }
  assert (HL : Forall (fun r => List.length r = List.length (exps s :: coefs s)) (transpose (exps s :: coefs s)))
    by apply transpose_rowlen.
  pose proof (Forall_and _ _ _ _ HT HL) as HTL.
  refine (Forall2_Forall_r _ _ _ _ _ _ _ _ HTL F2). intros srow line [Hf Hl] Ht. cbv beta in Ht.
  destruct srow as [|e cs]; [cbn in Hl; discriminate|]. inversion Hf; subst.
  destruct (strip_tok_prefix line e cs Ht) as [rest Er]. exists e, cs, rest. repeat split; assumption.
Qed.

Lemma floating_head : forall c t, is_floating (String c t) = true -> Ascii.eqb c "!" = false /\ Ascii.eqb c "#" = false.
Proof. intros c t H. all_chars c; try (split; reflexivity); exfalso; cbn in H; discriminate H. Qed.

Lemma krow_prune : forall r, krow r -> prune2 [r] = [strip_ws r].
Proof.
  intros r [e [cs [rest [_ [He Es]]]]]. destruct e as [|c t]; [discriminate He|].
  destruct (floating_head c t He) as [H1 H2]. rewrite Es. cbn [String.append]. apply (prune2_keep r c _); assumption.
Qed.

Lemma prune2_rows : forall rows, Forall krow rows -> prune2 rows = map strip_ws rows.
Proof.
  induction rows as [|r rows IH]; intros H; [reflexivity|]. inversion H as [|? ? Hr Hrs]; subst.
  rewrite prune2_cons, (krow_prune r Hr), (IH Hrs). reflexivity.
Qed.

(* ---- the pruned file ---- *)
Definition kbl (s : sshell) : list string := strip_ws (kblk s) :: map strip_ws (rows_of s).
Definition kblock (bsname : string) (zs : Z * list sshell) : list string :=
  strip_ws (kel bsname (fst zs)) :: nat_str (List.length (snd zs)) :: flat_map kbl (snd zs).

Lemma kblk_strip : forall s, cp2k_shell_ok s -> exists rest, strip_ws (kblk s) = String "1" rest.
Proof.
  intros s Hs. destruct (kblk_facts s Hs) as [_ [_ Ht]]. destruct (strip_tok_prefix _ _ _ Ht) as [rest E].
  exists rest. exact E.
Qed.

Lemma prune2_shell : forall s, cp2k_shell_ok s -> prune2 (ksh_lines s) = kbl s.
Proof.
  intros s Hs. unfold ksh_lines, kbl. rewrite prune2_cons, (prune2_rows _ (krows s (kshell_nw s Hs))).
  destruct (kblk_strip s Hs) as [rest E]. rewrite (prune2_keep (kblk s) "1" rest E eq_refl eq_refl), E. reflexivity.
Qed.

Lemma kel_strip : forall bsname z, cp2k_name_ok bsname -> (1 <= z <= 120)%Z ->
  exists r, strip_ws (kel bsname z) = ksym z +++ String " " r /\ tokens_acc r "" = tokens_acc bsname "".
Proof.
  intros bsname z Hn Hz. destruct (name_facts_k bsname Hn) as [_ Hsp]. pose proof (ksym_tok z Hz) as Ht.
  destruct (strip_word_rest (ksym z) bsname Ht Hsp) as [r Er]. exists r. split; [exact Er|].
  pose proof (tokens_strip (kel bsname z)) as E. unfold kel in E at 1. rewrite Er in E.
  unfold kel in E. change (ksym z +++ " " +++ bsname) with (ksym z +++ String " " bsname) in E.
  rewrite !(tokens_word_sp _ " " _ Ht eq_refl) in E. now inversion E.
Qed.

Lemma prune2_element : forall bsname zs, cp2k_name_ok bsname -> kel_ok zs -> prune2 (kel_lines bsname zs) = kblock bsname zs.
Proof.
  intros bsname [z shs] Hn [Hz Hshs]. cbn [fst snd] in *. unfold kel_lines, kblock. cbn [fst snd].
  rewrite prune2_cons. unfold kcmt at 1. change ("# " +++ kname z +++ " " +++ bsname +++ " " +++ cs_of shs)
    with (String "#" (" " +++ kname z +++ " " +++ bsname +++ " " +++ cs_of shs)).
  rewrite prune2_comment. cbn [app]. rewrite prune2_cons.
  destruct (kel_strip bsname z Hn Hz) as [r [Er _]]. destruct (kel_facts z Hz) as [_ [_ [Hne [Ha _]]]].
  destruct (ksym z) as [|c y] eqn:Ek; [congruence|]. cbn [sall] in Ha. apply andb_true_iff in Ha. destruct Ha as [Hc _].
  assert (Hb : Ascii.eqb c "!" = false /\ Ascii.eqb c "#" = false) by (all_chars c; try (split; reflexivity); discriminate Hc).
  cbn [String.append] in Er. rewrite (prune2_keep _ c _ Er (proj1 Hb) (proj2 Hb)), Er. cbn [app]. f_equal.
  rewrite prune2_cons. unfold knsh at 1. change "    " with (sp 4).
  assert (En : strip_ws (sp 4 +++ nat_str (List.length shs)) = nat_str (List.length shs))
    by (rewrite strip_sp; apply strip_tok, nat_str_tok).
  pose proof (nat_str_digits (List.length shs)) as Hd. pose proof (nat_str_ne (List.length shs)) as Hnn.
  destruct (nat_str (List.length shs)) as [|d y'] eqn:Ed; [congruence|]. cbn [sall] in Hd. apply andb_true_iff in Hd. destruct Hd as [Hd _].
  assert (Hb2 : Ascii.eqb d "!" = false /\ Ascii.eqb d "#" = false) by (all_chars d; try (split; reflexivity); discriminate Hd).
  rewrite (prune2_keep _ d y' En (proj1 Hb2) (proj2 Hb2)). cbn [app]. f_equal.
  rewrite prune2_app, prune2_blank, app_nil_r, prune2_flat_map.
  apply flat_map_ext_in. intros s Hin. apply prune2_shell. rewrite Forall_forall in Hshs. apply Hshs, Hin.
Qed.

Lemma kpruned : forall bsname els, cp2k_ok bsname els -> prune2 (kall bsname els) = concat (map (kblock bsname) els).
Proof.
  intros bsname els H. pose proof (cp2k_ok_els bsname els H) as Hel. destruct H as [Hn _].
  unfold kall. rewrite prune2_flat_map, flat_map_concat_map. f_equal.
  apply map_ext_in. intros zs Hin. apply prune2_element; [exact Hn|]. rewrite Forall_forall in Hel. apply Hel, Hin.
Qed.

(* ================================================================== *)
(* 6. partition_lines at the element lines                             *)
(* ================================================================== *)
Definition kcond (x : string) : res bool := ok (is_element_shell_line x).

Lemma point_not_word : forall e, sany (Ascii.eqb ".") e = true -> sall is_word e = false.
Proof.
  induction e as [|c e IH]; intros H; [discriminate H|]. cbn [sany] in H. cbn [sall].
  destruct (Ascii.eqb_spec "."%char c) as [<-|Hne]; [reflexivity|]. cbn [orb] in H. rewrite (IH H). apply andb_false_r.
Qed.

Lemma floating_not_word : forall e, is_floating e = true -> sall is_word e = false.
Proof. intros e H. apply point_not_word. apply (floating_is_cell e H). Qed.

Lemma krow_not_element : forall r, krow r -> kcond (strip_ws r) = inr false.
Proof.
  intros r [e [cs [rest [Ht [He _]]]]]. unfold kcond, ok. f_equal.
  apply (not_element_line _ e cs); [now rewrite tokens_strip|]. left. apply floating_not_word, He.
Qed.

Lemma knsh_not_element : forall n, kcond (nat_str n) = inr false.
Proof.
  intros n. unfold kcond, ok. f_equal. apply (not_element_line _ (nat_str n) []); [|right; now left].
  pose proof (tokens_sp_word 0 _ (nat_str_tok n)) as E. exact E.
Qed.

Lemma kblk_not_element : forall s, cp2k_shell_ok s -> kcond (strip_ws (kblk s)) = inr false.
Proof.
  intros s Hs. destruct (kblk_facts s Hs) as [_ [_ Ht]]. destruct (am_shape s Hs) as [l0 [k [Ea [H0 _]]]].
  unfold kcond, ok. f_equal. eapply not_element_line; [rewrite tokens_strip; exact Ht|]. right. right.
  assert (Eh : hd 0%Z (am s) = l0) by (rewrite Ea; reflexivity). rewrite Eh.
  destruct (nonneg_string l0 H0) as [D0 _]. cbn [forallb]. now rewrite (decimal_not_name _ D0).
Qed.

Lemma kel_match : forall bsname z, cp2k_name_ok bsname -> (1 <= z <= 120)%Z ->
  match_element_shell (strip_ws (kel bsname z)) = Some (ksym z).
Proof.
  intros bsname z Hn Hz. destruct (kel_strip bsname z Hn Hz) as [r [Er Et]]. destruct (kel_facts z Hz) as [_ [_ [Hne [Ha _]]]].
  destruct Hn as [_ [H2 H3]]. rewrite Er. apply mes_ok; try assumption; try reflexivity; rewrite Et; assumption.
Qed.

Lemma kblock_shape : forall bsname zs, cp2k_name_ok bsname -> kel_ok zs -> block_shape kcond (kblock bsname zs).
Proof.
  intros bsname [z shs] Hn [Hz Hshs]. cbn [fst snd] in *. unfold kblock. cbn [fst snd].
  eexists. eexists. split; [reflexivity|]. split.
  - unfold kcond, is_element_shell_line. now rewrite (kel_match bsname z Hn Hz).
  - constructor; [apply knsh_not_element|]. rewrite Forall_forall in *. intros l Hl. apply in_flat_map in Hl.
    destruct Hl as [s [Hs Hl]]. specialize (Hshs s Hs). destruct Hl as [<-|Hl]; [apply kblk_not_element, Hshs|].
    apply in_map_iff in Hl. destruct Hl as [row [<- Hrow]]. apply krow_not_element.
    pose proof (krows s (kshell_nw s Hshs)) as Hk. rewrite Forall_forall in Hk. apply Hk, Hrow.
Qed.

Lemma kpartition : forall bs, Forall (block_shape kcond) bs -> partition_lines (concat bs) kcond true 1 0 0 = inr bs.
Proof.
  intros bs H. unfold partition_lines. rewrite (part_blocks kcond bs [] [] H). cbn [flush app]. unfold bind.
  rewrite existsb_false; [reflexivity|]. intros b Hb. rewrite Forall_forall in H. destruct (H b Hb) as [h [r [-> _]]]. reflexivity.
Qed.

(* ================================================================== *)
(* 7. one block of a section: `n lmin lmax nprim nshell...` and its matrix *)
(* ================================================================== *)
Definition nsh (s : sshell) : list Z :=
  if kfused s then map (fun _ => 1%Z) (am s) else [Z.of_nat (List.length (coefs s))].

Lemma tailw_facts : forall s, am s <> [] ->
  Forall (fun w => isdecimal w = true) (tailw s) /\ map (fun x => digits_val x 0) (tailw s) = nsh s /\ tailw s <> [].
Proof.
  intros s Hne. unfold tailw, nsh. destruct (kfused s).
  - split; [|split].
    + rewrite Forall_forall. intros w Hw. apply in_map_iff in Hw. destruct Hw as [x [<- _]]. reflexivity.
    + rewrite map_map. reflexivity.
    + destruct (am s); [congruence | discriminate].
  - split; [|split; [|discriminate]].
    + constructor; [apply decimal_isdecimal, nat_str_decimal | constructor].
    + cbn [map]. now rewrite nat_str_val.
Qed.

Lemma split_fused : forall k l ex cs, List.length cs = k ->
  cp2k_split l (map (fun _ => 1%Z) (zrange l k)) ex cs =
    inr (map (fun lc => mkShell (cp2k_ftype [fst lc]) "" [fst lc] ex [snd lc]) (combine (zrange l k) cs)).
Proof.
  induction k as [|k IH]; intros l ex cs Hl.
  - destruct cs; [reflexivity | discriminate Hl].
  - destruct cs as [|c cs]; [discriminate Hl|]. cbn [zrange map cp2k_split combine fst snd].
    rewrite (ftype_ok "spherical" [l]) by discriminate. unfold bind.
    change (Z.to_nat 1) with 1. cbn [skipn firstn]. rewrite (IH (l + 1)%Z ex cs) by (cbn in Hl; lia). reflexivity.
Qed.

Lemma ksplit : forall s, cp2k_shell_ok s ->
  cp2k_split (hd 0%Z (am s)) (nsh s) (map (norm false) (exps s)) (map (map (norm false)) (coefs s)) = inr (cp2k_expected_shell s).
Proof.
  intros s Hs. destruct (am_shape s Hs) as [l0 [k [Ea [_ [_ [Hf Hn]]]]]].
  unfold nsh, cp2k_expected_shell. fold (kfused s). destruct (kfused s) eqn:Ef.
  - rewrite Ea. cbn [hd]. change (l0 :: zrange (l0 + 1) k) with (zrange l0 (S k)).
    rewrite split_fused by (rewrite map_length; now apply Hf).
    rewrite combine_map_r. reflexivity.
  - rewrite (Hn eq_refl) in Ea. rewrite Ea. cbn [zrange hd cp2k_split].
    rewrite (ftype_ok "spherical" [l0]) by discriminate. unfold bind, ok.
    rewrite Nat2Z.id, <- (map_length (map (norm false)) (coefs s)), firstn_all. reflexivity.
Qed.

Lemma nsh_facts : forall s, cp2k_shell_ok s ->
  Z.of_nat (List.length (nsh s)) = Z.of_nat (List.length (am s)) /\ zsum (nsh s) = Z.of_nat (List.length (coefs s)).
Proof.
  intros s Hs. destruct (am_shape s Hs) as [l0 [k [Ea [_ [_ [Hf Hn]]]]]]. unfold nsh, zsum. destruct (kfused s) eqn:Ef.
  - rewrite map_length, zsum_ones, Ea, zrange_length, (Hf eq_refl). split; [reflexivity | lia].
  - rewrite Ea, (Hn eq_refl). cbn. split; [reflexivity | lia].
Qed.

Lemma firstn_app_exact : forall (A : Type) (a b : list A), firstn (List.length a) (a ++ b) = a.
Proof. intros A a b. rewrite firstn_app, Nat.sub_diag, firstn_all. cbn [firstn]. apply app_nil_r. Qed.
Lemma skipn_app_exact : forall (A : Type) (a b : list A), skipn (List.length a) (a ++ b) = b.
Proof. intros A a b. rewrite skipn_app, Nat.sub_diag, skipn_all. reflexivity. Qed.

Lemma bind_inr : forall (A B : Type) (a : A) (f : A -> res B), bind (inr a) f = f a.
Proof. reflexivity. Qed.
Lemma bind_ok : forall (A B : Type) (a : A) (f : A -> res B), bind (ok a) f = f a.
Proof. reflexivity. Qed.

Lemma read_block : forall s n rest, cp2k_shell_ok s ->
  cp2k_read_blocks (S n) (kbl s ++ rest) = (do more <- cp2k_read_blocks n rest; ok (cp2k_expected_shell s ++ more)).
Proof.
  intros s n rest Hs. pose proof (kshell_nw s Hs) as Hn.
  destruct (kblk_facts s Hs) as [_ [_ Ht]]. destruct (am_shape s Hs) as [l0 [k [Ea [H0 [Hk _]]]]].
  assert (Hne : am s <> []) by (rewrite Ea; discriminate).
  destruct (tailw_facts s Hne) as [Td [Tv Tne]].
  assert (Eh : hd 0%Z (am s) = l0) by (rewrite Ea; reflexivity).
  assert (El : List.length (am s) = S k) by (rewrite Ea; apply zrange_length).
  destruct (nonneg_string l0 H0) as [D0 V0].
  destruct (nonneg_string (l0 + Z.of_nat (S k) - 1)%Z) as [D1 V1]; [lia|].
  destruct (rows_facts s Hn) as [_ [_ [_ [Hlen Hp]]]].
  destruct (nsh_facts s Hs) as [N1 N2].
  unfold kbl. cbn [app cp2k_read_blocks].
  destruct (tailw s) as [|t0 ts] eqn:Etw; [congruence|].
  rewrite (match_block_ok (strip_ws (kblk s)) "1" (Z_to_string l0) (Z_to_string (l0 + Z.of_nat (S k) - 1))
                          (nat_str (List.length (exps s))) t0 ts).
  2:{ rewrite tokens_strip, Ht, Eh, El. reflexivity. }
  2:{ constructor; [reflexivity|]. constructor; [apply decimal_isdecimal, D0|]. constructor; [apply decimal_isdecimal, D1|].
      constructor; [apply decimal_isdecimal, nat_str_decimal | exact Td]. }
  rewrite Tv, V0, V1, nat_str_val, N1, El.
  replace (Z.of_nat (S k) =? l0 + Z.of_nat (S k) - 1 - l0 + 1)%Z with true by (symmetry; apply Z.eqb_eq; lia).
  cbn [negb]. rewrite Nat2Z.id, <- Hlen, <- (map_length strip_ws (rows_of s)), firstn_app_exact, skipn_app_exact.
  unfold parse_primitive_matrix_np_ng. rewrite ppm_strip, Hp, bind_inr. cbn [fst snd].
  rewrite !map_length, Hlen, Z.eqb_refl, N2, Z.eqb_refl. cbn [negb]. rewrite bind_ok. cbn [fst snd].
  rewrite <- Eh, (ksplit s Hs), bind_inr. reflexivity.
Qed.

Lemma read_blocks_all : forall shs, Forall cp2k_shell_ok shs ->
  cp2k_read_blocks (List.length shs) (flat_map kbl shs) = inr (flat_map cp2k_expected_shell shs).
Proof.
  induction shs as [|s shs IH]; intros H; [reflexivity|]. inversion H as [|? ? H1 H2]; subst.
  cbn [List.length flat_map]. rewrite (read_block s _ _ H1), (IH H2). reflexivity.
Qed.

(* ================================================================== *)
(* 8. a section, the loop over the sections                            *)
(* ================================================================== *)
Lemma extend_new : forall z shs d, ~ In z (map fst d) -> extend_element z shs d = d ++ [(z, shs)].
Proof.
  intros z shs; induction d as [|[z' l] d IH]; intros H; [reflexivity|].
  cbn [extend_element map fst In] in *. destruct (Z.eqb_spec z z') as [->|Hne]; [exfalso; apply H; now left|].
  cbn [app]. rewrite IH; [reflexivity|]. intros Hin. apply H. now right.
Qed.

Lemma read_section : forall bsname zs d, cp2k_name_ok bsname -> kel_ok zs ->
  cp2k_read_shell (kblock bsname zs) d = inr (extend_element (fst zs) (flat_map cp2k_expected_shell (snd zs)) d).
Proof.
  intros bsname [z shs] d Hn [Hz Hshs]. cbn [fst snd] in *. destruct (kel_facts z Hz) as [_ [_ [Hne [Ha [Hback _]]]]].
  unfold cp2k_read_shell, kblock. cbn [fst snd]. rewrite (kel_match bsname z Hn Hz), (int_word_alpha _ Hne Ha), Hback.
  unfold bind at 1. rewrite match_nblocks_ok, nat_str_val, Nat2Z.id, (read_blocks_all shs Hshs). reflexivity.
Qed.

Lemma read_sections : forall bsname els d, cp2k_name_ok bsname -> Forall kel_ok els -> NoDup (map fst els) ->
  (forall z, In z (map fst els) -> ~ In z (map fst d)) ->
  cp2k_sections (map (kblock bsname) els) d = inr (d ++ cp2k_expected els).
Proof.
  intros bsname; induction els as [|zs els IH]; intros d Hn Hel Hnd Hdis.
  - cbn. now rewrite app_nil_r.
  - inversion Hel as [|? ? H1 H2]; subst. cbn [map] in Hnd. inversion Hnd as [|? ? Hnotin Hnd']; subst.
    cbn [map cp2k_sections]. rewrite (read_section bsname zs d Hn H1). unfold bind.
    rewrite extend_new by (apply Hdis; now left).
    rewrite IH; [| exact Hn | exact H2 | exact Hnd' |].
    + unfold cp2k_expected. cbn [map]. rewrite <- app_assoc. reflexivity.
    + intros z Hz. rewrite map_app, in_app_iff. cbn [map In fst]. intros [Hin|[Heq|[]]].
      * apply (Hdis z); [now right | exact Hin].
      * subst z. apply Hnotin, Hz.
Qed.

(* ================================================================== *)
(* 9. the round trip                                                   *)
(* ================================================================== *)
Lemma read_kall : forall bsname els, cp2k_ok bsname els -> cp2k_read_electron (kall bsname els) = inr (cp2k_expected els).
Proof.
  intros bsname els H. pose proof (cp2k_ok_els bsname els H) as Hel. pose proof (kpruned bsname els H) as Hp.
  destruct H as [Hn [Hnd _]].
  unfold cp2k_read_electron. fold (prune2 (kall bsname els)). rewrite Hp.
  destruct els as [|e els]; [reflexivity|].
  assert (Hsh : Forall (block_shape kcond) (map (kblock bsname) (e :: els))).
  { rewrite Forall_forall in *. intros b Hb. apply in_map_iff in Hb. destruct Hb as [zs [<- Hzs]].
    apply kblock_shape; [exact Hn | apply Hel, Hzs]. }
  change (fun x : string => ok (is_element_shell_line x)) with kcond.
  rewrite (kpartition _ Hsh).
  change (concat (map (kblock bsname) (e :: els))) with (kblock bsname e ++ concat (map (kblock bsname) els)).
  unfold kblock at 1. cbn [app]. unfold bind.
  rewrite (read_sections bsname (e :: els) [] Hn Hel Hnd); [reflexivity|]. intros z _ [].
Qed.

Lemma cp2k_roundtrip_exact : cp2k_roundtrip_stmt.
Proof.
  intros bsname els H. unfold cp2k_roundtrip. rewrite (write_electron_klines bsname els (cp2k_ok_els bsname els H)). unfold bind.
  rewrite (splitlines_unlines _ (kall_good bsname els H)). apply read_kall, H.
Qed.

(* ================================================================== *)
(* 10. the hypotheses of cp2k_ok that cannot be dropped, what is not needed, what is lost, a concrete instance *)
(* ================================================================== *)
Lemma cp2k_roundtrip_name_631g : cp2k_roundtrip_name_631g_stmt.
Proof. vm_compute. reflexivity. Qed.
Lemma cp2k_roundtrip_name_binning : cp2k_roundtrip_name_binning_stmt.
Proof. vm_compute. reflexivity. Qed.
Lemma cp2k_roundtrip_name_slash : cp2k_roundtrip_name_slash_stmt.
Proof. vm_compute. reflexivity. Qed.
Lemma cp2k_roundtrip_name_underscore : cp2k_roundtrip_name_underscore_stmt.
Proof. vm_compute. reflexivity. Qed.
Lemma cp2k_roundtrip_name_paren : cp2k_roundtrip_name_paren_stmt.
Proof. vm_compute. reflexivity. Qed.
Lemma cp2k_roundtrip_noname : cp2k_roundtrip_noname_stmt.
Proof. vm_compute. reflexivity. Qed.
Lemma cp2k_roundtrip_nlname : cp2k_roundtrip_nlname_stmt.
Proof. vm_compute. reflexivity. Qed.
Lemma cp2k_roundtrip_name_fine : cp2k_roundtrip_name_fine_stmt.
Proof. repeat constructor; vm_compute; reflexivity. Qed.
Lemma cp2k_roundtrip_gap : cp2k_roundtrip_gap_stmt.
Proof. vm_compute. reflexivity. Qed.
Lemma cp2k_roundtrip_swapped : cp2k_roundtrip_swapped_stmt.
Proof. vm_compute. reflexivity. Qed.
Lemma cp2k_roundtrip_fused : cp2k_roundtrip_fused_stmt.
Proof. vm_compute. reflexivity. Qed.
Lemma cp2k_roundtrip_nocoef : cp2k_roundtrip_nocoef_stmt.
Proof. vm_compute. reflexivity. Qed.
Lemma cp2k_roundtrip_noprim : cp2k_roundtrip_noprim_stmt.
Proof. vm_compute. reflexivity. Qed.
Lemma cp2k_roundtrip_dup : cp2k_roundtrip_dup_stmt.
Proof. vm_compute. reflexivity. Qed.
Lemma cp2k_write_am25 : cp2k_write_am25_stmt.
Proof. vm_compute. reflexivity. Qed.
Lemma cp2k_write_z121 : cp2k_write_z121_stmt.
Proof. vm_compute. reflexivity. Qed.
Lemma cp2k_write_nopoint : cp2k_write_nopoint_stmt.
Proof. vm_compute. reflexivity. Qed.
Lemma cp2k_write_noam : cp2k_write_noam_stmt.
Proof. vm_compute. reflexivity. Qed.
Lemma cp2k_roundtrip_empty : cp2k_roundtrip_empty_stmt.
Proof. split; vm_compute; reflexivity. Qed.
Lemma cp2k_roundtrip_noshell : cp2k_roundtrip_noshell_stmt.
Proof. vm_compute. reflexivity. Qed.
Lemma cp2k_roundtrip_cartesian : cp2k_roundtrip_cartesian_stmt.
Proof. vm_compute. reflexivity. Qed.
Lemma cp2k_roundtrip_spd : cp2k_roundtrip_spd_stmt.
Proof. vm_compute. reflexivity. Qed.

Example cp2k_example : cp2k_example_stmt.
Proof.
  split; [|repeat split; vm_compute; reflexivity].
  unfold cp2k_ok, cx_els. split; [|split].
  - split; [reflexivity|]. split; [discriminate|]. repeat constructor.
  - cbn [map fst]. repeat constructor; cbn [In]; intros H; repeat (destruct H as [H|H]; [discriminate H|]); exact H.
  - repeat constructor; cbn; try lia; try discriminate; try reflexivity.
Qed.

Print Assumptions cp2k_write_total.
Print Assumptions cp2k_roundtrip_exact.
Print Assumptions cp2k_no_number_lost.
Print Assumptions cp2k_roundtrip_name_631g.
Print Assumptions cp2k_roundtrip_name_binning.
Print Assumptions cp2k_roundtrip_name_slash.
Print Assumptions cp2k_roundtrip_name_underscore.
Print Assumptions cp2k_roundtrip_name_paren.
Print Assumptions cp2k_roundtrip_noname.
Print Assumptions cp2k_roundtrip_nlname.
Print Assumptions cp2k_roundtrip_name_fine.
Print Assumptions cp2k_roundtrip_gap.
Print Assumptions cp2k_roundtrip_swapped.
Print Assumptions cp2k_roundtrip_fused.
Print Assumptions cp2k_roundtrip_nocoef.
Print Assumptions cp2k_roundtrip_noprim.
Print Assumptions cp2k_roundtrip_dup.
Print Assumptions cp2k_write_am25.
Print Assumptions cp2k_write_z121.
Print Assumptions cp2k_write_nopoint.
Print Assumptions cp2k_write_noam.
Print Assumptions cp2k_roundtrip_empty.
Print Assumptions cp2k_roundtrip_noshell.
Print Assumptions cp2k_roundtrip_cartesian.
Print Assumptions cp2k_roundtrip_spd.
Print Assumptions cp2k_example.
