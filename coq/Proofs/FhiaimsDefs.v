(* Statements about the FHI-aims writer (writers/fhiaims.py write_fhiaims; there is no reader): the writer is total on
   well-formed input; the written text carries every exponent, and every coefficient of the shells that have more or fewer
   than ONE primitive.  It does NOT carry the coefficient of a one-primitive shell (fhi_no_number_lost_counterexample) nor
   anything of an ECP (fhi_ecp_ignored_stmt; write_formatted_basis_str refuses such a basis before it calls the writer:
   fhi_guard_stmt).  Definitions only; the proofs are in Proofs/FhiaimsSpec.v. *)
From BSE Require Import Model.Val Model.Text Model.Basis Model.Manip Model.Matrix Model.Lut Model.Elements Model.Nwchem
                        Model.NwchemEcp Model.Fhiaims Proofs.MatrixDefs Proofs.NwchemDefs Proofs.JaguarDefs.

(* ---------- well-formed input of the writer (what is left after uncontract_general / uncontract_spdf(0) / sort_basis) ---------- *)
Definition fhi_shell_ok (s : sshell) : Prop :=
  (* exactly one angular momentum (`assert len(am) == 1`); ANY integer: it is printed as a number, not as a letter *)
  (exists l, am s = [l]) /\
  (* every column has one coefficient per primitive (zip() in write_matrix cuts every column to the shortest one) *)
  Forall (fun c => List.length c = List.length (exps s)) (coefs s) /\
  (* `floating s` (Proofs/NwchemDefs.v): the string matches helpers.floating_re entirely *)
  Forall floating (exps s) /\ Forall (Forall floating) (coefs s).

Definition fhi_ok (els : list (Z * list sshell)) : Prop :=
  (* an atomic number of the table of lut.py (1 .. 120) *)
  Forall (fun zs => (1 <= fst zs <= 120)%Z /\ Forall fhi_shell_ok (snd zs)) els.
(* no condition on name / types / ecps, none on the keys being distinct *)

(* ---------- what is kept ---------- *)
(* x is an exponent of some shell, or a coefficient of a shell whose number of primitives is not 1 *)
Definition fhi_kept_number_of (els : list (Z * list sshell)) (x : string) : Prop :=
  exists zs s, In zs els /\ In s (snd zs) /\
    (In x (exps s) \/ (List.length (exps s) <> 1 /\ exists c, In c (coefs s) /\ In x c)).

(* ---------- statements ---------- *)
Definition fhi_write_total_stmt : Prop :=
  forall name types els ecps, fhi_ok els -> exists t, fhi_write_all name types els ecps = inr t.

(* C04 at full strength (every exponent and every coefficient, nw_number_of of Proofs/NwchemDefs.v, is a white-space
   delimited token of some line; convert_exp=False: the numbers are printed as they are).  FALSE: see
   fhi_no_number_lost_counterexample_stmt *)
Definition fhi_no_number_lost_stmt : Prop :=
  forall name types els ecps t, fhi_ok els -> fhi_write_all name types els ecps = inr t ->
    forall x, nw_number_of els x -> exists line, In line (splitlines t) /\ In x (tokens_acc line "").

(* what does hold: nothing is lost of what is kept *)
Definition fhi_no_number_lost_partial_stmt : Prop :=
  forall name types els ecps t, fhi_ok els -> fhi_write_all name types els ecps = inr t ->
    forall x, fhi_kept_number_of els x -> exists line, In line (splitlines t) /\ In x (tokens_acc line "").

(* the lines the writer puts in front of every element: fhi_pre pure ++ ["            # Sym name"] *)
Definition fhi_pre (tf : string) : list string :=
  [""; "            # The default minimal basis should not be included"; "            include_min_basis .false.";
   "            # Use spherical functions?"; "            pure_gauss " +++ tf].

(* a shell with ONE primitive is written as `gaussian l 1 exponent`: its coefficient (0.5 here) is not in the text.
   Valid data: every uncontracted function of every basis set is such a shell; its coefficient is usually, not always,
   1.0 - and a single primitive is normalised by the program that reads the file, so the VALUE of the coefficient does
   not matter there; what C04 asks for, the coefficient itself in the text, does not hold *)
Definition fhi_no_number_lost_counterexample_stmt : Prop :=
  let els := [(1%Z, [mkShell "gto" "" [0%Z] ["3.0"] [["0.5"]]])] in
  let t := String.concat nl1 (fhi_pre ".true." ++ ["            # H X"; "gaussian 0 1 3.0"; ""]) in
  fhi_ok els /\ nw_number_of els "0.5" /\ fhi_write_all "X" ["gto"] els [] = inr t /\ no_tok t "0.5" /\
  ~ fhi_no_number_lost_stmt.

(* ---------- the ECP part ---------- *)
(* C04 for the ECP part at full strength (wecp_number_of, wecp_int_of: Proofs/JaguarDefs.v).  FALSE *)
Definition fhi_ecp_no_number_lost_stmt : Prop :=
  forall name types els ecps t, fhi_ok els -> fhi_write_all name types els ecps = inr t ->
    (forall x, wecp_number_of ecps x -> exists line, In line (splitlines t) /\ In x (tokens_acc line "")) /\
    (forall n, wecp_int_of ecps n -> exists line, In line (splitlines t) /\ In (Z_to_string n) (tokens_acc line "")).

(* write_fhiaims does not look at the ECP data at all: the text is the same whatever they are ... *)
Definition fhi_ecp_ignored_stmt : Prop :=
  forall name types els ecps ecps', fhi_write_all name types els ecps = fhi_write_all name types els ecps'.
(* ... so that an ECP-only basis is written as the empty text *)
Definition fhi_ecp_lost_stmt : Prop :=
  (forall name types ecps, fhi_write_all name types [] ecps = inr "") /\ ~ fhi_ecp_no_number_lost_stmt.

(* this cannot be reached through the public entry point: write_formatted_basis_str raises RuntimeError for a basis whose
   function_types are not all of gto, gto_cartesian, gto_spherical ('scalar_ecp' is in function_types whenever there is an
   ECP), and calls the writer otherwise *)
Definition fhi_guard_stmt : Prop :=
  (forall name types els ecps, In "scalar_ecp" types -> fhi_write_formatted name types els ecps = inl ERuntime) /\
  (forall name types els ecps, Forall (fun t => In t fhi_valid_types) types ->
     fhi_write_formatted name types els ecps = fhi_write_all name types els ecps).

(* ---------- which conditions of fhi_ok cannot be dropped ---------- *)
Definition fhi_w (shs : list sshell) : res string := fhi_write_all "X" ["gto"] [(1%Z, shs)] [].
Definition fhi_t (lines : list string) : res string :=
  inr (String.concat nl1 (fhi_pre ".true." ++ ["            # H X"] ++ lines ++ [""])).

(* `exists l, am s = [l]`: a fused shell or a shell without angular momentum is an AssertionError; any integer is printed *)
Definition fhi_am_stmt : Prop :=
  fhi_w [mkShell "gto" "" [0%Z; 1%Z] ["3.0"] [["0.5"]; ["0.5"]]] = inl EAssert /\
  fhi_w [mkShell "gto" "" [] ["3.0"] [["0.5"]]] = inl EAssert /\
  fhi_w [mkShell "gto" "" [30%Z] [] []] = fhi_t ["gaussian 30 0"] /\
  fhi_w [mkShell "gto" "" [(-3)%Z] ["3.0"; "2.0"] [["0.5"; "0.25"]]] =
    fhi_t ["gaussian -3 2"; "      3.0                    0.5"; "      2.0                    0.25"].

(* the list lengths: zip() cuts every column to the shortest one - the exponent 1.0 is LOST without an error.  General
   contractions (the writer has called uncontract_general, so there are none) would be printed *)
Definition fhi_lengths_stmt : Prop :=
  fhi_w [mkShell "gto" "" [0%Z] ["3.0"; "1.0"] [["1.0"]]] = fhi_t ["gaussian 0 2"; "      3.0                    1.0"] /\
  fhi_w [mkShell "gto" "" [2%Z] ["3.0"; "2.0"] [["0.5"; "0.25"]; ["1.5"; "1.25"]]] =
    fhi_t ["gaussian 2 2"; "      3.0                    0.5                    1.5";
           "      2.0                    0.25                   1.25"].

(* `Forall floating`: a number without a decimal point stops the writer (ValueError in _find_point) - unless the shell has
   one primitive, which is printed without write_matrix: anything goes there *)
Definition fhi_floating_stmt : Prop :=
  fhi_w [mkShell "gto" "" [0%Z] ["30"; "1.0"] [["1.0"; "1.0"]]] = inl EValue /\
  fhi_w [mkShell "gto" "" [0%Z] ["30"] [["x"]]] = fhi_t ["gaussian 0 1 30"].

(* the elements; cartesian functions *)
Definition fhi_elements_stmt : Prop :=
  fhi_write_all "X" ["gto"] [(121%Z, [])] [] = inl EKey /\
  fhi_write_all "X" ["gto"] [(0%Z, [])] [] = inl EKey /\
  fhi_write_all "X" ["gto"; "gto_cartesian"] [(120%Z, [])] [] =
    inr (String.concat nl1 (fhi_pre ".false." ++ ["            # Ubn X"; ""])).

(* ---------- a concrete instance from the store: 6-31G for H and C as write_fhiaims sees it (the sp shells split);
   fhi_ex_text is, byte for byte, basis_set_exchange.get_basis('6-31g', elements=[1, 6], fmt='fhiaims', header=False) ---------- *)
Definition fhi_ex_els : list (Z * list sshell) :=
  [((1)%Z, [(mkShell "gto" "valence" [(0)%Z] ["0.1873113696E+02"; "0.2825394365E+01"; "0.6401216923E+00"] [["0.3349460434E-01"; "0.2347269535E+00"; "0.8137573261E+00"]]);
      (mkShell "gto" "valence" [(0)%Z] ["0.1612777588E+00"] [["1.0000000"]])]);
   ((6)%Z, [(mkShell "gto" "valence" [(0)%Z] ["0.3047524880E+04"; "0.4573695180E+03"; "0.1039486850E+03"; "0.2921015530E+02"; "0.9286662960E+01"; "0.3163926960E+01"] [["0.1834737132E-02"; "0.1403732281E-01"; "0.6884262226E-01"; "0.2321844432E+00"; "0.4679413484E+00"; "0.3623119853E+00"]]);
      (mkShell "gto" "valence" [(0)%Z] ["0.7868272350E+01"; "0.1881288540E+01"; "0.5442492580E+00"] [["-0.1193324198E+00"; "-0.1608541517E+00"; "0.1143456438E+01"]]);
      (mkShell "gto" "valence" [(0)%Z] ["0.1687144782E+00"] [["0.1000000000E+01"]]);
      (mkShell "gto" "valence" [(1)%Z] ["0.7868272350E+01"; "0.1881288540E+01"; "0.5442492580E+00"] [["0.6899906659E-01"; "0.3164239610E+00"; "0.7443082909E+00"]]);
      (mkShell "gto" "valence" [(1)%Z] ["0.1687144782E+00"] [["0.1000000000E+01"]])])].
Definition fhi_ex_ecps : list (Z * (Z * list epot)) :=
  [].
Definition fhi_ex_text : string :=
  String.concat nl1
   ["";
    "            # The default minimal basis should not be included";
    "            include_min_basis .false.";
    "            # Use spherical functions?";
    "            pure_gauss .true.";
    "            # H 6-31G";
    "gaussian 0 3";
    "      0.1873113696E+02       0.3349460434E-01";
    "      0.2825394365E+01       0.2347269535E+00";
    "      0.6401216923E+00       0.8137573261E+00";
    "gaussian 0 1 0.1612777588E+00";
    "";
    "            # The default minimal basis should not be included";
    "            include_min_basis .false.";
    "            # Use spherical functions?";
    "            pure_gauss .true.";
    "            # C 6-31G";
    "gaussian 0 6";
    "      0.3047524880E+04       0.1834737132E-02";
    "      0.4573695180E+03       0.1403732281E-01";
    "      0.1039486850E+03       0.6884262226E-01";
    "      0.2921015530E+02       0.2321844432E+00";
    "      0.9286662960E+01       0.4679413484E+00";
    "      0.3163926960E+01       0.3623119853E+00";
    "gaussian 0 3";
    "      0.7868272350E+01      -0.1193324198E+00";
    "      0.1881288540E+01      -0.1608541517E+00";
    "      0.5442492580E+00       0.1143456438E+01";
    "gaussian 0 1 0.1687144782E+00";
    "gaussian 1 3";
    "      0.7868272350E+01       0.6899906659E-01";
    "      0.1881288540E+01       0.3164239610E+00";
    "      0.5442492580E+00       0.7443082909E+00";
    "gaussian 1 1 0.1687144782E+00";
    ""].

Definition fhi_example_stmt : Prop :=
  fhi_ok fhi_ex_els /\ fhi_write_all "6-31G" ["gto"] fhi_ex_els fhi_ex_ecps = inr fhi_ex_text /\
  fhi_write_formatted "6-31G" ["gto"] fhi_ex_els fhi_ex_ecps = inr fhi_ex_text /\
  (* the three coefficients 1.0000000 / 0.1000000000E+01 of the one-primitive shells are not in the text *)
  no_tok fhi_ex_text "1.0000000" /\ no_tok fhi_ex_text "0.1000000000E+01".
