(* Boolean reflection of the well-formedness hypotheses, for checking concrete examples by computation. *)
From BSE Require Import Model.Val Model.Basis Model.Manip Proofs.FSDefs.
Set Implicit Arguments.

Section WfCompute.
  Variable N : Type.
  Variable is0 : N -> bool.

  Definition rectb (s : shell N) : bool := forallb (fun c => Nat.eqb (List.length c) (List.length (exps s))) (coefs s).
  Definition nz_colsb (s : shell N) : bool :=
    match coefs s with [] => false | _ => forallb (fun c => existsb (fun x => negb (is0 x)) c) (coefs s) end.
  Definition am_okb (s : shell N) : bool :=
    orb (Nat.eqb (List.length (am s)) 1)
        (andb (Nat.ltb 1 (List.length (am s))) (Nat.eqb (List.length (coefs s)) (List.length (am s)))).
  Definition wf_shellb (s : shell N) : bool := rectb s && nz_colsb s && am_okb s.

  Lemma wf_shellb_ok s : wf_shellb s = true -> wf_shell is0 s.
  Proof.
    unfold wf_shellb, wf_shell. rewrite !andb_true_iff. intros [[Hr Hn] Ha]. repeat split.
    - unfold rect, rectb in *. apply Forall_forall. intros c Hc.
      rewrite forallb_forall in Hr. apply Nat.eqb_eq. now apply Hr.
    - unfold nz_colsb in Hn. destruct (coefs s); [discriminate|discriminate].
    - unfold nz_colsb in Hn. destruct (coefs s) as [|c0 cs] eqn:E; [discriminate|].
      apply Forall_forall. intros c Hc. rewrite forallb_forall in Hn. specialize (Hn c Hc).
      apply existsb_exists in Hn. destruct Hn as [x [Hx Hnz]]. exists x. split; [exact Hx|].
      now destruct (is0 x).
    - unfold am_okb, am_ok in *. apply orb_true_iff in Ha. destruct Ha as [Ha|Ha].
      + left. now apply Nat.eqb_eq.
      + right. apply andb_true_iff in Ha. destruct Ha as [H1 H2]. apply Nat.ltb_lt in H1. apply Nat.eqb_eq in H2. auto.
  Qed.

  Lemma wf_shellsb_ok shs : forallb wf_shellb shs = true -> wf_shells is0 shs.
  Proof. intros H. apply Forall_forall. intros s Hs. apply wf_shellb_ok. rewrite forallb_forall in H. now apply H. Qed.

  Definition fused_lowb (m : Z) (s : shell N) : bool :=
    orb (negb (Nat.ltb 1 (List.length (am s)))) (existsb (fun l => (l <=? m)%Z) (am s)).
  Lemma fused_lowb_ok m shs : forallb (fused_lowb m) shs = true -> Forall (fused_low m (N:=N)) shs.
  Proof.
    intros H. apply Forall_forall. intros s Hs. rewrite forallb_forall in H. specialize (H s Hs).
    unfold fused_lowb, fused_low in *. intros Hl. apply orb_true_iff in H. destruct H as [H|H].
    - apply negb_true_iff in H. apply Nat.ltb_ge in H. lia.
    - apply existsb_exists in H. destruct H as [l [Hin Hle]]. exists l. split; [exact Hin|]. now apply Z.leb_le.
  Qed.
End WfCompute.
