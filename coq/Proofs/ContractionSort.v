(* contraction_string, second half: the map is rendered in increasing angular momentum and sorting it loses or
   changes no entry.  keys of cmap are distinct (invariant of cmap_add); sort_cmap (insertion by key, = Python's
   sorted(cont_map.keys())) keeps every lookup and yields a list sorted by key. *)
From BSE Require Import Model.Val Model.Elements Proofs.ContractionCount.
From Coq Require Import Lia Sorting.Sorted.

Definition keys (m : list (Z * (nat * nat))) : list Z := map fst m.

Lemma keys_cmap_add_in k am np nc m : In k (keys (cmap_add am np nc m)) -> k = am \/ In k (keys m).
Proof.
  unfold keys. induction m as [|[a [p c]] t IH]; cbn [cmap_add map fst In].
  - intros [H|[]]. left. congruence.
  - destruct (a =? am)%Z eqn:E; cbn [map fst In].
    + intros [H|H]; right; [left; exact H | right; exact H].
    + intros [H|H]; [right; left; exact H|]. destruct (IH H) as [H'|H']; [left; exact H' | right; right; exact H'].
Qed.

Lemma cmap_add_nodup am np nc m : NoDup (keys m) -> NoDup (keys (cmap_add am np nc m)).
Proof.
  unfold keys. induction m as [|[a [p c]] t IH]; cbn [cmap_add map fst]; intros H.
  - constructor; [intros [] | constructor].
  - destruct (a =? am)%Z eqn:E; cbn [map fst]; [exact H|].
    inversion H as [|x l Hn Hd]; subst. constructor; [|apply IH; exact Hd].
    intros Hin. apply keys_cmap_add_in in Hin. destruct Hin as [->|Hin]; [rewrite Z.eqb_refl in E; discriminate E|].
    exact (Hn Hin).
Qed.

Lemma cmap_nodup shs : NoDup (keys (cmap shs)).
Proof.
  unfold cmap. assert (G : forall m, NoDup (keys m) -> NoDup (keys (fold_left cmap_shell shs m))).
  { induction shs as [|[[ams np] ng] t IH]; intros m Hm; cbn [fold_left]; [exact Hm|].
    apply IH. unfold cmap_shell. generalize (if Nat.ltb 1 (List.length ams) then 1 else ng). intros nc.
    revert m Hm. induction ams as [|a r IHr]; intros m Hm; cbn [fold_left]; [exact Hm|].
    apply IHr. apply cmap_add_nodup. exact Hm. }
  apply G. constructor.
Qed.

Lemma keys_insert_in k x l : In k (keys (insert_by_key x l)) <-> k = fst x \/ In k (keys l).
Proof.
  unfold keys. induction l as [|y t IH]; cbn [insert_by_key map In].
  - split; [intros [H|[]]; left; congruence | intros [H|[]]; left; congruence].
  - destruct (fst x <=? fst y)%Z; cbn [map In].
    + split; [intros [H|H]; [left; congruence | right; exact H] | intros [H|H]; [left; congruence | right; exact H]].
    + rewrite IH. split; [intros [H|[H|H]]; auto | intros [H|[H|H]]; auto].
Qed.

Lemma keys_sort_in k m : In k (keys (sort_cmap m)) <-> In k (keys m).
Proof.
  induction m as [|x t IH]; [reflexivity|]. unfold sort_cmap. cbn [fold_right]. fold (sort_cmap t).
  rewrite keys_insert_in, IH. unfold keys. cbn [map In]. split; intros [H|H]; auto.
Qed.

Lemma clookup_insert am x l : ~ In (fst x) (keys l) -> clookup am (insert_by_key x l) = clookup am (x :: l).
Proof.
  destruct x as [k v]. cbn [fst]. induction l as [|[a w] t IH]; intros Hn; cbn [insert_by_key]; [reflexivity|].
  cbn [fst]. destruct (k <=? a)%Z; [reflexivity|].
  assert (Hka : k <> a) by (intros ->; apply Hn; left; reflexivity).
  assert (Hnt : ~ In k (keys t)) by (intros H; apply Hn; right; exact H).
  cbn [clookup]. rewrite (IH Hnt). cbn [clookup].
  destruct (a =? am)%Z eqn:Ea; destruct (k =? am)%Z eqn:Ek; try reflexivity.
  apply Z.eqb_eq in Ea, Ek. congruence.
Qed.

Lemma clookup_sort am m : NoDup (keys m) -> clookup am (sort_cmap m) = clookup am m.
Proof.
  induction m as [|[k v] t IH]; intros H; [reflexivity|]. unfold sort_cmap. cbn [fold_right]. fold (sort_cmap t).
  unfold keys in H. cbn [map fst] in H. inversion H as [|x l Hn Hd]; subst.
  rewrite clookup_insert.
  - cbn [clookup]. rewrite (IH Hd). reflexivity.
  - cbn [fst]. rewrite keys_sort_in. exact Hn.
Qed.

Definition key_le (a b : Z * (nat * nat)) : Prop := (fst a <= fst b)%Z.

Lemma insert_sorted x l : Sorted key_le l -> Sorted key_le (insert_by_key x l).
Proof.
  induction l as [|y t IH]; intros H; cbn [insert_by_key].
  - constructor; constructor.
  - destruct (fst x <=? fst y)%Z eqn:E.
    + constructor; [exact H | constructor; unfold key_le; apply Z.leb_le; exact E].
    + inversion H as [|a b Hs Hh]; subst. constructor; [apply IH; exact Hs|].
      destruct t as [|z r]; cbn [insert_by_key].
      * constructor. unfold key_le. apply Z.leb_gt in E. lia.
      * destruct (fst x <=? fst z)%Z; constructor.
        -- unfold key_le. apply Z.leb_gt in E. lia.
        -- inversion Hh; subst. assumption.
Qed.

Lemma sort_sorted m : Sorted key_le (sort_cmap m).
Proof.
  induction m as [|x t IH]; [constructor|]. unfold sort_cmap. cbn [fold_right]. fold (sort_cmap t).
  apply insert_sorted. exact IH.
Qed.

(* what contraction_string renders from: sorted by l, distinct l, and for every l exactly the sums *)
Lemma rendered_map_lemma am shs :
  Sorted key_le (sort_cmap (cmap shs)) /\ NoDup (keys (sort_cmap (cmap shs))) /\
  clookup am (sort_cmap (cmap shs)) = if occurs am shs then Some (prims_of am shs, conts_of am shs) else None.
Proof.
  split; [apply sort_sorted|]. split.
  - pose proof (cmap_nodup shs) as Hn. generalize dependent (cmap shs). intros m Hn.
    induction m as [|x t IH]; [constructor|]. unfold sort_cmap. cbn [fold_right]. fold (sort_cmap t).
    unfold keys in Hn. cbn [map] in Hn. inversion Hn as [|a l Hx Hd]; subst.
    specialize (IH Hd). revert IH. assert (Hx' : ~ In (fst x) (keys (sort_cmap t))) by (rewrite keys_sort_in; exact Hx).
    revert Hx'. generalize (sort_cmap t). intros l. induction l as [|y r IHr]; intros Hx' Hl; cbn [insert_by_key].
    + constructor; [intros []|constructor].
    + destruct (fst x <=? fst y)%Z.
      * unfold keys. cbn [map]. constructor; [exact Hx' | exact Hl].
      * unfold keys in *. cbn [map] in *. inversion Hl as [|a b Hy Hr]; subst. constructor.
        -- intros Hin. apply (proj1 (keys_insert_in _ _ _)) in Hin. destruct Hin as [Hin|Hin]; [apply Hx'; left; auto | exact (Hy Hin)].
        -- apply IHr; [intros H; apply Hx'; right; exact H | exact Hr].
  - rewrite clookup_sort by apply cmap_nodup. apply cmap_counts_lemma.
Qed.
