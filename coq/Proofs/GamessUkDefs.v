(* Statements about the GAMESS-UK writer (write_gamess_uk; there is no reader): the writer is total on well-formed input and
   every number of the input is a white-space delimited token of some line of the written text (C04).
   Definitions only; the proofs are in Proofs/GamessUkSpec.v. *)
From BSE Require Import Model.Val Model.Text Model.Num Model.Basis Model.Manip Model.Matrix Model.Lut Model.Elements
                        Model.Nwchem Model.NwchemEcp Model.G94 Model.GamessUk
                        Proofs.MatrixDefs Proofs.NwchemDefs Proofs.NwchemEcpDefs.

(* ---------- well-formed input of the writer (what is left after uncontract_general / uncontract_spdf(1) / sort_basis) ---------- *)
(* `floating s` (Proofs/NwchemDefs.v) : is_floating s = true, the string matches helpers.floating_re entirely *)
Definition guk_shell_ok (s : sshell) : Prop :=
  (* every angular momentum has a letter in lut._amchar_map_hij (26 letters); any number of momenta *)
  Forall (fun l => (0 <= l < 26)%Z) (am s) /\
  (* at least one coefficient column (coefficients[0] of the writer), each with one coefficient per primitive *)
  coefs s <> [] /\ Forall (fun c => List.length c = List.length (exps s)) (coefs s) /\
  Forall floating (exps s) /\ Forall (Forall floating) (coefs s).
(* NOT needed: am s <> [], exps s <> [], one column per momentum *)

Definition guk_pot_ok (p : epot) : Prop :=
  (* at least one angular momentum (am[0]) - ANY integer: no letter is printed for a potential *)
  p_am p <> [] /\
  (* one gaussian exponent per r exponent (ANY integer) *)
  List.length (p_gexp p) = List.length (p_rexp p) /\
  (* at most ONE coefficient column (three point places), as long as the others *)
  List.length (p_coef p) <= 1 /\ Forall (fun c => List.length c = List.length (p_rexp p)) (p_coef p) /\
  Forall floating (p_gexp p) /\ Forall (Forall floating) (p_coef p).

Definition guk_ecp_el_ok (e : Z * (Z * list epot)) : Prop :=
  (1 <= fst e <= 120)%Z /\ snd (snd e) <> [] /\ Forall guk_pot_ok (snd (snd e)).

Definition guk_ok (els : list (Z * list sshell)) (ecps : list (Z * (Z * list epot))) : Prop :=
  Forall (fun zs => (1 <= fst zs <= 120)%Z /\ Forall guk_shell_ok (snd zs)) els /\
  Forall guk_ecp_el_ok ecps.
(* NOT needed: distinct keys, an element having shells, anything about 'ecp_electrons' or the values of the momenta of the
   potentials *)

(* ---------- statements ---------- *)
Definition guk_write_total_stmt : Prop :=
  forall els ecps, guk_ok els ecps -> exists t, guk_write_all els ecps = inr t.

(* C04, electron part: every exponent and every coefficient of the input, unchanged, is a white-space delimited token of
   some line of the written text (nw_number_of, Proofs/NwchemDefs.v) *)
Definition guk_no_number_lost_stmt : Prop :=
  forall els ecps t, guk_ok els ecps -> guk_write_all els ecps = inr t ->
    forall x, nw_number_of els x -> exists line, In line (splitlines t) /\ In x (tokens_acc line "").

(* C04, ECP part: every gaussian exponent and every coefficient, unchanged, and the decimal form of every r exponent and of
   every electron count is a white-space delimited token of some line (nw_ecp_number_of, Proofs/NwchemEcpDefs.v) *)
Definition guk_ecp_no_number_lost_stmt : Prop :=
  forall els ecps t, guk_ok els ecps -> guk_write_all els ecps = inr t ->
    forall x, nw_ecp_number_of ecps x -> exists line, In line (splitlines t) /\ In x (tokens_acc line "").

(* ---------- which conditions of guk_ok cannot be dropped ---------- *)
Definition guk_h (ex : list string) (co : list (list string)) : list (Z * list sshell) := [(1%Z, [mkShell "gto" "" [0%Z] ex co])].
Definition guk_p1 (l : Z) : epot := mkEpot "scalar_ecp" [l] [2%Z] ["1.0"] [["0.5"]].
Definition guk_na (pots : list epot) : list (Z * (Z * list epot)) := [(11%Z, (10%Z, pots))].

(* `coefs s <> []`: IndexError of coefficients[0]; `length c = length (exps s)`: zip() cuts to the shortest column - a surplus
   exponent or a surplus coefficient is LOST without an error (not valid data); `0 <= l < 26`, `1 <= z <= 120`,
   `Forall floating` *)
Definition guk_conditions_stmt : Prop :=
  guk_write_all (guk_h ["1.0"] []) [] = inl EIndex /\
  guk_write_all (guk_h ["1.0"; "2.0"] [["0.5"]]) [] =
    inr (String.concat nl1 [""; "# HYDROGEN"; "S   H"; "      0.5                    1.0"; ""]) /\
  guk_write_all (guk_h ["1.0"] [["0.5"; "0.25"]]) [] =
    inr (String.concat nl1 [""; "# HYDROGEN"; "S   H"; "      0.5                    1.0"; ""]) /\
  guk_write_all [(1%Z, [mkShell "gto" "" [26%Z] ["1.0"] [["0.5"]]])] [] = inl EIndex /\
  guk_write_all [(121%Z, [mkShell "gto" "" [0%Z] ["1.0"] [["0.5"]]])] [] = inl EKey /\
  guk_write_all (guk_h ["10"] [["0.5"]]) [] = inl EValue.

(* conditions that are NOT needed: no momentum, no primitive, l = 25, a fused spd shell (first coefficient column, then the
   exponents, then the other columns), an element without shells, nothing at all *)
Definition guk_not_needed_stmt : Prop :=
  guk_write_all [(1%Z, [mkShell "gto" "" [] ["1.0"] [["0.5"]];
                        mkShell "gto" "" [0%Z] [] [[]];
                        mkShell "gto" "" [25%Z] ["1.0"] [["0.5"]];
                        mkShell "gto" "" [0; 1; 2]%Z ["1.0"] [["0.5"]; ["0.25"]; ["0.125"]]]); (2%Z, [])] [] =
    inr (String.concat nl1 [""; "# HYDROGEN"; "   H"; "      0.5                    1.0"; "S   H"; "E   H";
                            "      0.5                    1.0"; "SPD   H";
                            "      0.5                    1.0                    0.25                   0.125";
                            ""; "# HELIUM"; ""]) /\
  guk_write_all [] [] = inr "".

(* the ECP part.  FINDING (valid for the schema and the validator, not in the store): two coefficient columns stop the
   writer with an IndexError (three point places).  No potential: ValueError of max(); no momentum: IndexError.
   A surplus gaussian exponent / coefficient is LOST without an error (not valid data) *)
Definition guk_ecp_conditions_stmt : Prop :=
  guk_write_all [] (guk_na [mkEpot "scalar_ecp" [0%Z] [2%Z] ["1.0"] [["0.5"]; ["0.25"]]]) = inl EIndex /\
  guk_write_all [] (guk_na [mkEpot "scalar_ecp" [0%Z] [2%Z] ["1.0"] []]) =
    inr (String.concat nl1 [""; ""; "Effective Core Potentials"; "---------------------------"; "CARDS NA"; "    0     10";
                            "2      1.0"; ""; ""]) /\
  guk_write_all [] (guk_na []) = inl EValue /\
  guk_write_all [] (guk_na [mkEpot "scalar_ecp" [] [2%Z] ["1.0"] [["0.5"]]]) = inl EIndex /\
  guk_write_all [] (guk_na [mkEpot "scalar_ecp" [0%Z] [2%Z] ["1.0"; "3.0"] [["0.5"; "0.25"]]]) =
    inr (String.concat nl1 [""; ""; "Effective Core Potentials"; "---------------------------"; "CARDS NA"; "    0     10";
                            "2      0.5                    1.0"; ""; ""]) /\
  guk_write_all [] [(0%Z, (10%Z, [guk_p1 0]))] = inl EKey.

(* Not conditions: the momenta of the potentials may be anything (30, fused, negative: no letter is made), the electron
   count and the r exponents may be negative or long, any exponent marker.  The potentials come highest momentum first *)
Definition guk_ecp_anything_stmt : Prop :=
  guk_ok [] [(11%Z, ((-10)%Z, [guk_p1 30; mkEpot "scalar_ecp" [0; 5]%Z [2%Z] ["1.0"] [["0.5"]];
                                mkEpot "scalar_ecp" [(-1)%Z] [(-1)%Z; 12%Z] ["1.0e1"; ".5D-3"] [["-0.5E+00"; "0."]]]))] /\
  guk_write_all [] [(11%Z, ((-10)%Z, [guk_p1 30; mkEpot "scalar_ecp" [0; 5]%Z [2%Z] ["1.0"] [["0.5"]];
                                      mkEpot "scalar_ecp" [(-1)%Z] [(-1)%Z; 12%Z] ["1.0e1"; ".5D-3"] [["-0.5E+00"; "0."]]]))] =
    inr (String.concat nl1 [""; ""; "Effective Core Potentials"; "---------------------------"; "CARDS NA"; "    30     -10";
                            "2      0.5                    1.0"; "-1    -0.5E+00                1.0e1";
                            "12     0.                      .5D-3"; "2      0.5                    1.0"; ""; ""]).

(* OBSERVATION (looks like a defect; VALID data): the terms of all potentials of an element are written one after the other
   with nothing in between - no title line, no momentum, no number of terms.  No number is lost (guk_ecp_no_number_lost),
   but which term belongs to which potential is: two different ECPs (d with one term and s with two / d with two terms and
   s with one) give the same text *)
Definition guk_amb_a : list (Z * (Z * list epot)) :=
  guk_na [mkEpot "scalar_ecp" [2%Z] [1%Z] ["1.0"] [["0.5"]]; mkEpot "scalar_ecp" [0%Z] [2%Z; 2%Z] ["2.0"; "3.0"] [["0.25"; "0.125"]]].
Definition guk_amb_b : list (Z * (Z * list epot)) :=
  guk_na [mkEpot "scalar_ecp" [2%Z] [1%Z; 2%Z] ["1.0"; "2.0"] [["0.5"; "0.25"]]; mkEpot "scalar_ecp" [0%Z] [2%Z] ["3.0"] [["0.125"]]].
Definition guk_ecp_ambiguous_stmt : Prop :=
  guk_ok [] guk_amb_a /\ guk_ok [] guk_amb_b /\ guk_amb_a <> guk_amb_b /\
  guk_write_all [] guk_amb_a = guk_write_all [] guk_amb_b /\
  guk_write_all [] guk_amb_a =
    inr (String.concat nl1 [""; ""; "Effective Core Potentials"; "---------------------------"; "CARDS NA"; "    2     10";
                            "1      0.5                    1.0"; "2      0.25                   2.0";
                            "2      0.125                  3.0"; ""; ""]).

(* the whole file: every line ends with a newline, an empty line follows each ECP element *)
Definition guk_two_ecps_stmt : Prop :=
  guk_write_all (guk_h ["1.0"] [["0.5"]]) [(3%Z, (2%Z, [guk_p1 0])); (11%Z, (10%Z, [guk_p1 0]))] =
    inr (String.concat nl1 [""; "# HYDROGEN"; "S   H"; "      0.5                    1.0"; ""; "";
                            "Effective Core Potentials"; "---------------------------";
                            "CARDS LI"; "    0     2"; "2      0.5                    1.0"; "";
                            "CARDS NA"; "    0     10"; "2      0.5                    1.0"; ""; ""]).

(* ---------- concrete instances from the store ---------- *)
(* LANL2DZ for H (electron shells only) and Na (electron shells and ECP) as write_gamess_uk sees it; guk_ex_text is, byte
   for byte, basis_set_exchange.get_basis('lanl2dz', elements=[1, 11], fmt='gamess_uk', header=False) *)
Definition guk_ex_els : list (Z * list sshell) :=
  [((1)%Z, [(mkShell "gto" "valence" [(0)%Z] ["19.2384000"; "2.8987000"; "0.6535000"] [["0.0328280"; "0.2312040"; "0.8172260"]]);
     (mkShell "gto" "valence" [(0)%Z] ["0.1776000"] [["1.0000000"]])]);
   ((11)%Z, [(mkShell "gto" "valence" [(0)%Z] ["0.4972000"; "0.0560000"] [["-0.2753574"; "1.0989969"]]);
     (mkShell "gto" "valence" [(0)%Z] ["0.0221000"] [["1.0000000"]]);
     (mkShell "gto" "valence" [(1)%Z] ["0.6697000"; "0.0636000"] [["-0.0683845"; "1.0140550"]]);
     (mkShell "gto" "valence" [(1)%Z] ["0.0204000"] [["1.0000000"]])])].
Definition guk_ex_ecps : list (Z * (Z * list epot)) :=
  [((11)%Z, ((10)%Z, [(mkEpot "scalar_ecp" [(2)%Z] [(1)%Z; (2)%Z; (2)%Z; (2)%Z; (2)%Z] ["175.5502590"; "35.0516791"; "7.9060270"; "2.3365719"; "0.7799867"] [["-10.0000000"; "-47.4902024"; "-17.2283007"; "-6.0637782"; "-0.7299393"]]);
     (mkEpot "scalar_ecp" [(0)%Z] [(0)%Z; (1)%Z; (2)%Z; (2)%Z; (2)%Z] ["243.3605846"; "41.5764759"; "13.2649167"; "3.6797165"; "0.9764209"] [["3.0000000"; "36.2847626"; "72.9304880"; "23.8401151"; "6.0123861"]]);
     (mkEpot "scalar_ecp" [(1)%Z] [(0)%Z; (1)%Z; (2)%Z; (2)%Z; (2)%Z; (2)%Z] ["1257.2650682"; "189.6248810"; "54.5247759"; "13.7449955"; "3.6813579"; "0.9461106"] [["5.0000000"; "117.4495683"; "423.3986704"; "109.3247297"; "31.3701656"; "7.1241813"]])]))].
Definition guk_ex_text : string :=
  String.concat nl1
   ["";
    "# HYDROGEN";
    "S   H";
    "      0.0328280             19.2384000";
    "      0.2312040              2.8987000";
    "      0.8172260              0.6535000";
    "S   H";
    "      1.0000000              0.1776000";
    "";
    "# SODIUM";
    "S   Na";
    "     -0.2753574              0.4972000";
    "      1.0989969              0.0560000";
    "S   Na";
    "      1.0000000              0.0221000";
    "P   Na";
    "     -0.0683845              0.6697000";
    "      1.0140550              0.0636000";
    "P   Na";
    "      1.0000000              0.0204000";
    "";
    "";
    "Effective Core Potentials";
    "---------------------------";
    "CARDS NA";
    "    2     10";
    "1    -10.0000000            175.5502590";
    "2    -47.4902024             35.0516791";
    "2    -17.2283007              7.9060270";
    "2     -6.0637782              2.3365719";
    "2     -0.7299393              0.7799867";
    "0      3.0000000            243.3605846";
    "1     36.2847626             41.5764759";
    "2     72.9304880             13.2649167";
    "2     23.8401151              3.6797165";
    "2      6.0123861              0.9764209";
    "0      5.0000000           1257.2650682";
    "1    117.4495683            189.6248810";
    "2    423.3986704             54.5247759";
    "2    109.3247297             13.7449955";
    "2     31.3701656              3.6813579";
    "2      7.1241813              0.9461106";
    "";
    ""].

(* 6-31G for C as write_gamess_uk sees it (the sp shells stay fused, are labelled L and printed as s coefficient | exponent
   | p coefficient); byte for byte basis_set_exchange.get_basis('6-31g', elements=[6], fmt='gamess_uk', header=False) *)
Definition guk_sp_els : list (Z * list sshell) :=
  [((6)%Z, [(mkShell "gto" "valence" [(0)%Z] ["0.3047524880E+04"; "0.4573695180E+03"; "0.1039486850E+03"; "0.2921015530E+02"; "0.9286662960E+01"; "0.3163926960E+01"] [["0.1834737132E-02"; "0.1403732281E-01"; "0.6884262226E-01"; "0.2321844432E+00"; "0.4679413484E+00"; "0.3623119853E+00"]]);
     (mkShell "gto" "valence" [(0)%Z; (1)%Z] ["0.7868272350E+01"; "0.1881288540E+01"; "0.5442492580E+00"] [["-0.1193324198E+00"; "-0.1608541517E+00"; "0.1143456438E+01"]; ["0.6899906659E-01"; "0.3164239610E+00"; "0.7443082909E+00"]]);
     (mkShell "gto" "valence" [(0)%Z; (1)%Z] ["0.1687144782E+00"] [["0.1000000000E+01"]; ["0.1000000000E+01"]])])].
Definition guk_sp_ecps : list (Z * (Z * list epot)) :=
  [].
Definition guk_sp_text : string :=
  String.concat nl1
   ["";
    "# CARBON";
    "S   C";
    "      0.1834737132E-02       0.3047524880E+04";
    "      0.1403732281E-01       0.4573695180E+03";
    "      0.6884262226E-01       0.1039486850E+03";
    "      0.2321844432E+00       0.2921015530E+02";
    "      0.4679413484E+00       0.9286662960E+01";
    "      0.3623119853E+00       0.3163926960E+01";
    "L   C";
    "     -0.1193324198E+00       0.7868272350E+01       0.6899906659E-01";
    "     -0.1608541517E+00       0.1881288540E+01       0.3164239610E+00";
    "      0.1143456438E+01       0.5442492580E+00       0.7443082909E+00";
    "L   C";
    "      0.1000000000E+01       0.1687144782E+00       0.1000000000E+01";
    ""].

Definition guk_example_stmt : Prop :=
  guk_ok guk_ex_els guk_ex_ecps /\
  guk_write_all guk_ex_els guk_ex_ecps = inr guk_ex_text /\
  guk_ok guk_sp_els guk_sp_ecps /\
  guk_write_all guk_sp_els guk_sp_ecps = inr guk_sp_text.
