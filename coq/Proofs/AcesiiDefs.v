(* Statements about the AcesII writer (write_aces2, format 'acesii'; NO reader is registered for this format, so everything is
   about the written text).  The writer ROUNDS: every exponent and coefficient goes through float() and a fixed-point format.
   Definitions only; the proofs are in Proofs/AcesiiSpec.v. *)
From BSE Require Import Model.Val Model.Text Model.Num Model.Basis Model.Manip Model.Matrix Model.Lut Model.Elements
                        Model.Nwchem Model.NwchemEcp Model.Turbomole Model.TurbomoleEcp Model.Genbas Model.GenbasEcp Model.Acesii
                        Proofs.MatrixDefs Proofs.NwchemDefs Proofs.NwchemEcpDefs Proofs.TurbomoleDefs Proofs.GenbasDefs
                        Proofs.GenbasEcpDefs.

(* ================================================================== *)
(* what is printed for a number                                        *)
(* ================================================================== *)
(* The 14-character field of an exponent (_aces_exp) and the number in it; '' where the formatter raises. *)
Definition aces_exp_field (x : string) : string := match aces_exp x with inr f => f | inl _ => "" end.
Definition aces_exp_tok (x : string) : string := lstrip_ws (aces_exp_field x).
(* The number printed for a coefficient (_aces_coef prints it right-justified in 10 characters, plus one blank). *)
Definition aces_coef_tok (c : string) : string := match aces_coef_body c with inr b => b | inl _ => "" end.

(* WHICH DIGITS SURVIVE.  With x = float(c) = (-1)^s * q * 2^e2 the double nearest to the decimal string (to_double: ties to
   even, subnormals, overflow), the printed coefficient is  sign, r DIV 10^7, `.`, r MOD 10^7 (seven digits)  where
   r = |x| * 10^7 rounded to the nearest integer, ties to even on the EXACT binary value (rhe) - so the printed number is
   within 0.5e-7 of the double (aces_rhe_half_stmt), whatever the magnitude: the absolute, not the relative precision is fixed.
   A coefficient below 0.5e-7 is printed as 0.0000000 (or -0.0000000).
   The exponent is printed the same way with nd decimals, nd = min(7, 12 - max(int(log10 |x|), 1) - [x < 0]) - seven decimals
   below 10^6, one fewer for every further power of ten - and if the 14-character field is full and ends in `0`, that zero is
   dropped (aces_trim). *)
Definition aces_coef_spec_stmt : Prop :=
  forall c m e10 q e2, parse_num c = Some (m, e10) -> to_double m e10 = DFin q e2 ->
    aces_coef_tok c = (if num_neg c then "-" else "") +++ fixed_digits (rhe (dbl_num q e2 * pow10 7) (dbl_den e2)) 7.
Definition aces_exp_spec_stmt : Prop :=
  forall x f, aces_exp x = inr f ->
    exists m e10 q e2 k,
      parse_num x = Some (m, e10) /\ to_double m e10 = DFin q e2 /\ q <> 0%Z /\ In k (aces_log_candidates q e2) /\
      let nd := Z.to_nat (aces_ndec (num_neg x) k) in
      (0 <= aces_ndec (num_neg x) k)%Z /\
      f = aces_trim (rjust 14 ((if num_neg x then "-" else "") +++
                               fixed_digits (rhe (dbl_num q e2 * pow10 (Z.of_nat nd)) (dbl_den e2)) nd)).
(* rounding to the nearest: 2 * |n - d * rhe n d| <= d *)
Definition aces_rhe_half_stmt : Prop :=
  forall n d, (0 < d)%Z -> (2 * Z.abs (n - d * rhe n d) <= d)%Z.

(* examples of the rounding, all checked against _aces_exp / _aces_coef of the Python code *)
Definition aces_rounding_examples_stmt : Prop :=
  map aces_coef_tok ["0.3349460434E-01"; "-0.1193324198E+00"; "1.0000000"; "0.00000005"; "0.00000015"; "0.00000025";
                     "-0.00000004"; "1.2345678E-8"; "10.5"; "-0.0"; "1e400"] =
    ["0.0334946"; "-0.1193324"; "1.0000000"; "0.0000000"; "0.0000001"; "0.0000002"; "-0.0000000"; "0.0000000"; "10.5000000";
     "-0.0000000"; "inf"] /\
  map aces_exp ["0.1873113696E+02"; "3047.5248800"; "99999.99999996"; "123456.1234567"; "1000000.0"; "10873731.5797600";
                "-5.0"; "1e12"] =
    [inr "    18.7311370"; inr "  3047.5248800"; inr " 100000.000000"; inr "123456.1234567"; inr " 1000000.000000";
     inr "10873731.57976"; inr "    -5.0000000"; inr " 1000000000000."].

(* ================================================================== *)
(* well-formed input                                                   *)
(* ================================================================== *)
(* _aces_exp accepts the exponent: float() takes it, it is not zero (math.log) and finite (int(inf)), below about 10^13 (the
   precision of the format would be negative), and not within 10^-12 (relative) of a power of ten >= 10^5 unless it is that power
   (there the layout hangs on the last bit of libm's log and the model answers ENotImpl) *)
Definition aces_exp_ok (x : string) : Prop := exists f, aces_exp x = inr f.
(* ... and the number leaves a blank at the start of its 14-character field (at most 13 characters: always the case below
   100000 unless negative) *)
Definition aces_exp_fits (x : string) : Prop := exists f, aces_exp x = inr (String " " f).
(* float() accepts the coefficient *)
Definition aces_coef_ok (c : string) : Prop := parse_num c <> None.

(* the first two as boolean tests (to be evaluated on concrete data) *)
Definition aces_exp_ok_b (x : string) : bool := match aces_exp x with inr _ => true | inl _ => false end.
Definition aces_exp_fits_b (x : string) : bool :=
  match aces_exp x with inr (String c _) => Ascii.eqb c " " | _ => false end.
Definition aces_checkers_stmt : Prop :=
  forall x, (aces_exp_ok_b x = true <-> aces_exp_ok x) /\ (aces_exp_fits_b x = true <-> aces_exp_fits x).

Definition acesii_shell_ok (P : string -> Prop) (s : sshell) : Prop :=
  (* sh['angular_momentum'][0] *)
  am s <> [] /\
  (* every contraction has one coefficient per primitive (zip( *coefficients ) would cut the table to the shortest) *)
  Forall (fun c => List.length c = List.length (exps s)) (coefs s) /\
  Forall P (exps s) /\ Forall (Forall aces_coef_ok) (coefs s).

(* name and description: printed on lines of their own (`SYM:name`, the description, `# description`): ASCII without line
   boundaries (c4_name_ok of Proofs/GenbasDefs.v).  ECP part: c4ecp_el_ok of Proofs/GenbasEcpDefs.v (it is write_cfour's). *)
Definition acesii_ok_with (P : string -> Prop) (name desc : string) (els : list (Z * list sshell))
                          (ecps : list (Z * (Z * list epot))) : Prop :=
  c4_name_ok name /\ c4_name_ok desc /\
  Forall (fun zs => (1 <= fst zs <= 120)%Z /\ Forall (acesii_shell_ok P) (snd zs)) els /\
  Forall c4ecp_el_ok ecps.
(* the input the writer accepts *)
Definition acesii_writable := acesii_ok_with aces_exp_ok.
(* ... and on which every number is a token *)
Definition acesii_ok := acesii_ok_with aces_exp_fits.

(* ================================================================== *)
(* statements                                                          *)
(* ================================================================== *)
Definition acesii_write_total_stmt : Prop :=
  forall name desc els ecps, acesii_writable name desc els ecps -> exists t, acesii_write_all name desc els ecps = inr t.

(* FIXED-WIDTH statement, no hypothesis on the size of the exponents: the field of every exponent is one of the (at most five)
   fields whose concatenation is a line of the text; the rounded value of every coefficient is a white-space delimited token
   of some line (a coefficient is always followed by a blank). *)
Definition acesii_fields_stmt : Prop :=
  forall name desc els ecps t, acesii_writable name desc els ecps -> acesii_write_all name desc els ecps = inr t ->
    (forall zs s x, In zs els -> In s (snd zs) -> In x (exps s) ->
       exists fields, In (aces_exp_field x) fields /\ In (String.concat "" fields) (splitlines t)) /\
    (forall zs s c x, In zs els -> In s (snd zs) -> In c (coefs s) -> In x c ->
       exists line, In line (splitlines t) /\ In (aces_coef_tok x) (tokens_acc line "")).

(* C04 for the electron part, PARTIAL: the full-strength statement (hypothesis acesii_writable) is false -
   acesii_merged_fields_stmt below, on store data.  Under acesii_ok (every exponent leaves a blank in its field) the rounded
   value of every exponent and of every coefficient is a white-space delimited token of some line. *)
Definition acesii_no_number_lost_partial_stmt : Prop :=
  forall name desc els ecps t, acesii_ok name desc els ecps -> acesii_write_all name desc els ecps = inr t ->
    forall zs s, In zs els -> In s (snd zs) ->
      (forall x, In x (exps s) -> exists line, In line (splitlines t) /\ In (aces_exp_tok x) (tokens_acc line "")) /\
      (forall c x, In c (coefs s) -> In x c -> exists line, In line (splitlines t) /\ In (aces_coef_tok x) (tokens_acc line "")).

(* C04 for the ECP part (exact): every gaussian exponent and coefficient LITERALLY (the ECP part does not use the two
   formatters: nothing is rounded, no marker is converted), every r exponent and every electron count in decimal
   (nw_ecp_number_of, Proofs/NwchemEcpDefs.v) is a token of some line. *)
Definition acesii_ecp_no_number_lost_stmt : Prop :=
  forall name desc els ecps t, acesii_writable name desc els ecps -> acesii_write_all name desc els ecps = inr t ->
    forall x, nw_ecp_number_of ecps x -> exists line, In line (splitlines t) /\ In x (tokens_acc line "").

(* ================================================================== *)
(* findings and counterexamples                                        *)
(* ================================================================== *)
Definition ac_sh (e : list string) (c : list (list string)) : sshell := mkShell "gto" "" [0%Z] e c.
Definition ac_lines (els : list (Z * list sshell)) : list string :=
  match acesii_write_all "n" "d" els [] with inr t => splitlines t | inl _ => [] end.

(* FINDING (valid store data).  An exponent of 100000 or more whose seventh decimal is not 0 fills all 14 characters of its
   field, and ''.join puts the fields side by side: the first two exponents of carbon in 6-31+G*-J (10873731.5797600 and
   469897.3134792) are printed as `10873731.57976469897.3134792` - neither number is a token of the line.  (A Fortran reader
   with the fixed format 5F14.7 still separates them; 5263 exponents of the store fill their field.) *)
Definition acesii_merged_fields_stmt : Prop :=
  let els := [(6%Z, [ac_sh ["10873731.5797600"; "469897.3134792"; "30750.99553738"] [["1.0"; "0.0"; "0.0"]]])] in
  acesii_writable "n" "d" els [] /\
  In "10873731.57976469897.3134792 30750.9955374" (ac_lines els) /\
  forallb (fun line => negb (orb (existsb (String.eqb "10873731.57976") (tokens_acc line ""))
                                 (existsb (String.eqb "469897.3134792") (tokens_acc line "")))) (ac_lines els) = true.

(* FINDING.  The coefficients have seven decimals whatever their size: a non-zero coefficient below 0.5e-7 is printed as zero
   (the property "every non-zero coefficient is carried" fails), one of 1.2e-7 keeps a single digit. *)
Definition acesii_small_coef_stmt : Prop :=
  let els := [(1%Z, [ac_sh ["1.0"; "0.5"] [["0.3E-7"; "1.2E-7"]]])] in
  acesii_ok "n" "d" els [] /\
  ac_lines els = [""; "H:n"; "d"; ""; "  1"; "    0"; "    1"; "    2"; ""; "     1.0000000     0.5000000"; ""; " 0.0000000 "; " 0.0000001 "; ""].

(* FINDING.  The zero-trimming `if s[0] != ' ' and s[-1] == '0': s = ' ' + s[:-1]` does not look whether the zero is a decimal:
   with no decimals left (|x| >= 10^12 or so) it removes a digit of the INTEGER part - 10^13 is printed as 1000000000000 (10^12),
   -10^12 as -100000000000 (-10^11). *)
Definition acesii_trim_integer_stmt : Prop :=
  aces_exp "1e13" = inr " 1000000000000" /\ aces_exp "-1e12" = inr " -100000000000" /\
  aces_exp "2e12" = inr " 2000000000000".

(* the field is wider than 14 characters when rounding carries into a new digit or when int(log10) is one too small (10^6:
   math.log(1000000.0, 10) = 5.999999999999999); harmless for a token reader, fatal for a fixed-format one *)
Definition acesii_wide_field_stmt : Prop :=
  option_map String.length (match aces_exp "1000000.0" with inr f => Some f | inl _ => None end) = Some 15 /\
  aces_exp "999999.99999996" = inl ENotImpl.

(* which conditions cannot be dropped: an exponent of zero (math.log), one that float() does not take (Fortran marker), one
   of 10^14 (negative precision), an overflow; no momentum; a coefficient float() does not take *)
Definition acesii_errors_stmt : Prop :=
  map aces_exp ["0.0"; "1e-400"; "1.0D+00"; "1e14"; "1e400"] = [inl EValue; inl EValue; inl EValue; inl EValue; inl EOther] /\
  acesii_write_all "n" "d" [(1%Z, [mkShell "gto" "" [] ["1.0"] [["1.0"]]])] [] = inl EIndex /\
  acesii_write_all "n" "d" [(1%Z, [ac_sh ["1.0"] [["1.0D+00"]]])] [] = inl EValue /\
  acesii_write_all "n" "d" [(121%Z, [ac_sh ["1.0"] [["1.0"]]])] [] = inl EKey.
(* contractions of different lengths: zip() cuts the table, the coefficient 2.0 is lost silently *)
Definition acesii_ragged_stmt : Prop :=
  let els := [(1%Z, [ac_sh ["4.0"; "3.0"] [["1.0"; "2.0"]; ["5.0"]]])] in
  forallb (fun line => negb (existsb (String.eqb "2.0000000") (tokens_acc line ""))) (ac_lines els) = true /\
  List.length (ac_lines els) = 13.

(* ---------- a concrete instance: LANL2DZ for Na and H as write_aces2 sees it (after make_general and sort_basis); the
   expected text is what get_basis('lanl2dz', elements=[11,1], fmt='acesii', header=False) returns ---------- *)
Definition acesii_ex_name : string := "LANL2DZ".
Definition acesii_ex_desc : string := "LANL2DZ".
Definition acesii_ex_els : list (Z * list sshell) :=
  [((1)%Z, [(mkShell "gto" "" [(0)%Z] ["19.2384000"; "2.8987000"; "0.6535000"; "0.1776000"] [["0.0328280"; "0.2312040"; "0.8172260"; "0.0000000"]; ["0.0000000"; "0.0000000"; "0.0000000"; "1.0000000"]])]);
   ((11)%Z, [(mkShell "gto" "" [(0)%Z] ["0.4972000"; "0.0560000"; "0.0221000"] [["-0.2753574"; "1.0989969"; "0.0000000"]; ["0.0000000"; "0.0000000"; "1.0000000"]]);
      (mkShell "gto" "" [(1)%Z] ["0.6697000"; "0.0636000"; "0.0204000"] [["-0.0683845"; "1.0140550"; "0.0000000"]; ["0.0000000"; "0.0000000"; "1.0000000"]])])].
Definition acesii_ex_ecps : list (Z * (Z * list epot)) :=
  [((11)%Z, ((10)%Z, [(mkEpot "scalar_ecp" [(2)%Z] [(1)%Z; (2)%Z; (2)%Z; (2)%Z; (2)%Z] ["175.5502590"; "35.0516791"; "7.9060270"; "2.3365719"; "0.7799867"] [["-10.0000000"; "-47.4902024"; "-17.2283007"; "-6.0637782"; "-0.7299393"]]);
      (mkEpot "scalar_ecp" [(0)%Z] [(0)%Z; (1)%Z; (2)%Z; (2)%Z; (2)%Z] ["243.3605846"; "41.5764759"; "13.2649167"; "3.6797165"; "0.9764209"] [["3.0000000"; "36.2847626"; "72.9304880"; "23.8401151"; "6.0123861"]]);
      (mkEpot "scalar_ecp" [(1)%Z] [(0)%Z; (1)%Z; (2)%Z; (2)%Z; (2)%Z; (2)%Z] ["1257.2650682"; "189.6248810"; "54.5247759"; "13.7449955"; "3.6813579"; "0.9461106"] [["5.0000000"; "117.4495683"; "423.3986704"; "109.3247297"; "31.3701656"; "7.1241813"]])]))].
Definition acesii_ex_text : string :=
  String.concat nl1
   ["";
    "H:LANL2DZ";
    "LANL2DZ";
    "";
    "  1";
    "    0";
    "    2";
    "    4";
    "";
    "    19.2384000     2.8987000     0.6535000     0.1776000";
    "";
    " 0.0328280  0.0000000 ";
    " 0.2312040  0.0000000 ";
    " 0.8172260  0.0000000 ";
    " 0.0000000  1.0000000 ";
    "";
    "NA:LANL2DZ";
    "LANL2DZ";
    "";
    "  2";
    "    0    1";
    "    2    2";
    "    3    3";
    "";
    "     0.4972000     0.0560000     0.0221000";
    "";
    "-0.2753574  0.0000000 ";
    " 1.0989969  0.0000000 ";
    " 0.0000000  1.0000000 ";
    "";
    "     0.6697000     0.0636000     0.0204000";
    "";
    "-0.0683845  0.0000000 ";
    " 1.0140550  0.0000000 ";
    " 0.0000000  1.0000000 ";
    "";
    "";
    "";
    "! Effective core Potentials";
    "*";
    "NA:LANL2DZ";
    "# LANL2DZ";
    "*";
    "    NCORE = 10    LMAX = 2";
    "d";
    "  -10.0000000    1   175.5502590";
    "  -47.4902024    2    35.0516791";
    "  -17.2283007    2     7.9060270";
    "   -6.0637782    2     2.3365719";
    "   -0.7299393    2     0.7799867";
    "s-d";
    "    3.0000000    0   243.3605846";
    "   36.2847626    1    41.5764759";
    "   72.9304880    2    13.2649167";
    "   23.8401151    2     3.6797165";
    "    6.0123861    2     0.9764209";
    "p-d";
    "    5.0000000    0  1257.2650682";
    "  117.4495683    1   189.6248810";
    "  423.3986704    2    54.5247759";
    "  109.3247297    2    13.7449955";
    "   31.3701656    2     3.6813579";
    "    7.1241813    2     0.9461106";
    "*";
    ""].

Definition acesii_example_stmt : Prop :=
  acesii_ok acesii_ex_name acesii_ex_desc acesii_ex_els acesii_ex_ecps /\
  acesii_write_all acesii_ex_name acesii_ex_desc acesii_ex_els acesii_ex_ecps = inr acesii_ex_text.
