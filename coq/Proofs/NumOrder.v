(* The order used for sorting exponents: a total preorder on all strings that agrees with
   Model.Num.leb_s on the parsable ones. *)
From BSE Require Import Model.Val Model.Num Proofs.FSDefs Proofs.SortDefs Proofs.NumInstance.

Local Open Scope Z_scope.

(* nval and leb_v are defined in Model/Num.v (the order the extracted sorting model uses) *)

(* m1*10^e1 <= m2*10^e2 seen from any common lower exponent k *)
Definition dle (k : Z) (a b : Z * Z) : Prop :=
  fst a * 10 ^ (snd a - k) <= fst b * 10 ^ (snd b - k).

Lemma dle_shift : forall k k' a b, k' <= k -> k <= snd a -> k <= snd b ->
  (dle k a b <-> dle k' a b).
Proof.
  intros k k' [m1 e1] [m2 e2] Hk Ha Hb. unfold dle. cbn [fst snd] in *.
  replace (e1 - k') with ((e1 - k) + (k - k')) by lia.
  replace (e2 - k') with ((e2 - k) + (k - k')) by lia.
  rewrite !Z.pow_add_r by lia.
  rewrite !Z.mul_assoc.
  assert (Hp : 0 < 10 ^ (k - k')) by (apply pow10_pos; lia).
  apply Z.mul_le_mono_pos_r. exact Hp.
Qed.

Lemma dec_compare_le : forall a b, dec_compare a b <> Gt <-> dle (Z.min (snd a) (snd b)) a b.
Proof.
  intros [m1 e1] [m2 e2]. unfold dec_compare, dle, pow10. cbn [fst snd].
  symmetry. apply Z.compare_le_iff.
Qed.

Lemma dec_compare_le_k : forall k a b, k <= snd a -> k <= snd b ->
  (dec_compare a b <> Gt <-> dle k a b).
Proof.
  intros k a b Ha Hb. rewrite dec_compare_le. apply dle_shift; lia.
Qed.

(* the form announced in the task: for k below both exponents *)
Lemma dec_compare_le_iff : forall m1 e1 m2 e2 k, k <= e1 -> k <= e2 ->
  (dec_compare (m1, e1) (m2, e2) <> Gt <-> m1 * 10 ^ (e1 - k) <= m2 * 10 ^ (e2 - k)).
Proof.
  intros m1 e1 m2 e2 k H1 H2. apply (dec_compare_le_k k (m1, e1) (m2, e2)); assumption.
Qed.

Lemma leb_v_iff : forall a b, leb_v a b = true <-> dec_compare (nval a) (nval b) <> Gt.
Proof.
  intros a b. unfold leb_v. destruct (dec_compare (nval a) (nval b)); split; intros H;
    try reflexivity; try discriminate; congruence.
Qed.

Lemma dec_le_total : forall a b, dec_compare a b <> Gt \/ dec_compare b a <> Gt.
Proof.
  intros a b. rewrite (dec_compare_le a b), (dec_compare_le b a), (Z.min_comm (snd b) (snd a)).
  unfold dle. lia.
Qed.

Lemma dec_le_trans : forall a b c, dec_compare a b <> Gt -> dec_compare b c <> Gt -> dec_compare a c <> Gt.
Proof.
  intros a b c H1 H2.
  set (k := Z.min (snd a) (Z.min (snd b) (snd c))).
  apply (dec_compare_le_k k) in H1; [| unfold k; lia | unfold k; lia].
  apply (dec_compare_le_k k) in H2; [| unfold k; lia | unfold k; lia].
  apply (dec_compare_le_k k); [unfold k; lia | unfold k; lia |].
  unfold dle in *. lia.
Qed.

Lemma leb_v_order : order_ok leb_v.
Proof.
  constructor.
  - intros a b. rewrite !leb_v_iff. apply dec_le_total.
  - intros a b c. rewrite !leb_v_iff. apply dec_le_trans.
Qed.

Lemma leb_v_agrees : forall a b x y, parse_num a = Some x -> parse_num b = Some y ->
  leb_v a b = leb_s a b.
Proof.
  intros a b x y Ha Hb. unfold leb_v, leb_s, nval. rewrite Ha, Hb. reflexivity.
Qed.

Print Assumptions leb_v_order.
Print Assumptions leb_v_agrees.
