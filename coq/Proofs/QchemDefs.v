(* Statements about the Q-Chem writer write_qchem (format 'qchem'), modelled in Model/Qchem.v.  There is no reader for this
   format, so the property is about the text alone (C04): the writer is total on well-formed input, and every exponent /
   coefficient / ECP gaussian exponent / ECP coefficient (with e/E replaced by D, as printing.write_matrix(convert_exp=True)
   does it: Model.Matrix.d_convert) and every ECP r-exponent / electron count (in decimal, str(int)) is a white-space
   delimited token of some line of the text.  Definitions only; the proofs are in Proofs/QchemSpec.v.
   g94f_shell_ok, g94f_pot_ok, num_token, has_token, fam_sh and the store inputs fexA / fexB / fexC come from
   Proofs/G94FamilyDefs.v (the element blocks of write_qchem are those of _write_g94_common up to the shell line and the
   asterisks after an ECP block, and need exactly the same of their input). *)
From BSE Require Import Model.Val Model.Text Model.Basis Model.Manip Model.Matrix Model.Lut Model.Elements Model.Nwchem
                        Model.G94 Model.G94Ecp Model.G94Family Model.Qchem Proofs.MatrixDefs Proofs.NwchemDefs Proofs.G94Defs
                        Proofs.G94EcpDefs Proofs.G94FamilyDefs.

(* ---------- well-formed input ---------- *)
Definition qchem_ok (els : list (Z * list sshell)) (ecps : list (Z * gecp)) : Prop :=
  (* electron part: an atomic number of the table of lut.py (1 .. 120); any number of shells; for every shell
     (g94f_shell_ok): every momentum in 0 .. 25 (a letter in lut._amchar_map_hij), every column of coefficients as long as
     the column of exponents, every number a string matching helpers.floating_re *)
  Forall (fun zs => (1 <= fst zs <= 120)%Z /\ Forall g94f_shell_ok (snd zs)) els /\
  (* ECP part: atomic number in the table; ANY integer as electron count; at least one potential; for every potential
     (g94f_pot_ok): a non-empty list of momenta in 0 .. 25, the columns of r exponents / gaussian exponents / coefficients
     of the same length, AT MOST ONE row of coefficients, every gaussian exponent and coefficient matching floating_re.
     No condition on which momenta occur, nor on their order *)
  Forall (fun zp => (1 <= fst zp <= 120)%Z /\ snd (snd zp) <> [] /\ Forall g94f_pot_ok (snd (snd zp))) ecps.
(* no condition on role (any string; 'orbital' or not is all that matters), none relating els and ecps *)

(* ---------- statements ---------- *)
Definition qchem_write_total_stmt : Prop :=
  forall role els ecps, qchem_ok els ecps -> exists t, qchem_write_all role els ecps = inr t.

(* nw_number_of (Proofs/NwchemDefs.v): x is an exponent or a coefficient of some shell of some element of els *)
Definition qchem_no_number_lost_stmt : Prop :=
  forall role els ecps t, qchem_ok els ecps -> qchem_write_all role els ecps = inr t ->
    forall x, nw_number_of els x -> num_token t (d_convert x).

(* ecp_number_of / ecp_int_of (Proofs/G94EcpDefs.v): x is a gaussian exponent or a coefficient of some potential; n is the
   electron count of some element or an r exponent of some potential *)
Definition qchem_ecp_no_number_lost_stmt : Prop :=
  forall role els ecps t, qchem_ok els ecps -> qchem_write_all role els ecps = inr t ->
    (forall x, ecp_number_of ecps x -> num_token t (d_convert x)) /\
    (forall n, ecp_int_of ecps n -> num_token t (Z_to_string n)).

(* ---------- which conditions cannot be dropped, and what is no condition ---------- *)
(* nothing at all: the $rem block alone, with an empty PURECART; for another role the AUX_BASIS line *)
Definition qchem_empty_stmt : Prop :=
  qchem_write_all "orbital" [] [] = inr (String.concat nl1 ["$rem"; "    PURECART "; "$end"; ""; ""]) /\
  qchem_write_all "jkfit" [] [] = inr (String.concat nl1 ["$rem"; "AUX_BASIS GEN"; "$end"; ""; ""]).

(* the layout: an element with shells only (H), one with both (Na), one with an ECP only (K); the ECP blocks of an auxiliary
   basis are written as well, but its $rem block does not say `ECP GEN` *)
Definition qchem_mixed_stmt : Prop :=
  let els := [(1%Z, [fam_sh [0%Z] ["1.0"] [["1.0"]]]); (11%Z, [mkShell "gto_spherical" "" [2%Z] ["1.0e0"] [["1.0"]]])] in
  let ecps := [(11%Z, (10%Z, [pot1 0; pot1 1])); (19%Z, (18%Z, [pot1 0]))] in
  qchem_write_all "orbital" els ecps =
    inr (String.concat nl1 ["$rem"; "    BASIS GEN"; "    ECP GEN"; "    PURECART "; "$end"; "";
                            "$basis"; "H     0"; "S   1   1.00"; "      1.0                    1.0"; "****";
                            "Na     0"; "D   1   1.00"; "      1.0D0                  1.0"; "****"; "$end";
                            ""; ""; "$ecp";
                            "NA     0"; "NA-ECP     1     10"; "p potential"; "  1"; "2      1.0                    0.5";
                            "s-p potential"; "  1"; "2      1.0                    0.5"; "****";
                            "K     0"; "K-ECP     0     18"; "s potential"; "  1"; "2      1.0                    0.5"; "****"; "$end"; ""]) /\
  qchem_write_all "rifit" els ecps =
    inr (String.concat nl1 ["$rem"; "AUX_BASIS GEN"; "$end"; "";
                            "$aux_basis"; "H     0"; "S   1   1.00"; "      1.0                    1.0"; "****";
                            "Na     0"; "D   1   1.00"; "      1.0D0                  1.0"; "****"; "$end";
                            ""; ""; "$ecp";
                            "NA     0"; "NA-ECP     1     10"; "p potential"; "  1"; "2      1.0                    0.5";
                            "s-p potential"; "  1"; "2      1.0                    0.5"; "****";
                            "K     0"; "K-ECP     0     18"; "s potential"; "  1"; "2      1.0                    0.5"; "****"; "$end"; ""]).

(* _determine_pure: one digit per momentum THAT OCCURS, highest first, 1 if any shell with that momentum (in any element) has
   'spherical' in its function type, else 2; then the last two digits are cut off, whatever momenta they stand for.
   s p d f g with d, f cartesian in H but d spherical in He: `121` (g f d).  Without s and p shells the digits of d and f
   are cut off instead: `1`, the digit of g alone (Q-Chem reads PURECART from the right: d, f, g, ...).  A momentum that
   does not occur has no digit: s p d g gives `21`, the 2 of g standing where f is looked for.  A fused sp shell counts
   for s and for p. *)
Definition qchem_pure_stmt : Prop :=
  let sh a ft := mkShell ft "" [a] ["1.0"] [["1.0"]] in
  qchem_determine_pure [(1%Z, [sh 0%Z "gto"; sh 2%Z "gto_cartesian"; sh 3%Z "gto_cartesian"; sh 4%Z "gto_spherical"]);
                        (2%Z, [sh 1%Z "gto"; sh 2%Z "gto_spherical"; sh 3%Z "gto_cartesian"])] = "121" /\
  qchem_determine_pure [(1%Z, [sh 2%Z "gto_cartesian"; sh 3%Z "gto_cartesian"; sh 4%Z "gto_spherical"])] = "1" /\
  qchem_determine_pure [(1%Z, [sh 0%Z "gto"; sh 1%Z "gto"; sh 2%Z "gto_spherical"; sh 4%Z "gto_cartesian"])] = "21" /\
  qchem_determine_pure [(1%Z, [mkShell "gto" "" [0%Z; 1%Z] ["1.0"] [["1.0"]; ["1.0"]]; sh 2%Z "gto_cartesian"])] = "2".

(* `0 <= l < 26`: no letter - IndexError in lut.amint_to_char; no momentum - IndexError; no potential - ValueError of max() in
   this part of the writer (in write_qchem sort.sort_basis, called before, raises IndexError for it already) *)
Definition qchem_am_bound_stmt : Prop :=
  qchem_write_all "orbital" [(1%Z, [fam_sh [25%Z] ["1.0"] [["1.0"]]])] [] =
    inr (String.concat nl1 ["$rem"; "    BASIS GEN"; "    PURECART "; "$end"; "";
                            "$basis"; "H     0"; "E   1   1.00"; "      1.0                    1.0"; "****"; "$end"; ""]) /\
  qchem_write_all "orbital" [(1%Z, [fam_sh [26%Z] ["1.0"] [["1.0"]]])] [] = inl EIndex /\
  qchem_write_all "orbital" [] (ecp1 [pot1 26]) = inl EIndex /\
  qchem_write_all "orbital" [] (ecp1 [mkGpot "scalar_ecp" [] [2%Z] ["1.0"] [["0.5"]]]) = inl EIndex /\
  qchem_write_all "orbital" [] (ecp1 []) = inl EValue.

(* the column lengths: zip() in write_matrix cuts every column to the shortest one, without an error.  The coefficient 3.0
   of the shell, the gaussian exponent 3.0 and the coefficient 0.25 of the potential, the r exponent 7 are not in the text.
   (Shell: a fact about the modelled part; in write_qchem the normalisation calls in front of it have cut the column
   already - write_qchem prints no 3.0 either and raises nothing.  Potentials: they reach this part as they are.) *)
Definition qchem_ragged_stmt : Prop :=
  (exists t, qchem_write_all "orbital" [(1%Z, [fam_sh [0%Z] ["1.0"] [["1.0"; "3.0"]]])] [] = inr t /\ has_token t "3.0" = false) /\
  (exists t, qchem_write_all "orbital" [] (ecp1 [mkGpot "scalar_ecp" [0%Z] [2%Z] ["1.0"; "3.0"] [["0.5"; "0.25"]]]) = inr t /\
             has_token t "3.0" = false /\ has_token t "0.25" = false) /\
  (exists t, qchem_write_all "orbital" [] (ecp1 [mkGpot "scalar_ecp" [0%Z] [2%Z; 7%Z] ["1.0"] [["0.5"]]]) = inr t /\
             has_token t "7" = false).

(* `Forall floating`: a number without a decimal point stops the writer (ValueError in _find_point) - also when it sits in
   the part of a column that zip() would cut off, because the padding is computed for whole columns first *)
Definition qchem_floating_stmt : Prop :=
  qchem_write_all "orbital" [(1%Z, [fam_sh [0%Z] ["10"] [["1.0"]]])] [] = inl EValue /\
  qchem_write_all "orbital" [] (ecp1 [mkGpot "scalar_ecp" [0%Z] [2%Z] ["1.0"] [["5"]]]) = inl EValue /\
  qchem_write_all "orbital" [] (ecp1 [mkGpot "scalar_ecp" [0%Z] [2%Z] ["1.0"; "30"] [["0.5"; "0.25"]]]) = inl EValue.

(* `1 <= z <= 120`: no symbol - KeyError *)
Definition qchem_elements_stmt : Prop :=
  qchem_write_all "orbital" [(0%Z, [fam_sh [0%Z] ["1.0"] [["1.0"]]])] [] = inl EKey /\
  qchem_write_all "orbital" [] [(121%Z, (10%Z, [pot1 0]))] = inl EKey.

(* `length (p_coef p) <= 1`: two rows of coefficients are VALID for the schema and for the validator; the writer stops with
   an IndexError (point_places = [0, 9, 32] has no fourth entry) *)
Definition qchem_ecp_coef_rows_stmt : Prop :=
  qchem_write_all "orbital" [] (ecp1 [mkGpot "scalar_ecp" [0%Z] [2%Z] ["1.0"] [["0.5"]; ["0.25"]]]) = inl EIndex.

(* the momenta of the ECP: any set in any order, written highest first then ascending; a negative electron count *)
Definition qchem_ecp_anyorder_stmt : Prop :=
  qchem_write_all "orbital" [] [(11%Z, ((-3)%Z, [pot1 0; pot1 3; pot1 2]))] =
    inr (String.concat nl1 ["$rem"; "    ECP GEN"; "    PURECART "; "$end"; ""; ""; ""; "$ecp";
                            "NA     0"; "NA-ECP     3     -3";
                            "f potential"; "  1"; "2      1.0                    0.5";
                            "s-f potential"; "  1"; "2      1.0                    0.5";
                            "d-f potential"; "  1"; "2      1.0                    0.5"; "****"; "$end"; ""]).

(* ---------- concrete instances from the store; the texts are the return values of write_qchem ---------- *)
(* write_qchem(get_basis('lanl2dz', elements=[1, 11])), byte for byte *)
Definition fexA_qchem : string :=
  String.concat nl1
   ["$rem";
    "    BASIS GEN";
    "    ECP GEN";
    "    PURECART ";
    "$end";
    "";
    "$basis";
    "H     0";
    "S   3   1.00";
    "     19.2384000              0.0328280";
    "      2.8987000              0.2312040";
    "      0.6535000              0.8172260";
    "S   1   1.00";
    "      0.1776000              1.0000000";
    "****";
    "Na     0";
    "S   2   1.00";
    "      0.4972000             -0.2753574";
    "      0.0560000              1.0989969";
    "S   1   1.00";
    "      0.0221000              1.0000000";
    "P   2   1.00";
    "      0.6697000             -0.0683845";
    "      0.0636000              1.0140550";
    "P   1   1.00";
    "      0.0204000              1.0000000";
    "****";
    "$end";
    "";
    "";
    "$ecp";
    "NA     0";
    "NA-ECP     2     10";
    "d potential";
    "  5";
    "1    175.5502590            -10.0000000";
    "2     35.0516791            -47.4902024";
    "2      7.9060270            -17.2283007";
    "2      2.3365719             -6.0637782";
    "2      0.7799867             -0.7299393";
    "s-d potential";
    "  5";
    "0    243.3605846              3.0000000";
    "1     41.5764759             36.2847626";
    "2     13.2649167             72.9304880";
    "2      3.6797165             23.8401151";
    "2      0.9764209              6.0123861";
    "p-d potential";
    "  6";
    "0   1257.2650682              5.0000000";
    "1    189.6248810            117.4495683";
    "2     54.5247759            423.3986704";
    "2     13.7449955            109.3247297";
    "2      3.6813579             31.3701656";
    "2      0.9461106              7.1241813";
    "****";
    "$end";
    ""].
(* write_qchem(get_basis('6-31g*', elements=[6])), byte for byte *)
Definition fexB_qchem : string :=
  String.concat nl1
   ["$rem";
    "    BASIS GEN";
    "    PURECART 2";
    "$end";
    "";
    "$basis";
    "C     0";
    "S   6   1.00";
    "      0.3047524880D+04       0.1834737132D-02";
    "      0.4573695180D+03       0.1403732281D-01";
    "      0.1039486850D+03       0.6884262226D-01";
    "      0.2921015530D+02       0.2321844432D+00";
    "      0.9286662960D+01       0.4679413484D+00";
    "      0.3163926960D+01       0.3623119853D+00";
    "SP   3   1.00";
    "      0.7868272350D+01      -0.1193324198D+00       0.6899906659D-01";
    "      0.1881288540D+01      -0.1608541517D+00       0.3164239610D+00";
    "      0.5442492580D+00       0.1143456438D+01       0.7443082909D+00";
    "SP   1   1.00";
    "      0.1687144782D+00       0.1000000000D+01       0.1000000000D+01";
    "D   1   1.00";
    "      0.8000000000D+00       1.0000000";
    "****";
    "$end";
    ""].
(* write_qchem(get_basis('cc-pv6z-rifit', elements=[5])), byte for byte *)
Definition fexC_qchem : string :=
  String.concat nl1
   ["$rem";
    "AUX_BASIS GEN";
    "$end";
    "";
    "$aux_basis";
    "B     0";
    "S   1   1.00";
    "    390.176                  1.0000000";
    "S   1   1.00";
    "     92.3387                 1.0000000";
    "S   1   1.00";
    "     32.8233                 1.0000000";
    "S   1   1.00";
    "     12.6709                 1.0000000";
    "S   1   1.00";
    "      6.40395                1.0000000";
    "S   1   1.00";
    "      3.5315                 1.0000000";
    "S   1   1.00";
    "      1.75266                1.0000000";
    "S   1   1.00";
    "      0.90504                1.0000000";
    "S   1   1.00";
    "      0.489542               1.0000000";
    "S   1   1.00";
    "      0.282331               1.0000000";
    "S   1   1.00";
    "      0.158266               1.0000000";
    "S   1   1.00";
    "      0.0899536              1.0000000";
    "P   1   1.00";
    "     62.7667                 1.0000000";
    "P   1   1.00";
    "     18.3889                 1.0000000";
    "P   1   1.00";
    "      6.97539                1.0000000";
    "P   1   1.00";
    "      2.81522                1.0000000";
    "P   1   1.00";
    "      1.64949                1.0000000";
    "P   1   1.00";
    "      0.993205               1.0000000";
    "P   1   1.00";
    "      0.607027               1.0000000";
    "P   1   1.00";
    "      0.362547               1.0000000";
    "P   1   1.00";
    "      0.188652               1.0000000";
    "P   1   1.00";
    "      0.112936               1.0000000";
    "D   1   1.00";
    "     10.2882                 1.0000000";
    "D   1   1.00";
    "      3.69938                1.0000000";
    "D   1   1.00";
    "      2.37801                1.0000000";
    "D   1   1.00";
    "      1.52817                1.0000000";
    "D   1   1.00";
    "      0.811515               1.0000000";
    "D   1   1.00";
    "      0.41418                1.0000000";
    "D   1   1.00";
    "      0.219562               1.0000000";
    "D   1   1.00";
    "      0.121978               1.0000000";
    "F   1   1.00";
    "      6.7962                 1.0000000";
    "F   1   1.00";
    "      2.82862                1.0000000";
    "F   1   1.00";
    "      1.92999                1.0000000";
    "F   1   1.00";
    "      1.02453                1.0000000";
    "F   1   1.00";
    "      0.554579               1.0000000";
    "F   1   1.00";
    "      0.314816               1.0000000";
    "F   1   1.00";
    "      0.181999               1.0000000";
    "G   1   1.00";
    "      5.3497                 1.0000000";
    "G   1   1.00";
    "      2.30181                1.0000000";
    "G   1   1.00";
    "      1.63414                1.0000000";
    "G   1   1.00";
    "      0.97649                1.0000000";
    "G   1   1.00";
    "      0.555067               1.0000000";
    "G   1   1.00";
    "      0.27742                1.0000000";
    "H   1   1.00";
    "      2.76736                1.0000000";
    "H   1   1.00";
    "      1.57294                1.0000000";
    "H   1   1.00";
    "      0.861123               1.0000000";
    "H   1   1.00";
    "      0.572423               1.0000000";
    "I   1   1.00";
    "      1.91549                1.0000000";
    "I   1   1.00";
    "      1.1061                 1.0000000";
    "I   1   1.00";
    "      0.718853               1.0000000";
    "J   1   1.00";
    "      1.28955                1.0000000";
    "****";
    "$end";
    ""].

(* A: lanl2dz for H and Na (an ECP).  B: 6-31G* for C (a cartesian d shell: PURECART 2).  C: cc-pV6Z-RIFIT for B (role
   'rifit': AUX_BASIS GEN and $aux_basis).  fexA_els ... fexC_ecps: Proofs/G94FamilyDefs.v. *)
Definition qchem_example_stmt : Prop :=
  qchem_ok fexA_els fexA_ecps /\ qchem_write_all "orbital" fexA_els fexA_ecps = inr fexA_qchem /\
  qchem_ok fexB_els fexB_ecps /\ qchem_write_all "orbital" fexB_els fexB_ecps = inr fexB_qchem /\
  qchem_ok fexC_els fexC_ecps /\ qchem_write_all "rifit" fexC_els fexC_ecps = inr fexC_qchem.
