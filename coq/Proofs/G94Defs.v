(* Statements about the Gaussian94 writer / reader pair (electron shells): what write_g94 prints, read_g94 reads back.
   Definitions only; the proofs are in Proofs/G94Spec.v. *)
From BSE Require Import Model.Val Model.Text Model.Basis Model.Manip Model.Matrix Model.Lut Model.Elements Model.Nwchem
                        Model.G94 Proofs.MatrixDefs Proofs.NwchemDefs.

(* ---------- well-formed input of the writer (what is left after uncontract_general / uncontract_spdf(1) / sort_basis) ---------- *)
(* `floating s` (Proofs/NwchemDefs.v) : is_floating s = true, the string matches helpers.floating_re entirely *)
Definition g94_shell_ok (s : sshell) : Prop :=
  (* at least one primitive *)
  exps s <> [] /\
  (* a non-empty list of angular momenta that have a letter in lut._amchar_map_hij (26 letters: writer AND reader use
     hij=True) *)
  am s <> [] /\ Forall (fun l => (0 <= l < 26)%Z) (am s) /\
  (* exactly one column of coefficients per angular momentum: ONE for a plain shell (Gaussian94 has no general
     contractions - the writer has called uncontract_general before), one per momentum for a fused shell (sp, ...) *)
  List.length (coefs s) = List.length (am s) /\
  (* every column has one coefficient per primitive *)
  Forall (fun c => List.length c = List.length (exps s)) (coefs s) /\
  (* every number is a string matching helpers.floating_re (this implies: non-empty, no white space, a decimal point,
     bytes < 128 only - lemmas floating_is_cell, floating_ascii of Proofs/MatrixSpec.v) *)
  Forall floating (exps s) /\ Forall (Forall floating) (coefs s).

Definition g94_ok (els : list (Z * list sshell)) : Prop :=
  (* dictionary keys: pairwise distinct atomic numbers, all of them in the table of lut.py (1 .. 120: Uue and Ubn included) *)
  NoDup (map fst els) /\
  Forall (fun zs => (1 <= fst zs <= 120)%Z /\
                    (* at least one shell (`Sym 0` directly followed by `****` is refused by the reader) *)
                    snd zs <> [] /\
                    Forall g94_shell_ok (snd zs)) els.
(* no condition `els <> []`: nothing is written for no element, and the reader accepts an empty file *)

(* ---------- what comes back ---------- *)
(* the function type the reader assigns: lut.function_type_from_am(am, 'gto', 'spherical') - the format does not say
   whether a shell is spherical or cartesian, the reader always answers spherical *)
Definition g94_ftype (a : list Z) : string :=
  match function_type_from_am a "gto" "spherical" with inr f => f | inl _ => "" end.

(* MatrixDefs.norm true = replace_d o d_convert, the normalisation of matrix_roundtrip_stmt with conv = true: every digit,
   sign and point kept (norm_keeps_digits), the exponent markers e / E / D come back as E (they are D in the file), d comes
   back as e (it stays d in the file) *)
Definition g94_expected_shell (s : sshell) : sshell :=
  mkShell (g94_ftype (am s)) "" (am s) (map (MatrixDefs.norm true) (exps s)) (map (map (MatrixDefs.norm true)) (coefs s)).

Definition g94_expected (els : list (Z * list sshell)) : list (Z * list sshell) :=
  map (fun zs => (fst zs, map g94_expected_shell (snd zs))) els.

(* ---------- statements ---------- *)
(* the writer does not fail on well-formed input *)
Definition g94_write_total_stmt : Prop :=
  forall els, g94_ok els -> exists t, g94_write_electron els = inr t.

(* reading back what was written gives exactly the same elements, in order, with the same shells, in order *)
Definition g94_roundtrip_stmt : Prop :=
  forall els, g94_ok els -> g94_roundtrip els = inr (g94_expected els).

(* C04 direction: every exponent and every coefficient of the input, with e/E replaced by D as printing.write_matrix
   (convert_exp=True) does it (Model.Matrix.d_convert), is a white-space delimited token of some line of the written text.
   nw_number_of (Proofs/NwchemDefs.v): x is an exponent or a coefficient of some shell of some element of els *)
Definition g94_no_number_lost_stmt : Prop :=
  forall els t, g94_ok els -> g94_write_electron els = inr t ->
    forall x, nw_number_of els x -> exists line, In line (splitlines t) /\ In (d_convert x) (tokens_acc line "").

(* ---------- which conditions of g94_ok cannot be dropped ---------- *)
Definition g94_h : sshell := mkShell "gto" "" [0%Z] ["1.0"] [["1.0"]].

(* no element at all is fine (this is why g94_ok has no `els <> []`, in contrast to nw_ok) *)
Definition g94_roundtrip_empty_stmt : Prop := g94_roundtrip [] = inr [].

(* `snd zs <> []`: an element without shells is written as `He     0` / `****`, and the reader's partition (min_size=3)
   refuses the whole file *)
Definition g94_roundtrip_noshell_stmt : Prop :=
  g94_write_electron [(1%Z, [g94_h]); (2%Z, [])] =
    inr (String.concat nl1 ["H     0"; "S    1   1.00"; "      1.0                    1.0"; "****"; "He     0"; "****"; ""]) /\
  g94_roundtrip [(1%Z, [g94_h]); (2%Z, [])] = inl ERuntime.

(* `length (coefs s) = length (am s)`, plain shell: a d shell with two general contractions is printed by the modelled part
   of the writer (this is why write_g94 calls uncontract_general first), the reader's ngen check refuses it *)
Definition g94_roundtrip_general_stmt : Prop :=
  let d := mkShell "gto_spherical" "" [2%Z] ["1.0"; "2.0"] [["1.0"; "0.0"]; ["0.0"; "1.0"]] in
  g94_write_electron [(1%Z, [d])] =
    inr (String.concat nl1 ["H     0"; "D    2   1.00";
                            "      1.0                    1.0                    0.0";
                            "      2.0                    0.0                    1.0"; "****"; ""]) /\
  g94_roundtrip [(1%Z, [d])] = inl ERuntime.

(* `length (coefs s) = length (am s)`, fused shell with too few columns *)
Definition g94_roundtrip_fused_stmt : Prop :=
  g94_roundtrip [(1%Z, [mkShell "gto" "" [0%Z; 1%Z] ["1.0"] [["1.0"]]])] = inl ERuntime.

(* `exps s <> []` *)
Definition g94_roundtrip_noprim_stmt : Prop :=
  g94_roundtrip [(1%Z, [mkShell "gto" "" [0%Z] [] [[]]])] = inl ERuntime.

(* `am s <> []` *)
Definition g94_roundtrip_noam_stmt : Prop :=
  g94_roundtrip [(1%Z, [mkShell "gto" "" [] ["1.0"] []])] = inl ERuntime.

(* `0 <= l < 26`: l = 25 still has a letter (E), l = 26 has none - amint_to_char raises IndexError *)
Definition g94_am_bound_stmt : Prop :=
  g94_roundtrip [(1%Z, [mkShell "gto_spherical" "" [25%Z] ["1.0"] [["1.0"]]])] =
    inr [(1%Z, [mkShell "gto_spherical" "" [25%Z] ["1.0"] [["1.0"]]])] /\
  g94_write_electron [(1%Z, [mkShell "gto_spherical" "" [26%Z] ["1.0"] [["1.0"]]])] = inl EIndex /\
  g94_write_electron [(1%Z, [mkShell "gto" "" [(-1)%Z] ["1.0"] [["1.0"]]])] = inl EIndex.

(* `Forall (fun c => length c = length (exps s))`: a short column is silently cut by zip( *mat ) in write_matrix, the reader's
   nprim check refuses the shell *)
Definition g94_roundtrip_ragged_stmt : Prop :=
  g94_roundtrip [(1%Z, [mkShell "gto" "" [0%Z] ["1.0"; "2.0"] [["1.0"]]])] = inl ERuntime.

(* `Forall floating`: a number without a decimal point stops the writer (ValueError in _find_point); a number with a
   point that is not a floating point literal is printed and refused by the reader *)
Definition g94_floating_stmt : Prop :=
  g94_write_electron [(1%Z, [mkShell "gto" "" [0%Z] ["10"] [["1.0"]]])] = inl EValue /\
  g94_roundtrip [(1%Z, [mkShell "gto" "" [0%Z] ["1.0x"] [["1.0"]]])] = inl ERuntime.

(* `NoDup (map fst els)` (cannot happen for a Python dictionary): the second section of an element is refused by
   create_element_data.  `1 <= z <= 120`: no symbol - KeyError in the writer *)
Definition g94_elements_stmt : Prop :=
  g94_roundtrip [(1%Z, [g94_h]); (1%Z, [g94_h])] = inl ERuntime /\
  g94_write_electron [(0%Z, [g94_h])] = inl EKey /\
  g94_write_electron [(121%Z, [g94_h])] = inl EKey.

(* the function type does NOT survive: a cartesian d shell comes back as spherical (not a condition of g94_ok: g94_expected
   says so) *)
Definition g94_cartesian_stmt : Prop :=
  g94_roundtrip [(1%Z, [mkShell "gto_cartesian" "" [2%Z] ["1.0"] [["1.0"]]])] =
    inr [(1%Z, [mkShell "gto_spherical" "" [2%Z] ["1.0"] [["1.0"]]])].

(* what the reader does with a scale factor other than 1.00 is outside the modelled fragment (ENotImpl), 1.00 / -1.00 / 0.0
   factors are handled: a hand-written file *)
Definition g94_scale_stmt : Prop :=
  g94_read_electron ["H 0"; "S 1 -1.0D0 0.0"; "1.0 1.0"; "****"] = inr [(1%Z, [g94_h])] /\
  g94_read_electron ["H 0"; "S 1 2.0"; "1.0 1.0"; "****"] = inl ENotImpl /\
  g94_read_electron ["H 0"; "S 1 1.0 1.0"; "1.0 1.0"; "****"] = inl ENotImpl /\
  g94_read_electron ["H 0"; "S 1 0.0"; "1.0 1.0"; "****"] = inl ERuntime /\
  g94_read_electron ["-h"; "L=7 1 1.0"; "1.0 1.0"; "****"] =
    inr [(1%Z, [mkShell "gto_spherical" "" [7%Z] ["1.0"] [["1.0"]]])].

(* ---------- a concrete instance: 6-31G for H and C as write_g94 sees it (sp shells kept fused, numbers written with E)
   plus a d shell with two general contractions, one number written with D, one with e, after uncontract_general ---------- *)
(* ex_H1 ex_H2 ex_C1 ex_C2 ex_C3 ex_C4 : Proofs/NwchemDefs.v *)
Definition ex94_C4a : sshell := mkShell "gto_spherical" "polarization" [2%Z] ["0.8000000D+00"; "0.2"] [["1.0000000"; "0.0"]].
Definition ex94_C4b : sshell := mkShell "gto_spherical" "polarization" [2%Z] ["0.8000000D+00"; "0.2"] [["0.0"; "1.0000000"]].
Definition ex94_C5 : sshell := mkShell "gto_cartesian" "" [7%Z] ["1.5e-1"] [["1."]].
Definition ex94_els : list (Z * list sshell) :=
  [(1%Z, [ex_H1; ex_H2]); (6%Z, [ex_C1; ex_C2; ex_C3] ++ unc_gen_shells [ex_C4] ++ [ex94_C5])].

Definition ex94_text : string :=
  String.concat nl1
   ["H     0";
    "S    3   1.00";
    "      0.1873113696D+02       0.3349460434D-01";
    "      0.2825394365D+01       0.2347269535D+00";
    "      0.6401216923D+00       0.8137573261D+00";
    "S    1   1.00";
    "      0.1612777588D+00       1.0000000";
    "****";
    "C     0";
    "S    6   1.00";
    "      0.3047524880D+04       0.1834737132D-02";
    "      0.4573695180D+03       0.1403732281D-01";
    "      0.1039486850D+03       0.6884262226D-01";
    "      0.2921015530D+02       0.2321844432D+00";
    "      0.9286662960D+01       0.4679413484D+00";
    "      0.3163926960D+01       0.3623119853D+00";
    "SP   3   1.00";
    "      0.7868272350D+01      -0.1193324198D+00       0.6899906659D-01";
    "      0.1881288540D+01      -0.1608541517D+00       0.3164239610D+00";
    "      0.5442492580D+00       0.1143456438D+01       0.7443082909D+00";
    "SP   1   1.00";
    "      0.1687144782D+00       0.1000000000D+01       0.1000000000D+01";
    "D    2   1.00";
    "      0.8000000D+00          1.0000000";
    "      0.2                    0.0";
    "D    2   1.00";
    "      0.8000000D+00          0.0";
    "      0.2                    1.0000000";
    "J    1   1.00";
    "      1.5D-1                 1.";
    "****";
    ""].

Definition g94_example_stmt : Prop :=
  (* the general contraction of ex_C4 as the writer sees it *)
  unc_gen_shells [ex_C4] = [ex94_C4a; ex94_C4b] /\
  g94_ok ex94_els /\
  g94_write_electron ex94_els = inr ex94_text /\
  g94_roundtrip ex94_els = inr (g94_expected ex94_els) /\
  (* the visible changes: the exponent marker, the region and the function type *)
  g94_expected_shell ex_H2 = mkShell "gto" "" [0%Z] ["0.1612777588E+00"] [["1.0000000"]] /\
  g94_expected_shell ex94_C4a = mkShell "gto_spherical" "" [2%Z] ["0.8000000E+00"; "0.2"] [["1.0000000"; "0.0"]] /\
  g94_expected_shell ex94_C5 = mkShell "gto_spherical" "" [7%Z] ["1.5E-1"] [["1."]].
