(* Proofs of the C02 sorting statements of Proofs/SortDefs.v (Section SortStmts). *)
From Coq Require Import Sorting.Permutation Sorting.Sorted Lia ZArith.
From BSE Require Import Model.Val Model.Basis Model.Manip Model.Sort Proofs.FSDefs Proofs.SortDefs.

(* ---------------------------------------------------------------------------------------------- *)
(* generic stable insertion                                                                        *)
(* ---------------------------------------------------------------------------------------------- *)
Section GIns.
  Variable A : Type.
  Variable skip : A -> A -> bool.   (* skip q p = true: the new element p goes after q *)

  Fixpoint gins (p : A) (l : list A) : list A :=
    match l with
    | [] => [p]
    | q :: t => if skip q p then q :: gins p t else p :: l
    end.

  Lemma gins_perm : forall p l, Permutation (gins p l) (p :: l).
  Proof.
    intros p l; induction l as [|q t IH]; cbn [gins].
    - apply Permutation_refl.
    - destruct (skip q p).
      + eapply Permutation_trans; [apply perm_skip; exact IH | apply perm_swap].
      + apply Permutation_refl.
  Qed.

  Lemma gfold_perm : forall l acc,
    Permutation (fold_left (fun acc p => gins p acc) l acc) (acc ++ l).
  Proof.
    induction l as [|p l IH]; intros acc; cbn [fold_left].
    - rewrite app_nil_r. apply Permutation_refl.
    - eapply Permutation_trans; [apply IH|].
      eapply Permutation_trans; [apply Permutation_app_tail; apply gins_perm|].
      change ((p :: acc) ++ l) with (p :: acc ++ l).
      apply Permutation_middle.
  Qed.

  Hypothesis skip_total : forall a b, skip a b = true \/ skip b a = true.
  Hypothesis skip_trans : forall a b c, skip a b = true -> skip b c = true -> skip a c = true.

  Lemma gins_sorted : forall p l,
    StronglySorted (fun a b => skip a b = true) l ->
    StronglySorted (fun a b => skip a b = true) (gins p l).
  Proof.
    intros p l; induction l as [|q t IH]; intros Hl; cbn [gins].
    - constructor; [constructor | constructor].
    - apply StronglySorted_inv in Hl. destruct Hl as [Ht Hq].
      destruct (skip q p) eqn:E.
      + constructor; [apply IH; exact Ht|].
        eapply Permutation_Forall; [apply Permutation_sym; apply gins_perm|].
        constructor; assumption.
      + assert (Hpq : skip p q = true).
        { destruct (skip_total p q) as [H|H]; [exact H | congruence]. }
        constructor.
        * constructor; assumption.
        * constructor; [exact Hpq|].
          eapply Forall_impl; [|exact Hq].
          intros r Hr. cbv beta in Hr. eapply skip_trans; eassumption.
  Qed.

  Lemma gfold_sorted : forall l acc,
    StronglySorted (fun a b => skip a b = true) acc ->
    StronglySorted (fun a b => skip a b = true) (fold_left (fun acc p => gins p acc) l acc).
  Proof.
    induction l as [|p l IH]; intros acc Hacc; cbn [fold_left].
    - exact Hacc.
    - apply IH. apply gins_sorted. exact Hacc.
  Qed.
End GIns.
Arguments gins {A}.
Arguments gins_perm {A}.
Arguments gfold_perm {A}.
Arguments gins_sorted {A}.
Arguments gfold_sorted {A}.

Lemma gins_end : forall (A : Type) (skip : A -> A -> bool) p l,
  (forall q, In q l -> skip q p = true) -> gins skip p l = l ++ [p].
Proof.
  intros A skip p l; induction l as [|q t IH]; intros H; cbn [gins app].
  - reflexivity.
  - rewrite (H q (or_introl eq_refl)). f_equal. apply IH.
    intros r Hr. apply H. right. exact Hr.
Qed.

(* ---------------------------------------------------------------------------------------------- *)
(* small list facts                                                                                *)
(* ---------------------------------------------------------------------------------------------- *)
Lemma map_nth_seq : forall (A : Type) (d : A) (l : list A),
  map (fun j => nth j l d) (seq 0 (List.length l)) = l.
Proof.
  intros A d l; induction l as [|x t IH]; cbn [List.length seq map nth].
  - reflexivity.
  - f_equal. rewrite <- seq_shift, map_map. exact IH.
Qed.

Lemma map_f_nth_seq : forall (A B : Type) (d : A) (f : A -> B) (l : list A),
  map (fun j => f (nth j l d)) (seq 0 (List.length l)) = map f l.
Proof.
  intros A B d f l.
  rewrite <- (map_map (fun j => nth j l d) f). rewrite map_nth_seq. reflexivity.
Qed.

Lemma combine_map_pair : forall (A B C : Type) (f : C -> A) (g : C -> B) (l : list C),
  combine (map f l) (map g l) = map (fun j => (f j, g j)) l.
Proof.
  intros A B C f g l; induction l as [|x t IH]; cbn [map combine].
  - reflexivity.
  - f_equal. exact IH.
Qed.

Lemma StronglySorted_map_in : forall (A B : Type) (R : A -> A -> Prop) (R' : B -> B -> Prop) (f : A -> B) l,
  StronglySorted R l ->
  (forall a b, In a l -> In b l -> R a b -> R' (f a) (f b)) ->
  StronglySorted R' (map f l).
Proof.
  intros A B R R' f l Hs; induction Hs as [|a l Hl IH Ha]; intros HR; cbn [map].
  - constructor.
  - constructor.
    + apply IH. intros x y Hx Hy. apply HR; right; assumption.
    + apply Forall_forall. intros y Hy. apply in_map_iff in Hy.
      destruct Hy as [b [Hb1 Hb2]]. subst y.
      apply HR; [left; reflexivity | right; exact Hb2 |].
      eapply Forall_forall in Ha; eassumption.
Qed.

Lemma enumerate_from_fst : forall (A : Type) (l : list A) k,
  map fst (enumerate_from k l) = seq k (List.length l).
Proof.
  intros A l; induction l as [|x t IH]; intros k; cbn [enumerate_from map List.length seq fst].
  - reflexivity.
  - f_equal. apply IH.
Qed.

Lemma enumerate_from_nth : forall (A : Type) (d : A) (l : list A) k i x,
  In (i, x) (enumerate_from k l) -> k <= i /\ nth (i - k) l d = x.
Proof.
  intros A d l; induction l as [|y t IH]; intros k i x H; cbn [enumerate_from] in H.
  - destruct H.
  - destruct H as [H|H].
    + inversion H; subst. split; [lia|]. rewrite Nat.sub_diag. reflexivity.
    + apply IH in H. destruct H as [H1 H2]. split; [lia|].
      replace (i - k) with (S (i - S k)) by lia. exact H2.
Qed.

(* ---------------------------------------------------------------------------------------------- *)
Section SortFS.
  Variable N : Type.
  Variable is0 : N -> bool.
  Variable same : N -> N -> bool.
  Variable leb : N -> N -> bool.
  Variable dflt : N.
  Hypothesis Hs : forall a, same a a = true.
  Hypothesis Ho : order_ok leb.
  Notation shell := (shell N).
  Notation cfun := (cfun N).

  (* ---------- zidx ---------- *)
  Definition dskip (q p : nat * N) : bool := leb (snd p) (snd q).

  Lemma insert_desc_gins : forall p l, insert_desc leb p l = gins dskip p l.
  Proof.
    intros p l; induction l as [|q t IH]; cbn [insert_desc gins].
    - reflexivity.
    - unfold dskip at 1. rewrite IH. reflexivity.
  Qed.

  Definition sorted_en (xs : list N) : list (nat * N) :=
    fold_left (fun acc p => gins dskip p acc) (enumerate_from 0 xs) [].

  Lemma fold_insert_desc_gins : forall l acc,
    fold_left (fun acc p => insert_desc leb p acc) l acc = fold_left (fun acc p => gins dskip p acc) l acc.
  Proof.
    induction l as [|p l IH]; intros acc; cbn [fold_left].
    - reflexivity.
    - rewrite insert_desc_gins. apply IH.
  Qed.

  Lemma zidx_eq : forall xs, zidx leb xs = map fst (sorted_en xs).
  Proof. intros xs. unfold zidx, sorted_en. rewrite fold_insert_desc_gins. reflexivity. Qed.

  Lemma sorted_en_perm : forall xs, Permutation (sorted_en xs) (enumerate_from 0 xs).
  Proof. intros xs. unfold sorted_en. apply (gfold_perm dskip (enumerate_from 0 xs) []). Qed.

  Lemma zidx_perm : forall xs, Permutation (zidx leb xs) (seq 0 (List.length xs)).
  Proof.
    intros xs. rewrite zidx_eq, <- enumerate_from_fst.
    apply Permutation_map. apply sorted_en_perm.
  Qed.

  Lemma pick_zidx : forall xs, pick dflt xs (zidx leb xs) = map snd (sorted_en xs).
  Proof.
    intros xs. rewrite zidx_eq. unfold pick. rewrite map_map.
    apply map_ext_in. intros [i x] Hin. cbn [fst snd].
    apply (Permutation_in _ (sorted_en_perm xs)) in Hin.
    apply (enumerate_from_nth _ dflt) in Hin. destruct Hin as [_ Hn].
    rewrite Nat.sub_0_r in Hn. exact Hn.
  Qed.

  Lemma dskip_total : forall a b, dskip a b = true \/ dskip b a = true.
  Proof. intros a b. unfold dskip. apply (leb_total Ho). Qed.
  Lemma dskip_trans : forall a b c, dskip a b = true -> dskip b c = true -> dskip a c = true.
  Proof. intros a b c H1 H2. unfold dskip in *. eapply (leb_trans Ho); eassumption. Qed.

  Lemma sorted_en_sorted : forall xs, StronglySorted (fun a b => dskip a b = true) (sorted_en xs).
  Proof.
    intros xs. unfold sorted_en.
    apply (gfold_sorted dskip dskip_total dskip_trans). constructor.
  Qed.

  Lemma pick_zidx_sorted : forall xs,
    StronglySorted (fun a b => leb b a = true) (pick dflt xs (zidx leb xs)).
  Proof.
    intros xs. rewrite pick_zidx.
    eapply StronglySorted_map_in; [apply sorted_en_sorted|].
    intros a b _ _ H. exact H.
  Qed.

  Lemma sort_shell_sorted : sort_shell_sorted_stmt leb dflt.
  Proof.
    intros s cidx. unfold sort_shell. cbn [exps]. apply pick_zidx_sorted.
  Qed.

  (* ---------- function-set transfer ---------- *)
  Definition ceq (g g' : cfun) : Prop := fst g = fst g' /\ Permutation (snd g) (snd g').

  Lemma ceq_sym : forall g g', ceq g g' -> ceq g' g.
  Proof. intros g g' [H1 H2]. split; [symmetry; exact H1 | apply Permutation_sym; exact H2]. Qed.

  Lemma InS_perm : forall p l l', Permutation l l' -> InS same p l -> InS same p l'.
  Proof.
    intros p l l' HP [q [Hq1 Hq2]]. exists q. split; [|exact Hq2].
    eapply Permutation_in; eassumption.
  Qed.

  Lemma feq_ceq : forall f g g', ceq g g' -> feq is0 same f g -> feq is0 same f g'.
  Proof.
    intros f g g' [H1 H2] [F1 F2]. split; [congruence|].
    intros p Hp. rewrite (F2 p Hp).
    split; apply InS_perm; [|apply Permutation_sym]; exact H2.
  Qed.

  Definition csub (A B : list cfun) : Prop := forall g, In g A -> exists g', In g' B /\ ceq g g'.

  Lemma csub_FSin : forall A B f, csub A B ->
    (exists g, In g A /\ feq is0 same f g) -> exists g, In g B /\ feq is0 same f g.
  Proof.
    intros A B f HAB [g [Hg1 Hg2]]. destruct (HAB g Hg1) as [g' [Hg'1 Hg'2]].
    exists g'. split; [exact Hg'1|]. eapply feq_ceq; eassumption.
  Qed.

  Lemma FSin_single : forall f s,
    FSin is0 same f [s] <-> exists g, In g (shell_cfuns s) /\ feq is0 same f g.
  Proof.
    intros f s. unfold FSin, shells_cfuns. cbn [flat_map]. rewrite app_nil_r. reflexivity.
  Qed.

  Lemma Forall2_csub : forall A B, Forall2 ceq A B -> csub A B /\ csub B A.
  Proof.
    intros A B H; induction H as [|a b A B Hab HAB [IH1 IH2]].
    - split; intros g [].
    - split; intros g [Hg|Hg].
      + subst g. exists b. split; [left; reflexivity | exact Hab].
      + destruct (IH1 g Hg) as [g' [Hg1 Hg2]]. exists g'. split; [right; exact Hg1 | exact Hg2].
      + subst g. exists a. split; [left; reflexivity | apply ceq_sym; exact Hab].
      + destruct (IH2 g Hg) as [g' [Hg1 Hg2]]. exists g'. split; [right; exact Hg1 | exact Hg2].
  Qed.

  (* ---------- one column ---------- *)
  Lemma combine_pick_perm : forall xs c z,
    List.length c = List.length xs -> Permutation z (seq 0 (List.length xs)) ->
    Permutation (combine (pick dflt xs z) (pick dflt c z)) (combine xs c).
  Proof.
    intros xs c z Hlen Hz. unfold pick. rewrite combine_map_pair.
    assert (E : combine xs c = map (fun j => (nth j xs dflt, nth j c dflt)) (seq 0 (List.length xs))).
    { rewrite <- combine_map_pair. rewrite map_nth_seq. rewrite <- Hlen. rewrite map_nth_seq. reflexivity. }
    rewrite E. apply Permutation_map. exact Hz.
  Qed.

  Lemma zip_am_ceq : forall ams cs xs z,
    Forall (fun c => List.length c = List.length xs) cs -> Permutation z (seq 0 (List.length xs)) ->
    Forall2 ceq (zip_am ams (map (fun c => pick dflt c z) cs) (pick dflt xs z)) (zip_am ams cs xs).
  Proof.
    induction ams as [|l ams IH]; intros cs xs z Hcs Hz.
    - cbn [zip_am]. constructor.
    - destruct cs as [|c cs]; cbn [zip_am map]; [constructor|].
      inversion Hcs as [|c' cs' Hc Hcs']; subst.
      constructor.
      + split; cbn [fst snd]; [reflexivity|]. apply combine_pick_perm; assumption.
      + apply IH; assumption.
  Qed.

  (* ---------- shell_cfuns of a sorted shell ---------- *)
  Lemma shell_cfuns_single : forall (s : shell) l, am s = [l] ->
    shell_cfuns s = map (fun c => (l, combine (exps s) c)) (coefs s).
  Proof. intros s l H. unfold shell_cfuns. rewrite H. reflexivity. Qed.

  Lemma shell_cfuns_fused : forall (s : shell), List.length (am s) <> 1 ->
    shell_cfuns s = zip_am (am s) (coefs s) (exps s).
  Proof.
    intros s H. unfold shell_cfuns. destruct (am s) as [|l1 [|l2 r]]; try reflexivity.
    exfalso. apply H. reflexivity.
  Qed.

  Lemma sort_shell_single : forall (s : shell) cidx l, am s = [l] ->
    sort_shell leb dflt s cidx =
    mkShell (ftype s) (region s) (am s) (pick dflt (exps s) (zidx leb (exps s)))
            (map (fun i => pick dflt (nth i (coefs s) []) (zidx leb (exps s))) cidx).
  Proof. intros s cidx l H. unfold sort_shell. rewrite H. reflexivity. Qed.

  Lemma sort_shell_fused : forall (s : shell) cidx, List.length (am s) <> 1 ->
    sort_shell leb dflt s cidx =
    mkShell (ftype s) (region s) (am s) (pick dflt (exps s) (zidx leb (exps s)))
            (map (fun c => pick dflt c (zidx leb (exps s))) (coefs s)).
  Proof.
    intros s cidx H. unfold sort_shell.
    apply Nat.eqb_neq in H. rewrite H.
    rewrite (map_f_nth_seq _ _ [] (fun c => pick dflt c (zidx leb (exps s)))). reflexivity.
  Qed.

  Lemma sort_cfuns_equiv : forall (s : shell) cidx, rect s -> cidx_ok s cidx ->
    csub (shell_cfuns (sort_shell leb dflt s cidx)) (shell_cfuns s) /\
    csub (shell_cfuns s) (shell_cfuns (sort_shell leb dflt s cidx)).
  Proof.
    intros s cidx Hrect Hcidx.
    destruct (Nat.eq_dec (List.length (am s)) 1) as [Hlen|Hlen].
    - specialize (Hcidx Hlen).
      assert (Hl : exists l, am s = [l]).
      { destruct (am s) as [|l [|l2 r]]; try discriminate Hlen. exists l. reflexivity. }
      destruct Hl as [l Hl].
      rewrite (sort_shell_single s cidx l Hl).
      rewrite (shell_cfuns_single s l Hl).
      rewrite (shell_cfuns_single (mkShell _ _ _ _ _) l) by (cbn [am]; exact Hl).
      cbn [exps coefs]. rewrite map_map.
      split; intros g Hg; apply in_map_iff in Hg.
      + destruct Hg as [i [Hg Hi]]. subst g.
        apply (Permutation_in _ Hcidx) in Hi. apply in_seq in Hi.
        assert (Hc : In (nth i (coefs s) []) (coefs s)) by (apply nth_In; lia).
        exists (l, combine (exps s) (nth i (coefs s) [])). split.
        * apply in_map_iff. exists (nth i (coefs s) []). split; [reflexivity | exact Hc].
        * split; cbn [fst snd]; [reflexivity|].
          apply combine_pick_perm; [|apply zidx_perm].
          unfold rect in Hrect. eapply Forall_forall in Hrect; eassumption.
      + destruct Hg as [c [Hg Hc]]. subst g.
        destruct (In_nth _ _ [] Hc) as [i [Hi1 Hi2]].
        exists (l, combine (pick dflt (exps s) (zidx leb (exps s)))
                           (pick dflt (nth i (coefs s) []) (zidx leb (exps s)))). split.
        * apply in_map_iff. exists i. split; [reflexivity|].
          apply (Permutation_in _ (Permutation_sym Hcidx)). apply in_seq. lia.
        * apply ceq_sym. split; cbn [fst snd]; [reflexivity|]. rewrite Hi2.
          apply combine_pick_perm; [|apply zidx_perm].
          unfold rect in Hrect. eapply Forall_forall in Hrect; eassumption.
    - rewrite (sort_shell_fused s cidx Hlen).
      rewrite (shell_cfuns_fused s Hlen).
      rewrite (shell_cfuns_fused (mkShell _ _ _ _ _)) by (cbn [am]; exact Hlen).
      cbn [am exps coefs].
      apply Forall2_csub. apply zip_am_ceq; [exact Hrect | apply zidx_perm].
  Qed.

  Lemma sort_shell_rect : forall (s : shell) cidx, rect (sort_shell leb dflt s cidx).
  Proof.
    intros s cidx. unfold rect, sort_shell. cbn [coefs exps].
    apply Forall_forall. intros c Hc. apply in_map_iff in Hc. destruct Hc as [i [Hc _]]. subst c.
    unfold pick. rewrite !map_length. reflexivity.
  Qed.

  Lemma sort_shell_FS : sort_shell_FS_stmt is0 same leb dflt.
  Proof.
    intros s cidx Hrect _ Hcidx. split; [|apply sort_shell_rect].
    destruct (sort_cfuns_equiv s cidx Hrect Hcidx) as [H1 H2].
    intros f. rewrite !FSin_single. split; apply csub_FSin; assumption.
  Qed.
  (* ---------- sort_shells ---------- *)
  Definition sskip (q p : (Z * nat) * shell) : bool := key_leb (fst q) (fst p).

  Lemma insert_shell_gins : forall (p : (Z * nat) * shell) l, insert_shell p l = gins sskip p l.
  Proof.
    intros p l; induction l as [|q t IH]; cbn [insert_shell gins].
    - reflexivity.
    - unfold sskip at 1. rewrite IH. reflexivity.
  Qed.

  Lemma fold_insert_shell_gins : forall (l : list ((Z * nat) * shell)) acc,
    fold_left (fun acc p => insert_shell p acc) l acc = fold_left (fun acc p => gins sskip p acc) l acc.
  Proof.
    induction l as [|p l IH]; intros acc; cbn [fold_left].
    - reflexivity.
    - rewrite insert_shell_gins. apply IH.
  Qed.

  Definition sortf (sr : shell * (list nat * nat)) : shell := sort_shell leb dflt (fst sr) (fst (snd sr)).
  Definition keyed (sr : shell * (list nat * nat)) : (Z * nat) * shell :=
    ((max_am_of (am (sortf sr)), snd (snd sr)), sortf sr).

  Lemma sort_shells_eq : forall l,
    sort_shells leb dflt l = map snd (fold_left (fun acc p => gins sskip p acc) (map keyed l) []).
  Proof.
    intros l. unfold sort_shells. rewrite fold_insert_shell_gins. reflexivity.
  Qed.

  Lemma sort_shells_perm : forall l, Permutation (sort_shells leb dflt l) (map sortf l).
  Proof.
    intros l. rewrite sort_shells_eq.
    replace (map sortf l) with (map snd (map keyed l)) by (rewrite map_map; reflexivity).
    apply Permutation_map. apply (gfold_perm sskip (map keyed l) []).
  Qed.

  Lemma FSin_decomp : forall f shs,
    FSin is0 same f shs <-> exists s, In s shs /\ FSin is0 same f [s].
  Proof.
    intros f shs. split.
    - intros [g [Hg Hf]]. unfold shells_cfuns in Hg. apply in_flat_map in Hg.
      destruct Hg as [s [Hs1 Hs2]]. exists s. split; [exact Hs1|].
      apply FSin_single. exists g. split; assumption.
    - intros [s [Hs1 Hs2]]. apply FSin_single in Hs2. destruct Hs2 as [g [Hg Hf]].
      exists g. split; [|exact Hf]. unfold shells_cfuns. apply in_flat_map.
      exists s. split; assumption.
  Qed.

  Lemma sort_shells_FS : sort_shells_FS_stmt is0 same leb dflt.
  Proof.
    intros l HF f.
    rewrite (FSin_decomp f (sort_shells leb dflt l)), (FSin_decomp f (map fst l)).
    split.
    - intros [s' [Hin Hf]].
      apply (Permutation_in _ (sort_shells_perm l)) in Hin. apply in_map_iff in Hin.
      destruct Hin as [sr [Hsr1 Hsr2]]. subst s'.
      exists (fst sr). split; [apply in_map; exact Hsr2|].
      eapply Forall_forall in HF; [|exact Hsr2]. destruct HF as [Hr [Ha Hc]].
      destruct (sort_shell_FS (fst sr) (fst (snd sr)) Hr Ha Hc) as [HE _].
      apply HE. exact Hf.
    - intros [s0 [Hin Hf]]. apply in_map_iff in Hin.
      destruct Hin as [sr [Hsr1 Hsr2]]. subst s0.
      exists (sortf sr). split.
      + apply (Permutation_in _ (Permutation_sym (sort_shells_perm l))). apply in_map. exact Hsr2.
      + eapply Forall_forall in HF; [|exact Hsr2]. destruct HF as [Hr [Ha Hc]].
        destruct (sort_shell_FS (fst sr) (fst (snd sr)) Hr Ha Hc) as [HE _].
        apply HE. exact Hf.
  Qed.

  (* ---------- order of the sorted shells ---------- *)
  Lemma key_leb_spec : forall a b,
    key_leb a b = true <-> ((fst a < fst b)%Z \/ (fst a = fst b /\ snd a <= snd b)).
  Proof.
    intros a b. unfold key_leb.
    destruct (Z.ltb_spec (fst a) (fst b)) as [Hab|Hab].
    - split; [intros _; left; exact Hab | reflexivity].
    - destruct (Z.ltb_spec (fst b) (fst a)) as [Hba|Hba].
      + split; [discriminate | lia].
      + rewrite Nat.leb_le. lia.
  Qed.

  Lemma key_leb_fst : forall a b, key_leb a b = true -> (fst a <= fst b)%Z.
  Proof. intros a b H. apply key_leb_spec in H. lia. Qed.

  Lemma key_leb_total : forall a b, key_leb a b = true \/ key_leb b a = true.
  Proof. intros a b. rewrite !key_leb_spec. lia. Qed.

  Lemma key_leb_trans : forall a b c, key_leb a b = true -> key_leb b c = true -> key_leb a c = true.
  Proof. intros a b c. rewrite !key_leb_spec. lia. Qed.

  Lemma sort_shells_order : sort_shells_order_stmt leb dflt.
  Proof.
    intros l. rewrite sort_shells_eq.
    set (acc := fold_left (fun acc p => gins sskip p acc) (map keyed l) []).
    assert (Hsorted : StronglySorted (fun a b => sskip a b = true) acc).
    { unfold acc. apply gfold_sorted.
      - intros a b. unfold sskip. apply key_leb_total.
      - intros a b c. unfold sskip. apply key_leb_trans.
      - constructor. }
    assert (Hkeys : Forall (fun p : (Z * nat) * shell => fst (fst p) = max_am_of (am (snd p))) acc).
    { eapply Permutation_Forall.
      - apply Permutation_sym. apply (gfold_perm sskip (map keyed l) []).
      - cbn [app]. apply Forall_forall. intros p Hp. apply in_map_iff in Hp.
        destruct Hp as [sr [Hp _]]. subst p. reflexivity. }
    eapply StronglySorted_map_in; [exact Hsorted|].
    intros a b Ha Hb Hab. cbv beta.
    eapply Forall_forall in Ha; [|exact Hkeys]. eapply Forall_forall in Hb; [|exact Hkeys].
    cbv beta in Ha, Hb. rewrite <- Ha, <- Hb. apply key_leb_fst. exact Hab.
  Qed.

  (* ---------- idempotence ---------- *)
  Lemma gfold_sorted_id : forall xs k acc,
    StronglySorted (fun a b => leb b a = true) xs ->
    (forall q x, In q acc -> In x xs -> leb x (snd q) = true) ->
    fold_left (fun acc p => gins dskip p acc) (enumerate_from k xs) acc = acc ++ enumerate_from k xs.
  Proof.
    induction xs as [|x xs IH]; intros k acc Hsort Hacc; cbn [enumerate_from fold_left].
    - rewrite app_nil_r. reflexivity.
    - apply StronglySorted_inv in Hsort. destruct Hsort as [Hsort Hx].
      rewrite gins_end.
      + rewrite IH; [rewrite <- app_assoc; reflexivity | exact Hsort |].
        intros q y Hq Hy. apply in_app_or in Hq. destruct Hq as [Hq|[Hq|[]]].
        * apply Hacc; [exact Hq | right; exact Hy].
        * subst q. cbn [snd]. eapply Forall_forall in Hx; eassumption.
      + intros q Hq. unfold dskip. cbn [snd]. apply Hacc; [exact Hq | left; reflexivity].
  Qed.

  Lemma zidx_sorted_id : forall xs,
    StronglySorted (fun a b => leb b a = true) xs -> zidx leb xs = seq 0 (List.length xs).
  Proof.
    intros xs Hsort. rewrite zidx_eq. unfold sorted_en.
    rewrite gfold_sorted_id; [|exact Hsort|intros q x []].
    cbn [app]. apply enumerate_from_fst.
  Qed.

  Lemma StronglySorted_weaken : forall (A : Type) (R R' : A -> A -> Prop) l,
    (forall a b, R a b -> R' a b) -> StronglySorted R l -> StronglySorted R' l.
  Proof.
    intros A R R' l HR H; induction H as [|a l Hl IH Ha].
    - constructor.
    - constructor; [exact IH|]. eapply Forall_impl; [|exact Ha]. intros b. apply HR.
  Qed.

  Lemma sort_shell_idem : sort_shell_idem_stmt leb dflt.
  Proof.
    intros s Hrect Hsort.
    destruct s as [ft rg a xs cs]. unfold rect in Hrect. cbn [coefs exps] in *.
    assert (Hsort' : StronglySorted (fun a b => leb b a = true) xs).
    { eapply StronglySorted_weaken; [|exact Hsort]. intros x y [H _]. exact H. }
    unfold sort_shell. cbn [ftype region am exps coefs].
    rewrite (zidx_sorted_id xs Hsort').
    assert (Hc : (if Nat.eqb (List.length a) 1 then seq 0 (List.length cs) else seq 0 (List.length cs))
                 = seq 0 (List.length cs)) by (destruct (Nat.eqb (List.length a) 1); reflexivity).
    rewrite Hc.
    rewrite (map_f_nth_seq _ _ [] (fun c => pick dflt c (seq 0 (List.length xs)))).
    f_equal.
    - unfold pick. apply map_nth_seq.
    - rewrite <- (map_id cs) at 2. apply map_ext_in. intros c Hin.
      eapply Forall_forall in Hrect; [|exact Hin]. cbv beta in Hrect. rewrite <- Hrect.
      unfold pick. apply map_nth_seq.
  Qed.
End SortFS.

Print Assumptions sort_shell_FS.
Print Assumptions sort_shell_sorted.
Print Assumptions sort_shells_FS.
Print Assumptions sort_shells_order.
Print Assumptions sort_shell_idem.
