(* The documented meaning of the command line (hand-written from the CLI's own help texts and the user documentation), and
   the finite theorem that the routing extracted from cli/bse_cli.py + cli/bse_handlers.py realises it. *)
From BSE Require Import Model.Val Model.Memo Gen.GenCli Model.Cli.

(* (subcommand, command-line argument, library function, parameter, negated) *)
Definition cli_spec : list (string * string * string * string * bool) :=
  [ ("get-basis", "basis", "api.get_basis", "name", false);
    ("get-basis", "fmt", "api.get_basis", "fmt", false);
    ("get-basis", "--elements", "api.get_basis", "elements", false);
    ("get-basis", "--version", "api.get_basis", "version", false);
    ("get-basis", "--noheader", "api.get_basis", "header", true);
    ("get-basis", "--unc-gen", "api.get_basis", "uncontract_general", false);
    ("get-basis", "--unc-spdf", "api.get_basis", "uncontract_spdf", false);
    ("get-basis", "--unc-seg", "api.get_basis", "uncontract_segmented", false);
    ("get-basis", "--rm-free", "api.get_basis", "remove_free_primitives", false);
    ("get-basis", "--opt-gen", "api.get_basis", "optimize_general", false);
    ("get-basis", "--make-gen", "api.get_basis", "make_general", false);
    ("get-basis", "--aug-steep", "api.get_basis", "augment_steep", false);
    ("get-basis", "--aug-diffuse", "api.get_basis", "augment_diffuse", false);
    ("get-basis", "--get-aux", "api.get_basis", "get_aux", false);
    ("get-basis", "--data-dir", "api.get_basis", "data_dir", false);
    ("get-basis", "-d", "api.get_basis", "data_dir", false);
    ("get-refs", "basis", "api.get_references", "basis_name", false);
    ("get-refs", "reffmt", "api.get_references", "fmt", false);
    ("get-refs", "--elements", "api.get_references", "elements", false);
    ("get-refs", "--version", "api.get_references", "version", false);
    ("get-refs", "--data-dir", "api.get_references", "data_dir", false);
    ("list-basis-sets", "--family", "api.filter_basis_sets", "family", false);
    ("list-basis-sets", "-f", "api.filter_basis_sets", "family", false);
    ("list-basis-sets", "--role", "api.filter_basis_sets", "role", false);
    ("list-basis-sets", "-r", "api.filter_basis_sets", "role", false);
    ("list-basis-sets", "--substr", "api.filter_basis_sets", "substr", false);
    ("list-basis-sets", "-s", "api.filter_basis_sets", "substr", false);
    ("list-basis-sets", "--elements", "api.filter_basis_sets", "elements", false);
    ("list-basis-sets", "-e", "api.filter_basis_sets", "elements", false);
    ("list-basis-sets", "--data-dir", "api.filter_basis_sets", "data_dir", false);
    ("list-families", "--data-dir", "api.get_families", "data_dir", false);
    ("lookup-by-role", "basis", "api.lookup_basis_by_role", "primary_basis", false);
    ("lookup-by-role", "role", "api.lookup_basis_by_role", "role", false);
    ("lookup-by-role", "--data-dir", "api.lookup_basis_by_role", "data_dir", false);
    ("get-notes", "basis", "api.get_basis_notes", "name", false);
    ("get-notes", "--data-dir", "api.get_basis_notes", "data_dir", false);
    ("get-family", "basis", "api.get_basis_family", "basis_name", false);
    ("get-family-notes", "family", "api.get_family_notes", "family", false);
    ("get-family-notes", "--data-dir", "api.get_family_notes", "data_dir", false);
    ("convert-basis", "input_file", "convert.convert_formatted_basis_file", "file_path_in", false);
    ("convert-basis", "output_file", "convert.convert_formatted_basis_file", "file_path_out", false);
    ("convert-basis", "--in-fmt", "convert.convert_formatted_basis_file", "in_fmt", false);
    ("convert-basis", "--out-fmt", "convert.convert_formatted_basis_file", "out_fmt", false);
    ("convert-basis", "--make-gen", "convert.convert_formatted_basis_file", "make_gen", false);
    ("create-bundle", "bundle_file", "bundle.create_bundle", "outfile", false);
    ("create-bundle", "fmt", "bundle.create_bundle", "fmt", false);
    ("create-bundle", "reffmt", "bundle.create_bundle", "reffmt", false);
    ("create-bundle", "--archive-type", "bundle.create_bundle", "archive_type", false);
    ("create-bundle", "--data-dir", "bundle.create_bundle", "data_dir", false) ].

Definition spec_ok (e : string * string * string * string * bool) : bool :=
  let '(sub, opt, callee, param, neg) := e in
  match routes sub opt with
  | [r] => route_eqb r (callee, param, neg)          (* reaches exactly that parameter, exactly once *)
  | _ => false
  end.
Lemma cli_wiring_sweep : forallb spec_ok cli_spec = true.
Proof. vm_compute. reflexivity. Qed.

Lemma cli_wiring_lemma :
  forall sub opt callee param neg, In (sub, opt, callee, param, neg) cli_spec -> routes sub opt = [(callee, param, neg)].
Proof.
  intros sub opt callee param neg H.
  pose proof (proj1 (forallb_forall _ _) cli_wiring_sweep _ H) as E. unfold spec_ok in E.
  destruct (routes sub opt) as [|r [|r2 t]]; try discriminate.
  unfold route_eqb in E. repeat rewrite andb_true_iff in E. destruct E as [[E1 E2] E3].
  apply String.eqb_eq in E1, E2. apply Bool.eqb_prop in E3. destruct r as [[a b] c]. cbn in *. subst. reflexivity.
Qed.

(* flags are off by default, counts default to 0 *)
Definition defaults_ok (sub : string) : bool :=
  match assoc sub cli_subcommands with
  | None => false
  | Some args => forallb (fun a => if String.eqb (arg_action a) "store_true" then true
                                   else if String.eqb (arg_type a) "int" then val_eqb (arg_default a) (VInt 0)
                                   else val_eqb (arg_default a) VNone) args
  end.
Lemma cli_defaults : defaults_ok "get-basis" && defaults_ok "get-refs" && defaults_ok "list-basis-sets" = true.
Proof. vm_compute. reflexivity. Qed.

(* no argument of these subcommands is ignored: each one reaches a library parameter (or is a documented display-only switch) *)
Definition display_only : list string := ["no_description"].
Definition all_routed (sub : string) : bool :=
  match assoc sub cli_subcommands with
  | None => false
  | Some args => forallb (fun a => orb (mem_str (arg_dest a) display_only)
                                       (negb (match routes_of_dest sub (arg_dest a) with [] => true | _ => false end))) args
  end.
Definition routed_subcommands : list string :=
  ["get-basis"; "get-refs"; "list-basis-sets"; "lookup-by-role"; "get-notes"; "get-family"; "get-family-notes";
   "convert-basis"; "create-bundle"].
Lemma cli_nothing_ignored : forallb all_routed routed_subcommands = true.
Proof. vm_compute. reflexivity. Qed.

(* every subcommand has a handler and every handler belongs to a subcommand *)
Lemma cli_handlers_complete :
  forallb (fun s => match assoc (fst s) cli_handler_map with Some _ => true | None => false end) cli_subcommands = true /\
  forallb (fun h => match assoc (fst h) cli_subcommands with Some _ => true | None => false end) cli_handler_map = true.
Proof. vm_compute. split; reflexivity. Qed.
