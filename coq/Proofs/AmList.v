(* amint_to_char / amchar_to_int on whole angular-momentum lists (combined shells such as [0;1] = "sp",
   [0;1;2] = "spd", and any longer list): the inverse law for singletons (C20Finite.am_inverse_lemma, a sweep over
   the translated letter tables) lifted to lists of every length by induction. *)
From BSE Require Import Model.Val Gen.GenLut Model.Lut Proofs.C20Finite.

Definition am_in_range (hij : bool) (l : Z) : Prop := (0 <= l < Z.of_nat (String.length (amchar_map hij)))%Z.

(* what the singleton law says about the letter table itself *)
Lemma am_letter :
  forall hij l, am_in_range hij l ->
    exists c, (l <? 0)%Z = false /\ snth (Z.to_nat l) (amchar_map hij) = Some c /\
              (exists i, sindex (lower_char c) (amchar_map hij) = Some i /\ Z.of_nat i = l) /\
              (exists j, sindex (lower_char (upper_char c)) (amchar_map hij) = Some j /\ Z.of_nat j = l).
Proof.
  intros hij l Hl. destruct (am_inverse_lemma hij l Hl) as [s [H1 [_ [H3 H4]]]].
  unfold amint_to_char in H1. cbn [andb] in H1. cbn [amint_chars] in H1.
  destruct (l <? 0)%Z eqn:El; [discriminate H1|].
  destruct (snth (Z.to_nat l) (amchar_map hij)) as [c|] eqn:Ec; [|discriminate H1].
  cbn [bind ok] in H1. injection H1 as <-.
  exists c. split; [reflexivity|]. split; [reflexivity|].
  unfold amchar_to_int in H3, H4. cbn [upper lower smap amchar_ints] in H3, H4.
  split.
  - destruct (sindex (lower_char c) (amchar_map hij)) as [i|]; [|discriminate H3].
    cbn [bind ok] in H3. injection H3 as H3. exists i. auto.
  - destruct (sindex (lower_char (upper_char c)) (amchar_map hij)) as [j|]; [|discriminate H4].
    cbn [bind ok] in H4. injection H4 as H4. exists j. auto.
Qed.

Lemma am_list_inverse_lemma :
  forall hij am, Forall (am_in_range hij) am ->
    exists s, amint_to_char am hij false = inr s /\ String.length s = List.length am /\
              amchar_to_int s hij = inr am /\ amchar_to_int (upper s) hij = inr am.
Proof.
  intros hij am H. unfold amint_to_char, amchar_to_int. cbn [andb].
  induction H as [|l t Hl Ht IH].
  - exists EmptyString. cbn. auto.
  - destruct IH as [r [R1 [R2 [R3 R4]]]].
    destruct (am_letter hij l Hl) as [c [El [Ec [[i [Hi Ei]] [j [Hj Ej]]]]]].
    exists (String c r). cbn [amint_chars]. rewrite El, Ec, R1. cbn [bind ok].
    split; [reflexivity|]. split; [cbn [String.length List.length]; congruence|].
    cbn [upper lower smap amchar_ints]. rewrite Hi, Hj.
    fold (lower r). fold (upper r). fold (lower (upper r)). rewrite R3, R4. cbn [bind ok].
    subst. rewrite Ej. split; reflexivity.
Qed.

(* the other direction: every string of table letters (either case) converts to integers and back to its
   lower-case form *)
Lemma sindex_snth : forall c m i, sindex c m = Some i -> snth i m = Some c.
Proof.
  intros c m. induction m as [|a t IH]; intros i H; cbn [sindex] in H; [discriminate|].
  destruct (Ascii.eqb a c) eqn:E.
  - injection H as <-. apply Ascii.eqb_eq in E. subst. reflexivity.
  - destruct (sindex c t) as [k|]; [|discriminate]. cbn [option_map] in H. injection H as <-.
    cbn [snth]. apply IH. reflexivity.
Qed.

Lemma am_letters_inverse_lemma :
  forall hij s am, amchar_to_int s hij = inr am -> amint_to_char am hij false = inr (lower s).
Proof.
  intros hij s. unfold amchar_to_int, amint_to_char. cbn [andb]. unfold lower.
  induction s as [|c t IH]; intros am H; cbn [smap amchar_ints] in *.
  - injection H as <-. reflexivity.
  - destruct (sindex (lower_char c) (amchar_map hij)) as [i|] eqn:Ei; [|discriminate H].
    destruct (amchar_ints (amchar_map hij) (smap lower_char t)) as [e|r] eqn:Er; cbn [bind ok] in H; [discriminate H|].
    injection H as <-. cbn [amint_chars].
    assert (Hn : (Z.of_nat i <? 0)%Z = false) by (apply Z.ltb_ge; lia). rewrite Hn.
    rewrite Nat2Z.id. rewrite (sindex_snth _ _ _ Ei). rewrite (IH r eq_refl). reflexivity.
Qed.

(* rejection for lists: one unsupported entry anywhere makes the whole conversion an IndexError *)
Lemma amint_chars_err_is_index m am e : amint_chars m am = inl e -> e = EIndex.
Proof.
  revert e. induction am as [|a t IH]; intros e H; cbn [amint_chars] in H; [discriminate H|].
  destruct (a <? 0)%Z; [injection H as <-; reflexivity|].
  destruct (snth (Z.to_nat a) m); [|injection H as <-; reflexivity].
  destruct (amint_chars m t) as [e'|r]; cbn [bind ok] in H; [|discriminate H].
  injection H as <-. apply IH. reflexivity.
Qed.

Lemma am_list_outside_lemma :
  forall hij am, Exists (fun l => (l < 0 \/ Z.of_nat (String.length (amchar_map hij)) <= l)%Z) am ->
    amint_to_char am hij false = inl EIndex.
Proof.
  intros hij am H. unfold amint_to_char. cbn [andb].
  induction H as [a t Ha | a t Ht IH]; cbn [amint_chars].
  - pose proof (amint_out_of_range hij a Ha) as H1. unfold amint_to_char in H1. cbn [andb amint_chars] in H1.
    destruct (a <? 0)%Z; [reflexivity|].
    destruct (snth (Z.to_nat a) (amchar_map hij)); [|reflexivity]. cbn [bind ok] in H1. discriminate H1.
  - destruct (a <? 0)%Z; [reflexivity|].
    destruct (snth (Z.to_nat a) (amchar_map hij)); [|reflexivity]. rewrite IH. reflexivity.
Qed.
