(* Statements about the Turbomole writer / reader pair (electron shells): what write_turbomole prints, read_turbomole
   reads back.  Definitions only; the proofs are in Proofs/TurbomoleSpec.v. *)
From BSE Require Import Model.Val Model.Text Model.Basis Model.Manip Model.Matrix Model.Lut Model.Elements Model.Nwchem
                        Model.Turbomole Proofs.MatrixDefs Proofs.NwchemDefs.

(* ---------- well-formed input of the writer (what is left after uncontract_general / uncontract_spdf / sort_basis) ---------- *)
Definition tm_shell_ok (s : sshell) : Prop :=
  (* at least one primitive *)
  exps s <> [] /\
  (* exactly one angular momentum (uncontract_spdf(basis, 0) leaves no fused shell), and it has a letter in
     lut._amchar_map_hik (25 letters; writer and reader both use hij=False) *)
  (exists l, am s = [l] /\ (0 <= l < 25)%Z) /\
  (* exactly one contraction (uncontract_general), with one coefficient per primitive *)
  (exists c, coefs s = [c] /\ List.length c = List.length (exps s)) /\
  (* every number is a string matching helpers.floating_re (this implies: non-empty, no white space, a decimal point,
     bytes < 128 only - lemmas floating_is_cell, floating_ascii of Proofs/MatrixSpec.v) *)
  Forall floating (exps s) /\ Forall (Forall floating) (coefs s).

(* basis['name'] is printed after the element symbol, on the same line, and skipped by the reader (group 2 of element_re).
   It has to stay on that line, and the line has to keep a second word after strip():
   - ASCII bytes only (the model works on bytes; Python's strip / \s / splitlines also know non-ASCII white space and
     line boundaries, e.g. U+00A0, U+0085, U+2028), none of them one of the line boundaries of str.splitlines
     (\n \v \f \r \x1c \x1d \x1e);
   - not blank: at least one character that is not white space (this excludes the empty name). *)
Definition tm_name_char (c : ascii) : bool :=
  let n := nat_of_ascii c in
  andb (Nat.ltb n 128)
       (negb (orb (andb (Nat.leb 10 n) (Nat.leb n 13)) (andb (Nat.leb 28 n) (Nat.leb n 30)))).
Definition tm_name_ok (bsname : string) : Prop :=
  sall tm_name_char bsname = true /\ sall is_space bsname = false.

(* role: NO condition.  'jfit' / 'jkfit' / 'rifit' select $jbas / $jkbas / $cbas, every other string gives $basis, and
   section_re of the reader knows all four keywords. *)
Definition tm_ok (role bsname : string) (els : list (Z * list sshell)) : Prop :=
  tm_name_ok bsname /\
  (* at least one element (the reader refuses a $basis section without elements) *)
  els <> [] /\
  (* dictionary keys: pairwise distinct atomic numbers, all of them in lut's element table (1..120) *)
  NoDup (map fst els) /\
  Forall (fun zs => (1 <= fst zs <= 120)%Z /\
                    (* at least one shell (the reader refuses an element block without shells) *)
                    snd zs <> [] /\
                    Forall tm_shell_ok (snd zs)) els.

(* ---------- what comes back ---------- *)
(* the function type the reader assigns: lut.function_type_from_am(am, 'gto', 'spherical') - always spherical, whatever
   the function type of the written shell was *)
Definition tm_ftype (a : list Z) : string :=
  match function_type_from_am a "gto" "spherical" with inr f => f | inl _ => "" end.

(* same normalisation as in matrix_roundtrip_stmt with conv = true: the writer turns e/E into D, the reader D into E;
   every digit, sign and point is kept (norm_keeps_digits of Proofs/MatrixSpec.v) *)
Definition tm_expected_shell (s : sshell) : sshell :=
  mkShell (tm_ftype (am s)) "" (am s) (map (norm true) (exps s)) (map (map (norm true)) (coefs s)).

Definition tm_expected (els : list (Z * list sshell)) : list (Z * list sshell) :=
  map (fun zs => (fst zs, map tm_expected_shell (snd zs))) els.

(* ---------- statements ---------- *)
(* the writer does not fail on well-formed input *)
Definition tm_write_total_stmt : Prop :=
  forall role bsname els, tm_ok role bsname els -> exists t, tm_write_electron role bsname els = inr t.

(* reading back what was written gives exactly the same elements, in order, with the same shells, in order *)
Definition tm_roundtrip_stmt : Prop :=
  forall role bsname els, tm_ok role bsname els -> tm_roundtrip role bsname els = inr (tm_expected els).

(* C04 direction: every exponent and every coefficient of the input is a white-space delimited token of some line of
   the written text - with the exponent marker as the writer prints it (convert_exp=True: e/E -> D, nothing else) *)
Definition tm_number_of (els : list (Z * list sshell)) (x : string) : Prop :=
  exists zs s, In zs els /\ In s (snd zs) /\ (In x (exps s) \/ exists c, In c (coefs s) /\ In x c).
Definition tm_no_number_lost_stmt : Prop :=
  forall role bsname els t, tm_ok role bsname els -> tm_write_electron role bsname els = inr t ->
    forall x, tm_number_of els x -> exists line, In line (splitlines t) /\ In (d_convert x) (tokens_acc line "").
(* (the literal string is in general NOT there: 0.8e+00 is printed as 0.8D+00) *)
Definition tm_literal_number_counterexample_stmt : Prop :=
  exists t, tm_write_electron "orbital" "n" [(1%Z, [mkShell "gto" "" [0%Z] ["0.8e+00"] [["1.0"]]])] = inr t /\
            forallb (fun line => negb (existsb (String.eqb "0.8e+00") (tokens_acc line ""))) (splitlines t) = true.

(* ---------- the conditions of tm_ok cannot be dropped ---------- *)
Definition tm_h : sshell := mkShell "gto" "" [0%Z] ["1.0"] [["1.0"]].
(* els <> [] : '$basis * $end' is written, the reader cannot partition it *)
Definition tm_roundtrip_empty_stmt : Prop := tm_roundtrip "orbital" "n" [] = inl ERuntime.
(* snd zs <> [] : an element without shells makes the whole file unreadable (NWChem: it silently disappears) *)
Definition tm_roundtrip_noshell_stmt : Prop := tm_roundtrip "orbital" "n" [(1%Z, [tm_h]); (2%Z, [])] = inl ERuntime.
(* the name: empty, blank, containing a line boundary *)
Definition tm_roundtrip_noname_stmt : Prop := tm_roundtrip "orbital" "" [(1%Z, [tm_h])] = inl ERuntime.
Definition tm_roundtrip_blankname_stmt : Prop := tm_roundtrip "orbital" "  " [(1%Z, [tm_h])] = inl ERuntime.
Definition tm_roundtrip_nlname_stmt : Prop :=
  tm_roundtrip "orbital" ("a" +++ nl1 +++ "b") [(1%Z, [tm_h])] = inl ERuntime.
(* a name with blanks inside is fine *)
Definition tm_roundtrip_name_blanks_stmt : Prop :=
  tm_roundtrip "orbital" " def2 SVP (x) " [(1%Z, [tm_h])] = inr [(1%Z, [tm_h])].
(* a fused shell (not possible after uncontract_spdf(basis, 0)) is printed as '1   sp', which shell_re does not match *)
Definition tm_roundtrip_fused_stmt : Prop :=
  tm_roundtrip "orbital" "n" [(1%Z, [mkShell "gto" "" [0%Z; 1%Z] ["1.0"] [["1.0"]; ["1.0"]]])] = inl ERuntime.
(* two general contractions (not possible after uncontract_general) are printed as three columns, which exp_coef_re
   does not match *)
Definition tm_roundtrip_general_stmt : Prop :=
  tm_roundtrip "orbital" "n" [(1%Z, [mkShell "gto" "" [0%Z] ["1.0"] [["1.0"]; ["1.0"]]])] = inl EValue.
(* the same atomic number twice (not possible in a Python dict): create_element_data refuses the second block *)
Definition tm_roundtrip_dup_stmt : Prop := tm_roundtrip "orbital" "n" [(1%Z, [tm_h]); (1%Z, [tm_h])] = inl ERuntime.
(* angular momentum 25 has no letter, atomic number 121 no symbol: the writer fails *)
Definition tm_write_am25_stmt : Prop :=
  tm_write_electron "orbital" "n" [(1%Z, [mkShell "gto" "" [25%Z] ["1.0"] [["1.0"]]])] = inl EIndex.
Definition tm_write_z121_stmt : Prop := tm_write_electron "orbital" "n" [(121%Z, [tm_h])] = inl EKey.
(* a number without a decimal point: the writer's matrix printer fails *)
Definition tm_write_nopoint_stmt : Prop :=
  tm_write_electron "orbital" "n" [(1%Z, [mkShell "gto" "" [0%Z] ["1"] [["1.0"]]])] = inl EValue.
(* every role is fine; the four section keywords *)
Definition tm_roles_stmt : Prop :=
  map tm_section_keyword ["orbital"; "jfit"; "jkfit"; "rifit"; "admmfit"; ""] =
    ["$basis"; "$jbas"; "$jkbas"; "$cbas"; "$basis"; "$basis"] /\
  forall role, tm_roundtrip role "n" [(1%Z, [tm_h])] = inr [(1%Z, [tm_h])].
(* what is lost: a Cartesian d shell comes back as gto_spherical, the region is dropped *)
Definition tm_roundtrip_cartesian_stmt : Prop :=
  tm_roundtrip "orbital" "n" [(1%Z, [mkShell "gto_cartesian" "valence" [2%Z] ["1.0"] [["1.0"]]])] =
    inr [(1%Z, [mkShell "gto_spherical" "" [2%Z] ["1.0"] [["1.0"]]])].

(* ---------- a concrete instance: 6-31G for H and C as write_turbomole sees it after its normalisation calls (sp shells
   split), plus a d shell with an e marker and an element of the end of the table with a k shell (am 7, the first momentum
   where the hik / hij conventions differ) ---------- *)
Definition tx_H1 : sshell :=
  mkShell "gto" "valence" [0%Z] ["0.1873113696E+02"; "0.2825394365E+01"; "0.6401216923E+00"]
          [["0.3349460434E-01"; "0.2347269535E+00"; "0.8137573261E+00"]].
Definition tx_H2 : sshell := mkShell "gto" "valence" [0%Z] ["0.1612777588E+00"] [["1.0000000"]].
Definition tx_C1 : sshell :=
  mkShell "gto" "valence" [0%Z]
          ["0.3047524880E+04"; "0.4573695180E+03"; "0.1039486850E+03"; "0.2921015530E+02"; "0.9286662960E+01"; "0.3163926960E+01"]
          [["0.1834737132E-02"; "0.1403732281E-01"; "0.6884262226E-01"; "0.2321844432E+00"; "0.4679413484E+00"; "0.3623119853E+00"]].
Definition tx_C2 : sshell :=
  mkShell "gto" "valence" [0%Z] ["0.7868272350E+01"; "0.1881288540E+01"; "0.5442492580E+00"]
          [["-0.1193324198E+00"; "-0.1608541517E+00"; "0.1143456438E+01"]].
Definition tx_C3 : sshell := mkShell "gto" "valence" [0%Z] ["0.1687144782E+00"] [["0.1000000000E+01"]].
Definition tx_C4 : sshell :=
  mkShell "gto" "valence" [1%Z] ["0.7868272350E+01"; "0.1881288540E+01"; "0.5442492580E+00"]
          [["0.6899906659E-01"; "0.3164239610E+00"; "0.7443082909E+00"]].
Definition tx_C5 : sshell := mkShell "gto" "valence" [1%Z] ["0.1687144782E+00"] [["0.1000000000E+01"]].
Definition tx_C6 : sshell := mkShell "gto_cartesian" "polarization" [2%Z] ["0.8000000e+00"] [["1.0000000"]].
Definition tx_X1 : sshell := mkShell "gto_spherical" "" [7%Z] ["12345678901.5"; ".5"] [["-1.0e-3"; "+2."]].
Definition tx_els : list (Z * list sshell) :=
  [(1%Z, [tx_H1; tx_H2]); (6%Z, [tx_C1; tx_C2; tx_C3; tx_C4; tx_C5; tx_C6]); (120%Z, [tx_X1])].

Definition tx_text : string :=
  String.concat nl1
   ["$jkbas";
    "*";
    "h def2 universal-JKFIT";
    "*";
    "    3   s";
    "      0.1873113696D+02       0.3349460434D-01";
    "      0.2825394365D+01       0.2347269535D+00";
    "      0.6401216923D+00       0.8137573261D+00";
    "    1   s";
    "      0.1612777588D+00       1.0000000";
    "*";
    "c def2 universal-JKFIT";
    "*";
    "    6   s";
    "      0.3047524880D+04       0.1834737132D-02";
    "      0.4573695180D+03       0.1403732281D-01";
    "      0.1039486850D+03       0.6884262226D-01";
    "      0.2921015530D+02       0.2321844432D+00";
    "      0.9286662960D+01       0.4679413484D+00";
    "      0.3163926960D+01       0.3623119853D+00";
    "    3   s";
    "      0.7868272350D+01      -0.1193324198D+00";
    "      0.1881288540D+01      -0.1608541517D+00";
    "      0.5442492580D+00       0.1143456438D+01";
    "    1   s";
    "      0.1687144782D+00       0.1000000000D+01";
    "    3   p";
    "      0.7868272350D+01       0.6899906659D-01";
    "      0.1881288540D+01       0.3164239610D+00";
    "      0.5442492580D+00       0.7443082909D+00";
    "    1   p";
    "      0.1687144782D+00       0.1000000000D+01";
    "    1   d";
    "      0.8000000D+00          1.0000000";
    "*";
    "ubn def2 universal-JKFIT";
    "*";
    "    2   k";
    "12345678901.5               -1.0D-3";
    "       .5                   +2.";
    "*";
    "$end";
    ""].

Definition tm_example_stmt : Prop :=
  tm_ok "jkfit" "def2 universal-JKFIT" tx_els /\
  tm_write_electron "jkfit" "def2 universal-JKFIT" tx_els = inr tx_text /\
  tm_roundtrip "jkfit" "def2 universal-JKFIT" tx_els = inr (tm_expected tx_els) /\
  (* the visible changes: the exponent marker, the function type and the region *)
  tm_expected_shell tx_C6 = mkShell "gto_spherical" "" [2%Z] ["0.8000000E+00"] [["1.0000000"]] /\
  tm_expected_shell tx_X1 = mkShell "gto_spherical" "" [7%Z] ["12345678901.5"; ".5"] [["-1.0E-3"; "+2."]].
