(* C14: proofs of the statements of Proofs/HeaderDefs.v (header can never change or corrupt the payload). *)
From BSE Require Import Model.Val Model.Text Model.Memo Model.Header Gen.GenWriters Gen.GenReaders Proofs.HeaderDefs.

(* ------------------------------------------------------------------ *)
(* string append / reversal                                           *)
(* ------------------------------------------------------------------ *)
Lemma sapp_nil_r : forall s, s +++ "" = s.
Proof. induction s as [|a s IH]; cbn [String.append]; [reflexivity | now rewrite IH]. Qed.

Lemma sapp_assoc : forall a b c, (a +++ b) +++ c = a +++ b +++ c.
Proof. induction a as [|x a IH]; intros b c; cbn [String.append]; [reflexivity | now rewrite IH]. Qed.

Lemma srev_acc_app : forall s acc, srev_acc s acc = srev_acc s "" +++ acc.
Proof.
  induction s as [|a s IH]; intros acc; cbn [srev_acc String.append]; [reflexivity|].
  rewrite (IH (String a acc)), (IH (String a "")), sapp_assoc. reflexivity.
Qed.

Lemma srev_cons : forall a s, srev (String a s) = srev s +++ String a "".
Proof. intros a s. unfold srev. cbn [srev_acc]. apply srev_acc_app. Qed.

Lemma srev_nil : srev "" = "".
Proof. reflexivity. Qed.

Lemma srev_app : forall x y, srev (x +++ y) = srev y +++ srev x.
Proof.
  induction x as [|a x IH]; intros y; cbn [String.append].
  - rewrite srev_nil, sapp_nil_r. reflexivity.
  - rewrite !srev_cons, IH, sapp_assoc. reflexivity.
Qed.

Lemma srev_involutive : forall x, srev (srev x) = x.
Proof.
  induction x as [|a x IH]; [reflexivity|].
  rewrite srev_cons, srev_app, IH. reflexivity.
Qed.

Lemma srev_snoc : forall x a, srev (x +++ String a "") = String a (srev x).
Proof. intros x a. rewrite srev_app. reflexivity. Qed.

Lemma srev_acc_srev : forall c cur, srev_acc c cur = srev c +++ cur.
Proof. intros c cur. unfold srev. apply srev_acc_app. Qed.

(* ------------------------------------------------------------------ *)
(* 1. splitting loses nothing                                          *)
(* ------------------------------------------------------------------ *)
Lemma concat_cons : forall x l, String.concat "" (x :: l) = x +++ String.concat "" l.
Proof.
  intros x [|y l]; cbn [String.concat String.append].
  - now rewrite sapp_nil_r.
  - reflexivity.
Qed.

Lemma spl_concat_gen : forall s cur k body,
  String.concat "" (spl true s cur k body) = srev cur +++ s.
Proof.
  induction s as [|a t IH]; intros cur k body.
  - cbn [spl]. destruct cur as [|x cur]; [reflexivity|].
    cbn [String.concat]. now rewrite sapp_nil_r.
  - cbn [spl]. destruct k as [|[|k'']].
    + destruct (boundary_len (String a t)) as [|[|m]].
      * rewrite IH, srev_cons, sapp_assoc. reflexivity.
      * rewrite concat_cons, IH, srev_cons, sapp_assoc. reflexivity.
      * rewrite IH, srev_cons, sapp_assoc. reflexivity.
    + rewrite concat_cons, IH, srev_cons, sapp_assoc. reflexivity.
    + rewrite IH, srev_cons, sapp_assoc. reflexivity.
Qed.

Lemma splitlines_concat : splitlines_concat_stmt.
Proof. intros s. unfold splitlines_keepends. now rewrite spl_concat_gen. Qed.

Lemma spl_nil_inv : forall s, spl true s "" 0 "" = [] -> s = "".
Proof.
  intros s E. pose proof (spl_concat_gen s "" 0 "") as C. rewrite E in C. cbn in C. now symmetry.
Qed.

(* in keepends mode the [body] register is never read *)
Lemma spl_body : forall s cur k b b', spl true s cur k b = spl true s cur k b'.
Proof.
  induction s as [|a t IH]; intros cur k b b'; [reflexivity|].
  cbn [spl]. destruct k as [|[|k'']].
  - destruct (boundary_len (String a t)) as [|[|m]]; [apply IH | reflexivity | apply IH].
  - reflexivity.
  - apply IH.
Qed.

(* ------------------------------------------------------------------ *)
(* 2. the commented header                                             *)
(* ------------------------------------------------------------------ *)
Definition printable (ch : ascii) : bool :=
  andb (Nat.leb 33 (nat_of_ascii ch)) (Nat.leb (nat_of_ascii ch) 126).

Lemma printable_range : forall ch, printable ch = true -> 33 <= nat_of_ascii ch <= 126.
Proof.
  intros ch H. unfold printable in H. apply andb_true_iff in H. destruct H as [H1 H2].
  apply Nat.leb_le in H1. apply Nat.leb_le in H2. lia.
Qed.

Lemma beq_false : forall ch n, nat_of_ascii ch <> n -> beq ch n = false.
Proof. intros ch n H. unfold beq. now apply Nat.eqb_neq. Qed.

Lemma beq_true : forall ch n, beq ch n = true -> nat_of_ascii ch = n.
Proof. intros ch n H. unfold beq in H. now apply Nat.eqb_eq. Qed.

Lemma printable_no_boundary : forall ch t, printable ch = true -> boundary_len (String ch t) = 0.
Proof.
  intros ch t H. apply printable_range in H. unfold boundary_len.
  rewrite !(beq_false ch) by lia. reflexivity.
Qed.

(* a marker made of printable bytes is simply accumulated into the current line *)
Lemma spl_marker : forall c X cur b b', sall printable c = true ->
  spl true (c +++ X) cur 0 b = spl true X (srev c +++ cur) 0 b'.
Proof.
  induction c as [|ch c IH]; intros X cur b b' H.
  - cbn [String.append]. apply spl_body.
  - cbn [sall] in H. apply andb_true_iff in H. destruct H as [Hc Hr].
    cbn [String.append spl]. rewrite (printable_no_boundary _ _ Hc).
    rewrite (IH X (String ch cur) "" b' Hr), srev_cons, sapp_assoc. reflexivity.
Qed.

(* the commented text, produced by the same state machine run over the remaining header [s] *)
Definition mark (c t r : string) : string := match t with EmptyString => "" | _ => c +++ r end.
Fixpoint ins (c s : string) (k : nat) : string :=
  match s with
  | EmptyString => ""
  | String a t =>
    match k with
    | S k' => match k' with O => String a (mark c t (ins c t 0)) | _ => String a (ins c t k') end
    | O => match boundary_len s with
           | O => String a (ins c t 0)
           | 1 => String a (mark c t (ins c t 0))
           | S (S m) => String a (ins c t (S m))
           end
    end
  end.

Lemma sjoin_cons_ne : forall c x l, l <> [] -> sjoin c (x :: l) = x +++ c +++ sjoin c l.
Proof. intros c x [|y l] H; [congruence | reflexivity]. Qed.

Lemma sjoin_emit : forall c x t,
  sjoin c (spl true t "" 0 "") = ins c t 0 ->
  sjoin c (x :: spl true t "" 0 "") = x +++ mark c t (ins c t 0).
Proof.
  intros c x t IH. destruct t as [|d t'].
  - cbn [spl sjoin mark]. now rewrite sapp_nil_r.
  - rewrite sjoin_cons_ne.
    + rewrite IH. reflexivity.
    + intros E. apply spl_nil_inv in E. discriminate.
Qed.

Lemma sjoin_spl : forall c s cur k body,
  sjoin c (spl true s cur k body) = srev cur +++ ins c s k.
Proof.
  intros c. induction s as [|a t IH]; intros cur k body.
  - cbn [spl ins]. destruct cur as [|x cur]; [reflexivity|].
    cbn [sjoin]. now rewrite sapp_nil_r.
  - cbn [spl ins]. destruct k as [|[|k'']].
    + destruct (boundary_len (String a t)) as [|[|m]].
      * rewrite IH, srev_cons, sapp_assoc. reflexivity.
      * rewrite sjoin_emit by (rewrite IH; reflexivity).
        rewrite srev_cons, sapp_assoc. reflexivity.
      * rewrite IH, srev_cons, sapp_assoc. reflexivity.
    + rewrite sjoin_emit by (rewrite IH; reflexivity).
      rewrite srev_cons, sapp_assoc. reflexivity.
    + rewrite IH, srev_cons, sapp_assoc. reflexivity.
Qed.

Lemma ins_head : forall c d t k, exists r, ins c (String d t) k = String d r.
Proof.
  intros c d t k. cbn [ins]. destruct k as [|[|k'']].
  - destruct (boundary_len (String d t)) as [|[|m]]; eexists; reflexivity.
  - eexists; reflexivity.
  - eexists; reflexivity.
Qed.

Definition marker_b (c : string) : Prop := c <> "" /\ sall printable c = true.

Lemma marker_head : forall c, marker_b c -> exists ch rest, c = String ch rest /\ printable ch = true.
Proof.
  intros [|ch rest] [Hne Hp]; [congruence|].
  cbn [sall] in Hp. apply andb_true_iff in Hp. destruct Hp as [Hc _]. eauto.
Qed.

(* the line boundary seen at a position of the header is the one seen at the same position of the commented header *)
Lemma boundary_ins : forall c a t, marker_b c ->
  match boundary_len (String a t) with
  | O => boundary_len (String a (ins c t 0)) = 0
  | 1 => boundary_len (String a (mark c t (ins c t 0))) = 1
  | S (S m) => boundary_len (String a (ins c t (S m))) = S (S m)
  end.
Proof.
  intros c a t Hm.
  destruct (marker_head c Hm) as (ch & rest & Ec & Hch).
  apply printable_range in Hch.
  unfold boundary_len at 1.
  destruct (beq a 13) eqn:E13.
  { (* \r *)
    destruct t as [|d t'].
    - cbn [mark boundary_len]. now rewrite E13.
    - destruct (beq d 10) eqn:Ed.
      + destruct (ins_head c d t' 1) as [r Er]. rewrite Er.
        cbn [boundary_len]. now rewrite E13, Ed.
      + cbn [mark]. rewrite Ec. cbn [String.append boundary_len].
        rewrite E13. rewrite (beq_false ch 10) by lia. reflexivity. }
  destruct (beq a 10 || (beq a 11 || (beq a 12 || (beq a 28 || (beq a 29 || beq a 30))))) eqn:E1.
  { cbn [boundary_len]. now rewrite E13, E1. }
  destruct (beq a 194) eqn:E194.
  { destruct t as [|d t'].
    - cbn [ins boundary_len]. now rewrite E13, E1, E194.
    - destruct (beq d 133) eqn:Ed.
      + destruct (ins_head c d t' 1) as [r Er]. rewrite Er.
        cbn [boundary_len]. now rewrite E13, E1, E194, Ed.
      + destruct (ins_head c d t' 0) as [r Er]. rewrite Er.
        cbn [boundary_len]. now rewrite E13, E1, E194, Ed. }
  destruct (beq a 226) eqn:E226.
  { destruct t as [|d [|e t'']].
    - cbn [ins boundary_len]. now rewrite E13, E1, E194, E226.
    - assert (Er' : ins c (String d "") 0 = String d "").
      { cbn [ins mark]. destruct (boundary_len (String d "")) as [|[|m]]; reflexivity. }
      rewrite Er'. cbn [boundary_len]. now rewrite E13, E1, E194, E226.
    - destruct (beq d 128 && (beq e 168 || beq e 169)) eqn:Ede.
      + cbn [ins]. cbn [boundary_len]. now rewrite E13, E1, E194, E226, Ede.
      + destruct (beq d 128) eqn:Ed.
        * (* d = 128 is not the start of a boundary, so the next byte is e *)
          assert (B0 : boundary_len (String d (String e t'')) = 0).
          { apply beq_true in Ed. unfold boundary_len. rewrite !(beq_false d) by lia. reflexivity. }
          cbn [ins]. rewrite B0. fold ins.
          destruct (ins_head c e t'' 0) as [r Er]. cbn [ins] in Er. rewrite Er.
          cbn [boundary_len]. rewrite E13, E1, E194, E226, Ed. cbn [andb] in Ede |- *. now rewrite Ede.
        * destruct (ins_head c d (String e t'') 0) as [r Er]. rewrite Er.
          destruct r as [|e' r']; cbn [boundary_len]; rewrite E13, E1, E194, E226; [reflexivity|].
          now rewrite Ed. }
  cbn [boundary_len]. now rewrite E13, E1, E194, E226.
Qed.

Lemma srev_marker_cur : forall c cur, srev (cur +++ srev c) = c +++ srev cur.
Proof. intros c cur. now rewrite srev_app, srev_involutive. Qed.

Lemma spl_mark : forall c t,
  marker_b c ->
  (t <> "" -> spl true (ins c t 0) ("" +++ srev c) 0 "" = map (fun l => c +++ l) (spl true t "" 0 "")) ->
  spl true (mark c t (ins c t 0)) "" 0 "" = map (fun l => c +++ l) (spl true t "" 0 "").
Proof.
  intros c t [_ Hp] IH. destruct t as [|d t'].
  - reflexivity.
  - unfold mark. rewrite (spl_marker c _ "" "" "" Hp), sapp_nil_r.
    apply IH. discriminate.
Qed.

Lemma spl_ins : forall c, marker_b c -> forall s cur k body body',
  (s <> "" \/ cur <> "") ->
  spl true (ins c s k) (cur +++ srev c) k body' = map (fun l => c +++ l) (spl true s cur k body).
Proof.
  intros c Hm. induction s as [|a t IH]; intros cur k body body' Hne.
  - destruct cur as [|x cur]; [destruct Hne; congruence|].
    cbn [ins spl String.append map]. rewrite <- (srev_marker_cur c (String x cur)). reflexivity.
  - assert (Hcons : forall k1 b1 b2,
      spl true (ins c t k1) (String a cur +++ srev c) k1 b1 =
      map (fun l => c +++ l) (spl true t (String a cur) k1 b2)).
    { intros k1 b1 b2. apply IH. right. discriminate. }
    assert (Hemit :
      srev (String a (cur +++ srev c)) :: spl true (mark c t (ins c t 0)) "" 0 "" =
      map (fun l => c +++ l) (srev (String a cur) :: spl true t "" 0 "")).
    { cbn [map]. f_equal.
      - change (String a (cur +++ srev c)) with (String a cur +++ srev c). apply srev_marker_cur.
      - apply spl_mark; [exact Hm|]. intros Ht. apply IH. now left. }
    cbn [ins]. destruct k as [|[|k'']].
    + pose proof (boundary_ins c a t Hm) as B.
      destruct (boundary_len (String a t)) as [|[|m]] eqn:EB.
      * cbn [spl]. rewrite B, EB. apply Hcons.
      * cbn [spl]. rewrite B, EB. exact Hemit.
      * cbn [spl]. rewrite B, EB. apply Hcons.
    + cbn [spl]. exact Hemit.
    + cbn [spl]. apply Hcons.
Qed.

Lemma marker_ok_b : forall c, marker_ok c -> marker_b c.
Proof. intros c [H1 H2]. split; [exact H1 | exact H2]. Qed.

Lemma header_empty : header_empty_stmt.
Proof. intros c. unfold header_comment. cbn. apply sapp_nil_r. Qed.

Lemma header_lines_commented : header_lines_commented_stmt.
Proof.
  intros c h Hc Hh. apply marker_ok_b in Hc.
  unfold header_comment, splitlines_keepends.
  rewrite sjoin_spl. cbn [srev srev_acc String.append].
  rewrite (spl_marker c _ "" "" "" (proj2 Hc)), sapp_nil_r.
  change (srev c) with ("" +++ srev c).
  apply spl_ins; [exact Hc | now left].
Qed.

(* ------------------------------------------------------------------ *)
(* 3. shape of the assembled text                                      *)
(* ------------------------------------------------------------------ *)
Lemma assemble_shape : assemble_shape_stmt.
Proof.
  intros fmt w fts body pre. subst pre. unfold assemble.
  split; [|split].
  - destruct (w_comment w); destruct (fmt =? "psi4")%string; cbn [String.append];
      now rewrite ?sapp_assoc.
  - intros Hn h. rewrite Hn. destruct (fmt =? "psi4")%string; cbn [String.append];
      now rewrite ?sapp_assoc.
  - intros c h Hc. rewrite Hc.
    destruct (fmt =? "psi4")%string; destruct (fmt =? "gaussian94lib")%string;
      cbn [String.append]; now rewrite ?sapp_assoc.
Qed.

(* ------------------------------------------------------------------ *)
(* 4. reading back                                                     *)
(* ------------------------------------------------------------------ *)
Lemma is_empty_false : forall s, s <> "" -> is_empty s = false.
Proof. intros [|a s] H; [congruence | reflexivity]. Qed.

Lemma prune_lines_header : prune_lines_header_stmt.
Proof.
  intros sk H L Hsk HF. unfold prune_lines.
  rewrite (is_empty_false sk Hsk). cbn [andb negb].
  rewrite map_app, !filter_app.
  match goal with |- ?A ++ _ = _ => assert (E : A = []) end.
  { induction HF as [|l H' Hl HF IH]; [reflexivity|].
    cbn [map filter]. destruct Hl as [Hl | Hl].
    - rewrite Hl. cbn [is_empty orb filter negb]. exact IH.
    - rewrite Hl. cbn [negb]. rewrite orb_false_r.
      destruct (is_empty (strip_ws l)) eqn:Ee.
      + cbn [filter]. rewrite Ee. cbn [negb]. exact IH.
      + exact IH. }
  rewrite E. reflexivity.
Qed.

Lemma printable_not_space : forall ch, printable ch = true -> is_space ch = false.
Proof.
  intros ch H. apply printable_range in H. unfold is_space.
  apply orb_false_iff; split; [|apply orb_false_iff; split].
  - apply andb_false_iff. right. apply Nat.leb_gt. lia.
  - apply andb_false_iff. right. apply Nat.leb_gt. lia.
  - apply Nat.eqb_neq. lia.
Qed.

Lemma lstrip_snoc : forall ch Y, is_space ch = false ->
  exists Z, lstrip_ws (Y +++ String ch "") = Z +++ String ch "".
Proof.
  intros ch Y Hs. induction Y as [|a Y IH].
  - exists "". cbn [String.append lstrip_ws]. now rewrite Hs.
  - cbn [String.append lstrip_ws]. destruct (is_space a).
    + exact IH.
    + exists (String a Y). reflexivity.
Qed.

Lemma strip_ws_head : forall ch X, is_space ch = false ->
  exists Z, strip_ws (String ch X) = String ch Z.
Proof.
  intros ch X Hs. unfold strip_ws. cbn [lstrip_ws]. rewrite Hs, srev_cons.
  destruct (lstrip_snoc ch (srev X) Hs) as [Z EZ]. rewrite EZ, srev_snoc. eauto.
Qed.

Lemma commented_line_skipped : commented_line_skipped_stmt.
Proof.
  intros c l sk ch rest Hc Ec Hsk. right.
  apply marker_ok_b in Hc. destruct Hc as [_ Hp]. subst c.
  cbn [sall] in Hp. apply andb_true_iff in Hp. destruct Hp as [Hch _].
  cbn [String.append].
  destruct (strip_ws_head ch (rest +++ l) (printable_not_space ch Hch)) as [Z EZ].
  rewrite EZ. cbn [first_in]. exact Hsk.
Qed.

(* ------------------------------------------------------------------ *)
(* 5. finite statements over the translated tables                     *)
(* ------------------------------------------------------------------ *)
Lemma all_markers_ok : all_markers_ok_stmt.
Proof. vm_compute; reflexivity. Qed.

Lemma header_safe_formats : header_safe_formats_stmt.
Proof. vm_compute; reflexivity. Qed.

Lemma no_marker_formats : no_marker_formats_stmt.
Proof. vm_compute; reflexivity. Qed.

Print Assumptions splitlines_concat.
Print Assumptions header_empty.
Print Assumptions header_lines_commented.
Print Assumptions assemble_shape.
Print Assumptions prune_lines_header.
Print Assumptions commented_line_skipped.
Print Assumptions all_markers_ok.
Print Assumptions header_safe_formats.
Print Assumptions no_marker_formats.
