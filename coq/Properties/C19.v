(* C19 - comparison and difference tools agree with exact equality of the data.  Statements: Proofs/CompareDefs.v. *)
From Coq Require Import Sorting.Permutation.
From BSE Require Import Model.Val Model.Num Model.Basis Model.Compare Proofs.CompareDefs Proofs.CompareSpec.

(* zero tolerance: equal exactly when the entries are pairwise equal by SIGNED exact value *)
Theorem compare_vector_zero_tol : compare_vector_zero_tol_stmt.
Proof. exact CompareSpec.compare_vector_zero_tol. Qed.
Print Assumptions compare_vector_zero_tol.

Theorem compare_vector_total : compare_vector_total_stmt.
Proof. exact CompareSpec.compare_vector_total. Qed.
Print Assumptions compare_vector_total.

Theorem sign_flip_differs : sign_flip_differs_stmt.
Proof. exact CompareSpec.sign_flip_differs. Qed.
Print Assumptions sign_flip_differs.

(* with a tolerance: equal exactly when every pair is within the relative tolerance (or identical) *)
Theorem compare_vector_tol : compare_vector_tol_stmt.
Proof. exact CompareSpec.compare_vector_tol. Qed.
Print Assumptions compare_vector_tol.

(* shells: same momenta and the same sorted row table by signed value.  _partial: the contraction order handed to the model
   (the float-keyed order sort_shell computes) must consist of valid contraction indices; without that the statement is false
   of the model (CompareSpec.compare_shells_zero_tol_false) *)
Theorem compare_shells_zero_tol_partial :
  forall s1 s2, shell_ok s1 -> shell_ok s2 -> cidx_ok s1 -> cidx_ok s2 ->
    (compare_electron_shells 0 1 false s1 s2 = inr true <->
     am (fst s1) = am (fst s2) /\ rows_equal (shell_rows (sorted_of s1)) (shell_rows (sorted_of s2))).
Proof. exact CompareSpec.compare_shells_zero_tol_partial. Qed.
Print Assumptions compare_shells_zero_tol_partial.

Theorem is_subset_spec : is_subset_spec_stmt.
Proof. exact CompareSpec.is_subset_spec. Qed.
Print Assumptions is_subset_spec.

(* equal length + mutual subset = a bijection up to the equivalence, on lists without equivalent duplicates (order of shells
   does not matter, nothing may be dropped or doubled) *)
Theorem shells_equal_perm : shells_equal_perm_stmt.
Proof. exact CompareSpec.shells_equal_perm. Qed.
Print Assumptions shells_equal_perm.

(* diff: precisely the left shells that no right shell equals, in order *)
Theorem subtract_spec : subtract_spec_stmt.
Proof. exact CompareSpec.subtract_spec. Qed.
Print Assumptions subtract_spec.

Theorem subtract_sublist : subtract_sublist_stmt.
Proof. exact CompareSpec.subtract_sublist. Qed.
Print Assumptions subtract_sublist.

Example sign_demo : compare_vector 0 1 ["1.0"; "-0.5"] ["1.00"; "-5.0E-01"] = inr true /\
                    compare_vector 0 1 ["1.0"; "-0.5"] ["1.0"; "0.5"] = inr false.
Proof. vm_compute. split; reflexivity. Qed.
