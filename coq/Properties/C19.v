(* C19 - comparison and difference tools (theorems added as they are proved) *)
From BSE Require Import Model.Val Model.Compare.
