(* C06 - caching is invisible: results do not depend on call history, aliasing or threads.
   Statements are in Proofs/MemoDefs.v; `memoised` is Gen/GenMemo.v = every @BSEMemoize signature in the source now. *)
From BSE Require Import Model.Val Gen.GenMemo Model.Memo Proofs.MemoDefs Proofs.MemoSpec.

Theorem make_key_sound : make_key_sound_stmt.
Proof. exact MemoSpec.make_key_sound. Qed.
Print Assumptions make_key_sound.

Theorem make_key_complete : make_key_complete_stmt.
Proof. exact MemoSpec.make_key_complete. Qed.
Print Assumptions make_key_complete.

Theorem make_key_error_is_the_functions_TypeError : make_key_error_stmt.
Proof. exact MemoSpec.make_key_error. Qed.
Print Assumptions make_key_error_is_the_functions_TypeError.

Theorem make_key_share : make_key_share_stmt.
Proof. exact MemoSpec.make_key_share. Qed.
Print Assumptions make_key_share.

Theorem make_key_separate : make_key_separate_stmt.
Proof. exact MemoSpec.make_key_separate. Qed.
Print Assumptions make_key_separate.

Theorem memo_transparent : forall F sig_of, memo_transparent_stmt F sig_of.
Proof. exact MemoSpec.memo_transparent. Qed.
Print Assumptions memo_transparent.

Theorem memo_transparent_concurrent : forall F sig_of, memo_transparent_concurrent_stmt F sig_of.
Proof. exact MemoSpec.memo_transparent_concurrent. Qed.
Print Assumptions memo_transparent_concurrent.

(* the signatures of all memoised functions, as translated from the source, meet the hypothesis sig_ok *)
Theorem memoised_signatures_ok : forall f, sig_ok (sig_table f).
Proof. exact MemoSpec.sig_table_ok. Qed.
Print Assumptions memoised_signatures_ok.

(* non-vacuity: three spellings of one valid call share a key; a doubly bound parameter gets none *)
Definition s2 : sig := {| s_args := ["family"; "data_dir"]; s_defaults := [VNone] |}.
Example key_demo :
  make_key s2 [VStr "x"] [] = inr (Some [VStr "x"; VNone]) /\
  make_key s2 [] [("family", VStr "x")] = inr (Some [VStr "x"; VNone]) /\
  make_key s2 [VStr "x"; VNone] [] = inr (Some [VStr "x"; VNone]) /\
  make_key s2 [VStr "x"] [("family", VStr "y")] = inr None.
Proof. vm_compute. repeat split; reflexivity. Qed.
