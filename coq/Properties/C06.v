(* C06 - caching is invisible (theorems added as they are proved) *)
From BSE Require Import Model.Val Model.Memo.
