(* C09 - references cover exactly the data that was returned (theorems added as they are proved) *)
From BSE Require Import Model.Val Model.Refs.
