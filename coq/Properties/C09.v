(* C09 - references cover exactly the data that was returned.  Statements: Proofs/RefsDefs.v. *)
From Coq Require Import Sorting.Permutation.
From BSE Require Import Model.Val Model.Basis Model.Refs Proofs.RefsDefs Proofs.RefsSpec.

(* every selected element in exactly one group, no empty group *)
Theorem groups_partition : groups_partition_stmt.
Proof. exact RefsSpec.groups_partition. Qed.
Print Assumptions groups_partition.

(* a group's information = the key-resolved reference list of each of its elements (hence identical within the group) *)
Theorem group_info : group_info_stmt.
Proof. exact RefsSpec.group_info. Qed.
Print Assumptions group_info.

(* descriptions kept, keys in order, each resolved to its entry of the reference database; an unknown key is an error *)
Theorem resolve_info_spec : resolve_info_spec_stmt.
Proof. exact RefsSpec.resolve_info_spec. Qed.
Print Assumptions resolve_info_spec.

Theorem unknown_key_refused : unknown_key_refused_stmt.
Proof. exact RefsSpec.unknown_key_refused. Qed.
Print Assumptions unknown_key_refused.

(* BibTeX / RIS / EndNote: the key and every stored field value (each author, editor, title, ...) are in the rendering *)
Theorem bib_fields : bib_fields_stmt.
Proof. exact RefsSpec.bib_fields. Qed.
Print Assumptions bib_fields.

Theorem ris_fields : ris_fields_stmt.
Proof. exact RefsSpec.ris_fields. Qed.
Print Assumptions ris_fields.

Theorem endnote_fields : endnote_fields_stmt.
Proof. exact RefsSpec.endnote_fields. Qed.
Print Assumptions endnote_fields.

Theorem sort_single_reference_keeps_fields : sort_single_reference_perm_stmt.
Proof. exact RefsSpec.sort_single_reference_perm. Qed.
Print Assumptions sort_single_reference_keeps_fields.

(* the assembled text carries the library block and mentions every cited key ... *)
Theorem convert_mentions : convert_mentions_stmt.
Proof. exact RefsSpec.convert_mentions. Qed.
Print Assumptions convert_mentions.

(* ... and contains the full rendering of an entry stored under every cited key *)
Theorem convert_renders_every_cited_key :
  forall f txt desc libs groups s, convert_references f txt desc libs groups = inr s ->
    forall g refs k r, In g groups -> group_refs g = inr refs -> In (k, r) refs ->
      exists g0 refs0 r0 r0' t, In g0 groups /\ group_refs g0 = inr refs0 /\ In (k, r0) refs0 /\
        sort_single_reference r0 = inr r0' /\ single f txt k r0' = inr t /\ infix t s = true.
Proof. exact RefsSpec.convert_mentions_strong. Qed.
Print Assumptions convert_renders_every_cited_key.

(* notes: as stored, followed by the text of exactly the references whose keys they mention *)
Theorem process_notes_spec : process_notes_spec_stmt.
Proof. exact RefsSpec.process_notes_spec. Qed.
Print Assumptions process_notes_spec.

Example bib_demo :
  write_bib "doe2020a" [("_entry_type", VStr "article"); ("authors", VStrs ["Doe, J."; "Roe, R."]); ("title", VStr "T"); ("year", VStr "2020")]
  = inr ("@article{doe2020a," +++ nl +++ "    author = {Doe, J. and Roe, R.}," +++ nl +++ "    title = {T}," +++ nl +++ "    year = {2020}" +++ nl +++ "}").
Proof. vm_compute. reflexivity. Qed.
