(* C10 - library functions never modify the caller's data.
   Gen/GenEffects.v is the copy-discipline summary extracted from the sources on every run (translator/gen_effects.py: a
   conservative taint pass, trusted); Gen/GenWriters.v the writers' normalisation pipelines.  The theorems are finite
   statements over these summaries; the behaviour itself (argument deeply equal afterwards, no shared mutable node) is
   checked dynamically on every public function by the harness.  _partial: the taint pass is an abstraction of Python's
   aliasing that is not proved sound here. *)
From BSE Require Import Model.Val Gen.GenWriters Gen.GenEffects Proofs.EffectsFinite.

Theorem use_copy_discipline_partial : forallb flag_ok use_copy_functions = true.
Proof. exact use_copy_discipline. Qed.
Print Assumptions use_copy_discipline_partial.

Theorem no_uncopied_calls_partial : uncopied_calls = [].
Proof. exact no_uncopied_calls. Qed.
Print Assumptions no_uncopied_calls_partial.

Theorem only_documented_mutations_partial : triples_eqb direct_mutations documented_mutations = true.
Proof. exact only_documented_mutations. Qed.
Print Assumptions only_documented_mutations_partial.

Theorem all_writers_copy_first_partial : forallb (fun p => writer_copies (snd p)) writer_map = true.
Proof. exact all_writers_copy_first. Qed.
Print Assumptions all_writers_copy_first_partial.

Theorem writers_without_steps_partial :
  map fst (filter (fun p => match w_pipeline (snd p) with [] => true | _ => false end) writer_map) = ["bsedebug"; "json"].
Proof. exact writers_without_steps. Qed.
Print Assumptions writers_without_steps_partial.
