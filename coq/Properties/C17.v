(* C17 - adding a basis stores exactly it and overwrites nothing (theorems added as they are proved) *)
From BSE Require Import Model.Val Model.AddBasis.
