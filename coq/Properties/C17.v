(* C17 - adding a basis to a data directory stores exactly it and overwrites nothing.  Statements: Proofs/AddBasisDefs.v.
   The directory is a finite map path -> parsed JSON; validation is the C18 model, index regeneration the C11 model. *)
From BSE Require Import Model.Val Model.Compose Model.Index Model.Validator Model.AddBasis Proofs.AddBasisDefs.
From BSE Require Proofs.AddBasisSpec.

Theorem add_from_components_monotone : add_from_components_monotone_stmt.
Proof. exact AddBasisSpec.add_from_components_monotone. Qed.
Print Assumptions add_from_components_monotone.

Theorem add_from_components_new_files : add_from_components_new_files_stmt.
Proof. exact AddBasisSpec.add_from_components_new_files. Qed.
Print Assumptions add_from_components_new_files.

(* after every successful addition the index file equals the index regenerated from the directory *)
Theorem add_from_components_index : add_from_components_index_stmt.
Proof. exact AddBasisSpec.add_from_components_index. Qed.
Print Assumptions add_from_components_index.

Theorem add_from_components_no_overwrite : add_from_components_no_overwrite_stmt.
Proof. exact AddBasisSpec.add_from_components_no_overwrite. Qed.
Print Assumptions add_from_components_no_overwrite.

Theorem add_from_components_name_clash : add_from_components_name_clash_stmt.
Proof. exact AddBasisSpec.add_from_components_name_clash. Qed.
Print Assumptions add_from_components_name_clash.

Theorem add_basis_from_dict_monotone : add_basis_from_dict_monotone_stmt.
Proof. exact AddBasisSpec.add_basis_from_dict_monotone. Qed.
Print Assumptions add_basis_from_dict_monotone.

Theorem add_basis_from_dict_new_files : add_basis_from_dict_new_files_stmt.
Proof. exact AddBasisSpec.add_basis_from_dict_new_files. Qed.
Print Assumptions add_basis_from_dict_new_files.

Theorem add_basis_from_dict_index : add_basis_from_dict_index_stmt.
Proof. exact AddBasisSpec.add_basis_from_dict_index. Qed.
Print Assumptions add_basis_from_dict_index.

Theorem add_basis_from_dict_no_overwrite : add_basis_from_dict_no_overwrite_stmt.
Proof. exact AddBasisSpec.add_basis_from_dict_no_overwrite. Qed.
Print Assumptions add_basis_from_dict_no_overwrite.

(* the stored component is the supplied data (with description, data source and references set), and it passed validation *)
Theorem add_basis_from_dict_stores : add_basis_from_dict_stores_stmt.
Proof. exact AddBasisSpec.add_basis_from_dict_stores. Qed.
Print Assumptions add_basis_from_dict_stores.

(* over any sequence of additions (failed ones leave the directory as it was) no existing file ever changes *)
Theorem add_sequence_monotone : add_sequence_monotone_stmt.
Proof. exact AddBasisSpec.add_sequence_monotone. Qed.
Print Assumptions add_sequence_monotone.

Example add_demo :
  match add_from_components [("c/a.1.json", VDict [bse_tag "component"; ("description", VStr "A"); ("data_source", VStr "");
                                                   ("elements", VDict [("1", VDict [("references", VStrs ["r"]);
                                                      ("electron_shells", VList [VDict [("function_type", VStr "gto"); ("region", VStr "");
                                                         ("angular_momentum", VList [VInt 0]); ("exponents", VStrs ["1.0"]);
                                                         ("coefficients", VList [VStrs ["1.0"]])]])])])])]
                            ["c/a.1.json"] "c" "x" "X" "fam" "orbital" "d" "1" "rev" "2020-01-01" with
  | inr d' => map fst d' = ["c/a.1.json"; "c/x.1.element.json"; "x.1.table.json"; "x.metadata.json"; "METADATA.json"]
  | inl _ => False
  end.
Proof. vm_compute. reflexivity. Qed.
