(* C14 - the information header can never change or corrupt the payload (theorems added as they are proved) *)
From BSE Require Import Model.Val Model.Header.
