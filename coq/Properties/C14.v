(* C14 - the information header can never change or corrupt the payload.  Statements: Proofs/HeaderDefs.v.
   writer_map / reader_map are Gen/GenWriters.v / Gen/GenReaders.v = the tables of writers/write.py and readers/*.py now. *)
From BSE Require Import Model.Val Model.Text Model.Header Gen.GenWriters Gen.GenReaders Proofs.HeaderDefs.
From BSE Require Proofs.HeaderSpec.

Theorem splitlines_concat : splitlines_concat_stmt.
Proof. exact HeaderSpec.splitlines_concat. Qed.
Print Assumptions splitlines_concat.

(* whatever line boundaries a header contains, every line of the commented header starts with the comment marker *)
Theorem header_lines_commented : header_lines_commented_stmt.
Proof. exact HeaderSpec.header_lines_commented. Qed.
Print Assumptions header_lines_commented.

Theorem header_empty : header_empty_stmt.
Proof. exact HeaderSpec.header_empty. Qed.
Print Assumptions header_empty.

(* headed text = [psi4 keyword line] ++ commented header ++ separator ++ bare payload; no marker or no header: bare text *)
Theorem assemble_shape : assemble_shape_stmt.
Proof. exact HeaderSpec.assemble_shape. Qed.
Print Assumptions assemble_shape.

(* comment and blank lines in front of the payload do not change what a reader's prune_lines hands on *)
Theorem prune_lines_header : prune_lines_header_stmt.
Proof. exact HeaderSpec.prune_lines_header. Qed.
Print Assumptions prune_lines_header.

Theorem commented_line_skipped : commented_line_skipped_stmt.
Proof. exact HeaderSpec.commented_line_skipped. Qed.
Print Assumptions commented_line_skipped.

(* finite, over the translated tables *)
Theorem all_markers_ok : all_markers_ok_stmt.
Proof. exact HeaderSpec.all_markers_ok. Qed.
Print Assumptions all_markers_ok.

Theorem header_safe_formats_hold : header_safe_formats_stmt.
Proof. exact HeaderSpec.header_safe_formats. Qed.
Print Assumptions header_safe_formats_hold.

Theorem no_marker_formats : no_marker_formats_stmt.
Proof. exact HeaderSpec.no_marker_formats. Qed.
Print Assumptions no_marker_formats.

Example header_demo :
  splitlines_keepends (header_comment "#" ("a" +++ String (byte 13) (String (byte 10) ("b" +++ String (byte 226) (String (byte 128) (String (byte 168) "c"))))))
  = ["#a" +++ String (byte 13) (String (byte 10) ""); "#b" +++ String (byte 226) (String (byte 128) (String (byte 168) "")); "#c"].
Proof. vm_compute. reflexivity. Qed.
