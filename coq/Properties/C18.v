(* C18 - the validator accepts exactly the well-formed basis data.
   valid_shell / valid_pots / shell_shape (Proofs/ValidatorDefs.v) are the documented rules written declaratively;
   schema_complete etc. are Gen/GenSchema.v = schema/*.json as they are now. *)
From BSE Require Import Model.Val Model.Num Model.Basis Model.Schema Gen.GenSchema Model.Validator.
From BSE Require Import Proofs.ValidatorDefs Proofs.ValidatorSpec.

(* the semantic rules for a shell are accepted exactly when every documented rule holds (both directions) *)
Theorem validate_shell_iff : validate_shell_iff_stmt.
Proof. exact ValidatorSpec.validate_shell_iff. Qed.
Print Assumptions validate_shell_iff.

Theorem validate_shell_errors : validate_shell_errors_stmt.
Proof. exact ValidatorSpec.validate_shell_errors. Qed.
Print Assumptions validate_shell_errors.

(* same for the ECP potentials of an element *)
Theorem validate_pots_iff : validate_pots_iff_stmt.
Proof. exact ValidatorSpec.validate_pots_iff. Qed.
Print Assumptions validate_pots_iff.

Theorem validate_element_sound : validate_element_sound_stmt.
Proof. exact ValidatorSpec.validate_element_sound. Qed.
Print Assumptions validate_element_sound.

Theorem validate_complete_sound : validate_complete_sound_stmt.
Proof. exact ValidatorSpec.validate_complete_sound. Qed.
Print Assumptions validate_complete_sound.

(* the electron-shell schema (the same term in the complete, minimal and component schemas) accepts exactly shell_shape *)
Theorem shell_schema_present : shell_schema_present_stmt.
Proof. exact ValidatorSpec.shell_schema_present. Qed.
Print Assumptions shell_schema_present.

Theorem shell_schema_iff : shell_schema_iff_stmt.
Proof. exact ValidatorSpec.shell_schema_iff. Qed.
Print Assumptions shell_schema_iff.

Theorem complete_top_level_keys : complete_top_stmt.
Proof. exact ValidatorSpec.complete_top. Qed.
Print Assumptions complete_top_level_keys.

Theorem complete_element_keys : complete_element_keys_stmt.
Proof. exact ValidatorSpec.complete_element_keys. Qed.
Print Assumptions complete_element_keys.

(* non-vacuity: a concrete shell is valid, and a single-rule mutation of it is rejected *)
Definition good : sshell := mkShell "gto_spherical" "" [2%Z] ["1.5"; "0.3"] [["0.4"; "0.6"]; ["0.0"; "1.0"]].
Definition bad_dup_exponent : sshell := mkShell "gto_spherical" "" [2%Z] ["1.5"; "1.50"] [["0.4"; "0.6"]; ["0.0"; "1.0"]].
Example demo_accept_reject : validate_shell good = inr tt /\ validate_shell bad_dup_exponent = inl ERuntime.
Proof. vm_compute. split; reflexivity. Qed.
