(* C18 - the validator accepts exactly the well-formed basis data (theorems added as they are proved) *)
From BSE Require Import Model.Val Model.Validator.
