(* C03 - reading back what the library wrote (theorems added as they are proved) *)
From BSE Require Import Model.Val Model.Matrix.
