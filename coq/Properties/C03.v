(* C03 - reading back what the library wrote never silently changes the basis.
   PARTIAL by design (DESIGN.md): what is proved is the numeric-table layer shared by the writers and readers -
   printing.write_matrix and readers.helpers.parse_primitive_matrix: every digit of every number survives the trip, only
   the exponent marker is normalised.  The per-format layout code of the fourteen writer/reader pairs is not modelled: for
   it the decision is write / read-back exploration compared by exact value (vlib/props/c03.py). *)
From BSE Require Import Model.Val Model.Manip Model.Text Model.Matrix Proofs.MatrixDefs.
From BSE Require Proofs.MatrixSpec.

Theorem floating_is_cell : floating_is_cell_stmt.
Proof. exact MatrixSpec.floating_is_cell. Qed.
Print Assumptions floating_is_cell.

(* every cell of a row is exactly one white-space delimited token of the printed line, in order; no other tokens *)
Theorem write_row_tokens : write_row_tokens_stmt.
Proof. exact MatrixSpec.write_row_tokens. Qed.
Print Assumptions write_row_tokens.

Theorem write_matrix_total : write_matrix_total_stmt.
Proof. exact MatrixSpec.write_matrix_total. Qed.
Print Assumptions write_matrix_total.

(* one line per primitive whose tokens are that row of the matrix.  _partial: for cells made of bytes below 128 (true of every
   number string); with a byte sequence that Python's splitlines treats as a line boundary inside a cell the statement is
   false (MatrixSpec.write_matrix_tokens_counterexample) *)
Theorem write_matrix_tokens_partial :
  forall mat pps n text, rectangular mat n -> Forall (Forall cell_ok) mat ->
    Forall (Forall (fun c => sall (fun ch => Nat.ltb (nat_of_ascii ch) 128) (cell_str c) = true)) mat ->
    List.length mat <= List.length pps ->
    write_matrix mat pps false = inr text ->
    map (fun l => tokens_acc l "") (splitlines text) = map (map cell_str) (transpose_cells mat).
Proof. exact MatrixSpec.write_matrix_tokens_partial. Qed.
Print Assumptions write_matrix_tokens_partial.

(* write then parse: exponents and every contraction's coefficients come back digit for digit (with or without E -> D) *)
Theorem matrix_roundtrip : matrix_roundtrip_stmt.
Proof. exact MatrixSpec.matrix_roundtrip. Qed.
Print Assumptions matrix_roundtrip.

Theorem norm_keeps_digits : norm_keeps_digits_stmt.
Proof. exact MatrixSpec.norm_keeps_digits. Qed.
Print Assumptions norm_keeps_digits.

(* ---- one format in full: the electron section of the NWChem writer / reader pair (Model/Nwchem.v, compared with
   writers/nwchem.py and readers/nwchem.py on every run).  For every well-formed input (nw_ok: 1 <= Z <= 118 pairwise distinct,
   every shell with primitives, momenta 0..24, rectangular coefficient rows, one row per momentum for combined shells, number
   strings that the reader's own pattern accepts) reading back what was written returns exactly the same elements, shells,
   momenta and number strings (only the exponent marker is normalised), with the function type the format implies. ---- *)
From BSE Require Import Model.Nwchem Proofs.NwchemDefs.
From BSE Require Proofs.NwchemSpec.

Theorem nwchem_write_total : nw_write_total_stmt.
Proof. exact NwchemSpec.nw_write_total. Qed.
Print Assumptions nwchem_write_total.

Theorem nwchem_roundtrip : nw_roundtrip_stmt.
Proof. exact NwchemSpec.nw_roundtrip_exact. Qed.
Print Assumptions nwchem_roundtrip.

Theorem nwchem_no_number_lost : nw_no_number_lost_stmt.
Proof. exact NwchemSpec.nw_no_number_lost. Qed.
Print Assumptions nwchem_no_number_lost.

(* the conditions of nw_ok are needed: an empty basis, an element without shells and a combined shell with the wrong number
   of coefficient rows do not round-trip (each reproduced on the implementation) *)
Theorem nwchem_roundtrip_needs_shells : nw_roundtrip_noshell_stmt.
Proof. exact NwchemSpec.nw_roundtrip_noshell. Qed.
Print Assumptions nwchem_roundtrip_needs_shells.

Example nwchem_example : nw_example_stmt.
Proof. exact NwchemSpec.nw_example. Qed.

(* ---- a second format in full: the electron part of the Gaussian94 writer / reader pair (Model/G94.v).  The input is the
   basis after the writer's uncontract_general / uncontract_spdf(1) / sort_basis calls (one coefficient column per momentum).
   The reader has no spherical / cartesian information and tags everything spherical: g94_cartesian shows it. ---- *)
From BSE Require Import Model.G94 Proofs.G94Defs.
From BSE Require Proofs.G94Spec.

Theorem gaussian94_write_total : g94_write_total_stmt.
Proof. exact G94Spec.g94_write_total. Qed.
Print Assumptions gaussian94_write_total.

Theorem gaussian94_roundtrip : g94_roundtrip_stmt.
Proof. exact G94Spec.g94_roundtrip_exact. Qed.
Print Assumptions gaussian94_roundtrip.

Theorem gaussian94_no_number_lost : g94_no_number_lost_stmt.
Proof. exact G94Spec.g94_no_number_lost. Qed.
Print Assumptions gaussian94_no_number_lost.

(* what the format cannot carry, as theorems about the model: a general contraction that was not uncontracted before, and the
   cartesian tag *)
Theorem gaussian94_needs_uncontract_general : g94_roundtrip_general_stmt.
Proof. exact G94Spec.g94_roundtrip_general. Qed.
Print Assumptions gaussian94_needs_uncontract_general.

Theorem gaussian94_loses_cartesian_tag : g94_cartesian_stmt.
Proof. exact G94Spec.g94_cartesian. Qed.
Print Assumptions gaussian94_loses_cartesian_tag.

Example gaussian94_example : g94_example_stmt.
Proof. exact G94Spec.g94_example. Qed.

(* ---- the whole NWChem file: electron section + ECP section (Model/NwchemEcp.v).  The ECP carries no momentum labels for its
   highest potential (`ul`, read back as the highest of the others + 1): the round trip holds exactly when the highest momentum
   is the second highest + 1 (or the only potential has momentum 0) - sufficient: contiguous momenta 0..lmax. ---- *)
From BSE Require Import Model.NwchemEcp Proofs.NwchemEcpDefs.
From BSE Require Proofs.NwchemEcpSpec.

Theorem nwchem_ecp_roundtrip : nw_ecp_roundtrip_stmt.
Proof. exact NwchemEcpSpec.nw_ecp_roundtrip_exact. Qed.
Print Assumptions nwchem_ecp_roundtrip.

Theorem nwchem_whole_file_roundtrip : nw_all_roundtrip_stmt.
Proof. exact NwchemEcpSpec.nw_all_roundtrip_exact. Qed.
Print Assumptions nwchem_whole_file_roundtrip.

Theorem nwchem_whole_file_write_total : nw_all_write_total_stmt.
Proof. exact NwchemEcpSpec.nw_all_write_total. Qed.
Print Assumptions nwchem_whole_file_write_total.

Theorem nwchem_ecp_contiguous_is_enough : nw_ecp_contiguous_stmt.
Proof. exact NwchemEcpSpec.nw_ecp_contiguous. Qed.
Print Assumptions nwchem_ecp_contiguous_is_enough.

Theorem nwchem_ecp_no_number_lost : nw_ecp_no_number_lost_stmt.
Proof. exact NwchemEcpSpec.nw_ecp_no_number_lost. Qed.
Print Assumptions nwchem_ecp_no_number_lost.

(* the known finding "nwchem ecp:am-gap" as a theorem about the model: momenta {0,1,3} read back as {0,1,2}; {0,2,3} are
   unchanged; a single potential with momentum 2 reads back with momentum 0 *)
Theorem nwchem_ecp_gap_refuted : nw_ecp_gap_counterexample_stmt.
Proof. exact NwchemEcpSpec.nw_ecp_gap_counterexample. Qed.
Print Assumptions nwchem_ecp_gap_refuted.

Theorem nwchem_ecp_gap_below_is_fine : nw_ecp_gap_below_stmt.
Proof. exact NwchemEcpSpec.nw_ecp_gap_below. Qed.
Print Assumptions nwchem_ecp_gap_below_is_fine.

Theorem nwchem_ecp_single_potential : nw_ecp_single_stmt.
Proof. exact NwchemEcpSpec.nw_ecp_single. Qed.
Print Assumptions nwchem_ecp_single_potential.

Example nwchem_ecp_example : nw_ecp_example_stmt.
Proof. exact NwchemEcpSpec.nw_ecp_example. Qed.

(* ---- a third format: the electron section of the Turbomole pair (Model/Turbomole.v); input after uncontract_general /
   uncontract_spdf(0) / sort_basis: one momentum and one contraction per shell ---- *)
From BSE Require Import Model.Turbomole Proofs.TurbomoleDefs.
From BSE Require Proofs.TurbomoleSpec.

Theorem turbomole_write_total : tm_write_total_stmt.
Proof. exact TurbomoleSpec.tm_write_total. Qed.
Print Assumptions turbomole_write_total.

Theorem turbomole_roundtrip : tm_roundtrip_stmt.
Proof. exact TurbomoleSpec.tm_roundtrip_exact. Qed.
Print Assumptions turbomole_roundtrip.

Theorem turbomole_no_number_lost : tm_no_number_lost_stmt.
Proof. exact TurbomoleSpec.tm_no_number_lost. Qed.
Print Assumptions turbomole_no_number_lost.

Theorem turbomole_every_role_roundtrips : tm_roles_stmt.
Proof. exact TurbomoleSpec.tm_roles. Qed.
Print Assumptions turbomole_every_role_roundtrips.

Theorem turbomole_loses_cartesian_tag_and_region : tm_roundtrip_cartesian_stmt.
Proof. exact TurbomoleSpec.tm_roundtrip_cartesian. Qed.
Print Assumptions turbomole_loses_cartesian_tag_and_region.

Example turbomole_example : tm_example_stmt.
Proof. exact TurbomoleSpec.tm_example. Qed.

Example roundtrip_demo :
  match write_matrix [[CStr "130.70932"; CStr "0.5"]; [CStr "1.5E-01"; CStr "-0.25"]] [8; 31]%Z true with
  | inr t => parse_primitive_matrix (splitlines t) = inr (["130.70932"; "0.5"], [["1.5E-01"; "-0.25"]])
  | inl _ => False
  end.
Proof. vm_compute. reflexivity. Qed.

(* ---- the whole Turbomole file: $basis section + $ecp section (Model/TurbomoleEcp.v).  The file states lmax as a number, so gaps
   in the ECP momenta survive (unlike NWChem / Gaussian94); two conditions exclude VALID data and are findings, proved as
   theorems about the model and reproduced on the code: an ECP momentum >= 7 cannot be read back (the writer's letters follow
   the hij convention, the reader's the hik convention), and a basis without electron shells (ECP only: def2-ECP, ...) is written
   with an empty $basis section that the reader refuses - for EVERY such input (tmecp_ecp_only). ---- *)
From BSE Require Import Model.TurbomoleEcp Proofs.TurbomoleEcpDefs.
From BSE Require Proofs.TurbomoleEcpSpec.

Theorem turbomole_whole_file_write_total : tmecp_write_total_stmt.
Proof. exact TurbomoleEcpSpec.tmecp_write_total. Qed.
Print Assumptions turbomole_whole_file_write_total.

Theorem turbomole_whole_file_roundtrip : tmecp_roundtrip_stmt.
Proof. exact TurbomoleEcpSpec.tmecp_roundtrip_exact. Qed.
Print Assumptions turbomole_whole_file_roundtrip.

Theorem turbomole_whole_file_no_number_lost : tmecp_no_number_lost_stmt.
Proof. exact TurbomoleEcpSpec.tmecp_no_number_lost. Qed.
Print Assumptions turbomole_whole_file_no_number_lost.

Theorem turbomole_ecp_momentum_range : tmecp_hij_range_stmt.
Proof. exact TurbomoleEcpSpec.tmecp_hij_range. Qed.
Print Assumptions turbomole_ecp_momentum_range.

Theorem turbomole_ecp_only_unreadable : tmecp_ecp_only_stmt.
Proof. exact TurbomoleEcpSpec.tmecp_ecp_only. Qed.
Print Assumptions turbomole_ecp_only_unreadable.

Theorem turbomole_ecp_gaps_survive : tmecp_gap_ok_stmt.
Proof. exact TurbomoleEcpSpec.tmecp_gap_ok. Qed.
Print Assumptions turbomole_ecp_gaps_survive.

Example turbomole_ecp_example : tmecp_example_stmt.
Proof. exact TurbomoleEcpSpec.tmecp_example. Qed.

(* ---- GAMESS-US (Model/GamessUs.v, Model/GamessUsEcp.v).  The electron part round-trips exactly for momenta 0..6
   (gus_roundtrip); what comes back for ANY well-formed input is gus_back (gus_roundtrip_letters): the shells up to the first
   whose letter the reader does not know - the recorded known findings "shells with l >= 7 dropped / altered" as a theorem, with
   the exact letter table.  The whole file (electron part + ECPs) round-trips exactly as well (gus_all_roundtrip). ---- *)
From BSE Require Import Model.GamessUs Proofs.GamessUsDefs Model.GamessUsEcp Proofs.GamessUsEcpDefs.
From BSE Require Proofs.GamessUsSpec Proofs.GamessUsEcpSpec.

Theorem gamess_us_write_total : gus_write_total_stmt.
Proof. exact GamessUsSpec.gus_write_total. Qed.
Print Assumptions gamess_us_write_total.

Theorem gamess_us_roundtrip : gus_roundtrip_stmt.
Proof. exact GamessUsSpec.gus_roundtrip_exact. Qed.
Print Assumptions gamess_us_roundtrip.

Theorem gamess_us_what_comes_back : gus_roundtrip_letters_stmt.
Proof. exact GamessUsSpec.gus_roundtrip_letters. Qed.
Print Assumptions gamess_us_what_comes_back.

Theorem gamess_us_letter_table : gus_letter_table_stmt.
Proof. exact GamessUsSpec.gus_letter_table. Qed.
Print Assumptions gamess_us_letter_table.

Theorem gamess_us_exact_momentum_range : gus_letter_exact_stmt.
Proof. exact GamessUsSpec.gus_letter_exact. Qed.
Print Assumptions gamess_us_exact_momentum_range.

Theorem gamess_us_no_number_lost : gus_no_number_lost_stmt.
Proof. exact GamessUsSpec.gus_no_number_lost. Qed.
Print Assumptions gamess_us_no_number_lost.

Theorem gamess_us_high_momenta_refuted : gus_roundtrip_high_stmt.
Proof. exact GamessUsSpec.gus_roundtrip_high. Qed.
Print Assumptions gamess_us_high_momenta_refuted.

Theorem gamess_us_fused_sp_unreadable : gus_roundtrip_sp_stmt.
Proof. exact GamessUsSpec.gus_roundtrip_sp. Qed.
Print Assumptions gamess_us_fused_sp_unreadable.

Theorem gamess_us_whole_file_roundtrip : gus_all_roundtrip_stmt.
Proof. exact GamessUsEcpSpec.gus_all_roundtrip. Qed.
Print Assumptions gamess_us_whole_file_roundtrip.

Theorem gamess_us_whole_file_write_total : gus_all_write_total_stmt.
Proof. exact GamessUsEcpSpec.gus_all_write_total. Qed.
Print Assumptions gamess_us_whole_file_write_total.

Theorem gamess_us_whole_file_no_number_lost : gus_all_no_number_lost_stmt.
Proof. exact GamessUsEcpSpec.gus_all_no_number_lost. Qed.
Print Assumptions gamess_us_whole_file_no_number_lost.

Theorem gamess_us_ecp_only_unreadable : gus_ecp_only_stmt.
Proof. exact GamessUsEcpSpec.gus_ecp_only. Qed.
Print Assumptions gamess_us_ecp_only_unreadable.

Theorem gamess_us_ecp_zero_terms_dropped : gus_ecp_zero_stmt.
Proof. exact GamessUsEcpSpec.gus_ecp_zero. Qed.
Print Assumptions gamess_us_ecp_zero_terms_dropped.

Example gamess_us_example : gus_example_stmt.
Proof. exact GamessUsSpec.gus_example. Qed.

Example gamess_us_ecp_example : gus_ecp_example_stmt.
Proof. exact GamessUsEcpSpec.gus_ecp_example. Qed.

(* ---- Dalton (Model/Dalton.v, Model/DaltonEcp.v).  The format lists the blocks of an element by position: what comes back for
   ANY input the writer accepts is dal_read_back (momenta 0, 1, 2, ... by position), and the round trip is exact IF AND ONLY IF
   the momenta of every element are contiguous from 0 (dal_roundtrip_iff) - the recorded known finding "dalton am-gap" with
   its exact condition; contiguous momenta up to 24 come back unchanged.  Any file with an ECP section cannot be read back at
   all: the writer prints Dalton's library layout, the reader expects the NWChem layout (dal_ecp_unreadable, for every input). *)
From BSE Require Import Model.Dalton Proofs.DaltonDefs Model.DaltonEcp Proofs.DaltonEcpDefs.
From BSE Require Proofs.DaltonSpec Proofs.DaltonEcpSpec.

Theorem dalton_write_total : dal_write_total_stmt.
Proof. exact DaltonSpec.dal_write_total. Qed.
Print Assumptions dalton_write_total.

Theorem dalton_what_comes_back : dal_roundtrip_positional_stmt.
Proof. exact DaltonSpec.dal_roundtrip_positional. Qed.
Print Assumptions dalton_what_comes_back.

Theorem dalton_roundtrip : dal_roundtrip_stmt.
Proof. exact DaltonSpec.dal_roundtrip_exact. Qed.
Print Assumptions dalton_roundtrip.

Theorem dalton_roundtrip_iff_contiguous : dal_roundtrip_iff_stmt.
Proof. exact DaltonSpec.dal_roundtrip_iff. Qed.
Print Assumptions dalton_roundtrip_iff_contiguous.

Theorem dalton_contiguous_means_no_gap : dal_contiguous_sorted_stmt.
Proof. exact DaltonSpec.dal_contiguous_sorted. Qed.
Print Assumptions dalton_contiguous_means_no_gap.

Theorem dalton_no_number_lost : dal_no_number_lost_stmt.
Proof. exact DaltonSpec.dal_no_number_lost. Qed.
Print Assumptions dalton_no_number_lost.

Theorem dalton_gap_refuted : dal_gap_counterexample_stmt.
Proof. exact DaltonSpec.dal_gap_counterexample. Qed.
Print Assumptions dalton_gap_refuted.

Theorem dalton_high_momenta_are_fine : dal_high_momenta_stmt.
Proof. exact DaltonSpec.dal_high_momenta. Qed.
Print Assumptions dalton_high_momenta_are_fine.

Theorem dalton_ecp_files_unreadable : dal_ecp_unreadable_stmt.
Proof. exact DaltonEcpSpec.dal_ecp_unreadable. Qed.
Print Assumptions dalton_ecp_files_unreadable.

Example dalton_example : dal_example_stmt.
Proof. exact DaltonSpec.dal_example. Qed.

Example dalton_ecp_example : dal_ecp_example_stmt.
Proof. exact DaltonEcpSpec.dal_ecp_example. Qed.

(* ---- Molpro library format (libmol), electron part (Model/Libmol.v).  The basis name is part of every shell header and
   the reader only accepts names of a certain shape: the recorded known findings "no element at all for names like 6-31G",
   "l >= 8 dropped", "ECP never read back" are theorems about the model (lmol_name, lmol_am_bound, lmol_ecp_dropped - the last
   for every element symbol and every ECP line the writer can print). ---- *)
From BSE Require Import Model.Libmol Proofs.LibmolDefs.
From BSE Require Proofs.LibmolSpec.

Theorem libmol_write_total : lmol_write_total_stmt.
Proof. exact LibmolSpec.lmol_write_total. Qed.
Print Assumptions libmol_write_total.

Theorem libmol_roundtrip : lmol_roundtrip_stmt.
Proof. exact LibmolSpec.lmol_roundtrip_exact. Qed.
Print Assumptions libmol_roundtrip.

Theorem libmol_only_outer_zeros_change : lmol_expected_col_stmt.
Proof. exact LibmolSpec.lmol_expected_col_spec. Qed.
Print Assumptions libmol_only_outer_zeros_change.

Theorem libmol_no_number_lost : lmol_no_number_lost_stmt.
Proof. exact LibmolSpec.lmol_no_number_lost. Qed.
Print Assumptions libmol_no_number_lost.

Theorem libmol_names_refuted : lmol_name_stmt.
Proof. exact LibmolSpec.lmol_name. Qed.
Print Assumptions libmol_names_refuted.

Theorem libmol_momentum_bound : lmol_am_bound_stmt.
Proof. exact LibmolSpec.lmol_am_bound. Qed.
Print Assumptions libmol_momentum_bound.

Theorem libmol_ecp_never_read_back : lmol_ecp_dropped_stmt.
Proof. exact LibmolSpec.lmol_ecp_dropped. Qed.
Print Assumptions libmol_ecp_never_read_back.

Example libmol_example : lmol_example_stmt.
Proof. exact LibmolSpec.lmol_example. Qed.

(* ---- CP2K (Model/Cp2k.v, Model/Cp2kEcp.v).  The writer only sorts; fused shells and general contractions are printed as they are and a fused shell comes back as one shell per momentum.  The basis name is part of the text and the reader accepts only names of a certain shape (117 of the 748 store names are refused, e.g. 6-31G: cp2k_roundtrip_name_631g); the writer emits an ECP section that the reader cannot read: EVERY text with an ECP is refused (cp2k_all_unreadable). ---- *)
From BSE Require Import Model.Cp2k Proofs.Cp2kDefs Model.Cp2kEcp Proofs.Cp2kEcpDefs.
From BSE Require Proofs.Cp2kSpec Proofs.Cp2kEcpSpec.

Theorem cp2k_write_total : cp2k_write_total_stmt.
Proof. exact Cp2kSpec.cp2k_write_total. Qed.
Print Assumptions cp2k_write_total.

Theorem cp2k_roundtrip : cp2k_roundtrip_stmt.
Proof. exact Cp2kSpec.cp2k_roundtrip_exact. Qed.
Print Assumptions cp2k_roundtrip.

Theorem cp2k_no_number_lost : cp2k_no_number_lost_stmt.
Proof. exact Cp2kSpec.cp2k_no_number_lost. Qed.
Print Assumptions cp2k_no_number_lost.

Theorem cp2k_name_6_31g_refused : cp2k_roundtrip_name_631g_stmt.
Proof. exact Cp2kSpec.cp2k_roundtrip_name_631g. Qed.
Print Assumptions cp2k_name_6_31g_refused.

Theorem cp2k_fused_momenta_swapped : cp2k_roundtrip_swapped_stmt.
Proof. exact Cp2kSpec.cp2k_roundtrip_swapped. Qed.
Print Assumptions cp2k_fused_momenta_swapped.

Theorem cp2k_ecp_files_unreadable : cp2k_all_unreadable_stmt.
Proof. exact Cp2kEcpSpec.cp2k_all_unreadable. Qed.
Print Assumptions cp2k_ecp_files_unreadable.

Theorem cp2k_ecp_no_number_lost : cp2k_ecp_no_number_lost_stmt.
Proof. exact Cp2kEcpSpec.cp2k_ecp_no_number_lost. Qed.
Print Assumptions cp2k_ecp_no_number_lost.

Example cp2k_example : cp2k_example_stmt.
Proof. exact Cp2kSpec.cp2k_example. Qed.

Example cp2k_ecp_example : cp2k_all_example_stmt.
Proof. exact Cp2kEcpSpec.cp2k_all_example. Qed.

(* ---- CFOUR / GENBAS (Model/Genbas.v, Model/GenbasEcp.v).  The electron part round-trips for every momentum; name and description are part of the text: a description starting with # or ! or looking like an ECP header makes the text unreadable (c4_roundtrip_desc_hash ...).  The whole file with ECPs round-trips exactly too (c4ecp_roundtrip), for every ECP momentum 0..24 (c4ecp_range); a basis with ECPs only cannot be read back (c4ecp_ecp_only_example). ---- *)
From BSE Require Import Model.Genbas Proofs.GenbasDefs Model.GenbasEcp Proofs.GenbasEcpDefs.
From BSE Require Proofs.GenbasSpec Proofs.GenbasEcpSpec.

Theorem cfour_write_total : c4_write_total_stmt.
Proof. exact GenbasSpec.c4_write_total. Qed.
Print Assumptions cfour_write_total.

Theorem cfour_roundtrip : c4_roundtrip_stmt.
Proof. exact GenbasSpec.c4_roundtrip_exact. Qed.
Print Assumptions cfour_roundtrip.

Theorem cfour_no_number_lost : c4_no_number_lost_stmt.
Proof. exact GenbasSpec.c4_no_number_lost. Qed.
Print Assumptions cfour_no_number_lost.

Theorem cfour_description_hash_refuted : c4_roundtrip_desc_hash_stmt.
Proof. exact GenbasSpec.c4_roundtrip_desc_hash. Qed.
Print Assumptions cfour_description_hash_refuted.

Theorem cfour_whole_file_roundtrip : c4ecp_roundtrip_stmt.
Proof. exact GenbasEcpSpec.c4ecp_roundtrip_exact. Qed.
Print Assumptions cfour_whole_file_roundtrip.

Theorem cfour_whole_file_write_total : c4ecp_write_total_stmt.
Proof. exact GenbasEcpSpec.c4ecp_write_total. Qed.
Print Assumptions cfour_whole_file_write_total.

Theorem cfour_whole_file_no_number_lost : c4ecp_no_number_lost_stmt.
Proof. exact GenbasEcpSpec.c4ecp_no_number_lost. Qed.
Print Assumptions cfour_whole_file_no_number_lost.

Theorem cfour_without_ecp_whole_file : c4ecp_roundtrip_no_ecp_stmt.
Proof. exact GenbasEcpSpec.c4ecp_roundtrip_no_ecp. Qed.
Print Assumptions cfour_without_ecp_whole_file.

Theorem cfour_ecp_momentum_range : c4ecp_range_stmt.
Proof. exact GenbasEcpSpec.c4ecp_range. Qed.
Print Assumptions cfour_ecp_momentum_range.

Theorem cfour_ecp_only_unreadable : c4ecp_ecp_only_example_stmt.
Proof. exact GenbasEcpSpec.c4ecp_ecp_only_example. Qed.
Print Assumptions cfour_ecp_only_unreadable.

Example cfour_example : c4_example_stmt.
Proof. exact GenbasSpec.c4_example. Qed.

Example cfour_ecp_example : c4ecp_example_stmt.
Proof. exact GenbasEcpSpec.c4ecp_example. Qed.

(* ---- Molpro (Model/Molpro.v), electron part; the reader's regular expressions are modelled by a backtracking matcher with Perl priorities.  Exact for momenta 0..7; l >= 8 is dropped silently (mpro_high_am: the recorded known finding as a theorem); only the zeros outside the first..last non-zero coefficient of a contraction are left out and come back spelled 0.0 (mpro_find_range). ---- *)
From BSE Require Import Model.Molpro Proofs.MolproDefs.
From BSE Require Proofs.MolproSpec.

Theorem molpro_write_total : mpro_write_total_stmt.
Proof. exact MolproSpec.mpro_write_total. Qed.
Print Assumptions molpro_write_total.

Theorem molpro_roundtrip : mpro_roundtrip_stmt.
Proof. exact MolproSpec.mpro_roundtrip_exact. Qed.
Print Assumptions molpro_roundtrip.

Theorem molpro_only_outer_zeros_left_out : mpro_find_range_stmt.
Proof. exact MolproSpec.mpro_find_range. Qed.
Print Assumptions molpro_only_outer_zeros_left_out.

Theorem molpro_no_number_lost : mpro_no_number_lost_stmt.
Proof. exact MolproSpec.mpro_no_number_lost. Qed.
Print Assumptions molpro_no_number_lost.

Theorem molpro_high_momenta_refuted : mpro_high_am_stmt.
Proof. exact MolproSpec.mpro_high_am. Qed.
Print Assumptions molpro_high_momenta_refuted.

Theorem molpro_cartesian_tag_lost : mpro_cartesian_stmt.
Proof. exact MolproSpec.mpro_cartesian. Qed.
Print Assumptions molpro_cartesian_tag_lost.

Example molpro_example : mpro_example_stmt.
Proof. exact MolproSpec.mpro_example. Qed.

(* ---- deMon2k (Model/Demon2k.v, Model/Demon2kEcp.v).  The full round-trip statement of the electron part is FALSE for every well-formed input (d2k_roundtrip_false, d2k_roundtrip_noend): the writer prints END only when some element has an ECP and the reader refuses a text without it; with the END line added by hand the electron part is exact (d2k_roundtrip_partial).  The whole file with ECPs round-trips exactly for contiguous ECP momenta (d2k_all_roundtrip), and d2k_all_roundtrip_gen says what comes back otherwise: the highest potential is renumbered to (number of potentials - 1) - the recorded known finding demon2k ecp:am-gap as a theorem. ---- *)
From BSE Require Import Model.Demon2k Proofs.Demon2kDefs Model.Demon2kEcp Proofs.Demon2kEcpDefs.
From BSE Require Proofs.Demon2kSpec Proofs.Demon2kEcpSpec.

Theorem demon2k_write_total : d2k_write_total_stmt.
Proof. exact Demon2kSpec.d2k_write_total. Qed.
Print Assumptions demon2k_write_total.

Theorem demon2k_without_ecp_unreadable : d2k_roundtrip_noend_stmt.
Proof. exact Demon2kSpec.d2k_roundtrip_noend. Qed.
Print Assumptions demon2k_without_ecp_unreadable.

Theorem demon2k_roundtrip_partial : d2k_roundtrip_partial_stmt.
Proof. exact Demon2kSpec.d2k_roundtrip_partial. Qed.
Print Assumptions demon2k_roundtrip_partial.

Theorem demon2k_no_number_lost : d2k_no_number_lost_stmt.
Proof. exact Demon2kSpec.d2k_no_number_lost. Qed.
Print Assumptions demon2k_no_number_lost.

Theorem demon2k_accepted_electron_counts : d2k_nelec_values_stmt.
Proof. exact Demon2kSpec.d2k_nelec_values_exact. Qed.
Print Assumptions demon2k_accepted_electron_counts.

Theorem demon2k_whole_file_roundtrip : d2k_all_roundtrip_stmt.
Proof. exact Demon2kEcpSpec.d2k_all_roundtrip_exact. Qed.
Print Assumptions demon2k_whole_file_roundtrip.

Theorem demon2k_what_comes_back : d2k_all_roundtrip_gen_stmt.
Proof. exact Demon2kEcpSpec.d2k_all_roundtrip_gen. Qed.
Print Assumptions demon2k_what_comes_back.

Theorem demon2k_ecp_gap_refuted : d2k_ecp_gap_counterexample_stmt.
Proof. exact Demon2kEcpSpec.d2k_ecp_gap_counterexample. Qed.
Print Assumptions demon2k_ecp_gap_refuted.

Theorem demon2k_ecp_no_number_lost : d2k_ecp_no_number_lost_stmt.
Proof. exact Demon2kEcpSpec.d2k_ecp_no_number_lost. Qed.
Print Assumptions demon2k_ecp_no_number_lost.

Example demon2k_example : d2k_example_stmt.
Proof. exact Demon2kSpec.d2k_example. Qed.

Example demon2k_ecp_example : d2k_ecp_example_stmt.
Proof. exact Demon2kEcpSpec.d2k_ecp_example. Qed.

(* ---- Molcas (Model/Molcas.v, Model/MolcasEcp.v): two writers, one reader.  The inline form (fmt 'molcas') can NEVER be read
   back, whatever the input (mcas_roundtrip_refuted: the registered reader only understands the library form).  The library form
   (fmt 'molcas_library') round-trips exactly, whole file, when the shell momenta of every element are contiguous from 0 and the
   ECP momenta are [L, 0..L-1] (mcasl_all_roundtrip); a gap makes the text unreadable (mcasl_roundtrip_gap: CRENBL / CRENBS
   elements without an s shell).  The first-author and reference strings the library writer prints, and the iteration order of
   its set of cartesian letters (which depends on PYTHONHASHSEED: the output is not deterministic), are parameters. ---- *)
From BSE Require Import Model.Molcas Proofs.MolcasDefs Model.MolcasEcp Proofs.MolcasEcpDefs.
From BSE Require Proofs.MolcasSpec Proofs.MolcasEcpSpec.

Theorem molcas_inline_write_total : mcas_write_total_stmt.
Proof. exact MolcasSpec.mcas_write_total. Qed.
Print Assumptions molcas_inline_write_total.

Theorem molcas_inline_never_readable : mcas_roundtrip_refuted_stmt.
Proof. exact MolcasSpec.mcas_roundtrip_refuted. Qed.
Print Assumptions molcas_inline_never_readable.

Theorem molcas_inline_no_number_lost : mcas_no_number_lost_stmt.
Proof. exact MolcasSpec.mcas_no_number_lost. Qed.
Print Assumptions molcas_inline_no_number_lost.

Theorem molcas_library_roundtrip : mcasl_roundtrip_stmt.
Proof. exact MolcasSpec.mcasl_roundtrip_exact. Qed.
Print Assumptions molcas_library_roundtrip.

Theorem molcas_library_whole_file_roundtrip : mcasl_all_roundtrip_stmt.
Proof. exact MolcasEcpSpec.mcasl_all_roundtrip. Qed.
Print Assumptions molcas_library_whole_file_roundtrip.

Theorem molcas_library_whole_file_write_total : mcasl_all_write_total_stmt.
Proof. exact MolcasEcpSpec.mcasl_all_write_total. Qed.
Print Assumptions molcas_library_whole_file_write_total.

Theorem molcas_library_no_number_lost : mcasl_no_number_lost_stmt.
Proof. exact MolcasSpec.mcasl_no_number_lost. Qed.
Print Assumptions molcas_library_no_number_lost.

Theorem molcas_library_ecp_no_number_lost : mcasl_ecp_no_number_lost_stmt.
Proof. exact MolcasEcpSpec.mcasl_ecp_no_number_lost. Qed.
Print Assumptions molcas_library_ecp_no_number_lost.

Theorem molcas_library_momentum_gap_refuted : mcasl_roundtrip_gap_stmt.
Proof. exact MolcasSpec.mcasl_roundtrip_gap. Qed.
Print Assumptions molcas_library_momentum_gap_refuted.

Theorem molcas_library_cartesian_tag_lost : mcasl_cartesian_stmt.
Proof. exact MolcasSpec.mcasl_cartesian. Qed.
Print Assumptions molcas_library_cartesian_tag_lost.

Theorem molcas_library_second_coefficient_row_lost : mcasl_ecp_rows_stmt.
Proof. exact MolcasEcpSpec.mcasl_ecp_rows. Qed.
Print Assumptions molcas_library_second_coefficient_row_lost.

Example molcas_example : mcas_example_stmt.
Proof. exact MolcasSpec.mcas_example. Qed.

Example molcas_library_ecp_example : mcasl_ecp_example_stmt.
Proof. exact MolcasEcpSpec.mcasl_ecp_example. Qed.

(* ---- VeloxChem (Model/Veloxchem.v; electron shells only - the writer is refused for ECP bases; MD5 is an executable
   Gallina function, RFC 1321).  The library can read back NO file it writes in this format: the writer appends the MD5 of the
   text with its line ends, the reader recomputes it over the stripped lines joined without them, and the two strings differ for
   every well-formed input (veloxchem_checksum_texts_differ), so the read-back raises unless MD5 collides
   (veloxchem_roundtrip_or_raises: the result is exactly the expected data or RuntimeError, never altered data - the shape C03
   asks for; veloxchem_never_readable_without_collision for an injective hash).  With the checksum out of the way - or with the
   digest the reader computes - the data come back exactly (veloxchem_reread_exact, veloxchem_read_with_reader_digest). ---- *)
From BSE Require Import Model.Veloxchem Proofs.VeloxchemDefs.
From BSE Require Proofs.VeloxchemSpec.

Theorem veloxchem_md5_digest : vlx_md5_digest_stmt.
Proof. exact VeloxchemSpec.vlx_md5_digest. Qed.
Print Assumptions veloxchem_md5_digest.

Theorem veloxchem_write_total : vlx_write_total_stmt.
Proof. exact VeloxchemSpec.vlx_write_total. Qed.
Print Assumptions veloxchem_write_total.

Theorem veloxchem_roundtrip_or_raises : vlx_roundtrip_partial_stmt.
Proof. exact VeloxchemSpec.vlx_roundtrip_partial. Qed.
Print Assumptions veloxchem_roundtrip_or_raises.

Theorem veloxchem_checksum_texts_differ : vlx_checksum_mismatch_stmt.
Proof. exact VeloxchemSpec.vlx_checksum_mismatch. Qed.
Print Assumptions veloxchem_checksum_texts_differ.

Theorem veloxchem_never_readable_without_collision : vlx_roundtrip_collision_free_stmt.
Proof. exact VeloxchemSpec.vlx_roundtrip_collision_free. Qed.
Print Assumptions veloxchem_never_readable_without_collision.

Theorem veloxchem_roundtrip_refuted : vlx_roundtrip_refuted_stmt.
Proof. exact VeloxchemSpec.vlx_roundtrip_refuted. Qed.
Print Assumptions veloxchem_roundtrip_refuted.

Theorem veloxchem_reread_exact : vlx_reread_stmt.
Proof. exact VeloxchemSpec.vlx_reread_exact. Qed.
Print Assumptions veloxchem_reread_exact.

Theorem veloxchem_read_with_reader_digest : vlx_read_fixed_stmt.
Proof. exact VeloxchemSpec.vlx_read_fixed. Qed.
Print Assumptions veloxchem_read_with_reader_digest.

Theorem veloxchem_no_number_lost : vlx_no_number_lost_stmt.
Proof. exact VeloxchemSpec.vlx_no_number_lost. Qed.
Print Assumptions veloxchem_no_number_lost.

Theorem veloxchem_example : vlx_example_stmt.
Proof. exact VeloxchemSpec.vlx_example. Qed.
Print Assumptions veloxchem_example.

Theorem veloxchem_fused_refused : vlx_reread_fused_stmt.
Proof. exact VeloxchemSpec.vlx_reread_fused. Qed.
Print Assumptions veloxchem_fused_refused.

Theorem veloxchem_general_refused : vlx_reread_general_stmt.
Proof. exact VeloxchemSpec.vlx_reread_general. Qed.
Print Assumptions veloxchem_general_refused.

Theorem veloxchem_am_bound : vlx_am_bound_stmt.
Proof. exact VeloxchemSpec.vlx_am_bound. Qed.
Print Assumptions veloxchem_am_bound.

Theorem veloxchem_floating : vlx_floating_stmt.
Proof. exact VeloxchemSpec.vlx_floating. Qed.
Print Assumptions veloxchem_floating.

Theorem veloxchem_elements : vlx_elements_stmt.
Proof. exact VeloxchemSpec.vlx_elements_exact. Qed.
Print Assumptions veloxchem_elements.

Theorem veloxchem_name : vlx_name_stmt.
Proof. exact VeloxchemSpec.vlx_name. Qed.
Print Assumptions veloxchem_name.

Theorem veloxchem_cartesian_tag_lost : vlx_reread_cartesian_stmt.
Proof. exact VeloxchemSpec.vlx_reread_cartesian. Qed.
Print Assumptions veloxchem_cartesian_tag_lost.

Theorem veloxchem_hand_written_texts : vlx_read_hand_stmt.
Proof. exact VeloxchemSpec.vlx_read_hand. Qed.
Print Assumptions veloxchem_hand_written_texts.

(* ---- the whole Gaussian94 file: electron blocks + ECP blocks (Model/G94Ecp.v).  The reader takes the momenta of the potentials
   from the `-ECP lmax nelec` line and the ORDER of the blocks, never from their titles: the round trip holds exactly when the
   momenta are [L, 0, ..., L-1] for L+1 potentials.  (Imported last: the record G94Ecp.gpot shares its field names with
   NwchemEcp.epot.) ---- *)
From BSE Require Import Model.G94Ecp Proofs.G94EcpDefs.
From BSE Require Proofs.G94EcpSpec.

Theorem gaussian94_ecp_roundtrip : g94_ecp_roundtrip_stmt.
Proof. exact G94EcpSpec.g94_ecp_roundtrip. Qed.
Print Assumptions gaussian94_ecp_roundtrip.

Theorem gaussian94_whole_file_roundtrip : g94_all_roundtrip_stmt.
Proof. exact G94EcpSpec.g94_all_roundtrip. Qed.
Print Assumptions gaussian94_whole_file_roundtrip.

Theorem gaussian94_ecp_input_order_irrelevant : g94_ecp_order_stmt.
Proof. exact G94EcpSpec.g94_ecp_order_thm. Qed.
Print Assumptions gaussian94_ecp_input_order_irrelevant.

Theorem gaussian94_ecp_no_number_lost : g94_ecp_no_number_lost_stmt.
Proof. exact G94EcpSpec.g94_ecp_no_number_lost. Qed.
Print Assumptions gaussian94_ecp_no_number_lost.

(* the known finding "gaussian94 required-read-fails: ecp-am-gap" as a theorem about the model: momenta {0,2,3} are written
   and cannot be read back; the ECP type is not written (spin-orbit comes back scalar) *)
Theorem gaussian94_ecp_noncontiguous_refuted : g94_ecp_noncontiguous_stmt.
Proof. exact G94EcpSpec.g94_ecp_noncontiguous. Qed.
Print Assumptions gaussian94_ecp_noncontiguous_refuted.

Theorem gaussian94_ecp_type_lost : g94_ecp_type_stmt.
Proof. exact G94EcpSpec.g94_ecp_type. Qed.
Print Assumptions gaussian94_ecp_type_lost.

Example gaussian94_ecp_example : g94_ecp_example_stmt.
Proof. exact G94EcpSpec.g94_ecp_example. Qed.
