(* C20 - element, name and angular-momentum notations convert back and forth without loss.
   Only statements, each closed by `exact`, with Print Assumptions beneath.
   `official` is the hand-written IUPAC symbol list of Proofs/C20Finite.v (a specification, not derived
   from the code); data_table, amchar_map_*, aminfo, special_am come from Gen/GenLut.v = lut.py as it is now. *)
From BSE Require Import Model.Val Gen.GenLut Model.Lut Model.Elements Proofs.C20Finite.

Theorem sym_Z_inverse_official :
  forall z, (1 <= z <= 118)%Z ->
    exists s, nth_error official (Z.to_nat (z - 1)) = Some s /\
      element_sym_from_Z z false = inr s /\ element_sym_from_Z z true = inr (capitalize s) /\
      element_Z_from_sym s = inr z /\ element_Z_from_sym (upper s) = inr z /\ element_Z_from_sym (capitalize s) = inr z.
Proof. exact sym_Z_inverse_official_lemma. Qed.
Print Assumptions sym_Z_inverse_official.

Theorem name_Z_inverse :
  forall z, (1 <= z <= 118)%Z ->
    exists n, element_name_from_Z z false = inr n /\ element_Z_from_name n = inr z /\
              element_Z_from_name (upper n) = inr z /\ element_Z_from_name (capitalize n) = inr z.
Proof. exact name_Z_inverse_lemma. Qed.
Print Assumptions name_Z_inverse.

(* every spelling in the table (old systematic symbols, alternative names) resolves to its own Z *)
Theorem table_entries_resolve :
  forall e, In e data_table -> element_Z_from_sym (e_sym e) = inr (e_Z e) /\ element_Z_from_name (e_name e) = inr (e_Z e).
Proof. exact table_entries_resolve_lemma. Qed.
Print Assumptions table_entries_resolve.

Theorem am_inverse :
  forall hij l, (0 <= l < Z.of_nat (String.length (amchar_map hij)))%Z ->
    exists s, amint_to_char [l] hij false = inr s /\ String.length s = 1 /\
              amchar_to_int s hij = inr [l] /\ amchar_to_int (upper s) hij = inr [l].
Proof. exact am_inverse_lemma. Qed.
Print Assumptions am_inverse.

(* the same law for whole lists (combined shells [0;1] = "sp", [0;1;2] = "spd", and lists of any length), by induction
   over the list on top of the singleton sweep; and the converse: whatever letters -> integers accepts, integers ->
   letters maps back to the lower-case spelling *)
From BSE Require Proofs.AmList.
Theorem am_list_inverse :
  forall hij am, Forall (fun l => (0 <= l < Z.of_nat (String.length (amchar_map hij)))%Z) am ->
    exists s, amint_to_char am hij false = inr s /\ String.length s = List.length am /\
              amchar_to_int s hij = inr am /\ amchar_to_int (upper s) hij = inr am.
Proof. exact AmList.am_list_inverse_lemma. Qed.
Print Assumptions am_list_inverse.

Theorem am_letters_inverse :
  forall hij s am, amchar_to_int s hij = inr am -> amint_to_char am hij false = inr (lower s).
Proof. exact AmList.am_letters_inverse_lemma. Qed.
Print Assumptions am_letters_inverse.

(* ... and one unsupported entry anywhere in the list makes the whole conversion an IndexError (no partial string) *)
Theorem am_list_outside_rejected :
  forall hij am, Exists (fun l => (l < 0 \/ Z.of_nat (String.length (amchar_map hij)) <= l)%Z) am ->
    amint_to_char am hij false = inl EIndex.
Proof. exact AmList.am_list_outside_lemma. Qed.
Print Assumptions am_list_outside_rejected.

Example am_list_demo :
  amint_to_char [0; 1; 2]%Z false false = inr "spd" /\ amchar_to_int "SPD" false = inr [0; 1; 2]%Z /\
  amint_to_char [7]%Z false false = inr "k" /\ amint_to_char [7]%Z true false = inr "j".
Proof. vm_compute. repeat split; reflexivity. Qed.

Theorem am_supported_range : String.length amchar_map_hik = 25 /\ String.length amchar_map_hij = 26.
Proof. exact am_sizes. Qed.
Print Assumptions am_supported_range.

Theorem am_outside_rejected :
  forall hij l, (l < 0 \/ Z.of_nat (String.length (amchar_map hij)) <= l)%Z -> amint_to_char [l] hij false = inl EIndex.
Proof. exact amint_out_of_range. Qed.
Print Assumptions am_outside_rejected.

Theorem electron_shells_start_counts :
  forall n, (0 <= n <= 118)%Z ->
    match electron_shells_start n 20 with
    | inl _ => True
    | inr st => covered_from 0 st = n /\ List.length st = 21
    end.
Proof. exact ess_counts_lemma. Qed.
Print Assumptions electron_shells_start_counts.

Theorem electron_shells_start_accepts_closed_cores :
  forall n, In n closed_cores -> exists st, electron_shells_start n 20 = inr st.
Proof. exact ess_accepts_cores_lemma. Qed.
Print Assumptions electron_shells_start_accepts_closed_cores.

Theorem electron_shells_start_bounds :
  forall n m, (n < 0 -> electron_shells_start n m = inl ERuntime)%Z /\ (n > 118 -> electron_shells_start n m = inl ENotImpl)%Z.
Proof. exact ess_bounds. Qed.
Print Assumptions electron_shells_start_bounds.

(* every display name of the shipped index survives the file-name round trip (finite, over Gen/GenIndex.v) *)
From BSE Require Import Gen.GenIndex Proofs.IndexFinite.
Theorem name_filename_roundtrip_shipped :
  forall kv, In kv shipped_index ->
    basis_name_from_filename (transform_basis_name (i_display (snd kv))) = lower (i_display (snd kv)).
Proof. exact shipped_names_roundtrip. Qed.
Print Assumptions name_filename_roundtrip_shipped.

(* ---- compact_elements / expand_elements at the level of the strings they really exchange (Proofs/ElementsDefs.v) ---- *)
From Coq Require Import Sorting.Sorted.
From BSE Require Import Proofs.ElementsDefs.
From BSE Require Proofs.ElementsSpec.

Theorem sort_dedupe_spec : sort_dedupe_spec_stmt.
Proof. exact ElementsSpec.sort_dedupe_spec. Qed.
Print Assumptions sort_dedupe_spec.

Theorem runs_lose_nothing : runs_spec_stmt.
Proof. exact ElementsSpec.runs_spec. Qed.
Print Assumptions runs_lose_nothing.

(* for every non-empty list of atomic numbers in 1..118: expand_elements(compact_elements(S)) = sorted set of S *)
Theorem expand_compact : expand_compact_stmt.
Proof. exact ElementsSpec.expand_compact. Qed.
Print Assumptions expand_compact.

Theorem expand_compact_empty : expand_compact_empty_stmt.
Proof. exact ElementsSpec.expand_compact_empty. Qed.
Print Assumptions expand_compact_empty.

Theorem expand_rejects_separator_clash : expand_rejects_stmt.
Proof. exact ElementsSpec.expand_rejects. Qed.
Print Assumptions expand_rejects_separator_clash.

Theorem expand_rejects_dangling_and_chained : expand_rejects_dangling_stmt.
Proof. exact ElementsSpec.expand_rejects_dangling. Qed.
Print Assumptions expand_rejects_dangling_and_chained.

Example compact_demo : compact_elements [1; 2; 3; 6; 7; 8; 10; 3]%Z = inr (Some "H-Li,C-O,Ne") /\
                       expand_elements (SelStr "H-Li,C-O,Ne") = inr [1; 2; 3; 6; 7; 8; 10]%Z.
Proof. vm_compute. split; reflexivity. Qed.

(* ---- contraction_string: the per-angular-momentum map it prints from holds exactly the sums of primitives and
   contractions over the shells containing that angular momentum (a combined shell counts one contraction per
   angular momentum), and has no entry for an absent one; any number and shape of shells (Proofs/ContractionCount.v) ---- *)
From BSE Require Proofs.ContractionCount.
Theorem contraction_counts :
  forall am shs,
    ContractionCount.clookup am (cmap shs) =
    if ContractionCount.occurs am shs
    then Some (ContractionCount.prims_of am shs, ContractionCount.conts_of am shs) else None.
Proof. exact ContractionCount.cmap_counts_lemma. Qed.
Print Assumptions contraction_counts.

(* 10s4p in 3s2p with an sp shell: shells are (angular momenta, primitives, coefficient rows) *)
Example contraction_demo :
  let shs : list cshell := [([0%Z], 6%nat, 2%nat); ([0%Z; 1%Z], 3%nat, 2%nat); ([0%Z], 1%nat, 1%nat); ([1%Z], 1%nat, 1%nat)] in
  ContractionCount.clookup 0 (cmap shs) = Some (10, 4)%nat /\ ContractionCount.clookup 1 (cmap shs) = Some (4, 2)%nat /\
  ContractionCount.clookup 2 (cmap shs) = None /\
  contraction_string (Some shs) false = inr "(10s,4p) -> [4s,2p]".
Proof. vm_compute. repeat split; reflexivity. Qed.

(* the list contraction_string actually renders (the map sorted by angular momentum): increasing l, every l at most
   once, and for every l exactly the sums above - sorting loses and changes nothing (Proofs/ContractionSort.v) *)
From Coq Require Import Sorting.Sorted.
From BSE Require Proofs.ContractionSort.
Theorem contraction_rendered_map :
  forall am shs,
    Sorted ContractionSort.key_le (sort_cmap (cmap shs)) /\ NoDup (ContractionSort.keys (sort_cmap (cmap shs))) /\
    ContractionCount.clookup am (sort_cmap (cmap shs)) =
    if ContractionCount.occurs am shs
    then Some (ContractionCount.prims_of am shs, ContractionCount.conts_of am shs) else None.
Proof. exact ContractionSort.rendered_map_lemma. Qed.
Print Assumptions contraction_rendered_map.

(* ---- names <-> file names beyond the shipped index.  The round trip is NOT a law of the two functions: a name in
   which '*' is followed by "sl/" comes back different even though it contains no underscore (the closing '_' of
   "_st_" and the opening "sl_" of the next escape read as "_sl_").  No shipped name has that shape
   (name_filename_roundtrip_shipped above); replayed on the implementation:
   basis_name_from_filename(basis_name_to_filename('*sl/')) == '_st/sl_'. ---- *)
Theorem name_filename_roundtrip_general_refuted :
  exists n, infix "_" n = false /\ basis_name_from_filename (transform_basis_name n) <> lower n.
Proof. exists "*sl/". split; [vm_compute; reflexivity | vm_compute; discriminate]. Qed.
Print Assumptions name_filename_roundtrip_general_refuted.

(* ... and the law that does hold for names of any length: when the lower-case name has no underscore and no '*'
   directly followed by "sl" (Proofs/NameRoundtrip.v `good`), file name -> name undoes name -> file name *)
From BSE Require Proofs.NameRoundtrip.
Theorem name_filename_roundtrip_general :
  forall n, NameRoundtrip.good (lower n) = true -> basis_name_from_filename (transform_basis_name n) = lower n.
Proof. exact NameRoundtrip.name_roundtrip_lemma. Qed.
Print Assumptions name_filename_roundtrip_general.

Example name_roundtrip_demo :
  NameRoundtrip.good (lower "6-31G**/STO-3G*") = true /\ transform_basis_name "6-31G**/STO-3G*" = "6-31g_st__st__sl_sto-3g_st_" /\
  NameRoundtrip.good "*sl/" = false.
Proof. vm_compute. repeat split; reflexivity. Qed.

(* hence two names that differ after lower-casing never share a file name (what bundles and add_basis rely on) *)
Theorem filename_injective :
  forall n m, NameRoundtrip.good (lower n) = true -> NameRoundtrip.good (lower m) = true ->
    transform_basis_name n = transform_basis_name m -> lower n = lower m.
Proof. exact NameRoundtrip.filename_injective_lemma. Qed.
Print Assumptions filename_injective.
