(* C16 - the command line prints what the Python API returns.
   A wiring property: the theorems are finite by nature.  cli_spec (Proofs/CliSpec.v) is the hand-written meaning of the
   command line; Gen/GenCli.v is the argparse table, the handler map and the argument wiring extracted from
   cli/bse_cli.py and cli/bse_handlers.py on every run. *)
From BSE Require Import Model.Val Gen.GenCli Model.Cli Proofs.CliSpec.

(* every documented command-line argument reaches exactly the documented library parameter, exactly once, with the
   documented polarity (--noheader -> header negated) *)
Theorem cli_wiring : forall sub opt callee param neg,
  In (sub, opt, callee, param, neg) cli_spec -> routes sub opt = [(callee, param, neg)].
Proof. exact cli_wiring_lemma. Qed.
Print Assumptions cli_wiring.

Theorem cli_defaults_off : defaults_ok "get-basis" && defaults_ok "get-refs" && defaults_ok "list-basis-sets" = true.
Proof. exact cli_defaults. Qed.
Print Assumptions cli_defaults_off.

Theorem cli_no_argument_ignored : forallb all_routed routed_subcommands = true.
Proof. exact cli_nothing_ignored. Qed.
Print Assumptions cli_no_argument_ignored.

Theorem cli_every_subcommand_handled :
  forallb (fun s => match assoc (fst s) cli_handler_map with Some _ => true | None => false end) cli_subcommands = true /\
  forallb (fun h => match assoc (fst h) cli_subcommands with Some _ => true | None => false end) cli_handler_map = true.
Proof. exact cli_handlers_complete. Qed.
Print Assumptions cli_every_subcommand_handled.

Example route_demo : routes "get-basis" "--noheader" = [("api.get_basis", "header", true)].
Proof. vm_compute. reflexivity. Qed.
