(* C12 - augmentation only adds, calendarisation only removes (theorems added as they are proved) *)
From BSE Require Import Model.Val Model.Augment.
