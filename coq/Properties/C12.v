(* C12 - augmentation only adds, calendarisation only removes, by the documented rules.  Statements: Proofs/AugmentDefs.v. *)
From Coq Require Import Sorting.Permutation Sorting.Sorted.
From BSE Require Import Model.Val Model.Num Model.Basis Model.Manip Model.Augment Proofs.AugmentDefs.
From BSE Require Proofs.AugmentSpec.

Theorem sorted_exponents_spec : sorted_exponents_spec_stmt.
Proof. exact AugmentSpec.sorted_exponents_spec. Qed.
Print Assumptions sorted_exponents_spec.

Theorem free_primitives_spec : free_primitives_spec_stmt.
Proof. exact AugmentSpec.free_primitives_spec. Qed.
Print Assumptions free_primitives_spec.

(* the new exponents x(x/y)^i are positive fractions; on the diffuse side (0 < x < y) each lies strictly below the previous one
   and below x; on the steep side (x > y > 0) strictly above *)
Theorem aug_value_positive : aug_value_den_stmt.
Proof. exact AugmentSpec.aug_value_den. Qed.
Print Assumptions aug_value_positive.

Theorem aug_outside_diffuse : aug_outside_diffuse_stmt.
Proof. exact AugmentSpec.aug_outside_diffuse. Qed.
Print Assumptions aug_outside_diffuse.

Theorem aug_outside_steep : aug_outside_steep_stmt.
Proof. exact AugmentSpec.aug_outside_steep. Qed.
Print Assumptions aug_outside_steep.

Theorem aug_value_zero : aug_value_zero_stmt.
Proof. exact AugmentSpec.aug_value_zero. Qed.
Print Assumptions aug_value_zero.

(* a momentum gets nothing, or - exactly when its two outermost primitives are free - exactly n unit shells x(x/y)^i, i=1..n *)
Theorem augment_shell_spec : augment_shell_spec_stmt.
Proof. exact AugmentSpec.augment_shell_spec. Qed.
Print Assumptions augment_shell_spec.

Theorem augment_shell_count : augment_shell_count_stmt.
Proof. exact AugmentSpec.augment_shell_count. Qed.
Print Assumptions augment_shell_count.

Theorem augment_equal_outer_refused : augment_equal_outer_refused_stmt.
Proof. exact AugmentSpec.augment_equal_outer_refused. Qed.
Print Assumptions augment_equal_outer_refused.

(* calendarisation: only a most-diffuse primitive is ever removed, decided by the momentum alone *)
Theorem remove_primitive_spec : remove_primitive_spec_stmt.
Proof. exact AugmentSpec.remove_primitive_spec. Qed.
Print Assumptions remove_primitive_spec.

Theorem element_remove_diffuse_spec : element_remove_diffuse_spec_stmt.
Proof. exact AugmentSpec.element_remove_diffuse_spec. Qed.
Print Assumptions element_remove_diffuse_spec.

Theorem truhlar_refuses : truhlar_refuses_stmt.
Proof. exact AugmentSpec.truhlar_refuses. Qed.
Print Assumptions truhlar_refuses.

Theorem truhlar_unknown_month : truhlar_unknown_month_stmt.
Proof. exact AugmentSpec.truhlar_unknown_month. Qed.
Print Assumptions truhlar_unknown_month.

Theorem month_offsets : month_offsets_stmt.
Proof. exact AugmentSpec.month_offsets. Qed.
Print Assumptions month_offsets.

Example aug_demo :
  augment_shell 2 false (mkShell "gto" "" [0%Z] ["10.0"; "2.0"; "0.5"] [["0.3"; "0.7"; "0.0"]; ["0.0"; "1.0"; "0.0"]; ["0.0"; "0.0"; "1.0"]])
  = inr [ {| ns_ftype := "gto"; ns_region := ""; ns_am := [0%Z]; ns_exp := (250, 2000)%Z |};
          {| ns_ftype := "gto"; ns_region := ""; ns_am := [0%Z]; ns_exp := (12500, 400000)%Z |} ].
Proof. vm_compute. reflexivity. Qed.

(* successive months form a descending chain: what k months before jul remove from an element, every k' >= k months remove
   in exactly the same way (and each output shell is the input shell or the input shell minus one primitive) *)
From BSE Require Proofs.TruhlarChain.
Theorem truhlar_chain : TruhlarChain.truhlar_chain_stmt.
Proof. exact TruhlarChain.truhlar_chain. Qed.
Print Assumptions truhlar_chain.

(* the same with 'all' (what H and He lose) on top of the chain: it counts as max_am + 1 months *)
Theorem truhlar_chain_all : TruhlarChain.truhlar_chain_all_stmt.
Proof. exact TruhlarChain.truhlar_chain_all. Qed.
Print Assumptions truhlar_chain_all.

(* H and He ('all'): every shell of momentum >= 0 loses exactly its most diffuse primitive, whatever the shell list *)
From BSE Require Proofs.TruhlarAll.
Theorem truhlar_all_removes_every_momentum : TruhlarAll.remove_all_stmt.
Proof. exact TruhlarAll.remove_all. Qed.
Print Assumptions truhlar_all_removes_every_momentum.

Definition chain_demo_shells : list sshell :=
  [ mkShell "gto" "" [0%Z] ["10.0"; "0.5"] [["1.0"; "0.0"]; ["0.0"; "1.0"]];
    mkShell "gto" "" [1%Z] ["3.0"; "0.2"] [["1.0"; "0.0"]; ["0.0"; "1.0"]];
    mkShell "gto" "" [2%Z] ["1.5"; "0.3"] [["1.0"; "0.0"]; ["0.0"; "1.0"]] ].
Example chain_demo :
  exists o1 o2, element_remove_diffuse chain_demo_shells (Some 1%Z) = inr o1 /\
                element_remove_diffuse chain_demo_shells (Some 2%Z) = inr o2 /\
                nth_error o1 1 = nth_error chain_demo_shells 1 /\ nth_error o2 1 <> nth_error chain_demo_shells 1 /\
                nth_error o1 2 = nth_error o2 2 /\ nth_error o1 2 <> nth_error chain_demo_shells 2.
Proof. eexists. eexists. vm_compute. repeat split; try reflexivity; discriminate. Qed.
