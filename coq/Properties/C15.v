(* C15 - a bundle is exactly the API output for everything the format supports.
   get_basis / get_references / notes are inputs of the model (the versions for which both calls succeed, per index key);
   what the theorems fix is which members an archive has and what they contain. *)
From BSE Require Import Model.Val Model.Elements Model.Compose Model.Bundle Proofs.BundleSpec.

Theorem bundle_has_readme_first : forall fmt reffmt ext refext readme items fams,
  hd_error (bundle_members fmt reffmt ext refext readme items fams) = Some (path_join (subdir_of fmt reffmt) "README.txt", readme).
Proof. exact bundle_readme_first. Qed.
Print Assumptions bundle_has_readme_first.

Theorem bundle_item_members : forall subdir ext refext it m,
  In m (item_members subdir ext refext it) <->
  (exists ver a b, In (ver, (a, b)) (b_versions it) /\
                   (m = (basis_path subdir (b_name it) ver ext, a) \/ m = (ref_path subdir (b_name it) ver refext, b))) \/
  (b_notes it <> "" /\ m = (notes_path subdir (b_name it), b_notes it)).
Proof. exact item_members_spec. Qed.
Print Assumptions bundle_item_members.

Theorem bundle_item_count : forall subdir ext refext it,
  List.length (item_members subdir ext refext it) = 2 * List.length (b_versions it) + (if nonempty_str (b_notes it) then 1 else 0).
Proof. exact item_members_count. Qed.
Print Assumptions bundle_item_count.

Theorem bundle_members_exactly : forall fmt reffmt ext refext readme items fams m,
  In m (bundle_members fmt reffmt ext refext readme items fams) <->
  m = (path_join (subdir_of fmt reffmt) "README.txt", readme) \/
  (exists it, In it items /\ In m (item_members (subdir_of fmt reffmt) ext refext it)) \/
  (exists fam txt, In (fam, txt) fams /\ txt <> "" /\ m = (path_join (subdir_of fmt reffmt) (fam +++ ".family_notes"), txt)).
Proof. exact bundle_members_spec. Qed.
Print Assumptions bundle_members_exactly.

Theorem bundle_unexpressible_absent : forall subdir ext refext it,
  b_versions it = [] -> b_notes it = "" -> item_members subdir ext refext it = [].
Proof. exact unexpressible_absent. Qed.
Print Assumptions bundle_unexpressible_absent.

(* the file names of all shipped basis sets map back to their names: C20 name_filename_roundtrip_shipped *)
Example bundle_demo :
  map fst (bundle_members "nwchem" "bib" ".nw" ".bib" "R" [{| b_name := "6-31g_st_"; b_versions := [("1", ("B", "F"))]; b_notes := "N" |}] [("pople", "P"); ("sto", "")])
  = ["basis_set_bundle-nwchem-bib/README.txt"; "basis_set_bundle-nwchem-bib/6-31g_st_.1.nw"; "basis_set_bundle-nwchem-bib/6-31g_st_.1.ref.bib";
     "basis_set_bundle-nwchem-bib/6-31g_st_.notes"; "basis_set_bundle-nwchem-bib/pople.family_notes"].
Proof. vm_compute. reflexivity. Qed.
