(* C08 - every basis handed out is well-formed.
   Statements are in Proofs/C08Defs.v.  get_basis_pipeline is Gen/GenApi.v = the option pipeline of api.get_basis as it
   is written now; run_get_basis_options interprets it over the model of manip.py (Model/Pipeline.v). *)
From BSE Require Import Model.Val Model.Num Model.Basis Model.Manip Model.ManipS Model.Pipeline Gen.GenApi Gen.GenConsts.
From BSE Require Import Proofs.FSDefs Proofs.C08Defs Proofs.NumDefs Proofs.NumInstance Proofs.PrunePost Proofs.PipelineFS Proofs.WfCompute.

(* whatever rectangular, not entirely zero shells go in, pruning establishes: exponents pairwise different by value, every
   primitive used, no all-zero contraction, rectangular coefficients, and no two structurally equal shells *)
Theorem prune_establishes_the_rules : prune_post_stmt is0_s same_s String.eqb.
Proof. exact (@PrunePost.prune_post _ _ _ _ _ _ _ PipelineFS.K). Qed.
Print Assumptions prune_establishes_the_rules.

Theorem prune_basis_establishes_the_rules : prune_basis_post_stmt is0_s same_s String.eqb.
Proof. exact (@PrunePost.prune_basis_post _ _ _ _ _ _ _ PipelineFS.K). Qed.
Print Assumptions prune_basis_establishes_the_rules.

(* all 8 subsets of {uncontract_general, uncontract_spdf, make_general} through the translated pipeline: same function set,
   well-formed, pruned *)
Theorem pipeline_three_flags : pipeline3_FS_stmt.
Proof. exact PipelineFS.pipeline3_FS. Qed.
Print Assumptions pipeline_three_flags.

(* all 32 subsets of the five flags other than optimize_general: well-formed and pruned output, same elements, every field
   other than the shells untouched *)
Theorem pipeline_five_flags_wf : pipeline5_wf_stmt.
Proof. exact PipelineFS.pipeline5_wf. Qed.
Print Assumptions pipeline_five_flags_wf.

Theorem pipeline_uncontract_segmented : pipeline_unc_seg_stmt.
Proof. exact PipelineFS.pipeline_unc_seg. Qed.
Print Assumptions pipeline_uncontract_segmented.

Definition demo_shells : list (shell string) :=
  [ mkShell "gto" "" [0%Z; 1%Z] ["5.0"; "1.2"] [["0.1"; "0.9"]; ["0.2"; "0.8"]];
    mkShell "gto" "" [0%Z] ["30.0"; "5.00"; "0.4"] [["0.3"; "0.7"; "0.0"]; ["0.0"; "0.0"; "1.0"]];
    mkShell "gto_spherical" "" [2%Z] ["0.8"] [["1.0"]] ].
Example demo_wf : wf_shells is0_s demo_shells /\ Forall (fused_low 0 (N:=string)) demo_shells.
Proof. split; [apply wf_shellsb_ok | apply fused_lowb_ok]; vm_compute; reflexivity. Qed.
