(* C08 - every basis handed out is well-formed (theorems added as they are proved) *)
From BSE Require Import Model.Val Model.Basis Model.Manip.
