(* C02 - re-contraction operations preserve the set of basis functions exactly.
   Statements only (their text is in Proofs/FSDefs.v and Proofs/SortDefs.v), each closed by `exact`, instantiated at the
   decimal-string carrier that is extracted and run against the implementation (is0_s / same_s / String.eqb / leb_v of
   Model/Num.v and the literals translated from manip.py into Gen/GenConsts.v). *)
From BSE Require Import Model.Val Model.Num Model.Basis Model.Manip Model.ManipS Model.Sort Gen.GenConsts.
From BSE Require Import Proofs.FSDefs Proofs.SortDefs Proofs.NumDefs Proofs.NumInstance Proofs.NumOrder.
From BSE Require Import Proofs.PruneFS Proofs.GeneralFS Proofs.SortFS Proofs.WfCompute.

(* the carrier hypotheses hold for decimal strings *)
Theorem decimal_strings_are_a_carrier : num_instance_stmt.
Proof. exact num_instance. Qed.
Print Assumptions decimal_strings_are_a_carrier.

(* K, KP, KP1: the carrier instance and the two prune lemmas at that instance (abbreviations, not statements) *)
Definition K : carrier_ok is0_s same_s String.eqb lit_make_general_zero lit_unc_seg_one lit_optimize_zero := num_instance.
Definition KP : prune_shells_FS_stmt is0_s same_s String.eqb := @PruneFS.prune_shells_FS _ _ _ _ _ _ _ K.
Definition KP1 : prune_shell_FS_stmt is0_s same_s := @PruneFS.prune_shell_FS _ _ _ _ _ _ _ K.

Theorem prune_basis_FS : prune_basis_FS_stmt is0_s same_s String.eqb.
Proof. exact (@GeneralFS.prune_basis_FS _ _ _ _ KP). Qed.
Print Assumptions prune_basis_FS.

Theorem uncontract_general_FS : uncontract_general_FS_stmt is0_s same_s String.eqb.
Proof. exact (@GeneralFS.uncontract_general_FS _ _ _ _ KP). Qed.
Print Assumptions uncontract_general_FS.

Theorem uncontract_spdf_FS : uncontract_spdf_FS_stmt is0_s same_s.
Proof. exact (@GeneralFS.uncontract_spdf_FS _ is0_s same_s). Qed.
Print Assumptions uncontract_spdf_FS.

Theorem make_general_FS : make_general_FS_stmt is0_s same_s String.eqb lit_make_general_zero.
Proof. exact (@GeneralFS.make_general_FS _ _ _ _ _ _ _ K KP). Qed.
Print Assumptions make_general_FS.

(* on shells whose exponents are pairwise distinct prune_shell cannot raise *)
Theorem prune_shell_total : prune_shell_total_stmt is0_s same_s.
Proof. exact (@PruneFS.prune_shell_total _ is0_s same_s ""). Qed.
Print Assumptions prune_shell_total.

(* shape promises *)
Theorem uncontract_general_shape : unc_gen_shape_stmt is0_s same_s String.eqb.
Proof. exact (@GeneralFS.unc_gen_shape _ _ _ String.eqb KP1). Qed.
Print Assumptions uncontract_general_shape.

Theorem uncontract_spdf_shape : unc_spdf_shape_stmt is0_s.
Proof. exact (@GeneralFS.unc_spdf_shape _ is0_s). Qed.
Print Assumptions uncontract_spdf_shape.

Theorem uncontract_spdf_total : unc_spdf_total_stmt is0_s.
Proof. exact (@GeneralFS.unc_spdf_total _ is0_s). Qed.
Print Assumptions uncontract_spdf_total.

Theorem make_general_shape : make_general_shape_stmt is0_s same_s String.eqb lit_make_general_zero.
Proof. exact (@GeneralFS.make_general_shape _ _ _ _ _ _ _ K). Qed.
Print Assumptions make_general_shape.

(* sorting: the contraction order (from the float key of sort.py) is any permutation of the contraction indices *)
Theorem sort_shells_FS : sort_shells_FS_stmt is0_s same_s leb_v "".
Proof. exact (@SortFS.sort_shells_FS _ is0_s same_s leb_v ""). Qed.
Print Assumptions sort_shells_FS.

Theorem sort_shell_exponents_decreasing : sort_shell_sorted_stmt leb_v "".
Proof. exact (@SortFS.sort_shell_sorted _ leb_v "" leb_v_order). Qed.
Print Assumptions sort_shell_exponents_decreasing.

Theorem sort_shells_by_increasing_momentum : sort_shells_order_stmt leb_v "".
Proof. exact (@SortFS.sort_shells_order _ leb_v ""). Qed.
Print Assumptions sort_shells_by_increasing_momentum.

Theorem sort_shell_idempotent : sort_shell_idem_stmt leb_v "".
Proof. exact (@SortFS.sort_shell_idem _ leb_v ""). Qed.
Print Assumptions sort_shell_idempotent.

(* the extracted order agrees with float(a) <= float(b) wherever both strings parse *)
Theorem leb_v_is_leb_s_on_numbers :
  forall a b x y, parse_num a = Some x -> parse_num b = Some y -> leb_v a b = leb_s a b.
Proof. exact leb_v_agrees. Qed.
Print Assumptions leb_v_is_leb_s_on_numbers.

(* non-vacuity: a concrete basis element with a fused sp shell, a shared exponent written in two notations and a
   general contraction with a zero-padded column and a free primitive satisfies the hypotheses *)
Definition demo_shells : list (shell string) :=
  [ mkShell "gto" "" [0%Z; 1%Z] ["5.0"; "1.2"] [["0.1"; "0.9"]; ["0.2"; "0.8"]];
    mkShell "gto" "" [0%Z] ["30.0"; "5.00"; "0.4"] [["0.3"; "0.7"; "0.0"]; ["0.0"; "0.0"; "1.0"]];
    mkShell "gto_spherical" "" [2%Z] ["0.8"] [["1.0"]] ].
Example demo_wf : wf_shells is0_s demo_shells /\ Forall (fused_low 0 (N:=string)) demo_shells.
Proof. split; [apply wf_shellsb_ok | apply fused_lowb_ok]; vm_compute; reflexivity. Qed.
