(* C02 - re-contraction operations preserve the set of basis functions exactly. (theorems added below as they are proved) *)
From BSE Require Import Model.Val Model.Basis Model.Manip.
