(* C13 - generated auxiliary basis sets (theorems added as they are proved) *)
From BSE Require Import Model.Val Model.Aux.
