(* C13 - generated auxiliary basis sets depend only on the orbital function space.
   The theorems cover the logic of AutoAux / AutoABS over exact fractions (Model/Aux.v) with the published tables and
   thresholds translated from manip.py (Gen/GenConsts.v).  _partial by nature: the float pipeline that produces the
   per-momentum inputs (ints.gto_R_contr, gamma) and the representation invariance of the implementation itself are
   explored by the harness, not proved. *)
From Coq Require Import Sorting.Permutation.
From BSE Require Import Model.Val Gen.GenConsts Model.Aux Proofs.AuxDefs.
From BSE Require Proofs.AuxSpec.

Theorem ladder_spec : ladder_spec_stmt.
Proof. exact AuxSpec.ladder_spec. Qed.
Print Assumptions ladder_spec.

Theorem ladder_terminates : ladder_terminates_stmt.
Proof. exact AuxSpec.ladder_terminates. Qed.
Print Assumptions ladder_terminates.

Theorem ladder_fuel_monotone : ladder_fuel_monotone_stmt.
Proof. exact AuxSpec.ladder_fuel_monotone. Qed.
Print Assumptions ladder_fuel_monotone.

Theorem published_thresholds : thresholds_stmt.
Proof. exact AuxSpec.thresholds. Qed.
Print Assumptions published_thresholds.

Theorem published_tables : tables_stmt.
Proof. exact AuxSpec.tables. Qed.
Print Assumptions published_tables.

Theorem autoaux_caps : autoaux_caps_stmt.
Proof. exact AuxSpec.autoaux_caps. Qed.
Print Assumptions autoaux_caps.

Theorem abs_groups_partition : abs_groups_partition_stmt.
Proof. exact AuxSpec.abs_groups_partition. Qed.
Print Assumptions abs_groups_partition.

Theorem abs_groups_cap : abs_groups_cap_stmt.
Proof. exact AuxSpec.abs_groups_cap. Qed.
Print Assumptions abs_groups_cap.

Example ladder_demo : ladder 10 (1, 1)%Z (5, 1)%Z (9, 5)%Z = Some [(1, 1); (9, 5); (81, 25); (729, 125)]%Z.
Proof. vm_compute. reflexivity. Qed.
