(* C04 - every writer emits every number of the basis, unrounded.
   PARTIAL by design (DESIGN.md).  The writers are modelled up to their layout code: the function-type gate and the
   normalisation pipeline each writer runs before printing are translated from writers/*.py on every run (Gen/GenWriters.v) and
   executed by the manipulation model; the numeric table printer (printing.write_matrix) is modelled in full.  Proved here:
   the pipeline of every writer but veloxchem only re-contracts (function set kept, so no exponent or coefficient can
   disappear before printing), the gate refuses what a format cannot express, the table printer emits every cell as its own
   token with all digits.  The layout code between the two is decided by exploration (vlib/props/c04.py): every predicted
   number must be in the text by exact decimal value. *)
From BSE Require Import Model.Val Model.Manip Model.Text Model.Matrix Model.WriterPipe Gen.GenWriters.
From BSE Require Import Proofs.WriterPipeDefs Proofs.MatrixDefs.
From BSE Require Proofs.WriterPipeSpec Proofs.MatrixSpec.

Theorem wsteps_FS : wsteps_FS_stmt.
Proof. exact WriterPipeSpec.wsteps_FS. Qed.
Print Assumptions wsteps_FS.

(* finite, over the translated writer table: veloxchem is the only writer whose pipeline does more than re-contract
   (it drops redundant general-contraction primitives: optimize_general) *)
Theorem recontracting_writers : recontracting_writers_stmt.
Proof. exact WriterPipeSpec.recontracting_writers. Qed.
Print Assumptions recontracting_writers.

Theorem writer_expected_complete : writer_expected_complete_stmt.
Proof. exact WriterPipeSpec.writer_expected_complete. Qed.
Print Assumptions writer_expected_complete.

Theorem gate_rejects : gate_rejects_stmt.
Proof. exact WriterPipeSpec.gate_rejects. Qed.
Print Assumptions gate_rejects.

Theorem unknown_format_rejected : unknown_format_rejected_stmt.
Proof. exact WriterPipeSpec.unknown_format_rejected. Qed.
Print Assumptions unknown_format_rejected.

(* the table printer: no cell is dropped, merged or shortened *)
Theorem write_row_tokens : write_row_tokens_stmt.
Proof. exact MatrixSpec.write_row_tokens. Qed.
Print Assumptions write_row_tokens.

Theorem floating_is_cell : floating_is_cell_stmt.
Proof. exact MatrixSpec.floating_is_cell. Qed.
Print Assumptions floating_is_cell.

Theorem norm_keeps_digits : norm_keeps_digits_stmt.
Proof. exact MatrixSpec.norm_keeps_digits. Qed.
Print Assumptions norm_keeps_digits.

(* one format in full (the NWChem electron section, Model/Nwchem.v): every exponent and coefficient string of the normalised
   basis is a token of some line of the text *)
From BSE Require Import Model.Nwchem Proofs.NwchemDefs.
From BSE Require Proofs.NwchemSpec.
Theorem nwchem_no_number_lost : nw_no_number_lost_stmt.
Proof. exact NwchemSpec.nw_no_number_lost. Qed.
Print Assumptions nwchem_no_number_lost.

Theorem nwchem_write_total : nw_write_total_stmt.
Proof. exact NwchemSpec.nw_write_total. Qed.
Print Assumptions nwchem_write_total.

From BSE Require Import Model.G94 Proofs.G94Defs.
From BSE Require Proofs.G94Spec.
(* and the Gaussian94 electron part (Model/G94.v): every number, with the exponent marker the writer prints (D), is a token *)
Theorem gaussian94_no_number_lost : g94_no_number_lost_stmt.
Proof. exact G94Spec.g94_no_number_lost. Qed.
Print Assumptions gaussian94_no_number_lost.

Theorem gaussian94_write_total : g94_write_total_stmt.
Proof. exact G94Spec.g94_write_total. Qed.
Print Assumptions gaussian94_write_total.

From BSE Require Import Model.Turbomole Proofs.TurbomoleDefs Model.NwchemEcp Proofs.NwchemEcpDefs.
From BSE Require Proofs.TurbomoleSpec Proofs.NwchemEcpSpec.
(* the Turbomole electron section and the NWChem ECP section (gaussian exponents, coefficients, r exponents, electron counts) *)
Theorem turbomole_no_number_lost : tm_no_number_lost_stmt.
Proof. exact TurbomoleSpec.tm_no_number_lost. Qed.
Print Assumptions turbomole_no_number_lost.

Theorem nwchem_ecp_no_number_lost : nw_ecp_no_number_lost_stmt.
Proof. exact NwchemEcpSpec.nw_ecp_no_number_lost. Qed.
Print Assumptions nwchem_ecp_no_number_lost.

Theorem nwchem_whole_file_write_total : nw_all_write_total_stmt.
Proof. exact NwchemEcpSpec.nw_all_write_total. Qed.
Print Assumptions nwchem_whole_file_write_total.

Example some_writer_recontracts : exists w, assoc "nwchem" writer_map = Some w /\ forallb recontracting (w_pipeline w) = true /\ w_pipeline w <> [].
Proof. eexists; split; [vm_compute; reflexivity|]. split; [vm_compute; reflexivity | discriminate]. Qed.

From BSE Require Import Model.TurbomoleEcp Proofs.TurbomoleEcpDefs Model.GamessUs Proofs.GamessUsDefs.
From BSE Require Proofs.TurbomoleEcpSpec Proofs.GamessUsSpec.
(* the whole Turbomole file and the GAMESS-US electron part *)
Theorem turbomole_whole_file_no_number_lost : tmecp_no_number_lost_stmt.
Proof. exact TurbomoleEcpSpec.tmecp_no_number_lost. Qed.
Print Assumptions turbomole_whole_file_no_number_lost.

Theorem gamess_us_no_number_lost : gus_no_number_lost_stmt.
Proof. exact GamessUsSpec.gus_no_number_lost. Qed.
Print Assumptions gamess_us_no_number_lost.

From BSE Require Import Model.Dalton Proofs.DaltonDefs Model.DaltonEcp Proofs.DaltonEcpDefs Model.Libmol Proofs.LibmolDefs.
From BSE Require Proofs.DaltonSpec Proofs.DaltonEcpSpec Proofs.LibmolSpec.
(* Dalton (whole file) and libmol (electron part; zero coefficients outside the printed range are legitimately left out) *)
Theorem dalton_no_number_lost : dal_no_number_lost_stmt.
Proof. exact DaltonSpec.dal_no_number_lost. Qed.
Print Assumptions dalton_no_number_lost.

Theorem dalton_ecp_no_number_lost : dal_ecp_no_number_lost_stmt.
Proof. exact DaltonEcpSpec.dal_ecp_no_number_lost. Qed.
Print Assumptions dalton_ecp_no_number_lost.

(* an electron count >= 1000 is glued to the number in front of it ('{:4d}{:4d}'): not a token of the text *)
Theorem dalton_ecp_glued_count_refuted : dal_ecp_glued_counterexample_stmt.
Proof. exact DaltonEcpSpec.dal_ecp_glued_counterexample. Qed.
Print Assumptions dalton_ecp_glued_count_refuted.

Theorem libmol_no_number_lost : lmol_no_number_lost_stmt.
Proof. exact LibmolSpec.lmol_no_number_lost. Qed.
Print Assumptions libmol_no_number_lost.

From BSE Require Import Model.Cp2k Proofs.Cp2kDefs Model.Cp2kEcp Proofs.Cp2kEcpDefs Model.Genbas Proofs.GenbasDefs Model.Molpro Proofs.MolproDefs Model.Demon2k Proofs.Demon2kDefs Model.Demon2kEcp Proofs.Demon2kEcpDefs.
From BSE Require Proofs.Cp2kSpec Proofs.Cp2kEcpSpec Proofs.GenbasSpec Proofs.MolproSpec Proofs.Demon2kSpec Proofs.Demon2kEcpSpec.
(* CP2K (whole file), CFOUR (electron part), Molpro (electron part: the zeros outside the printed range of a contraction are
   legitimately left out), deMon2k (whole file) *)
Theorem cp2k_no_number_lost : cp2k_no_number_lost_stmt.
Proof. exact Cp2kSpec.cp2k_no_number_lost. Qed.
Print Assumptions cp2k_no_number_lost.

Theorem cp2k_ecp_no_number_lost : cp2k_ecp_no_number_lost_stmt.
Proof. exact Cp2kEcpSpec.cp2k_ecp_no_number_lost. Qed.
Print Assumptions cp2k_ecp_no_number_lost.

Theorem cfour_no_number_lost : c4_no_number_lost_stmt.
Proof. exact GenbasSpec.c4_no_number_lost. Qed.
Print Assumptions cfour_no_number_lost.

Theorem molpro_no_number_lost : mpro_no_number_lost_stmt.
Proof. exact MolproSpec.mpro_no_number_lost. Qed.
Print Assumptions molpro_no_number_lost.

Theorem demon2k_no_number_lost : d2k_no_number_lost_stmt.
Proof. exact Demon2kSpec.d2k_no_number_lost. Qed.
Print Assumptions demon2k_no_number_lost.

Theorem demon2k_ecp_no_number_lost : d2k_ecp_no_number_lost_stmt.
Proof. exact Demon2kEcpSpec.d2k_ecp_no_number_lost. Qed.
Print Assumptions demon2k_ecp_no_number_lost.

From BSE Require Import Model.Molcas Proofs.MolcasDefs Model.MolcasEcp Proofs.MolcasEcpDefs Model.GamessUsEcp Proofs.GamessUsEcpDefs Model.GenbasEcp Proofs.GenbasEcpDefs.
From BSE Require Proofs.MolcasSpec Proofs.MolcasEcpSpec Proofs.GamessUsEcpSpec Proofs.GenbasEcpSpec.
(* Molcas (both writers), and the whole files of GAMESS-US and CFOUR *)
Theorem molcas_inline_no_number_lost : mcas_no_number_lost_stmt.
Proof. exact MolcasSpec.mcas_no_number_lost. Qed.
Print Assumptions molcas_inline_no_number_lost.

Theorem molcas_library_no_number_lost : mcasl_no_number_lost_stmt.
Proof. exact MolcasSpec.mcasl_no_number_lost. Qed.
Print Assumptions molcas_library_no_number_lost.

Theorem molcas_library_ecp_no_number_lost : mcasl_ecp_no_number_lost_stmt.
Proof. exact MolcasEcpSpec.mcasl_ecp_no_number_lost. Qed.
Print Assumptions molcas_library_ecp_no_number_lost.

Theorem gamess_us_whole_file_no_number_lost : gus_all_no_number_lost_stmt.
Proof. exact GamessUsEcpSpec.gus_all_no_number_lost. Qed.
Print Assumptions gamess_us_whole_file_no_number_lost.

Theorem cfour_whole_file_no_number_lost : c4ecp_no_number_lost_stmt.
Proof. exact GenbasEcpSpec.c4ecp_no_number_lost. Qed.
Print Assumptions cfour_whole_file_no_number_lost.

(* VeloxChem (electron shells only): the writer is total and prints every number of the normalised basis as a token *)
From BSE Require Import Model.Veloxchem Proofs.VeloxchemDefs.
From BSE Require Proofs.VeloxchemSpec.

Theorem veloxchem_write_total : vlx_write_total_stmt.
Proof. exact VeloxchemSpec.vlx_write_total. Qed.
Print Assumptions veloxchem_write_total.

Theorem veloxchem_no_number_lost : vlx_no_number_lost_stmt.
Proof. exact VeloxchemSpec.vlx_no_number_lost. Qed.
Print Assumptions veloxchem_no_number_lost.

(* further writers without a reader, modelled from the code: ORCA, PQS, GAMESS-UK (Model/Orca.v, Pqs.v, GamessUk.v), Jaguar,
   FHI-aims, BDF (Model/Jaguar.v, Fhiaims.v, Bdf.v).  Each is total on well-formed input and prints every exponent, coefficient,
   ECP number, r exponent and electron count as a token - with these exceptions, each proved: PQS glues the shell letter to a
   first exponent with >= 10 characters before the decimal point (aug-cc-pVTZ-J Sc..Zn: no digit is lost, but the number is not
   a token of its own: pqs_no_digit_lost / pqs_shell_letter_glued); FHI-aims leaves out the coefficient of a one-primitive
   shell (which the property does not ask for) and rejects every ECP basis at the gate; Jaguar prints an element's ECP only if
   the element also has electron shells (the recorded known finding, here as jaguar_ecp_only_lost for every input). *)
From BSE Require Import Model.Orca Proofs.OrcaDefs Model.Pqs Proofs.PqsDefs Model.GamessUk Proofs.GamessUkDefs.
From BSE Require Import Model.Jaguar Proofs.JaguarDefs Model.Fhiaims Proofs.FhiaimsDefs Model.Bdf Proofs.BdfDefs.
From BSE Require Proofs.OrcaSpec Proofs.PqsSpec Proofs.GamessUkSpec Proofs.JaguarSpec Proofs.FhiaimsSpec Proofs.BdfSpec.

Theorem orca_write_total : orca_write_total_stmt.
Proof. exact OrcaSpec.orca_write_total. Qed.
Print Assumptions orca_write_total.

Theorem orca_no_number_lost : orca_no_number_lost_stmt.
Proof. exact OrcaSpec.orca_no_number_lost. Qed.
Print Assumptions orca_no_number_lost.

Theorem orca_ecp_no_number_lost : orca_ecp_no_number_lost_stmt.
Proof. exact OrcaSpec.orca_ecp_no_number_lost. Qed.
Print Assumptions orca_ecp_no_number_lost.

Theorem orca_ecp_two_coefficient_columns_raise : orca_ecp_columns_stmt.
Proof. exact OrcaSpec.orca_ecp_columns. Qed.
Print Assumptions orca_ecp_two_coefficient_columns_raise.

Theorem orca_example : orca_example_stmt.
Proof. exact OrcaSpec.orca_example. Qed.
Print Assumptions orca_example.

Theorem pqs_write_total : pqs_write_total_stmt.
Proof. exact PqsSpec.pqs_write_total. Qed.
Print Assumptions pqs_write_total.

Theorem pqs_no_number_lost_when_first_exponent_fits : pqs_no_number_lost_partial_stmt.
Proof. exact PqsSpec.pqs_no_number_lost_partial. Qed.
Print Assumptions pqs_no_number_lost_when_first_exponent_fits.

Theorem pqs_no_digit_lost : pqs_no_digit_lost_stmt.
Proof. exact PqsSpec.pqs_no_digit_lost. Qed.
Print Assumptions pqs_no_digit_lost.

Theorem pqs_shell_letter_glued : ~ pqs_no_number_lost_stmt.
Proof. exact PqsSpec.pqs_no_number_lost_counterexample. Qed.
Print Assumptions pqs_shell_letter_glued.

Theorem pqs_ecp_no_number_lost : pqs_ecp_no_number_lost_stmt.
Proof. exact PqsSpec.pqs_ecp_no_number_lost. Qed.
Print Assumptions pqs_ecp_no_number_lost.

Theorem pqs_example : pqs_example_stmt.
Proof. exact PqsSpec.pqs_example. Qed.
Print Assumptions pqs_example.

Theorem gamess_uk_write_total : guk_write_total_stmt.
Proof. exact GamessUkSpec.guk_write_total. Qed.
Print Assumptions gamess_uk_write_total.

Theorem gamess_uk_no_number_lost : guk_no_number_lost_stmt.
Proof. exact GamessUkSpec.guk_no_number_lost. Qed.
Print Assumptions gamess_uk_no_number_lost.

Theorem gamess_uk_ecp_no_number_lost : guk_ecp_no_number_lost_stmt.
Proof. exact GamessUkSpec.guk_ecp_no_number_lost. Qed.
Print Assumptions gamess_uk_ecp_no_number_lost.

Theorem gamess_uk_ecp_text_ambiguous : guk_ecp_ambiguous_stmt.
Proof. exact GamessUkSpec.guk_ecp_ambiguous. Qed.
Print Assumptions gamess_uk_ecp_text_ambiguous.

Theorem gamess_uk_example : guk_example_stmt.
Proof. exact GamessUkSpec.guk_example. Qed.
Print Assumptions gamess_uk_example.

Theorem jaguar_write_total : jag_write_total_stmt.
Proof. exact JaguarSpec.jag_write_total. Qed.
Print Assumptions jaguar_write_total.

Theorem jaguar_no_number_lost : jag_no_number_lost_stmt.
Proof. exact JaguarSpec.jag_no_number_lost. Qed.
Print Assumptions jaguar_no_number_lost.

Theorem jaguar_ecp_no_number_lost_when_covered : jag_ecp_no_number_lost_stmt.
Proof. exact JaguarSpec.jag_ecp_no_number_lost. Qed.
Print Assumptions jaguar_ecp_no_number_lost_when_covered.

Theorem jaguar_ecp_uncovered_ignored : jag_ecp_uncovered_ignored_stmt.
Proof. exact JaguarSpec.jag_ecp_uncovered_ignored. Qed.
Print Assumptions jaguar_ecp_uncovered_ignored.

Theorem jaguar_ecp_only_lost : jag_ecp_only_lost_stmt.
Proof. exact JaguarSpec.jag_ecp_only_lost. Qed.
Print Assumptions jaguar_ecp_only_lost.

Theorem jaguar_ecp_only_example : jag_ecp_only_example_stmt.
Proof. exact JaguarSpec.jag_ecp_only_example. Qed.
Print Assumptions jaguar_ecp_only_example.

Theorem jaguar_example : jag_example_stmt.
Proof. exact JaguarSpec.jag_example. Qed.
Print Assumptions jaguar_example.

Theorem fhiaims_write_total : fhi_write_total_stmt.
Proof. exact FhiaimsSpec.fhi_write_total. Qed.
Print Assumptions fhiaims_write_total.

Theorem fhiaims_multi_primitive_numbers_kept : fhi_no_number_lost_partial_stmt.
Proof. exact FhiaimsSpec.fhi_no_number_lost_partial. Qed.
Print Assumptions fhiaims_multi_primitive_numbers_kept.

Theorem fhiaims_one_primitive_coefficient_omitted : fhi_no_number_lost_counterexample_stmt.
Proof. exact FhiaimsSpec.fhi_no_number_lost_counterexample. Qed.
Print Assumptions fhiaims_one_primitive_coefficient_omitted.

Theorem fhiaims_gate_refuses_ecp : fhi_guard_stmt.
Proof. exact FhiaimsSpec.fhi_guard_facts. Qed.
Print Assumptions fhiaims_gate_refuses_ecp.

Theorem fhiaims_example : fhi_example_stmt.
Proof. exact FhiaimsSpec.fhi_example. Qed.
Print Assumptions fhiaims_example.

Theorem bdf_write_total : bdf_write_total_stmt.
Proof. exact BdfSpec.bdf_write_total. Qed.
Print Assumptions bdf_write_total.

Theorem bdf_names_every_element : bdf_all_elements_stmt.
Proof. exact BdfSpec.bdf_all_elements_facts. Qed.
Print Assumptions bdf_names_every_element.

Theorem bdf_no_number_lost : bdf_no_number_lost_stmt.
Proof. exact BdfSpec.bdf_no_number_lost. Qed.
Print Assumptions bdf_no_number_lost.

Theorem bdf_ecp_no_number_lost : bdf_ecp_no_number_lost_stmt.
Proof. exact BdfSpec.bdf_ecp_no_number_lost. Qed.
Print Assumptions bdf_ecp_no_number_lost.

Theorem bdf_example : bdf_example_stmt.
Proof. exact BdfSpec.bdf_example. Qed.
Print Assumptions bdf_example.

(* ricdwrap (orbital functions only, by the property text), and the two layouts the property allows to round: acesii - which
   does round: the printed field is proved to be the number rounded half-to-even to 7 decimals of its double
   (aces_exp_spec / aces_coef_spec / aces_rhe_half), each field is part of a line (acesii_fields), and it is a token of its own
   exactly when it leaves a blank in its 14-character field (acesii_no_number_lost_partial; acesii_merged_fields: 6-31+G*-J
   carbon prints two exponents without a separator) - and crystal, which in this version of the code does not round at all:
   every digit is a token (crystal_no_number_lost), the ECP is stated as Z+200 and Z - nelec, and every element with Z >= 99
   is left out silently for every input (crystal_high_z: the recorded known finding). *)
From BSE Require Import Model.Ricdwrap Proofs.RicdwrapDefs Model.Acesii Proofs.AcesiiDefs Model.CrystalW Proofs.CrystalWDefs.
From BSE Require Proofs.RicdwrapSpec Proofs.AcesiiSpec Proofs.CrystalWSpec.

Theorem ricdwrap_write_total : ricdwrap_write_total_stmt.
Proof. exact RicdwrapSpec.ricdwrap_write_total. Qed.
Print Assumptions ricdwrap_write_total.

Theorem ricdwrap_no_number_lost : ricdwrap_no_number_lost_stmt.
Proof. exact RicdwrapSpec.ricdwrap_no_number_lost. Qed.
Print Assumptions ricdwrap_no_number_lost.

Theorem ricdwrap_ecp_ignored : ricdwrap_ecp_ignored_stmt.
Proof. exact RicdwrapSpec.ricdwrap_ecp_ignored. Qed.
Print Assumptions ricdwrap_ecp_ignored.

Theorem ricdwrap_example : ricdwrap_example_stmt.
Proof. exact RicdwrapSpec.ricdwrap_example. Qed.
Print Assumptions ricdwrap_example.

Theorem acesii_write_total : acesii_write_total_stmt.
Proof. exact AcesiiSpec.acesii_write_total. Qed.
Print Assumptions acesii_write_total.

Theorem acesii_fields : acesii_fields_stmt.
Proof. exact AcesiiSpec.acesii_fields. Qed.
Print Assumptions acesii_fields.

Theorem acesii_no_number_lost_when_fields_fit : acesii_no_number_lost_partial_stmt.
Proof. exact AcesiiSpec.acesii_no_number_lost_partial. Qed.
Print Assumptions acesii_no_number_lost_when_fields_fit.

Theorem acesii_ecp_no_number_lost : acesii_ecp_no_number_lost_stmt.
Proof. exact AcesiiSpec.acesii_ecp_no_number_lost. Qed.
Print Assumptions acesii_ecp_no_number_lost.

Theorem acesii_coefficient_rounding : aces_coef_spec_stmt.
Proof. exact AcesiiSpec.aces_coef_spec. Qed.
Print Assumptions acesii_coefficient_rounding.

Theorem acesii_exponent_rounding : aces_exp_spec_stmt.
Proof. exact AcesiiSpec.aces_exp_spec. Qed.
Print Assumptions acesii_exponent_rounding.

Theorem acesii_rounding_is_nearest : aces_rhe_half_stmt.
Proof. exact AcesiiSpec.aces_rhe_half. Qed.
Print Assumptions acesii_rounding_is_nearest.

Theorem acesii_merged_fields : acesii_merged_fields_stmt.
Proof. exact AcesiiSpec.acesii_merged_fields. Qed.
Print Assumptions acesii_merged_fields.

Theorem acesii_small_coefficient_printed_as_zero : acesii_small_coef_stmt.
Proof. exact AcesiiSpec.acesii_small_coef. Qed.
Print Assumptions acesii_small_coefficient_printed_as_zero.

Theorem acesii_trim_integer : acesii_trim_integer_stmt.
Proof. exact AcesiiSpec.acesii_trim_integer. Qed.
Print Assumptions acesii_trim_integer.

Theorem acesii_example : acesii_example_stmt.
Proof. exact AcesiiSpec.acesii_example. Qed.
Print Assumptions acesii_example.

Theorem crystal_write_total : crystal_write_total_stmt.
Proof. exact CrystalWSpec.crystal_write_total. Qed.
Print Assumptions crystal_write_total.

Theorem crystal_no_number_lost : crystal_no_number_lost_stmt.
Proof. exact CrystalWSpec.crystal_no_number_lost. Qed.
Print Assumptions crystal_no_number_lost.

Theorem crystal_ecp_no_number_lost : crystal_ecp_no_number_lost_stmt.
Proof. exact CrystalWSpec.crystal_ecp_no_number_lost. Qed.
Print Assumptions crystal_ecp_no_number_lost.

Theorem crystal_high_z_left_out : crystal_high_z_stmt.
Proof. exact CrystalWSpec.crystal_high_z. Qed.
Print Assumptions crystal_high_z_left_out.

Theorem crystal_ecp_only_raises : crystal_ecp_only_stmt.
Proof. exact CrystalWSpec.crystal_ecp_only. Qed.
Print Assumptions crystal_ecp_only_raises.

Theorem crystal_h_projector_raises : crystal_h_projector_stmt.
Proof. exact CrystalWSpec.crystal_h_projector. Qed.
Print Assumptions crystal_h_projector_raises.

Theorem crystal_example : crystal_example_stmt.
Proof. exact CrystalWSpec.crystal_example. Qed.
Print Assumptions crystal_example.

(* the Gaussian94 ECP blocks: every gaussian exponent / coefficient (with the D marker the writer prints), every r exponent
   and the electron count is a token of the text *)
From BSE Require Import Model.G94Ecp Proofs.G94EcpDefs.
From BSE Require Proofs.G94EcpSpec.
Theorem gaussian94_ecp_no_number_lost : g94_ecp_no_number_lost_stmt.
Proof. exact G94EcpSpec.g94_ecp_no_number_lost. Qed.
Print Assumptions gaussian94_ecp_no_number_lost.

(* writers without a reader, modelled from the code (Model/G94Family.v: gaussian94lib, xtron, psi4 - the three variations of
   write_g94 -, Model/Qchem.v): total on well-formed input, and every exponent, coefficient (with the D marker the writer
   prints), ECP gaussian exponent / coefficient, r exponent and electron count of the normalised basis is a token of some line.
   Counterexample theorems: what makes the writers raise (never silently drop) - momentum >= 26, ragged tables, an ECP potential
   with two coefficient rows (valid for the schema, absent from the store). *)
From BSE Require Import Model.G94Family Proofs.G94FamilyDefs Model.Qchem Proofs.QchemDefs.
From BSE Require Proofs.G94FamilySpec Proofs.QchemSpec.
Theorem g94_family_write_total : g94f_write_total_stmt.
Proof. exact G94FamilySpec.g94f_write_total. Qed.
Print Assumptions g94_family_write_total.

Theorem g94_family_no_number_lost : g94f_no_number_lost_stmt.
Proof. exact G94FamilySpec.g94f_no_number_lost. Qed.
Print Assumptions g94_family_no_number_lost.

Theorem g94_family_ecp_no_number_lost : g94f_ecp_no_number_lost_stmt.
Proof. exact G94FamilySpec.g94f_ecp_no_number_lost. Qed.
Print Assumptions g94_family_ecp_no_number_lost.

Theorem g94_family_flags : g94f_flags_stmt.
Proof. exact G94FamilySpec.g94f_flags. Qed.
Print Assumptions g94_family_flags.

Theorem g94_family_am_bound : g94f_am_bound_stmt.
Proof. exact G94FamilySpec.g94f_am_bound. Qed.
Print Assumptions g94_family_am_bound.

Theorem g94_family_ecp_anyorder : g94f_ecp_anyorder_stmt.
Proof. exact G94FamilySpec.g94f_ecp_anyorder. Qed.
Print Assumptions g94_family_ecp_anyorder.

Theorem g94_family_ecp_coef_rows : g94f_ecp_coef_rows_stmt.
Proof. exact G94FamilySpec.g94f_ecp_coef_rows. Qed.
Print Assumptions g94_family_ecp_coef_rows.

Theorem g94_family_example : g94f_example_stmt.
Proof. exact G94FamilySpec.g94f_example. Qed.
Print Assumptions g94_family_example.

Theorem gaussian94lib_write_total : g94lib_write_total_stmt.
Proof. exact G94FamilySpec.g94lib_write_total. Qed.
Print Assumptions gaussian94lib_write_total.

Theorem gaussian94lib_no_number_lost : g94lib_no_number_lost_stmt.
Proof. exact G94FamilySpec.g94lib_no_number_lost. Qed.
Print Assumptions gaussian94lib_no_number_lost.

Theorem gaussian94lib_ecp_no_number_lost : g94lib_ecp_no_number_lost_stmt.
Proof. exact G94FamilySpec.g94lib_ecp_no_number_lost. Qed.
Print Assumptions gaussian94lib_ecp_no_number_lost.

Theorem xtron_write_total : xtron_write_total_stmt.
Proof. exact G94FamilySpec.xtron_write_total. Qed.
Print Assumptions xtron_write_total.

Theorem xtron_no_number_lost : xtron_no_number_lost_stmt.
Proof. exact G94FamilySpec.xtron_no_number_lost. Qed.
Print Assumptions xtron_no_number_lost.

Theorem xtron_ecp_no_number_lost : xtron_ecp_no_number_lost_stmt.
Proof. exact G94FamilySpec.xtron_ecp_no_number_lost. Qed.
Print Assumptions xtron_ecp_no_number_lost.

Theorem psi4_write_total : psi4_write_total_stmt.
Proof. exact G94FamilySpec.psi4_write_total. Qed.
Print Assumptions psi4_write_total.

Theorem psi4_no_number_lost : psi4_no_number_lost_stmt.
Proof. exact G94FamilySpec.psi4_no_number_lost. Qed.
Print Assumptions psi4_no_number_lost.

Theorem psi4_ecp_no_number_lost : psi4_ecp_no_number_lost_stmt.
Proof. exact G94FamilySpec.psi4_ecp_no_number_lost. Qed.
Print Assumptions psi4_ecp_no_number_lost.

Theorem qchem_write_total : qchem_write_total_stmt.
Proof. exact QchemSpec.qchem_write_total. Qed.
Print Assumptions qchem_write_total.

Theorem qchem_no_number_lost : qchem_no_number_lost_stmt.
Proof. exact QchemSpec.qchem_no_number_lost. Qed.
Print Assumptions qchem_no_number_lost.

Theorem qchem_ecp_no_number_lost : qchem_ecp_no_number_lost_stmt.
Proof. exact QchemSpec.qchem_ecp_no_number_lost. Qed.
Print Assumptions qchem_ecp_no_number_lost.

Theorem qchem_pure : qchem_pure_stmt.
Proof. exact QchemSpec.qchem_pure. Qed.
Print Assumptions qchem_pure.

Theorem qchem_ecp_coef_rows : qchem_ecp_coef_rows_stmt.
Proof. exact QchemSpec.qchem_ecp_coef_rows. Qed.
Print Assumptions qchem_ecp_coef_rows.

Theorem qchem_example : qchem_example_stmt.
Proof. exact QchemSpec.qchem_example. Qed.
Print Assumptions qchem_example.

