(* C04 - every writer emits every number (theorems added as they are proved) *)
From BSE Require Import Model.Val Model.WriterPipe.
