(* C05 - all spellings of a query select the same data (theorems added as they are proved) *)
From BSE Require Import Model.Val Model.Compose.
