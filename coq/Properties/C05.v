(* C05 - all spellings of a query select the same data.  Statements are in Proofs/ComposeDefs.v. *)
From BSE Require Import Model.Val Model.Elements Model.Compose Proofs.ComposeDefs Proofs.ComposeSpec Proofs.SelectSpec.

Theorem name_case_insensitive : name_case_insensitive_stmt.
Proof. exact SelectSpec.name_case_insensitive. Qed.
Print Assumptions name_case_insensitive.

(* every capitalisation of a name gives the same result (data, version handling, selection, errors) *)
Theorem name_spelling : name_spelling_stmt.
Proof. exact SelectSpec.name_spelling. Qed.
Print Assumptions name_spelling.

(* two selections with the same members, in whatever notation or order, select the same data *)
Theorem select_ext : select_ext_stmt.
Proof. exact SelectSpec.select_ext. Qed.
Print Assumptions select_ext.

(* the result for a selection is the full result restricted to it (file order, per-element data identical, function types
   recomputed, other fields unchanged); an empty selection means everything; an undefined element gives KeyError.
   _partial: the hypothesis whole_basis_types els = inr ft0 (the full result's elements are element records) follows from
   full_elements_types below whenever no metadata file carries an "elements" key *)
Theorem select_spec_partial :
  forall d name ver sel zs full fd els ft0,
    get_basis_plain d name ver None = inr full -> full = VDict fd -> assoc "elements" fd = Some (VDict els) ->
    whole_basis_types els = inr ft0 ->
    expand_elements sel = inr zs ->
    match zs with
    | [] => get_basis_plain d name ver (Some sel) = inr full
    | _ =>
      let want := map Z_to_string zs in
      if forallb (fun z => existsb (String.eqb z) (map fst els)) want then
        exists ft, whole_basis_types (filter (fun kv => existsb (String.eqb (fst kv)) want) els) = inr ft /\
          get_basis_plain d name ver (Some sel) =
            inr (VDict (assoc_set "function_types" (VStrs ft)
                          (assoc_set "elements" (VDict (filter (fun kv => existsb (String.eqb (fst kv)) want) els)) fd)))
      else get_basis_plain d name ver (Some sel) = inl EKey
    end.
Proof. exact SelectSpec.select_spec_partial. Qed.
Print Assumptions select_spec_partial.

Theorem full_elements_types :
  forall d name ver fd els,
    get_basis_plain d name ver None = inr (VDict fd) -> assoc "elements" fd = Some (VDict els) ->
    (forall relpath md, read_json_basis d (meta_path relpath) = inr (VDict md) -> assoc "elements" md = None) ->
    exists ft0, whole_basis_types els = inr ft0.
Proof. exact SelectSpec.full_elements_types. Qed.
Print Assumptions full_elements_types.

Theorem unknown_name_is_KeyError : unknown_name_stmt.
Proof. exact SelectSpec.unknown_name. Qed.
Print Assumptions unknown_name_is_KeyError.

Example spelling_demo : transform_basis_name "6-31G*" = transform_basis_name "6-31g*" /\ transform_basis_name "6-31G*" = "6-31g_st_".
Proof. vm_compute. split; reflexivity. Qed.
