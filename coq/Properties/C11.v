(* C11 - the index, filters and role lookups agree with the data store.  Statements are in Proofs/ComposeDefs.v. *)
From BSE Require Import Model.Val Model.Elements Model.Compose Model.Index Model.Memo Gen.GenApi Proofs.ComposeDefs Proofs.ComposeSpec Proofs.IndexSpec.

(* filter_basis_sets = exactly the entries meeting all given criteria, case-insensitively, entries and order unchanged *)
Theorem filter_spec : filter_spec_stmt.
Proof. exact IndexSpec.filter_spec. Qed.
Print Assumptions filter_spec.

Theorem filter_invalid_role_refused : filter_invalid_stmt.
Proof. exact IndexSpec.filter_invalid. Qed.
Print Assumptions filter_invalid_role_refused.

Theorem names_enumerate_index : names_enumerate_stmt.
Proof. exact IndexSpec.names_enumerate. Qed.
Print Assumptions names_enumerate_index.

Theorem families_enumerate_index : families_enumerate_stmt.
Proof. exact IndexSpec.families_enumerate. Qed.
Print Assumptions families_enumerate_index.

Theorem lookup_role_spec : lookup_role_spec_stmt.
Proof. exact IndexSpec.lookup_role_spec. Qed.
Print Assumptions lookup_role_spec.

Example roles_demo : is_role "jkfit" = true /\ is_role "nosuchrole" = false.
Proof. vm_compute. split; reflexivity. Qed.

(* ---- data-level theorems over the shipped index (Gen/GenIndex.v = data/METADATA.json now; finite, by vm_compute) ---- *)
From BSE Require Import Gen.GenIndex Proofs.IndexFinite.

(* for every entry: the key is the transformed display name; every alias maps to a record that is the same up to
   display_name/other_names and lists this name back; every auxiliary name of every role exists in the index (so
   lookup_basis_by_role returns only existing basis sets); latest_version is listed and is the numeric maximum;
   every version's file path is <relpath>/<basename>.<version>.table.json; role and family are valid *)
Theorem shipped_index_entries_ok : forall kv, In kv shipped_index -> entry_checks kv = true.
Proof. exact shipped_entry_ok. Qed.
Print Assumptions shipped_index_entries_ok.

Theorem shipped_index_keys_distinct : nodup_strs (map fst shipped_index) = true.
Proof. exact shipped_keys_distinct. Qed.
Print Assumptions shipped_index_keys_distinct.

(* ---- index generation (curate.create_metadata_file): the generated index is exactly the union of what each basis metadata
   file with its table files determines.  Statements in Proofs/IndexMetaDefs.v ---- *)
From BSE Require Import Proofs.IndexMetaDefs.
From BSE Require Proofs.IndexMetaSpec.

(* keys pairwise distinct and strictly sorted *)
Theorem create_metadata_keys : create_metadata_keys_stmt.
Proof. exact IndexMetaSpec.create_metadata_keys. Qed.
Print Assumptions create_metadata_keys.

(* no entry is invented, none is lost, a key determines its metadata file and its entry *)
Theorem create_metadata_sound : create_metadata_sound_stmt.
Proof. exact IndexMetaSpec.create_metadata_sound. Qed.
Print Assumptions create_metadata_sound.

Theorem create_metadata_complete : create_metadata_complete_stmt.
Proof. exact IndexMetaSpec.create_metadata_complete. Qed.
Print Assumptions create_metadata_complete.

Theorem create_metadata_key_unique : create_metadata_key_unique_stmt.
Proof. exact IndexMetaSpec.create_metadata_key_unique. Qed.
Print Assumptions create_metadata_key_unique.

(* one entry: key = transformed listed name, other_names = the other listed names, relpath/basename = where the metadata file is,
   versions = exactly the table files <basename>.<version>.table.json beside it (each listed with its own path),
   latest_version = the numeric maximum of the versions *)
Theorem one_meta_entry : one_meta_entry_stmt.
Proof. exact IndexMetaSpec.one_meta_entry. Qed.
Print Assumptions one_meta_entry.

Theorem one_meta_names : one_meta_names_stmt.
Proof. exact IndexMetaSpec.one_meta_names. Qed.
Print Assumptions one_meta_names.

(* aliases share everything but display_name / other_names *)
Theorem one_meta_aliases : one_meta_aliases_stmt.
Proof. exact IndexMetaSpec.one_meta_aliases. Qed.
Print Assumptions one_meta_aliases.

Theorem ver_max_spec : ver_max_spec_stmt.
Proof. exact IndexMetaSpec.ver_max_spec. Qed.
Print Assumptions ver_max_spec.
