(* C11 - the index, filters and role lookups agree with the data store (theorems added as they are proved) *)
From BSE Require Import Model.Val Model.Compose Model.Index.
