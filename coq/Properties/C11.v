(* C11 - the index, filters and role lookups agree with the data store.  Statements are in Proofs/ComposeDefs.v. *)
From BSE Require Import Model.Val Model.Elements Model.Compose Model.Index Model.Memo Gen.GenApi Proofs.ComposeDefs Proofs.ComposeSpec Proofs.IndexSpec.

(* filter_basis_sets = exactly the entries meeting all given criteria, case-insensitively, entries and order unchanged *)
Theorem filter_spec : filter_spec_stmt.
Proof. exact IndexSpec.filter_spec. Qed.
Print Assumptions filter_spec.

Theorem filter_invalid_role_refused : filter_invalid_stmt.
Proof. exact IndexSpec.filter_invalid. Qed.
Print Assumptions filter_invalid_role_refused.

Theorem names_enumerate_index : names_enumerate_stmt.
Proof. exact IndexSpec.names_enumerate. Qed.
Print Assumptions names_enumerate_index.

Theorem families_enumerate_index : families_enumerate_stmt.
Proof. exact IndexSpec.families_enumerate. Qed.
Print Assumptions families_enumerate_index.

Theorem lookup_role_spec : lookup_role_spec_stmt.
Proof. exact IndexSpec.lookup_role_spec. Qed.
Print Assumptions lookup_role_spec.

Example roles_demo : is_role "jkfit" = true /\ is_role "nosuchrole" = false.
Proof. vm_compute. split; reflexivity. Qed.

(* ---- data-level theorems over the shipped index (Gen/GenIndex.v = data/METADATA.json now; finite, by vm_compute) ---- *)
From BSE Require Import Gen.GenIndex Proofs.IndexFinite.

(* for every entry: the key is the transformed display name; every alias maps to a record that is the same up to
   display_name/other_names and lists this name back; every auxiliary name of every role exists in the index (so
   lookup_basis_by_role returns only existing basis sets); latest_version is listed and is the numeric maximum;
   every version's file path is <relpath>/<basename>.<version>.table.json; role and family are valid *)
Theorem shipped_index_entries_ok : forall kv, In kv shipped_index -> entry_checks kv = true.
Proof. exact shipped_entry_ok. Qed.
Print Assumptions shipped_index_entries_ok.

Theorem shipped_index_keys_distinct : nodup_strs (map fst shipped_index) = true.
Proof. exact shipped_keys_distinct. Qed.
Print Assumptions shipped_index_keys_distinct.
