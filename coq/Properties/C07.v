(* C07 - primitive-level operations do exactly what they are defined to do.
   Statements are in Proofs/SortDefs.v (Sections C07Stmts, OptStmts, Naturality). *)
From Coq Require Import QArith.
Close Scope Q_scope.
From BSE Require Import Model.Val Model.Num Model.Basis Model.Manip Model.ManipS Gen.GenConsts.
From BSE Require Import Proofs.FSDefs Proofs.SortDefs Proofs.NumDefs Proofs.NumInstance Proofs.C07Spec Proofs.WfCompute.

Definition K : carrier_ok is0_s same_s String.eqb lit_make_general_zero lit_unc_seg_one lit_optimize_zero := num_instance.

(* uncontract_segmented (with its seen-set): the function set is exactly one unit function per (momentum, primitive) *)
Theorem uncontract_segmented_spec : unc_seg_shells_spec_stmt is0_s same_s lit_unc_seg_one.
Proof. exact (@C07Spec.unc_seg_shells_spec _ _ _ _ _ _ _ K). Qed.
Print Assumptions uncontract_segmented_spec.

(* ... no (momentum, primitive) is emitted twice, also not through a combined shell next to a plain one ... *)
Theorem uncontract_segmented_nodup : unc_seg_shells_nodup_stmt same_s lit_unc_seg_one.
Proof. exact (@C07Spec.unc_seg_shells_nodup _ _ _ _ _ _ _ K). Qed.
Print Assumptions uncontract_segmented_nodup.

(* ... and every emitted shell is the unit shell of a primitive of an input shell, for a non-empty selection of its momenta *)
Theorem uncontract_segmented_shape : unc_seg_shells_shape_stmt same_s lit_unc_seg_one.
Proof. exact (@C07Spec.unc_seg_shells_shape _ same_s lit_unc_seg_one). Qed.
Print Assumptions uncontract_segmented_shape.

(* remove_free_primitives (before the final prune): exactly the functions with two or more non-zero coefficients,
   for every well-formed shell list, fused shells included *)
Theorem remove_free_primitives_spec : rm_free_spec_all_stmt is0_s same_s.
Proof. exact (@C07Spec.rm_free_spec_all _ is0_s same_s). Qed.
Print Assumptions remove_free_primitives_spec.

Theorem remove_free_primitives_wf : rm_free_wf_all_stmt is0_s.
Proof. exact (@C07Spec.rm_free_wf_all _ is0_s). Qed.
Print Assumptions remove_free_primitives_wf.

(* optimize_general on rational coefficients: same linear span per shell, never more non-zero coefficients *)
Theorem optimize_general_span : opt_shell_span_stmt.
Proof. exact C07Spec.opt_shell_span. Qed.
Print Assumptions optimize_general_span.

(* the generic code commutes with every map of the carrier preserving the zero test, so the statement about the
   rational instance transfers to the decimal-string instance that is extracted and run *)
Theorem optimize_general_natural :
  forall (A B : Type) (is0A : A -> bool) (is0B : B -> bool) (h : A -> B) (zA : A) (zB : B),
    opt_shell_natural_stmt is0A is0B h zA zB.
Proof. exact C07Spec.opt_shell_natural. Qed.
Print Assumptions optimize_general_natural.

Definition demo_shells : list (shell string) :=
  [ mkShell "gto" "" [0%Z; 1%Z] ["5.0"; "1.2"] [["0.1"; "0.9"]; ["0.2"; "0.8"]];
    mkShell "gto" "" [0%Z] ["30.0"; "5.00"; "0.4"] [["0.3"; "0.7"; "0.0"]; ["0.0"; "0.0"; "1.0"]] ].
Example demo_wf : wf_shells is0_s demo_shells.
Proof. apply wf_shellsb_ok; vm_compute; reflexivity. Qed.
