(* C07 - primitive-level operations (theorems added as they are proved) *)
From BSE Require Import Model.Val Model.Basis Model.Manip.
