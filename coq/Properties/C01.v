(* C01 - get_basis returns exactly the curated data it is composed from (theorems added as they are proved) *)
From BSE Require Import Model.Val Model.Compose.
